/-
  C08 ⇄ C05 — the classifier the evaluators of C05 build and score (lean/Vita/C05/Classify.lean,
  namespace `Cls`) IS the lambda model of C08 (Model.lean): definition by definition, for every
  number type and every discretization / exp / isnan.  Helper lemmas for Props.lean.
-/
import Vita.C08.Model
import Vita.C05.Classify
import Vita.C05.Lemmas
import Vita.C05.ClsLemmas
namespace Vita.C08
open Vita.C05 Vita.C05.Num NumN

/-- C05's number class instantiated with C08's library functions -/
@[reducible] def numC {F} [NumN F] (fns : Fns F) : NumC F :=
  { (inferInstance : Num F) with
    ofNat := NumN.ofNat, half := NumN.half, exp := fns.exp, isNaN := fns.isNaN, cut := fns.cut, disc := fns.disc }

variable {F : Type} [NumN F] (fns : Fns F)

theorem valOr0_eq (o : Option F) : Cls.valOr0 o = valOr0 o := rfl

theorem slot_eq (out : Option F) (ns : Nat) : @Cls.slot F (numC fns) out ns = slot fns out ns := rfl

theorem incr_eq (m : List (List Nat)) (r c : Nat) : Cls.incr m r c = incr m r c := rfl

theorem bestClass_eq (row : List Nat) : Cls.bestClass row = bestClass row := rfl

theorem nextOr0_eq (u : Nat) (l : List Nat) : Cls.nextOr0 u l = nextOr0 u l := by
  cases l <;> rfl

theorem repairVal_eq (u : Nat) (p : Option Nat) (l : List Nat) : Cls.repairVal u p l = repairVal u p l := by
  unfold Cls.repairVal repairVal
  cases p <;> simp [nextOr0_eq]

theorem repair_eq (u : Nat) (l : List Nat) : ∀ p, Cls.repair u p l = repair u p l := by
  induction l with
  | nil => intro p; simp [Cls.repair, repair]
  | cons x rest ih =>
    intro p
    simp only [Cls.repair, repair, repairVal_eq, ih]

theorem fillMatrix_eq (classes xslot : Nat) (train : List (Option F × Nat)) :
    (@Cls.fillMatrix F (numC fns) classes xslot train).mat = (fillMatrix fns classes xslot train).mat ∧
    (@Cls.fillMatrix F (numC fns) classes xslot train).cls = (fillMatrix fns classes xslot train).cls := by
  unfold Cls.fillMatrix fillMatrix
  simp only [repair_eq]
  exact ⟨rfl, rfl⟩

theorem confOfRow_eq (row : List Nat) (c : Nat) : @Cls.confOfRow F (numC fns) row c = confOfRow row c := rfl

/-- the dyn-slot classifier of C05's evaluator = C08's `dynTag ∘ fillMatrix` -/
theorem dynTag_eq (classes xslot : Nat) (train : List (Option F × Nat)) (out : Option F) :
    @Cls.dynTag F (numC fns) (@Cls.fillMatrix F (numC fns) classes xslot train) out =
      dynTag fns (fillMatrix fns classes xslot train) out := by
  obtain ⟨h1, h2⟩ := fillMatrix_eq fns classes xslot train
  unfold Cls.dynTag dynTag
  simp only [h1, h2, slot_eq, confOfRow_eq]

/-! Gaussian -/

def toCls (d : Dist F) : Cls.Dist F := ⟨d.count, d.mean, d.m2⟩

theorem push_eq (d : Dist F) (v : F) : @Cls.Dist.push F (numC fns) (toCls d) v = toCls (d.push fns v) := by
  unfold Cls.Dist.push Dist.push toCls
  show (if fns.isNaN v = true then _ else _) = _
  split <;> rfl

theorem cutVal_eq (o : Option F) : @Cls.cutVal F (numC fns) o = cutVal fns o := rfl

theorem modify_map {α β} (f : α → β) (g : α → α) (g' : β → β) (h : ∀ a, f (g a) = g' (f a)) (l : List α) (i : Nat) :
    (l.modify i g).map f = (l.map f).modify i g' := by
  induction l generalizing i with
  | nil => simp
  | cons x xs ih =>
    cases i with
    | zero => simp [h]
    | succ i => simp [ih]

theorem fillVector_eq (classes : Nat) (train : List (Option F × Nat)) :
    @Cls.fillVector F (numC fns) classes train = (fillVector fns classes train).map toCls := by
  unfold Cls.fillVector fillVector
  have h0 : List.replicate classes (@Cls.Dist.empty F _) = (List.replicate classes (⟨0, zero, zero⟩ : Dist F)).map toCls := by
    simp [toCls, Cls.Dist.empty]
  rw [h0]
  generalize List.replicate classes (⟨0, zero, zero⟩ : Dist F) = ds
  induction train generalizing ds with
  | nil => rfl
  | cons e rest ih =>
    simp only [List.foldl_cons]
    rw [← ih]
    congr 1
    rw [modify_map toCls (fun d => d.push fns (cutVal fns e.1))
      (fun d => @Cls.Dist.push F (numC fns) d (cutVal fns e.1)) (fun a => (push_eq fns a _).symm)]
    rfl

theorem pushAll_eq (xs : List F) : ∀ d : Dist F,
    @Cls.pushAll F (numC fns) (toCls d) xs = toCls (xs.foldl (Dist.push fns) d) := by
  induction xs with
  | nil => intro d; rfl
  | cons x rest ih =>
    intro d
    show @Cls.pushAll F (numC fns) (@Cls.Dist.push F (numC fns) (toCls d) x) rest = _
    rw [push_eq, ih]
    rfl

theorem gaussP_eq (x : F) (d : Dist F) : @Cls.gaussP F (numC fns) x (toCls d) = gaussP fns x d := rfl

theorem pickGo_eq (ps : List F) : ∀ i s, Cls.pickGo ps i s = gaussPickGo ps i s := by
  induction ps with
  | nil => intro i s; rfl
  | cons p rest ih =>
    intro i s
    obtain ⟨c, v, sum⟩ := s
    simp only [Cls.pickGo, gaussPickGo, ih]

theorem conf_eq (r : Nat × F × F) : Cls.conf r = gaussConf r := rfl

/-- the Gaussian classifier of C05's evaluator = C08's `gaussTag ∘ fillVector` -/
theorem gaussTag_eq (classes : Nat) (train : List (Option F × Nat)) (out : Option F) :
    @Cls.gaussTag F (numC fns) (@Cls.fillVector F (numC fns) classes train) out =
      gaussTag fns (fillVector fns classes train) out := by
  unfold Cls.gaussTag gaussTag Cls.pick gaussPick
  rw [fillVector_eq]
  simp only [List.map_map]
  have : (@Cls.gaussP F (numC fns) (Cls.valOr0 out)) ∘ toCls = gaussP fns (valOr0 out) := by
    funext d; exact gaussP_eq fns _ d
  rw [this, pickGo_eq]
  rfl

theorem binTag_eq (o : Option F) : Cls.binTag o = binTag o := rfl

theorem wta_eq (tags : List (Nat × F)) : Cls.wta tags = wta tags := by
  cases tags <;> rfl

/-! ### the model `lambdify` hands out: one classifier per member program, combined winner-takes-all
    (a single member for an individual) -/

/-- per-member classifiers of `dyn_slot_lambda_f` built from the training set `d` -/
def dynModels (classes xslot members : Nat) (d : List (Cls.TEx F)) : List (Option F → Nat × F) :=
  (List.range members).map (fun m => dynTag fns (fillMatrix fns classes xslot (Cls.memberTrain d m)))

def gaussModels (classes members : Nat) (d : List (Cls.TEx F)) : List (Option F → Nat × F) :=
  (List.range members).map (fun m => gaussTag fns (fillVector fns classes (Cls.memberTrain d m)))

def binModels (members : Nat) : List (Option F → Nat × F) := (List.range members).map (fun _ => binTag)

/-- `team_class_lambda_f<…, wta>::tag` / the single classifier's `tag` on an example whose member
    outputs are `outs` -/
def predict (models : List (Option F → Nat × F)) (outs : List (Option F)) : Nat × F :=
  wta (models.zipIdx.map (fun tm => tm.1 (outs.getD tm.2 none)))

theorem dynTaggers_eq (classes xslot members : Nat) (d : List (Cls.TEx F)) :
    @Cls.dynTaggers F (numC fns) classes xslot members d = dynModels fns classes xslot members d := by
  unfold Cls.dynTaggers dynModels
  apply List.map_congr_left
  intro m _
  funext out
  exact dynTag_eq fns classes xslot _ out

theorem gaussTaggers_eq (classes members : Nat) (d : List (Cls.TEx F)) :
    @Cls.gaussTaggers F (numC fns) classes members d = gaussModels fns classes members d := by
  unfold Cls.gaussTaggers gaussModels
  apply List.map_congr_left
  intro m _
  funext out
  exact gaussTag_eq fns classes _ out

theorem binTaggers_eq (members : Nat) : Cls.binTaggers (F := F) members = binModels members := rfl

theorem teamTag_eq (models : List (Option F → Nat × F)) (e : Cls.TEx F) :
    Cls.teamTag models e = predict models e.outs := by
  unfold Cls.teamTag predict
  exact wta_eq _

/-- the examples as the C05 loops see them, tagged by the lambda model -/
def scored (models : List (Option F → Nat × F)) (d : List (Cls.TEx F)) : List (CEx F) :=
  d.map (fun e => ⟨(predict models e.outs).1, (predict models e.outs).2, e.label, e.difficulty⟩)

theorem tagAll_eq (models : List (Option F → Nat × F)) (d : List (Cls.TEx F)) :
    Cls.tagAll models d = scored models d := by
  unfold Cls.tagAll scored Cls.toCEx
  apply List.map_congr_left
  intro e _
  rw [teamTag_eq]

/-- rows of the training set the model predicts right / wrong -/
def nCorrect (models : List (Option F → Nat × F)) (d : List (Cls.TEx F)) : Nat :=
  (d.filter (fun e => (predict models e.outs).1 == e.label)).length

def nMislabelled (models : List (Option F → Nat × F)) (d : List (Cls.TEx F)) : Nat :=
  (d.filter (fun e => (predict models e.outs).1 != e.label)).length

theorem correct_add_mislabelled (models : List (Option F → Nat × F)) (d : List (Cls.TEx F)) :
    nCorrect models d + nMislabelled models d = d.length := by
  unfold nCorrect nMislabelled
  induction d with
  | nil => rfl
  | cons e rest ih =>
    simp only [List.filter_cons, List.length_cons]
    by_cases h : (predict models e.outs).1 = e.label <;> simp [h] <;> omega

theorem nWrong_scored (models : List (Option F → Nat × F)) (d : List (Cls.TEx F)) :
    nWrong (scored models d) = nMislabelled models d := by
  unfold nWrong scored nMislabelled
  rw [List.filter_map, List.length_map]
  rfl

end Vita.C08
