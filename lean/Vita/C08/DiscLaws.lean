/-
  C08 — `sigmoid_01` / `discretization` (src/utility/discretization.h) and the team confidence rules
  for DOUBLES: the IEEE-754 / libm facts they rest on as a structure of HYPOTHESES (`DiscLaws`),
  what follows from them, and a model of the laws over exact rationals (they are consistent).
-/
import Vita.C08.Laws
namespace Vita.C08
open Vita.C05 Vita.C05.Num NumN Elem

/-- facts about `std::atan`, `std::fma`, `std::round` and the conversions between `std::size_t` and
    `double` – HYPOTHESES of the `_ieee` theorems below (a structure, not axioms) -/
structure DiscLaws (F : Type) [Elem F] where
  nan : F → Prop
  /-- `π/2` rounded: `|atan x| ≤ atanMax` for EVERY non-NaN `x`, `±∞` included (atan never overflows) -/
  atanMax : F
  atan_range : ∀ x : F, ¬ nan x → le (neg atanMax) (atan x) = true ∧ le (atan x) atanMax = true
  /-- `atanMax · 0.31830988618 < 0.5` and `fma` is correctly rounded, hence monotone -/
  sig_range : ∀ a : F, le (neg atanMax) a = true → le a atanMax = true →
    nn (fma a invPi half) ∧ le (fma a invPi half) (one : F) = true
  /-- scaling a value of [0,1] to `[0, m]` (`m` exactly representable) stays in range -/
  scale_range : ∀ (m : Nat) (s : F), m < 2 ^ 53 → nn s → le s (one : F) = true →
    nn (fma (ofNat m) s (ofNat 0)) ∧ le (fma (ofNat m) s (ofNat 0)) (ofNat m : F) = true
  /-- `std::round` of a value of `[0, m]` is an integer of `[0, m]` -/
  round_range : ∀ (m : Nat) (y : F), m < 2 ^ 53 → nn y → le y (ofNat m : F) = true →
    ∃ k : Nat, k ≤ m ∧ round y = (ofNat k : F)
  /-- `static_cast<std::size_t>` of a small non-negative integral double is exact -/
  toNat_ofNat : ∀ k : Nat, k < 2 ^ 53 → toNat (ofNat k : F) = k

section
variable {F : Type} [Elem F] (L : DiscLaws F)

include L in
/-- `sigmoid_01(x) ∈ [0, 1]` for every double that is not NaN: huge magnitudes and `±∞` included,
    nothing overflows (`atan` is bounded) -/
theorem sigmoid01_unit_ieee' (x : F) (hx : ¬ L.nan x) :
    nn (sigmoid01 x) ∧ le (sigmoid01 x) (one : F) = true := by
  obtain ⟨h1, h2⟩ := L.atan_range x hx
  exact L.sig_range _ h1 h2

include L in
/-- `discretization(x, max) ∈ [0, max]` for every non-NaN double and every table size below 2^53 -/
theorem discretization_le_max_ieee' (x : F) (hx : ¬ L.nan x) (max : Nat) (hm : max < 2 ^ 53) :
    discretization x max ≤ max := by
  obtain ⟨h1, h2⟩ := sigmoid01_unit_ieee' L x hx
  obtain ⟨h3, h4⟩ := L.scale_range max (sigmoid01 x) hm h1 h2
  obtain ⟨k, hk, hr⟩ := L.round_range max _ hm h3 h4
  show toNat (round (fma (ofNat max) (sigmoid01 x) (ofNat 0 : F))) ≤ max
  rw [hr, L.toNat_ofNat k (by omega)]
  exact hk
end

/-! ### the laws hold for exact rationals with a piecewise-linear "atan" (consistency) -/

/-- exact-arithmetic stand-ins: a clamp for atan (bounded, monotone), exact fma, round half up -/
@[reducible] def ratElem : Elem Rat where
  atan x := if x < -1 then -(3 / 2) else if 1 < x then 3 / 2 else 3 / 2 * x
  fma a b c := a * b + c
  round y := (((y + 1 / 2).floor.toNat : Nat) : Rat)
  toNat y := y.floor.toNat
  invPi := 31830988618 / 100000000000

theorem rat_nn (x : Rat) : nn x ↔ 0 ≤ x := by simp [nn]

theorem floor_natCast' (k : Nat) : ((k : Nat) : Rat).floor = (k : Int) := by
  have : ((k : Nat) : Rat) = ((k : Int) : Rat) := (Rat.intCast_natCast k).symm
  rw [this, Rat.floor_intCast]

def ratDiscLaws : @DiscLaws Rat ratElem :=
  letI := ratElem
  { nan := fun _ => False
    atanMax := 3 / 2
    atan_range := by
      intro x _
      show le (-(3 / 2 : Rat)) (if x < -1 then -(3 / 2) else if 1 < x then 3 / 2 else 3 / 2 * x) = true ∧
        le (if x < -1 then -(3 / 2) else if 1 < x then 3 / 2 else 3 / 2 * x) (3 / 2 : Rat) = true
      simp only [rat_le, decide_eq_true_eq]
      split
      · constructor <;> grind
      · split
        · constructor <;> grind
        · constructor <;> grind
    sig_range := by
      intro a h1 h2
      show nn (a * (31830988618 / 100000000000) + 1 / 2 : Rat) ∧
        le (a * (31830988618 / 100000000000) + 1 / 2 : Rat) 1 = true
      have h1' : -(3 / 2 : Rat) ≤ a := by simpa using h1
      have h2' : a ≤ (3 / 2 : Rat) := by simpa using h2
      rw [rat_nn]
      simp only [rat_le, decide_eq_true_eq]
      constructor <;> grind
    scale_range := by
      intro m s _ hs1 hs2
      show nn ((m : Rat) * s + ((0 : Nat) : Rat)) ∧ le ((m : Rat) * s + ((0 : Nat) : Rat)) (m : Rat) = true
      have h0 : (0 : Rat) ≤ s := (rat_nn s).mp hs1
      have h1 : s ≤ 1 := by simpa using hs2
      have hm : (0 : Rat) ≤ (m : Rat) := Rat.natCast_nonneg
      have hz : ((0 : Nat) : Rat) = 0 := by simp
      rw [rat_nn, hz]
      simp only [rat_le, decide_eq_true_eq]
      have hp : 0 ≤ (m : Rat) * s := Rat.mul_nonneg hm h0
      have hq : (m : Rat) * s ≤ (m : Rat) * 1 := Rat.mul_le_mul_of_nonneg_left h1 hm
      constructor <;> grind
    round_range := by
      intro m y _ hy1 hy2
      refine ⟨(y + 1 / 2).floor.toNat, ?_, rfl⟩
      have h1 : y ≤ (m : Rat) := by
        have := hy2
        simp only [rat_le, decide_eq_true_eq] at this
        exact this
      have hlt : (y + 1 / 2).floor < ((m + 1 : Nat) : Int) := by
        rw [Rat.floor_lt_iff]
        have : (((m + 1 : Nat) : Int) : Rat) = (m : Rat) + 1 := by
          rw [Rat.intCast_natCast, Rat.natCast_add]; simp
        rw [this]; grind
      omega
    toNat_ofNat := by
      intro k _
      show ((k : Nat) : Rat).floor.toNat = k
      rw [floor_natCast']; simp }

end Vita.C08
