/-
  C08 line-protocol driver: evaluates the models of Model.lean with hardware doubles.
  Doubles travel as decimal 64-bit patterns, `nan` = any NaN, `u` = "no value".

    reg <i|t> <M> <ntrain> <nq> <target>*ntrain  (<out>*(ntrain+nq))*M      (i = individual, t = team)
        -> ans <v|u>*(ntrain+nq) acc <a>
    regf <mae|rmae|mse|count> <i|t> <M> <ntrain> <nq> <target>*ntrain  (<out>*(ntrain+nq))*M
        -> ans <v|u>*(ntrain+nq) acc <a> fit <f>     (fit: C05's evaluator of that kind fed with the MODEL's values)
    <dyn|gau|bin> <wta|mv|-> <classes> <xslot> <M> <ntrain> <nq> <label>*ntrain (<out>*(ntrain+nq))*M
        -> ans (<label> <sureness>)*(ntrain+nq) acc <a> fit <f>
  `M` = number of programs (1 = an individual, `-`), outputs are per member, training rows first.
  `fit` is the fitness the corresponding evaluator of C05 returns for this model on the training
  rows (`-` for a majority-voting team: no evaluator uses it).
-/
import Vita.C08.Model
import Vita.C08.Bridge
open Vita.C05 Vita.C08

@[extern "fma"] opaque cFma : Float → Float → Float → Float

instance : Elem Float where
  atan := Float.atan
  fma := cFma
  round := Float.round
  toNat f := f.toUInt64.toNat
  invPi := 0.31830988618

def floatFns : Fns Float :=
  { disc := fun v last => discretization v last, exp := Float.exp, isNaN := Float.isNaN, cut := 10000000.0 }

def parseF (s : String) : Option Float :=
  if s == "nan" then some (0.0 / 0.0) else (s.toNat?).map (fun n => Float.ofBits n.toUInt64)

def parseO (s : String) : Option (Option Float) :=
  if s == "u" then some none else (parseF s).map some

def showF (f : Float) : String := if f.isNaN then "nan" else toString f.toBits.toNat

def showO : Option Float → String
  | some f => showF f
  | none => "u"

/-- split `xs` into `m` chunks of length `k` -/
def chunks {α} (k : Nat) : Nat → List α → Option (List (List α))
  | 0, [] => some []
  | 0, _ => none
  | m + 1, xs => if xs.length < k then none else do
      let tl ← chunks k m (xs.drop k)
      pure (xs.take k :: tl)

/-- column `i` of the member-major output table -/
def column (tbl : List (List (Option Float))) (i : Nat) : List (Option Float) :=
  tbl.map (fun row => (row.getD i none))

def showFit (fit : List Float) : String :=
  match fit with
  | [f] => showF f
  | _ => "bad"

def parseKind (s : String) : Option ErrKind :=
  if s == "mae" then some .mae else if s == "rmae" then some .rmae
  else if s == "mse" then some .mse else if s == "count" then some .count else none

def answerReg (kind : Option ErrKind) (team : Bool) (m ntrain nq : Nat) (rest : List String) : String :=
  match (rest.take ntrain).mapM parseF, ((rest.drop ntrain).mapM parseO) with
  | some targets, some outs =>
    match chunks (ntrain + nq) m outs with
    | some tbl =>
      let vals := (List.range (ntrain + nq)).map (fun i =>
        if !team then regValue ((column tbl i).getD 0 none) else teamValue (column tbl i))
      let acc : Float := accuracyReg ((vals.take ntrain).zip targets)
      let fit := match kind with
        | none => ""
        | some k =>
          -- the sum-of-errors evaluator of C05 scoring the values THIS model returns
          let exs : List (Ex Float) := ((vals.take ntrain).zip targets).map (fun (o, t) => ⟨o, t, 0⟩)
          " fit " ++ showFit (evalFull (errF k) exs).1
      "ans" ++ String.join (vals.map (fun v => " " ++ showO v)) ++ " acc " ++ showF acc ++ fit
    | none => "bad-op"
  | _, _ => "bad-op"

def answerCls (kind comp : String) (classes xslot m ntrain nq : Nat) (rest : List String) : String :=
  match (rest.take ntrain).mapM String.toNat?, ((rest.drop ntrain).mapM parseO) with
  | some labels, some outs =>
    match chunks (ntrain + nq) m outs with
    | some tbl =>
      -- one classifier per member, each trained on the training rows
      let memberTag : List (Option Float → Nat × Float) := tbl.map (fun row =>
        let train := (row.take ntrain).zip labels
        if kind == "dyn" then dynTag floatFns (fillMatrix floatFns classes xslot train)
        else if kind == "gau" then gaussTag floatFns (fillVector floatFns classes train)
        else binTag)
      let tagAt (i : Nat) : Nat × Float :=
        let tags := (memberTag.zip tbl).map (fun (f, row) => f (row.getD i none))
        if comp == "-" then tags.getD 0 (0, 0.0)
        else if comp == "wta" then wta tags
        else mv classes tags
      let ans := (List.range (ntrain + nq)).map tagAt
      let trainAns := ans.take ntrain
      let acc : Float := accuracyClass ((trainAns.map (·.1)).zip labels)
      let cexs : List (CEx Float) := (trainAns.zip labels).map (fun (t, l) => ⟨t.1, t.2, l, 0⟩)
      -- the fitness: C05's END-TO-END evaluator model (Classify.lean) fed with the member outputs – by
      -- `dyn/gauss/bin_evaluator_scores_lambdify` it scores exactly the answers computed above; both
      -- routes are evaluated and must agree
      let texs : List (Cls.TEx Float) := (List.range ntrain).map (fun i => ⟨column tbl i, labels.getD i 0, 0⟩)
      let fitE := if kind == "dyn" then (@Cls.dynSlotEvaluator Float (numC floatFns) classes xslot m texs).1
        else if kind == "gau" then (@Cls.gaussianEvaluator Float (numC floatFns) classes m texs).1
        else (@Cls.binaryEvaluator Float (numC floatFns) m texs).1
      let fitM := if kind == "gau" then (gaussEval (NumN.ofNat (classes - 1)) cexs).1 else (countEval cexs).1
      let fit := if comp == "mv" then "-"
        else if showFit fitE == showFit fitM then showFit fitM
        else "evaluator-model-mismatch " ++ showFit fitE ++ " " ++ showFit fitM
      "ans" ++ String.join (ans.map (fun t => " " ++ toString t.1 ++ " " ++ showF t.2)) ++
        " acc " ++ showF acc ++ " fit " ++ fit
    | none => "bad-op"
  | _, _ => "bad-op"

def answer (line : String) : String :=
  match line.trimAscii.toString.splitOn " " with
  | "reg" :: ti :: m :: ntrain :: nq :: rest =>
    match m.toNat?, ntrain.toNat?, nq.toNat? with
    | some m, some ntrain, some nq =>
      if m == 0 || (ti != "i" && ti != "t") || (ti == "i" && m != 1) then "bad-op"
      else answerReg none (ti == "t") m ntrain nq rest
    | _, _, _ => "bad-op"
  | "regf" :: kind :: ti :: m :: ntrain :: nq :: rest =>
    match parseKind kind, m.toNat?, ntrain.toNat?, nq.toNat? with
    | some k, some m, some ntrain, some nq =>
      if m == 0 || (ti != "i" && ti != "t") || (ti == "i" && m != 1) then "bad-op"
      else answerReg (some k) (ti == "t") m ntrain nq rest
    | _, _, _, _ => "bad-op"
  | kind :: comp :: classes :: xslot :: m :: ntrain :: nq :: rest =>
    if kind != "dyn" && kind != "gau" && kind != "bin" then "bad-op"
    else if comp != "-" && comp != "wta" && comp != "mv" then "bad-op"
    else
      match classes.toNat?, xslot.toNat?, m.toNat?, ntrain.toNat?, nq.toNat? with
      | some classes, some xslot, some m, some ntrain, some nq =>
        if m == 0 || (comp == "-" && m != 1) then "bad-op"
        else answerCls kind comp classes xslot m ntrain nq rest
      | _, _, _, _, _ => "bad-op"
  | ["disc", v, mx] =>
    match parseF v, mx.toNat? with
    | some v, some mx => toString (discretization v mx)
    | _, _ => "bad-op"
  | _ => "bad-op"

partial def loop (h : IO.FS.Stream) (out : IO.FS.Stream) : IO Unit := do
  let line ← h.getLine
  if line.isEmpty then return ()
  out.putStrLn (answer line)
  loop h out

def main : IO Unit := do
  loop (← IO.getStdin) (← IO.getStdout)
