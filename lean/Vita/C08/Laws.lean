/-
  C08 — IEEE-754 facts behind "confidence in [0, 1]" for doubles, as a structure of HYPOTHESES
  (`ConfLaws`), the lemmas that follow from them, and a proof that exact rationals satisfy them.
-/
import Vita.C08.Lemmas
import Vita.C05.Laws
namespace Vita.C08
open Vita.C05 Vita.C05.Num NumN

/-- IEEE-754 facts behind "confidence in [0,1]" for doubles – HYPOTHESES of the `_ieee`
    theorems (a structure, not axioms). `nan` = the NaN class of the number type. -/
structure ConfLaws (F : Type) [NumN F] where
  nan : F → Prop
  zero_nn : nn (zero : F)
  zero_le_one : le (zero : F) one = true
  half_nn : nn (half : F)
  half_le_one : le (half : F) one = true
  /-- correctly rounded division is monotone: `0 ≤ a/b ≤ 1` for naturals `a ≤ b`, `b > 0`
      (converted with `static_cast<double>`) -/
  frac_unit : ∀ a b : Nat, a ≤ b → 0 < b → nn (div (ofNat a : F) (ofNat b)) ∧ le (div (ofNat a : F) (ofNat b)) one = true
  /-- `<` is false on NaN and transports `0 ≤` -/
  lt_not_nan : ∀ x y : F, lt x y = true → ¬ nan x ∧ ¬ nan y
  lt_nn : ∀ x y : F, nn x → lt x y = true → nn y
  add_nan : ∀ x y : F, nan x ∨ nan y → nan (add x y)
  /-- adding a value ≥ 0 never decreases a sum (or gives NaN) -/
  add_mono : ∀ v s p : F, nn s → nn p → le v s = true → nan (add s p) ∨ (nn (add s p) ∧ le v (add s p) = true)
  add_ge : ∀ s p : F, nn s → nn p → nan (add s p) ∨ (nn (add s p) ∧ le p (add s p) = true)
  le_refl_nn : ∀ x : F, nn x → le x x = true
  /-- `0 ≤ v ≤ s`, `0 < s` : `0 ≤ v/s ≤ 1` -/
  div_unit : ∀ v s : F, nn v → le v s = true → lt zero s = true → nn (div v s) ∧ le (div v s) one = true

section
variable {F : Type} [NumN F] (L : ConfLaws F)

include L in
/-- dyn-slot confidence for doubles: in [0,1] for every table state -/
theorem confOfRow_unit_ieee (row : List Nat) (c : Nat) :
    nn (confOfRow (F := F) row c) ∧ le (confOfRow (F := F) row c) one = true := by
  unfold confOfRow
  simp only []
  split
  · exact ⟨L.half_nn, L.half_le_one⟩
  · rename_i h
    exact L.frac_unit _ _ (getD_le_sum row c) (by omega)

/-- invariant of the Gaussian selection loop: `val ≥ 0` and (`sum` is NaN or `0 ≤ val ≤ sum`) -/
def PickInv (s : Nat × F × F) : Prop := nn s.2.1 ∧ (L.nan s.2.2 ∨ (nn s.2.2 ∧ le s.2.1 s.2.2 = true))

theorem gaussPickGo_inv_ieee (ps : List F) (hp : ∀ p ∈ ps, nn p ∨ L.nan p) :
    ∀ (i : Nat) (s : Nat × F × F), PickInv L s → PickInv L (gaussPickGo ps i s) := by
  induction ps with
  | nil => intro i s h; simpa [gaussPickGo] using h
  | cons p rest ih =>
    intro i s hs
    obtain ⟨c, v, sum⟩ := s
    have hr : ∀ q ∈ rest, nn q ∨ L.nan q := fun q hq => hp q (by simp [hq])
    have hp0 := hp p (by simp)
    obtain ⟨hv, hsum⟩ := hs
    simp only at hv hsum
    simp only [gaussPickGo]
    split
    · rename_i hlt
      apply ih hr
      have hpn : nn p := L.lt_nn v p hv hlt
      refine ⟨hpn, ?_⟩
      rcases hsum with hn | ⟨hs1, _⟩
      · exact Or.inl (L.add_nan _ _ (Or.inl hn))
      · rcases L.add_ge sum p hs1 hpn with h | h
        · exact Or.inl h
        · exact Or.inr h
    · apply ih hr
      refine ⟨hv, ?_⟩
      rcases hsum with hn | ⟨hs1, hs2⟩
      · exact Or.inl (L.add_nan _ _ (Or.inl hn))
      · rcases hp0 with hpn | hpn
        · rcases L.add_mono v sum p hs1 hpn hs2 with h | h
          · exact Or.inl h
          · exact Or.inr h
        · exact Or.inl (L.add_nan _ _ (Or.inr hpn))

/-- Gaussian confidence for doubles: in [0,1] whenever every per-class score is ≥ 0 or NaN -/
theorem gaussConf_unit_ieee (ps : List F) (hp : ∀ p ∈ ps, nn p ∨ L.nan p) :
    nn (gaussConf (gaussPick ps)) ∧ le (gaussConf (gaussPick ps)) one = true := by
  have inv := gaussPickGo_inv_ieee L ps hp 0 (0, zero, zero)
    ⟨L.zero_nn, Or.inr ⟨L.zero_nn, L.le_refl_nn _ L.zero_nn⟩⟩
  unfold gaussConf gaussPick
  generalize gaussPickGo ps 0 (0, (zero : F), (zero : F)) = r at *
  obtain ⟨c, v, s⟩ := r
  obtain ⟨hv, hs⟩ := inv
  simp only at hv hs ⊢
  split
  · rename_i hlt
    rcases hs with hn | ⟨_, hle⟩
    · exact absurd hn (L.lt_not_nan _ _ hlt).2
    · exact L.div_unit v s hv hle hlt
  · exact ⟨L.zero_nn, L.zero_le_one⟩
end

/-- the laws are consistent: exact rationals satisfy them -/
def ratConfLaws : ConfLaws Rat where
  nan _ := False
  zero_nn := by simp [nn]
  zero_le_one := by simp; grind
  half_nn := by show nn ((1:Rat)/2); simp [nn]; grind
  half_le_one := by show le ((1:Rat)/2) 1 = true; simp; grind
  frac_unit := by
    intro a b h _
    have := natFrac_unit a b h
    show nn ((a:Rat) / (b:Rat)) ∧ le ((a:Rat) / (b:Rat)) 1 = true
    simpa [nn] using this
  lt_not_nan := by simp
  lt_nn := by intro x y hx h; simp [nn] at *; grind
  add_nan := by simp
  add_mono := by intro v s p hs hp h; right; simp [nn] at *; constructor <;> grind
  add_ge := by intro s p hs hp; right; simp [nn] at *; constructor <;> grind
  le_refl_nn := by intro x _; simp
  div_unit := by
    intro v s hv hle hlt
    simp [nn] at *
    constructor
    · exact div_nonneg' _ _ hv (Rat.le_of_lt hlt)
    · rw [Rat.div_def]
      have hinv : 0 < s⁻¹ := Rat.inv_pos.mpr hlt
      have h1 : v * s⁻¹ ≤ s * s⁻¹ := Rat.mul_le_mul_of_nonneg_right hle (Rat.le_of_lt hinv)
      have h2 : s * s⁻¹ = 1 := by grind
      grind


end Vita.C08
