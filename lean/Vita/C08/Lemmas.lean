/-
  C08 — helper lemmas for Props.lean (no property statements here).
-/
import Vita.C08.Model
import Vita.C05.Lemmas
namespace Vita.C08
open Vita.C05 Vita.C05.Num NumN


theorem slot_lt {F} (fns : Fns F) (out : Option F) (ns : Nat) (h : 0 < ns) : slot fns out ns < ns := by
  unfold slot
  cases out with
  | none => simp; omega
  | some v => simp only []; split <;> omega

/-! bestClass -/
theorem bestClass_fold_lt (row : List Nat) (l : List Nat) (n : Nat) (hl : ∀ j ∈ l, j < n) :
    ∀ b, b < n → l.foldl (fun b j => if 1 ≤ j ∧ row.getD j 0 ≥ row.getD b 0 then j else b) b < n := by
  induction l with
  | nil => intro b hb; simpa
  | cons j rest ih =>
    intro b hb
    simp only [List.foldl_cons]
    apply ih (fun x hx => hl x (by simp [hx]))
    split
    · exact hl j (by simp)
    · exact hb

theorem bestClass_lt (row : List Nat) (h : 0 < row.length) : bestClass row < row.length := by
  unfold bestClass
  exact bestClass_fold_lt row _ _ (by intro j hj; simpa using hj) 0 h

/-! repair -/
theorem repair_length (u : Nat) (l : List Nat) : ∀ prev, (repair u prev l).length = l.length := by
  induction l with
  | nil => intro prev; simp [repair]
  | cons x rest ih =>
    intro prev
    simp only [repair]
    split <;> simp [ih]

theorem repair_lt (u : Nat) (hu : 0 < u) (l : List Nat) (hl : ∀ x ∈ l, x ≤ u) :
    ∀ prev, (∀ p, prev = some p → p ≤ u) → ∀ y ∈ repair u prev l, y < u := by
  induction l with
  | nil => intro prev _ y hy; simp [repair] at hy
  | cons x rest ih =>
    intro prev hprev y hy
    have hx := hl x (by simp)
    have hrest : ∀ z ∈ rest, z ≤ u := fun z hz => hl z (by simp [hz])
    simp only [repair] at hy
    split at hy
    · rename_i hne
      simp only [List.mem_cons] at hy
      rcases hy with rfl | hy
      · omega
      · exact ih hrest (some x) (by intro p hp; cases hp; exact hx) y hy
    · have hnext : nextOr0 u rest < u := by
        cases rest with
        | nil => simpa [nextOr0]
        | cons y ys =>
          simp only [nextOr0]
          have := hrest y (by simp)
          split <;> omega
      have hvlt : repairVal u prev rest < u := by
        unfold repairVal
        cases prev with
        | none => exact hnext
        | some p =>
          simp only []
          have := hprev p rfl
          split
          · omega
          · exact hnext
      simp only [List.mem_cons] at hy
      rcases hy with rfl | hy
      · exact hvlt
      · exact ih hrest _ (by intro p hp; cases hp; omega) y hy


def RowsOK (m : List (List Nat)) (k : Nat) : Prop := ∀ row ∈ m, row.length = k

theorem incr_length (m : List (List Nat)) (r c : Nat) : (incr m r c).length = m.length := by
  simp [incr]

theorem incr_rows (m : List (List Nat)) (k : Nat) (h : RowsOK m k) : ∀ r c, RowsOK (incr m r c) k := by
  unfold incr RowsOK at *
  induction m with
  | nil => intro r c row hrow; simp at hrow
  | cons x xs ih =>
    intro r c row hrow
    cases r with
    | zero =>
      simp only [List.modify_zero_cons, List.mem_cons] at hrow
      rcases hrow with rfl | hrow
      · simp [h x (by simp)]
      · exact h row (by simp [hrow])
    | succ r =>
      simp only [List.modify_succ_cons, List.mem_cons] at hrow
      rcases hrow with rfl | hrow
      · exact h _ (by simp)
      · exact ih (fun y hy => h y (by simp [hy])) r c row hrow

theorem fold_incr_inv {α} (f : α → Nat × Nat) (l : List α) (k n : Nat) :
    ∀ m : List (List Nat), m.length = n → RowsOK m k →
      (l.foldl (fun m e => incr m (f e).1 (f e).2) m).length = n ∧
      RowsOK (l.foldl (fun m e => incr m (f e).1 (f e).2) m) k := by
  induction l with
  | nil => intro m h1 h2; exact ⟨h1, h2⟩
  | cons e rest ih =>
    intro m h1 h2
    simp only [List.foldl_cons]
    exact ih _ (by rw [incr_length]; exact h1) (incr_rows m k h2 _ _)

theorem getD_le_sum (row : List Nat) (c : Nat) : row.getD c 0 ≤ row.sum := by
  induction row generalizing c with
  | nil => simp
  | cons x xs ih =>
    cases c with
    | zero => simp
    | succ c =>
      simp only [List.getD_cons_succ, List.sum_cons]
      have := ih c
      omega


/-! gaussPick -/
theorem gaussPickGo_lt {F} [Num F] (ps : List F) :
    ∀ (i n : Nat) (s : Nat × F × F), i + ps.length = n → s.1 < n → 0 < n → (gaussPickGo ps i s).1 < n := by
  induction ps with
  | nil => intro i n s _ hs _; simpa [gaussPickGo]
  | cons p rest ih =>
    intro i n s hi hs hn
    obtain ⟨c, v, sum⟩ := s
    simp only [gaussPickGo]
    simp only [List.length_cons] at hi
    split
    · exact ih (i + 1) n _ (by omega) (by simp; omega) hn
    · exact ih (i + 1) n _ (by omega) hs hn

theorem gaussPick_lt {F} [Num F] (ps : List F) (h : 0 < ps.length) : (gaussPick ps).1 < ps.length := by
  unfold gaussPick
  exact gaussPickGo_lt ps 0 ps.length _ (by simp) h h

/-- invariant of the selection loop over Rat: 0 ≤ val ≤ sum -/
theorem gaussPickGo_inv (ps : List Rat) (hp : ∀ p ∈ ps, 0 ≤ p) :
    ∀ (i : Nat) (s : Nat × Rat × Rat), 0 ≤ s.2.1 → s.2.1 ≤ s.2.2 →
      0 ≤ (gaussPickGo ps i s).2.1 ∧ (gaussPickGo ps i s).2.1 ≤ (gaussPickGo ps i s).2.2 := by
  induction ps with
  | nil => intro i s h1 h2; simpa [gaussPickGo] using ⟨h1, h2⟩
  | cons p rest ih =>
    intro i s h1 h2
    obtain ⟨c, v, sum⟩ := s
    have hp0 := hp p (by simp)
    have hr : ∀ q ∈ rest, 0 ≤ q := fun q hq => hp q (by simp [hq])
    simp only [gaussPickGo]
    simp only at h1 h2
    split
    · apply ih hr
      · exact hp0
      · simp only [rat_add]; grind
    · apply ih hr
      · exact h1
      · simp only [rat_add]; grind

theorem gaussConf_unit (ps : List Rat) (hp : ∀ p ∈ ps, 0 ≤ p) :
    0 ≤ gaussConf (gaussPick ps) ∧ gaussConf (gaussPick ps) ≤ 1 := by
  have := gaussPickGo_inv ps hp 0 (0, (0:Rat), (0:Rat)) (by simp) (by simp)
  unfold gaussConf gaussPick
  simp only [rat_zero, rat_lt, rat_div] at *
  generalize gaussPickGo ps 0 (0, (0:Rat), (0:Rat)) = r at *
  obtain ⟨c, v, s⟩ := r
  simp only at *
  split
  · rename_i h
    simp only [decide_eq_true_eq] at h
    constructor
    · exact div_nonneg' _ _ this.1 (Rat.le_of_lt h)
    · rw [Rat.div_def]
      have hinv : 0 < s⁻¹ := Rat.inv_pos.mpr h
      have h1 : v * s⁻¹ ≤ s * s⁻¹ := Rat.mul_le_mul_of_nonneg_right this.2 (Rat.le_of_lt hinv)
      have h2 : s * s⁻¹ = 1 := by grind
      grind
  · constructor <;> grind

/-! wta -/
theorem wta_fold_mem {F} [Num F] (rest : List (Nat × F)) :
    ∀ (t : Nat × F) (all : List (Nat × F)), t ∈ all → (∀ r ∈ rest, r ∈ all) →
      rest.foldl (fun best r => if lt best.2 r.2 then r else best) t ∈ all := by
  induction rest with
  | nil => intro t all ht _; simpa
  | cons r rs ih =>
    intro t all ht hr
    simp only [List.foldl_cons]
    apply ih
    · split
      · exact hr r (by simp)
      · exact ht
    · intro x hx; exact hr x (by simp [hx])

theorem wta_mem' {F} [Num F] (tags : List (Nat × F)) (h : tags ≠ []) : wta tags ∈ tags := by
  cases tags with
  | nil => exact absurd rfl h
  | cons t rest =>
    simp only [wta]
    exact wta_fold_mem rest t (t :: rest) (by simp) (fun r hr => by simp [hr])

/-! majority voting -/
theorem argMax_fold_lt (votes : List Nat) (l : List Nat) (n : Nat) (hl : ∀ j ∈ l, j < n) :
    ∀ m, m < n → l.foldl (fun m i => if 1 ≤ i ∧ votes.getD i 0 > votes.getD m 0 then i else m) m < n := by
  induction l with
  | nil => intro b hb; simpa
  | cons j rest ih =>
    intro b hb
    simp only [List.foldl_cons]
    apply ih (fun x hx => hl x (by simp [hx]))
    split
    · exact hl j (by simp)
    · exact hb

theorem votesOf_length (classes : Nat) (labels : List Nat) : (votesOf classes labels).length = classes := by
  unfold votesOf
  suffices h : ∀ v : List Nat, v.length = classes → (labels.foldl (fun v l => v.modify l (· + 1)) v).length = classes by
    exact h _ (by simp)
  induction labels with
  | nil => intro v hv; simpa
  | cons l ls ih => intro v hv; simp only [List.foldl_cons]; exact ih _ (by simp [hv])

theorem argMaxVotes_lt (votes : List Nat) (h : 0 < votes.length) : argMaxVotes votes < votes.length := by
  unfold argMaxVotes
  exact argMax_fold_lt votes _ _ (by intro j hj; simpa using hj) 0 h

theorem sum_modify_le (v : List Nat) (l : Nat) : (v.modify l (· + 1)).sum ≤ v.sum + 1 := by
  induction v generalizing l with
  | nil => simp
  | cons x xs ih =>
    cases l with
    | zero => simp; omega
    | succ l => simp only [List.modify_succ_cons, List.sum_cons]; have := ih l; omega

theorem votesOf_sum_le (classes : Nat) (labels : List Nat) : (votesOf classes labels).sum ≤ labels.length := by
  unfold votesOf
  suffices h : ∀ v : List Nat, (labels.foldl (fun v l => v.modify l (· + 1)) v).sum ≤ v.sum + labels.length by
    have := h (List.replicate classes 0)
    simpa using this
  induction labels with
  | nil => intro v; simp
  | cons l ls ih =>
    intro v
    simp only [List.foldl_cons, List.length_cons]
    have h1 := ih (v.modify l (· + 1))
    have h2 := sum_modify_le v l
    omega

/-! fractions of natural numbers -/
theorem natFrac_unit (a b : Nat) (h : a ≤ b) : (0 : Rat) ≤ (a : Rat) / (b : Rat) ∧ (a : Rat) / (b : Rat) ≤ 1 := by
  have ha : (0:Rat) ≤ (a : Rat) := Rat.natCast_nonneg
  have hb : (0:Rat) ≤ (b : Rat) := Rat.natCast_nonneg
  refine ⟨div_nonneg' _ _ ha hb, ?_⟩
  by_cases hb0 : b = 0
  · subst hb0; simp; grind
  · have hbpos : (0:Rat) < (b : Rat) := Rat.natCast_pos.mpr (by omega)
    have hab : (a : Rat) ≤ (b : Rat) := Rat.natCast_le_natCast.mpr h
    rw [Rat.div_def]
    have hinv : 0 < (b : Rat)⁻¹ := Rat.inv_pos.mpr hbpos
    have h1 : (a : Rat) * (b : Rat)⁻¹ ≤ (b : Rat) * (b : Rat)⁻¹ :=
      Rat.mul_le_mul_of_nonneg_right hab (Rat.le_of_lt hinv)
    have h2 : (b : Rat) * (b : Rat)⁻¹ = 1 := by grind
    grind

/-! team mean -/
theorem teamFold_eq {F} [Num F] (outs : List (Option F)) :
    ∀ s : F × F, outs.foldl teamStep s = runMean s (outs.filterMap id) := by
  induction outs with
  | nil => intro s; simp [runMean]
  | cons o rest ih =>
    intro s
    cases o with
    | none => simp only [List.foldl_cons, teamStep, List.filterMap_cons, id]; exact ih s
    | some v =>
      simp only [List.foldl_cons, teamStep, List.filterMap_cons, id, runMean]
      rw [ih]; rfl

/-! the documented rules -/

/-- known entries survive the repair pass -/
theorem repair_keeps (u : Nat) (l : List Nat) : ∀ prev i, (h : i < l.length) → l[i] ≠ u →
    (repair u prev l)[i]? = some l[i] := by
  induction l with
  | nil => intro prev i h; simp at h
  | cons x rest ih =>
    intro prev i h hne
    cases i with
    | zero =>
      simp only [List.getElem_cons_zero] at hne
      simp [repair, hne]
    | succ i =>
      simp only [List.getElem_cons_succ] at hne
      simp only [repair]
      split
      · simp only [List.getElem?_cons_succ, List.getElem_cons_succ]
        exact ih _ i (by simpa using h) hne
      · simp only [List.getElem?_cons_succ, List.getElem_cons_succ]
        exact ih _ i (by simpa using h) hne

/-- `bestClass` picks a column with the maximal counter -/
theorem bestClass_fold_max (row : List Nat) (l : List Nat) :
    ∀ b, (∀ j ∈ l, 1 ≤ j ∨ row.getD j 0 ≤ row.getD b 0) →
      (∀ j ∈ l, row.getD j 0 ≤ row.getD (l.foldl (fun b j => if 1 ≤ j ∧ row.getD j 0 ≥ row.getD b 0 then j else b) b) 0) ∧
      row.getD b 0 ≤ row.getD (l.foldl (fun b j => if 1 ≤ j ∧ row.getD j 0 ≥ row.getD b 0 then j else b) b) 0 := by
  induction l with
  | nil => intro b _; simp
  | cons j rest ih =>
    intro b hb
    simp only [List.foldl_cons, List.mem_cons, forall_eq_or_imp]
    have hj := hb j (by simp)
    by_cases hc : 1 ≤ j ∧ row.getD j 0 ≥ row.getD b 0
    · simp only [hc, and_self, if_true]
      have h := ih j (fun x hx => by
        rcases hb x (by simp [hx]) with h1 | h1
        · exact Or.inl h1
        · exact Or.inr (by omega))
      exact ⟨⟨h.2, h.1⟩, by have := h.2; omega⟩
    · simp only [hc, if_false]
      have h := ih b (fun x hx => hb x (by simp [hx]))
      refine ⟨⟨?_, h.1⟩, h.2⟩
      rcases hj with h1 | h1
      · have : row.getD j 0 < row.getD b 0 := by
          have : ¬ row.getD j 0 ≥ row.getD b 0 := fun hh => hc ⟨h1, hh⟩
          omega
        have := h.2; omega
      · have := h.2; omega

theorem bestClass_max (row : List Nat) (j : Nat) : row.getD j 0 ≤ row.getD (bestClass row) 0 := by
  unfold bestClass
  have h := bestClass_fold_max row (List.range row.length) 0 (by
    intro x _
    by_cases hx : 1 ≤ x
    · exact Or.inl hx
    · have : x = 0 := by omega
      subst this; exact Or.inr (Nat.le_refl _))
  by_cases hj : j < row.length
  · exact h.1 j (by simpa using hj)
  · have : row.getD j 0 = 0 := by
      rw [List.getD_eq_getElem?_getD, List.getElem?_eq_none (by omega)]; rfl
    omega

/-- the selected score is an upper bound of all scores (exact arithmetic, scores ≥ 0) -/
theorem gaussPickGo_max (ps : List Rat) :
    ∀ (i : Nat) (s : Nat × Rat × Rat),
      s.2.1 ≤ (gaussPickGo ps i s).2.1 ∧ ∀ p ∈ ps, p ≤ (gaussPickGo ps i s).2.1 := by
  induction ps with
  | nil => intro i s; simp [gaussPickGo]
  | cons p rest ih =>
    intro i s
    obtain ⟨c, v, sum⟩ := s
    simp only [gaussPickGo, rat_lt, rat_add, decide_eq_true_eq]
    split
    · rename_i h
      have := ih (i + 1) (i, p, sum + p)
      simp only at this
      refine ⟨by have := this.1; grind, ?_⟩
      intro q hq
      simp only [List.mem_cons] at hq
      rcases hq with rfl | hq
      · exact this.1
      · exact this.2 q hq
    · rename_i h
      have := ih (i + 1) (c, v, sum + p)
      simp only at this
      refine ⟨this.1, ?_⟩
      intro q hq
      simp only [List.mem_cons] at hq
      rcases hq with rfl | hq
      · have := this.1; grind
      · exact this.2 q hq

/-! Welford: the variance the Gaussian classifier reads is never negative (exact arithmetic) -/
theorem push_m2_nonneg (fns : Fns Rat) (d : Dist Rat) (v : Rat) (h : 0 ≤ d.m2) :
    0 ≤ (d.push fns v).m2 := by
  unfold Dist.push
  split
  · exact h
  · simp only [rat_sub, rat_add, rat_div, rat_mul]
    generalize (if d.count = 0 then v else d.mean) = m0
    have hc : (0:Rat) < ((d.count + 1 : Nat) : Rat) := Rat.natCast_pos.mpr (by omega)
    show 0 ≤ (if d.count + 1 > 1 then d.m2 + (v - m0) * (v - (m0 + (v - m0) / ((d.count + 1 : Nat) : Rat)))
      else (v - m0) * (v - (m0 + (v - m0) / ((d.count + 1 : Nat) : Rat))))
    have hc1 : (1:Rat) ≤ ((d.count + 1 : Nat) : Rat) := by
      have : ((1 : Nat) : Rat) ≤ ((d.count + 1 : Nat) : Rat) := Rat.natCast_le_natCast.mpr (by omega)
      simpa using this
    generalize ((d.count + 1 : Nat) : Rat) = c at *
    have key : (v - m0) * (v - (m0 + (v - m0) / c)) = (v - m0) * (v - m0) * ((c - 1) / c) := by grind
    have hsq := mul_self_nonneg (v - m0)
    have hfr : 0 ≤ (c - 1) / c := div_nonneg' _ _ (by grind) (by grind)
    have hterm := Rat.mul_nonneg hsq hfr
    rw [key]
    split
    · exact Rat.add_nonneg h hterm
    · exact hterm

/-! the documented rules of the team compositions -/

/-- `argMaxVotes` picks a class with the largest number of votes -/
theorem argMax_fold_max (votes : List Nat) (l : List Nat) :
    ∀ b, (∀ j ∈ l, 1 ≤ j ∨ votes.getD j 0 ≤ votes.getD b 0) →
      (∀ j ∈ l, votes.getD j 0 ≤ votes.getD (l.foldl (fun m i => if 1 ≤ i ∧ votes.getD i 0 > votes.getD m 0 then i else m) b) 0) ∧
      votes.getD b 0 ≤ votes.getD (l.foldl (fun m i => if 1 ≤ i ∧ votes.getD i 0 > votes.getD m 0 then i else m) b) 0 := by
  induction l with
  | nil => intro b _; simp
  | cons j rest ih =>
    intro b hb
    simp only [List.foldl_cons, List.mem_cons, forall_eq_or_imp]
    have hj := hb j (by simp)
    by_cases hc : 1 ≤ j ∧ votes.getD j 0 > votes.getD b 0
    · simp only [hc, and_self, if_true]
      have h := ih j (fun x hx => by
        rcases hb x (by simp [hx]) with h1 | h1
        · exact Or.inl h1
        · exact Or.inr (by omega))
      exact ⟨⟨h.2, h.1⟩, by have := h.2; omega⟩
    · simp only [hc, if_false]
      have h := ih b (fun x hx => hb x (by simp [hx]))
      refine ⟨⟨?_, h.1⟩, h.2⟩
      rcases hj with h1 | h1
      · have : votes.getD j 0 ≤ votes.getD b 0 := by
          have : ¬ votes.getD j 0 > votes.getD b 0 := fun hh => hc ⟨h1, hh⟩
          omega
        have := h.2; omega
      · have := h.2; omega

theorem argMaxVotes_max (votes : List Nat) (j : Nat) : votes.getD j 0 ≤ votes.getD (argMaxVotes votes) 0 := by
  unfold argMaxVotes
  have h := argMax_fold_max votes (List.range votes.length) 0 (by
    intro x _
    by_cases hx : 1 ≤ x
    · exact Or.inl hx
    · have : x = 0 := by omega
      subst this; exact Or.inr (Nat.le_refl _))
  by_cases hj : j < votes.length
  · exact h.1 j (by simpa using hj)
  · have : votes.getD j 0 = 0 := by
      rw [List.getD_eq_getElem?_getD, List.getElem?_eq_none (by omega)]; rfl
    omega

/-- winner takes all: no member is surer than the winner (exact arithmetic) -/
theorem wta_fold_max (rest : List (Nat × Rat)) :
    ∀ t : Nat × Rat, t.2 ≤ (rest.foldl (fun best r => if lt best.2 r.2 then r else best) t).2 ∧
      ∀ r ∈ rest, r.2 ≤ (rest.foldl (fun best r => if lt best.2 r.2 then r else best) t).2 := by
  induction rest with
  | nil => intro t; simp
  | cons r rs ih =>
    intro t
    simp only [List.foldl_cons]
    by_cases h : lt t.2 r.2 = true
    · simp only [h, if_true]
      have hlt : t.2 < r.2 := by simpa using h
      have := ih r
      refine ⟨Rat.le_trans (Rat.le_of_lt hlt) this.1, ?_⟩
      intro q hq
      simp only [List.mem_cons] at hq
      rcases hq with rfl | hq
      · exact this.1
      · exact this.2 q hq
    · simp only [h]
      have hle : r.2 ≤ t.2 := by
        have : ¬ t.2 < r.2 := by simpa using h
        exact Rat.not_lt.mp this
      have := ih t
      refine ⟨this.1, ?_⟩
      intro q hq
      simp only [List.mem_cons] at hq
      rcases hq with rfl | hq
      · exact Rat.le_trans hle this.1
      · exact this.2 q hq

end Vita.C08
