/-
  C08 — invariants of the lifetime model (helper lemmas for Props.lean).
-/
import Vita.C08.Lifetime
namespace Vita.C08.Life
variable {P : Type}

/-- invariant of the storing flavour, for every object except number `x` (`none`: for all) -/
structure InvX (st : St P) (x : Option Nat) : Prop where
  own : ∀ i o, some i ≠ x → st.objs i = some o → o.stored = true →
    o.ptr = o.cell ∧ st.heap o.cell = some o.prog ∧ o.cell < st.next ∧ st.ext o.cell = false ∧
    (o.valid = true → o.built = some o.prog)
  inj : ∀ i j oi oj, some i ≠ x → some j ≠ x → st.objs i = some oi → st.objs j = some oj →
    oi.stored = true → oj.stored = true → oi.cell = oj.cell → i = j
  extlt : ∀ a, st.ext a = true → a < st.next
  objlt : ∀ i o, some i ≠ x → st.objs i = some o → i < st.nobj

abbrev InvS (st : St P) : Prop := InvX st none

theorem InvX.weaken {st : St P} (h : InvS st) (x : Option Nat) : InvX st x :=
  ⟨fun i o _ => h.own i o (by simp), fun i j oi oj _ _ => h.inj i j oi oj (by simp) (by simp), h.extlt,
   fun i o _ => h.objlt i o (by simp)⟩

theorem inv_init : InvS (St.init : St P) :=
  ⟨by intro i o _ h; simp [St.init] at h, by intro i j oi oj _ _ h; simp [St.init] at h,
   by intro a h; simp [St.init] at h, by intro i o _ h; simp [St.init] at h⟩

theorem okCtor_assign (m : Member) (h : okCtorMember m = true) : okAssignMember m = true := by
  simpa [okCtorMember, okAssignMember] using h

theorem upd2_cases {α : Type} (f : Nat → Option α) (i j : Nat) (a b : α) (n : Nat) (o : α)
    (h : upd (upd f j (some b)) i (some a) n = some o) :
    (n = i ∧ o = a) ∨ (n ≠ i ∧ n = j ∧ o = b) ∨ (n ≠ i ∧ n ≠ j ∧ f n = some o) := by
  by_cases hni : n = i
  · subst hni; simp only [upd_same, Option.some.injEq] at h; exact Or.inl ⟨rfl, h.symm⟩
  · rw [upd_other _ _ _ _ hni] at h
    by_cases hnj : n = j
    · subst hnj; simp only [upd_same, Option.some.injEq] at h; exact Or.inr (Or.inl ⟨hni, rfl, h.symm⟩)
    · rw [upd_other _ _ _ _ hnj] at h; exact Or.inr (Or.inr ⟨hni, hnj, h⟩)

/-- the core: running a well-formed member with target `t` (to be stored as object `i`) and source
    `s` (object `j`) re-establishes the invariant for everybody, `i` included -/
theorem runMember_inv (junk : P → P) (m : Member) (st : St P) (i j : Nat)
    (t s : Obj P) (hm : s.stored = true → okAssignMember m = true) (hij : i ≠ j)
    (hinv : InvX st (some i)) (hs : st.objs j = some s) (hi : i < st.nobj)
    (hts : t.stored = s.stored)
    (htc : t.stored = true → t.cell < st.next ∧ st.ext t.cell = false ∧
      ∀ k o, k ≠ i → st.objs k = some o → o.stored = true → o.cell ≠ t.cell) :
    InvS (runMember junk m st i j t s) := by
  have hji : some j ≠ some i := by intro h; injection h with h; exact hij h.symm
  have ne_i : ∀ k, k ≠ i → some k ≠ some i := by intro k hk h; injection h with h; exact hk h
  by_cases hst : s.stored = true
  · -- storing flavour
    have htst : t.stored = true := by rw [hts]; exact hst
    obtain ⟨htlt, htext, htfresh⟩ := htc htst
    obtain ⟨hsptr, hsheap, hslt, hsext, hsbuilt⟩ := hinv.own j s hji hs hst
    have hcne : t.cell ≠ s.cell := fun h => htfresh j s hij.symm hs hst h.symm
    have hm := hm hst
    simp only [okAssignMember, Bool.and_eq_true, Bool.or_eq_true, beq_iff_eq] at hm
    obtain ⟨hind, hptr⟩ := hm
    have hcond : (t.stored && s.stored && t.cell != s.cell) = true := by simp [htst, hst, hcne]
    -- the heap after the individuals have been copied / moved
    have hT : (applyInd junk m.ind st.heap t s).1 t.cell = some s.prog := by
      rcases hind with h | h
      · simp [applyInd, hcond, h, hsheap]
      · simp [applyInd, hcond, h, upd_other _ _ _ _ hcne, hsheap]
    have hS : (applyInd junk m.ind st.heap t s).1 s.cell = some (applyInd junk m.ind st.heap t s).2 := by
      rcases hind with h | h
      · simp [applyInd, hcond, h, upd_other _ _ _ _ (Ne.symm hcne), hsheap]
      · simp [applyInd, hcond, h]
    have hO : ∀ c, c ≠ t.cell → c ≠ s.cell → (applyInd junk m.ind st.heap t s).1 c = st.heap c := by
      intro c h1 h2
      rcases hind with h | h
      · simp [applyInd, hcond, h, upd_other _ _ _ _ h1]
      · simp [applyInd, hcond, h, upd_other _ _ _ _ h1, upd_other _ _ _ _ h2]
    have hSv : (s.valid && !(t.stored && s.stored && m.ind.movesFrom)) = true →
        s.built = some (applyInd junk m.ind st.heap t s).2 := by
      intro hv
      simp only [Bool.and_eq_true, htst, hst, Bool.true_and, Bool.not_eq_true'] at hv
      rcases hind with h | h
      · have : (applyInd junk m.ind st.heap t s).2 = s.prog := by simp [applyInd, hcond, h]
        rw [this]; exact hsbuilt hv.1
      · simp [h, IndAct.movesFrom] at hv
    have hq : applyPtr m.ptr (applyInd junk m.ind st.heap t s).1 t s =
        ((t.cell, (applyInd junk m.ind st.heap t s).1 t.cell), (s.ptr, s.built)) := by
      simp [applyPtr, hptr]
    refine ⟨?_, ?_, ?_, ?_⟩
    · intro k o _ hk hos
      simp only [runMember, hq] at hk ⊢
      rcases upd2_cases _ _ _ _ _ _ _ hk with ⟨rfl, rfl⟩ | ⟨_, rfl, rfl⟩ | ⟨hki, hkj, hk'⟩
      · exact ⟨rfl, hT, htlt, htext, fun _ => hT⟩
      · exact ⟨hsptr, hS, hslt, hsext, hSv⟩
      · obtain ⟨h1, h2, h3, h4, h5⟩ := hinv.own k o (ne_i k hki) hk' hos
        have hne1 : o.cell ≠ t.cell := htfresh k o hki hk' hos
        have hne2 : o.cell ≠ s.cell := fun h => hkj (hinv.inj k j o s (ne_i k hki) hji hk' hs hos hst h)
        exact ⟨h1, by rw [hO _ hne1 hne2]; exact h2, h3, h4, h5⟩
    · intro k l ok ol _ _ hk hl hoks hols hcell
      simp only [runMember, hq] at hk hl
      rcases upd2_cases _ _ _ _ _ _ _ hk with ⟨rfl, rfl⟩ | ⟨hki, rfl, rfl⟩ | ⟨hki, hkj, hk'⟩ <;>
      rcases upd2_cases _ _ _ _ _ _ _ hl with ⟨rfl, rfl⟩ | ⟨hli, rfl, rfl⟩ | ⟨hli, hlj, hl'⟩
      · rfl
      · exact absurd hcell hcne
      · exact absurd hcell.symm (htfresh l ol hli hl' hols)
      · exact absurd hcell.symm hcne
      · rfl
      · exact (hinv.inj l k ol s (ne_i l hli) hji hl' hs hols hst hcell.symm).symm
      · exact absurd hcell (htfresh k ok hki hk' hoks)
      · exact hinv.inj k l ok s (ne_i k hki) hji hk' hs hoks hst hcell
      · exact hinv.inj k l ok ol (ne_i k hki) (ne_i l hli) hk' hl' hoks hols hcell
    · intro a ha; simp only [runMember] at ha ⊢; exact hinv.extlt a ha
    · intro k o _ hk
      simp only [runMember] at hk ⊢
      rcases upd2_cases _ _ _ _ _ _ _ hk with ⟨rfl, _⟩ | ⟨_, rfl, _⟩ | ⟨hki, hkj, hk'⟩
      · exact hi
      · exact hinv.objlt k s hji hs
      · exact hinv.objlt k o (ne_i k hki) hk'
  · -- reference-only flavour: the heap is not touched, the two objects are outside the invariant
    have hsf : s.stored = false := by simpa using hst
    have htf : t.stored = false := by rw [hts]; exact hsf
    have hheap : (applyInd junk m.ind st.heap t s).1 = st.heap := by simp [applyInd, htf]
    refine ⟨?_, ?_, ?_, ?_⟩
    · intro k o _ hk hos
      simp only [runMember, hheap] at hk ⊢
      rcases upd2_cases _ _ _ _ _ _ _ hk with ⟨rfl, rfl⟩ | ⟨_, rfl, rfl⟩ | ⟨hki, hkj, hk'⟩
      · simp [htf] at hos
      · simp [hsf] at hos
      · exact hinv.own k o (ne_i k hki) hk' hos
    · intro k l ok ol _ _ hk hl hoks hols hcell
      simp only [runMember] at hk hl
      rcases upd2_cases _ _ _ _ _ _ _ hk with ⟨rfl, rfl⟩ | ⟨hki, rfl, rfl⟩ | ⟨hki, hkj, hk'⟩
      · simp [htf] at hoks
      · simp [hsf] at hoks
      · rcases upd2_cases _ _ _ _ _ _ _ hl with ⟨rfl, rfl⟩ | ⟨hli, rfl, rfl⟩ | ⟨hli, hlj, hl'⟩
        · simp [htf] at hols
        · simp [hsf] at hols
        · exact hinv.inj k l ok ol (ne_i k hki) (ne_i l hli) hk' hl' hoks hols hcell
    · intro a ha; simp only [runMember] at ha ⊢; exact hinv.extlt a ha
    · intro k o _ hk
      simp only [runMember] at hk ⊢
      rcases upd2_cases _ _ _ _ _ _ _ hk with ⟨rfl, _⟩ | ⟨_, rfl, _⟩ | ⟨hki, hkj, hk'⟩
      · exact hi
      · exact hinv.objlt k s hji hs
      · exact hinv.objlt k o (ne_i k hki) hk'

theorem constructFrom_inv (junk : P → P) (m : Member) (st : St P) (j : Nat) (hinv : InvS st)
    (hm : ∀ s, st.objs j = some s → s.stored = true → okCtorMember m = true) :
    InvS (constructFrom junk m st j) := by
  unfold constructFrom
  split
  · exact hinv
  · rename_i s hs
    have hjlt : j < st.nobj := hinv.objlt j s (by simp) hs
    apply runMember_inv junk m _ st.nobj j _ s
    · intro hst; exact okCtor_assign m (hm s hs hst)
    · omega
    · -- the invariant for everybody but the new object, in the state with the bumped counters
      refine ⟨?_, ?_, ?_, ?_⟩
      · intro i o _ hi hos
        obtain ⟨h1, h2, h3, h4, h5⟩ := hinv.own i o (by simp) hi hos
        exact ⟨h1, h2, Nat.lt_succ_of_lt h3, h4, h5⟩
      · intro i k oi ok _ _; exact hinv.inj i k oi ok (by simp) (by simp)
      · intro a ha; exact Nat.lt_succ_of_lt (hinv.extlt a ha)
      · intro i o _ hi; exact Nat.lt_succ_of_lt (hinv.objlt i o (by simp) hi)
    · exact hs
    · simp
    · rfl
    · intro hst
      simp only [] at hst
      simp only [hst, if_true]
      refine ⟨Nat.lt_succ_self _, ?_, ?_⟩
      · cases hext : st.ext st.next with
        | false => rfl
        | true => exact absurd (hinv.extlt _ hext) (Nat.lt_irrefl _)
      · intro k o _ hk hos hcell
        have := (hinv.own k o (by simp) hk hos).2.2.1
        omega

theorem assignWith_inv (junk : P → P) (m : Member) (st : St P) (i j : Nat) (hinv : InvS st)
    (hm : ∀ s, st.objs j = some s → s.stored = true → okAssignMember m = true) :
    InvS (assignWith junk m st i j) := by
  unfold assignWith
  split
  · rename_i t s ht hs
    split
    · exact hinv
    · rename_i hc
      have hij : i ≠ j := fun h => hc (Or.inl h)
      have hts : t.stored = s.stored := by
        by_cases h : t.stored = s.stored
        · exact h
        · exact absurd (Or.inr h) hc
      apply runMember_inv junk m st i j t s (hm s hs) hij (InvX.weaken hinv _) hs (hinv.objlt i t (by simp) ht) hts
      · intro htst
        obtain ⟨_, _, h3, h4, _⟩ := hinv.own i t (by simp) ht htst
        refine ⟨h3, h4, ?_⟩
        intro k o hki hk hos hcell
        exact hki (hinv.inj k i o t (by simp) (by simp) hk ht hos htst hcell)
  · exact hinv

theorem wellSeated_parts (t : Smf) (h : WellSeated t = true) :
    t.ctor = ⟨.copyParam, .seatOwn⟩ ∧ okCtorMember t.copyCtor = true ∧ okCtorMember t.moveCtor = true ∧
    okAssignMember t.copyAssign = true ∧ okAssignMember t.moveAssign = true := by
  simp only [WellSeated, Bool.and_eq_true, beq_iff_eq] at h
  exact ⟨h.1.1.1.1.2, h.1.1.1.2, h.1.1.2, h.1.2, h.2⟩

/-- every step of every history preserves the invariant of the storing flavour -/
theorem step_inv (tbl : Bool → Smf) (hw : WellSeated (tbl true) = true) (junk : P → P) (st : St P)
    (hinv : InvS st) (op : Op P) : InvS (step tbl junk st op) := by
  obtain ⟨hctor, hcc, hmc, hca, hma⟩ := wellSeated_parts _ hw
  cases op with
  | newInd p =>
    simp only [step]
    refine ⟨?_, ?_, ?_, ?_⟩ <;> (try dsimp only)
    · intro i o _ hi hos
      obtain ⟨h1, h2, h3, h4, h5⟩ := hinv.own i o (by simp) hi hos
      have hne : o.cell ≠ st.next := by omega
      exact ⟨h1, by rw [upd_other _ _ _ _ hne]; exact h2, Nat.lt_succ_of_lt h3, by rw [upd_other _ _ _ _ hne]; exact h4, h5⟩
    · intro i j oi oj _ _; exact hinv.inj i j oi oj (by simp) (by simp)
    · intro a ha
      by_cases h : a = st.next
      · omega
      · rw [upd_other _ _ _ _ h] at ha; exact Nat.lt_succ_of_lt (hinv.extlt a ha)
    · intro i o _; exact hinv.objlt i o (by simp)
  | setInd a p =>
    simp only [step]
    split
    · rename_i hc
      simp only [Bool.and_eq_true] at hc
      refine ⟨?_, fun i j oi oj _ _ => hinv.inj i j oi oj (by simp) (by simp), hinv.extlt, fun i o _ => hinv.objlt i o (by simp)⟩ <;> (try dsimp only)
      intro i o _ hi hos
      obtain ⟨h1, h2, h3, h4, h5⟩ := hinv.own i o (by simp) hi hos
      have hne : o.cell ≠ a := by intro h; rw [h] at h4; rw [h4] at hc; exact absurd hc.1 (by simp)
      exact ⟨h1, by rw [upd_other _ _ _ _ hne]; exact h2, h3, h4, h5⟩
    · exact hinv
  | delInd a =>
    simp only [step]
    split
    · rename_i hc
      refine ⟨?_, fun i j oi oj _ _ => hinv.inj i j oi oj (by simp) (by simp), hinv.extlt, fun i o _ => hinv.objlt i o (by simp)⟩ <;> (try dsimp only)
      intro i o _ hi hos
      obtain ⟨h1, h2, h3, h4, h5⟩ := hinv.own i o (by simp) hi hos
      have hne : o.cell ≠ a := by intro h; rw [h] at h4; rw [h4] at hc; exact absurd hc (by simp)
      exact ⟨h1, by rw [upd_other _ _ _ _ hne]; exact h2, h3, h4, h5⟩
    · exact hinv
  | construct stored a =>
    simp only [step]
    split
    · exact hinv
    · rename_i p hp
      split
      · rename_i hext
        have hfresh : st.ext st.next = false := by
          cases h : st.ext st.next with
          | false => rfl
          | true => exact absurd (hinv.extlt _ h) (Nat.lt_irrefl _)
        refine ⟨?_, ?_, ?_, ?_⟩ <;> (try dsimp only)
        · intro i o _ hi hos
          by_cases hin : i = st.nobj
          · subst hin
            simp only [upd_same, Option.some.injEq] at hi
            subst hi
            simp only [] at hos
            subst hos
            simp only [hctor, if_true, upd_same]
            exact ⟨trivial, trivial, Nat.lt_succ_self _, hfresh, fun _ => trivial⟩
          · rw [upd_other _ _ _ _ hin] at hi
            obtain ⟨h1, h2, h3, h4, h5⟩ := hinv.own i o (by simp) hi hos
            refine ⟨h1, ?_, Nat.lt_succ_of_lt h3, h4, h5⟩
            cases stored with
            | false => simpa using h2
            | true =>
              have hne : o.cell ≠ st.next := by omega
              simp only [if_true]; rw [upd_other _ _ _ _ hne]; exact h2
        · intro i j oi oj _ _ hi hj hois hojs hcell
          by_cases hin : i = st.nobj <;> by_cases hjn : j = st.nobj
          · omega
          · subst hin
            simp only [upd_same, Option.some.injEq] at hi
            rw [upd_other _ _ _ _ hjn] at hj
            subst hi
            simp only [] at hois hcell
            subst hois
            have := (hinv.own j oj (by simp) hj hojs).2.2.1
            simp only [if_true] at hcell
            omega
          · subst hjn
            simp only [upd_same, Option.some.injEq] at hj
            rw [upd_other _ _ _ _ hin] at hi
            subst hj
            simp only [] at hojs hcell
            subst hojs
            have := (hinv.own i oi (by simp) hi hois).2.2.1
            simp only [if_true] at hcell
            omega
          · rw [upd_other _ _ _ _ hin] at hi
            rw [upd_other _ _ _ _ hjn] at hj
            exact hinv.inj i j oi oj (by simp) (by simp) hi hj hois hojs hcell
        · intro b hb; exact Nat.lt_succ_of_lt (hinv.extlt b hb)
        · intro i o _ hi
          by_cases hin : i = st.nobj
          · omega
          · rw [upd_other _ _ _ _ hin] at hi
            exact Nat.lt_succ_of_lt (hinv.objlt i o (by simp) hi)
      · exact hinv
  | copyConstruct j =>
    simp only [step]
    split
    · exact hinv
    · rename_i s hs
      apply constructFrom_inv junk _ st j hinv
      intro s' hs' hst
      rw [hs] at hs'; injection hs' with hs'; subst hs'
      rw [hst]; exact hcc
  | moveConstruct j =>
    simp only [step]
    split
    · exact hinv
    · rename_i s hs
      apply constructFrom_inv junk _ st j hinv
      intro s' hs' hst
      rw [hs] at hs'; injection hs' with hs'; subst hs'
      rw [hst]; exact hmc
  | copyAssign i j =>
    simp only [step]
    split
    · exact hinv
    · rename_i s hs
      apply assignWith_inv junk _ st i j hinv
      intro s' hs' hst
      rw [hs] at hs'; injection hs' with hs'; subst hs'
      rw [hst]; exact hca
  | moveAssign i j =>
    simp only [step]
    split
    · exact hinv
    · rename_i s hs
      apply assignWith_inv junk _ st i j hinv
      intro s' hs' hst
      rw [hs] at hs'; injection hs' with hs'; subst hs'
      rw [hst]; exact hma
  | destroy i =>
    simp only [step]
    split
    · exact hinv
    · rename_i o ho
      refine ⟨?_, ?_, hinv.extlt, ?_⟩ <;> (try dsimp only)
      · intro k ok _ hk hoks
        by_cases hki : k = i
        · subst hki; simp at hk
        · rw [upd_other _ _ _ _ hki] at hk
          obtain ⟨h1, h2, h3, h4, h5⟩ := hinv.own k ok (by simp) hk hoks
          refine ⟨h1, ?_, h3, h4, h5⟩
          by_cases hos : o.stored = true
          · have hne : ok.cell ≠ o.cell := fun h => hki (hinv.inj k i ok o (by simp) (by simp) hk ho hoks hos h)
            simp only [hos, if_true]; rw [upd_other _ _ _ _ hne]; exact h2
          · simp only [hos]; exact h2
      · intro k l ok ol _ _ hk hl
        by_cases hki : k = i
        · subst hki; simp at hk
        · by_cases hli : l = i
          · subst hli; simp at hl
          · rw [upd_other _ _ _ _ hki] at hk
            rw [upd_other _ _ _ _ hli] at hl
            exact hinv.inj k l ok ol (by simp) (by simp) hk hl
      · intro k ok _ hk
        by_cases hki : k = i
        · subst hki; simp at hk
        · rw [upd_other _ _ _ _ hki] at hk
          exact hinv.objlt k ok (by simp) hk

theorem run_inv (tbl : Bool → Smf) (hw : WellSeated (tbl true) = true) (junk : P → P) (h : List (Op P)) :
    ∀ st, InvS st → InvS (h.foldl (step tbl junk) st) := by
  induction h with
  | nil => intro st hst; exact hst
  | cons op rest ih => intro st hst; exact ih _ (step_inv tbl hw junk st hst op)

/-! ### the reference-only flavour (`S = false`) under its documented precondition -/

/-- a reference-only model reads the individual it stands for, which is one of the caller's -/
def InvR (st : St P) (x : Option Nat) : Prop :=
  ∀ i o, some i ≠ x → st.objs i = some o → o.stored = false →
    st.heap o.ptr = some o.prog ∧ st.ext o.ptr = true ∧ o.built = some o.prog

theorem wellRef_parts (t : Smf) (h : WellRef t = true) :
    t.ctor = ⟨.none, .seatParam⟩ ∧ t.copyCtor.ptr = .copyPtr ∧ t.moveCtor.ptr = .copyPtr ∧
    t.copyAssign.ptr = .copyPtr ∧ t.moveAssign.ptr = .copyPtr := by
  simp only [WellRef, Bool.and_eq_true, beq_iff_eq] at h
  exact ⟨h.1.1.1.1.2, h.1.1.1.2, h.1.1.2, h.1.2, h.2⟩

theorem heap_applyInd_ext (junk : P → P) (a : IndAct) (heap : Nat → Option P) (t s : Obj P) (b : Nat)
    (hb : t.stored = true → s.stored = true → b ≠ t.cell ∧ b ≠ s.cell) :
    (applyInd junk a heap t s).1 b = heap b := by
  unfold applyInd
  split
  · rename_i hc
    simp only [Bool.and_eq_true] at hc
    obtain ⟨h1, h2⟩ := hb hc.1.1 hc.1.2
    cases a <;> simp [upd_other _ _ _ _ h1, upd_other _ _ _ _ h2]
  · rfl

theorem runMember_invR (junk : P → P) (m : Member) (st : St P) (i j : Nat) (t s : Obj P)
    (hR : InvR st (some i)) (hs : st.objs j = some s) (hij : i ≠ j) (hts : t.stored = s.stored)
    (hcells : s.stored = true → st.ext t.cell = false ∧ st.ext s.cell = false)
    (hm : s.stored = false → m.ptr = .copyPtr) :
    InvR (runMember junk m st i j t s) none := by
  have hji : some j ≠ some i := by intro h; injection h with h; exact hij h.symm
  intro k o _ hk hos
  simp only [runMember] at hk ⊢
  have hheap : ∀ b, st.ext b = true → (applyInd junk m.ind st.heap t s).1 b = st.heap b := by
    intro b hb
    apply heap_applyInd_ext
    intro _ hst
    obtain ⟨h1, h2⟩ := hcells hst
    constructor
    · intro h; rw [h, h1] at hb; exact absurd hb (by simp)
    · intro h; rw [h, h2] at hb; exact absurd hb (by simp)
  rcases upd2_cases _ _ _ _ _ _ _ hk with ⟨rfl, rfl⟩ | ⟨_, rfl, rfl⟩ | ⟨hki, hkj, hk'⟩
  · have hsf : s.stored = false := by rw [← hts]; exact hos
    obtain ⟨h1, h2, h3⟩ := hR j s hji hs hsf
    simp only [hm hsf, applyPtr]
    exact ⟨by rw [hheap _ h2]; exact h1, h2, h3⟩
  · have hsf : s.stored = false := hos
    obtain ⟨h1, h2, h3⟩ := hR k s hji hs hsf
    have hg : (applyInd junk m.ind st.heap t s).2 = s.prog := by simp [applyInd, hsf]
    simp only [hm hsf, applyPtr, hg]
    exact ⟨by rw [hheap _ h2]; exact h1, h2, h3⟩
  · obtain ⟨h1, h2, h3⟩ := hR k o (by intro h; injection h with h; exact hki h) hk' hos
    exact ⟨by rw [hheap _ h2]; exact h1, h2, h3⟩

theorem InvR.weaken {st : St P} (h : InvR st none) (x : Option Nat) : InvR st x :=
  fun i o _ => h i o (by simp)

theorem step_invR (tbl : Bool → Smf) (hr : WellRef (tbl false) = true) (junk : P → P)
    (st : St P) (hS : InvS st) (hR : InvR st none) (op : Op P) (hsafe : opSafe st op) :
    InvR (step tbl junk st op) none := by
  obtain ⟨hctor, hcc, hmc, hca, hma⟩ := wellRef_parts _ hr
  have hfresh : st.ext st.next = false := by
    cases h : st.ext st.next with
    | false => rfl
    | true => exact absurd (hS.extlt _ h) (Nat.lt_irrefl _)
  -- writing a cell that is not one of the caller's individuals is invisible to a reference-only model
  have other : ∀ (b : Nat) (v : Option P) (o : Obj P), st.ext b = false → st.ext o.ptr = true →
      upd st.heap b v o.ptr = st.heap o.ptr := by
    intro b v o hb ho
    apply upd_other
    intro h; rw [h, hb] at ho; exact absurd ho (by simp)
  cases op with
  | newInd p =>
    intro i o _ hi hos
    simp only [step] at hi ⊢
    obtain ⟨h1, h2, h3⟩ := hR i o (by simp) hi hos
    have hne : o.ptr ≠ st.next := by intro h; rw [h, hfresh] at h2; exact absurd h2 (by simp)
    exact ⟨by rw [upd_other _ _ _ _ hne]; exact h1, by rw [upd_other _ _ _ _ hne]; exact h2, h3⟩
  | setInd a p =>
    intro i o _ hi hos
    simp only [step] at hi ⊢
    split at hi <;> split
    all_goals first
      | (obtain ⟨h1, h2, h3⟩ := hR i o (by simp) hi hos
         have hne : o.ptr ≠ a := hsafe i o hi hos
         exact ⟨by dsimp only; rw [upd_other _ _ _ _ hne]; exact h1, h2, h3⟩)
      | exact hR i o (by simp) hi hos
      | (rename_i h1 h2; exact absurd h1 h2)
      | (rename_i h1 h2; exact absurd h2 h1)
  | delInd a =>
    intro i o _ hi hos
    simp only [step] at hi ⊢
    split at hi <;> split
    all_goals first
      | (obtain ⟨h1, h2, h3⟩ := hR i o (by simp) hi hos
         have hne : o.ptr ≠ a := hsafe i o hi hos
         exact ⟨by dsimp only; rw [upd_other _ _ _ _ hne]; exact h1, h2, h3⟩)
      | exact hR i o (by simp) hi hos
      | (rename_i h1 h2; exact absurd h1 h2)
      | (rename_i h1 h2; exact absurd h2 h1)
  | construct stored a =>
    simp only [step]
    split
    · exact hR
    · rename_i p hp
      split
      · rename_i hext
        intro i o _ hi hos
        dsimp only at hi ⊢
        by_cases hin : i = st.nobj
        · subst hin
          simp only [upd_same, Option.some.injEq] at hi
          subst hi
          dsimp only at hos ⊢
          subst hos
          simp only [hctor]
          exact ⟨by simpa using hp, hext, trivial⟩
        · rw [upd_other _ _ _ _ hin] at hi
          obtain ⟨h1, h2, h3⟩ := hR i o (by simp) hi hos
          refine ⟨?_, h2, h3⟩
          cases stored with
          | false => simpa using h1
          | true => simp only [if_true]; rw [other _ _ o hfresh h2]; exact h1
      · exact hR
  | copyConstruct j =>
    simp only [step]
    split
    · exact hR
    · rename_i s hs
      unfold constructFrom
      simp only [hs]
      apply runMember_invR junk _ _ st.nobj j _ s (InvR.weaken hR _) hs
      · have := hS.objlt j s (by simp) hs; omega
      · rfl
      · intro hst
        simp only [hst, if_true]
        exact ⟨hfresh, (hS.own j s (by simp) hs hst).2.2.2.1⟩
      · intro hsf; rw [hsf]; exact hcc
  | moveConstruct j =>
    simp only [step]
    split
    · exact hR
    · rename_i s hs
      unfold constructFrom
      simp only [hs]
      apply runMember_invR junk _ _ st.nobj j _ s (InvR.weaken hR _) hs
      · have := hS.objlt j s (by simp) hs; omega
      · rfl
      · intro hst
        simp only [hst, if_true]
        exact ⟨hfresh, (hS.own j s (by simp) hs hst).2.2.2.1⟩
      · intro hsf; rw [hsf]; exact hmc
  | copyAssign i j =>
    simp only [step]
    split
    · exact hR
    · rename_i s hs
      unfold assignWith
      split
      · rename_i t s' ht hs'
        rw [hs] at hs'; injection hs' with hs'; subst hs'
        split
        · exact hR
        · rename_i hc
          have hij : i ≠ j := fun h => hc (Or.inl h)
          have hts : t.stored = s.stored := by
            by_cases h : t.stored = s.stored
            · exact h
            · exact absurd (Or.inr h) hc
          apply runMember_invR junk _ st i j t s (InvR.weaken hR _) hs hij hts
          · intro hst
            exact ⟨(hS.own i t (by simp) ht (hts ▸ hst)).2.2.2.1, (hS.own j s (by simp) hs hst).2.2.2.1⟩
          · intro hsf; rw [hsf]; exact hca
      · exact hR
  | moveAssign i j =>
    simp only [step]
    split
    · exact hR
    · rename_i s hs
      unfold assignWith
      split
      · rename_i t s' ht hs'
        rw [hs] at hs'; injection hs' with hs'; subst hs'
        split
        · exact hR
        · rename_i hc
          have hij : i ≠ j := fun h => hc (Or.inl h)
          have hts : t.stored = s.stored := by
            by_cases h : t.stored = s.stored
            · exact h
            · exact absurd (Or.inr h) hc
          apply runMember_invR junk _ st i j t s (InvR.weaken hR _) hs hij hts
          · intro hst
            exact ⟨(hS.own i t (by simp) ht (hts ▸ hst)).2.2.2.1, (hS.own j s (by simp) hs hst).2.2.2.1⟩
          · intro hsf; rw [hsf]; exact hma
      · exact hR
  | destroy i =>
    simp only [step]
    split
    · exact hR
    · rename_i o ho
      intro k ok _ hk hoks
      dsimp only at hk ⊢
      by_cases hki : k = i
      · subst hki; simp at hk
      · rw [upd_other _ _ _ _ hki] at hk
        obtain ⟨h1, h2, h3⟩ := hR k ok (by simp) hk hoks
        refine ⟨?_, h2, h3⟩
        by_cases hos : o.stored = true
        · simp only [hos, if_true]
          rw [other _ _ ok (hS.own i o (by simp) ho hos).2.2.2.1 h2]; exact h1
        · simp only [hos]; exact h1

theorem run_invR (tbl : Bool → Smf) (hw : WellSeated (tbl true) = true) (hr : WellRef (tbl false) = true)
    (junk : P → P) (h : List (Op P)) :
    ∀ st, InvS st → InvR st none → RefSafe tbl junk st h → InvR (h.foldl (step tbl junk) st) none := by
  induction h with
  | nil => intro st _ hR _; exact hR
  | cons op rest ih =>
    intro st hS hR hsafe
    exact ih _ (step_inv tbl hw junk st hS op) (step_invR tbl hr junk st hS hR op hsafe.1) hsafe.2

end Vita.C08.Life
