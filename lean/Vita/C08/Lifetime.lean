/-
  C08 — object lifetime of the prediction objects (src/kernel/gp/detail/lambda_f.h).

  `reg_lambda_f_storage<T, S>` is what every model object (`basic_reg_lambda_f`, and through their
  `lambda_` member the three classifiers) is made of: for `S = true` a private copy `ind_` of the
  individual plus an interpreter `int_` holding a POINTER to an individual; for `S = false` only the
  interpreter, pointing at the caller's individual.

  Model: an explicit heap of individuals (`Addr → Option P`, `none` = destroyed; addresses are
  never reused, so a dangling pointer reads `none`), the caller's individuals (`ext`), and model
  objects `Obj` = (flavour, address of the own cell `ind_`, the interpreter's pointer, the individual
  the interpreter was BUILT for – `interpreter<i_mep>` dimensions its evaluation cache on the program
  it is constructed with, so it is more than a pointer: it must be rebuilt whenever the individual
  it points at is replaced –, and two GHOSTS: the individual the object stands for and whether the
  object is in a moved-from state).  What each special member function does with
  `ind_` / `int_` is DATA (`Smf`): lean/Vita/C08/GenStorage.lean is generated from the clang AST of
  the class, so `= default` on an assignment, a swap of the interpreters, … change the table.
  A history is any sequence of `Op`s: the caller creates / overwrites / destroys individuals,
  model objects are constructed from an individual, copy/move constructed, copy/move assigned,
  destroyed.
-/
namespace Vita.C08.Life

/-- addresses are natural numbers -/
local notation "Addr" => Nat

/-- what a special member function does with `ind_` (target ← source) -/
inductive IndAct
  | none        -- leaves it alone / the class has no `ind_`
  | copyParam   -- `ind_(ind)` : copy of the individual handed to the constructor
  | copy        -- `ind_(rhs.ind_)`, `ind_ = rhs.ind_`
  | move        -- `ind_(std::move(rhs.ind_))`, `ind_ = std::move(rhs.ind_)`
  | swap        -- `swap(ind_, rhs.ind_)`
  | fresh       -- default constructed (then loaded from a stream)
  deriving DecidableEq, Repr

/-- what it does with `int_` -/
inductive PtrAct
  | keep        -- not mentioned (a constructor leaves it unbound)
  | seatOwn     -- `int_(&ind_)`, `int_ = src_interpreter<T>(&ind_)`
  | seatParam   -- `int_(&ind)` : bound to the individual handed to the constructor
  | copyPtr     -- `int_(rhs.int_)`, `int_ = rhs.int_` (memberwise)
  | swapPtr     -- `swap(int_, rhs.int_)`
  deriving DecidableEq, Repr

structure Member where
  ind : IndAct
  ptr : PtrAct
  deriving DecidableEq, Repr

/-- the EFFECTIVE special member functions of one flavour of the storage class (a move operation
    that is not declared is the copy operation: overload resolution falls back to it) -/
structure Smf where
  stored : Bool
  ctor : Member
  copyCtor : Member
  copyAssign : Member
  moveCtor : Member
  moveAssign : Member
  deriving DecidableEq, Repr

/-- a model object -/
structure Obj (P : Type) where
  stored : Bool
  /-- address of its own `ind_` (meaningless for `S = false`) -/
  cell : Addr
  /-- `int_.program()` -/
  ptr : Addr
  /-- the individual `int_` was constructed for (its cache is dimensioned on it) -/
  built : Option P
  /-- GHOST: the individual this object stands for -/
  prog : P
  /-- GHOST: not in a moved-from ("valid but unspecified") state -/
  valid : Bool

structure St (P : Type) where
  heap : Addr → Option P
  /-- individuals owned by the caller -/
  ext : Addr → Bool
  next : Addr
  objs : Nat → Option (Obj P)
  nobj : Nat

inductive Op (P : Type)
  | newInd (p : P)
  | setInd (a : Addr) (p : P)
  | delInd (a : Addr)
  | construct (stored : Bool) (a : Addr)
  | copyConstruct (i : Nat)
  | moveConstruct (i : Nat)
  | copyAssign (i j : Nat)
  | moveAssign (i j : Nat)
  | destroy (i : Nat)

def upd {α : Type} (f : Nat → α) (a : Nat) (v : α) : Nat → α := fun x => if x = a then v else f x

@[simp] theorem upd_same {α} (f : Nat → α) (a : Nat) (v : α) : upd f a v a = v := by simp [upd]
theorem upd_other {α} (f : Nat → α) (a b : Nat) (v : α) (h : b ≠ a) : upd f a v b = f b := by simp [upd, h]

variable {P : Type}

def St.init : St P := ⟨fun _ => none, fun _ => false, 1, fun _ => none, 0⟩

/-- effect of a member on the stored individuals: the new heap and the new GHOST of the source
    (the source of a copy keeps standing for its individual; a moved-from / swapped-with source is
    "valid but unspecified": its ghost follows what it now holds) -/
def applyInd (junk : P → P) (a : IndAct) (heap : Addr → Option P) (t s : Obj P) :
    (Addr → Option P) × P :=
  if t.stored && s.stored && t.cell != s.cell then
    match a with
    | .copy => (upd heap t.cell (heap s.cell), s.prog)
    | .move => (upd (upd heap t.cell (heap s.cell)) s.cell (some (junk s.prog)), junk s.prog)
    | .swap => (upd (upd heap t.cell (heap s.cell)) s.cell (heap t.cell), t.prog)
    | _ => (heap, s.prog)
  else (heap, s.prog)

/-- does the action leave the source in a moved-from state? -/
def IndAct.movesFrom : IndAct → Bool
  | .move | .swap => true
  | _ => false

/-- effect on the interpreters: new (pointer, built-for) of target and of source; `heap` is the heap
    AFTER the individuals have been copied / moved (a re-seated interpreter is built for what the own
    cell now holds) -/
def applyPtr (a : PtrAct) (heap : Addr → Option P) (t s : Obj P) : (Addr × Option P) × (Addr × Option P) :=
  match a with
  | .keep => ((t.ptr, t.built), (s.ptr, s.built))
  | .seatOwn => ((t.cell, heap t.cell), (s.ptr, s.built))
  | .seatParam => ((t.ptr, t.built), (s.ptr, s.built))
  | .copyPtr => ((s.ptr, s.built), (s.ptr, s.built))
  | .swapPtr => ((s.ptr, s.built), (t.ptr, t.built))

/-- run member `m` with target `t` (object number `i`) and source `s` (object number `j`) -/
def runMember (junk : P → P) (m : Member) (st : St P) (i j : Nat) (t s : Obj P) : St P :=
  let r := applyInd junk m.ind st.heap t s
  let q := applyPtr m.ptr r.1 t s
  -- GHOSTS of the target: after `t(s)` / `t = s` the object `t` stands for the individual of `s` and is
  -- a fully-fledged object again; a source that has been moved from / swapped with is not
  let t' : Obj P := { t with ptr := q.1.1, built := q.1.2, prog := s.prog, valid := true }
  let s' : Obj P := { s with ptr := q.2.1, built := q.2.2, prog := r.2,
                             valid := s.valid && !(t.stored && s.stored && m.ind.movesFrom) }
  { st with heap := r.1, objs := upd (upd st.objs j (some s')) i (some t') }

/-- a new object (number `st.nobj`) built from object `j` with member `m` -/
def constructFrom (junk : P → P) (m : Member) (st : St P) (j : Nat) : St P :=
  match st.objs j with
  | none => st
  | some s =>
    let t0 : Obj P := { stored := s.stored, cell := if s.stored then st.next else 0, ptr := 0, built := none,
                        prog := s.prog, valid := true }
    let st1 : St P := { st with next := st.next + 1, nobj := st.nobj + 1 }
    runMember junk m st1 st.nobj j t0 s

def assignWith (junk : P → P) (m : Member) (st : St P) (i j : Nat) : St P :=
  match st.objs i, st.objs j with
  | some t, some s => if i = j ∨ t.stored ≠ s.stored then st else runMember junk m st i j t s
  | _, _ => st

/-- one step of a history; `tbl` gives the special member functions of each flavour -/
def step (tbl : Bool → Smf) (junk : P → P) (st : St P) : Op P → St P
  | .newInd p => { st with heap := upd st.heap st.next (some p), ext := upd st.ext st.next true, next := st.next + 1 }
  | .setInd a p => if st.ext a && (st.heap a).isSome then { st with heap := upd st.heap a (some p) } else st
  | .delInd a => if st.ext a then { st with heap := upd st.heap a none } else st
  | .construct stored a =>
    match st.heap a with
    | none => st
    | some p =>
      if st.ext a then
        let m := (tbl stored).ctor
        let c := if stored then st.next else 0
        let heap' := if stored then upd st.heap c (if m.ind = .copyParam then some p else none) else st.heap
        let pb : Addr × Option P := match m.ptr with
          | .seatOwn => (c, heap' c)
          | .seatParam => (a, some p)
          | _ => (0, none)
        { st with heap := heap', next := st.next + 1,
                  objs := upd st.objs st.nobj (some ⟨stored, c, pb.1, pb.2, p, true⟩), nobj := st.nobj + 1 }
      else st
  | .copyConstruct j => match st.objs j with
    | none => st
    | some s => constructFrom junk (tbl s.stored).copyCtor st j
  | .moveConstruct j => match st.objs j with
    | none => st
    | some s => constructFrom junk (tbl s.stored).moveCtor st j
  | .copyAssign i j => match st.objs j with
    | none => st
    | some s => assignWith junk (tbl s.stored).copyAssign st i j
  | .moveAssign i j => match st.objs j with
    | none => st
    | some s => assignWith junk (tbl s.stored).moveAssign st i j
  | .destroy i => match st.objs i with
    | none => st
    | some o => { st with heap := if o.stored then upd st.heap o.cell none else st.heap, objs := upd st.objs i none }

def run (tbl : Bool → Smf) (junk : P → P) (h : List (Op P)) : St P := h.foldl (step tbl junk) St.init

/-- what the model object predicts with: the individual its interpreter points at – provided it is
    alive and is the one the interpreter was built for (otherwise the interpreter reads a destroyed
    object or indexes its cache out of bounds: no value) -/
def St.read [DecidableEq P] (st : St P) (i : Nat) : Option P :=
  (st.objs i).bind (fun o => if st.heap o.ptr = o.built then st.heap o.ptr else none)

/-! ### well-formed tables -/

/-- a constructor from another object must take the source's individual and bind the interpreter to
    the OWN copy -/
def okCtorMember (m : Member) : Bool := (m.ind == .copy || m.ind == .move) && m.ptr == .seatOwn

/-- … and so must an assignment: leaving the interpreter alone keeps the pointer right but not the
    interpreter (built for the OLD individual) -/
def okAssignMember (m : Member) : Bool :=
  (m.ind == .copy || m.ind == .move) && m.ptr == .seatOwn

/-- `S = true` : every special member function re-seats the interpreter on the stored individual -/
def WellSeated (t : Smf) : Bool :=
  t.stored && t.ctor == ⟨.copyParam, .seatOwn⟩ && okCtorMember t.copyCtor && okCtorMember t.moveCtor &&
  okAssignMember t.copyAssign && okAssignMember t.moveAssign

/-- `S = false` : nothing is stored, the pointer travels with the object -/
def WellRef (t : Smf) : Bool :=
  !t.stored && t.ctor == ⟨.none, .seatParam⟩ &&
  t.copyCtor.ptr == .copyPtr && t.moveCtor.ptr == .copyPtr && t.copyAssign.ptr == .copyPtr && t.moveAssign.ptr == .copyPtr

/-- the documented precondition of the `S = false` flavour ("the lifetime of `ind` must extend beyond
    that of the interpreter"): the caller does not overwrite or destroy an individual a live
    reference-only model points at -/
def opSafe (st : St P) : Op P → Prop
  | .setInd a _ => ∀ i o, st.objs i = some o → o.stored = false → o.ptr ≠ a
  | .delInd a => ∀ i o, st.objs i = some o → o.stored = false → o.ptr ≠ a
  | _ => True

def RefSafe (tbl : Bool → Smf) (junk : P → P) : St P → List (Op P) → Prop
  | _, [] => True
  | st, op :: rest => opSafe st op ∧ RefSafe tbl junk (step tbl junk st op) rest

/-! ### routes: which evaluator `src_search::lambdify` asks -/

/-- the evaluator expression `src_search::lambdify` calls `lambdify` on -/
inductive Sel
  | member (name : String)
  | cond (c : String) (a b : Sel)
  | opaque (what : String)
  deriving DecidableEq, Repr

/-- every way through the expression ends at the TRAINING evaluator `eva1_` -/
def Sel.onlyTraining : Sel → Bool
  | .member n => n == "eva1_"
  | .cond _ a b => a.onlyTraining && b.onlyTraining
  | .opaque _ => false

end Vita.C08.Life
