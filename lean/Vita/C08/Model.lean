/-
  C08 — model of vita's prediction objects ("lambda functions", src/kernel/gp/src/lambda_f.tcc,
  src/utility/discretization.h, src/kernel/distribution.tcc, src/kernel/gp/src/model_metric.cc).

  The program is abstract: what reaches these definitions is `out : Option F`, the value the
  interpreter yields for an individual on an example (`none` = no value).  Number type generic
  (`Num` of C05 + `NumN`); the two library functions the classifiers call – the discretization
  of utility/discretization.h and `std::exp` – are PARAMETERS (`Fns`), so every theorem holds for
  every such function; the driver plugs in the real ones (`discretization` below, `Float.exp`).
-/
import Vita.C05.Model

namespace Vita.C08
open Vita.C05 Vita.C05.Num

/-- `Num` plus the conversions `static_cast<double>(unsigned)` and the constant `0.5` -/
class NumN (F : Type) extends Num F where
  ofNat : Nat → F
  half : F

/-- the elementary functions used by `sigmoid_01` / `discretization` -/
class Elem (F : Type) extends NumN F where
  atan : F → F
  fma : F → F → F → F
  round : F → F
  /-- `static_cast<std::size_t>` of a non-negative integral double -/
  toNat : F → Nat
  /-- `0.31830988618` -/
  invPi : F

open NumN Elem

/-- `sigmoid_01(x) = std::fma(std::atan(x), 0.31830988618, 0.5)` -/
def sigmoid01 {F} [Elem F] (x : F) : F := fma (atan x) invPi half

/-- `discretization(x, Target(0), max)` =
    `static_cast<Target>(std::round(std::fma(double(max - 0), sigmoid_01(x), double(0))))` -/
def discretization {F} [Elem F] (x : F) (max : Nat) : Nat :=
  toNat (round (fma (ofNat (max - 0)) (sigmoid01 x) (ofNat 0)))

/-- library functions the classifiers are parametric in -/
structure Fns (F : Type) where
  /-- `discretization(value, last_slot)` -/
  disc : F → Nat → Nat
  /-- `std::exp` -/
  exp : F → F
  /-- `std::isnan` -/
  isNaN : F → Bool
  /-- `10000000.0`, the cut of `fill_vector` -/
  cut : F

/-- `has_value(res) ? lexical_cast<D_DOUBLE>(res) : 0.0` -/
def valOr0 {F} [Num F] (out : Option F) : F :=
  match out with
  | some v => v
  | none => zero

/-! ### symbolic regression -/

/-- `basic_reg_lambda_f<T,S>::eval(e, false_type)` : what the interpreter yields -/
def regValue {F} (out : Option F) : Option F := out

/-- running mean over the DEFINED member outputs:
    `if (has_value(res)) avg += (res - avg) / ++count;` -/
def teamStep {F} [Num F] (s : F × F) (o : Option F) : F × F :=
  match o with
  | some v => meanStep s v
  | none => s

/-- `basic_reg_lambda_f<team<T>,S>::eval(e, true_type)` : the mean of the defined outputs, no value
    when no member has one (or when the running mean is not finite) -/
def teamValue {F} [Num F] (outs : List (Option F)) : Option F :=
  let s := outs.foldl teamStep ((zero : F), (zero : F))
  if lt zero s.2 && isFinite s.1 then some s.1 else none

/-! ### Slotted Dynamic Class Boundary Determination -/

structure DynSlot where
  /-- `slot_matrix_` : `classes * x_slot` rows of `classes` counters -/
  mat : List (List Nat)
  /-- `slot_class_` -/
  cls : List Nat
  /-- `dataset_size_` -/
  size : Nat
deriving Repr

/-- `slot()` : last slot when there is no value, else the discretization clamped to the table -/
def slot {F} (fns : Fns F) (out : Option F) (ns : Nat) : Nat :=
  let last := ns - 1
  match out with
  | none => last
  | some v =>
    let w := fns.disc v last
    if w ≥ ns then last else w

/-- `++slot_matrix_(r, c)` -/
def incr (m : List (List Nat)) (r c : Nat) : List (List Nat) :=
  m.modify r (fun row => row.modify c (· + 1))

/-- inner loop of step 2: `best = 0; for j in 1..cols: if (row[j] >= row[best]) best = j` -/
def bestClass (row : List Nat) : Nat :=
  (List.range row.length).foldl (fun b j => if 1 ≤ j ∧ row.getD j 0 ≥ row.getD b 0 then j else b) 0

/-- `i + 1 < n_slots && slot_class_[i + 1] != unknown ? slot_class_[i + 1] : 0` -/
def nextOr0 (unknown : Nat) : List Nat → Nat
  | y :: _ => if y ≠ unknown then y else 0
  | [] => 0

/-- the value an unknown slot gets: the (already repaired) left neighbour if there is one and it
    is known, else the right neighbour if known, else class 0 -/
def repairVal (unknown : Nat) (prev : Option Nat) (rest : List Nat) : Nat :=
  match prev with
  | some p => if p ≠ unknown then p else nextOr0 unknown rest
  | none => nextOr0 unknown rest

/-- step 3 (unknown-slot repair), one left-to-right pass; `prev` is the already repaired
    `slot_class_[i-1]` (`none` for `i = 0`) -/
def repair (unknown : Nat) : Option Nat → List Nat → List Nat
  | _, [] => []
  | prev, x :: rest =>
    if x ≠ unknown then x :: repair unknown (some x) rest
    else repairVal unknown prev rest :: repair unknown (some (repairVal unknown prev rest)) rest

/-- constructor + `fill_matrix(d, x_slot)`; `train` = (program output, label) per training example -/
def fillMatrix {F} (fns : Fns F) (classes xslot : Nat) (train : List (Option F × Nat)) : DynSlot :=
  let ns := classes * xslot
  let mat0 := List.replicate ns (List.replicate classes 0)
  let mat := train.foldl (fun m e => incr m (slot fns e.1 ns) e.2) mat0
  let cls1 := mat.map (fun row => let b := bestClass row; if row.getD b 0 ≠ 0 then b else classes)
  ⟨mat, repair classes none cls1, train.length⟩

/-- confidence of a slot: `!total ? 0.5 : double(ok) / total` -/
def confOfRow {F} [NumN F] (row : List Nat) (c : Nat) : F :=
  let total := row.sum
  if total = 0 then half else div (ofNat (row.getD c 0)) (ofNat total)

/-- `basic_dyn_slot_lambda_f::tag` -/
def dynTag {F} [NumN F] (fns : Fns F) (m : DynSlot) (out : Option F) : Nat × F :=
  let s := slot fns out m.mat.length
  let c := m.cls.getD s 0
  (c, confOfRow (m.mat.getD s []) c)

/-- `training_accuracy()` -/
def trainingAccuracy {F} [NumN F] (m : DynSlot) : F :=
  let ok := (List.range m.mat.length).foldl
    (fun (a : F) i => add a (ofNat ((m.mat.getD i []).getD (m.cls.getD i 0) 0))) zero
  div ok (ofNat m.size)

/-! ### Gaussian classifier -/

/-- the part of `distribution<double>` that `mean()` / `variance()` read -/
structure Dist (F : Type) where
  count : Nat
  mean : F
  m2 : F
deriving Repr

/-- `distribution::add` + `update_variance` (Welford) -/
def Dist.push {F} [NumN F] (fns : Fns F) (d : Dist F) (v : F) : Dist F :=
  if fns.isNaN v then d
  else
    let mean0 := if d.count = 0 then v else d.mean        -- `min_ = max_ = mean_ = v1`
    let c := d.count + 1
    let delta := sub v mean0
    let mean' := add mean0 (div delta (ofNat c))
    let t := mul delta (sub v mean')
    ⟨c, mean', if c > 1 then add d.m2 t else t⟩

/-- `variance()` : `m2_ / double(count())` -/
def Dist.variance {F} [NumN F] (d : Dist F) : F := div d.m2 (ofNat d.count)

/-- value fed to the distributions: 0 when undefined, cut to ±1e7 -/
def cutVal {F} [Num F] (fns : Fns F) (out : Option F) : F :=
  let val := valOr0 out
  if lt fns.cut val then fns.cut
  else if lt val (neg fns.cut) then neg fns.cut
  else val

/-- constructor + `fill_vector(d)` -/
def fillVector {F} [NumN F] (fns : Fns F) (classes : Nat) (train : List (Option F × Nat)) :
    List (Dist F) :=
  train.foldl (fun ds e => ds.modify e.2 (fun d => d.push fns (cutVal fns e.1)))
    (List.replicate classes ⟨0, zero, zero⟩)

/-- probability-like score of one class for output `x` -/
def gaussP {F} [NumN F] (fns : Fns F) (x : F) (d : Dist F) : F :=
  let distance := abs (sub x d.mean)
  let variance := d.variance
  if issmall variance then (if issmall distance then one else zero)
  else fns.exp (div (mul (neg distance) distance) variance)

/-- the selection loop of `tag`: `(probable_class, val_, sum_)` -/
def gaussPickGo {F} [Num F] : List F → Nat → Nat × F × F → Nat × F × F
  | [], _, s => s
  | p :: rest, i, (c, v, sum) =>
    if lt v p then gaussPickGo rest (i + 1) (i, p, add sum p)
    else gaussPickGo rest (i + 1) (c, v, add sum p)

def gaussPick {F} [Num F] (ps : List F) : Nat × F × F := gaussPickGo ps 0 (0, zero, zero)

/-- normalised confidence: `sum_ > 0.0 ? val_ / sum_ : 0.0` -/
def gaussConf {F} [Num F] (r : Nat × F × F) : F := if lt zero r.2.2 then div r.2.1 r.2.2 else zero

/-- `basic_gaussian_lambda_f::tag` -/
def gaussTag {F} [NumN F] (fns : Fns F) (ds : List (Dist F)) (out : Option F) : Nat × F :=
  let x := valOr0 out
  let r := gaussPick (ds.map (gaussP fns x))
  (r.1, gaussConf r)

/-! ### binary classifier -/

/-- `basic_binary_lambda_f::tag` : `{val > 0.0 ? 1u : 0u, std::fabs(val)}` -/
def binTag {F} [Num F] (out : Option F) : Nat × F :=
  let v := valOr0 out
  (if lt zero v then 1 else 0, abs v)

/-! ### teams of classifiers -/

/-- winner takes all: the first member with the strictly largest sureness -/
def wta {F} [Num F] : List (Nat × F) → Nat × F
  | [] => (0, zero)
  | t :: rest => rest.foldl (fun best r => if lt best.2 r.2 then r else best) t

/-- `++votes[label]` for every member -/
def votesOf (classes : Nat) (labels : List Nat) : List Nat :=
  labels.foldl (fun v l => v.modify l (· + 1)) (List.replicate classes 0)

/-- `max = 0; for i in 1..classes: if (votes[i] > votes[max]) max = i` -/
def argMaxVotes (votes : List Nat) : Nat :=
  (List.range votes.length).foldl (fun m i => if 1 ≤ i ∧ votes.getD i 0 > votes.getD m 0 then i else m) 0

/-- majority voting -/
def mv {F} [NumN F] (classes : Nat) (tags : List (Nat × F)) : Nat × F :=
  let votes := votesOf classes (tags.map (·.1))
  let m := argMaxVotes votes
  (m, div (ofNat (votes.getD m 0)) (ofNat tags.length))

/-! ### accuracy metric -/

/-- `accuracy_metric::operator()(core_class_lambda_f*, d)` : pairs (predicted label, label) -/
def accuracyClass {F} [NumN F] (pairs : List (Nat × Nat)) : F :=
  div (ofNat (pairs.filter (fun p => p.1 == p.2)).length) (ofNat pairs.length)

/-- `accuracy_metric::operator()(core_reg_lambda_f*, d)` : pairs (model value, target) -/
def regHit {F} [Num F] (p : Option F × F) : Bool :=
  match p.1 with
  | some a => issmall (sub a p.2)
  | none => false

def accuracyReg {F} [NumN F] (pairs : List (Option F × F)) : F :=
  div (ofNat (pairs.filter regHit).length) (ofNat pairs.length)

/-! ### the evaluators of C05 instantiated with THESE models -/

/-- a classification example: program output, label, difficulty -/
structure TEx (F : Type) where
  out : Option F
  label : Nat
  difficulty : Nat

/-- `dyn_slot_evaluator::operator()` : builds the lambda from the dataset it then scores -/
def dynSlotEvaluator {F} [NumN F] (fns : Fns F) (classes xslot : Nat) (d : List (TEx F)) :=
  let m := fillMatrix fns classes xslot (d.map (fun e => (e.out, e.label)))
  countEval (d.map (fun e => (⟨(dynTag fns m e.out).1, (dynTag fns m e.out).2, e.label, e.difficulty⟩ : CEx F)))

/-- `gaussian_evaluator::operator()` -/
def gaussianEvaluator {F} [NumN F] (fns : Fns F) (classes : Nat) (d : List (TEx F)) :=
  let ds := fillVector fns classes (d.map (fun e => (e.out, e.label)))
  gaussEval (ofNat (classes - 1))
    (d.map (fun e => (⟨(gaussTag fns ds e.out).1, (gaussTag fns ds e.out).2, e.label, e.difficulty⟩ : CEx F)))

/-- `binary_evaluator::operator()` -/
def binaryEvaluator {F} [NumN F] (d : List (TEx F)) :=
  countEval (d.map (fun e => (⟨(binTag e.out).1, (binTag e.out).2, e.label, e.difficulty⟩ : CEx F)))

/-! ### instances -/

instance : NumN Rat where
  ofNat n := (n : Rat)
  half := 1 / 2

instance : NumN Float where
  ofNat := Float.ofNat
  half := 0.5

end Vita.C08
