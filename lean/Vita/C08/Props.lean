/-
  C08 — models agree with the interpreter and honour the prediction contract.

  Property theorems only (helpers: Lemmas.lean; model: Model.lean).  `fns : Fns F` ranges over ALL
  discretization / exp / isnan functions, `F` over all number types unless `Rat` is written.
  The clause "keeps predicting the same after copies, assignments, moves and after the original
  individual is gone" is the section "object lifetime": a heap of individuals, model objects whose
  interpreter holds an ADDRESS, and the special member functions as a table generated from the
  clang AST (GenStorage.lean).
-/
import Vita.C08.Lemmas
import Vita.C08.Laws
import Vita.C08.LifeLemmas
import Vita.C08.GenStorage
import Vita.C08.Bridge
import Vita.C08.DiscLaws
import Vita.C05.Props

namespace Vita.C08
open Vita.C05 Vita.C05.Num NumN

/-! ## regression models -/

/-- an individual's model returns, for every example, what the program yields on it -/
theorem reg_eq_prog {F} (out : Option F) : regValue out = out := rfl

/-- a team's model returns the MEAN of the members' defined outputs, and has no value exactly when
    no member has one (exact arithmetic; any team size, any mix of defined / undefined). -/
theorem team_mean_defined (outs : List (Option Rat)) :
    teamValue outs =
      (if outs.filterMap id = [] then none
       else some ((outs.filterMap id).sum / ((outs.filterMap id).length : Rat))) := by
  unfold teamValue
  simp only [teamFold_eq, rat_zero, rat_lt, rat_fin, Bool.and_true]
  generalize outs.filterMap id = vs
  by_cases h : vs = []
  · subst h; simp [runMean]
  · have hl : 0 < 0 + vs.length := by
      cases vs with
      | nil => exact absurd rfl h
      | cons _ _ => simp
    have := runMean_spec vs 0 0 hl
    simp only [Rat.natCast_ofNat, Nat.zero_add] at this
    rw [this]
    have hpos : (0:Rat) < (vs.length : Rat) := Rat.natCast_pos.mpr (by omega)
    simp only [h, if_false, decide_eq_true_eq, hpos, if_true, Option.some.injEq]
    grind

/-! ## dynamic slots -/

/-- `slot()` never leaves the table (the clamp), whatever the discretization returns -/
theorem slot_lt_rows {F} (fns : Fns F) (out : Option F) (ns : Nat) (h : 0 < ns) :
    slot fns out ns < ns := slot_lt fns out ns h

/-- the table built by the constructor has `classes·x_slot` rows of `classes` counters and as
    many slot classes, each an EXISTING class (the unknown marker never survives the repair) -/
theorem fillMatrix_wf {F} (fns : Fns F) (classes xslot : Nat) (hc : 0 < classes)
    (train : List (Option F × Nat)) :
    let m := fillMatrix fns classes xslot train
    m.mat.length = classes * xslot ∧ (∀ row ∈ m.mat, row.length = classes) ∧
    m.cls.length = classes * xslot ∧ ∀ c ∈ m.cls, c < classes := by
  simp only [fillMatrix]
  have inv := fold_incr_inv (fun e : Option F × Nat => (slot fns e.1 (classes * xslot), e.2)) train classes
    (classes * xslot) (List.replicate (classes * xslot) (List.replicate classes 0)) (by simp)
    (by intro row hrow; simp only [List.mem_replicate] at hrow; simp [hrow.2])
  refine ⟨inv.1, inv.2, ?_, ?_⟩
  · rw [repair_length]; simp [inv.1]
  · apply repair_lt classes hc
    · intro x hx
      simp only [List.mem_map] at hx
      obtain ⟨row, hrow, rfl⟩ := hx
      have hlen := inv.2 row hrow
      have := bestClass_lt row (by omega)
      split <;> omega
    · intro p hp; cases hp

/-- a dyn-slot answer always names an existing class: every individual, every training set
    (degenerate or not), every query (seen or not, defined or not) -/
theorem dynslot_label_lt_classes {F} [NumN F] (fns : Fns F) (classes xslot : Nat) (hc : 0 < classes)
    (train : List (Option F × Nat)) (query : Option F) :
    (dynTag fns (fillMatrix fns classes xslot train) query).1 < classes := by
  have wf := fillMatrix_wf fns classes xslot hc train
  simp only [dynTag]
  generalize fillMatrix fns classes xslot train = m at *
  obtain ⟨h1, _, h3, h4⟩ := wf
  rw [List.getD_eq_getElem?_getD]
  by_cases hs : slot fns query m.mat.length < m.cls.length
  · rw [List.getElem?_eq_getElem hs]
    exact h4 _ (List.getElem_mem hs)
  · rw [List.getElem?_eq_none (by omega)]; exact hc

/-- its confidence is in [0, 1] for ANY table state (ok ≤ row total; ½ for an empty slot) -/
theorem dynslot_confidence_unit (fns : Fns Rat) (m : DynSlot) (query : Option Rat) :
    0 ≤ (dynTag fns m query).2 ∧ (dynTag fns m query).2 ≤ 1 := by
  simp only [dynTag, confOfRow]
  split
  · show (0:Rat) ≤ 1/2 ∧ (1/2 : Rat) ≤ 1
    constructor <;> grind
  · exact natFrac_unit _ _ (getD_le_sum _ _)

/-- the documented rule: a slot that saw training examples belongs to a class with the LARGEST
    count in that slot (`bestClass`: the last one among ties); only empty slots are re-assigned -/
theorem dynslot_rule {F} (fns : Fns F) (classes xslot : Nat) (train : List (Option F × Nat))
    (s : Nat) (hs : s < classes * xslot) :
    let m := fillMatrix fns classes xslot train
    let row := m.mat.getD s []
    (row.getD (bestClass row) 0 ≠ 0 → m.cls[s]? = some (bestClass row)) ∧
    ∀ j, row.getD j 0 ≤ row.getD (bestClass row) 0 := by
  simp only [fillMatrix]
  have inv := fold_incr_inv (fun e : Option F × Nat => (slot fns e.1 (classes * xslot), e.2)) train classes
    (classes * xslot) (List.replicate (classes * xslot) (List.replicate classes 0)) (by simp)
    (by intro row hrow; simp only [List.mem_replicate] at hrow; simp [hrow.2])
  generalize train.foldl (fun m e => incr m (slot fns e.1 (classes * xslot)) e.2)
    (List.replicate (classes * xslot) (List.replicate classes 0)) = mat at *
  refine ⟨?_, fun j => bestClass_max _ j⟩
  intro hne
  have hlen : s < (mat.map (fun row => if row.getD (bestClass row) 0 ≠ 0 then bestClass row else classes)).length := by
    simp [inv.1, hs]
  have hs' : s < mat.length := by rw [inv.1]; exact hs
  have hrow : mat.getD s [] = mat[s] := by
    rw [List.getD_eq_getElem?_getD, List.getElem?_eq_getElem hs']; rfl
  rw [hrow] at hne ⊢
  have hrlen : mat[s].length = classes := inv.2 _ (List.getElem_mem hs')
  have hb := bestClass_lt mat[s] (by
    rw [hrlen]
    by_cases hc : classes = 0
    · subst hc; simp at hs
    · omega)
  have := repair_keeps classes _ none s hlen (by
    simp only [List.getElem_map]
    simp only [hne, ne_eq, not_false_eq_true, if_true]
    omega)
  rw [this]
  simp only [List.getElem_map, hne, ne_eq, not_false_eq_true, if_true]

/-! ## Gaussian classifier -/

theorem fillVector_length {F} [NumN F] (fns : Fns F) (classes : Nat) (train : List (Option F × Nat)) :
    (fillVector fns classes train).length = classes := by
  unfold fillVector
  suffices h : ∀ ds : List (Dist F), ds.length = classes →
      (train.foldl (fun ds e => ds.modify e.2 (fun d => d.push fns (cutVal fns e.1))) ds).length = classes by
    exact h _ (by simp)
  induction train with
  | nil => intro ds h; simpa
  | cons e rest ih => intro ds h; simp only [List.foldl_cons]; exact ih _ (by simp [h])

/-- a Gaussian answer always names an existing class (also when a variance is NaN/0, a class has
    no training example, the query is undefined …) -/
theorem gauss_label_lt_classes {F} [NumN F] (fns : Fns F) (classes : Nat) (hc : 0 < classes)
    (train : List (Option F × Nat)) (query : Option F) :
    (gaussTag fns (fillVector fns classes train) query).1 < classes := by
  simp only [gaussTag]
  have hl := fillVector_length fns classes train
  generalize valOr0 query = x
  have := gaussPick_lt ((fillVector fns classes train).map (gaussP fns x)) (by simp [hl, hc])
  rw [List.length_map, hl] at this
  exact this

/-- the selection / normalisation step: for ANY per-class scores `p ≥ 0` the confidence
    `val/sum` (0 when `sum = 0`) is in [0, 1] -/
theorem gauss_confidence_unit (ps : List Rat) (hp : ∀ p ∈ ps, 0 ≤ p) :
    0 ≤ gaussConf (gaussPick ps) ∧ gaussConf (gaussPick ps) ≤ 1 := gaussConf_unit ps hp

/-- … hence for the whole `tag`, for every `exp` that is non-negative -/
theorem gauss_tag_confidence_unit (fns : Fns Rat) (hexp : ∀ x, 0 ≤ fns.exp x) (ds : List (Dist Rat))
    (query : Option Rat) :
    0 ≤ (gaussTag fns ds query).2 ∧ (gaussTag fns ds query).2 ≤ 1 := by
  simp only [gaussTag]
  generalize valOr0 query = x
  apply gaussConf_unit
  intro p hp
  simp only [List.mem_map] at hp
  obtain ⟨d, _, rfl⟩ := hp
  unfold gaussP
  simp only []
  split
  · split
    · show (0:Rat) ≤ 1; grind
    · exact Rat.le_refl
  · exact hexp _

/-- the documented rule: the chosen class has the largest score -/
theorem gauss_picks_max (ps : List Rat) : ∀ p ∈ ps, p ≤ (gaussPick ps).2.1 :=
  (gaussPickGo_max ps 0 (0, (0 : Rat), (0 : Rat))).2

/-- the variance read by the classifier is never negative: Welford's `m2` stays ≥ 0 -/
theorem variance_m2_nonneg (fns : Fns Rat) (d : Dist Rat) (v : Rat) (h : 0 ≤ d.m2) :
    0 ≤ (d.push fns v).m2 := push_m2_nonneg fns d v h

/-! ## binary classifier -/

theorem binary_conf_nonneg (out : Option Rat) : 0 ≤ (binTag out).2 ∧ (binTag out).1 < 2 := by
  unfold binTag
  refine ⟨by simp, ?_⟩
  generalize valOr0 out = v
  simp only []
  split <;> omega

/-! ## teams of classifiers -/

/-- winner-takes-all returns the answer of one of the members (so it inherits their contract) -/
theorem wta_mem {F} [Num F] (tags : List (Nat × F)) (h : tags ≠ []) : wta tags ∈ tags :=
  wta_mem' tags h

/-- majority voting names an existing class … -/
theorem mv_label_lt {F} [NumN F] (classes : Nat) (hc : 0 < classes) (tags : List (Nat × F)) :
    (mv classes tags).1 < classes := by
  simp only [mv]
  have := argMaxVotes_lt (votesOf classes (tags.map (·.1))) (by rw [votesOf_length]; exact hc)
  rwa [votesOf_length] at this

/-- … with a confidence (share of the votes) in [0, 1] -/
theorem mv_conf_unit (classes : Nat) (tags : List (Nat × Rat)) :
    0 ≤ (mv classes tags).2 ∧ (mv classes tags).2 ≤ 1 := by
  simp only [mv]
  apply natFrac_unit
  have h1 := getD_le_sum (votesOf classes (tags.map (·.1))) (argMaxVotes (votesOf classes (tags.map (·.1))))
  have h2 := votesOf_sum_le classes (tags.map (·.1))
  simp only [List.length_map] at h2
  omega

/-- any contract shared by all members is inherited by the winner-takes-all answer -/
theorem wta_inherits {F} [Num F] (P : Nat × F → Prop) (tags : List (Nat × F)) (h : tags ≠ [])
    (hp : ∀ t ∈ tags, P t) : P (wta tags) := hp _ (wta_mem' tags h)

/-- e.g. a winner-takes-all team of dyn-slot classifiers (each member trained on its own outputs
    `trains k`, queried with its own output `queries k`) names an existing class -/
theorem team_wta_dynslot_label_lt {F} [NumN F] (fns : Fns F) (classes xslot : Nat) (hc : 0 < classes)
    (members : List (List (Option F × Nat) × Option F)) (h : members ≠ []) :
    (wta (members.map (fun m => dynTag fns (fillMatrix fns classes xslot m.1) m.2))).1 < classes := by
  apply wta_inherits (fun t => t.1 < classes)
  · simpa using h
  · intro t ht
    simp only [List.mem_map] at ht
    obtain ⟨m, _, rfl⟩ := ht
    exact dynslot_label_lt_classes fns classes xslot hc m.1 m.2

/-! ## confidence range for doubles (IEEE laws as hypotheses) -/

theorem dynslot_confidence_unit_ieee {F} [NumN F] (L : ConfLaws F) (fns : Fns F) (m : DynSlot)
    (query : Option F) :
    nn (dynTag fns m query).2 ∧ le (dynTag fns m query).2 (one : F) = true := by
  simp only [dynTag]
  exact confOfRow_unit_ieee L _ _

theorem gauss_confidence_unit_ieee {F} [NumN F] (L : ConfLaws F) (ps : List F)
    (hp : ∀ p ∈ ps, nn p ∨ L.nan p) :
    nn (gaussConf (gaussPick ps)) ∧ le (gaussConf (gaussPick ps)) (one : F) = true :=
  gaussConf_unit_ieee L ps hp

example : ConfLaws Rat := ratConfLaws

/-! ## accuracy -/

/-- reported accuracy is the fraction of examples whose prediction matches the label -/
theorem accuracy_is_fraction (pairs : List (Nat × Nat)) :
    (accuracyClass pairs : Rat) = ((pairs.filter (fun p => p.1 == p.2)).length : Rat) / (pairs.length : Rat) ∧
    0 ≤ (accuracyClass pairs : Rat) ∧ (accuracyClass pairs : Rat) ≤ 1 := by
  refine ⟨rfl, ?_⟩
  exact natFrac_unit _ _ (List.length_filter_le _ _)

/-- regression: the fraction of examples with a value within `issmall` of the target -/
theorem accuracy_reg_is_fraction (pairs : List (Option Rat × Rat)) :
    (accuracyReg pairs : Rat) = ((pairs.filter regHit).length : Rat) / (pairs.length : Rat) ∧
    0 ≤ (accuracyReg pairs : Rat) ∧ (accuracyReg pairs : Rat) ≤ 1 := by
  refine ⟨rfl, ?_⟩
  exact natFrac_unit _ _ (List.length_filter_le _ _)

/-! ## the evaluator scores THIS model -/

/-- predictions of the dyn-slot model built from dataset `d`, on `d` itself -/
def dynPredictions (fns : Fns Rat) (classes xslot : Nat) (d : List (TEx Rat)) : List (Nat × Nat) :=
  let m := fillMatrix fns classes xslot (d.map (fun e => (e.out, e.label)))
  d.map (fun e => ((dynTag fns m e.out).1, e.label))

/-- `dyn_slot_evaluator` returns minus the number of examples that the dyn-slot model built from
    the same individual and dataset mislabels; with the accuracy metric of that model:
    `fitness = −n·(1 − accuracy)`, i.e. `accuracy·n = n + fitness`. -/
theorem evaluator_scores_model (fns : Fns Rat) (classes xslot : Nat) (d : List (TEx Rat)) :
    (dynSlotEvaluator fns classes xslot d).1 =
      [ - (((dynPredictions fns classes xslot d).filter (fun p => p.1 != p.2)).length : Rat) ] ∧
    (accuracyClass (dynPredictions fns classes xslot d) : Rat) * (d.length : Rat)
      = (d.length : Rat) - (((dynPredictions fns classes xslot d).filter (fun p => p.1 != p.2)).length : Rat) := by
  constructor
  · unfold dynSlotEvaluator
    rw [count_is_minus_misclassified]
    simp only [nWrong, dynPredictions, List.filter_map, List.length_map]
    rfl
  · have hsplit : ∀ l : List (Nat × Nat),
        (l.filter (fun p => p.1 == p.2)).length + (l.filter (fun p => p.1 != p.2)).length = l.length := by
      intro l
      induction l with
      | nil => simp
      | cons p ps ih =>
        simp only [List.filter_cons, List.length_cons]
        by_cases hp : p.1 = p.2 <;> simp [hp] <;> omega
    have hlen : (dynPredictions fns classes xslot d).length = d.length := by simp [dynPredictions]
    have h := hsplit (dynPredictions fns classes xslot d)
    rw [hlen] at h
    simp only [accuracyClass, hlen]
    show ((List.filter (fun p => p.1 == p.2) (dynPredictions fns classes xslot d)).length : Rat) / (d.length : Rat) * (d.length : Rat) = _
    by_cases hd : d.length = 0
    · have : (List.filter (fun p => p.1 != p.2) (dynPredictions fns classes xslot d)).length = 0 := by omega
      rw [this, hd]; simp; grind
    · have hpos : (d.length : Rat) ≠ 0 := by simp [hd]
      have hc : ((List.filter (fun p => p.1 == p.2) (dynPredictions fns classes xslot d)).length : Rat)
          + ((List.filter (fun p => p.1 != p.2) (dynPredictions fns classes xslot d)).length : Rat) = (d.length : Rat) := by
        rw [← Rat.natCast_add]; congr 1
      grind

/-- same for the binary evaluator / model -/
theorem binary_evaluator_scores_model (d : List (TEx Rat)) :
    (binaryEvaluator d).1 =
      [ - (((d.map (fun e => ((binTag e.out).1, e.label))).filter (fun p => p.1 != p.2)).length : Rat) ] := by
  unfold binaryEvaluator
  rw [count_is_minus_misclassified]
  simp only [nWrong, List.filter_map, List.length_map]
  rfl

/-! ## discretization.h, distribution, team compositions and model_metric.cc for DOUBLES

  `ConfLaws` / `DiscLaws` : IEEE-754 and libm facts as hypotheses; `ratConfLaws` / `ratDiscLaws`
  show they are satisfiable. -/

/-- `sigmoid_01(x) ∈ [0,1]` for every double that is not NaN (huge values, ±∞: nothing overflows) -/
theorem sigmoid01_unit_ieee {F} [Elem F] (L : DiscLaws F) (x : F) (hx : ¬ L.nan x) :
    nn (sigmoid01 x) ∧ le (sigmoid01 x) (one : F) = true := sigmoid01_unit_ieee' L x hx

/-- `discretization(x, max) ≤ max` for every non-NaN double: the `Ensures` of discretization.h -/
theorem discretization_le_max_ieee {F} [Elem F] (L : DiscLaws F) (x : F) (hx : ¬ L.nan x) (max : Nat)
    (hm : max < 2 ^ 53) : discretization x max ≤ max := discretization_le_max_ieee' L x hx max hm

/-- the slot computation with THE discretization of discretization.h: for every output that is not
    NaN the clamp of `slot()` is never taken (`slot = discretization(value, last_slot)`), and whatever
    the cast of a NaN yields the clamp keeps the slot inside the table -/
theorem slot_is_discretization_ieee {F} [Elem F] (L : DiscLaws F) (fns : Fns F)
    (hd : fns.disc = fun v last => discretization v last) (ns : Nat) (h0 : 0 < ns) (hn : ns < 2 ^ 53) (out : Option F) :
    slot fns out ns < ns ∧
    ∀ v, out = some v → ¬ L.nan v → slot fns out ns = discretization v (ns - 1) := by
  refine ⟨slot_lt fns out ns h0, ?_⟩
  intro v hv hnan
  subst hv
  have := discretization_le_max_ieee' L v hnan (ns - 1) (by omega)
  unfold slot
  simp only [hd]
  split
  · omega
  · rfl

example : @DiscLaws Rat ratElem := ratDiscLaws

/-- the distribution the Gaussian classifier keeps per class (`distribution::add` +
    `update_variance`, exact arithmetic): after any non-empty sequence of values `count` is their
    number, `mean()` their arithmetic mean and `variance()` their population variance -/
theorem dist_is_mean_variance (ex : Rat → Rat) (dsc : Rat → Nat → Nat) (xs : List Rat) (h : xs ≠ []) :
    let fns : Fns Rat := ⟨dsc, ex, fun _ => false, 10000000⟩
    let d := xs.foldl (Dist.push fns) ⟨0, 0, 0⟩
    d.count = xs.length ∧ d.mean = xs.sum / (xs.length : Rat) ∧
    d.variance = (xs.map (fun x => (x - d.mean) * (x - d.mean))).sum / (xs.length : Rat) := by
  intro fns d
  have hw := welford_is_mean_variance ex dsc xs h
  have hb : @Cls.pushAll Rat (ratNumC ex dsc) (@Cls.Dist.empty Rat _) xs = toCls d :=
    pushAll_eq fns xs ⟨0, 0, 0⟩
  simp only [hb] at hw
  exact hw

/-- NaN is never pushed (`isnan(val)` → return), so it can never poison a mean -/
theorem dist_ignores_nan {F} [NumN F] (fns : Fns F) (d : Dist F) (v : F) (h : fns.isNaN v = true) :
    d.push fns v = d := by
  unfold Dist.push; simp [h]

/-- Gaussian `tag` for doubles, the whole function: for any distributions (NaN variances included)
    and any `exp` whose results are ≥ 0 or NaN, the confidence is in [0,1] -/
theorem gauss_tag_confidence_unit_ieee {F} [NumN F] (L : ConfLaws F) (fns : Fns F)
    (hexp : ∀ x, nn (fns.exp x) ∨ L.nan (fns.exp x)) (ds : List (Dist F)) (query : Option F) :
    nn (gaussTag fns ds query).2 ∧ le (gaussTag fns ds query).2 (one : F) = true := by
  simp only [gaussTag]
  apply gaussConf_unit_ieee L
  intro p hp
  simp only [List.mem_map] at hp
  obtain ⟨d, _, rfl⟩ := hp
  unfold gaussP
  simp only []
  split
  · split
    · exact Or.inl L.zero_le_one
    · exact Or.inl L.zero_nn
  · exact hexp _

/-- majority voting: the winner has the largest number of votes … -/
theorem mv_rule {F} [NumN F] (classes : Nat) (tags : List (Nat × F)) (j : Nat) :
    (votesOf classes (tags.map (·.1))).getD j 0 ≤
      (votesOf classes (tags.map (·.1))).getD (mv classes tags).1 0 := argMaxVotes_max _ j

/-- … and its confidence (share of the votes) is in [0,1] for doubles -/
theorem mv_conf_unit_ieee {F} [NumN F] (L : ConfLaws F) (classes : Nat) (tags : List (Nat × F)) (h : tags ≠ []) :
    nn (mv classes tags).2 ∧ le (mv classes tags).2 (one : F) = true := by
  simp only [mv]
  apply L.frac_unit
  · have h1 := getD_le_sum (votesOf classes (tags.map (·.1))) (argMaxVotes (votesOf classes (tags.map (·.1))))
    have h2 := votesOf_sum_le classes (tags.map (·.1))
    simp only [List.length_map] at h2
    omega
  · cases tags with
    | nil => exact absurd rfl h
    | cons _ _ => simp

/-- winner takes all: no member is surer than the winner (exact arithmetic) -/
theorem wta_rule (tags : List (Nat × Rat)) : ∀ t ∈ tags, t.2 ≤ (wta tags).2 := by
  cases tags with
  | nil => intro t ht; cases ht
  | cons t0 rest =>
    intro t ht
    simp only [wta]
    have := wta_fold_max rest t0
    simp only [List.mem_cons] at ht
    rcases ht with rfl | ht
    · exact this.1
    · exact this.2 t ht

/-- a team of classifiers, both compositions, for doubles: when every member's confidence is in
    [0,1] (dyn-slot: always; Gaussian: `gauss_tag_confidence_unit_ieee`) so is the team's -/
theorem team_confidence_unit_ieee {F} [NumN F] (L : ConfLaws F) (classes : Nat) (tags : List (Nat × F)) (h : tags ≠ [])
    (hm : ∀ t ∈ tags, nn t.2 ∧ le t.2 (one : F) = true) :
    (nn (wta tags).2 ∧ le (wta tags).2 (one : F) = true) ∧
    (nn (mv classes tags).2 ∧ le (mv classes tags).2 (one : F) = true) :=
  ⟨wta_inherits (fun t => nn t.2 ∧ le t.2 (one : F) = true) tags h hm, mv_conf_unit_ieee L classes tags h⟩

/-- `accuracy_metric` (the only metric of model_metric.cc), both overloads, for doubles: a value in
    [0,1] on every non-empty dataset -/
theorem accuracy_unit_ieee {F} [NumN F] (L : ConfLaws F) :
    (∀ pairs : List (Nat × Nat), pairs ≠ [] →
      nn (accuracyClass (F := F) pairs) ∧ le (accuracyClass (F := F) pairs) one = true) ∧
    (∀ pairs : List (Option F × F), pairs ≠ [] →
      nn (accuracyReg pairs) ∧ le (accuracyReg pairs) one = true) := by
  constructor
  · intro pairs h
    unfold accuracyClass
    exact L.frac_unit _ _ (List.length_filter_le _ _) (List.length_pos_iff.mpr h)
  · intro pairs h
    unfold accuracyReg
    exact L.frac_unit _ _ (List.length_filter_le _ _) (List.length_pos_iff.mpr h)

/-- `accuracy_metric` is the only class derived from `model_metric` in the current source (generated
    list): a new metric breaks this obligation until it is modelled -/
theorem every_metric_is_modelled : Gen.metrics = ["accuracy_metric"] := by decide

/-! ## it is the same function the TRAINING evaluator scored (C05's evaluators END TO END)

  `Cls.dynSlotEvaluator`, `Cls.gaussianEvaluator`, `Cls.binaryEvaluator` are C05's models of
  `*_evaluator::operator()` from the member programs' outputs to the fitness; `dynModels` /
  `gaussModels` / `binModels` + `predict` are THIS file's model of what `lambdify(ind)` returns (one
  classifier per member trained on the evaluator's dataset, winner takes all; one member = an
  individual).  Bridge.lean proves the two classifier models equal definition by definition, for
  every number type. -/

/-- dyn-slot, individuals and teams: the evaluator's count of misclassified examples is
    `#examples − #(training rows lambdify(ind) predicts right)` -/
theorem dyn_evaluator_scores_lambdify (fns : Fns Rat) (classes xslot members : Nat) (d : List (Cls.TEx Rat)) :
    (@Cls.dynSlotEvaluator Rat (numC fns) classes xslot members d).1 =
      [ - (((d.length - nCorrect (dynModels fns classes xslot members d) d : Nat)) : Rat) ] := by
  unfold Cls.dynSlotEvaluator
  rw [dynTaggers_eq, tagAll_eq]
  have h := count_is_minus_misclassified (scored (dynModels fns classes xslot members d) d)
  rw [nWrong_scored] at h
  have h2 := correct_add_mislabelled (dynModels fns classes xslot members d) d
  have h3 : nMislabelled (dynModels fns classes xslot members d) d =
      d.length - nCorrect (dynModels fns classes xslot members d) d := by omega
  rw [← h3]; exact h

/-- binary -/
theorem bin_evaluator_scores_lambdify (fns : Fns Rat) (members : Nat) (d : List (Cls.TEx Rat)) :
    (@Cls.binaryEvaluator Rat (numC fns) members d).1 =
      [ - (((d.length - nCorrect (binModels members) d : Nat)) : Rat) ] := by
  unfold Cls.binaryEvaluator
  rw [binTaggers_eq, tagAll_eq]
  have h := count_is_minus_misclassified (scored (binModels (F := Rat) members) d)
  rw [nWrong_scored] at h
  have h2 := correct_add_mislabelled (binModels (F := Rat) members) d
  have h3 : nMislabelled (binModels (F := Rat) members) d = d.length - nCorrect (binModels members) d := by omega
  rw [← h3]; exact h

/-- Gaussian: the documented score `Σ (right ? (confidence − 1)/(classes − 1) : −1)` over the answers
    of lambdify(ind) on the training set -/
theorem gauss_evaluator_scores_lambdify (fns : Fns Rat) (classes members : Nat) (d : List (Cls.TEx Rat)) :
    (@Cls.gaussianEvaluator Rat (numC fns) classes members d).1 =
      [ ((scored (gaussModels fns classes members d) d).map (gaussTerm ((classes - 1 : Nat) : Rat))).sum ] := by
  unfold Cls.gaussianEvaluator
  rw [gaussTaggers_eq, tagAll_eq]
  exact gaussian_score _ _

/-- … for doubles too: the classifier the evaluator scores and the one lambdify returns are the same
    function of (member outputs, labels), whatever the number type and the library functions -/
theorem evaluator_classifier_is_lambdify {F} [NumN F] (fns : Fns F) (classes xslot members : Nat) (d : List (Cls.TEx F)) :
    @Cls.tagAll F _ (@Cls.dynTaggers F (numC fns) classes xslot members d) d = scored (dynModels fns classes xslot members d) d ∧
    @Cls.tagAll F _ (@Cls.gaussTaggers F (numC fns) classes members d) d = scored (gaussModels fns classes members d) d ∧
    @Cls.tagAll F _ (Cls.binTaggers members) d = scored (binModels members) d := by
  refine ⟨?_, ?_, ?_⟩
  · rw [dynTaggers_eq, tagAll_eq]
  · rw [gaussTaggers_eq, tagAll_eq]
  · rw [binTaggers_eq, tagAll_eq]

/-- the value `reg_lambda_f` returns for the member outputs of one example -/
def regModel {F} [Num F] (team : Bool) (outs : List (Option F)) : Option F :=
  if team then teamValue outs else regValue (outs.getD 0 none)

/-- symbolic regression (mae / rmae / mse / count), individuals and teams: the fitness is minus the
    mean of the documented error of the MODEL's value (what lambdify(ind) returns) on each example -/
theorem reg_evaluator_scores_lambdify (k : ErrKind) (team : Bool) (d : List (List (Option Rat) × Rat)) (h : d ≠ []) :
    (evalFull (errF k) (d.map (fun e => (⟨regModel team e.1, e.2, 0⟩ : Ex Rat)))).1 =
      [ - ((d.map (fun e => errF k (regModel team e.1) e.2)).sum / (d.length : Rat)) ] := by
  rw [fitness_full _ _ (by simpa using h)]
  simp only [List.map_map, List.length_map]
  rfl

/-! ## object lifetime (detail/lambda_f.h: `reg_lambda_f_storage`, the core of every model object) -/

section lifetime
open Life

/-- `S = true`.  For EVERY table of special member functions in which constructors and assignments
    take the source's individual and (re-)seat the interpreter on the object's own copy, in EVERY
    history (the caller creates, overwrites, destroys individuals at will – the original included;
    models are constructed, copy / move constructed, copy / move assigned – self-assignment
    included –, destroyed, in any order) every live storing model's interpreter points at that
    object's own stored individual, which is alive, is not one of the caller's, and – unless the
    object has just been moved from – IS the individual the object stands for and the one the
    interpreter was built for: the model reads it (never dangling, never another object's, never
    through an interpreter dimensioned for another program). -/
theorem stored_model_owns_its_individual {P : Type} [DecidableEq P] (tbl : Bool → Smf)
    (hw : WellSeated (tbl true) = true) (junk : P → P) (h : List (Op P)) (i : Nat) (o : Obj P)
    (ho : (run tbl junk h).objs i = some o) (hs : o.stored = true) :
    o.ptr = o.cell ∧ (run tbl junk h).ext o.ptr = false ∧
    (o.valid = true → (run tbl junk h).read i = some o.prog) := by
  have inv := run_inv tbl hw junk h St.init inv_init
  obtain ⟨h1, h2, _, h4, h5⟩ := inv.own i o (by simp) ho hs
  refine ⟨h1, by rw [h1]; exact h4, ?_⟩
  intro hv
  show ((run tbl junk h).objs i).bind _ = _
  have h2' : (run tbl junk h).heap o.cell = some o.prog := h2
  rw [ho]; simp only [Option.bind]; rw [h1, h2', h5 hv]; simp

/-- … and two live storing models never share the individual they read -/
theorem stored_models_do_not_share {P : Type} (tbl : Bool → Smf) (hw : WellSeated (tbl true) = true)
    (junk : P → P) (h : List (Op P)) (i j : Nat) (oi oj : Obj P) (hij : i ≠ j)
    (hi : (run tbl junk h).objs i = some oi) (hj : (run tbl junk h).objs j = some oj)
    (hsi : oi.stored = true) (hsj : oj.stored = true) : oi.ptr ≠ oj.ptr := by
  have inv := run_inv tbl hw junk h St.init inv_init
  have h1 := (inv.own i oi (by simp) hi hsi).1
  have h2 := (inv.own j oj (by simp) hj hsj).1
  intro hp
  exact hij (inv.inj i j oi oj (by simp) (by simp) hi hj hsi hsj (by rw [← h1, ← h2]; exact hp))

/-- `S = false` (what the evaluators use internally): under the DOCUMENTED precondition – the caller
    neither overwrites nor destroys an individual a live reference-only model points at – the model
    reads the individual it stands for; copies / assignments carry the pointer along. -/
theorem ref_model_under_precondition {P : Type} [DecidableEq P] (tbl : Bool → Smf) (hw : WellSeated (tbl true) = true)
    (hr : WellRef (tbl false) = true) (junk : P → P) (h : List (Op P))
    (hsafe : RefSafe tbl junk St.init h) (i : Nat) (o : Obj P)
    (ho : (run tbl junk h).objs i = some o) (hs : o.stored = false) :
    (run tbl junk h).read i = some o.prog := by
  have inv := run_invR tbl hw hr junk h St.init inv_init (by intro i o _ h; simp [St.init] at h) hsafe
  obtain ⟨h1, _, h3⟩ := inv i o (by simp) ho hs
  show ((run tbl junk h).objs i).bind _ = _
  have h1' : (run tbl junk h).heap o.ptr = some o.prog := h1
  rw [ho]; simp only [Option.bind]; rw [h1', h3]; simp

/-- the special member functions of the CURRENT source (generated table) -/
def shippedTbl : Bool → Smf := fun stored => if stored then Gen.storedSmf else Gen.refSmf

/-- the obligation on the current source: the storing flavour re-seats everywhere (a defaulted copy
    assignment, a swapped interpreter, an assignment that leaves `int_` alone – the interpreter's
    cache is dimensioned on the OLD individual – … change the table and break this) -/
theorem shipped_storage_well_seated : WellSeated (shippedTbl true) = true := by decide

theorem shipped_ref_storage_well_formed : WellRef (shippedTbl false) = true := by decide

/-- a de-serialised model binds the interpreter to its own individual too -/
theorem shipped_load_seats_own : Gen.storedLoadPtr = .seatOwn := by decide

/-- the team storage is a vector of member storages and declares no special member function: a team
    model is copied / moved / destroyed member by member (a macro over the operations above) -/
theorem shipped_team_storage_memberwise : Gen.teamFields = ["team_"] ∧ Gen.teamDeclared = [] := by decide

/-- hence, for the code as it is: in every history every live model that stores its individual
    predicts with its own, live copy of the individual it stands for -/
theorem shipped_models_own_their_individual {P : Type} [DecidableEq P] (junk : P → P) (h : List (Op P)) (i : Nat)
    (o : Obj P) (ho : (run shippedTbl junk h).objs i = some o) (hs : o.stored = true) (hv : o.valid = true) :
    o.ptr = o.cell ∧ (run shippedTbl junk h).read i = some o.prog :=
  let r := stored_model_owns_its_individual shippedTbl shipped_storage_well_seated junk h i o ho hs
  ⟨r.1, r.2.2 hv⟩

/-- every `lambdify` hands out a model that STORES its individual … -/
theorem lambdify_routes_store : ∀ r ∈ Gen.routes, r.2.2 = true := by decide

/-- … the forwarding evaluators delegate to the evaluator they wrap, and `src_search::lambdify` asks
    the TRAINING evaluator on every path -/
theorem search_lambdify_asks_training_evaluator :
    Gen.searchSel.onlyTraining = true ∧ Gen.constrainedSel = .member "eva_" ∧ Gen.proxySel = .member "eva_" := by
  decide

end lifetime

/-! ## non-vacuity -/

def idFns : Fns Rat := ⟨fun v last => (v.floor.toNat % (last + 1)), fun _ => 1, fun _ => false, 10000000⟩

example : (fillMatrix idFns 2 2 [(some 0, 0), (some 1, 1), (none, 1)]).cls = [0, 1, 1, 1] := by decide
example : teamValue [some (1 : Rat), none, some 3] = some 2 := by
  rw [team_mean_defined]; simp; grind
example : wta [(0, (1 : Rat) / 2), (1, 3 / 4), (2, 3 / 4)] = (1, 3 / 4) := by
  simp [wta]; grind
example : (mv 3 [(2, (1 : Rat)), (1, 1), (2, 1)]).1 = 2 := by decide


section lifetime_examples
open Life

/-- construct from individual 7, destroy the individual, copy the model, destroy the first model,
    assign over a model of individual 9: every survivor still reads 7 -/
def sampleHistory : List (Op Nat) :=
  [.newInd 7, .newInd 9, .construct true 1, .construct true 2, .delInd 1, .copyConstruct 0, .destroy 0,
   .copyAssign 1 2, .setInd 2 5]
example : (run shippedTbl id sampleHistory).read 2 = some 7 ∧ (run shippedTbl id sampleHistory).read 1 = some 7 ∧
    (run shippedTbl id sampleHistory).read 0 = none := by decide

/-- a safe history of a reference-only model (the precondition is satisfiable) … -/
example : RefSafe (P := Nat) shippedTbl id St.init [.newInd 7, .construct false 1, .copyConstruct 0, .newInd 8, .setInd 2 3] := by
  simp [RefSafe, opSafe, step, St.init, upd, constructFrom, runMember, applyInd, applyPtr, shippedTbl, Gen.refSmf]
  intro i o h _
  repeat' split at h
  all_goals first
    | (injection h with h; subst h; simp)
    | cases h

/-- … and what the precondition protects from: overwrite the individual and the model no longer reads
    the individual it stands for (its interpreter faces a program it was not built for) -/
example : (run (P := Nat) shippedTbl id [.newInd 7, .construct false 1, .setInd 1 3]).read 0 = none := by decide

/-- the model DISTINGUISHES tables: with a memberwise (defaulted) copy the copy's interpreter still
    points into the original model – destroy the original and the copy dangles -/
def memberwiseTbl : Bool → Smf := fun _ =>
  { Gen.storedSmf with copyCtor := ⟨.copy, .copyPtr⟩, copyAssign := ⟨.copy, .copyPtr⟩,
                       moveCtor := ⟨.copy, .copyPtr⟩, moveAssign := ⟨.copy, .copyPtr⟩ }
example : (run (P := Nat) memberwiseTbl id [.newInd 7, .construct true 1, .copyConstruct 0, .destroy 0]).read 1 = none := by
  decide
example : WellSeated (memberwiseTbl true) = false := by decide

/-- an assignment that copies the individual but leaves the interpreter alone: the pointer is right,
    the interpreter is not (built for the old individual 7, now facing 9): no value -/
def keepTbl : Bool → Smf := fun _ => { Gen.storedSmf with copyAssign := ⟨.copy, .keep⟩ }
example : (run (P := Nat) keepTbl id [.newInd 7, .newInd 9, .construct true 1, .construct true 2, .copyAssign 0 1]).read 0 = none := by
  decide
example : WellSeated (keepTbl true) = false := by decide

/-- a move assignment that swaps the interpreters too (seeded change C08-m1): after `a = move(b)` the
    interpreter of `a` points into `b`, at the OLD individual of `a`, with a cache built for `b`'s:
    `a` does not read the individual 9 it now stands for -/
def swapTbl : Bool → Smf := fun _ => { Gen.storedSmf with moveAssign := ⟨.swap, .swapPtr⟩ }
example : (run (P := Nat) swapTbl id [.newInd 7, .newInd 9, .construct true 1, .construct true 2, .moveAssign 0 1]).read 0 ≠ some 9 := by
  decide

end lifetime_examples

end Vita.C08
