/-
  C09 / C10 — model of `src/utility/pocket_csv.h` (parser and sniffer) and of the string
  helpers of `src/utility/utility.cc` it shares with the dataframe (`trim`, `is_number`).

  Strings are lists of characters; a character stands for one byte of the file (the driver
  maps byte `b` to `Char.ofNat b`).  Every definition follows the control flow of the C++
  function named in its comment.
-/
namespace Vita.C09

abbrev Str := List Char

/-! ### <cctype> in the "C" locale (bytes ≥ 0x80 belong to no class) -/

/-- `std::isspace` -/
def isSpace (c : Char) : Bool :=
  c == ' ' || c == '\t' || c == '\n' || c == '\x0b' || c == '\x0c' || c == '\r'

def isUpper (c : Char) : Bool := 'A' ≤ c && c ≤ 'Z'
def isLower (c : Char) : Bool := 'a' ≤ c && c ≤ 'z'
def isAlpha (c : Char) : Bool := isUpper c || isLower c
def isPrint (c : Char) : Bool := ' ' ≤ c && c ≤ '~'

/-- `trim(s).empty()` -/
def isBlank (s : Str) : Bool := s.all isSpace

/-- `vita::trim` / `pocket_csv::detail::trim`: first `find_if_not(isspace)` from the front,
    then from the back (never beyond the front position). -/
def trim (s : Str) : Str := ((s.dropWhile isSpace).reverse.dropWhile isSpace).reverse

/-! ### `parser::const_iterator::parse_line` -/

structure Dialect where
  delim : Char
  trimWs : Bool := false
  keepQuotes : Bool := false

/-- the `add_field` lambda -/
def addField (dl : Dialect) (rec : List Str) (cur : Str) : List Str :=
  rec ++ [if dl.trimWs then trim cur else cur]

/-- The loop of `parse_line`: `s` is the unread part of the line (`line[pos..]`), `inq` is
    `inquotes`, `cur` is `curstring`, `rec` is `record`.  The loop condition
    `pos < length && line[pos]` is the first two cases; the look-ahead
    `pos + 1 < length && line[pos + 1] == quote` is the nested match. -/
def go (dl : Dialect) : Str → Bool → Str → List Str → List Str
  | [], _, cur, rec => addField dl rec cur
  | c :: rest, inq, cur, rec =>
    if c = '\x00' then addField dl rec cur
    else if !inq && isBlank cur && c = '"' then
      go dl rest true (if dl.keepQuotes then cur ++ [c] else cur) rec
    else if inq && c = '"' then
      match rest with
      | c' :: rest' =>
        if c' = '"' then go dl rest' true (cur ++ [c]) rec
        else go dl (c' :: rest') false (if dl.keepQuotes then cur ++ [c] else cur) rec
      | [] => addField dl rec (if dl.keepQuotes then cur ++ [c] else cur)
    else if !inq && c = dl.delim then go dl rest false [] (addField dl rec cur)
    else if !inq && (c = '\r' || c = '\n') then addField dl rec cur
    else go dl rest inq (cur ++ [c]) rec

def parseLine (dl : Dialect) (line : Str) : List Str := go dl line false [] []

/-! ### `std::getline` over the whole stream -/

/-- successive results of `std::getline(is, line)` until it fails: the pieces between `\n`;
    a final piece is produced only when it is not empty -/
def splitLinesAux : Str → Str → List Str
  | [], cur => if cur.isEmpty then [] else [cur]
  | c :: r, cur => if c = '\n' then cur :: splitLinesAux r [] else splitLinesAux r (cur ++ [c])

def splitLines (bytes : Str) : List Str := splitLinesAux bytes []

/-- `filter_hook_t = std::function<bool (record_t &)>`: the hook is handed the record by reference –
    it may rewrite it – and says whether the record is kept.  `none` = rejected, `some r'` = kept as
    `r'`.  No hook installed (`nullptr`) is `some`. -/
abbrev Hook := List Str → Option (List Str)

/-- a hook that only filters -/
def Hook.ofPred (f : List Str → Bool) : Hook := fun r => if f r then some r else none

/-- `parser::begin() … end()`: `get_input` skips blank lines, parses, hands the parsed record to the
    hook and repeats while the hook rejects it -/
def records (dl : Dialect) (hook : Hook) (lines : List Str) : List (List Str) :=
  ((lines.filter (fun l => !isBlank l)).map (parseLine dl)).filterMap hook

/-! ### number recognition: supplied from outside (strtod / std::stod / std::stoi) -/

/-- `isNum s` = `vita::is_number(s)` for a trimmed `s` (strtod consumes the whole string),
    `stod`/`stoi` = `std::stod`/`std::stoi` (`none` = the call throws). -/
structure NumOracle (F : Type) where
  isNum : Str → Bool
  stod : Str → Option F
  stoi : Str → Option Int

/-- `is_number(std::string s)`: trims, then asks strtod -/
def isNumber {F} (o : NumOracle F) (s : Str) : Bool := o.isNum (trim s)

/-! ### sniffer: `detail::has_header` -/

def noneTag : Int := 0
def skipTag : Int := -1
def numberTag : Int := -2
def stringTag : Int := -3

def findColumnTag {F} (o : NumOracle F) (s : Str) : Int :=
  let ts := trim s
  if ts.isEmpty then noneTag
  else if isNumber o ts then numberTag
  else (s.length : Int)

def capitalized (s0 : Str) : Bool :=
  match trim s0 with
  | [] => false
  | c :: r => isUpper c && r.all (fun c => isPrint c && (!isAlpha c || isLower c))

def lowerCase (s : Str) : Bool := s.all (fun c => !isAlpha c || isLower c)
def upperCase (s : Str) : Bool := s.all (fun c => !isAlpha c || isUpper c)

/-- body of the `for field` loop of `has_header` for one field -/
def stepType {F} (o : NumOracle F) (ty : Int) (h x : Str) : Int :=
  if ty = skipTag then ty
  else if isBlank x then ty
  else
    let tag := findColumnTag o x
    if ty = tag then ty
    else if capitalized h && lowerCase x then stringTag
    else if upperCase h && !upperCase x then stringTag
    else if ty = noneTag then tag
    else skipTag

/-- one row (of the same width as the header; the three vectors have `columns` entries) -/
def stepTypes {F} (o : NumOracle F) : List Int → List Str → List Str → List Int
  | ty :: tys, h :: hs, x :: xs => stepType o ty h x :: stepTypes o tys hs xs
  | tys, _, _ => tys

def voteOf {F} (o : NumOracle F) (ty : Int) (h : Str) : Int :=
  if ty = noneTag then (if h.length ≠ 0 then 1 else -1)
  else if ty = skipTag then 0
  else if ty = numberTag then (if !isNumber o h then 1 else -1)
  else if ty = stringTag then 1
  else if (h.length : Int) ≠ ty then 1 else -1

def votes {F} (o : NumOracle F) : List Int → List Str → Int
  | ty :: tys, h :: hs => voteOf o ty h + votes o tys hs
  | _, _ => 0

/-- `has_header(is, lines = n, delim)`: rows of irregular width are skipped, at most
    `lines + 2` rows are looked at (`if (checked++ > lines) break`).  The sniffer passes
    `lines = 20`; nothing proved below depends on the value. -/
def hasHeader {F} (o : NumOracle F) (n : Nat) (lines : List Str) (delim : Char) : Bool :=
  let nb := lines.filter (fun l => !isBlank l)
  let header := match nb with
    | [] => []
    | l :: _ => parseLine { delim := delim, keepQuotes := true } l
  let rows := (nb.drop 1).map (parseLine { delim := delim })
  let same := (rows.filter (fun r => r.length == header.length)).take (n + 2)
  let types := same.foldl (fun tys r => stepTypes o tys header r) (List.replicate header.length noneTag)
  decide (votes o types header > 0)

/-! ### sniffer: `detail::guess_delimiter` -/

/-- the `std::map<char, …>` is iterated in key order -/
def preferred : List Char := ['\t', ',', ':', ';', '|']

/-- `detail::mode` on a sorted vector: the loop after the first element;
    state = (current, count, max_count, ret) -/
def modeGo : Nat → Nat → Nat → List (Nat × Nat) → List Nat → List (Nat × Nat)
  | _, _, _, ret, [] => ret
  | current, count, maxc, ret, x :: xs =>
    let count' := if x = current then count + 1 else 1
    if count' > maxc then modeGo x count' count' [(x, count')] xs
    else if count' = maxc then modeGo x count' maxc (ret ++ [(x, maxc)]) xs
    else modeGo x count' maxc ret xs

def mode : List Nat → List (Nat × Nat)
  | [] => []
  | x :: xs => modeGo x 1 1 [(x, 1)] xs

/-- `mode_weight[c]` -/
def modeWeight (cf : List Nat) : Nat × Nat :=
  match mode (cf.mergeSort (fun a b => decide (a ≤ b))) with
  | [(f, w)] => if f = 0 then (0, 0) else (f, w)
  | _ => (0, 0)

/-- `std::max_element` with `l.weight < r.weight`: the first of the largest -/
def maxByWeight : (Char × Nat × Nat) → List (Char × Nat × Nat) → (Char × Nat × Nat)
  | best, [] => best
  | best, x :: xs => if best.2.2 < x.2.2 then maxByWeight x xs else maxByWeight best xs

/-- `guess_delimiter(is, lines = n)`: the first `n` non-blank lines are inspected; the result
    `'\x00'` stands for "no delimiter" -/
def guessDelimiter (n : Nat) (lines : List Str) : Char :=
  let nb := (lines.filter (fun l => !isBlank l)).take n
  if nb.isEmpty then '\x00'
  else
    let scanned := nb.length
    let mw := preferred.map (fun c => (c, modeWeight (nb.map (fun l => l.count c))))
    match mw with
    | [] => '\x00'
    | m :: ms =>
      let res := maxByWeight m ms
      if res.2.1 = 0 then '\n'
      else if 3 * res.2.2 < 2 * scanned then '\x00'
      else res.1

/-- `pocket_csv::sniffer` (`const std::size_t lines(20)` is the parameter `n`): (delimiter, has_header) -/
def sniffer {F} (o : NumOracle F) (n : Nat) (lines : List Str) : Char × Bool :=
  let d := guessDelimiter n lines
  (d, hasHeader o n lines d)

end Vita.C09
