/-
  C09 — HISTORIES: several imports into ONE `dataframe` object.

  `dataframe::read_csv` / `read_xrff` / `read` load a table "into the active dataset": they `clear()`
  the examples and keep the metadata (`columns`, `classes_map_`).  The readers of Model.lean start from
  a freshly constructed object; the readers below take the PRIOR state of the object as an argument:

    readCsvFrom / readCsvRecsFrom   `read_csv` on a dataframe in state `prior`
    readXrffHFrom                   `read_xrff`
    readFileFrom                    `read(path, params)`
    HOp / HOp.run / runHist         a sequence of imports and `clear()`s on one object
    PSt / POp.run / runProb         the same through `src_problem` (training / validation dataframes,
                                    `clone_schema`, `setup_terminals` after the first import)

  `Cfg.guards = true` is the code after the two `fix:` commits of round 3b:
    * `columns_info::build` takes the first record of a table that has a header for the header whether or
      not the columns are already known (as found: only while `cols_` is empty – on a dataframe that
      already has its columns the header record went through `set_domain`, so the NAME of a column that
      had no domain yet gave it one);
    * `read_xrff` replaces the columns (as found: it appended the columns of the file to the existing
      ones).
  With `prior = {}` the readers are the ones of Model.lean (`readCsvFrom_fresh`, `readXrffHFrom_fresh`,
  proved in LemmasHist.lean), so everything proved about a fresh object is the first step of a history.
-/
import Vita.C09.Model

namespace Vita.C09

/-! ### `read_csv` on a dataframe that may already have its columns -/

/-- second half of the loop body of `read_csv`.  After the fix the first record (`count == 0`) of a
    table with a header is the header also when the columns exist: `build` returns at once, the record is
    not read.  In every other case – and always in the code as found – this is `csvProceed`. -/
def csvProceedFrom {F} (cfg : Cfg) (o : NumOracle F) (hasHdr : Bool) (st : St F) (rec' : List Str) :
    M (St F) :=
  if cfg.guards && hasHdr && st.count == 0 && !st.df.cols.isEmpty then
    pure { df := st.df, count := st.count + 1 }
  else csvProceed cfg o hasHdr st rec'

/-- body of the `for (auto record : parser …)` loop of `read_csv` -/
def csvStepFrom {F} (cfg : Cfg) (o : NumOracle F) (outIdx : Option Nat) (hasHdr : Bool)
    (st : St F) (record : List Str) : M (St F) :=
  match outIdx with
  | some k =>
    if cfg.guards && k ≥ record.length then pure st
    else do
      let rec' ← rotate? .rotateCsv record k
      csvProceedFrom cfg o hasHdr st rec'
  | none => csvProceedFrom cfg o hasHdr st ([] :: record)

/-- `clear()`: the examples go, the metadata stays -/
def DF.cleared {F} (df : DF F) : DF F := { df with examples := [] }

/-- `read_csv` once the records are known, on a dataframe in state `prior` -/
def readCsvRecsFrom {F} (cfg : Cfg) (o : NumOracle F) (outIdx : Option Nat) (hasHdr : Bool)
    (prior : DF F) (recs : List (List Str)) : M (DF F) :=
  recs.foldlM (csvStepFrom cfg o outIdx hasHdr) { df := prior.cleared, count := 0 } >>= fun st =>
  isValid st.df >>= fun v =>
  if !v || st.df.examples.isEmpty then throw (.exc .insufficientData) else pure st.df

/-- `dataframe::read_csv(std::istream &, params)` on a dataframe in state `prior` -/
def readCsvFrom {F} (cfg : Cfg) (o : NumOracle F) (p : Params) (prior : DF F) (bytes : Str) : M (DF F) :=
  let lines := splitLines bytes
  let (d, h) := resolveDialect cfg o p lines
  readCsvRecsFrom cfg o p.outIdx h prior
    (records { delim := d, trimWs := p.trimWs, keepQuotes := p.keepQuotes } p.hook lines)

/-! ### `read_xrff` on a dataframe that may already have columns -/

/-- `read_xrff` on a dataframe in state `prior`: the class map is kept; the columns are replaced by those
    of the header (after the fix) / extended by them (as found) -/
def readXrffHFrom {F} (cfg : Cfg) (o : NumOracle F) (hook : Hook) (prior : DF F) : XDoc → M (DF F × Nat)
  | .parseError => throw (.exc .dataFormat)
  | .noAttributes => throw (.exc .dataFormat)
  | .doc attrs instances =>
    attrs.foldlM xAttrStep { cols := if cfg.guards then [] else prior.cols } >>= fun st =>
    if st.cols.isEmpty then throw (.exc .dataFormat)
    else
      let cols := if st.nOutput = 0 then st.cols.getLast?.toList ++ st.cols.dropLast else st.cols
      let k := if st.nOutput = 0 then st.index - 1 else st.outputIndex
      match instances with
      | none => throw (.exc .dataFormat)
      | some insts =>
        insts.foldlM (xInstStepH cfg o hook k) { cols := cols, classes := prior.classes } >>= fun df =>
        isValid df >>= fun v =>
        if cfg.guards && !v then throw (.exc .insufficientData)
        else pure (df, if v then df.examples.length else 0)

/-- `dataframe::read(fn, p)` on a dataframe in state `prior` -/
def readFileFrom {F} (cfg : Cfg) (o : NumOracle F) (p : Params) (prior : DF F) (ext : Str) (bytes : Str)
    (doc : XDoc) : M (DF F × Nat) :=
  if isXrffExt ext then readXrffHFrom cfg o p.hook prior doc
  else readCsvFrom cfg o p prior bytes >>= fun df => pure (df, df.examples.length)

/-! ### histories on one object -/

/-- one call on a `dataframe` object -/
inductive HOp
  | csv (p : Params) (bytes : Str)                          -- read_csv(stream, p)
  | xrff (hook : Hook) (doc : XDoc)                         -- read_xrff(stream, p)  (only the hook is looked at)
  | file (p : Params) (ext bytes : Str) (doc : XDoc)        -- read(path, p)
  | clear                                                   -- clear()

/-- the state of the object after the call and the value the call returns -/
def HOp.run {F} (cfg : Cfg) (o : NumOracle F) (df : DF F) : HOp → M (DF F × Nat)
  | .csv p bytes => readCsvFrom cfg o p df bytes >>= fun d => pure (d, d.examples.length)
  | .xrff hook doc => readXrffHFrom cfg o hook df doc
  | .file p ext bytes doc => readFileFrom cfg o p df ext bytes doc
  | .clear => pure (df.cleared, 0)

/-- the outcomes of the calls of a history, in order; the history ends with the first call that throws
    (the state a reader leaves behind when it throws is not modelled) -/
def runHist {F} (cfg : Cfg) (o : NumOracle F) : DF F → List HOp → List (M (DF F × Nat))
  | _, [] => []
  | df, op :: ops =>
    match op.run cfg o df with
    | .ok r => .ok r :: runHist cfg o r.1 ops
    | .error e => [.error e]

/-- the dataframe a history leaves, when every call succeeds -/
def finalHist {F} (cfg : Cfg) (o : NumOracle F) : DF F → List HOp → M (DF F)
  | df, [] => pure df
  | df, op :: ops => op.run cfg o df >>= fun r => finalHist cfg o r.1 ops

/-! ### the same through `src_problem` -/

/-- `src_problem`: the two dataframes, which one the next call goes to (`data(dataset_t)`), and the
    terminals `setup_terminals` inserted (it is called once, right after the first import) -/
structure PSt (F : Type) where
  training : DF F := {}
  validation : DF F := {}
  onValidation : Bool := false
  syms : Option (List TermSym) := none

def PSt.target {F} (s : PSt F) : DF F := if s.onValidation then s.validation else s.training

def PSt.setTarget {F} (s : PSt F) (df : DF F) : PSt F :=
  if s.onValidation then { s with validation := df } else { s with training := df }

inductive POp
  | op (h : HOp)
  | clone            -- data(validation).clone_schema(data(training)); later calls go to data(validation)

def HOp.isImport : HOp → Bool
  | .clear => false
  | _ => true

/-- one call on the problem: the new state, the dataframe the call worked on, the value it returned -/
def POp.run {F} (cfg : Cfg) (o : NumOracle F) (s : PSt F) : POp → M (PSt F × DF F × Nat)
  | .clone =>
    let v : DF F := { s.validation with cols := s.training.cols, classes := s.training.classes }
    pure ({ s with validation := v, onValidation := true }, v, 0)
  | .op h => h.run cfg o s.target >>= fun r => pure (s.setTarget r.1, r.1, r.2)

def POp.isImport : POp → Bool
  | .op h => h.isImport
  | .clone => false

/-- `setup_terminals(typing)`: it reads `training_.columns` -/
def PSt.setup {F} (cfg : Cfg) (strong : Bool) (s : PSt F) : M (PSt F) :=
  setupSymbols cfg strong s.training.cols >>= fun syms => pure { s with syms := some syms }

end Vita.C09
