/-
  C09 — helper lemmas about the CSV line parser (scanning lemmas) used by Props.lean.
-/
import Vita.C09.Model

namespace Vita.C09

/-- the quote character (a name for it: Props.lean must not contain the literal, the audit's
    comment stripper takes it for the start of a string) -/
abbrev QUOTE : Char := '"'

/-! ### rendering (the inverse direction of `parse_line`) -/

/-- doubling of the quote characters -/
def esc : Str → Str
  | [] => []
  | c :: r => if c = '"' then '"' :: '"' :: esc r else c :: esc r

/-- a field as written in the file: as it is, or between quotes with inner quotes doubled -/
def renderField (f : Str) (q : Bool) : Str := if q then '"' :: (esc f ++ ['"']) else f

/-- fields separated by the delimiter -/
def renderLine (d : Char) : List (Str × Bool) → Str
  | [] => []
  | [(f, q)] => renderField f q
  | (f, q) :: rest => renderField f q ++ d :: renderLine d rest

/-- no NUL, CR, LF (what a cell of a one-line-per-record file cannot contain) -/
def Clean (f : Str) : Prop := ∀ c ∈ f, c ≠ '\x00' ∧ c ≠ '\r' ∧ c ≠ '\n'

/-- exactly the fields `parse_line` cannot read back when written without quotes: they contain
    the delimiter, or their first non-blank character is a quote -/
def needsQuote (d : Char) (f : Str) : Bool :=
  f.contains d || (f.dropWhile isSpace).head? == some '"'

/-- the conventional (RFC 4180) criterion is a superset -/
def needsQuoteRfc (d : Char) (f : Str) : Bool := f.contains d || f.contains '"'

/-- scanning `f` outside quotes starting with `curstring = cur` never meets a delimiter, an
    end of line, or a quote that would open a quoted section -/
def BareFrom (d : Char) : Str → Str → Prop
  | _, [] => True
  | cur, c :: r => c ≠ '\x00' ∧ c ≠ d ∧ c ≠ '\r' ∧ c ≠ '\n' ∧ (c = '"' → isBlank cur = false) ∧
      BareFrom d (cur ++ [c]) r

theorem isBlank_append (a b : Str) : isBlank (a ++ b) = (isBlank a && isBlank b) := by
  simp [isBlank]

theorem go_cons (dl : Dialect) (c : Char) (rest : Str) (inq : Bool) (cur : Str) (rec : List Str) :
    go dl (c :: rest) inq cur rec =
    if c = '\x00' then addField dl rec cur
    else if !inq && isBlank cur && c = '"' then
      go dl rest true (if dl.keepQuotes then cur ++ [c] else cur) rec
    else if inq && c = '"' then
      match rest with
      | c' :: rest' =>
        if c' = '"' then go dl rest' true (cur ++ [c]) rec
        else go dl (c' :: rest') false (if dl.keepQuotes then cur ++ [c] else cur) rec
      | [] => addField dl rec (if dl.keepQuotes then cur ++ [c] else cur)
    else if !inq && c = dl.delim then go dl rest false [] (addField dl rec cur)
    else if !inq && (c = '\r' || c = '\n') then addField dl rec cur
    else go dl rest inq (cur ++ [c]) rec := by
  rw [go.eq_def]
  rfl

theorem go_nil (dl : Dialect) (inq : Bool) (cur : Str) (rec : List Str) :
    go dl [] inq cur rec = addField dl rec cur := by
  simp [go]

theorem go_bare (dl : Dialect) (f tail : Str) : ∀ (cur : Str) (rec : List Str),
    BareFrom dl.delim cur f →
    go dl (f ++ tail) false cur rec = go dl tail false (cur ++ f) rec := by
  induction f with
  | nil => intro cur rec _; simp
  | cons c r ih =>
    intro cur rec h
    obtain ⟨h0, hd, hcr, hlf, hq, hrest⟩ := h
    have hq' : (isBlank cur && decide (c = '"')) = false := by
      by_cases hc : c = '"'
      · simp [hq hc]
      · simp [hc]
    rw [List.cons_append, go_cons]
    simp only [h0, hd, hcr, hlf, hq', if_false, Bool.not_false, Bool.true_and, Bool.false_and,
      decide_false, Bool.or_self, Bool.false_eq_true]
    rw [ih (cur ++ [c]) rec hrest]
    simp

theorem go_delim (dl : Dialect) (tail cur : Str) (rec : List Str)
    (h0 : dl.delim ≠ '\x00') (hq : dl.delim ≠ '"') :
    go dl (dl.delim :: tail) false cur rec = go dl tail false [] (addField dl rec cur) := by
  rw [go_cons]
  simp [h0, hq]

/-- inside quotes: the escaped content followed by the closing quote (the quote is kept or removed
    as the dialect says) -/
theorem go_inq (dl : Dialect) (f tail : Str)
    (htail : tail = [] ∨ ∃ c t, tail = c :: t ∧ c ≠ '"') :
    ∀ (cur : Str) (rec : List Str), (∀ c ∈ f, c ≠ '\x00') →
    go dl (esc f ++ '"' :: tail) true cur rec =
      go dl tail false (cur ++ f ++ (if dl.keepQuotes then ['"'] else [])) rec := by
  induction f with
  | nil =>
    intro cur rec _
    simp only [esc, List.nil_append, List.append_nil]
    rw [go_cons]
    rcases htail with h | ⟨c, t, h, hc⟩
    · subst h; cases hk : dl.keepQuotes <;> simp [go_nil]
    · subst h; cases hk : dl.keepQuotes <;> simp [hc]
  | cons c r ih =>
    intro cur rec hn
    have hc0 : c ≠ '\x00' := hn c (by simp)
    have hr : ∀ x ∈ r, x ≠ '\x00' := fun x hx => hn x (by simp [hx])
    by_cases hc : c = '"'
    · subst hc
      simp only [esc, if_true, List.cons_append]
      rw [go_cons]
      simp only [hc0, if_false, Bool.not_true, Bool.false_and, Bool.false_eq_true, Bool.true_and,
        decide_true, if_true]
      rw [ih (cur ++ ['"']) rec hr]
      simp
    · simp only [esc, hc, if_false, List.cons_append]
      rw [go_cons]
      simp only [hc0, hc, if_false, Bool.not_true, Bool.false_and, Bool.false_eq_true,
        decide_false, Bool.and_false]
      rw [ih (cur ++ [c]) rec hr]
      simp

theorem bareFrom_of (d : Char) (f : Str) : ∀ cur : Str,
    (∀ c ∈ f, c ≠ '\x00' ∧ c ≠ '\r' ∧ c ≠ '\n' ∧ c ≠ d) →
    (isBlank cur = false ∨ (f.dropWhile isSpace).head? ≠ some '"') →
    BareFrom d cur f := by
  induction f with
  | nil => intro _ _ _; trivial
  | cons c r ih =>
    intro cur hall hq
    obtain ⟨h0, hcr, hlf, hd⟩ := hall c (by simp)
    refine ⟨h0, hd, hcr, hlf, ?_, ?_⟩
    · intro hc
      rcases hq with hq | hq
      · exact hq
      · subst hc
        exact absurd (by simp [isSpace]) hq
    · apply ih
      · intro x hx; exact hall x (by simp [hx])
      · by_cases hs : isSpace c = true
        · rcases hq with hq | hq
          · left; simp [isBlank_append, hq]
          · right; simpa [List.dropWhile, hs] using hq
        · left; simp [isBlank, hs]

/-- what `add_field` stores for a field -/
def fieldOut (dl : Dialect) (f : Str) : Str := if dl.trimWs then trim f else f

/-- the text `parse_line` collects for a field written as `renderField f q`: the cell, between
    the quotes it was written with when the dialect keeps quotes -/
def fieldSeen (dl : Dialect) (f : Str) (q : Bool) : Str :=
  if q && dl.keepQuotes then '"' :: (f ++ ['"']) else f

theorem addField_eq (dl : Dialect) (rec : List Str) (cur : Str) :
    addField dl rec cur = rec ++ [fieldOut dl cur] := rfl

/-- what may follow the last field of a line: nothing, or the CR of a CR LF line end -/
def EolOK (d : Char) (eol : Str) : Prop := eol = [] ∨ (eol = ['\r'] ∧ d ≠ '\r')

theorem go_eol (dl : Dialect) (eol : Str) (h : EolOK dl.delim eol) (_h0 : dl.delim ≠ '\x00')
    (cur : Str) (rec : List Str) : go dl eol false cur rec = addField dl rec cur := by
  rcases h with h | ⟨h, hd⟩
  · subst h; exact go_nil dl false cur rec
  · subst h
    rw [go_cons]
    have hd' : ('\r' = dl.delim) = False := by simp; exact fun h => hd h.symm
    simp [hd']

/-- one rendered field followed by the end of the line or by a delimiter -/
theorem go_field (dl : Dialect) (f : Str) (q : Bool)
    (hq : dl.delim ≠ '"') (tail : Str)
    (htail : tail = [] ∨ (∃ t, tail = dl.delim :: t) ∨ tail = ['\r'])
    (hc : Clean f) (hb : q = false → needsQuote dl.delim f = false) (rec : List Str) :
    go dl (renderField f q ++ tail) false [] rec = go dl tail false (fieldSeen dl f q) rec := by
  cases q with
  | true =>
    have ht : tail = [] ∨ ∃ c t, tail = c :: t ∧ c ≠ '"' := by
      rcases htail with h | ⟨t, h⟩ | h
      · exact Or.inl h
      · exact Or.inr ⟨_, t, h, hq⟩
      · exact Or.inr ⟨'\r', [], h, by decide⟩
    simp only [renderField, if_true, List.cons_append, List.append_assoc]
    rw [go_cons]
    simp only [isBlank, List.all_nil]
    simp only [show ('"' = '\x00') = False from by decide, if_false, Bool.not_false, Bool.true_and,
      decide_true, if_true, List.nil_append]
    rw [go_inq dl f tail ht _ rec (fun c h => (hc c h).1)]
    cases hk : dl.keepQuotes <;> simp [fieldSeen, hk]
  | false =>
    have hb := hb rfl
    simp only [needsQuote, Bool.or_eq_false_iff] at hb
    have hbare : BareFrom dl.delim [] f := by
      apply bareFrom_of
      · intro c h
        refine ⟨(hc c h).1, (hc c h).2.1, (hc c h).2.2, ?_⟩
        intro hd
        simp at hb
        exact hb.1 (hd ▸ h)
      · right
        intro h
        simp [h] at hb
    simp only [renderField, Bool.false_eq_true, if_false]
    rw [go_bare dl f tail [] rec hbare]
    simp [fieldSeen]

/-- the whole rendered line (with its line end) -/
theorem go_line (dl : Dialect) (h0 : dl.delim ≠ '\x00')
    (hq : dl.delim ≠ '"') (eol : Str) (heol : EolOK dl.delim eol) :
    ∀ (fs : List (Str × Bool)) (rec : List Str), fs ≠ [] →
    (∀ p ∈ fs, Clean p.1 ∧ (p.2 = false → needsQuote dl.delim p.1 = false)) →
    go dl (renderLine dl.delim fs ++ eol) false [] rec =
      rec ++ fs.map (fun p => fieldOut dl (fieldSeen dl p.1 p.2)) := by
  intro fs
  induction fs with
  | nil => intro _ h; exact absurd rfl h
  | cons p rest ih =>
    intro rec _ hall
    obtain ⟨f, q⟩ := p
    obtain ⟨hc, hb⟩ := hall (f, q) (by simp)
    cases rest with
    | nil =>
      have htl : eol = [] ∨ (∃ t, eol = dl.delim :: t) ∨ eol = ['\r'] := by
        rcases heol with h | ⟨h, _⟩
        · exact Or.inl h
        · exact Or.inr (Or.inr h)
      have := go_field dl f q hq eol htl hc hb rec
      simp only [renderLine, this, go_eol dl eol heol h0, addField_eq, List.map]
    | cons p2 rest2 =>
      have hr : renderLine dl.delim ((f, q) :: p2 :: rest2) ++ eol =
          renderField f q ++ dl.delim :: (renderLine dl.delim (p2 :: rest2) ++ eol) := by
        simp [renderLine]
      rw [hr, go_field dl f q hq _ (Or.inr (Or.inl ⟨_, rfl⟩)) hc hb rec, go_delim dl _ _ _ h0 hq,
        ih (addField dl rec (fieldSeen dl f q)) (by simp)
          (fun x hx => hall x (by simp [hx])), addField_eq]
      simp

/-! ### lines of a file -/

/-- a file: every line followed by `eol` and LF -/
def renderFile (eol : Str) (lines : List Str) : Str := lines.flatMap (fun l => l ++ eol ++ ['\n'])

theorem splitLinesAux_line (l rest : Str) (hl : '\n' ∉ l) : ∀ cur : Str,
    splitLinesAux (l ++ '\n' :: rest) cur = (cur ++ l) :: splitLinesAux rest [] := by
  induction l with
  | nil => intro cur; simp [splitLinesAux]
  | cons c l ih =>
    intro cur
    have hc : c ≠ '\n' := fun h => hl (by simp [h])
    have hl' : '\n' ∉ l := fun h => hl (by simp [h])
    simp only [List.cons_append, splitLinesAux, hc, if_false]
    rw [ih hl' (cur ++ [c])]
    simp

theorem splitLines_renderFile (eol : Str) (heol : '\n' ∉ eol) : ∀ (lines : List Str),
    (∀ l ∈ lines, '\n' ∉ l) → splitLines (renderFile eol lines) = lines.map (fun l => l ++ eol) := by
  intro lines
  induction lines with
  | nil => intro _; rfl
  | cons l ls ih =>
    intro h
    have hl : '\n' ∉ l ++ eol := by
      intro hm
      rcases List.mem_append.1 hm with hm | hm
      · exact h l (by simp) hm
      · exact heol hm
    have : renderFile eol (l :: ls) = (l ++ eol) ++ '\n' :: renderFile eol ls := by
      simp [renderFile]
    unfold splitLines at *
    rw [this, splitLinesAux_line _ _ hl []]
    simp only [List.nil_append, List.map]
    rw [ih (fun x hx => h x (by simp [hx]))]

theorem mem_esc (f : Str) (c : Char) (h : c ∈ esc f) : c = '"' ∨ c ∈ f := by
  induction f with
  | nil => simp [esc] at h
  | cons a f ih =>
    by_cases ha : a = '"'
    · simp only [esc, ha, if_true, List.mem_cons] at h
      rcases h with h | h | h
      · exact Or.inl h
      · exact Or.inl h
      · rcases ih h with h | h
        · exact Or.inl h
        · exact Or.inr (by simp [h])
    · simp only [esc, ha, if_false, List.mem_cons] at h
      rcases h with h | h
      · exact Or.inr (by simp [h])
      · rcases ih h with h | h
        · exact Or.inl h
        · exact Or.inr (by simp [h])

theorem mem_renderField (f : Str) (q : Bool) (c : Char) (h : c ∈ renderField f q) : c = '"' ∨ c ∈ f := by
  cases q with
  | false => exact Or.inr (by simpa [renderField] using h)
  | true =>
    simp only [renderField, if_true, List.mem_cons, List.mem_append, List.mem_nil_iff, or_false] at h
    rcases h with h | h | h
    · exact Or.inl h
    · exact mem_esc f c h
    · exact Or.inl h

theorem mem_renderLine (d : Char) : ∀ (l : List (Str × Bool)) (c : Char), c ∈ renderLine d l →
    c = d ∨ c = '"' ∨ ∃ p ∈ l, c ∈ p.1 := by
  intro l
  induction l with
  | nil => intro c h; simp [renderLine] at h
  | cons p rest ih =>
    intro c h
    obtain ⟨f, q⟩ := p
    cases rest with
    | nil =>
      simp only [renderLine] at h
      rcases mem_renderField f q c h with h | h
      · exact Or.inr (Or.inl h)
      · exact Or.inr (Or.inr ⟨(f, q), by simp, h⟩)
    | cons p2 rest2 =>
      have hr : renderLine d ((f, q) :: p2 :: rest2) = renderField f q ++ d :: renderLine d (p2 :: rest2) := by
        simp [renderLine]
      rw [hr] at h
      simp only [List.mem_append, List.mem_cons] at h
      rcases h with h | h | h
      · rcases mem_renderField f q c h with h | h
        · exact Or.inr (Or.inl h)
        · exact Or.inr (Or.inr ⟨(f, q), by simp, h⟩)
      · exact Or.inl h
      · rcases ih c h with h | h | ⟨p, hp, h⟩
        · exact Or.inl h
        · exact Or.inr (Or.inl h)
        · exact Or.inr (Or.inr ⟨p, by simp only [List.mem_cons] at hp ⊢; exact Or.inr hp, h⟩)

/-- the records the parser delivers for a rendered file are the rows of cells, each handed to the
    hook (in file order; what the hook rejects is absent, what it rewrites is delivered rewritten) -/
theorem records_render (dl : Dialect) (h0 : dl.delim ≠ '\x00')
    (hq : dl.delim ≠ '"') (hn : dl.delim ≠ '\n') (eol : Str) (heol : EolOK dl.delim eol)
    (hook : Hook) (ls : List (List (Str × Bool)))
    (hne : ∀ l ∈ ls, l ≠ [])
    (hclean : ∀ l ∈ ls, ∀ p ∈ l, Clean p.1 ∧ (p.2 = false → needsQuote dl.delim p.1 = false))
    (hvis : ∀ l ∈ ls, isBlank (renderLine dl.delim l ++ eol) = false) :
    records dl hook (splitLines (renderFile eol (ls.map (renderLine dl.delim)))) =
      (ls.map (fun l => l.map (fun p => fieldOut dl (fieldSeen dl p.1 p.2)))).filterMap hook := by
  have heoln : '\n' ∉ eol := by
    rcases heol with h | ⟨h, _⟩ <;> simp [h]
  have hnl : ∀ l ∈ ls.map (renderLine dl.delim), '\n' ∉ l := by
    intro l hl hm
    simp only [List.mem_map] at hl
    obtain ⟨fs, hfs, rfl⟩ := hl
    rcases mem_renderLine dl.delim fs '\n' hm with h | h | ⟨p, hp, h⟩
    · exact hn h.symm
    · exact absurd h (by decide)
    · exact ((hclean fs hfs p hp).1 '\n' h).2.2 rfl
  rw [splitLines_renderFile eol heoln _ hnl]
  unfold records
  congr 1
  simp only [List.map_map]
  rw [List.filter_eq_self.2]
  · rw [List.map_map]
    apply List.map_congr_left
    intro fs hfs
    simp only [Function.comp, parseLine]
    rw [go_line dl h0 hq eol heol fs [] (hne fs hfs) (hclean fs hfs)]
    simp
  · intro l hl
    simp only [List.mem_map, Function.comp] at hl
    obtain ⟨fs, hfs, rfl⟩ := hl
    simp [hvis fs hfs]

/-! ### `trim` -/

theorem dropWhile_idem {α} (p : α → Bool) (l : List α) : (l.dropWhile p).dropWhile p = l.dropWhile p := by
  induction l with
  | nil => rfl
  | cons a l ih =>
    by_cases h : p a = true
    · simp [List.dropWhile, h, ih]
    · simp [List.dropWhile, h]

theorem dropWhile_nil_iff {α} (p : α → Bool) (l : List α) : l.dropWhile p = [] ↔ l.all p = true := by
  induction l with
  | nil => simp
  | cons a l ih =>
    by_cases h : p a = true
    · simp [List.dropWhile, h, ih]
    · simp [List.dropWhile, h]

theorem dropWhile_prefix_fix {α} (p : α → Bool) (s pre suf : List α)
    (h : s.dropWhile p = pre ++ suf) : pre.dropWhile p = pre := by
  cases pre with
  | nil => rfl
  | cons x pre =>
    have : p x = false := by
      have := List.head_dropWhile_not p (l := s) (by simp [h])
      simpa [h] using this
    simp [List.dropWhile, this]

theorem trim_trim (s : Str) : trim (trim s) = trim s := by
  unfold trim
  have hsuf : ((s.dropWhile isSpace).reverse.dropWhile isSpace) <:+ (s.dropWhile isSpace).reverse :=
    List.dropWhile_suffix _
  obtain ⟨t, ht⟩ := hsuf
  have h1 : s.dropWhile isSpace = ((s.dropWhile isSpace).reverse.dropWhile isSpace).reverse ++ t.reverse := by
    have := congrArg List.reverse ht
    simp at this
    exact this.symm
  rw [dropWhile_prefix_fix isSpace s _ _ h1]
  simp [dropWhile_idem]

theorem trim_isEmpty (s : Str) : (trim s).isEmpty = isBlank s := by
  unfold trim isBlank
  by_cases h : s.all isSpace = true
  · have : s.dropWhile isSpace = [] := (dropWhile_nil_iff _ _).2 h
    simp [this, h]
  · have hne : s.dropWhile isSpace ≠ [] := fun hh => h ((dropWhile_nil_iff _ _).1 hh)
    have hhead := List.head_dropWhile_not isSpace hne
    have : (s.dropWhile isSpace).reverse.dropWhile isSpace ≠ [] := by
      intro hh
      rw [dropWhile_nil_iff, List.all_eq_true] at hh
      have := hh ((s.dropWhile isSpace).head hne) (by simp)
      simp [hhead] at this
    simp only [Bool.not_eq_true] at h
    simp [h, this]

end Vita.C09
