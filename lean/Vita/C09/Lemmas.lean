/-
  C09 — helper lemmas about the CSV line parser (scanning lemmas) used by Props.lean.
-/
import Vita.C09.Model

namespace Vita.C09

/-! ### rendering (the inverse direction of `parse_line`) -/

/-- doubling of the quote characters -/
def esc : Str → Str
  | [] => []
  | c :: r => if c = '"' then '"' :: '"' :: esc r else c :: esc r

/-- a field as written in the file: as it is, or between quotes with inner quotes doubled -/
def renderField (f : Str) (q : Bool) : Str := if q then '"' :: (esc f ++ ['"']) else f

/-- fields separated by the delimiter -/
def renderLine (d : Char) : List (Str × Bool) → Str
  | [] => []
  | [(f, q)] => renderField f q
  | (f, q) :: rest => renderField f q ++ d :: renderLine d rest

/-- no NUL, CR, LF (what a cell of a one-line-per-record file cannot contain) -/
def Clean (f : Str) : Prop := ∀ c ∈ f, c ≠ '\x00' ∧ c ≠ '\r' ∧ c ≠ '\n'

/-- exactly the fields `parse_line` cannot read back when written without quotes: they contain
    the delimiter, or their first non-blank character is a quote -/
def needsQuote (d : Char) (f : Str) : Bool :=
  f.contains d || (f.dropWhile isSpace).head? == some '"'

/-- the conventional (RFC 4180) criterion is a superset -/
def needsQuoteRfc (d : Char) (f : Str) : Bool := f.contains d || f.contains '"'

/-- scanning `f` outside quotes starting with `curstring = cur` never meets a delimiter, an
    end of line, or a quote that would open a quoted section -/
def BareFrom (d : Char) : Str → Str → Prop
  | _, [] => True
  | cur, c :: r => c ≠ '\x00' ∧ c ≠ d ∧ c ≠ '\r' ∧ c ≠ '\n' ∧ (c = '"' → isBlank cur = false) ∧
      BareFrom d (cur ++ [c]) r

theorem isBlank_append (a b : Str) : isBlank (a ++ b) = (isBlank a && isBlank b) := by
  simp [isBlank]

theorem go_cons (dl : Dialect) (c : Char) (rest : Str) (inq : Bool) (cur : Str) (rec : List Str) :
    go dl (c :: rest) inq cur rec =
    if c = '\x00' then addField dl rec cur
    else if !inq && isBlank cur && c = '"' then
      go dl rest true (if dl.keepQuotes then cur ++ [c] else cur) rec
    else if inq && c = '"' then
      match rest with
      | c' :: rest' =>
        if c' = '"' then go dl rest' true (cur ++ [c]) rec
        else go dl (c' :: rest') false (if dl.keepQuotes then cur ++ [c] else cur) rec
      | [] => addField dl rec (if dl.keepQuotes then cur ++ [c] else cur)
    else if !inq && c = dl.delim then go dl rest false [] (addField dl rec cur)
    else if !inq && (c = '\r' || c = '\n') then addField dl rec cur
    else go dl rest inq (cur ++ [c]) rec := by
  rw [go.eq_def]
  rfl

theorem go_nil (dl : Dialect) (inq : Bool) (cur : Str) (rec : List Str) :
    go dl [] inq cur rec = addField dl rec cur := by
  simp [go]

theorem go_bare (dl : Dialect) (f tail : Str) : ∀ (cur : Str) (rec : List Str),
    BareFrom dl.delim cur f →
    go dl (f ++ tail) false cur rec = go dl tail false (cur ++ f) rec := by
  induction f with
  | nil => intro cur rec _; simp
  | cons c r ih =>
    intro cur rec h
    obtain ⟨h0, hd, hcr, hlf, hq, hrest⟩ := h
    have hq' : (isBlank cur && decide (c = '"')) = false := by
      by_cases hc : c = '"'
      · simp [hq hc]
      · simp [hc]
    rw [List.cons_append, go_cons]
    simp only [h0, hd, hcr, hlf, hq', if_false, Bool.not_false, Bool.true_and, Bool.false_and,
      decide_false, Bool.or_self, Bool.false_eq_true]
    rw [ih (cur ++ [c]) rec hrest]
    simp

theorem go_delim (dl : Dialect) (tail cur : Str) (rec : List Str)
    (h0 : dl.delim ≠ '\x00') (hq : dl.delim ≠ '"') :
    go dl (dl.delim :: tail) false cur rec = go dl tail false [] (addField dl rec cur) := by
  rw [go_cons]
  simp [h0, hq]

/-- inside quotes: the escaped content followed by the closing quote (quotes removed) -/
theorem go_inq (dl : Dialect) (hk : dl.keepQuotes = false) (f tail : Str)
    (htail : tail = [] ∨ ∃ c t, tail = c :: t ∧ c ≠ '"') :
    ∀ (cur : Str) (rec : List Str), (∀ c ∈ f, c ≠ '\x00') →
    go dl (esc f ++ '"' :: tail) true cur rec = go dl tail false (cur ++ f) rec := by
  induction f with
  | nil =>
    intro cur rec _
    simp only [esc, List.nil_append, List.append_nil]
    rw [go_cons]
    rcases htail with h | ⟨c, t, h, hc⟩
    · subst h; simp [hk, go_nil]
    · subst h; simp [hk, hc]
  | cons c r ih =>
    intro cur rec hn
    have hc0 : c ≠ '\x00' := hn c (by simp)
    have hr : ∀ x ∈ r, x ≠ '\x00' := fun x hx => hn x (by simp [hx])
    by_cases hc : c = '"'
    · subst hc
      simp only [esc, if_true, List.cons_append]
      rw [go_cons]
      simp only [hc0, if_false, Bool.not_true, Bool.false_and, Bool.false_eq_true, Bool.true_and,
        decide_true, if_true]
      rw [ih (cur ++ ['"']) rec hr]
      simp
    · simp only [esc, hc, if_false, List.cons_append]
      rw [go_cons]
      simp only [hc0, hc, if_false, Bool.not_true, Bool.false_and, Bool.false_eq_true,
        decide_false, Bool.and_false]
      rw [ih (cur ++ [c]) rec hr]
      simp

theorem bareFrom_of (d : Char) (f : Str) : ∀ cur : Str,
    (∀ c ∈ f, c ≠ '\x00' ∧ c ≠ '\r' ∧ c ≠ '\n' ∧ c ≠ d) →
    (isBlank cur = false ∨ (f.dropWhile isSpace).head? ≠ some '"') →
    BareFrom d cur f := by
  induction f with
  | nil => intro _ _ _; trivial
  | cons c r ih =>
    intro cur hall hq
    obtain ⟨h0, hcr, hlf, hd⟩ := hall c (by simp)
    refine ⟨h0, hd, hcr, hlf, ?_, ?_⟩
    · intro hc
      rcases hq with hq | hq
      · exact hq
      · subst hc
        exact absurd (by simp [isSpace]) hq
    · apply ih
      · intro x hx; exact hall x (by simp [hx])
      · by_cases hs : isSpace c = true
        · rcases hq with hq | hq
          · left; simp [isBlank_append, hq]
          · right; simpa [List.dropWhile, hs] using hq
        · left; simp [isBlank, hs]

/-- what `add_field` stores for a field -/
def fieldOut (dl : Dialect) (f : Str) : Str := if dl.trimWs then trim f else f

theorem addField_eq (dl : Dialect) (rec : List Str) (cur : Str) :
    addField dl rec cur = rec ++ [fieldOut dl cur] := rfl

/-- one rendered field followed by the end of the line or by a delimiter -/
theorem go_field (dl : Dialect) (hk : dl.keepQuotes = false) (hq : dl.delim ≠ '"')
    (f : Str) (q : Bool) (tail : Str) (htail : tail = [] ∨ ∃ t, tail = dl.delim :: t)
    (hc : Clean f) (hb : q = false → needsQuote dl.delim f = false) (rec : List Str) :
    go dl (renderField f q ++ tail) false [] rec = go dl tail false f rec := by
  cases q with
  | true =>
    have ht : tail = [] ∨ ∃ c t, tail = c :: t ∧ c ≠ '"' := by
      rcases htail with h | ⟨t, h⟩
      · exact Or.inl h
      · exact Or.inr ⟨_, t, h, hq⟩
    simp only [renderField, if_true, List.cons_append, List.append_assoc]
    rw [go_cons]
    simp only [isBlank, List.all_nil, hk]
    simp only [show ('"' = '\x00') = False from by decide, if_false, Bool.not_false, Bool.true_and,
      decide_true, if_true, Bool.false_eq_true, List.nil_append]
    rw [go_inq dl hk f tail ht [] rec (fun c h => (hc c h).1)]
    simp
  | false =>
    have hb := hb rfl
    simp only [needsQuote, Bool.or_eq_false_iff] at hb
    have hbare : BareFrom dl.delim [] f := by
      apply bareFrom_of
      · intro c h
        refine ⟨(hc c h).1, (hc c h).2.1, (hc c h).2.2, ?_⟩
        intro hd
        simp at hb
        exact hb.1 (hd ▸ h)
      · right
        intro h
        simp [h] at hb
    simp only [renderField, Bool.false_eq_true, if_false]
    rw [go_bare dl f tail [] rec hbare]
    simp

/-- the whole rendered line -/
theorem go_line (dl : Dialect) (hk : dl.keepQuotes = false) (h0 : dl.delim ≠ '\x00')
    (hq : dl.delim ≠ '"') : ∀ (fs : List (Str × Bool)) (rec : List Str), fs ≠ [] →
    (∀ p ∈ fs, Clean p.1 ∧ (p.2 = false → needsQuote dl.delim p.1 = false)) →
    go dl (renderLine dl.delim fs) false [] rec = rec ++ fs.map (fun p => fieldOut dl p.1) := by
  intro fs
  induction fs with
  | nil => intro _ h; exact absurd rfl h
  | cons p rest ih =>
    intro rec _ hall
    obtain ⟨f, q⟩ := p
    obtain ⟨hc, hb⟩ := hall (f, q) (by simp)
    cases rest with
    | nil =>
      have := go_field dl hk hq f q [] (Or.inl rfl) hc hb rec
      simp only [List.append_nil] at this
      simp only [renderLine, this, go_nil, addField_eq, List.map]
    | cons p2 rest2 =>
      have hr : renderLine dl.delim ((f, q) :: p2 :: rest2) =
          renderField f q ++ dl.delim :: renderLine dl.delim (p2 :: rest2) := by
        simp [renderLine]
      rw [hr, go_field dl hk hq f q _ (Or.inr ⟨_, rfl⟩) hc hb rec, go_delim dl _ _ _ h0 hq,
        ih (addField dl rec f) (by simp) (fun x hx => hall x (by simp [hx])), addField_eq]
      simp

/-! ### `trim` -/

theorem dropWhile_idem {α} (p : α → Bool) (l : List α) : (l.dropWhile p).dropWhile p = l.dropWhile p := by
  induction l with
  | nil => rfl
  | cons a l ih =>
    by_cases h : p a = true
    · simp [List.dropWhile, h, ih]
    · simp [List.dropWhile, h]

theorem dropWhile_nil_iff {α} (p : α → Bool) (l : List α) : l.dropWhile p = [] ↔ l.all p = true := by
  induction l with
  | nil => simp
  | cons a l ih =>
    by_cases h : p a = true
    · simp [List.dropWhile, h, ih]
    · simp [List.dropWhile, h]

theorem dropWhile_prefix_fix {α} (p : α → Bool) (s pre suf : List α)
    (h : s.dropWhile p = pre ++ suf) : pre.dropWhile p = pre := by
  cases pre with
  | nil => rfl
  | cons x pre =>
    have : p x = false := by
      have := List.head_dropWhile_not p (l := s) (by simp [h])
      simpa [h] using this
    simp [List.dropWhile, this]

theorem trim_trim (s : Str) : trim (trim s) = trim s := by
  unfold trim
  have hsuf : ((s.dropWhile isSpace).reverse.dropWhile isSpace) <:+ (s.dropWhile isSpace).reverse :=
    List.dropWhile_suffix _
  obtain ⟨t, ht⟩ := hsuf
  have h1 : s.dropWhile isSpace = ((s.dropWhile isSpace).reverse.dropWhile isSpace).reverse ++ t.reverse := by
    have := congrArg List.reverse ht
    simp at this
    exact this.symm
  rw [dropWhile_prefix_fix isSpace s _ _ h1]
  simp [dropWhile_idem]

theorem trim_isEmpty (s : Str) : (trim s).isEmpty = isBlank s := by
  unfold trim isBlank
  by_cases h : s.all isSpace = true
  · have : s.dropWhile isSpace = [] := (dropWhile_nil_iff _ _).2 h
    simp [this, h]
  · have hne : s.dropWhile isSpace ≠ [] := fun hh => h ((dropWhile_nil_iff _ _).1 hh)
    have hhead := List.head_dropWhile_not isSpace hne
    have : (s.dropWhile isSpace).reverse.dropWhile isSpace ≠ [] := by
      intro hh
      rw [dropWhile_nil_iff, List.all_eq_true] at hh
      have := hh ((s.dropWhile isSpace).head hne) (by simp)
      simp [hhead] at this
    simp only [Bool.not_eq_true] at h
    simp [h, this]

end Vita.C09
