/-
  C09 — `category_set`, the terminals of `setup_terminals` (variables and state constants) and the
  types of the values the variables read.
-/
import Vita.C09.LemmasXrff

namespace Vita.C09

variable {F : Type}

/-! ### `category_set::category_set` -/

/-- what the constructor maintains: `L` = `columns_` so far (category, domain), `next` = `categories` -/
structure CatInv (strong : Bool) (L : List (Option Nat × Dom)) (next : Nat) : Prop where
  void : ∀ x ∈ L, (x.1 = none ↔ x.2 = .void)
  lt : ∀ x ∈ L, ∀ c, x.1 = some c → c < next
  dom : ∀ x ∈ L, ∀ y ∈ L, x.1 = y.1 → x.1 ≠ none → x.2 = y.2
  weak : strong = false → ∀ x ∈ L, ∀ y ∈ L, x.2 = y.2 → x.2 ≠ .str → x.1 = y.1
  strongP : strong = true → L.Pairwise (fun x y => x.1 = y.1 → x.1 = none)
  strNon : ∀ x ∈ L, ∀ y ∈ L, x.2 = .str → y.2 ≠ .str → x.1 ≠ y.1
  strP : L.Pairwise (fun x y => x.2 = .str → y.2 = .str → x.1 ≠ y.1)

theorem catInv_nil (strong : Bool) : CatInv strong [] 0 where
  void := by simp
  lt := by simp
  dom := by simp
  weak := by simp
  strongP := by simp
  strNon := by simp
  strP := by simp

theorem catInv_void (strong : Bool) (L : List (Option Nat × Dom)) (next : Nat) (h : CatInv strong L next) :
    CatInv strong (L ++ [(none, .void)]) next where
  void := by
    intro x hx
    simp only [List.mem_append, List.mem_singleton] at hx
    rcases hx with hx | rfl
    · exact h.void x hx
    · simp
  lt := by
    intro x hx c hc
    simp only [List.mem_append, List.mem_singleton] at hx
    rcases hx with hx | rfl
    · exact h.lt x hx c hc
    · cases hc
  dom := by
    intro x hx y hy hxy hn
    simp only [List.mem_append, List.mem_singleton] at hx hy
    rcases hx with hx | rfl <;> rcases hy with hy | rfl
    · exact h.dom x hx y hy hxy hn
    · exact absurd hxy hn
    · exact absurd rfl hn
    · rfl
  weak := by
    intro hs x hx y hy hxy hn
    simp only [List.mem_append, List.mem_singleton] at hx hy
    rcases hx with hx | rfl <;> rcases hy with hy | rfl
    · exact h.weak hs x hx y hy hxy hn
    · exact (h.void x hx).2 hxy
    · exact ((h.void y hy).2 hxy.symm).symm
    · rfl
  strongP := by
    intro hs
    rw [List.pairwise_append]
    refine ⟨h.strongP hs, by simp, ?_⟩
    intro a _ b hb hab
    simp only [List.mem_singleton] at hb
    subst hb
    exact hab
  strNon := by
    intro x hx y hy hxs hyn
    simp only [List.mem_append, List.mem_singleton] at hx hy
    rcases hx with hx | rfl <;> rcases hy with hy | rfl
    · exact h.strNon x hx y hy hxs hyn
    · intro hxy
      have := (h.void x hx).1 hxy
      rw [hxs] at this; cases this
    · cases hxs
    · cases hxs
  strP := by
    rw [List.pairwise_append]
    refine ⟨h.strP, by simp, ?_⟩
    intro a _ b hb _ hbs
    simp only [List.mem_singleton] at hb
    subst hb
    cases hbs

theorem catInv_fresh (strong : Bool) (L : List (Option Nat × Dom)) (next : Nat) (d : Dom) (h : CatInv strong L next)
    (hd : d ≠ .void) (hnew : strong = false → d ≠ .str → ∀ x ∈ L, x.2 ≠ d) :
    CatInv strong (L ++ [(some next, d)]) (next + 1) where
  void := by
    intro x hx
    simp only [List.mem_append, List.mem_singleton] at hx
    rcases hx with hx | rfl
    · exact h.void x hx
    · simp [hd]
  lt := by
    intro x hx c hc
    simp only [List.mem_append, List.mem_singleton] at hx
    rcases hx with hx | rfl
    · have := h.lt x hx c hc; omega
    · simp only [Option.some.injEq] at hc; omega
  dom := by
    intro x hx y hy hxy hn
    simp only [List.mem_append, List.mem_singleton] at hx hy
    rcases hx with hx | rfl <;> rcases hy with hy | rfl
    · exact h.dom x hx y hy hxy hn
    · have := h.lt x hx next hxy; omega
    · have := h.lt y hy next hxy.symm; omega
    · rfl
  weak := by
    intro hs x hx y hy hxy hn
    simp only [List.mem_append, List.mem_singleton] at hx hy
    rcases hx with hx | rfl <;> rcases hy with hy | rfl
    · exact h.weak hs x hx y hy hxy hn
    · exact absurd hxy (hnew hs (by simp only [] at hxy; rw [← hxy]; exact hn) x hx)
    · exact absurd hxy.symm (hnew hs hn y hy)
    · rfl
  strongP := by
    intro hs
    rw [List.pairwise_append]
    refine ⟨h.strongP hs, by simp, ?_⟩
    intro a ha b hb hab
    simp only [List.mem_singleton] at hb
    subst hb
    have := h.lt a ha next hab; omega
  strNon := by
    intro x hx y hy hxs hyn
    simp only [List.mem_append, List.mem_singleton] at hx hy
    rcases hx with hx | rfl <;> rcases hy with hy | rfl
    · exact h.strNon x hx y hy hxs hyn
    · intro hxy; have := h.lt x hx next hxy; omega
    · intro hxy; have := h.lt y hy next hxy.symm; omega
    · exact absurd hxs hyn
  strP := by
    rw [List.pairwise_append]
    refine ⟨h.strP, by simp, ?_⟩
    intro a ha b hb _ _ hab
    simp only [List.mem_singleton] at hb
    subst hb
    have := h.lt a ha next hab; omega

theorem catInv_found (L : List (Option Nat × Dom)) (next : Nat) (x0 : Option Nat × Dom) (h : CatInv false L next)
    (hx0 : x0 ∈ L) (_hd : x0.2 ≠ .void) (hs : x0.2 ≠ .str) :
    CatInv false (L ++ [(x0.1, x0.2)]) next where
  void := by
    intro x hx
    simp only [List.mem_append, List.mem_singleton] at hx
    rcases hx with hx | rfl
    · exact h.void x hx
    · exact h.void x0 hx0
  lt := by
    intro x hx c hc
    simp only [List.mem_append, List.mem_singleton] at hx
    rcases hx with hx | rfl
    · exact h.lt x hx c hc
    · exact h.lt x0 hx0 c hc
  dom := by
    intro x hx y hy hxy hn
    simp only [List.mem_append, List.mem_singleton] at hx hy
    rcases hx with hx | rfl <;> rcases hy with hy | rfl
    · exact h.dom x hx y hy hxy hn
    · exact h.dom x hx x0 hx0 hxy hn
    · exact h.dom x0 hx0 y hy hxy hn
    · rfl
  weak := by
    intro _ x hx y hy hxy hn
    simp only [List.mem_append, List.mem_singleton] at hx hy
    rcases hx with hx | rfl <;> rcases hy with hy | rfl
    · exact h.weak rfl x hx y hy hxy hn
    · exact h.weak rfl x hx x0 hx0 hxy hn
    · exact h.weak rfl x0 hx0 y hy hxy hn
    · rfl
  strongP := by intro hs; cases hs
  strNon := by
    intro x hx y hy hxs hyn
    simp only [List.mem_append, List.mem_singleton] at hx hy
    rcases hx with hx | rfl <;> rcases hy with hy | rfl
    · exact h.strNon x hx y hy hxs hyn
    · exact h.strNon x hx x0 hx0 hxs hs
    · exact absurd hxs hs
    · exact absurd hxs hs
  strP := by
    rw [List.pairwise_append]
    refine ⟨h.strP, by simp, ?_⟩
    intro a _ b hb _ hbs
    simp only [List.mem_singleton] at hb
    subst hb
    exact absurd hbs hs

theorem categoriesGo_spec (strong : Bool) : ∀ (cols : List Col) (next : Nat) (acc : List (Option Nat × Dom)),
    CatInv strong acc next →
    ∃ next' tl, categoriesGo strong cols next acc = acc ++ tl ∧ tl.map (·.2) = cols.map (·.dom) ∧
      CatInv strong (acc ++ tl) next' := by
  intro cols
  induction cols with
  | nil => intro next acc h; exact ⟨next, [], by simp [categoriesGo], rfl, by simpa using h⟩
  | cons c cs ih =>
    intro next acc h
    unfold categoriesGo
    by_cases hv : c.dom = .void
    · simp only [hv, if_true]
      obtain ⟨n', tl, h1, h2, h3⟩ := ih next _ (catInv_void strong acc next h)
      refine ⟨n', (none, .void) :: tl, by simpa using h1, by simp [h2, hv], by simpa using h3⟩
    · simp only [hv, if_false]
      by_cases hs : (strong || decide (c.dom = .str)) = true
      · simp only [hs, if_true]
        obtain ⟨n', tl, h1, h2, h3⟩ := ih (next + 1) _ (catInv_fresh strong acc next c.dom h hv (by
          intro h1 h2
          simp [h1, h2] at hs))
        exact ⟨n', (some next, c.dom) :: tl, by simpa using h1, by simp [h2], by simpa using h3⟩
      · simp only [hs, Bool.false_eq_true, if_false]
        simp only [Bool.or_eq_true, decide_eq_true_eq, not_or, Bool.not_eq_true] at hs
        obtain ⟨hst, hstr⟩ := hs
        subst hst
        cases hf : acc.find? (fun x => decide (x.2 = c.dom)) with
        | some x0 =>
          simp only []
          have hmem : x0 ∈ acc := List.mem_of_find?_eq_some hf
          have hx0 : x0.2 = c.dom := by simpa using List.find?_some hf
          obtain ⟨n', tl, h1, h2, h3⟩ := ih next _ (by
            have := catInv_found acc next x0 h hmem (by rw [hx0]; exact hv) (by rw [hx0]; exact hstr)
            rw [hx0] at this; exact this)
          exact ⟨n', (x0.1, c.dom) :: tl, by simpa using h1, by simp [h2], by simpa using h3⟩
        | none =>
          simp only []
          obtain ⟨n', tl, h1, h2, h3⟩ := ih (next + 1) _ (catInv_fresh false acc next c.dom h hv (by
            intro _ _ x hx hxd
            have := List.find?_eq_none.1 hf x hx
            simp [hxd] at this))
          exact ⟨n', (some next, c.dom) :: tl, by simpa using h1, by simp [h2], by simpa using h3⟩

theorem categories_spec (strong : Bool) (cols : List Col) :
    (categories strong cols).map (·.2) = cols.map (·.dom) ∧ ∃ n, CatInv strong (categories strong cols) n := by
  obtain ⟨n, tl, h1, h2, h3⟩ := categoriesGo_spec strong cols 0 [] (catInv_nil strong)
  unfold categories
  rw [h1]
  exact ⟨by simpa using h2, n, h3⟩

/-! ### `iequals` -/

theorem iequals_iff (a b : Str) : iequals a b = true ↔ a.map toLower = b.map toLower := by
  induction a generalizing b with
  | nil => cases b <;> simp [iequals]
  | cons x xs ih =>
    cases b with
    | nil => simp [iequals]
    | cons y ys => simp [iequals, ih]

/-! ### values and their domains -/

/-- the alternative of `value_t` a value holds -/
def Val.dom : Val F → Dom
  | .void => .void
  | .int _ => .int
  | .dbl _ => .dbl
  | .str _ => .str

theorem cellVal_dom (o : NumOracle F) (d : Dom) (x : Str) (h : CellOK o d x) : (cellVal o d x).dom = d := by
  cases d with
  | void => rfl
  | str => rfl
  | int =>
    simp only [CellOK] at h
    simp only [cellVal]
    cases hs : o.stoi (trim x) with
    | none => simp [hs] at h
    | some v => rfl
  | dbl =>
    simp only [CellOK] at h
    simp only [cellVal]
    cases hs : o.stod (trim x) with
    | none => simp [hs] at h
    | some v => rfl

/-- the columns that have a variable, each with its index in `columns` (numbering starts at `i`) -/
def keptCols (cs : List Col) (i : Nat) : List (Col × Nat) := (cs.zipIdx i).filter (fun p => decide (p.1.dom ≠ .void))

theorem keptCols_cons (c : Col) (cs : List Col) (i : Nat) :
    keptCols (c :: cs) i = if c.dom = .void then keptCols cs (i + 1) else (c, i) :: keptCols cs (i + 1) := by
  unfold keptCols
  by_cases h : c.dom = .void <;> simp [List.zipIdx_cons, h]

/-- the variables of the code after the fix, column by column -/
theorem setupVarsGo_spec (cats : List (Option Nat × Dom)) : ∀ (cs : List Col) (i v : Nat),
    setupVarsGo true cats cs i v =
      ((keptCols cs i).zipIdx v).map (fun q =>
        ({ name := varName q.1.1 q.1.2, var := q.2, category := (cats.getD q.1.2 (none, .void)).1 } : VarSym)) := by
  intro cs
  induction cs with
  | nil => intro i v; rfl
  | cons c cs ih =>
    intro i v
    rw [setupVarsGo, keptCols_cons]
    by_cases h : c.dom = .void
    · simp [h, ih]
    · simp [h, ih, List.zipIdx_cons]

/-- the inputs `to_example` stores are the cells of the columns that have a variable, each a value
    of the column's domain -/
theorem inputVals_doms (o : NumOracle F) : ∀ (cs : List Col) (xs : List Str) (i : Nat),
    InputsOK o (cs.map (·.dom)) xs →
    (inputVals o (cs.map (·.dom)) xs).map Val.dom = (keptCols cs i).map (·.1.dom) := by
  intro cs
  induction cs with
  | nil => intro xs i _; cases xs <;> rfl
  | cons c cs ih =>
    intro xs i h
    cases xs with
    | nil => simp [InputsOK] at h
    | cons x xs =>
      simp only [List.map_cons, InputsOK] at h
      rw [keptCols_cons]
      by_cases hv : c.dom = .void
      · simp only [List.map_cons, inputVals, hv, if_true]
        exact ih xs (i + 1) h.2
      · simp only [List.map_cons, inputVals, hv, if_false, cellVal_dom o c.dom x h.1]
        rw [ih xs (i + 1) h.2]

/-! ### the terminals of `setup_terminals` -/

def TermSym.var? : TermSym → Option VarSym
  | .var v => some v
  | .const _ _ _ => none

/-- states are texts: only a column of domain `d_string` has any (true of every column `read_csv` /
    `read_xrff` build: `to_example` adds states to `d_string` columns only, `read_xrff` stores the
    labels of `nominal` attributes only) -/
def StatesStr (cs : List Col) : Prop := ∀ c ∈ cs, c.dom ≠ .str → c.states = []

/-! #### both readers only ever build such columns -/

theorem foldlM_inv {α β ε : Type} (P : β → Prop) (f : β → α → Except ε β)
    (hf : ∀ b a b', P b → f b a = .ok b' → P b') :
    ∀ (l : List α) (b b' : β), P b → l.foldlM f b = .ok b' → P b' := by
  intro l
  induction l with
  | nil => intro b b' hb h; simp only [List.foldlM, pure, Except.pure, Except.ok.injEq] at h; exact h ▸ hb
  | cons a l ih =>
    intro b b' hb h
    simp only [List.foldlM] at h
    cases hfa : f b a with
    | error e => simp [hfa, bind, Except.bind] at h
    | ok b1 =>
      simp only [hfa, bind, Except.bind] at h
      exact ih b1 b' (hf b a b1 hb hfa) h

theorem bind_ok {α β ε : Type} {x : Except ε α} {f : α → Except ε β} {b : β} (h : x >>= f = .ok b) :
    ∃ a, x = .ok a ∧ f a = .ok b := by
  cases x with
  | error e => simp [bind, Except.bind] at h
  | ok a => exact ⟨a, rfl, h⟩

theorem addState_statesStr (add : Bool) (c : Col) (f : Str) (h : c.dom ≠ .str → c.states = []) :
    (addState add c f).dom ≠ .str → (addState add c f).states = [] := by
  unfold addState
  split
  · next hc => intro hn; simp only [Bool.and_eq_true, decide_eq_true_eq] at hc; exact absurd hc.2 hn
  · exact h

theorem setDomain_statesStr (o : NumOracle F) (first : Bool) (c : Col) (x : Str) (h : c.dom ≠ .str → c.states = []) :
    (setDomain o first c x).dom ≠ .str → (setDomain o first c x).states = [] := by
  unfold setDomain
  simp only []
  split
  · exact h
  · split
    · next hv => intro _; exact h (by rw [hv]; decide)
    · exact h

theorem buildGo_statesStr (o : NumOracle F) : ∀ (first : Bool) (cs : List Col) (xs : List Str) (cs' : List Col),
    StatesStr cs → buildGo o first cs xs = .ok cs' → StatesStr cs' := by
  intro first cs
  induction cs generalizing first with
  | nil =>
    intro xs cs' _ h
    induction xs generalizing first with
    | nil => simp only [buildGo, pure, Except.pure, Except.ok.injEq] at h; subst h; intro c hc; cases hc
    | cons x xs ihx =>
      simp only [buildGo] at h
      split at h
      · exact ihx false h
      · cases h
  | cons c cs ih =>
    intro xs cs' hst h
    cases xs with
    | nil => simp only [buildGo, pure, Except.pure, Except.ok.injEq] at h; subst h; exact hst
    | cons x xs =>
      simp only [buildGo] at h
      cases hr : buildGo o false cs xs with
      | error e => simp [hr, bind, Except.bind] at h
      | ok rest =>
        simp only [hr, bind, Except.bind, pure, Except.pure, Except.ok.injEq] at h
        subst h
        intro c' hc'
        simp only [List.mem_cons] at hc'
        rcases hc' with rfl | hc'
        · exact setDomain_statesStr o first c x (hst c (by simp))
        · exact ih false xs rest (fun y hy => hst y (by simp [hy])) hr c' hc'

theorem build_statesStr (cfg : Cfg) (o : NumOracle F) (cols : List Col) (r : List Str) (hdr : Bool) (cols' : List Col)
    (hst : StatesStr cols) (h : build cfg o cols r hdr = .ok cols') : StatesStr cols' := by
  unfold build at h
  split at h
  · simp only [pure, Except.pure, Except.ok.injEq] at h
    subst h
    intro c hc
    simp only [List.mem_map] at hc
    obtain ⟨_, _, rfl⟩ := hc
    intro _; rfl
  · have hfresh : StatesStr (if cols.isEmpty then List.replicate r.length {} else cols) := by
      split
      · intro c hc; rw [List.mem_replicate] at hc; rw [hc.2]; intro _; rfl
      · exact hst
    simp only [] at h
    generalize (if cols.isEmpty = true then List.replicate r.length ({} : Col) else cols) = fc at h hfresh
    split at h
    · simp only [pure, Except.pure, Except.ok.injEq] at h; subst h; exact hfresh
    · exact buildGo_statesStr o true _ r cols' hfresh h

theorem inputsGo_statesStr (o : NumOracle F) (add : Bool) : ∀ (cs : List Col) (xs : List Str) (q : List Col × List (Val F)),
    StatesStr cs → inputsGo o add cs xs = .ok q → StatesStr q.1 := by
  intro cs
  induction cs with
  | nil => intro xs q _ h; simp only [inputsGo, pure, Except.pure, Except.ok.injEq] at h; subst h; intro c hc; cases hc
  | cons c cs ih =>
    intro xs q hst h
    cases xs with
    | nil => simp only [inputsGo, pure, Except.pure, Except.ok.injEq] at h; subst h; exact hst
    | cons x xs =>
      have hst' : StatesStr cs := fun y hy => hst y (by simp [hy])
      rw [inputsGo] at h
      split at h
      · cases hr : inputsGo o add cs xs with
        | error e => simp [hr, bind, Except.bind] at h
        | ok q' =>
          simp only [hr, bind, Except.bind, pure, Except.pure, Except.ok.injEq] at h
          subst h
          intro c' hc'
          simp only [List.mem_cons] at hc'
          rcases hc' with rfl | hc'
          · exact hst c' (by simp)
          · exact ih xs q' hst' hr c' hc'
      · cases hcv : convert o c.dom (trim x) with
        | error e => simp [hcv, bind, Except.bind] at h
        | ok v =>
          cases hr : inputsGo o add cs xs with
          | error e => simp [hcv, hr, bind, Except.bind] at h
          | ok q' =>
            simp only [hcv, hr, bind, Except.bind, pure, Except.pure, Except.ok.injEq] at h
            subst h
            intro c' hc'
            simp only [List.mem_cons] at hc'
            rcases hc' with rfl | hc'
            · exact addState_statesStr add c (trim x) (hst c (by simp))
            · exact ih xs q' hst' hr c' hc'

theorem readRecord_statesStr (o : NumOracle F) (df df' : DF F) (r : List Str) (add : Bool)
    (hst : StatesStr df.cols) (h : readRecord o df r add = .ok df') : StatesStr df'.cols := by
  unfold readRecord at h
  split at h
  · simp only [pure, Except.pure, Except.ok.injEq] at h; subst h; exact hst
  · cases ht : toExample o df r add with
    | error e => simp [ht, bind, Except.bind] at h
    | ok q =>
      obtain ⟨df1, e⟩ := q
      simp only [ht, bind, Except.bind, pure, Except.pure, Except.ok.injEq] at h
      subst h
      simp only []
      unfold toExample at ht
      split at ht
      · next c0 cs v0 vs hc hv =>
        cases ho : outputOf o df.classes c0 v0 add with
        | error e => simp [ho, bind, Except.bind] at ht
        | ok ro =>
          cases hi : inputsGo o add cs vs with
          | error e => simp [ho, hi, bind, Except.bind] at ht
          | ok q =>
            simp only [ho, hi, bind, Except.bind, pure, Except.pure, Except.ok.injEq, Prod.mk.injEq] at ht
            obtain ⟨rfl, _⟩ := ht
            have hc0 : c0.dom ≠ .str → c0.states = [] := hst c0 (by rw [hc]; simp)
            have hcs : StatesStr cs := fun y hy => hst y (by rw [hc]; simp [hy])
            have hro : ro.2.2.dom ≠ .str → ro.2.2.states = [] := by
              unfold outputOf at ho
              split at ho
              · simp only [pure, Except.pure, Except.ok.injEq] at ho; subst ho; exact hc0
              · split at ho
                · simp only [pure, Except.pure, Except.ok.injEq] at ho; subst ho
                  exact addState_statesStr add c0 _ hc0
                · cases hcv : convert o c0.dom (trim v0) with
                  | error e => simp [hcv, bind, Except.bind] at ho
                  | ok x =>
                    simp only [hcv, bind, Except.bind, pure, Except.pure, Except.ok.injEq] at ho; subst ho
                    exact addState_statesStr add c0 _ hc0
            intro c' hc'
            simp only [List.mem_cons] at hc'
            rcases hc' with rfl | hc'
            · exact hro
            · exact inputsGo_statesStr o add cs vs q hcs hi c' hc'
      · simp only [pure, Except.pure, Except.ok.injEq, Prod.mk.injEq] at ht
        obtain ⟨rfl, _⟩ := ht
        exact hst

theorem csvStep_statesStr (cfg : Cfg) (o : NumOracle F) (outIdx : Option Nat) (hasHdr : Bool) (st st' : St F)
    (r : List Str) (hst : StatesStr st.df.cols) (h : csvStep cfg o outIdx hasHdr st r = .ok st') :
    StatesStr st'.df.cols := by
  have hproc : ∀ rec', csvProceed cfg o hasHdr st rec' = .ok st' → StatesStr st'.df.cols := by
    intro rec' h
    unfold csvProceed at h
    obtain ⟨cols, hb, h⟩ := bind_ok h
    obtain ⟨df', hr, h⟩ := bind_ok h
    have hcols : StatesStr cols := by
      split at hb
      · exact build_statesStr cfg o _ rec' hasHdr cols hst hb
      · simp only [pure, Except.pure, Except.ok.injEq] at hb; subst hb; exact hst
    simp only [pure, Except.pure, Except.ok.injEq] at h
    subst h
    simp only []
    split at hr
    · exact readRecord_statesStr o _ df' rec' true hcols hr
    · simp only [pure, Except.pure, Except.ok.injEq] at hr; subst hr; exact hcols
  unfold csvStep at h
  split at h
  · split at h
    · simp only [pure, Except.pure, Except.ok.injEq] at h; subst h; exact hst
    · next k _ =>
      cases hr : rotate? .rotateCsv r k with
      | error e => simp [hr, bind, Except.bind] at h
      | ok rec' =>
        simp only [hr, bind, Except.bind] at h
        exact hproc rec' h
  · exact hproc _ h

/-- every column `read_csv` builds has states only if its domain is `d_string` -/
theorem readCsv_statesStr (cfg : Cfg) (o : NumOracle F) (p : Params) (bytes : Str) (df : DF F)
    (h : readCsv cfg o p bytes = .ok df) : StatesStr df.cols := by
  unfold readCsv readCsvRecs at h
  simp only [] at h
  generalize records _ _ _ = recs at h
  generalize (resolveDialect cfg o p (splitLines bytes)).2 = hh at h
  cases hf : List.foldlM (csvStep cfg o p.outIdx hh) ({} : St F) recs with
  | error e => simp [hf, bind, Except.bind] at h
  | ok st =>
    have hst : StatesStr st.df.cols :=
      foldlM_inv (fun s : St F => StatesStr s.df.cols) _
        (fun b a b' hb hfa => csvStep_statesStr cfg o p.outIdx hh b b' a hb hfa) recs {} st
        (by intro c hc; cases hc) hf
    simp only [hf, bind, Except.bind] at h
    cases hv : isValid st.df with
    | error e => simp [hv] at h
    | ok v =>
      simp only [hv] at h
      split at h
      · cases h
      · simp only [pure, Except.pure, Except.ok.injEq] at h; subst h; exact hst

theorem colOf_statesStr (a : XAttr) : (colOf a).dom ≠ .str → (colOf a).states = [] := by
  intro hn
  unfold colOf at hn ⊢
  simp only [] at hn ⊢
  by_cases hty : a.type = "nominal".toList
  · rw [hty] at hn; exact absurd (by decide) hn
  · rw [if_neg hty]

theorem colOfOut_statesStr (a : XAttr) : (colOfOut a).states = [] := by
  unfold colOfOut
  simp only []
  by_cases hc : (decide (a.type = "nominal".toList) || decide (a.type = "string".toList)) = true
  · rw [if_pos hc, if_neg (by decide)]
  · rw [if_neg hc]
    have : ¬ a.type = "nominal".toList := by
      intro h; apply hc; rw [h]; decide
    rw [if_neg this]

theorem xAttrStep_statesStr (st st' : XSt) (a : XAttr) (hst : StatesStr st.cols) (h : xAttrStep st a = .ok st') :
    StatesStr st'.cols := by
  cases hcls : a.cls with
  | false =>
    rw [xAttrStep_plain st a hcls] at h
    simp only [Except.ok.injEq] at h
    subst h
    intro c hc
    simp only [List.mem_append, List.mem_singleton] at hc
    rcases hc with hc | rfl
    · exact hst c hc
    · exact colOf_statesStr a
  | true =>
    by_cases h0 : st.nOutput = 0
    · rw [xAttrStep_class st a hcls h0] at h
      simp only [Except.ok.injEq] at h
      subst h
      intro c hc
      simp only [List.mem_cons] at hc
      rcases hc with rfl | hc
      · intro _; exact colOfOut_statesStr a
      · exact hst c hc
    · have hgt : st.nOutput + 1 > 1 := by omega
      simp [xAttrStep, hcls, hgt, throw, throwThe, MonadExceptOf.throw] at h

/-- every column `read_xrff` builds has states only if its domain is `d_string` -/
theorem readXrffH_statesStr (cfg : Cfg) (o : NumOracle F) (hook : Hook) (doc : XDoc) (df : DF F) (n : Nat)
    (h : readXrffH cfg o hook doc = .ok (df, n)) : StatesStr df.cols := by
  cases doc with
  | parseError => cases h
  | noAttributes => cases h
  | doc attrs instances =>
    simp only [readXrffH] at h
    obtain ⟨st, hattr, h⟩ := bind_ok h
    have hst : StatesStr st.cols :=
      foldlM_inv (fun s : XSt => StatesStr s.cols) _ (fun b a b' hb hfa => xAttrStep_statesStr b b' a hb hfa)
        attrs {} st (by intro c hc; cases hc) hattr
    split at h
    · cases h
    · cases instances with
      | none => cases h
      | some insts =>
        simp only [] at h
        obtain ⟨df', hfold, h⟩ := bind_ok h
        have h0 : StatesStr (if st.nOutput = 0 then st.cols.getLast?.toList ++ st.cols.dropLast else st.cols) := by
          split
          · intro c hc
            simp only [List.mem_append, Option.mem_toList] at hc
            rcases hc with hc | hc
            · exact hst c (List.mem_of_getLast? hc)
            · exact hst c (List.dropLast_subset _ hc)
          · exact hst
        have hdf : StatesStr df'.cols :=
          foldlM_inv (fun d : DF F => StatesStr d.cols) _
            (fun b a b' hb hfa => by
              unfold xInstStepH at hfa
              split at hfa
              · simp only [pure, Except.pure, Except.ok.injEq] at hfa; subst hfa; exact hb
              · obtain ⟨rec', _, hfa⟩ := bind_ok hfa
                exact readRecord_statesStr o b b' rec' false hb hfa)
            insts _ df' h0 hfold
        obtain ⟨v, _, h⟩ := bind_ok h
        split at h
        · cases h
        · simp only [pure, Except.pure, Except.ok.injEq, Prod.mk.injEq] at h
          obtain ⟨rfl, _⟩ := h
          exact hdf

theorem stateConsts_ok (c : Col) (cat : Option Nat) (h : c.dom ≠ .str → c.states = []) :
    stateConsts c cat = .ok (c.states.map (fun s => TermSym.const (quoteStr s) s cat)) := by
  unfold stateConsts
  cases hd : c.dom with
  | str => rfl
  | void => simp [h (by simp [hd]), pure, Except.pure]
  | int => simp [h (by simp [hd]), pure, Except.pure]
  | dbl => simp [h (by simp [hd]), pure, Except.pure]

/-- every terminal of the code after the fix: per column that has a domain – in column order – its
    variable followed by one constant per state of the column, all in the column's category -/
theorem setupSymsGo_spec (cats : List (Option Nat × Dom)) : ∀ (cs : List Col) (i v : Nat), StatesStr cs →
    setupSymsGo true cats cs i v = .ok
      (((keptCols cs i).zipIdx v).flatMap (fun q =>
        TermSym.var { name := varName q.1.1 q.1.2, var := q.2, category := (cats.getD q.1.2 (none, .void)).1 } ::
          q.1.1.states.map (fun s => TermSym.const (quoteStr s) s (cats.getD q.1.2 (none, .void)).1))) := by
  intro cs
  induction cs with
  | nil => intro i v _; rfl
  | cons c cs ih =>
    intro i v hst
    have hst' : StatesStr cs := fun x hx => hst x (by simp [hx])
    rw [setupSymsGo, keptCols_cons]
    by_cases h : c.dom = .void
    · simp [h, ih (i + 1) v hst']
    · simp only [h, decide_false, Bool.and_false, Bool.false_eq_true, if_false,
        stateConsts_ok c _ (hst c (by simp)), ih (i + 1) (v + 1) hst', bind, Except.bind, pure, Except.pure,
        List.zipIdx_cons, List.flatMap_cons, List.cons_append]

theorem flatMap_var? {α} (f : α → VarSym) (g : α → List TermSym) (hg : ∀ a, ∀ s ∈ g a, s.var? = none) :
    ∀ (l : List α), (l.flatMap (fun a => TermSym.var (f a) :: g a)).filterMap TermSym.var? = l.map f := by
  intro l
  induction l with
  | nil => rfl
  | cons a l ih =>
    simp only [List.flatMap_cons, List.cons_append, List.filterMap_cons, TermSym.var?, List.filterMap_append,
      List.map_cons, ih]
    congr 1
    have : (g a).filterMap TermSym.var? = [] := by
      rw [List.filterMap_eq_nil_iff]
      exact hg a
    simp [this]

end Vita.C09
