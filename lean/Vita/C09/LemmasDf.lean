/-
  C09 — helper lemmas about the dataframe model: on a record that fits the columns every step of
  the import is the pure function the table prescribes.
-/
import Vita.C09.Lemmas

namespace Vita.C09

variable {F : Type}

/-! ### specification-side functions -/

/-- the value a cell of a column with domain `d` must become -/
def cellVal (o : NumOracle F) (d : Dom) (x : Str) : Val F :=
  match d with
  | .dbl => match o.stod (trim x) with | some v => .dbl v | none => .void
  | .int => match o.stoi (trim x) with | some v => .int v | none => .void
  | .str => .str (trim x)
  | .void => .void

/-- the cell converts (numbers: `std::stod` / `std::stoi` accept it) -/
def CellOK (o : NumOracle F) (d : Dom) (x : Str) : Prop :=
  match d with
  | .dbl => (o.stod (trim x)).isSome
  | .int => (o.stoi (trim x)).isSome
  | _ => True

/-- values of the input cells, columns without a domain skipped -/
def inputVals (o : NumOracle F) : List Dom → List Str → List (Val F)
  | d :: ds, x :: xs => if d = .void then inputVals o ds xs else cellVal o d x :: inputVals o ds xs
  | _, _ => []

def InputsOK (o : NumOracle F) : List Dom → List Str → Prop
  | d :: ds, x :: xs => CellOK o d x ∧ InputsOK o ds xs
  | [], [] => True
  | _, _ => False

/-- name and domain of every column -/
def skel (cs : List Col) : List (Str × Dom) := cs.map (fun c => (c.name, c.dom))

/-- a column without a domain has no states (`columns_info::is_valid`) -/
def VoidClean (cs : List Col) : Prop := ∀ c ∈ cs, c.dom = .void → c.states = []

theorem convert_ok (o : NumOracle F) (d : Dom) (x : Str) (h : CellOK o d x) :
    convert o d (trim x) = .ok (cellVal o d x) := by
  cases d <;> simp only [convert, cellVal, CellOK] at *
  · rfl
  · cases hs : o.stoi (trim x) <;> simp_all <;> rfl
  · cases hs : o.stod (trim x) <;> simp_all <;> rfl
  · rfl

theorem addState_skel (add : Bool) (c : Col) (f : Str) :
    ((addState add c f).name, (addState add c f).dom) = (c.name, c.dom) := by
  unfold addState; split <;> rfl

theorem addState_void (add : Bool) (c : Col) (f : Str) (h : c.dom = .void → c.states = []) :
    (addState add c f).dom = .void → (addState add c f).states = [] := by
  unfold addState
  split
  · next hc => intro hv; simp at hc; simp [hc.2] at hv
  · exact h

theorem inputsGo_ok (o : NumOracle F) (add : Bool) : ∀ (cs : List Col) (xs : List Str),
    InputsOK o (cs.map (·.dom)) xs → VoidClean cs →
    ∃ cs', inputsGo o add cs xs = .ok (cs', inputVals o (cs.map (·.dom)) xs) ∧
      skel cs' = skel cs ∧ VoidClean cs' := by
  intro cs
  induction cs with
  | nil =>
    intro xs h _
    cases xs with
    | nil => exact ⟨[], rfl, rfl, by intro c hc; cases hc⟩
    | cons x xs => simp [InputsOK] at h
  | cons c cs ih =>
    intro xs h hv
    cases xs with
    | nil => simp [InputsOK] at h
    | cons x xs =>
      simp only [List.map, InputsOK] at h
      obtain ⟨hc, hrest⟩ := h
      obtain ⟨cs', hgo, hsk, hvc⟩ := ih xs hrest (fun c' hc' => hv c' (by simp [hc']))
      by_cases hd : c.dom = .void
      · refine ⟨c :: cs', ?_, ?_, ?_⟩
        · simp only [inputsGo, hd, if_true, hgo, bind, Except.bind, pure, Except.pure, List.map, inputVals]
        · simp only [skel, List.map] at *; rw [hsk]
        · intro c' hc'
          simp at hc'
          rcases hc' with rfl | hc'
          · exact hv c' (by simp)
          · exact hvc c' hc'
      · refine ⟨addState add c (trim x) :: cs', ?_, ?_, ?_⟩
        · simp only [inputsGo, hd, if_false, hgo, bind, Except.bind, pure, Except.pure, List.map,
            inputVals, convert_ok o c.dom x hc]
        · simp only [skel, List.map] at *; rw [hsk, addState_skel]
        · intro c' hc'
          simp at hc'
          rcases hc' with rfl | hc'
          · exact addState_void add c (trim x) (hv c (by simp))
          · exact hvc c' hc'

/-- value of the output cell and the class map after it: nothing for a column without domain, the
    class id for a label, the number otherwise -/
def outVal (o : NumOracle F) (m : ClassMap) (d0 : Dom) (x0 : Str) : Val F × ClassMap :=
  if d0 = .void then (.void, m)
  else if isNumber o x0 = false then (.int (encode m (trim x0)).1, (encode m (trim x0)).2)
  else (cellVal o d0 x0, m)

def OutOK (o : NumOracle F) (d0 : Dom) (x0 : Str) : Prop :=
  d0 = .void ∨ isNumber o x0 = false ∨ CellOK o d0 x0

theorem toExample_ok (o : NumOracle F) (df : DF F) (add : Bool) (c0 : Col) (cs : List Col)
    (v0 : Str) (vs : List Str) (hcols : df.cols = c0 :: cs)
    (hout : OutOK o c0.dom v0) (hin : InputsOK o (cs.map (·.dom)) vs) (hv : VoidClean df.cols) :
    ∃ cols', toExample o df (v0 :: vs) add =
        .ok ({ df with cols := cols', classes := (outVal o df.classes c0.dom v0).2 },
             { input := inputVals o (cs.map (·.dom)) vs, output := (outVal o df.classes c0.dom v0).1 }) ∧
      skel cols' = skel df.cols ∧ VoidClean cols' := by
  rw [hcols] at hv
  obtain ⟨cs', hgo, hsk, hvc⟩ := inputsGo_ok o add cs vs hin (fun c hc => hv c (by simp [hc]))
  have hv0 : c0.dom = .void → c0.states = [] := hv c0 (by simp)
  by_cases hd : c0.dom = .void
  · refine ⟨c0 :: cs', ?_, ?_, ?_⟩
    · simp only [toExample, outputOf, hcols, hd, if_true, hgo, bind, Except.bind, pure, Except.pure, outVal]
    · simp only [skel, List.map, hcols] at *; rw [hsk]
    · intro c hc; simp at hc
      rcases hc with rfl | hc
      · exact hv0
      · exact hvc c hc
  · by_cases hn : isNumber o v0 = false
    · refine ⟨addState add c0 (trim v0) :: cs', ?_, ?_, ?_⟩
      · simp only [toExample, outputOf, hcols, hd, hn, if_true, if_false, hgo, bind, Except.bind, pure, Except.pure,
          outVal, Bool.not_false]
      · simp only [skel, List.map, hcols] at *; rw [hsk, addState_skel]
      · intro c hc; simp at hc
        rcases hc with rfl | hc
        · exact addState_void add c0 (trim v0) hv0
        · exact hvc c hc
    · have hn' : isNumber o v0 = true := by simpa using hn
      have hc : CellOK o c0.dom v0 := by
        rcases hout with h | h | h
        · exact absurd h hd
        · simp [h] at hn'
        · exact h
      refine ⟨addState add c0 (trim v0) :: cs', ?_, ?_, ?_⟩
      · simp only [toExample, outputOf, hcols, hd, hn', if_false, hgo, bind, Except.bind, pure, Except.pure,
          outVal, Bool.not_true, convert_ok o c0.dom v0 hc, Bool.false_eq_true, Bool.true_eq_false]
      · simp only [skel, List.map, hcols] at *; rw [hsk, addState_skel]
      · intro c hc; simp at hc
        rcases hc with rfl | hc
        · exact addState_void add c0 (trim v0) hv0
        · exact hvc c hc

theorem inputsOK_length (o : NumOracle F) : ∀ (ds : List Dom) (xs : List Str),
    InputsOK o ds xs → xs.length = ds.length := by
  intro ds
  induction ds with
  | nil => intro xs h; cases xs <;> simp_all [InputsOK]
  | cons d ds ih => intro xs h; cases xs <;> simp_all [InputsOK]

/-- `read_record` on a record that fits the columns -/
theorem readRecord_ok (o : NumOracle F) (df : DF F) (add : Bool) (c0 : Col) (cs : List Col)
    (v0 : Str) (vs : List Str) (hcols : df.cols = c0 :: cs)
    (hout : OutOK o c0.dom v0) (hin : InputsOK o (cs.map (·.dom)) vs) (hv : VoidClean df.cols) :
    ∃ cols', readRecord o df (v0 :: vs) add =
        .ok { cols := cols', classes := (outVal o df.classes c0.dom v0).2,
              examples := df.examples ++ [{ input := inputVals o (cs.map (·.dom)) vs,
                                            output := (outVal o df.classes c0.dom v0).1 }] } ∧
      skel cols' = skel df.cols ∧ VoidClean cols' := by
  obtain ⟨cols', hte, hsk, hvc⟩ := toExample_ok o df add c0 cs v0 vs hcols hout hin hv
  refine ⟨cols', ?_, hsk, hvc⟩
  have hl := inputsOK_length o _ _ hin
  simp only [readRecord, hcols, List.length_cons, hl, List.length_map, bne_self_eq_false,
    Bool.false_eq_true, if_false, hte, bind, Except.bind, pure, Except.pure]

/-! ### `columns_info::build` -/

/-- the domain `set_domain` gives to a column that has none yet -/
def kindOf (o : NumOracle F) (first : Bool) (x : Str) : Dom :=
  if isBlank x then .void else if isNumber o x || first then .dbl else .str

def kinds (o : NumOracle F) : Bool → List Str → List Dom
  | _, [] => []
  | first, x :: xs => kindOf o first x :: kinds o false xs

theorem isNumber_trim (o : NumOracle F) (x : Str) : isNumber o (trim x) = isNumber o x := by
  simp [isNumber, trim_trim]

theorem setDomain_void (o : NumOracle F) (first : Bool) (c : Col) (x : Str) (h : c.dom = .void) :
    setDomain o first c x = { c with dom := kindOf o first x } := by
  unfold setDomain kindOf
  simp only [trim_isEmpty, isNumber_trim, h]
  by_cases hb : isBlank x = true
  · simp [hb, ← h]
  · cases hn : isNumber o x <;> cases first <;> simp [hb]

theorem setDomain_id (o : NumOracle F) (first : Bool) (c : Col) (x : Str)
    (h : c.dom ≠ .void ∨ isBlank x = true) : setDomain o first c x = c := by
  unfold setDomain
  simp only [trim_isEmpty]
  rcases h with h | h
  · simp [h]
  · simp [h]

def buildPure (o : NumOracle F) : Bool → List Col → List Str → List Col
  | first, c :: cs, x :: xs => setDomain o first c x :: buildPure o false cs xs
  | _, cs, _ => cs

theorem buildGo_eq (o : NumOracle F) : ∀ (first : Bool) (cs : List Col) (xs : List Str),
    cs.length = xs.length → buildGo o first cs xs = .ok (buildPure o first cs xs) := by
  intro first cs
  induction cs generalizing first with
  | nil => intro xs h; cases xs <;> simp_all [buildGo, buildPure, pure, Except.pure]
  | cons c cs ih =>
    intro xs h
    cases xs with
    | nil => simp at h
    | cons x xs =>
      simp only [List.length_cons, Nat.add_right_cancel_iff] at h
      simp only [buildGo, ih false xs h, bind, Except.bind, pure, Except.pure, buildPure]

/-- the record leaves every domain as it is -/
def Stable : List Dom → List Str → Prop
  | d :: ds, x :: xs => (d ≠ .void ∨ isBlank x = true) ∧ Stable ds xs
  | _, _ => True

theorem buildPure_stable (o : NumOracle F) : ∀ (first : Bool) (cs : List Col) (xs : List Str),
    Stable (cs.map (·.dom)) xs → buildPure o first cs xs = cs := by
  intro first cs
  induction cs generalizing first with
  | nil => intro xs _; cases xs <;> rfl
  | cons c cs ih =>
    intro xs h
    cases xs with
    | nil => rfl
    | cons x xs =>
      simp only [List.map, Stable] at h
      simp only [buildPure, setDomain_id o first c x h.1, ih false xs h.2]

theorem buildPure_fresh (o : NumOracle F) : ∀ (first : Bool) (cs : List Col) (xs : List Str),
    cs.length = xs.length → (∀ c ∈ cs, c.dom = .void ∧ c.states = []) →
    skel (buildPure o first cs xs) = (cs.map (·.name)).zip (kinds o first xs) ∧
    VoidClean (buildPure o first cs xs) := by
  intro first cs
  induction cs generalizing first with
  | nil =>
    intro xs h _
    cases xs with
    | nil => exact ⟨rfl, by intro c hc; cases hc⟩
    | cons x xs => simp at h
  | cons c cs ih =>
    intro xs h hall
    cases xs with
    | nil => simp at h
    | cons x xs =>
      simp only [List.length_cons, Nat.add_right_cancel_iff] at h
      obtain ⟨hsk, hvc⟩ := ih false xs h (fun c' hc' => hall c' (by simp [hc']))
      obtain ⟨hd, hs⟩ := hall c (by simp)
      constructor
      · simp only [buildPure, skel, List.map, kinds, List.zip_cons_cons, setDomain_void o first c x hd] at *
        rw [hsk]
      · intro c' hc'
        simp only [buildPure, List.mem_cons] at hc'
        rcases hc' with rfl | hc'
        · intro _; rw [setDomain_void o first c x hd]; exact hs
        · exact hvc c' hc'

theorem stable_kinds (o : NumOracle F) : ∀ (first : Bool) (xs : List Str), Stable (kinds o first xs) xs := by
  intro first xs
  induction xs generalizing first with
  | nil => trivial
  | cons x xs ih =>
    refine ⟨?_, ih false⟩
    unfold kindOf
    cases hb : isBlank x
    · left; simp only [Bool.false_eq_true, if_false]; split <;> simp
    · right; rfl

/-! ### the loop of `read_csv` -/

/-- `std::rotate(begin, begin + k, begin + k + 1)` on a record that has a field `k` -/
def rot (r : List Str) (k : Nat) : List Str :=
  if k = 0 then r
  else match r[k]? with
    | some x => x :: (r.take k ++ r.drop (k + 1))
    | none => r

/-- the record as `build` / `read_record` see it: output cell first (an empty surrogate when
    there is no output column), then the other cells in their original order -/
def prep (outIdx : Option Nat) (r : List Str) : List Str :=
  match outIdx with
  | some k => rot r k
  | none => [] :: r

theorem rotate?_ok (s : Site) (r : List Str) (k : Nat) (h : k < r.length) :
    rotate? s r k = .ok (rot r k) := by
  unfold rotate? rot
  by_cases hk : k = 0
  · simp [hk, pure, Except.pure]
  · simp only [hk, if_false]
    rw [List.getElem?_eq_getElem h]
    rfl

theorem rot_length (r : List Str) (k : Nat) : (rot r k).length = r.length := by
  unfold rot
  by_cases hk : k = 0
  · simp [hk]
  · simp only [hk, if_false]
    cases h : r[k]? with
    | none => rfl
    | some x =>
      have hlt : k < r.length := by
        rcases Nat.lt_or_ge k r.length with h' | h'
        · exact h'
        · rw [List.getElem?_eq_none h'] at h; cases h
      simp only [List.length_cons, List.length_append, List.length_take, List.length_drop]
      omega

/-- the cells of a record convert under the domains `D` -/
def RowOKx (o : NumOracle F) (D : List Dom) (r' : List Str) : Prop :=
  match D, r' with
  | d0 :: ds, v0 :: vs => OutOK o d0 v0 ∧ InputsOK o ds vs
  | _, _ => False

/-- a record fits the domains `D`: its cells convert and it leaves the domains alone -/
def RowOK (o : NumOracle F) (D : List Dom) (r' : List Str) : Prop :=
  match D, r' with
  | d0 :: ds, v0 :: vs => OutOK o d0 v0 ∧ InputsOK o ds vs ∧ Stable D r'
  | _, _ => False

theorem rowOK_x (o : NumOracle F) (D : List Dom) (r' : List Str) (h : RowOK o D r') : RowOKx o D r' := by
  cases D with
  | nil => simp [RowOK] at h
  | cons d ds =>
    cases r' with
    | nil => simp [RowOK] at h
    | cons v vs => exact ⟨h.1, h.2.1⟩

theorem skel_doms (cs : List Col) : cs.map (·.dom) = (skel cs).map (·.2) := by
  simp [skel]

/-- `csvStep` on a data record, given what `build` returns -/
theorem csvStep_data (cfg : Cfg) (o : NumOracle F) (outIdx : Option Nat) (hasHdr : Bool)
    (st : St F) (r : List Str) (cols1 : List Col)
    (hk : ∀ k, outIdx = some k → k < r.length)
    (hbuild : (if st.count < 10 then build cfg o st.df.cols (prep outIdx r) hasHdr else pure st.df.cols)
                = .ok cols1)
    (hdata : (!hasHdr || st.count != 0) = true)
    (hrow : RowOK o (cols1.map (·.dom)) (prep outIdx r)) (hv : VoidClean cols1) :
    ∃ cols' c0 v0 vs, cols1.map (·.dom) = c0 :: (cols1.map (·.dom)).tail ∧ prep outIdx r = v0 :: vs ∧
      csvStep cfg o outIdx hasHdr st r =
        .ok { df := { cols := cols', classes := (outVal o st.df.classes c0 v0).2,
                      examples := st.df.examples ++
                        [{ input := inputVals o (cols1.map (·.dom)).tail vs,
                           output := (outVal o st.df.classes c0 v0).1 }] },
              count := st.count + 1 } ∧
      skel cols' = skel cols1 ∧ VoidClean cols' := by
  cases hc : cols1 with
  | nil => simp [hc, RowOK] at hrow
  | cons c0 cs =>
    cases hr : prep outIdx r with
    | nil => simp [hc, hr, RowOK] at hrow
    | cons v0 vs =>
      simp only [hc, hr, List.map, RowOK] at hrow
      obtain ⟨hout, hin, _⟩ := hrow
      obtain ⟨cols', hrr, hsk, hvc⟩ :=
        readRecord_ok o { st.df with cols := cols1 } true c0 cs v0 vs hc hout hin hv
      refine ⟨cols', c0.dom, v0, vs, by simp, rfl, ?_, by rw [← hc]; exact hsk, hvc⟩
      have hproceed : csvProceed cfg o hasHdr st (v0 :: vs) =
          .ok { df := { cols := cols', classes := (outVal o st.df.classes c0.dom v0).2,
                        examples := st.df.examples ++
                          [{ input := inputVals o (cs.map (·.dom)) vs,
                             output := (outVal o st.df.classes c0.dom v0).1 }] },
                count := st.count + 1 } := by
        rw [hr] at hbuild
        unfold csvProceed
        rw [hbuild]
        simp only [hdata, if_true, bind, Except.bind]
        rw [hrr]
        rfl
      cases ho : outIdx with
      | none =>
        simp only [ho, prep] at hr
        simp only [csvStep, hr]
        exact hproceed
      | some k =>
        have hlt := hk k ho
        simp only [ho, prep] at hr
        simp only [csvStep]
        have hg : (cfg.guards && decide (k ≥ r.length)) = false := by
          simp; intro _; omega
        simp only [hg, Bool.false_eq_true, if_false, rotate?_ok _ r k hlt, bind, Except.bind, hr]
        exact hproceed

theorem build_stable (cfg : Cfg) (o : NumOracle F) (cols : List Col) (r' : List Str) (hdr : Bool)
    (hne : cols ≠ []) (hl : cols.length = r'.length) (hs : Stable (cols.map (·.dom)) r') :
    build cfg o cols r' hdr = .ok cols := by
  have he : cols.isEmpty = false := by cases cols <;> simp_all
  unfold build
  simp only [he, Bool.false_and, Bool.false_eq_true, if_false, hl, bne_self_eq_false, Bool.and_false]
  rw [buildGo_eq o true cols r' hl, buildPure_stable o true cols r' hs]

theorem rowOK_length (o : NumOracle F) (D : List Dom) (r' : List Str) (h : RowOK o D r') :
    r'.length = D.length := by
  cases D with
  | nil => simp [RowOK] at h
  | cons d ds =>
    cases r' with
    | nil => simp [RowOK] at h
    | cons v vs =>
      simp only [RowOK] at h
      simp [inputsOK_length o ds vs h.2.1]

/-- domain of the output column (the first one) -/
def outDom (D : List Dom) : Dom := D.headD .void

theorem outDom_cons (d : Dom) (ds : List Dom) : outDom (d :: ds) = d := rfl

/-- examples and class map the table prescribes for already prepared records -/
def specRows (o : NumOracle F) (D : List Dom) : ClassMap → List (List Str) → ClassMap × List (Example F)
  | m, [] => (m, [])
  | m, (v0 :: vs) :: rs =>
    ((specRows o D (outVal o m (outDom D) v0).2 rs).1,
     { input := inputVals o D.tail vs, output := (outVal o m (outDom D) v0).1 } ::
       (specRows o D (outVal o m (outDom D) v0).2 rs).2)
  | m, [] :: rs => specRows o D m rs

/-- the loop of `read_csv` over data records that fit the columns already established -/
theorem fold_rows (cfg : Cfg) (o : NumOracle F) (outIdx : Option Nat) (hasHdr : Bool)
    (SK : List (Str × Dom)) : ∀ (rows : List (List Str)) (st : St F),
    skel st.df.cols = SK → VoidClean st.df.cols →
    (∀ r ∈ rows, (∀ k, outIdx = some k → k < r.length) ∧ RowOK o (SK.map (·.2)) (prep outIdx r)) →
    (!hasHdr || st.count != 0) = true →
    ∃ st', rows.foldlM (csvStep cfg o outIdx hasHdr) st = .ok st' ∧
      skel st'.df.cols = SK ∧ VoidClean st'.df.cols ∧
      st'.df.classes = (specRows o (SK.map (·.2)) st.df.classes (rows.map (prep outIdx))).1 ∧
      st'.df.examples = st.df.examples ++ (specRows o (SK.map (·.2)) st.df.classes (rows.map (prep outIdx))).2 ∧
      st'.count = st.count + rows.length := by
  intro rows
  induction rows with
  | nil =>
    intro st hsk hv _ _
    exact ⟨st, rfl, hsk, hv, by simp [specRows], by simp [specRows], by simp⟩
  | cons r rows ih =>
    intro st hsk hv hall hdata
    obtain ⟨hk, hrow⟩ := hall r (by simp)
    have hdoms : st.df.cols.map (·.dom) = SK.map (·.2) := by rw [skel_doms, hsk]
    have hlen := rowOK_length o _ _ hrow
    have hne : st.df.cols ≠ [] := by
      intro h
      rw [h] at hdoms
      rw [← hdoms] at hrow
      simp [RowOK] at hrow
    have hstable : Stable (st.df.cols.map (·.dom)) (prep outIdx r) := by
      rw [hdoms]
      cases hD : SK.map (·.2) with
      | nil => rw [hD] at hrow; simp [RowOK] at hrow
      | cons d ds =>
        cases hr : prep outIdx r with
        | nil => rw [hD, hr] at hrow; simp [RowOK] at hrow
        | cons v vs => rw [hD, hr] at hrow; exact hrow.2.2
    have hbuild : (if st.count < 10 then build cfg o st.df.cols (prep outIdx r) hasHdr else pure st.df.cols)
        = .ok st.df.cols := by
      split
      · exact build_stable cfg o _ _ _ hne (by rw [hlen, ← hdoms]; simp) hstable
      · rfl
    obtain ⟨cols', c0, v0, vs, hc0, hpr, hstep, hsk', hvc'⟩ :=
      csvStep_data cfg o outIdx hasHdr st r st.df.cols hk hbuild hdata (by rw [hdoms]; exact hrow) hv
    obtain ⟨st', hfold, h1, h2, h3, h4, h5⟩ := ih
      { df := { cols := cols', classes := (outVal o st.df.classes c0 v0).snd,
                examples := st.df.examples ++
                  [{ input := inputVals o (List.map (fun x => x.dom) st.df.cols).tail vs,
                     output := (outVal o st.df.classes c0 v0).fst }] },
        count := st.count + 1 }
      (by rw [← hsk]; exact hsk') hvc'
      (fun r' hr' => hall r' (by simp [hr'])) (by simp)
    refine ⟨st', ?_, h1, h2, ?_, ?_, ?_⟩
    · simp only [List.foldlM, hstep, bind, Except.bind]
      exact hfold
    · rw [h3]
      simp only [List.map, hpr, specRows]
      rw [hdoms] at hc0
      rw [hc0]; simp [outDom_cons]
    · rw [h4]
      simp only [List.map, hpr, specRows]
      rw [hdoms] at hc0
      rw [hc0]; simp [hdoms, outDom_cons]
    · rw [h5]; simp; omega

end Vita.C09
