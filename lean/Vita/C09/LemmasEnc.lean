/-
  C09 — the class map (`encode`, `class_name`): ids are the positions, labels are distinct.
-/
import Vita.C09.LemmasDf

namespace Vita.C09

/-- invariant of `classes_map_`: the ids are 0, 1, 2, … in order of insertion and no label
    occurs twice -/
def ClassInv (m : ClassMap) : Prop :=
  m.map (·.2) = List.range m.length ∧ (m.map (·.1)).Nodup

theorem classInv_nil : ClassInv [] := ⟨rfl, List.nodup_nil⟩

theorem nodup_map_inj {α β} [DecidableEq β] (f : α → β) : ∀ (l : List α), (l.map f).Nodup →
    ∀ x ∈ l, ∀ y ∈ l, f x = f y → x = y := by
  intro l
  induction l with
  | nil => intro _ x hx; cases hx
  | cons a l ih =>
    intro hn x hx y hy hf
    simp only [List.map, List.nodup_cons, List.mem_map, not_exists, not_and] at hn
    simp only [List.mem_cons] at hx hy
    rcases hx with rfl | hx <;> rcases hy with rfl | hy
    · rfl
    · exact absurd hf.symm (hn.1 y hy)
    · exact absurd hf (hn.1 x hx)
    · exact ih hn.2 x hx y hy hf

theorem lookup_some_mem (m : ClassMap) (l : Str) (i : Nat) (h : lookup m l = some i) : (l, i) ∈ m := by
  unfold lookup at h
  cases hf : m.find? (fun p => p.1 == l) with
  | none => simp [hf] at h
  | some p =>
    simp only [hf, Option.map_some, Option.some.injEq] at h
    have hp := List.find?_some hf
    have hm := List.mem_of_find?_eq_some hf
    simp only [beq_iff_eq] at hp
    obtain ⟨a, b⟩ := p
    simp only at hp h
    subst hp; subst h
    exact hm

theorem lookup_none_not_mem (m : ClassMap) (l : Str) (h : lookup m l = none) : l ∉ m.map (·.1) := by
  unfold lookup at h
  simp only [Option.map_eq_none_iff, List.find?_eq_none, beq_iff_eq] at h
  intro hm
  simp only [List.mem_map] at hm
  obtain ⟨p, hp, hl⟩ := hm
  exact h p hp hl

theorem lookup_of_mem (m : ClassMap) (hinv : ClassInv m) (l : Str) (i : Nat) (h : (l, i) ∈ m) :
    lookup m l = some i := by
  unfold lookup
  cases hf : m.find? (fun p => p.1 == l) with
  | none =>
    rw [List.find?_eq_none] at hf
    have := hf (l, i) h
    simp at this
  | some p =>
    have hp := List.find?_some hf
    have hm := List.mem_of_find?_eq_some hf
    simp only [beq_iff_eq] at hp
    have : p = (l, i) := nodup_map_inj (·.1) m hinv.2 p hm (l, i) h hp
    simp [this]

theorem id_lt_of_mem (m : ClassMap) (hinv : ClassInv m) (l : Str) (i : Nat) (h : (l, i) ∈ m) :
    i < m.length := by
  have : i ∈ m.map (·.2) := List.mem_map.2 ⟨(l, i), h, rfl⟩
  rw [hinv.1] at this
  exact List.mem_range.1 this

theorem encode_inv (m : ClassMap) (hinv : ClassInv m) (l : Str) : ClassInv (encode m l).2 := by
  unfold encode
  cases h : lookup m l with
  | some i => exact hinv
  | none =>
    have hn := lookup_none_not_mem m l h
    constructor
    · simp only [List.map_append, List.map, List.length_append, List.length_cons, List.length_nil,
        List.range_succ, hinv.1]
    · simp only [List.map_append, List.map]
      rw [List.nodup_append]
      refine ⟨hinv.2, by simp, ?_⟩
      intro a ha b hb
      simp only [List.mem_singleton] at hb
      subst hb
      intro hab; subst hab; exact hn ha

theorem encode_mem (m : ClassMap) (l : Str) : (l, (encode m l).1) ∈ (encode m l).2 := by
  unfold encode
  cases h : lookup m l with
  | some i => exact lookup_some_mem m l i h
  | none => simp

theorem encode_grow (m : ClassMap) (l : Str) : ∃ t, (encode m l).2 = m ++ t := by
  unfold encode
  cases h : lookup m l with
  | some i => exact ⟨[], by simp⟩
  | none => exact ⟨_, rfl⟩

theorem className_of_mem (m : ClassMap) (hinv : ClassInv m) (l : Str) (i : Nat) (h : (l, i) ∈ m) :
    className m i = l := by
  unfold className
  cases hf : m.find? (fun p => p.2 == i) with
  | none =>
    rw [List.find?_eq_none] at hf
    have := hf (l, i) h
    simp at this
  | some p =>
    have hp := List.find?_some hf
    have hm := List.mem_of_find?_eq_some hf
    simp only [beq_iff_eq] at hp
    have hnd : (m.map (·.2)).Nodup := by rw [hinv.1]; exact List.nodup_range
    have : p = (l, i) := nodup_map_inj (·.2) m hnd p hm (l, i) h hp
    simp [this]

end Vita.C09
