/-
  C09 — histories on one dataframe object (History.lean): the readers that take the prior state are the
  readers of Model.lean on a fresh object; on a prior state with a compatible schema the loop of
  `read_csv` / `read_xrff` produces exactly the rows of the table, with the class map continued.
-/
import Vita.C09.History
import Vita.C09.LemmasXrff
import Vita.C09.LemmasCat

namespace Vita.C09

variable {F : Type}

/-! ### `csvStepFrom` is `csvStep` except on the header record of a dataframe that has its columns -/

theorem csvProceedFrom_eq (cfg : Cfg) (o : NumOracle F) (hasHdr : Bool) (st : St F) (rec' : List Str)
    (h : hasHdr = false ∨ st.count ≠ 0 ∨ st.df.cols = []) :
    csvProceedFrom cfg o hasHdr st rec' = csvProceed cfg o hasHdr st rec' := by
  unfold csvProceedFrom
  rcases h with h | h | h
  · simp [h]
  · have : (st.count == 0) = false := by simpa using h
    simp [this]
  · simp [h]

theorem csvStepFrom_eq (cfg : Cfg) (o : NumOracle F) (outIdx : Option Nat) (hasHdr : Bool) (st : St F)
    (r : List Str) (h : hasHdr = false ∨ st.count ≠ 0 ∨ st.df.cols = []) :
    csvStepFrom cfg o outIdx hasHdr st r = csvStep cfg o outIdx hasHdr st r := by
  unfold csvStepFrom csvStep
  cases outIdx with
  | none => exact csvProceedFrom_eq cfg o hasHdr st _ h
  | some k =>
    simp only []
    split
    · rfl
    · cases hr : rotate? .rotateCsv r k with
      | error e => rfl
      | ok rec' =>
        simp only [bind, Except.bind]
        exact csvProceedFrom_eq cfg o hasHdr st _ h

/-- a step of the loop either skips the record or counts it -/
theorem csvStep_next (cfg : Cfg) (o : NumOracle F) (outIdx : Option Nat) (hasHdr : Bool) (st st' : St F)
    (r : List Str) (h : csvStep cfg o outIdx hasHdr st r = .ok st') : st' = st ∨ st'.count = st.count + 1 := by
  have hproc : ∀ rec', csvProceed cfg o hasHdr st rec' = .ok st' → st'.count = st.count + 1 := by
    intro rec' h
    unfold csvProceed at h
    obtain ⟨cols, _, h⟩ := bind_ok h
    obtain ⟨df', _, h⟩ := bind_ok h
    simp only [pure, Except.pure, Except.ok.injEq] at h
    subst h
    rfl
  unfold csvStep at h
  split at h
  · split at h
    · simp only [pure, Except.pure, Except.ok.injEq] at h; exact Or.inl h.symm
    · next k _ =>
      cases hr : rotate? .rotateCsv r k with
      | error e => simp [hr, bind, Except.bind] at h
      | ok rec' =>
        simp only [hr, bind, Except.bind] at h
        exact Or.inr (hproc rec' h)
  · exact Or.inr (hproc _ h)

theorem foldFrom_eq (cfg : Cfg) (o : NumOracle F) (outIdx : Option Nat) (hasHdr : Bool) :
    ∀ (recs : List (List Str)) (st : St F), (hasHdr = false ∨ st.count ≠ 0 ∨ st.df.cols = []) →
    recs.foldlM (csvStepFrom cfg o outIdx hasHdr) st = recs.foldlM (csvStep cfg o outIdx hasHdr) st := by
  intro recs
  induction recs with
  | nil => intro st _; rfl
  | cons r recs ih =>
    intro st h
    simp only [List.foldlM, csvStepFrom_eq cfg o outIdx hasHdr st r h]
    cases hs : csvStep cfg o outIdx hasHdr st r with
    | error e => rfl
    | ok st' =>
      simp only [bind, Except.bind]
      apply ih
      rcases csvStep_next cfg o outIdx hasHdr st st' r hs with rfl | hc
      · exact h
      · right; left; omega

/-- on a freshly constructed dataframe the reader with a prior state is the reader of Model.lean -/
theorem readCsvRecsFrom_fresh (cfg : Cfg) (o : NumOracle F) (outIdx : Option Nat) (hasHdr : Bool)
    (recs : List (List Str)) :
    readCsvRecsFrom cfg o outIdx hasHdr ({} : DF F) recs = readCsvRecs cfg o outIdx hasHdr recs := by
  unfold readCsvRecsFrom readCsvRecs
  rw [foldFrom_eq cfg o outIdx hasHdr recs _ (Or.inr (Or.inr rfl))]
  rfl

theorem readCsvFrom_fresh (cfg : Cfg) (o : NumOracle F) (p : Params) (bytes : Str) :
    readCsvFrom cfg o p ({} : DF F) bytes = readCsv cfg o p bytes := by
  unfold readCsvFrom readCsv
  simp only [readCsvRecsFrom_fresh]

theorem readXrffHFrom_fresh (cfg : Cfg) (o : NumOracle F) (hook : Hook) (doc : XDoc) :
    readXrffHFrom cfg o hook ({} : DF F) doc = readXrffH cfg o hook doc := by
  cases doc with
  | parseError => rfl
  | noAttributes => rfl
  | doc attrs instances =>
    simp only [readXrffHFrom, readXrffH]
    have : (if cfg.guards = true then ([] : List Col) else ({} : DF F).cols) = [] := by split <;> rfl
    rw [this]
    rfl

/-- after the fix `read_xrff` looks at the class map of the prior state only -/
theorem readXrffHFrom_classes (cfg : Cfg) (hg : cfg.guards = true) (o : NumOracle F) (hook : Hook) (prior : DF F)
    (doc : XDoc) :
    readXrffHFrom cfg o hook prior doc = readXrffHFrom cfg o hook ({ classes := prior.classes } : DF F) doc := by
  cases doc with
  | parseError => rfl
  | noAttributes => rfl
  | doc attrs instances => simp only [readXrffHFrom, hg, if_true]

/-! ### validity of what `specRows` produces, starting from any class map -/

theorem isValid_spec_from (df : DF F) (o : NumOracle F) (D : List Dom) (m : ClassMap) (rows' : List (List Str))
    (hrows : ∀ r' ∈ rows', RowOKx o D r') (hinv : ClassInv m)
    (hcls : (Regr o D rows' ∧ m = []) ∨ (Classif o D rows' ∧ (specRows o D m rows').1.length ≠ 1))
    (hex : df.examples = (specRows o D m rows').2) (hcl : df.classes = (specRows o D m rows').1)
    (hv : VoidClean df.cols) : isValid df = .ok true ∧ df.examples.length = rows'.length := by
  obtain ⟨hin, hlen⟩ := specRows_inputs o D rows' m hrows
  refine ⟨?_, by rw [hex, hlen]⟩
  cases hes : df.examples with
  | nil => simp [isValid, hes, pure, Except.pure]
  | cons e0 es =>
    have he0 : e0.input.length = (D.tail.filter (fun d => d ≠ .void)).length :=
      hin e0 (by rw [← hex, hes]; simp)
    unfold isValid
    simp only [hes]
    rcases hcls with ⟨hr, hm⟩ | ⟨hc, hn1⟩
    · have : df.classes = [] := by rw [hcl, specRows_regr o D rows' m hr, hm]
      simp only [this, List.length_nil, Nat.zero_ne_one, if_false, bind, Except.bind]
      rw [examplesValid_regr e0.input.length (e0 :: es)
        (fun e he => by rw [he0]; exact hin e (by rw [← hex, hes]; exact he))]
      simp [pure, Except.pure, colsValid_of_voidClean _ hv]
    · obtain ⟨_, _, hids⟩ := specRows_classif o D rows' m hinv hc
      rw [← hcl] at hn1
      simp only [hn1, if_false, bind, Except.bind]
      rw [examplesValid_classif df.classes.length e0.input.length (e0 :: es)
        (fun e he => by
          have hm : e ∈ (specRows o D m rows').2 := by rw [← hex, hes]; exact he
          refine ⟨by rw [he0]; exact hin e hm, ?_⟩
          rw [hcl]; exact hids e hm)]
      simp [pure, Except.pure, colsValid_of_voidClean _ hv]

/-! ### `read_csv` into a dataframe that has its columns -/

/-- the header record of a table read into a dataframe that has its columns: nothing happens to the
    dataframe (code after the fix) -/
theorem csvStepFrom_header (cfg : Cfg) (hg : cfg.guards = true) (o : NumOracle F) (outIdx : Option Nat)
    (df : DF F) (hne : df.cols ≠ []) (h : List Str) (hk : ∀ k, outIdx = some k → k < h.length) :
    csvStepFrom cfg o outIdx true ({ df := df, count := 0 } : St F) h = .ok { df := df, count := 1 } := by
  have hemp : df.cols.isEmpty = false := by cases hc : df.cols <;> simp_all
  have hp : ∀ h' : List Str, csvProceedFrom cfg o true ({ df := df, count := 0 } : St F) h' =
      .ok { df := df, count := 1 } := by
    intro h'
    simp [csvProceedFrom, hg, hemp, pure, Except.pure]
  cases ho : outIdx with
  | none => simp only [csvStepFrom]; exact hp _
  | some k =>
    have hlt := hk k ho
    have hgd : (cfg.guards && decide (k ≥ h.length)) = false := by
      simp; intro _; omega
    simp only [csvStepFrom, hgd, Bool.false_eq_true, if_false, rotate?_ok _ h k hlt, bind, Except.bind]
    exact hp _

/-- `read_csv` on the records of a well-formed table, into a dataframe whose columns have the domains `D`
    the rows fit (code after the fix) -/
theorem readCsvRecsFrom_faithful (cfg : Cfg) (hg : cfg.guards = true) (o : NumOracle F) (outIdx : Option Nat)
    (prior : DF F) (hdr : Option (List Str)) (rows : List (List Str))
    (hne : prior.cols ≠ []) (hvc : VoidClean prior.cols) (hinv : ClassInv prior.classes) (hrne : rows ≠ [])
    (hk : ∀ r ∈ hdr.toList ++ rows, ∀ k, outIdx = some k → k < r.length)
    (hrows : ∀ r ∈ rows, RowOK o (prior.cols.map (·.dom)) (prep outIdx r))
    (hcls : (Regr o (prior.cols.map (·.dom)) (rows.map (prep outIdx)) ∧ prior.classes = []) ∨
            (Classif o (prior.cols.map (·.dom)) (rows.map (prep outIdx)) ∧
             (specRows o (prior.cols.map (·.dom)) prior.classes (rows.map (prep outIdx))).1.length ≠ 1)) :
    ∃ df, readCsvRecsFrom cfg o outIdx hdr.isSome prior (hdr.toList ++ rows) = .ok df ∧
      df.examples = (specRows o (prior.cols.map (·.dom)) prior.classes (rows.map (prep outIdx))).2 ∧
      df.classes = (specRows o (prior.cols.map (·.dom)) prior.classes (rows.map (prep outIdx))).1 ∧
      skel df.cols = skel prior.cols ∧ VoidClean df.cols := by
  have hD : (skel prior.cols).map (·.2) = prior.cols.map (·.dom) := (skel_doms prior.cols).symm
  have hall : ∀ r ∈ rows, (∀ k, outIdx = some k → k < r.length) ∧
      RowOK o ((skel prior.cols).map (·.2)) (prep outIdx r) :=
    fun r hr => ⟨hk r (by simp [hr]), by rw [hD]; exact hrows r hr⟩
  -- the loop over the data rows, from the state the header leaves
  have hloop : ∀ c : Nat, (!hdr.isSome || c != 0) = true →
      ∃ st', rows.foldlM (csvStepFrom cfg o outIdx hdr.isSome) ({ df := prior.cleared, count := c } : St F) = .ok st' ∧
        skel st'.df.cols = skel prior.cols ∧ VoidClean st'.df.cols ∧
        st'.df.classes = (specRows o (prior.cols.map (·.dom)) prior.classes (rows.map (prep outIdx))).1 ∧
        st'.df.examples = (specRows o (prior.cols.map (·.dom)) prior.classes (rows.map (prep outIdx))).2 := by
    intro c hc
    have hcond : hdr.isSome = false ∨ c ≠ 0 ∨ prior.cleared.cols = [] := by
      cases hh : hdr.isSome with
      | false => exact Or.inl rfl
      | true => right; left; simpa [hh] using hc
    rw [foldFrom_eq cfg o outIdx hdr.isSome rows _ hcond]
    obtain ⟨st', hf, i1, i2, i3, i4, _⟩ := fold_rows cfg o outIdx hdr.isSome (skel prior.cols) rows
      ({ df := prior.cleared, count := c } : St F) rfl hvc hall hc
    rw [hD] at i3 i4
    exact ⟨st', hf, i1, i2, i3, by simpa [DF.cleared] using i4⟩
  have hfin : ∀ st' : St F,
      (hdr.toList ++ rows).foldlM (csvStepFrom cfg o outIdx hdr.isSome) ({ df := prior.cleared, count := 0 } : St F) = .ok st' →
      VoidClean st'.df.cols →
      st'.df.classes = (specRows o (prior.cols.map (·.dom)) prior.classes (rows.map (prep outIdx))).1 →
      st'.df.examples = (specRows o (prior.cols.map (·.dom)) prior.classes (rows.map (prep outIdx))).2 →
      readCsvRecsFrom cfg o outIdx hdr.isSome prior (hdr.toList ++ rows) = .ok st'.df := by
    intro st' hf hv hc he
    obtain ⟨hval, hlen⟩ := isValid_spec_from st'.df o _ prior.classes _
      (fun r' hr' => by
        simp only [List.mem_map] at hr'
        obtain ⟨r, hr, rfl⟩ := hr'
        exact rowOK_x o _ _ (hrows r hr)) hinv hcls he hc hv
    have hnem : st'.df.examples.isEmpty = false := by
      cases hes : st'.df.examples with
      | nil =>
        rw [hes] at hlen
        cases rows with
        | nil => exact absurd rfl hrne
        | cons a b => simp at hlen
      | cons a b => rfl
    unfold readCsvRecsFrom
    simp only [hf, bind, Except.bind, hval, hnem, Bool.not_true, Bool.or_self, Bool.false_eq_true,
      if_false, pure, Except.pure]
  cases hdr with
  | none =>
    obtain ⟨st', hf, i1, i2, i3, i4⟩ := hloop 0 (by simp)
    exact ⟨st'.df, hfin st' (by simpa using hf) i2 i3 i4, i4, i3, i1, i2⟩
  | some h =>
    obtain ⟨st', hf, i1, i2, i3, i4⟩ := hloop 1 (by simp)
    have hstep := csvStepFrom_header cfg hg o outIdx prior.cleared (by simpa [DF.cleared] using hne) h
      (hk h (by simp))
    have hf' : ([h] ++ rows).foldlM (csvStepFrom cfg o outIdx true) ({ df := prior.cleared, count := 0 } : St F)
        = .ok st' := by
      simp only [List.singleton_append, List.foldlM, hstep, bind, Except.bind]
      exact hf
    exact ⟨st'.df, hfin st' (by simpa using hf') i2 i3 i4, i4, i3, i1, i2⟩

/-! ### `read_xrff` into a dataframe that already holds data -/

theorem foldl_xInstStepH_some (cfg : Cfg) (o : NumOracle F) (k : Nat) (insts : List (List Str)) (df : DF F) :
    insts.foldlM (xInstStepH cfg o some k) df = insts.foldlM (xInstStep cfg o (fun _ => true) k) df := by
  rw [← ofPred_true]
  exact foldlM_congr _ _ (fun b a => xInstStepH_ofPred cfg o (fun _ => true) k b a) insts df

/-- `read_xrff` (code after the fix) on a dataframe in any state: the header decides the columns -/
theorem xheader_fold_from (cfg : Cfg) (hg : cfg.guards = true) (o : NumOracle F) (hook : Hook) (prior : DF F)
    (h : XHeader) (hwf : h.WF) (insts : List (List Str)) :
    readXrffHFrom cfg o hook prior (.doc h.attrs (some insts)) =
      (insts.foldlM (xInstStepH cfg o hook h.k) ({ cols := h.cols, classes := prior.classes } : DF F) >>= fun df =>
       isValid df >>= fun v =>
       if cfg.guards && !v then throw (.exc .insufficientData)
       else pure (df, if v then df.examples.length else 0)) := by
  cases h with
  | explicit pre a post =>
    obtain ⟨h1, h2, h3⟩ := hwf
    simp only [readXrffHFrom, hg, if_true, XHeader.attrs, xattrs_fold_class pre post a h1 h3 h2, bind, Except.bind,
      List.isEmpty_cons, Bool.false_eq_true, if_false, Nat.succ_ne_zero, XHeader.k, XHeader.cols]
  | default init last =>
    obtain ⟨h1, h2⟩ := hwf
    have hall : ∀ x ∈ init ++ [last], x.cls = false := by
      intro x hx
      simp only [List.mem_append, List.mem_singleton] at hx
      rcases hx with hx | rfl
      · exact h1 x hx
      · exact h2
    have hne : (List.map colOf (init ++ [last])).isEmpty = false := by simp
    simp only [readXrffHFrom, hg, if_true, XHeader.attrs, xattrs_fold_plain _ {} hall, bind, Except.bind,
      List.nil_append, hne, Bool.false_eq_true, if_false, XHeader.k, XHeader.cols, Nat.zero_add]
    simp

/-- `read_xrff` on the instances of a well-formed document, into a dataframe in state `prior`: the
    examples are exactly those of the document, the class map is continued -/
theorem readXrffHFrom_faithful (cfg : Cfg) (hg : cfg.guards = true) (o : NumOracle F) (hook : Hook) (prior : DF F)
    (hinv : ClassInv prior.classes) (h : XHeader) (hwf : h.WF) (insts : List (List Str))
    (hrows : ∀ r ∈ insts.filterMap hook, h.k < r.length ∧ RowOKx o (h.cols.map (·.dom)) (rot r h.k))
    (hcls : (Regr o (h.cols.map (·.dom)) ((insts.filterMap hook).map (fun r => rot r h.k)) ∧ prior.classes = []) ∨
            (Classif o (h.cols.map (·.dom)) ((insts.filterMap hook).map (fun r => rot r h.k)) ∧
             (specRows o (h.cols.map (·.dom)) prior.classes ((insts.filterMap hook).map (fun r => rot r h.k))).1.length ≠ 1)) :
    ∃ df, readXrffHFrom cfg o hook prior (.doc h.attrs (some insts)) = .ok (df, (insts.filterMap hook).length) ∧
      df.examples = (specRows o (h.cols.map (·.dom)) prior.classes ((insts.filterMap hook).map (fun r => rot r h.k))).2 ∧
      df.classes = (specRows o (h.cols.map (·.dom)) prior.classes ((insts.filterMap hook).map (fun r => rot r h.k))).1 ∧
      skel df.cols = skel h.cols ∧ VoidClean df.cols := by
  have hD : (skel h.cols).map (·.2) = h.cols.map (·.dom) := (skel_doms h.cols).symm
  have hT : ∀ l : List (List Str), l.filter (fun _ => true) = l := fun l => by simp
  obtain ⟨df, hfold, i1, i2, i3, i4⟩ := fold_insts cfg o (fun _ => true) h.k (skel h.cols) (insts.filterMap hook)
    ({ cols := h.cols, classes := prior.classes } : DF F) rfl (xheader_voidClean h)
    (fun r hr => by rw [hD]; rw [hT] at hr; exact hrows r hr)
  rw [hD, hT] at i3 i4
  simp only [List.nil_append] at i4
  obtain ⟨hval, hlen⟩ := isValid_spec_from df o _ prior.classes _
    (fun r' hr' => by
      simp only [List.mem_map] at hr'
      obtain ⟨r, hr, rfl⟩ := hr'
      exact (hrows r hr).2) hinv hcls i4 i3 i2
  refine ⟨df, ?_, i4, i3, i1, i2⟩
  rw [xheader_fold_from cfg hg o hook prior h hwf insts, foldl_xInstStepH cfg o hook h.k insts,
    foldl_xInstStepH_some]
  simp only [hfold, bind, Except.bind, hval, Bool.not_true, Bool.and_false, Bool.false_eq_true, if_false,
    if_true, pure, Except.pure, hlen, List.length_map]

/-! ### invariants of the state of the object, for every input

  Whatever is read – well-formed or not – the class map of the object keeps ids = positions and distinct
  labels (`ClassInv`), and labels keep the id they have: the class map only grows at the end. -/

/-- `m'` continues `m` -/
def Extends (m m' : ClassMap) : Prop := ∃ t, m' = m ++ t

theorem Extends.refl (m : ClassMap) : Extends m m := ⟨[], by simp⟩

theorem Extends.trans {a b c : ClassMap} (h1 : Extends a b) (h2 : Extends b c) : Extends a c := by
  obtain ⟨t1, rfl⟩ := h1
  obtain ⟨t2, rfl⟩ := h2
  exact ⟨t1 ++ t2, by simp⟩

/-- the two facts about the class map that every step preserves -/
def ClsStep (m m' : ClassMap) : Prop := (ClassInv m → ClassInv m') ∧ Extends m m'

theorem ClsStep.refl (m : ClassMap) : ClsStep m m := ⟨id, Extends.refl m⟩

theorem ClsStep.trans {a b c : ClassMap} (h1 : ClsStep a b) (h2 : ClsStep b c) : ClsStep a c :=
  ⟨fun h => h2.1 (h1.1 h), h1.2.trans h2.2⟩

theorem readRecord_cls (o : NumOracle F) (df df' : DF F) (r : List Str) (add : Bool)
    (h : readRecord o df r add = .ok df') : ClsStep df.classes df'.classes := by
  unfold readRecord at h
  split at h
  · simp only [pure, Except.pure, Except.ok.injEq] at h; subst h; exact ClsStep.refl _
  · cases ht : toExample o df r add with
    | error e => simp [ht, bind, Except.bind] at h
    | ok q =>
      obtain ⟨df1, e⟩ := q
      simp only [ht, bind, Except.bind, pure, Except.pure, Except.ok.injEq] at h
      subst h
      simp only []
      unfold toExample at ht
      split at ht
      · next c0 cs v0 vs hc hv =>
        cases ho : outputOf o df.classes c0 v0 add with
        | error e => simp [ho, bind, Except.bind] at ht
        | ok ro =>
          cases hi : inputsGo o add cs vs with
          | error e => simp [ho, hi, bind, Except.bind] at ht
          | ok q =>
            simp only [ho, hi, bind, Except.bind, pure, Except.pure, Except.ok.injEq, Prod.mk.injEq] at ht
            obtain ⟨rfl, _⟩ := ht
            simp only []
            unfold outputOf at ho
            split at ho
            · simp only [pure, Except.pure, Except.ok.injEq] at ho; subst ho; exact ClsStep.refl _
            · split at ho
              · simp only [pure, Except.pure, Except.ok.injEq] at ho; subst ho
                exact ⟨fun hi => encode_inv _ hi _, encode_grow _ _⟩
              · cases hcv : convert o c0.dom (trim v0) with
                | error e => simp [hcv, bind, Except.bind] at ho
                | ok x =>
                  simp only [hcv, bind, Except.bind, pure, Except.pure, Except.ok.injEq] at ho; subst ho
                  exact ClsStep.refl _
      · simp only [pure, Except.pure, Except.ok.injEq, Prod.mk.injEq] at ht
        obtain ⟨rfl, _⟩ := ht
        exact ClsStep.refl _

theorem csvStep_cls (cfg : Cfg) (o : NumOracle F) (outIdx : Option Nat) (hasHdr : Bool) (st st' : St F)
    (r : List Str) (h : csvStep cfg o outIdx hasHdr st r = .ok st') : ClsStep st.df.classes st'.df.classes := by
  have hproc : ∀ rec', csvProceed cfg o hasHdr st rec' = .ok st' → ClsStep st.df.classes st'.df.classes := by
    intro rec' h
    unfold csvProceed at h
    obtain ⟨cols, _, h⟩ := bind_ok h
    obtain ⟨df', hr, h⟩ := bind_ok h
    simp only [pure, Except.pure, Except.ok.injEq] at h
    subst h
    simp only []
    split at hr
    · have hrr := readRecord_cls o _ df' rec' true hr
      exact hrr
    · simp only [pure, Except.pure, Except.ok.injEq] at hr; subst hr; exact ClsStep.refl _
  unfold csvStep at h
  split at h
  · split at h
    · simp only [pure, Except.pure, Except.ok.injEq] at h; subst h; exact ClsStep.refl _
    · next k _ =>
      cases hr : rotate? .rotateCsv r k with
      | error e => simp [hr, bind, Except.bind] at h
      | ok rec' =>
        simp only [hr, bind, Except.bind] at h
        exact hproc rec' h
  · exact hproc _ h

theorem csvStepFrom_cls (cfg : Cfg) (o : NumOracle F) (outIdx : Option Nat) (hasHdr : Bool) (st st' : St F)
    (r : List Str) (h : csvStepFrom cfg o outIdx hasHdr st r = .ok st') : ClsStep st.df.classes st'.df.classes := by
  by_cases hc : hasHdr = false ∨ st.count ≠ 0 ∨ st.df.cols = []
  · rw [csvStepFrom_eq cfg o outIdx hasHdr st r hc] at h
    exact csvStep_cls cfg o outIdx hasHdr st st' r h
  · -- the header record of a dataframe that has its columns: the step changes the count only, or it is `csvStep`
    have hproc : ∀ rec', csvProceedFrom cfg o hasHdr st rec' = .ok st' → ClsStep st.df.classes st'.df.classes := by
      intro rec' h
      unfold csvProceedFrom at h
      split at h
      · simp only [pure, Except.pure, Except.ok.injEq] at h; subst h; exact ClsStep.refl _
      · unfold csvProceed at h
        obtain ⟨cols, _, h⟩ := bind_ok h
        obtain ⟨df', hr, h⟩ := bind_ok h
        simp only [pure, Except.pure, Except.ok.injEq] at h
        subst h
        simp only []
        split at hr
        · have hrr := readRecord_cls o _ df' rec' true hr
          exact hrr
        · simp only [pure, Except.pure, Except.ok.injEq] at hr; subst hr; exact ClsStep.refl _
    unfold csvStepFrom at h
    split at h
    · split at h
      · simp only [pure, Except.pure, Except.ok.injEq] at h; subst h; exact ClsStep.refl _
      · next k _ =>
        cases hr : rotate? .rotateCsv r k with
        | error e => simp [hr, bind, Except.bind] at h
        | ok rec' =>
          simp only [hr, bind, Except.bind] at h
          exact hproc rec' h
    · exact hproc _ h

theorem foldlM_rel {α β ε : Type} (R : β → β → Prop) (hrefl : ∀ b, R b b) (htrans : ∀ a b c, R a b → R b c → R a c)
    (f : β → α → Except ε β) (hf : ∀ b a b', f b a = .ok b' → R b b') :
    ∀ (l : List α) (b b' : β), l.foldlM f b = .ok b' → R b b' := by
  intro l
  induction l with
  | nil => intro b b' h; simp only [List.foldlM, pure, Except.pure, Except.ok.injEq] at h; exact h ▸ hrefl b
  | cons a l ih =>
    intro b b' h
    simp only [List.foldlM] at h
    cases hfa : f b a with
    | error e => simp [hfa, bind, Except.bind] at h
    | ok b1 =>
      simp only [hfa, bind, Except.bind] at h
      exact htrans _ _ _ (hf b a b1 hfa) (ih b1 b' h)

/-- every successful `read_csv`, on any bytes, into a dataframe in any state: the class map is continued
    and stays well-formed -/
theorem readCsvFrom_cls (cfg : Cfg) (o : NumOracle F) (p : Params) (prior df : DF F) (bytes : Str)
    (h : readCsvFrom cfg o p prior bytes = .ok df) : ClsStep prior.classes df.classes := by
  unfold readCsvFrom readCsvRecsFrom at h
  simp only [] at h
  generalize records _ _ _ = recs at h
  generalize (resolveDialect cfg o p (splitLines bytes)).2 = hh at h
  obtain ⟨st, hf, h⟩ := bind_ok h
  have hst := foldlM_rel (fun a b : St F => ClsStep a.df.classes b.df.classes) (fun b => ClsStep.refl _)
    (fun a b c h1 h2 => h1.trans h2) _ (fun b a b' hfa => csvStepFrom_cls cfg o p.outIdx hh b b' a hfa) recs _ st hf
  obtain ⟨v, _, h⟩ := bind_ok h
  split at h
  · cases h
  · simp only [pure, Except.pure, Except.ok.injEq] at h; subst h; exact hst

theorem readXrffHFrom_cls (cfg : Cfg) (o : NumOracle F) (hook : Hook) (prior df : DF F) (doc : XDoc) (n : Nat)
    (h : readXrffHFrom cfg o hook prior doc = .ok (df, n)) : ClsStep prior.classes df.classes := by
  cases doc with
  | parseError => cases h
  | noAttributes => cases h
  | doc attrs instances =>
    simp only [readXrffHFrom] at h
    obtain ⟨st, _, h⟩ := bind_ok h
    split at h
    · cases h
    · cases instances with
      | none => cases h
      | some insts =>
        simp only [] at h
        obtain ⟨df', hfold, h⟩ := bind_ok h
        have hdf := foldlM_rel (fun a b : DF F => ClsStep a.classes b.classes) (fun b => ClsStep.refl _)
          (fun a b c h1 h2 => h1.trans h2) _
          (fun b a b' hfa => by
            unfold xInstStepH at hfa
            split at hfa
            · simp only [pure, Except.pure, Except.ok.injEq] at hfa; subst hfa; exact ClsStep.refl _
            · obtain ⟨rec', _, hfa⟩ := bind_ok hfa
              exact readRecord_cls o b b' rec' false hfa)
          insts _ df' hfold
        obtain ⟨v, _, h⟩ := bind_ok h
        split at h
        · cases h
        · simp only [pure, Except.pure, Except.ok.injEq, Prod.mk.injEq] at h
          obtain ⟨rfl, _⟩ := h
          exact hdf

/-- every call of a history -/
theorem hop_cls (cfg : Cfg) (o : NumOracle F) (op : HOp) (prior df : DF F) (n : Nat)
    (h : op.run cfg o prior = .ok (df, n)) : ClsStep prior.classes df.classes := by
  cases op with
  | csv p bytes =>
    simp only [HOp.run] at h
    obtain ⟨d, hd, h⟩ := bind_ok h
    simp only [pure, Except.pure, Except.ok.injEq, Prod.mk.injEq] at h
    obtain ⟨rfl, _⟩ := h
    exact readCsvFrom_cls cfg o p prior d bytes hd
  | xrff hook doc => exact readXrffHFrom_cls cfg o hook prior df doc n h
  | file p ext bytes doc =>
    simp only [HOp.run, readFileFrom] at h
    split at h
    · exact readXrffHFrom_cls cfg o p.hook prior df doc n h
    · obtain ⟨d, hd, h⟩ := bind_ok h
      simp only [pure, Except.pure, Except.ok.injEq, Prod.mk.injEq] at h
      obtain ⟨rfl, _⟩ := h
      exact readCsvFrom_cls cfg o p prior d bytes hd
  | clear =>
    simp only [HOp.run, pure, Except.pure, Except.ok.injEq, Prod.mk.injEq] at h
    obtain ⟨rfl, _⟩ := h
    exact ClsStep.refl _

theorem finalHist_cls (cfg : Cfg) (o : NumOracle F) : ∀ (ops : List HOp) (prior df : DF F),
    finalHist cfg o prior ops = .ok df → ClsStep prior.classes df.classes := by
  intro ops
  induction ops with
  | nil => intro prior df h; simp only [finalHist, pure, Except.pure, Except.ok.injEq] at h; subst h; exact ClsStep.refl _
  | cons op ops ih =>
    intro prior df h
    simp only [finalHist] at h
    obtain ⟨r, hr, h⟩ := bind_ok h
    obtain ⟨d, n⟩ := r
    exact (hop_cls cfg o op prior d n hr).trans (ih d df h)

/-- a label keeps its id when the class map is continued -/
theorem lookup_extends (m m' : ClassMap) (hinv' : ClassInv m') (hext : Extends m m') (l : Str) (i : Nat)
    (h : lookup m l = some i) : lookup m' l = some i := by
  obtain ⟨t, rfl⟩ := hext
  exact lookup_of_mem _ hinv' l i (List.mem_append_left _ (lookup_some_mem m l i h))

/-- the rows of a table fit a schema that is already there: the cells of every row convert under the
    domains `D` of the existing columns and leave them alone (a column without a domain sees blank cells
    only), and the output column goes with the class map `m` the object has – numbers when there is none,
    labels otherwise (at least two classes in the end) -/
structure TypedFrom (o : NumOracle F) (outIdx : Option Nat) (trimWs keep : Bool) (D : List Dom) (m : ClassMap)
    (t : Table) : Prop where
  rows : ∀ r ∈ t.rows, RowOK o D (prep outIdx (fieldsOf trimWs keep r))
  cls : (Regr o D (t.rows.map (fun r => prep outIdx (fieldsOf trimWs keep r))) ∧ m = []) ∨
        (Classif o D (t.rows.map (fun r => prep outIdx (fieldsOf trimWs keep r))) ∧
         (specRows o D m (t.rows.map (fun r => prep outIdx (fieldsOf trimWs keep r)))).1.length ≠ 1)

end Vita.C09
