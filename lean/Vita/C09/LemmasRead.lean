/-
  C09 — `read_csv` on the records of a well-formed table: the examples are the ones the table
  prescribes (`specRows`) and the dataframe passes `is_valid`.
-/
import Vita.C09.LemmasEnc

namespace Vita.C09

variable {F : Type}

/-! ### validity of what `specRows` produces -/

theorem inputVals_length (o : NumOracle F) : ∀ (ds : List Dom) (xs : List Str), InputsOK o ds xs →
    (inputVals o ds xs).length = (ds.filter (fun d => d ≠ .void)).length := by
  intro ds
  induction ds with
  | nil => intro xs _; cases xs <;> rfl
  | cons d ds ih =>
    intro xs h
    cases xs with
    | nil => simp [InputsOK] at h
    | cons x xs =>
      simp only [InputsOK] at h
      by_cases hd : d = .void
      · simp [inputVals, hd, ih xs h.2]
      · simp [inputVals, hd, ih xs h.2]

/-- the output cells are all numbers (or there is no output domain): regression / no output -/
def Regr (o : NumOracle F) (D : List Dom) (rows' : List (List Str)) : Prop :=
  outDom D = .void ∨ ∀ r' ∈ rows', isNumber o (r'.headD []) = true

/-- the output cells are all labels: classification -/
def Classif (o : NumOracle F) (D : List Dom) (rows' : List (List Str)) : Prop :=
  outDom D ≠ .void ∧ ∀ r' ∈ rows', isNumber o (r'.headD []) = false

theorem specRows_regr (o : NumOracle F) (D : List Dom) : ∀ (rows' : List (List Str)) (m : ClassMap),
    Regr o D rows' → (specRows o D m rows').1 = m := by
  intro rows'
  induction rows' with
  | nil => intro m _; rfl
  | cons r' rows' ih =>
    intro m h
    have hrest : Regr o D rows' := by
      rcases h with h | h
      · exact Or.inl h
      · exact Or.inr (fun x hx => h x (by simp [hx]))
    cases r' with
    | nil => simpa [specRows] using ih m hrest
    | cons v0 vs =>
      have hm : (outVal o m (outDom D) v0).2 = m := by
        unfold outVal
        rcases h with h | h
        · simp [h]
        · have := h (v0 :: vs) (by simp)
          simp only [List.headD_cons] at this
          simp only [this, Bool.true_eq_false, if_false]
          split <;> rfl
      simp only [specRows, hm]
      exact ih m hrest

theorem specRows_classif (o : NumOracle F) (D : List Dom) : ∀ (rows' : List (List Str)) (m : ClassMap),
    ClassInv m → Classif o D rows' →
    ClassInv (specRows o D m rows').1 ∧ (∃ t, (specRows o D m rows').1 = m ++ t) ∧
    ∀ e ∈ (specRows o D m rows').2, ∃ id : Nat, e.output = .int id ∧ id < (specRows o D m rows').1.length := by
  intro rows'
  induction rows' with
  | nil => intro m hinv _; exact ⟨hinv, ⟨[], by simp [specRows]⟩, by intro e he; simp [specRows] at he⟩
  | cons r' rows' ih =>
    intro m hinv h
    have hrest : Classif o D rows' := ⟨h.1, fun x hx => h.2 x (by simp [hx])⟩
    cases r' with
    | nil => simpa [specRows] using ih m hinv hrest
    | cons v0 vs =>
      have hn := h.2 (v0 :: vs) (by simp)
      simp only [List.headD_cons] at hn
      have hov : outVal o m (outDom D) v0 =
          (.int (encode m (trim v0)).1, (encode m (trim v0)).2) := by
        unfold outVal; simp [h.1, hn]
      obtain ⟨i1, ⟨t, ht⟩, i3⟩ := ih (encode m (trim v0)).2 (encode_inv m hinv _) hrest
      obtain ⟨t0, ht0⟩ := encode_grow m (trim v0)
      simp only [specRows, hov]
      refine ⟨i1, ⟨t0 ++ t, by rw [ht, ht0]; simp⟩, ?_⟩
      intro e he
      simp only [List.mem_cons] at he
      rcases he with rfl | he
      · refine ⟨(encode m (trim v0)).1, rfl, ?_⟩
        have := id_lt_of_mem _ (encode_inv m hinv (trim v0)) _ _ (encode_mem m (trim v0))
        rw [ht]; simp; omega
      · exact i3 e he

theorem specRows_inputs (o : NumOracle F) (D : List Dom) : ∀ (rows' : List (List Str)) (m : ClassMap),
    (∀ r' ∈ rows', RowOKx o D r') →
    (∀ e ∈ (specRows o D m rows').2, e.input.length = (D.tail.filter (fun d => d ≠ .void)).length) ∧
    (specRows o D m rows').2.length = rows'.length := by
  intro rows'
  induction rows' with
  | nil => intro m _; exact ⟨by intro e he; simp [specRows] at he, rfl⟩
  | cons r' rows' ih =>
    intro m h
    have hr := h r' (by simp)
    cases D with
    | nil => simp [RowOKx] at hr
    | cons d ds =>
      cases r' with
      | nil => simp [RowOKx] at hr
      | cons v0 vs =>
        simp only [RowOKx] at hr
        obtain ⟨i1, i2⟩ := ih (outVal o m d v0).2 (fun x hx => h x (by simp [hx]))
        simp only [specRows, outDom_cons, List.tail_cons, List.length_cons] at *
        refine ⟨?_, by rw [i2]⟩
        intro e he
        simp only [List.mem_cons] at he
        rcases he with rfl | he
        · exact inputVals_length o ds vs hr.2
        · exact i1 e he

theorem examplesValid_regr (inSize : Nat) : ∀ (es : List (Example F)),
    (∀ e ∈ es, e.input.length = inSize) → examplesValid 0 inSize es = .ok true := by
  intro es
  induction es with
  | nil => intro _; rfl
  | cons e es ih =>
    intro h
    have := h e (by simp)
    simp only [examplesValid, this, bne_self_eq_false, Bool.false_eq_true, if_false, if_true]
    exact ih (fun x hx => h x (by simp [hx]))

theorem examplesValid_classif (cl inSize : Nat) : ∀ (es : List (Example F)),
    (∀ e ∈ es, e.input.length = inSize ∧ ∃ id : Nat, e.output = .int id ∧ id < cl) →
    examplesValid cl inSize es = .ok true := by
  intro es
  induction es with
  | nil => intro _; rfl
  | cons e es ih =>
    intro h
    obtain ⟨h1, id, h2, h3⟩ := h e (by simp)
    have hcl : cl ≠ 0 := by omega
    have hlt : ((id : Int) < 0 || decide ((id : Int) ≥ (cl : Int))) = false := by
      simp; omega
    simp only [examplesValid, h1, bne_self_eq_false, Bool.false_eq_true, if_false, hcl, label, h2,
      bind, Except.bind, pure, Except.pure, hlt]
    exact ih (fun x hx => h x (by simp [hx]))

theorem colsValid_of_voidClean (cs : List Col) (h : VoidClean cs) : colsValid cs = true := by
  unfold colsValid
  rw [List.all_eq_true]
  intro c hc
  by_cases hd : c.dom = .void
  · simp [hd, h c hc hd]
  · simp [hd]

/-! ### the first data record establishes the domains -/

theorem kinds_length (o : NumOracle F) : ∀ (first : Bool) (xs : List Str), (kinds o first xs).length = xs.length := by
  intro first xs
  induction xs generalizing first with
  | nil => rfl
  | cons x xs ih => simp [kinds, ih]

/-- the columns `build` starts from when it meets the first data record -/
def freshCols (cols : List Col) (n : Nat) : List Col := if cols.isEmpty then List.replicate n {} else cols

theorem build_fresh (cfg : Cfg) (o : NumOracle F) (cols : List Col) (r' : List Str) (hdr : Bool)
    (h1 : (cols.isEmpty && hdr) = false) (hl : (freshCols cols r'.length).length = r'.length) :
    build cfg o cols r' hdr = .ok (buildPure o true (freshCols cols r'.length) r') := by
  unfold build
  simp only [h1, Bool.false_eq_true, if_false]
  have : (if cols.isEmpty = true then List.replicate r'.length ({} : Col) else cols) = freshCols cols r'.length := rfl
  rw [this, hl]
  simp only [bne_self_eq_false, Bool.and_false, Bool.false_eq_true, if_false]
  exact buildGo_eq o true _ r' hl

theorem fold_table (cfg : Cfg) (o : NumOracle F) (outIdx : Option Nat) (hasHdr : Bool)
    (st : St F) (r0 : List Str) (rest : List (List Str))
    (hfresh : ∀ c ∈ st.df.cols, c.dom = .void ∧ c.states = [])
    (hlen : st.df.cols = [] ∨ st.df.cols.length = (prep outIdx r0).length)
    (h1 : (st.df.cols.isEmpty && hasHdr) = false)
    (hdata : (!hasHdr || st.count != 0) = true) (hcount : st.count < 10)
    (hall : ∀ r ∈ r0 :: rest, (∀ k, outIdx = some k → k < r.length) ∧
              RowOK o (kinds o true (prep outIdx r0)) (prep outIdx r)) :
    ∃ st', (r0 :: rest).foldlM (csvStep cfg o outIdx hasHdr) st = .ok st' ∧
      skel st'.df.cols = ((freshCols st.df.cols (prep outIdx r0).length).map (·.name)).zip
                           (kinds o true (prep outIdx r0)) ∧
      VoidClean st'.df.cols ∧
      st'.df.classes = (specRows o (kinds o true (prep outIdx r0)) st.df.classes
                          ((r0 :: rest).map (prep outIdx))).1 ∧
      st'.df.examples = st.df.examples ++ (specRows o (kinds o true (prep outIdx r0)) st.df.classes
                          ((r0 :: rest).map (prep outIdx))).2 := by
  have hfl : (freshCols st.df.cols (prep outIdx r0).length).length = (prep outIdx r0).length := by
    unfold freshCols
    rcases hlen with h | h
    · simp [h]
    · have : st.df.cols.isEmpty = false := by
        cases hc : st.df.cols with
        | nil =>
          rw [hc] at h
          have := (hall r0 (by simp)).2
          cases hp : prep outIdx r0 with
          | nil => rw [hp] at this; simp [kinds, RowOK] at this
          | cons a b => rw [hp] at h; simp at h
        | cons a b => rfl
      simp [this, h]
  have hff : ∀ c ∈ freshCols st.df.cols (prep outIdx r0).length, c.dom = .void ∧ c.states = [] := by
    unfold freshCols
    split
    · intro c hc
      rw [List.mem_replicate] at hc
      rw [hc.2]; exact ⟨rfl, rfl⟩
    · exact hfresh
  obtain ⟨hsk1, hvc1⟩ := buildPure_fresh o true _ (prep outIdx r0) hfl hff
  have hbuild : (if st.count < 10 then build cfg o st.df.cols (prep outIdx r0) hasHdr else pure st.df.cols)
      = .ok (buildPure o true (freshCols st.df.cols (prep outIdx r0).length) (prep outIdx r0)) := by
    simp only [hcount, if_true]
    exact build_fresh cfg o _ _ _ h1 hfl
  have hdoms1 : (buildPure o true (freshCols st.df.cols (prep outIdx r0).length) (prep outIdx r0)).map (·.dom)
      = kinds o true (prep outIdx r0) := by
    rw [skel_doms, hsk1]
    apply List.map_snd_zip
    simp [kinds_length, hfl]
  obtain ⟨hk0, hrow0⟩ := hall r0 (by simp)
  obtain ⟨cols', c0, v0, vs, hc0, hpr, hstep, hsk', hvc'⟩ :=
    csvStep_data cfg o outIdx hasHdr st r0 _ hk0 hbuild hdata (by rw [hdoms1]; exact hrow0) hvc1
  rw [hsk1] at hsk'
  obtain ⟨st', hfold, i1, i2, i3, i4, _⟩ := fold_rows cfg o outIdx hasHdr _ rest
    { df := { cols := cols', classes := (outVal o st.df.classes c0 v0).snd,
              examples := st.df.examples ++
                [{ input := inputVals o (List.map (fun x => x.dom)
                     (buildPure o true (freshCols st.df.cols (prep outIdx r0).length) (prep outIdx r0))).tail vs,
                   output := (outVal o st.df.classes c0 v0).fst }] },
      count := st.count + 1 }
    hsk' hvc'
    (fun r hr => by
      have := hall r (by simp [hr])
      refine ⟨this.1, ?_⟩
      rw [List.map_snd_zip (by simp [kinds_length, hfl])]
      exact this.2)
    (by simp)
  rw [List.map_snd_zip (by simp [kinds_length, hfl])] at i3 i4
  rw [hdoms1] at hc0
  have hod : outDom (kinds o true (prep outIdx r0)) = c0 := by rw [hc0]; rfl
  refine ⟨st', ?_, i1, i2, ?_, ?_⟩
  · simp only [List.foldlM, hstep, bind, Except.bind]
    exact hfold
  · rw [i3]
    generalize kinds o true (prep outIdx r0) = D at *
    simp only [List.map, hpr, specRows, hod]
  · rw [i4]
    rw [hdoms1]
    generalize kinds o true (prep outIdx r0) = D at *
    simp only [List.map, hpr, specRows, hod, List.append_assoc, List.singleton_append]

theorem prep_length (outIdx : Option Nat) (r : List Str) :
    (prep outIdx r).length = r.length + (if outIdx.isNone then 1 else 0) := by
  cases outIdx with
  | none => simp [prep]
  | some k => simp [prep, rot_length]

/-- the header record only names the columns -/
theorem csvStep_header (cfg : Cfg) (o : NumOracle F) (outIdx : Option Nat) (h : List Str)
    (hk : ∀ k, outIdx = some k → k < h.length) :
    csvStep cfg o outIdx true ({} : St F) h =
      .ok { df := { cols := (prep outIdx h).map (fun n => { name := trim n }) }, count := 1 } := by
  have hp : ∀ h' : List Str, csvProceed cfg o true ({} : St F) h' =
      .ok { df := { cols := h'.map (fun n => { name := trim n }) }, count := 1 } := by
    intro h'
    simp [csvProceed, build, bind, Except.bind, pure, Except.pure]
  cases ho : outIdx with
  | none => simp only [csvStep, prep]; exact hp _
  | some k =>
    have hlt := hk k ho
    have hg : (cfg.guards && decide (k ≥ h.length)) = false := by
      simp; intro _; omega
    simp only [csvStep, hg, Bool.false_eq_true, if_false, rotate?_ok _ h k hlt, bind, Except.bind, prep]
    exact hp _

/-- names of the columns: the trimmed header cells (output first), or nothing -/
def colNames (outIdx : Option Nat) (hdr : Option (List Str)) (n : Nat) : List Str :=
  match hdr with
  | some h => (prep outIdx h).map trim
  | none => List.replicate n []

theorem isValid_spec (df : DF F) (o : NumOracle F) (D : List Dom) (rows' : List (List Str))
    (hrows : ∀ r' ∈ rows', RowOKx o D r')
    (hcls : Regr o D rows' ∨ (Classif o D rows' ∧ (specRows o D [] rows').1.length ≠ 1))
    (hex : df.examples = (specRows o D [] rows').2) (hcl : df.classes = (specRows o D [] rows').1)
    (hv : VoidClean df.cols) : isValid df = .ok true ∧ df.examples.length = rows'.length := by
  obtain ⟨hin, hlen⟩ := specRows_inputs o D rows' [] hrows
  refine ⟨?_, by rw [hex, hlen]⟩
  cases hes : df.examples with
  | nil => simp [isValid, hes, pure, Except.pure]
  | cons e0 es =>
    have he0 : e0.input.length = (D.tail.filter (fun d => d ≠ .void)).length :=
      hin e0 (by rw [← hex, hes]; simp)
    unfold isValid
    simp only [hes]
    rcases hcls with hr | ⟨hc, hn1⟩
    · have : df.classes = [] := by rw [hcl]; exact specRows_regr o D rows' [] hr
      simp only [this, List.length_nil, Nat.zero_ne_one, if_false, bind, Except.bind]
      rw [examplesValid_regr e0.input.length (e0 :: es)
        (fun e he => by rw [he0]; exact hin e (by rw [← hex, hes]; exact he))]
      simp [pure, Except.pure, colsValid_of_voidClean _ hv]
    · obtain ⟨_, _, hids⟩ := specRows_classif o D rows' [] classInv_nil hc
      rw [← hcl] at hn1
      simp only [hn1, if_false, bind, Except.bind]
      rw [examplesValid_classif df.classes.length e0.input.length (e0 :: es)
        (fun e he => by
          have hm : e ∈ (specRows o D [] rows').2 := by rw [← hex, hes]; exact he
          refine ⟨by rw [he0]; exact hin e hm, ?_⟩
          rw [hcl]; exact hids e hm)]
      simp [pure, Except.pure, colsValid_of_voidClean _ hv]

/-- `read_csv` on the records of a well-formed table -/
theorem readCsvRecs_faithful (cfg : Cfg) (o : NumOracle F) (outIdx : Option Nat)
    (hdr : Option (List Str)) (r0 : List Str) (rest : List (List Str))
    (hk : ∀ r ∈ hdr.toList ++ r0 :: rest, ∀ k, outIdx = some k → k < r.length)
    (hw : ∀ h, hdr = some h → h.length = r0.length)
    (hrows : ∀ r ∈ r0 :: rest, RowOK o (kinds o true (prep outIdx r0)) (prep outIdx r))
    (hcls : Regr o (kinds o true (prep outIdx r0)) ((r0 :: rest).map (prep outIdx)) ∨
            (Classif o (kinds o true (prep outIdx r0)) ((r0 :: rest).map (prep outIdx)) ∧
             (specRows o (kinds o true (prep outIdx r0)) [] ((r0 :: rest).map (prep outIdx))).1.length ≠ 1)) :
    ∃ df, readCsvRecs cfg o outIdx hdr.isSome (hdr.toList ++ r0 :: rest) = .ok df ∧
      df.examples = (specRows o (kinds o true (prep outIdx r0)) [] ((r0 :: rest).map (prep outIdx))).2 ∧
      df.classes = (specRows o (kinds o true (prep outIdx r0)) [] ((r0 :: rest).map (prep outIdx))).1 ∧
      skel df.cols = (colNames outIdx hdr (prep outIdx r0).length).zip (kinds o true (prep outIdx r0)) := by
  have hall : ∀ r ∈ r0 :: rest, (∀ k, outIdx = some k → k < r.length) ∧
      RowOK o (kinds o true (prep outIdx r0)) (prep outIdx r) :=
    fun r hr => ⟨hk r (by simp at hr ⊢; exact Or.inr hr), hrows r hr⟩
  have hfin : ∀ st' : St F,
      (hdr.toList ++ r0 :: rest).foldlM (csvStep cfg o outIdx hdr.isSome) {} = .ok st' →
      VoidClean st'.df.cols →
      st'.df.classes = (specRows o (kinds o true (prep outIdx r0)) [] ((r0 :: rest).map (prep outIdx))).1 →
      st'.df.examples = (specRows o (kinds o true (prep outIdx r0)) [] ((r0 :: rest).map (prep outIdx))).2 →
      readCsvRecs cfg o outIdx hdr.isSome (hdr.toList ++ r0 :: rest) = .ok st'.df := by
    intro st' hf hv hc he
    obtain ⟨hval, hlen⟩ := isValid_spec st'.df o _ _
      (fun r' hr' => by
        simp only [List.mem_map] at hr'
        obtain ⟨r, hr, rfl⟩ := hr'
        exact rowOK_x o _ _ (hrows r hr)) hcls he hc hv
    have hnem : st'.df.examples.isEmpty = false := by
      cases hes : st'.df.examples with
      | nil => rw [hes] at hlen; simp at hlen
      | cons a b => rfl
    unfold readCsvRecs
    simp only [hf, bind, Except.bind, hval, hnem, Bool.not_true, Bool.or_self, Bool.false_eq_true,
      if_false, pure, Except.pure]
  cases hdr with
  | none =>
    obtain ⟨st', hfold, i1, i2, i3, i4⟩ := fold_table cfg o outIdx false ({} : St F) r0 rest
      (by intro c hc; cases hc) (Or.inl rfl) (by simp) (by simp) (by show (0:Nat) < 10; omega) hall
    refine ⟨st'.df, hfin st' (by simpa using hfold) i2 i3 (by simpa using i4), by simpa using i4, i3, ?_⟩
    rw [i1]
    simp [colNames, freshCols]
  | some h =>
    have hkh := hk h (by simp)
    have hstep := csvStep_header cfg o outIdx h hkh
    have hlen : (prep outIdx h).length = (prep outIdx r0).length := by
      rw [prep_length, prep_length, hw h rfl]
    obtain ⟨st', hfold, i1, i2, i3, i4⟩ := fold_table cfg o outIdx true
      ({ df := { cols := (prep outIdx h).map (fun n => { name := trim n }) }, count := 1 } : St F) r0 rest
      (by intro c hc; simp only [List.mem_map] at hc; obtain ⟨n, _, rfl⟩ := hc; exact ⟨rfl, rfl⟩)
      (Or.inr (by simp [hlen]))
      (by
        cases hp : prep outIdx h with
        | nil =>
          rw [hp] at hlen
          have := (hall r0 (by simp)).2
          cases hp0 : prep outIdx r0 with
          | nil => rw [hp0] at this; simp [kinds, RowOK] at this
          | cons a b => rw [hp0] at hlen; simp at hlen
        | cons a b => simp)
      (by simp) (by show (1:Nat) < 10; omega) hall
    have hfold' : (([h] ++ r0 :: rest).foldlM (csvStep cfg o outIdx true) ({} : St F)) = .ok st' := by
      simp only [List.singleton_append, List.foldlM, hstep, bind, Except.bind]
      exact hfold
    refine ⟨st'.df, hfin st' (by simpa using hfold') i2 i3 (by simpa using i4), by simpa using i4, i3, ?_⟩
    rw [i1]
    have : (prep outIdx h).isEmpty = false := by
      cases hp : prep outIdx h with
      | nil =>
        rw [hp] at hlen
        have := (hall r0 (by simp)).2
        cases hp0 : prep outIdx r0 with
        | nil => rw [hp0] at this; simp [kinds, RowOK] at this
        | cons a b => rw [hp0] at hlen; simp at hlen
      | cons a b => rfl
    simp [colNames, freshCols, this, Function.comp_def]

/-! ### reading `specRows` row by row -/

theorem specRows_zip_inputs (o : NumOracle F) (D : List Dom) : ∀ (rows' : List (List Str)) (m : ClassMap),
    (∀ r' ∈ rows', r' ≠ []) →
    ∀ p ∈ rows'.zip (specRows o D m rows').2, p.2.input = inputVals o D.tail p.1.tail := by
  intro rows'
  induction rows' with
  | nil => intro m _ p hp; simp [specRows] at hp
  | cons r' rows' ih =>
    intro m hne p hp
    cases r' with
    | nil => exact absurd rfl (hne [] (by simp))
    | cons v0 vs =>
      simp only [specRows, List.zip_cons_cons, List.mem_cons] at hp
      rcases hp with rfl | hp
      · rfl
      · exact ih _ (fun x hx => hne x (by simp [hx])) p hp

theorem specRows_zip_regr (o : NumOracle F) (D : List Dom) : ∀ (rows' : List (List Str)) (m : ClassMap),
    (∀ r' ∈ rows', r' ≠ []) → Regr o D rows' →
    ∀ p ∈ rows'.zip (specRows o D m rows').2,
      p.2.output = if outDom D = .void then .void else cellVal o (outDom D) (p.1.headD []) := by
  intro rows'
  induction rows' with
  | nil => intro m _ _ p hp; simp [specRows] at hp
  | cons r' rows' ih =>
    intro m hne h p hp
    have hrest : Regr o D rows' := by
      rcases h with h | h
      · exact Or.inl h
      · exact Or.inr (fun x hx => h x (by simp [hx]))
    cases r' with
    | nil => exact absurd rfl (hne [] (by simp))
    | cons v0 vs =>
      simp only [specRows, List.zip_cons_cons, List.mem_cons] at hp
      rcases hp with rfl | hp
      · simp only [List.headD_cons]
        unfold outVal
        rcases h with h | h
        · simp [h]
        · have := h (v0 :: vs) (by simp)
          simp only [List.headD_cons] at this
          simp only [this, Bool.true_eq_false, if_false]
          split <;> rfl
      · exact ih _ (fun x hx => hne x (by simp [hx])) hrest p hp

theorem specRows_zip_classif (o : NumOracle F) (D : List Dom) : ∀ (rows' : List (List Str)) (m : ClassMap),
    (∀ r' ∈ rows', r' ≠ []) → ClassInv m → Classif o D rows' →
    ∀ p ∈ rows'.zip (specRows o D m rows').2,
      ∃ id : Nat, p.2.output = .int id ∧ (trim (p.1.headD []), id) ∈ (specRows o D m rows').1 := by
  intro rows'
  induction rows' with
  | nil => intro m _ _ _ p hp; simp [specRows] at hp
  | cons r' rows' ih =>
    intro m hne hinv h p hp
    have hrest : Classif o D rows' := ⟨h.1, fun x hx => h.2 x (by simp [hx])⟩
    cases r' with
    | nil => exact absurd rfl (hne [] (by simp))
    | cons v0 vs =>
      have hn := h.2 (v0 :: vs) (by simp)
      simp only [List.headD_cons] at hn
      have hov : outVal o m (outDom D) v0 =
          (.int (encode m (trim v0)).1, (encode m (trim v0)).2) := by
        unfold outVal; simp [h.1, hn]
      simp only [specRows, hov, List.zip_cons_cons, List.mem_cons] at hp ⊢
      rcases hp with rfl | hp
      · refine ⟨(encode m (trim v0)).1, rfl, ?_⟩
        obtain ⟨_, ⟨t, ht⟩, _⟩ := specRows_classif o D rows' (encode m (trim v0)).2 (encode_inv m hinv _) hrest
        simp only [List.headD_cons]
        rw [ht]
        exact List.mem_append_left _ (encode_mem m (trim v0))
      · exact ih _ (fun x hx => hne x (by simp [hx])) (encode_inv m hinv _) hrest p hp

theorem inputVals_noVoid (o : NumOracle F) : ∀ (ds : List Dom) (xs : List Str), (∀ d ∈ ds, d ≠ .void) →
    inputVals o ds xs = List.zipWith (cellVal o) ds xs := by
  intro ds
  induction ds with
  | nil => intro xs _; cases xs <;> rfl
  | cons d ds ih =>
    intro xs h
    cases xs with
    | nil => rfl
    | cons x xs =>
      have hd := h d (by simp)
      simp only [inputVals, hd, if_false, List.zipWith_cons_cons, ih xs (fun d' hd' => h d' (by simp [hd']))]

theorem prep_ne_nil (outIdx : Option Nat) (r : List Str) (h : r ≠ []) : prep outIdx r ≠ [] := by
  intro hp
  have := prep_length outIdx r
  rw [hp] at this
  cases r with
  | nil => exact h rfl
  | cons a b => simp at this; omega

end Vita.C09
