/-
  C09 — the sniffer on unambiguous tables (`sniff_agrees`).
-/
import Vita.C09.LemmasRead

namespace Vita.C09

variable {F : Type}

/-- a line without any quoting -/
def plainLine (d : Char) (r : List Str) : Str := renderLine d (r.map (fun f => (f, false)))

/-- a file without any quoting, lines ended by LF -/
def renderPlain (d : Char) (rows : List (List Str)) : Str := renderFile [] (rows.map (plainLine d))

/-- a cell free of the five candidate delimiters, of quotes and of NUL / CR / LF -/
def PlainCell (c : Str) : Prop :=
  ∀ ch ∈ c, ch ∉ preferred ∧ ch ≠ '"' ∧ ch ≠ '\x00' ∧ ch ≠ '\r' ∧ ch ≠ '\n'

/-- a data cell: a number written without letters (no exponent, `inf`, `nan`, hexadecimal) -/
def DataCell (o : NumOracle F) (c : Str) : Prop :=
  PlainCell c ∧ isBlank c = false ∧ isNumber o c = true ∧ ∀ ch ∈ c, isAlpha ch = false

/-- a header cell: not blank, not a number -/
def HeadCell (o : NumOracle F) (c : Str) : Prop :=
  PlainCell c ∧ isBlank c = false ∧ isNumber o c = false

/-- the class of tables on which sniffed and explicit dialect agree -/
structure Unambiguous (o : NumOracle F) (d : Char) (hdr : Option (List Str)) (rows : List (List Str)) : Prop where
  delim : d ∈ preferred
  width : ∃ w, 2 ≤ w ∧ (∀ r ∈ rows, r.length = w) ∧ (∀ h, hdr = some h → h.length = w)
  two : 2 ≤ rows.length
  data : ∀ r ∈ rows, ∀ c ∈ r, DataCell o c
  head : ∀ h, hdr = some h → ∀ c ∈ h, HeadCell o c

/-! ### counting delimiters -/

theorem count_plainLine (d ch : Char) : ∀ (r : List Str), r ≠ [] → (∀ c ∈ r, ch ∉ c) →
    (plainLine d r).count ch = if ch = d then r.length - 1 else 0 := by
  intro r
  induction r with
  | nil => intro h; exact absurd rfl h
  | cons f rest ih =>
    intro _ hall
    have hf : f.count ch = 0 := List.count_eq_zero.2 (hall f (by simp))
    cases rest with
    | nil =>
      simp only [plainLine, List.map, renderLine, renderField, Bool.false_eq_true, if_false, hf,
        List.length_cons, List.length_nil]
      split <;> rfl
    | cons f2 rest2 =>
      have ih' := ih (by simp) (fun c hc => hall c (by simp [hc]))
      have hr : plainLine d (f :: f2 :: rest2) = f ++ d :: plainLine d (f2 :: rest2) := by
        simp [plainLine, renderLine, renderField]
      rw [hr, List.count_append, List.count_cons, hf, ih']
      by_cases hd : ch = d
      · subst hd; simp
      · have : (d == ch) = false := by simp; exact fun h => hd h.symm
        simp [hd, this]

/-! ### `detail::mode` of a constant vector -/

theorem modeGo_const (k : Nat) : ∀ (m c : Nat), 1 ≤ c →
    modeGo k c c [(k, c)] (List.replicate m k) = [(k, c + m)] := by
  intro m
  induction m with
  | zero => intro c _; simp [modeGo]
  | succ m ih =>
    intro c hc
    simp only [List.replicate_succ, modeGo, if_true]
    have : c + 1 > c := by omega
    simp only [this, if_true]
    rw [ih (c + 1) (by omega)]
    congr 2; omega

theorem mode_const (k n : Nat) (hn : 1 ≤ n) : mode (List.replicate n k) = [(k, n)] := by
  cases n with
  | zero => omega
  | succ n =>
    simp only [List.replicate_succ, mode]
    rw [modeGo_const k n 1 (by omega)]
    congr 2; omega

theorem modeWeight_const (k n : Nat) (hn : 1 ≤ n) :
    modeWeight (List.replicate n k) = if k = 0 then (0, 0) else (k, n) := by
  unfold modeWeight
  rw [List.mergeSort_of_pairwise (by
    rw [List.pairwise_replicate]
    right; simp)]
  rw [mode_const k n hn]

/-! ### `guess_delimiter` -/

theorem map_const_replicate {α β} (f : α → β) (k : β) : ∀ (l : List α), (∀ x ∈ l, f x = k) →
    l.map f = List.replicate l.length k := by
  intro l
  induction l with
  | nil => intro _; rfl
  | cons a l ih =>
    intro h
    simp only [List.map, List.length_cons, List.replicate_succ, h a (by simp),
      ih (fun x hx => h x (by simp [hx]))]

/-- `guess_delimiter` when, on every inspected line, `d` occurs `k ≥ 1` times and the other
    candidates do not occur -/
theorem guessDelimiter_of_counts (n : Nat) (d : Char) (hd : d ∈ preferred) (k : Nat) (hk : 1 ≤ k) (lines : List Str)
    (hne : (lines.filter (fun l => !isBlank l)).take n ≠ [])
    (hcount : ∀ c ∈ preferred, ∀ l ∈ (lines.filter (fun l => !isBlank l)).take n,
        l.count c = if c = d then k else 0) :
    guessDelimiter n lines = d := by
  unfold guessDelimiter
  generalize hL : (lines.filter (fun l => !isBlank l)).take n = L at *
  have hn : 1 ≤ L.length := by
    cases L with
    | nil => exact absurd rfl hne
    | cons a b => simp
  have hemp : L.isEmpty = false := by cases L <;> simp_all
  have hmw : ∀ c ∈ preferred, modeWeight (L.map (fun l => l.count c)) =
      if c = d then (k, L.length) else (0, 0) := by
    intro c hc
    rw [map_const_replicate (fun l => l.count c) (if c = d then k else 0) L (hcount c hc),
      modeWeight_const _ _ hn]
    by_cases hcd : c = d
    · have : k ≠ 0 := by omega
      simp [hcd, this]
    · simp [hcd]
  simp only [hemp, Bool.false_eq_true, if_false]
  have h1 := hmw '\t' (by simp [preferred])
  have h2 := hmw ',' (by simp [preferred])
  have h3 := hmw ':' (by simp [preferred])
  have h4 := hmw ';' (by simp [preferred])
  have h5 := hmw '|' (by simp [preferred])
  simp only [preferred, List.map, h1, h2, h3, h4, h5]
  simp only [preferred, List.mem_cons, List.mem_nil_iff, or_false] at hd
  have hk0 : k ≠ 0 := by omega
  have hL0 : ¬ (L.length < 0) := by omega
  have hLL : ¬ (L.length < L.length) := by omega
  have h0L : 0 < L.length := by omega
  have h32 : ¬ (3 * L.length < 2 * L.length) := by omega
  rcases hd with rfl | rfl | rfl | rfl | rfl <;>
    simp [maxByWeight, hk0, h0L, h32]

/-! ### plain lines are parsed back, whatever the quoting mode -/

theorem preferred_facts (d : Char) (hd : d ∈ preferred) : d ≠ '\x00' ∧ d ≠ '"' ∧ d ≠ '\n' := by
  simp only [preferred, List.mem_cons, List.mem_nil_iff, or_false] at hd
  rcases hd with rfl | rfl | rfl | rfl | rfl <;> decide

theorem plainCell_clean (c : Str) (h : PlainCell c) : Clean c :=
  fun ch hch => ⟨(h ch hch).2.2.1, (h ch hch).2.2.2.1, (h ch hch).2.2.2.2⟩

theorem plainCell_noquote (d : Char) (hd : d ∈ preferred) (c : Str) (h : PlainCell c) :
    needsQuote d c = false := by
  simp only [needsQuote, Bool.or_eq_false_iff]
  constructor
  · simp only [List.contains_eq_mem, decide_eq_false_iff_not]
    intro hm
    exact (h d hm).1 hd
  · cases hdw : c.dropWhile isSpace with
    | nil => simp
    | cons a r =>
      have ha : a ∈ c := (List.dropWhile_suffix isSpace).subset (by simp [hdw])
      have := (h a ha).2.1
      simp [this]

theorem parse_plainLine (d : Char) (hd : d ∈ preferred) (keep : Bool) (r : List Str) (hne : r ≠ [])
    (hc : ∀ c ∈ r, PlainCell c) :
    parseLine { delim := d, keepQuotes := keep } (plainLine d r) = r := by
  obtain ⟨h0, hq, _⟩ := preferred_facts d hd
  have := go_line { delim := d, keepQuotes := keep } h0 hq [] (Or.inl rfl) (r.map (fun f => (f, false))) []
    (by simpa using hne)
    (by
      intro p hp
      simp only [List.mem_map] at hp
      obtain ⟨f, hf, rfl⟩ := hp
      exact ⟨plainCell_clean f (hc f hf), fun _ => plainCell_noquote d hd f (hc f hf)⟩)
  simpa [parseLine, plainLine, fieldOut, fieldSeen, Function.comp_def] using this

theorem plainLine_not_blank (d : Char) (r : List Str) (hne : r ≠ []) (hb : ∀ c ∈ r, isBlank c = false) :
    isBlank (plainLine d r) = false := by
  cases r with
  | nil => exact absurd rfl hne
  | cons f rest =>
    have hf := hb f (by simp)
    cases rest with
    | nil => simpa [plainLine, renderLine, renderField] using hf
    | cons f2 rest2 =>
      have hr : plainLine d (f :: f2 :: rest2) = f ++ d :: plainLine d (f2 :: rest2) := by
        simp [plainLine, renderLine, renderField]
      rw [hr, isBlank_append, hf]; rfl

theorem plainLine_no_lf (d : Char) (hd : d ∈ preferred) (r : List Str) (hc : ∀ c ∈ r, PlainCell c) :
    '\n' ∉ plainLine d r := by
  intro hm
  rcases mem_renderLine d _ '\n' hm with h | h | ⟨p, hp, h⟩
  · exact (preferred_facts d hd).2.2 h.symm
  · exact absurd h (by decide)
  · simp only [List.mem_map] at hp
    obtain ⟨f, hf, rfl⟩ := hp
    exact (hc f hf '\n' h).2.2.2.2 rfl

/-! ### `has_header` -/

theorem mem_trim (s : Str) (c : Char) (h : c ∈ trim s) : c ∈ s := by
  unfold trim at h
  rw [List.mem_reverse] at h
  have h1 := (List.dropWhile_suffix isSpace).subset h
  rw [List.mem_reverse] at h1
  exact (List.dropWhile_suffix isSpace).subset h1

/-- the column type the loop of `has_header` settles on for a numeric column under header `h` -/
def tyOf (h : Str) : Int := if capitalized h then stringTag else numberTag

theorem findColumnTag_data (o : NumOracle F) (x : Str) (hx : DataCell o x) : findColumnTag o x = numberTag := by
  unfold findColumnTag
  simp only [trim_isEmpty, hx.2.1, isNumber_trim, hx.2.2.1, if_true, Bool.false_eq_true, if_false]

theorem data_cases (o : NumOracle F) (x : Str) (hx : DataCell o x) : lowerCase x = true ∧ upperCase x = true := by
  constructor <;>
  · simp only [lowerCase, upperCase, List.all_eq_true]
    intro c hc
    simp [hx.2.2.2 c hc]

theorem stepType_none (o : NumOracle F) (h x : Str) (hx : DataCell o x) : stepType o noneTag h x = tyOf h := by
  unfold stepType tyOf
  simp only [findColumnTag_data o x hx, hx.2.1, (data_cases o x hx).1, (data_cases o x hx).2]
  simp only [noneTag, skipTag, numberTag, stringTag]
  cases capitalized h <;> simp

theorem stepType_ty (o : NumOracle F) (h x : Str) (hx : DataCell o x) : stepType o (tyOf h) h x = tyOf h := by
  unfold stepType tyOf
  simp only [findColumnTag_data o x hx, hx.2.1, (data_cases o x hx).1, (data_cases o x hx).2]
  simp only [noneTag, skipTag, numberTag, stringTag]
  cases capitalized h <;> simp

theorem stepTypes_first (o : NumOracle F) : ∀ (H r : List Str), r.length = H.length → (∀ x ∈ r, DataCell o x) →
    stepTypes o (List.replicate H.length noneTag) H r = H.map tyOf := by
  intro H
  induction H with
  | nil => intro r _ _; cases r <;> rfl
  | cons h H ih =>
    intro r hl hd
    cases r with
    | nil => simp at hl
    | cons x r =>
      simp only [List.length_cons, Nat.add_right_cancel_iff] at hl
      simp only [List.length_cons, List.replicate_succ, stepTypes, List.map,
        stepType_none o h x (hd x (by simp)), ih r hl (fun y hy => hd y (by simp [hy]))]

theorem stepTypes_next (o : NumOracle F) : ∀ (H r : List Str), r.length = H.length → (∀ x ∈ r, DataCell o x) →
    stepTypes o (H.map tyOf) H r = H.map tyOf := by
  intro H
  induction H with
  | nil => intro r _ _; cases r <;> rfl
  | cons h H ih =>
    intro r hl hd
    cases r with
    | nil => simp at hl
    | cons x r =>
      simp only [List.length_cons, Nat.add_right_cancel_iff] at hl
      simp only [stepTypes, List.map,
        stepType_ty o h x (hd x (by simp)), ih r hl (fun y hy => hd y (by simp [hy]))]

theorem fold_types (o : NumOracle F) (H : List Str) : ∀ (rows : List (List Str)),
    (∀ r ∈ rows, r.length = H.length ∧ ∀ x ∈ r, DataCell o x) →
    rows.foldl (fun tys r => stepTypes o tys H r) (H.map tyOf) = H.map tyOf := by
  intro rows
  induction rows with
  | nil => intro _; rfl
  | cons r rows ih =>
    intro h
    simp only [List.foldl, stepTypes_next o H r (h r (by simp)).1 (h r (by simp)).2]
    exact ih (fun x hx => h x (by simp [hx]))

theorem votes_const (o : NumOracle F) (v : Int) : ∀ (H : List Str), (∀ h ∈ H, voteOf o (tyOf h) h = v) →
    votes o (H.map tyOf) H = v * H.length := by
  intro H
  induction H with
  | nil => intro _; simp [votes]
  | cons h H ih =>
    intro hv
    simp only [List.map, votes, hv h (by simp), ih (fun x hx => hv x (by simp [hx])), List.length_cons]
    rw [Int.natCast_succ, Int.mul_add]; omega

theorem vote_head (o : NumOracle F) (h : Str) (hh : isNumber o h = false) : voteOf o (tyOf h) h = 1 := by
  unfold voteOf tyOf
  simp only [noneTag, skipTag, numberTag, stringTag, hh]
  cases capitalized h <;> simp

theorem vote_data (o : NumOracle F) (h : Str) (hh : DataCell o h) : voteOf o (tyOf h) h = -1 := by
  have hcap : capitalized h = false := by
    unfold capitalized
    cases ht : trim h with
    | nil => rfl
    | cons c r =>
      have hc : c ∈ h := mem_trim h c (by rw [ht]; simp)
      have := hh.2.2.2 c hc
      simp only [isAlpha, Bool.or_eq_false_iff] at this
      simp [this.1]
  unfold voteOf tyOf
  simp only [hcap, noneTag, skipTag, numberTag, stringTag, hh.2.2.1]
  simp

/-- `has_header` over a first line `H` followed by at least one numeric row of the same width -/
theorem hasHeader_core (o : NumOracle F) (n : Nat) (d : Char) (hd : d ∈ preferred) (H : List Str) (rows : List (List Str))
    (hH : H ≠ []) (hHp : ∀ c ∈ H, PlainCell c ∧ isBlank c = false) (hrows : rows ≠ [])
    (hdata : ∀ r ∈ rows, r.length = H.length ∧ ∀ x ∈ r, DataCell o x) (v : Int)
    (hv : ∀ h ∈ H, voteOf o (tyOf h) h = v) :
    hasHeader o n (splitLines (renderPlain d (H :: rows))) d = decide (v * H.length > 0) := by
  have hcells : ∀ r ∈ H :: rows, ∀ c ∈ r, PlainCell c ∧ isBlank c = false := by
    intro r hr c hc
    simp only [List.mem_cons] at hr
    rcases hr with rfl | hr
    · exact hHp c hc
    · exact ⟨((hdata r hr).2 c hc).1, ((hdata r hr).2 c hc).2.1⟩
  have hne : ∀ r ∈ H :: rows, r ≠ [] := by
    intro r hr h
    simp only [List.mem_cons] at hr
    rcases hr with rfl | hr
    · exact hH h
    · have := (hdata r hr).1
      rw [h] at this
      exact hH (List.length_eq_zero_iff.1 this.symm)
  have hlines : splitLines (renderPlain d (H :: rows)) = (H :: rows).map (plainLine d) := by
    unfold renderPlain
    rw [splitLines_renderFile [] (by simp)]
    · simp
    · intro l hl
      simp only [List.mem_map] at hl
      obtain ⟨r, hr, rfl⟩ := hl
      exact plainLine_no_lf d hd r (fun c hc => (hcells r hr c hc).1)
  have hnb : ((H :: rows).map (plainLine d)).filter (fun l => !isBlank l) = (H :: rows).map (plainLine d) := by
    rw [List.filter_eq_self]
    intro l hl
    simp only [List.mem_map] at hl
    obtain ⟨r, hr, rfl⟩ := hl
    simp [plainLine_not_blank d r (hne r hr) (fun c hc => (hcells r hr c hc).2)]
  unfold hasHeader
  rw [hlines, hnb]
  simp only [List.map_cons, List.drop_succ_cons, List.drop_zero, List.map_map]
  rw [parse_plainLine d hd true H hH (fun c hc => (hHp c hc).1)]
  have hparse : rows.map (parseLine { delim := d } ∘ plainLine d) = rows := by
    conv => rhs; rw [← List.map_id rows]
    apply List.map_congr_left
    intro r hr
    simp only [Function.comp, id]
    exact parse_plainLine d hd false r (hne r (by simp [hr])) (fun c hc => ((hdata r hr).2 c hc).1)
  rw [hparse]
  have hsame : rows.filter (fun r => r.length == H.length) = rows := by
    rw [List.filter_eq_self]
    intro r hr
    simp [(hdata r hr).1]
  rw [hsame]
  cases htk : rows.take (n + 2) with
  | nil =>
    cases rows with
    | nil => exact absurd rfl hrows
    | cons a b => simp at htk
  | cons r0 rs =>
    have hmem : ∀ r ∈ r0 :: rs, r ∈ rows := by
      intro r hr
      rw [← htk] at hr
      exact List.mem_of_mem_take hr
    have hvotes : votes o ((r0 :: rs).foldl (fun tys r => stepTypes o tys H r)
        (List.replicate H.length noneTag)) H = v * H.length := by
      simp only [List.foldl]
      rw [stepTypes_first o H r0 (hdata r0 (hmem r0 (by simp))).1 (hdata r0 (hmem r0 (by simp))).2,
        fold_types o H rs (fun r hr => hdata r (hmem r (by simp [hr]))), votes_const o v H hv]
    simp only [hvotes]

theorem guessDelimiter_plain (n : Nat) (hn : 1 ≤ n) (d : Char) (hd : d ∈ preferred) (w : Nat) (hw : 2 ≤ w) (all : List (List Str))
    (hall : all ≠ []) (hcells : ∀ r ∈ all, r.length = w ∧ ∀ c ∈ r, PlainCell c ∧ isBlank c = false) :
    guessDelimiter n (splitLines (renderPlain d all)) = d := by
  have hne : ∀ r ∈ all, r ≠ [] := by
    intro r hr h
    have := (hcells r hr).1
    rw [h] at this
    simp at this; omega
  have hlines : splitLines (renderPlain d all) = all.map (plainLine d) := by
    unfold renderPlain
    rw [splitLines_renderFile [] (by simp)]
    · simp
    · intro l hl
      simp only [List.mem_map] at hl
      obtain ⟨r, hr, rfl⟩ := hl
      exact plainLine_no_lf d hd r (fun c hc => ((hcells r hr).2 c hc).1)
  have hnb : (all.map (plainLine d)).filter (fun l => !isBlank l) = all.map (plainLine d) := by
    rw [List.filter_eq_self]
    intro l hl
    simp only [List.mem_map] at hl
    obtain ⟨r, hr, rfl⟩ := hl
    simp [plainLine_not_blank d r (hne r hr) (fun c hc => ((hcells r hr).2 c hc).2)]
  rw [hlines]
  apply guessDelimiter_of_counts n d hd (w - 1) (by omega)
  · rw [hnb]
    cases all with
    | nil => exact absurd rfl hall
    | cons a b =>
      cases n with
      | zero => omega
      | succ m => simp
  · intro c hc l hl
    rw [hnb] at hl
    have hl' := List.mem_of_mem_take hl
    simp only [List.mem_map] at hl'
    obtain ⟨r, hr, rfl⟩ := hl'
    rw [count_plainLine d c r (hne r hr) (fun cell hcell hm => (((hcells r hr).2 cell hcell).1 c hm).1 hc),
      (hcells r hr).1]

theorem sniffer_unambiguous (o : NumOracle F) (n : Nat) (hn : 1 ≤ n) (d : Char) (hdr : Option (List Str))
    (rows : List (List Str)) (h : Unambiguous o d hdr rows) :
    sniffer o n (splitLines (renderPlain d (hdr.toList ++ rows))) = (d, hdr.isSome) := by
  obtain ⟨w, hw, hrw, hhw⟩ := h.width
  have hcells : ∀ r ∈ hdr.toList ++ rows, r.length = w ∧ ∀ c ∈ r, PlainCell c ∧ isBlank c = false := by
    intro r hr
    simp only [List.mem_append, Option.mem_toList] at hr
    rcases hr with hr | hr
    · exact ⟨hhw r hr, fun c hc => ⟨(h.head r hr c hc).1, (h.head r hr c hc).2.1⟩⟩
    · exact ⟨hrw r hr, fun c hc => ⟨(h.data r hr c hc).1, (h.data r hr c hc).2.1⟩⟩
  have hrows2 := h.two
  have hg := guessDelimiter_plain n hn d h.delim w hw (hdr.toList ++ rows)
    (by cases rows with
        | nil => simp at hrows2
        | cons a b => simp) hcells
  unfold sniffer
  simp only [hg]
  congr 1
  cases hdr with
  | some H =>
    have hHw := hhw H rfl
    have := hasHeader_core o n d h.delim H rows
      (by intro hn; rw [hn] at hHw; simp at hHw; omega)
      (fun c hc => ⟨(h.head H rfl c hc).1, (h.head H rfl c hc).2.1⟩)
      (by intro hn; rw [hn] at hrows2; simp at hrows2)
      (fun r hr => ⟨by rw [hrw r hr, hHw], h.data r hr⟩) 1
      (fun c hc => vote_head o c (h.head H rfl c hc).2.2)
    simp only [Option.toList_some, List.singleton_append, Option.isSome_some]
    rw [this, hHw]
    simp; omega
  | none =>
    cases rows with
    | nil => simp at hrows2
    | cons r0 rest =>
      have hr0w := hrw r0 (by simp)
      have := hasHeader_core o n d h.delim r0 rest
        (by intro hn; rw [hn] at hr0w; simp at hr0w; omega)
        (fun c hc => ⟨(h.data r0 (by simp) c hc).1, (h.data r0 (by simp) c hc).2.1⟩)
        (by intro hn; rw [hn] at hrows2; simp at hrows2)
        (fun r hr => ⟨by rw [hrw r (by simp [hr]), hr0w], h.data r (by simp [hr])⟩) (-1)
        (fun c hc => vote_data o c (h.data r0 (by simp) c hc))
      simp only [Option.toList_none, List.nil_append, Option.isSome_none]
      rw [this, hr0w]
      simp

end Vita.C09
