/-
  C09 — the sniffer on unambiguous tables written WITH quoting (`sniff_agrees_quoted`).

  UNAMBIGUOUS TABLE (the class the property's "explicit and sniffed settings agree on unambiguous tables"
  is about; design/C09.md):
    * the delimiter is one of the sniffer's five candidates `\t , : ; |`, there are at least two columns
      and at least two data rows, every line has the same number of cells;
    * no cell contains a candidate delimiter, a quote, NUL, CR or LF; no cell is blank;
    * every data cell is a number written without letters (`DataCell`), written between quotes or not;
    * with a header line: a name – as the header pass of the sniffer sees it, i.e. WITH its quotes when it
      is written between quotes – is not a number (`length`, `Width`, `HEIGHT`, `"1980"`; not `1980`);
    * without a header line: the cells of the first row are not written between quotes (a quoted first
      row reads as a row of names – `"1980"` –, that is the sniffer's documented convention).
-/
import Vita.C09.LemmasSniff

namespace Vita.C09

variable {F : Type}

/-- a file whose cells carry the decision to quote them, lines ended by LF -/
def renderQ (d : Char) (rows : List (List (Str × Bool))) : Str := renderFile [] (rows.map (renderLine d))

/-- a cell as the header pass of the sniffer (`KEEP_QUOTES`) sees it -/
def seenQ (c : Str × Bool) : Str := if c.2 then QUOTE :: (c.1 ++ [QUOTE]) else c.1

structure UnambiguousQ (o : NumOracle F) (d : Char) (hdr : Option (List (Str × Bool)))
    (rows : List (List (Str × Bool))) : Prop where
  delim : d ∈ preferred
  width : ∃ w, 2 ≤ w ∧ (∀ r ∈ rows, r.length = w) ∧ (∀ h, hdr = some h → h.length = w)
  two : 2 ≤ rows.length
  data : ∀ r ∈ rows, ∀ c ∈ r, DataCell o c.1
  head : ∀ h, hdr = some h → ∀ c ∈ h, PlainCell c.1 ∧ isBlank c.1 = false ∧ isNumber o (seenQ c) = false
  bare : hdr = none → ∀ r, rows.head? = some r → ∀ c ∈ r, c.2 = false

/-! ### rendered lines -/

theorem not_mem_renderField (f : Str) (q : Bool) (ch : Char) (hq : ch ≠ '"') (hf : ch ∉ f) :
    ch ∉ renderField f q := by
  intro h
  rcases mem_renderField f q ch h with h | h
  · exact hq h
  · exact hf h

theorem count_renderLine (d ch : Char) (hq : ch ≠ '"') : ∀ (r : List (Str × Bool)), r ≠ [] → (∀ c ∈ r, ch ∉ c.1) →
    (renderLine d r).count ch = if ch = d then r.length - 1 else 0 := by
  intro r
  induction r with
  | nil => intro h; exact absurd rfl h
  | cons p rest ih =>
    intro _ hall
    obtain ⟨f, q⟩ := p
    have hf : (renderField f q).count ch = 0 :=
      List.count_eq_zero.2 (not_mem_renderField f q ch hq (hall (f, q) (by simp)))
    cases rest with
    | nil =>
      simp only [renderLine, hf, List.length_cons, List.length_nil]
      split <;> rfl
    | cons p2 rest2 =>
      have ih' := ih (by simp) (fun c hc => hall c (by simp [hc]))
      have hr : renderLine d ((f, q) :: p2 :: rest2) = renderField f q ++ d :: renderLine d (p2 :: rest2) := by
        simp [renderLine]
      rw [hr, List.count_append, List.count_cons, hf, ih']
      by_cases hd : ch = d
      · subst hd; simp
      · have : (d == ch) = false := by simp; exact fun h => hd h.symm
        simp [hd, this]

theorem parse_renderLine (d : Char) (hd : d ∈ preferred) (keep : Bool) (r : List (Str × Bool)) (hne : r ≠ [])
    (hc : ∀ c ∈ r, PlainCell c.1) :
    parseLine { delim := d, keepQuotes := keep } (renderLine d r) =
      r.map (fun p => fieldSeen { delim := d, keepQuotes := keep } p.1 p.2) := by
  obtain ⟨h0, hq, _⟩ := preferred_facts d hd
  have := go_line { delim := d, keepQuotes := keep } h0 hq [] (Or.inl rfl) r [] hne
    (by
      intro p hp
      exact ⟨plainCell_clean p.1 (hc p hp), fun _ => plainCell_noquote d hd p.1 (hc p hp)⟩)
  simpa [parseLine, fieldOut] using this

theorem renderField_not_blank (f : Str) (q : Bool) (h : isBlank f = false) : isBlank (renderField f q) = false := by
  cases q with
  | false => simpa [renderField] using h
  | true => simp [renderField, isBlank, isSpace]

theorem renderLine_not_blank (d : Char) (r : List (Str × Bool)) (hne : r ≠ []) (hb : ∀ c ∈ r, isBlank c.1 = false) :
    isBlank (renderLine d r) = false := by
  cases r with
  | nil => exact absurd rfl hne
  | cons p rest =>
    obtain ⟨f, q⟩ := p
    have hf := renderField_not_blank f q (hb (f, q) (by simp))
    cases rest with
    | nil => simpa [renderLine] using hf
    | cons p2 rest2 =>
      have hr : renderLine d ((f, q) :: p2 :: rest2) = renderField f q ++ d :: renderLine d (p2 :: rest2) := by
        simp [renderLine]
      rw [hr, isBlank_append, hf]; rfl

theorem renderLine_no_lf (d : Char) (hd : d ∈ preferred) (r : List (Str × Bool)) (hc : ∀ c ∈ r, PlainCell c.1) :
    '\n' ∉ renderLine d r := by
  intro hm
  rcases mem_renderLine d _ '\n' hm with h | h | ⟨p, hp, h⟩
  · exact (preferred_facts d hd).2.2 h.symm
  · exact absurd h (by decide)
  · exact (hc p hp '\n' h).2.2.2.2 rfl

theorem lines_renderQ (d : Char) (hd : d ∈ preferred) (all : List (List (Str × Bool)))
    (hne : ∀ r ∈ all, r ≠ []) (hcells : ∀ r ∈ all, ∀ c ∈ r, PlainCell c.1 ∧ isBlank c.1 = false) :
    splitLines (renderQ d all) = all.map (renderLine d) ∧
    (all.map (renderLine d)).filter (fun l => !isBlank l) = all.map (renderLine d) := by
  constructor
  · unfold renderQ
    rw [splitLines_renderFile [] (by simp)]
    · simp
    · intro l hl
      simp only [List.mem_map] at hl
      obtain ⟨r, hr, rfl⟩ := hl
      exact renderLine_no_lf d hd r (fun c hc => (hcells r hr c hc).1)
  · rw [List.filter_eq_self]
    intro l hl
    simp only [List.mem_map] at hl
    obtain ⟨r, hr, rfl⟩ := hl
    simp [renderLine_not_blank d r (hne r hr) (fun c hc => (hcells r hr c hc).2)]

/-! ### `guess_delimiter` -/

theorem guessDelimiter_q (n : Nat) (hn : 1 ≤ n) (d : Char) (hd : d ∈ preferred) (w : Nat) (hw : 2 ≤ w)
    (all : List (List (Str × Bool))) (hall : all ≠ [])
    (hcells : ∀ r ∈ all, r.length = w ∧ ∀ c ∈ r, PlainCell c.1 ∧ isBlank c.1 = false) :
    guessDelimiter n (splitLines (renderQ d all)) = d := by
  have hne : ∀ r ∈ all, r ≠ [] := by
    intro r hr h
    have := (hcells r hr).1
    rw [h] at this
    simp at this; omega
  obtain ⟨hlines, hnb⟩ := lines_renderQ d hd all hne (fun r hr => (hcells r hr).2)
  rw [hlines]
  apply guessDelimiter_of_counts n d hd (w - 1) (by omega)
  · rw [hnb]
    cases all with
    | nil => exact absurd rfl hall
    | cons a b =>
      cases n with
      | zero => omega
      | succ m => simp
  · intro c hc l hl
    rw [hnb] at hl
    have hl' := List.mem_of_mem_take hl
    simp only [List.mem_map] at hl'
    obtain ⟨r, hr, rfl⟩ := hl'
    have hcq : c ≠ '"' := by
      simp only [preferred, List.mem_cons, List.mem_nil_iff, or_false] at hc
      rcases hc with rfl | rfl | rfl | rfl | rfl <;> decide
    rw [count_renderLine d c hcq r (hne r hr) (fun cell hcell hm => (((hcells r hr).2 cell hcell).1 c hm).1 hc),
      (hcells r hr).1]

/-! ### `has_header` -/

/-- `has_header` over a first line `H` (any quoting) followed by at least one numeric row of the same
    width (any quoting): the vote is taken on the cells of `H` as `KEEP_QUOTES` shows them -/
theorem hasHeader_coreQ (o : NumOracle F) (n : Nat) (d : Char) (hd : d ∈ preferred) (H : List (Str × Bool))
    (rows : List (List (Str × Bool)))
    (hH : H ≠ []) (hHp : ∀ c ∈ H, PlainCell c.1 ∧ isBlank c.1 = false) (hrows : rows ≠ [])
    (hdata : ∀ r ∈ rows, r.length = H.length ∧ ∀ x ∈ r, DataCell o x.1) (v : Int)
    (hv : ∀ h ∈ H.map seenQ, voteOf o (tyOf h) h = v) :
    hasHeader o n (splitLines (renderQ d (H :: rows))) d = decide (v * H.length > 0) := by
  have hcells : ∀ r ∈ H :: rows, ∀ c ∈ r, PlainCell c.1 ∧ isBlank c.1 = false := by
    intro r hr c hc
    simp only [List.mem_cons] at hr
    rcases hr with rfl | hr
    · exact hHp c hc
    · exact ⟨((hdata r hr).2 c hc).1, ((hdata r hr).2 c hc).2.1⟩
  have hne : ∀ r ∈ H :: rows, r ≠ [] := by
    intro r hr h
    simp only [List.mem_cons] at hr
    rcases hr with rfl | hr
    · exact hH h
    · have := (hdata r hr).1
      rw [h] at this
      exact hH (List.length_eq_zero_iff.1 this.symm)
  obtain ⟨hlines, hnb⟩ := lines_renderQ d hd (H :: rows) hne hcells
  unfold hasHeader
  rw [hlines, hnb]
  simp only [List.map_cons, List.drop_succ_cons, List.drop_zero, List.map_map]
  rw [parse_renderLine d hd true H hH (fun c hc => (hHp c hc).1)]
  have hseen : H.map (fun p => fieldSeen { delim := d, keepQuotes := true } p.1 p.2) = H.map seenQ := by
    apply List.map_congr_left
    intro p _
    simp [fieldSeen, seenQ]
  rw [hseen]
  have hparse : rows.map (parseLine { delim := d } ∘ renderLine d) = rows.map (fun r => r.map (·.1)) := by
    apply List.map_congr_left
    intro r hr
    simp only [Function.comp]
    rw [parse_renderLine d hd false r (hne r (by simp [hr])) (fun c hc => ((hdata r hr).2 c hc).1)]
    apply List.map_congr_left
    intro p _
    simp [fieldSeen]
  rw [hparse]
  have hlenH : (H.map seenQ).length = H.length := by simp
  have hdata' : ∀ r ∈ rows.map (fun r => r.map (·.1)), r.length = (H.map seenQ).length ∧ ∀ x ∈ r, DataCell o x := by
    intro r hr
    simp only [List.mem_map] at hr
    obtain ⟨r0, hr0, rfl⟩ := hr
    refine ⟨by simp [(hdata r0 hr0).1], ?_⟩
    intro x hx
    simp only [List.mem_map] at hx
    obtain ⟨c, hc, rfl⟩ := hx
    exact (hdata r0 hr0).2 c hc
  generalize hR : rows.map (fun r => r.map (·.1)) = R at hdata'
  have hRne : R ≠ [] := by
    rw [← hR]
    cases rows with
    | nil => exact absurd rfl hrows
    | cons a b => simp
  generalize hHs : H.map seenQ = Hs at hv hdata' hlenH
  have hsame : R.filter (fun r => r.length == Hs.length) = R := by
    rw [List.filter_eq_self]
    intro r hr
    simp [(hdata' r hr).1]
  rw [hsame]
  cases htk : R.take (n + 2) with
  | nil =>
    cases R with
    | nil => exact absurd rfl hRne
    | cons a b => simp at htk
  | cons r0 rs =>
    have hmem : ∀ r ∈ r0 :: rs, r ∈ R := by
      intro r hr
      rw [← htk] at hr
      exact List.mem_of_mem_take hr
    have hvotes : votes o ((r0 :: rs).foldl (fun tys r => stepTypes o tys Hs r)
        (List.replicate Hs.length noneTag)) Hs = v * Hs.length := by
      simp only [List.foldl]
      rw [stepTypes_first o Hs r0 (hdata' r0 (hmem r0 (by simp))).1 (hdata' r0 (hmem r0 (by simp))).2,
        fold_types o Hs rs (fun r hr => hdata' r (hmem r (by simp [hr]))), votes_const o v Hs hv]
    rw [← hlenH, hvotes]

theorem sniffer_unambiguousQ (o : NumOracle F) (n : Nat) (hn : 1 ≤ n) (d : Char) (hdr : Option (List (Str × Bool)))
    (rows : List (List (Str × Bool))) (h : UnambiguousQ o d hdr rows) :
    sniffer o n (splitLines (renderQ d (hdr.toList ++ rows))) = (d, hdr.isSome) := by
  obtain ⟨w, hw, hrw, hhw⟩ := h.width
  have hcells : ∀ r ∈ hdr.toList ++ rows, r.length = w ∧ ∀ c ∈ r, PlainCell c.1 ∧ isBlank c.1 = false := by
    intro r hr
    simp only [List.mem_append, Option.mem_toList] at hr
    rcases hr with hr | hr
    · exact ⟨hhw r hr, fun c hc => ⟨(h.head r hr c hc).1, (h.head r hr c hc).2.1⟩⟩
    · exact ⟨hrw r hr, fun c hc => ⟨(h.data r hr c hc).1, (h.data r hr c hc).2.1⟩⟩
  have hrows2 := h.two
  have hg := guessDelimiter_q n hn d h.delim w hw (hdr.toList ++ rows)
    (by cases rows with
        | nil => simp at hrows2
        | cons a b => simp) hcells
  unfold sniffer
  simp only [hg]
  congr 1
  cases hdr with
  | some H =>
    have hHw := hhw H rfl
    have := hasHeader_coreQ o n d h.delim H rows
      (by intro hn; rw [hn] at hHw; simp at hHw; omega)
      (fun c hc => ⟨(h.head H rfl c hc).1, (h.head H rfl c hc).2.1⟩)
      (by intro hn; rw [hn] at hrows2; simp at hrows2)
      (fun r hr => ⟨by rw [hrw r hr, hHw], h.data r hr⟩) 1
      (by
        intro s hs
        simp only [List.mem_map] at hs
        obtain ⟨c, hc, rfl⟩ := hs
        exact vote_head o _ (h.head H rfl c hc).2.2)
    simp only [Option.toList_some, List.singleton_append, Option.isSome_some]
    rw [this, hHw]
    simp; omega
  | none =>
    cases rows with
    | nil => simp at hrows2
    | cons r0 rest =>
      have hr0w := hrw r0 (by simp)
      have hbare := h.bare rfl r0 rfl
      have := hasHeader_coreQ o n d h.delim r0 rest
        (by intro hn; rw [hn] at hr0w; simp at hr0w; omega)
        (fun c hc => ⟨(h.data r0 (by simp) c hc).1, (h.data r0 (by simp) c hc).2.1⟩)
        (by intro hn; rw [hn] at hrows2; simp at hrows2)
        (fun r hr => ⟨by rw [hrw r (by simp [hr]), hr0w], h.data r (by simp [hr])⟩) (-1)
        (by
          intro s hs
          simp only [List.mem_map] at hs
          obtain ⟨c, hc, rfl⟩ := hs
          have : seenQ c = c.1 := by simp [seenQ, hbare c hc]
          rw [this]
          exact vote_data o _ (h.data r0 (by simp) c hc))
      simp only [Option.toList_none, List.nil_append, Option.isSome_none]
      rw [this, hr0w]
      simp

end Vita.C09
