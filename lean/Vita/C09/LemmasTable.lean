/-
  C09 — the vocabulary of `rows_faithful` (tables, well-formedness, typing) and small helpers.
-/
import Vita.C09.LemmasRead

namespace Vita.C09

variable {F : Type}

theorem needsQuote_le_rfc (d : Char) (f : Str) (h : needsQuote d f = true) : needsQuoteRfc d f = true := by
  simp only [needsQuote, needsQuoteRfc, Bool.or_eq_true] at *
  rcases h with h | h
  · exact Or.inl h
  · right
    have hsuf : f.dropWhile isSpace <:+ f := List.dropWhile_suffix _
    cases hd : f.dropWhile isSpace with
    | nil => simp [hd] at h
    | cons a r =>
      simp only [hd, List.head?_cons, beq_iff_eq, Option.some.injEq] at h
      subst h
      have : QUOTE ∈ f := hsuf.subset (by simp [hd])
      simpa using this

/-- a table as the generator of a file sees it: cells with the decision to quote them -/
structure Table where
  header : Option (List (Str × Bool))
  row0 : List (Str × Bool)
  rest : List (List (Str × Bool))

def Table.rows (t : Table) : List (List (Str × Bool)) := t.row0 :: t.rest
def Table.lines (t : Table) : List (List (Str × Bool)) := t.header.toList ++ t.rows

/-- the file: one line per row, fields joined by `d`, lines ended by `eol` LF -/
def Table.render (d : Char) (eol : Str) (t : Table) : Str := renderFile eol (t.lines.map (renderLine d))

/-- the text of the cells of a row as the parser hands them over: between their quotes when the
    cell was written quoted and the dialect keeps quotes, trimmed when `trim_ws` is on -/
def fieldsOf (trimWs keep : Bool) (l : List (Str × Bool)) : List Str :=
  l.map (fun p => fieldOut { delim := ',', trimWs := trimWs } (fieldSeen { delim := ',', keepQuotes := keep } p.1 p.2))

theorem fieldsOf_length (trimWs keep : Bool) (l : List (Str × Bool)) : (fieldsOf trimWs keep l).length = l.length := by
  simp [fieldsOf]

/-- with `REMOVE_QUOTES` (the default) the fields are the cells -/
theorem fieldsOf_remove (trimWs : Bool) (l : List (Str × Bool)) :
    fieldsOf trimWs false l = l.map (fun p => if trimWs then trim p.1 else p.1) := by
  simp [fieldsOf, fieldOut, fieldSeen]

structure WellFormed (d : Char) (eol : Str) (t : Table) : Prop where
  d0 : d ≠ '\x00'
  dq : d ≠ QUOTE
  dn : d ≠ '\n'
  eol_ok : EolOK d eol
  /-- rectangular, at least one column -/
  rect : ∀ l ∈ t.lines, l.length = t.row0.length
  width : t.row0 ≠ []
  /-- cells are free of NUL / CR / LF and every cell that needs quotes is quoted -/
  clean : ∀ l ∈ t.lines, ∀ p ∈ l, Clean p.1 ∧ (p.2 = false → needsQuote d p.1 = false)
  /-- no line consists of white space only (such a line is skipped by the parser) -/
  visible : ∀ l ∈ t.lines, isBlank (renderLine d l ++ eol) = false

/-- the columns are consistently typed: the cells of every row convert under the domains the
    first data row establishes, and the output column is all numbers or all labels (≥ 2 classes) -/
structure Typed (o : NumOracle F) (outIdx : Option Nat) (trimWs keep : Bool) (t : Table) : Prop where
  rows : ∀ r ∈ t.rows, RowOK o (kinds o true (prep outIdx (fieldsOf trimWs keep t.row0))) (prep outIdx (fieldsOf trimWs keep r))
  cls : Regr o (kinds o true (prep outIdx (fieldsOf trimWs keep t.row0))) (t.rows.map (fun r => prep outIdx (fieldsOf trimWs keep r))) ∨
        (Classif o (kinds o true (prep outIdx (fieldsOf trimWs keep t.row0))) (t.rows.map (fun r => prep outIdx (fieldsOf trimWs keep r))) ∧
         (specRows o (kinds o true (prep outIdx (fieldsOf trimWs keep t.row0))) []
            (t.rows.map (fun r => prep outIdx (fieldsOf trimWs keep r)))).1.length ≠ 1)

theorem records_of_table (d : Char) (eol : Str) (t : Table) (trimWs keep : Bool) (hook : Hook)
    (hwf : WellFormed d eol t) :
    records { delim := d, trimWs := trimWs, keepQuotes := keep } hook (splitLines (t.render d eol)) =
      (t.lines.map (fieldsOf trimWs keep)).filterMap hook := by
  have := records_render { delim := d, trimWs := trimWs, keepQuotes := keep } hwf.d0 hwf.dq hwf.dn eol hwf.eol_ok
    hook t.lines
    (fun l hl => by
      intro h
      have := hwf.rect l hl
      rw [h] at this
      exact hwf.width (List.length_eq_zero_iff.1 this.symm))
    hwf.clean hwf.visible
  exact this


/-- when every cell of the first data row is non-blank no column lacks a domain and the inputs are
    simply the converted cells, position by position -/
theorem inputs_positionwise (o : NumOracle F) (ds : List Dom) (xs : List Str) (h : ∀ d ∈ ds, d ≠ .void) :
    inputVals o ds xs = List.zipWith (cellVal o) ds xs := inputVals_noVoid o ds xs h

/-! ### `setup_terminals` -/

theorem setupVarsGo_var (guards : Bool) (cats : List (Option Nat × Dom)) : ∀ (cs : List Col) (i v j : Nat)
    (hj : j < (setupVarsGo guards cats cs i v).length), ((setupVarsGo guards cats cs i v)[j]).var = v + j := by
  intro cs
  induction cs with
  | nil => intro i v j hj; simp [setupVarsGo] at hj
  | cons c cs ih =>
    intro i v j hj
    by_cases h : (guards && decide (c.dom = .void)) = true
    · have he : setupVarsGo guards cats (c :: cs) i v = setupVarsGo guards cats cs (i + 1) v := by
        rw [setupVarsGo]; simp only [h, if_true]
      simp only [he] at hj ⊢
      exact ih (i + 1) v j hj
    · have he : setupVarsGo guards cats (c :: cs) i v =
          { name := varName c i, var := v, category := (cats.getD i (none, .void)).1 } ::
            setupVarsGo guards cats cs (i + 1) (v + 1) := by
        simp only [Bool.not_eq_true] at h
        rw [setupVarsGo]; simp only [h, Bool.false_eq_true, if_false]
      simp only [he] at hj ⊢
      cases j with
      | zero => simp
      | succ j =>
        simp only [List.length_cons, Nat.add_lt_add_iff_right] at hj
        simp only [List.getElem_cons_succ]
        rw [ih (i + 1) (v + 1) j hj]; omega

theorem setupVarsGo_length (cats : List (Option Nat × Dom)) : ∀ (cs : List Col) (i v : Nat),
    (setupVarsGo true cats cs i v).length = ((cs.map (·.dom)).filter (fun d => d ≠ .void)).length := by
  intro cs
  induction cs with
  | nil => intro i v; rfl
  | cons c cs ih =>
    intro i v
    unfold setupVarsGo
    by_cases h : c.dom = .void
    · simp [h, ih]
    · simp [h, ih]

theorem setupVarsGo_names (guards : Bool) (cats : List (Option Nat × Dom)) : ∀ (cs : List Col) (i v : Nat),
    (setupVarsGo guards cats cs i v).map (·.name) =
      ((cs.zipIdx i).filter (fun p => !(guards && p.1.dom = .void))).map (fun p => varName p.1 p.2) := by
  intro cs
  induction cs with
  | nil => intro i v; rfl
  | cons c cs ih =>
    intro i v
    unfold setupVarsGo
    by_cases h : (guards && decide (c.dom = .void)) = true
    · simp only [h, if_true, List.zipIdx_cons, List.filter_cons, Bool.not_true, Bool.false_eq_true, if_false]
      exact ih (i + 1) v
    · simp only [h, if_false, List.zipIdx_cons, List.filter_cons, List.map_cons]
      simp only [Bool.not_eq_true] at h
      simp only [h, Bool.not_false, if_true, List.map_cons, Bool.false_eq_true, if_false]
      rw [ih (i + 1) (v + 1)]

/-- `Clean` by evaluation -/
theorem clean_of_all (f : Str) (h : f.all (fun c => c != '\x00' && c != '\r' && c != '\n') = true) : Clean f := by
  intro c hc
  rw [List.all_eq_true] at h
  have := h c hc
  simp only [Bool.and_eq_true, bne_iff_ne, ne_eq] at this
  exact ⟨this.1.1, this.1.2, this.2⟩

end Vita.C09
