/-
  C09 — `read_xrff` on a well-formed document: the examples are the ones the table prescribes.
-/
import Vita.C09.LemmasTable

namespace Vita.C09

variable {F : Type}

/-- the column an ordinary `<attribute>` becomes -/
def colOf (a : XAttr) : Col :=
  { name := a.name, dom := fromWeka a.type,
    states := if a.type = "nominal".toList then a.labels.foldl setInsert [] else [] }

/-- the column the class attribute becomes (nominal / string classes are numeric) -/
def colOfOut (a : XAttr) : Col :=
  { name := a.name,
    dom := fromWeka (if a.type = "nominal".toList || a.type = "string".toList then "numeric".toList else a.type),
    states := if (if a.type = "nominal".toList || a.type = "string".toList then "numeric".toList else a.type)
                 = "nominal".toList then a.labels.foldl setInsert [] else [] }

theorem xAttrStep_plain (st : XSt) (a : XAttr) (h : a.cls = false) :
    xAttrStep st a = .ok { st with cols := st.cols ++ [colOf a], index := st.index + 1 } := by
  simp only [xAttrStep, h, Bool.false_and, Bool.false_eq_true, if_false, colOf, pure, Except.pure]

theorem xAttrStep_class (st : XSt) (a : XAttr) (h : a.cls = true) (h0 : st.nOutput = 0) :
    xAttrStep st a = .ok { cols := colOfOut a :: st.cols, nOutput := 1, outputIndex := st.index,
                           index := st.index + 1 } := by
  simp only [xAttrStep, h, h0, Bool.true_and, if_true, colOfOut, pure, Except.pure, Nat.zero_add,
    Nat.lt_irrefl, gt_iff_lt, decide_false, Bool.false_eq_true, if_false]

theorem xattrs_fold_plain : ∀ (attrs : List XAttr) (st : XSt), (∀ a ∈ attrs, a.cls = false) →
    attrs.foldlM xAttrStep st =
      .ok { st with cols := st.cols ++ attrs.map colOf, index := st.index + attrs.length } := by
  intro attrs
  induction attrs with
  | nil => intro st _; simp [List.foldlM, pure, Except.pure]
  | cons a attrs ih =>
    intro st h
    simp only [List.foldlM, xAttrStep_plain st a (h a (by simp)), bind, Except.bind]
    rw [ih _ (fun x hx => h x (by simp [hx]))]
    simp [Nat.add_assoc, Nat.add_comm 1]

/-- header with the class attribute in position `pre.length` -/
theorem xattrs_fold_class (pre post : List XAttr) (a : XAttr) (hpre : ∀ x ∈ pre, x.cls = false)
    (hpost : ∀ x ∈ post, x.cls = false) (ha : a.cls = true) :
    (pre ++ a :: post).foldlM xAttrStep {} =
      .ok { cols := colOfOut a :: (pre.map colOf ++ post.map colOf), nOutput := 1,
            outputIndex := pre.length, index := pre.length + 1 + post.length } := by
  rw [List.foldlM_append, xattrs_fold_plain pre {} hpre]
  simp only [bind, Except.bind, List.foldlM, List.nil_append, Nat.zero_add]
  rw [xAttrStep_class _ a ha rfl]
  simp only [bind, Except.bind]
  rw [xattrs_fold_plain post _ hpost]
  simp

theorem colOf_voidClean (a : XAttr) : (colOf a).dom = .void → (colOf a).states = [] := by
  intro h
  simp only [colOf] at *
  split
  · next ht => rw [ht] at h; simp [fromWeka] at h
  · rfl

theorem colOfOut_voidClean (a : XAttr) : (colOfOut a).dom = .void → (colOfOut a).states = [] := by
  intro h
  simp only [colOfOut] at *
  by_cases hc : (decide (a.type = "nominal".toList) || decide (a.type = "string".toList)) = true
  · simp only [hc, if_true] at h
    simp [fromWeka] at h
  · simp only [hc, Bool.false_eq_true, if_false] at h ⊢
    simp only [Bool.or_eq_true, decide_eq_true_eq, not_or] at hc
    rw [if_neg hc.1]

theorem fold_insts (cfg : Cfg) (o : NumOracle F) (filter : List Str → Bool) (k : Nat) (SK : List (Str × Dom)) :
    ∀ (insts : List (List Str)) (df : DF F), skel df.cols = SK → VoidClean df.cols →
    (∀ r ∈ insts.filter filter, k < r.length ∧ RowOKx o (SK.map (·.2)) (rot r k)) →
    ∃ df', insts.foldlM (xInstStep cfg o filter k) df = .ok df' ∧ skel df'.cols = SK ∧ VoidClean df'.cols ∧
      df'.classes = (specRows o (SK.map (·.2)) df.classes ((insts.filter filter).map (fun r => rot r k))).1 ∧
      df'.examples = df.examples ++
        (specRows o (SK.map (·.2)) df.classes ((insts.filter filter).map (fun r => rot r k))).2 := by
  intro insts
  induction insts with
  | nil => intro df hsk hv _; exact ⟨df, rfl, hsk, hv, by simp [specRows], by simp [specRows]⟩
  | cons r insts ih =>
    intro df hsk hv hall
    by_cases hf : filter r = true
    · have hr := hall r (by simp [hf])
      have hdoms : df.cols.map (·.dom) = SK.map (·.2) := by rw [skel_doms, hsk]
      cases hc : df.cols with
      | nil => rw [hc] at hdoms; rw [← hdoms] at hr; simp [RowOKx] at hr
      | cons c0 cs =>
        cases hrr : rot r k with
        | nil => rw [hrr] at hr; rw [← hdoms, hc] at hr; simp [RowOKx] at hr
        | cons v0 vs =>
          have hr2 := hr.2
          rw [← hdoms, hc, hrr] at hr2
          simp only [List.map, RowOKx] at hr2
          obtain ⟨cols', hrec, hsk', hvc'⟩ := readRecord_ok o df false c0 cs v0 vs hc hr2.1 hr2.2 hv
          have hstep : xInstStep cfg o filter k df r =
              .ok { cols := cols', classes := (outVal o df.classes c0.dom v0).2,
                    examples := df.examples ++ [{ input := inputVals o (cs.map (·.dom)) vs,
                                                  output := (outVal o df.classes c0.dom v0).1 }] } := by
            unfold xInstStep
            have hg : (cfg.guards && decide (k ≥ r.length)) = false := by
              simp; intro _; exact hr.1
            simp only [hf, Bool.not_true, Bool.false_eq_true, if_false, hg, rotate?_ok _ r k hr.1, hrr,
              bind, Except.bind, hrec]
          obtain ⟨df', hfold, i1, i2, i3, i4⟩ := ih
            { cols := cols', classes := (outVal o df.classes c0.dom v0).2,
              examples := df.examples ++ [{ input := inputVals o (cs.map (·.dom)) vs,
                                            output := (outVal o df.classes c0.dom v0).1 }] }
            (by rw [← hsk]; exact hsk') hvc' (fun r' hr' => hall r' (by
              simp only [List.filter_cons, hf, if_true, List.mem_cons]; exact Or.inr hr'))
          have hD : SK.map (·.2) = c0.dom :: cs.map (·.dom) := by rw [← hdoms, hc]; rfl
          refine ⟨df', ?_, i1, i2, ?_, ?_⟩
          · simp only [List.foldlM, hstep, bind, Except.bind]; exact hfold
          · rw [i3]
            simp only [List.filter_cons, hf, if_true, List.map_cons, hrr, specRows, hD, outDom_cons]
          · rw [i4]
            simp only [List.filter_cons, hf, if_true, List.map_cons, hrr, specRows, hD, outDom_cons,
              List.tail_cons, List.append_assoc, List.singleton_append]
    · have hstep : xInstStep cfg o filter k df r = .ok df := by
        unfold xInstStep
        simp only [Bool.not_eq_true] at hf
        simp [hf, pure, Except.pure]
      obtain ⟨df', hfold, i1, i2, i3, i4⟩ := ih df hsk hv (fun r' hr' => hall r' (by
        simp only [List.filter_cons, hf, Bool.false_eq_true, if_false]; exact hr'))
      refine ⟨df', ?_, i1, i2, ?_, ?_⟩
      · simp only [List.foldlM, hstep, bind, Except.bind]; exact hfold
      · rw [i3]; simp only [List.filter_cons, hf, Bool.false_eq_true, if_false]
      · rw [i4]; simp only [List.filter_cons, hf, Bool.false_eq_true, if_false]

/-- the header of a well-formed XRFF document: the class attribute is marked (`explicit`) or, by
    default, it is the last attribute -/
inductive XHeader
  | explicit (pre : List XAttr) (a : XAttr) (post : List XAttr)
  | default (init : List XAttr) (last : XAttr)

def XHeader.attrs : XHeader → List XAttr
  | .explicit pre a post => pre ++ a :: post
  | .default init last => init ++ [last]

/-- position of the output attribute -/
def XHeader.k : XHeader → Nat
  | .explicit pre _ _ => pre.length
  | .default init _ => init.length

/-- the columns, output first -/
def XHeader.cols : XHeader → List Col
  | .explicit pre a post => colOfOut a :: (pre.map colOf ++ post.map colOf)
  | .default init last => colOf last :: init.map colOf

def XHeader.WF : XHeader → Prop
  | .explicit pre a post => (∀ x ∈ pre, x.cls = false) ∧ a.cls = true ∧ (∀ x ∈ post, x.cls = false)
  | .default init last => (∀ x ∈ init, x.cls = false) ∧ last.cls = false

theorem xheader_fold (cfg : Cfg) (o : NumOracle F) (filter : List Str → Bool) (h : XHeader) (hwf : h.WF)
    (insts : List (List Str)) :
    readXrff cfg o filter (.doc h.attrs (some insts)) =
      (insts.foldlM (xInstStep cfg o filter h.k) ({ cols := h.cols } : DF F) >>= fun df =>
       isValid df >>= fun v =>
       if cfg.guards && !v then throw (.exc .insufficientData)
       else pure (df, if v then df.examples.length else 0)) := by
  cases h with
  | explicit pre a post =>
    obtain ⟨h1, h2, h3⟩ := hwf
    simp only [readXrff, XHeader.attrs, xattrs_fold_class pre post a h1 h3 h2, bind, Except.bind,
      List.isEmpty_cons, Bool.false_eq_true, if_false, Nat.succ_ne_zero, XHeader.k, XHeader.cols]
  | default init last =>
    obtain ⟨h1, h2⟩ := hwf
    have hall : ∀ x ∈ init ++ [last], x.cls = false := by
      intro x hx
      simp only [List.mem_append, List.mem_singleton] at hx
      rcases hx with hx | rfl
      · exact h1 x hx
      · exact h2
    have hne : (List.map colOf (init ++ [last])).isEmpty = false := by simp
    simp only [readXrff, XHeader.attrs, xattrs_fold_plain _ {} hall, bind, Except.bind, List.nil_append,
      hne, Bool.false_eq_true, if_false, if_true, XHeader.k, XHeader.cols, Nat.zero_add]
    simp

theorem xheader_voidClean (h : XHeader) : VoidClean h.cols := by
  intro c hc
  cases h with
  | explicit pre a post =>
    simp only [XHeader.cols, List.mem_cons, List.mem_append, List.mem_map] at hc
    rcases hc with rfl | ⟨x, _, rfl⟩ | ⟨x, _, rfl⟩
    · exact colOfOut_voidClean a
    · exact colOf_voidClean x
    · exact colOf_voidClean x
  | default init last =>
    simp only [XHeader.cols, List.mem_cons, List.mem_map] at hc
    rcases hc with rfl | ⟨x, _, rfl⟩
    · exact colOf_voidClean last
    · exact colOf_voidClean x

/-- `read_xrff` on the instances of a well-formed document -/
theorem readXrff_faithful (cfg : Cfg) (o : NumOracle F) (filter : List Str → Bool) (h : XHeader) (hwf : h.WF)
    (insts : List (List Str))
    (hrows : ∀ r ∈ insts.filter filter, h.k < r.length ∧ RowOKx o (h.cols.map (·.dom)) (rot r h.k))
    (hcls : Regr o (h.cols.map (·.dom)) ((insts.filter filter).map (fun r => rot r h.k)) ∨
            (Classif o (h.cols.map (·.dom)) ((insts.filter filter).map (fun r => rot r h.k)) ∧
             (specRows o (h.cols.map (·.dom)) [] ((insts.filter filter).map (fun r => rot r h.k))).1.length ≠ 1)) :
    ∃ df, readXrff cfg o filter (.doc h.attrs (some insts)) = .ok (df, (insts.filter filter).length) ∧
      df.examples = (specRows o (h.cols.map (·.dom)) [] ((insts.filter filter).map (fun r => rot r h.k))).2 ∧
      df.classes = (specRows o (h.cols.map (·.dom)) [] ((insts.filter filter).map (fun r => rot r h.k))).1 ∧
      skel df.cols = skel h.cols := by
  have hD : (skel h.cols).map (·.2) = h.cols.map (·.dom) := (skel_doms h.cols).symm
  obtain ⟨df, hfold, i1, i2, i3, i4⟩ := fold_insts cfg o filter h.k (skel h.cols) insts
    ({ cols := h.cols } : DF F) rfl (xheader_voidClean h)
    (fun r hr => by rw [hD]; exact hrows r hr)
  rw [hD] at i3 i4
  simp only [List.nil_append] at i4
  obtain ⟨hval, hlen⟩ := isValid_spec df o _ _
    (fun r' hr' => by
      simp only [List.mem_map] at hr'
      obtain ⟨r, hr, rfl⟩ := hr'
      exact (hrows r hr).2) hcls i4 i3 i2
  refine ⟨df, ?_, i4, i3, i1⟩
  rw [xheader_fold cfg o filter h hwf insts]
  simp only [hfold, bind, Except.bind, hval, Bool.not_true, Bool.and_false, Bool.false_eq_true, if_false,
    if_true, pure, Except.pure, hlen, List.length_map]

/-! ### the hook of `read_xrff` -/

theorem xInstStepH_ofPred (cfg : Cfg) (o : NumOracle F) (f : List Str → Bool) (k : Nat) (df : DF F) (r : List Str) :
    xInstStepH cfg o (Hook.ofPred f) k df r = xInstStep cfg o f k df r := by
  unfold xInstStepH xInstStep Hook.ofPred
  cases f r <;> simp

theorem foldlM_congr {α β ε : Type} (f g : β → α → Except ε β) (h : ∀ b a, f b a = g b a) :
    ∀ (l : List α) (b : β), l.foldlM f b = l.foldlM g b := by
  intro l
  induction l with
  | nil => intro b; rfl
  | cons a l ih =>
    intro b
    simp only [List.foldlM, h b a]
    cases g b a with
    | error e => rfl
    | ok b' => exact ih b'

/-- the model with a filter predicate is the model with the hook that only filters -/
theorem readXrff_eq_H (cfg : Cfg) (o : NumOracle F) (f : List Str → Bool) (doc : XDoc) :
    readXrff cfg o f doc = readXrffH cfg o (Hook.ofPred f) doc := by
  cases doc with
  | parseError => rfl
  | noAttributes => rfl
  | doc attrs instances =>
    cases instances with
    | none => rfl
    | some insts =>
      simp only [readXrff, readXrffH]
      congr 1
      funext st
      split
      · rfl
      · simp only [foldlM_congr _ _ (fun b a => (xInstStepH_ofPred cfg o f _ b a).symm) insts]

theorem ofPred_true : Hook.ofPred (fun _ => true) = (some : Hook) := by
  funext r; simp [Hook.ofPred]

/-- the instance loop with a hook is the loop without a hook over the records the hook returns -/
theorem foldl_xInstStepH (cfg : Cfg) (o : NumOracle F) (hook : Hook) (k : Nat) : ∀ (insts : List (List Str)) (df : DF F),
    insts.foldlM (xInstStepH cfg o hook k) df = (insts.filterMap hook).foldlM (xInstStepH cfg o some k) df := by
  intro insts
  induction insts with
  | nil => intro df; rfl
  | cons r insts ih =>
    intro df
    cases hr : hook r with
    | none =>
      have : xInstStepH cfg o hook k df r = .ok df := by simp [xInstStepH, hr, pure, Except.pure]
      simp only [List.foldlM, this, bind, Except.bind, List.filterMap_cons, hr]
      exact ih df
    | some r' =>
      have : xInstStepH cfg o hook k df r = xInstStepH cfg o some k df r' := by simp [xInstStepH, hr]
      simp only [List.foldlM, this, List.filterMap_cons, hr]
      cases xInstStepH cfg o some k df r' with
      | error e => rfl
      | ok df' => exact ih df'

theorem readXrffH_filterMap (cfg : Cfg) (o : NumOracle F) (hook : Hook) (attrs : List XAttr) (insts : List (List Str)) :
    readXrffH cfg o hook (.doc attrs (some insts)) = readXrffH cfg o some (.doc attrs (some (insts.filterMap hook))) := by
  simp only [readXrffH]
  congr 1
  funext st
  split
  · rfl
  · simp only [foldl_xInstStepH cfg o hook _ insts]

end Vita.C09
