/-
  C09 / C10 — model of `vita::dataframe` import (`src/kernel/gp/src/dataframe.cc`):
  `columns_info::build`, `encode`, `class_name`, `to_example`, `read_record`, `is_valid`,
  `read_csv`, `read_xrff` (from the document tinyxml2 delivers), and of
  `category_set` / `src_problem::setup_terminals` / `variable::eval` / `src_interpreter::fetch_var`.

  Every container access the C++ performs with an index that is not obviously in range is a
  *checked* access here (`rotate?`, `buildGo`, `fetchVar`): it yields `Err.fault` where the C++
  reads or writes out of bounds.  `std::stod` / `std::stoi` / `std::get` are partial: they yield
  `Err.exc`.  `Cfg.guards` selects between the code as found (`false`: `assert`s only, compiled
  out under NDEBUG) and the code after the `fix:` commits (`true`).
-/
import Vita.C09.Csv

namespace Vita.C09

/-! ### outcomes -/

inductive ExcKind
  | dataFormat          -- vita::exception::data_format
  | insufficientData    -- vita::exception::insufficient_data
  | stdNumber           -- std::invalid_argument / std::out_of_range from stod / stoi
  | badVariant          -- std::bad_variant_access from `label(e)`
  deriving DecidableEq, Repr

inductive Site
  | build               -- columns_info::build: `cols_[idx]`
  | rotateCsv           -- read_csv: std::rotate(begin, begin + k, begin + k + 1)
  | rotateXrff          -- read_xrff: the same
  | fetchVar            -- src_interpreter::fetch_var: `(*example_)[i]`
  deriving DecidableEq, Repr

inductive Err
  | exc (k : ExcKind)
  | fault (s : Site)
  deriving DecidableEq, Repr

abbrev M := Except Err

/-! ### values, columns, examples -/

inductive Dom | void | int | dbl | str
  deriving DecidableEq, Repr

inductive Val (F : Type)
  | void
  | int (n : Int)
  | dbl (x : F)
  | str (s : Str)
  deriving DecidableEq, Repr

structure Col where
  name : Str := []
  dom : Dom := .void
  states : List Str := []        -- std::set<value_t>; only strings are ever inserted
  deriving DecidableEq, Repr

structure Example (F : Type) where
  input : List (Val F) := []
  output : Val F := .void
  deriving DecidableEq, Repr

/-- `classes_map_`: label ↦ id, here in order of insertion -/
abbrev ClassMap := List (Str × Nat)

structure DF (F : Type) where
  cols : List Col := []
  classes : ClassMap := []
  examples : List (Example F) := []

structure Cfg where
  guards : Bool := true
  /-- number of lines the sniffer inspects (`const std::size_t lines(20)` in `pocket_csv::sniffer`) -/
  sniffLines : Nat := 20

/-! ### class encoding -/

def lookup (m : ClassMap) (label : Str) : Option Nat := (m.find? (fun p => p.1 == label)).map (·.2)

/-- `dataframe::encode`: a new label gets `classes()` = the current size of the map -/
def encode (m : ClassMap) (label : Str) : Nat × ClassMap :=
  match lookup m label with
  | some i => (i, m)
  | none => (m.length, m ++ [(label, m.length)])

/-- `dataframe::class_name`: the label stored with id `i`, `""` when there is none.
    (The C++ walks the `std::map` in key order; ids are unique – `ClassInv` – so the order of
    the walk does not matter.) -/
def className (m : ClassMap) (i : Nat) : Str :=
  match m.find? (fun p => p.2 == i) with
  | some p => p.1
  | none => []

/-! ### `columns_info::build` -/

/-- the `set_domain` lambda, once `cols_[idx]` has been fetched -/
def setDomain {F} (o : NumOracle F) (first : Bool) (c : Col) (x : Str) : Col :=
  let value := trim x
  if value.isEmpty then c
  else
    let number := isNumber o value
    let classification := first && !number
    if c.dom = .void then { c with dom := if number || classification then .dbl else .str } else c

/-- `for (field = 0; field < fields; ++field) set_domain(field)`; `cols_[idx]` is touched only
    for a non-blank field: that access is out of bounds when the record is wider than `cols_` -/
def buildGo {F} (o : NumOracle F) : Bool → List Col → List Str → M (List Col)
  | _, cs, [] => pure cs
  | _, [], x :: xs => if isBlank x then buildGo o false [] xs else throw (.fault .build)
  | first, c :: cs, x :: xs => do
    let rest ← buildGo o false cs xs
    pure (setDomain o first c x :: rest)

def build {F} (cfg : Cfg) (o : NumOracle F) (cols : List Col) (r : List Str) (headerFirst : Bool) :
    M (List Col) :=
  if cols.isEmpty && headerFirst then
    pure (r.map (fun n => { name := trim n }))
  else
    let cols := if cols.isEmpty then List.replicate r.length {} else cols
    if cfg.guards && cols.length != r.length then pure cols     -- fix: malformed record ignored
    else buildGo o true cols r

/-! ### `to_example`, `read_record` -/

def convert {F} (o : NumOracle F) (d : Dom) (s : Str) : M (Val F) :=
  match d with
  | .int => match o.stoi s with
    | some n => pure (.int n)
    | none => throw (.exc .stdNumber)
  | .dbl => match o.stod s with
    | some x => pure (.dbl x)
    | none => throw (.exc .stdNumber)
  | .str => pure (.str s)
  | .void => pure .void

def setInsert (xs : List Str) (x : Str) : List Str := if xs.contains x then xs else xs ++ [x]

def addState (add : Bool) (c : Col) (feature : Str) : Col :=
  if add && c.dom = .str then { c with states := setInsert c.states feature } else c

/-- columns `1 …` of `to_example`: columns with a void domain contribute nothing -/
def inputsGo {F} (o : NumOracle F) (add : Bool) : List Col → List Str → M (List Col × List (Val F))
  | c :: cs, x :: xs => do
    if c.dom = .void then
      let (cs', vs) ← inputsGo o add cs xs
      pure (c :: cs', vs)
    else
      let feature := trim x
      let v ← convert o c.dom feature
      let (cs', vs) ← inputsGo o add cs xs
      pure (addState add c feature :: cs', v :: vs)
  | cs, _ => pure (cs, [])

/-- column 0 of `to_example`: the output value, the class map and the column afterwards -/
def outputOf {F} (o : NumOracle F) (classes : ClassMap) (c0 : Col) (v0 : Str) (add : Bool) :
    M (Val F × ClassMap × Col) :=
  if c0.dom = .void then pure (Val.void, classes, c0)
  else if !isNumber o v0 then
    pure (Val.int (encode classes (trim v0)).1, (encode classes (trim v0)).2, addState add c0 (trim v0))
  else
    convert o c0.dom (trim v0) >>= fun x => pure (x, classes, addState add c0 (trim v0))

/-- `dataframe::to_example` (requires `v.size() == columns.size()`, checked by `read_record`) -/
def toExample {F} (o : NumOracle F) (df : DF F) (v : List Str) (add : Bool) : M (DF F × Example F) :=
  match df.cols, v with
  | c0 :: cs, v0 :: vs =>
    outputOf o df.classes c0 v0 add >>= fun r =>
    inputsGo o add cs vs >>= fun q =>
    pure ({ df with cols := r.2.2 :: q.1, classes := r.2.1 }, { input := q.2, output := r.1 })
  | _, _ => pure (df, {})

/-- `dataframe::read_record` -/
def readRecord {F} (o : NumOracle F) (df : DF F) (r : List Str) (add : Bool) : M (DF F) :=
  if r.length != df.cols.length then pure df
  else do
    let (df', e) ← toExample o df r add
    pure { df' with examples := df'.examples ++ [e] }

/-! ### `is_valid` -/

/-- `label(e)`: `std::get<D_INT>` throws on any other alternative -/
def label {F} (e : Example F) : M Int :=
  match e.output with
  | .int n => pure n
  | _ => throw (.exc .badVariant)

def examplesValid {F} (cl inSize : Nat) : List (Example F) → M Bool
  | [] => pure true
  | e :: es =>
    if e.input.length != inSize then pure false
    else if cl = 0 then examplesValid cl inSize es
    else do
      let l ← label e
      if l < 0 || l ≥ cl then pure false else examplesValid cl inSize es

def colsValid (cols : List Col) : Bool := cols.all (fun c => !(c.dom = .void && !c.states.isEmpty))

/-- `dataframe::is_valid` -/
def isValid {F} (df : DF F) : M Bool :=
  match df.examples with
  | [] => pure true
  | e0 :: _ =>
    if df.classes.length = 1 then pure false
    else do
      let b ← examplesValid df.classes.length e0.input.length df.examples
      pure (b && colsValid df.cols)

/-! ### `read_csv` -/

/-- `std::rotate(first, first + k, first + k + 1)`; `k = 0` returns at once (`first == middle`) -/
def rotate? (site : Site) (r : List Str) (k : Nat) : M (List Str) :=
  if k = 0 then pure r
  else match r[k]? with
    | some x => pure (x :: (r.take k ++ r.drop (k + 1)))
    | none => throw (.fault site)

/-- `dataframe::params`: `dialect` (delimiter, trim_ws, has_header, quoting), `filter`, `output_index` -/
structure Params where
  delim : Char := '\x00'           -- `dialect.delimiter`, `'\x00'` = sniff
  header : Option Bool := none     -- `dialect.has_header`, `none` = GUESS_HEADER
  trimWs : Bool := false           -- `dialect.trim_ws`
  keepQuotes : Bool := false       -- `dialect.quoting == KEEP_QUOTES`
  outIdx : Option Nat := some 0    -- `output_index`
  hook : Hook := some              -- `filter` (`nullptr` = `some`)

/-- the dialect `read_csv` ends up with: the sniffer runs when the header or the delimiter
    is left open, and it always judges the header with the delimiter *it* guessed; each of the two
    sniffed values is used only where the caller left the setting open (two independent `if`s) -/
def resolveDialect {F} (cfg : Cfg) (o : NumOracle F) (p : Params) (lines : List Str) : Char × Bool :=
  if p.header.isNone || p.delim = '\x00' then
    let s := sniffer o cfg.sniffLines lines
    (if p.delim = '\x00' then s.1 else p.delim, match p.header with | none => s.2 | some h => h)
  else (p.delim, p.header.getD false)

structure St (F : Type) where
  df : DF F := {}
  count : Nat := 0

/-- second half of the loop body of `read_csv`: `rec'` is the record with the output cell first -/
def csvProceed {F} (cfg : Cfg) (o : NumOracle F) (hasHdr : Bool) (st : St F) (rec' : List Str) :
    M (St F) :=
  (if st.count < 10 then build cfg o st.df.cols rec' hasHdr else pure st.df.cols) >>= fun cols =>
  (if !hasHdr || st.count != 0 then readRecord o { st.df with cols := cols } rec' true
   else pure { st.df with cols := cols }) >>= fun df =>
  pure { df := df, count := st.count + 1 }

/-- body of the `for (auto record : parser …)` loop of `read_csv` -/
def csvStep {F} (cfg : Cfg) (o : NumOracle F) (outIdx : Option Nat) (hasHdr : Bool)
    (st : St F) (record : List Str) : M (St F) :=
  match outIdx with
  | some k =>
    if cfg.guards && k ≥ record.length then pure st          -- fix: malformed record skipped
    else do
      let rec' ← rotate? .rotateCsv record k
      csvProceed cfg o hasHdr st rec'
  | none => csvProceed cfg o hasHdr st ([] :: record)

/-- `read_csv` once the records are known -/
def readCsvRecs {F} (cfg : Cfg) (o : NumOracle F) (outIdx : Option Nat) (hasHdr : Bool)
    (recs : List (List Str)) : M (DF F) :=
  recs.foldlM (csvStep cfg o outIdx hasHdr) {} >>= fun st =>
  isValid st.df >>= fun v =>
  if !v || st.df.examples.isEmpty then throw (.exc .insufficientData) else pure st.df

/-- `dataframe::read_csv(std::istream &, params)` on a fresh dataframe -/
def readCsv {F} (cfg : Cfg) (o : NumOracle F) (p : Params) (bytes : Str) : M (DF F) :=
  let lines := splitLines bytes
  let (d, h) := resolveDialect cfg o p lines
  readCsvRecs cfg o p.outIdx h
    (records { delim := d, trimWs := p.trimWs, keepQuotes := p.keepQuotes } p.hook lines)

/-! ### `read_xrff` from the parsed document -/

structure XAttr where
  name : Str
  cls : Bool                -- class="yes"
  type : Str
  labels : List Str         -- texts of the direct <label> children

inductive XDoc
  | parseError                                               -- tinyxml2 rejects the text
  | noAttributes                                             -- dataset/header/attributes missing
  | doc (attrs : List XAttr) (instances : Option (List (List Str)))

/-- `from_weka` -/
def fromWeka (t : Str) : Dom :=
  if t = "integer".toList then .int
  else if t = "numeric".toList || t = "real".toList then .dbl
  else if t = "nominal".toList || t = "string".toList then .str
  else .void

structure XSt where
  cols : List Col := []
  nOutput : Nat := 0
  outputIndex : Nat := 0
  index : Nat := 0

/-- one `<attribute>`: `++n_output; output_index = index;` and the "multiple output columns"
    exception for a class attribute, nominal / string class attributes become numeric, the column
    goes to the front when it is the class attribute -/
def xAttrStep (st : XSt) (a : XAttr) : M XSt :=
  let nOut := if a.cls then st.nOutput + 1 else st.nOutput
  if a.cls && nOut > 1 then throw (.exc .dataFormat)
  else
    let ty := if a.cls && (a.type = "nominal".toList || a.type = "string".toList) then "numeric".toList
              else a.type
    let states := if ty = "nominal".toList then a.labels.foldl setInsert [] else []
    let c : Col := { name := a.name, dom := fromWeka ty, states := states }
    pure { cols := if a.cls then c :: st.cols else st.cols ++ [c], nOutput := nOut,
           outputIndex := if a.cls then st.index else st.outputIndex, index := st.index + 1 }

/-- one `<instance>`: filter, rotation (fix: only when the instance has a value `k`; otherwise
    `read_record` rejects it), `read_record` -/
def xInstStep {F} (cfg : Cfg) (o : NumOracle F) (filter : List Str → Bool) (k : Nat)
    (df : DF F) (record : List Str) : M (DF F) :=
  if !filter record then pure df
  else
    (if cfg.guards && k ≥ record.length then pure record else rotate? .rotateXrff record k) >>= fun rec' =>
    readRecord o df rec' false

/-- `read_xrff`: the dataframe and the returned count (before the fix: `0` and an inconsistent
    dataframe when `is_valid()` fails; after it: `exception::insufficient_data`) -/
def readXrff {F} (cfg : Cfg) (o : NumOracle F) (filter : List Str → Bool) : XDoc → M (DF F × Nat)
  | .parseError => throw (.exc .dataFormat)
  | .noAttributes => throw (.exc .dataFormat)
  | .doc attrs instances =>
    attrs.foldlM xAttrStep {} >>= fun st =>
    if st.cols.isEmpty then throw (.exc .dataFormat)
    else
      let cols := if st.nOutput = 0 then st.cols.getLast?.toList ++ st.cols.dropLast else st.cols
      let k := if st.nOutput = 0 then st.index - 1 else st.outputIndex
      match instances with
      | none => throw (.exc .dataFormat)
      | some insts =>
        insts.foldlM (xInstStep cfg o filter k) { cols := cols } >>= fun df =>
        isValid df >>= fun v =>
        if cfg.guards && !v then throw (.exc .insufficientData)
        else pure (df, if v then df.examples.length else 0)

/-- one `<instance>` with the hook as it is (`filter_hook_t` may rewrite the record): the hook is
    handed the values in the order of the `<value>` elements, *before* the output value is moved to
    the front; what it leaves in the record is what is rotated and read -/
def xInstStepH {F} (cfg : Cfg) (o : NumOracle F) (hook : Hook) (k : Nat)
    (df : DF F) (record : List Str) : M (DF F) :=
  match hook record with
  | none => pure df
  | some r =>
    (if cfg.guards && k ≥ r.length then pure r else rotate? .rotateXrff r k) >>= fun rec' =>
    readRecord o df rec' false

/-- `read_xrff` with the hook as it is; `p.dialect` and `p.output_index` are not looked at
    ("used only when reading CSV files"), so they are not parameters here -/
def readXrffH {F} (cfg : Cfg) (o : NumOracle F) (hook : Hook) : XDoc → M (DF F × Nat)
  | .parseError => throw (.exc .dataFormat)
  | .noAttributes => throw (.exc .dataFormat)
  | .doc attrs instances =>
    attrs.foldlM xAttrStep {} >>= fun st =>
    if st.cols.isEmpty then throw (.exc .dataFormat)
    else
      let cols := if st.nOutput = 0 then st.cols.getLast?.toList ++ st.cols.dropLast else st.cols
      let k := if st.nOutput = 0 then st.index - 1 else st.outputIndex
      match instances with
      | none => throw (.exc .dataFormat)
      | some insts =>
        insts.foldlM (xInstStepH cfg o hook k) { cols := cols } >>= fun df =>
        isValid df >>= fun v =>
        if cfg.guards && !v then throw (.exc .insufficientData)
        else pure (df, if v then df.examples.length else 0)

/-! ### `dataframe::read`: the format is chosen by the extension of the file name -/

/-- `std::tolower` ("C" locale) -/
def toLower (c : Char) : Char := if isUpper c then Char.ofNat (c.toNat + 32) else c

/-- `vita::iequals`: `std::equal` over both ranges with `tolower(c1) == tolower(c2)` -/
def iequals : Str → Str → Bool
  | [], [] => true
  | a :: as, b :: bs => toLower a == toLower b && iequals as bs
  | _, _ => false

/-- `iequals(ext, ".xrff") || iequals(ext, ".xml")` -/
def isXrffExt (ext : Str) : Bool := iequals ext ".xrff".toList || iequals ext ".xml".toList

/-- `dataframe::read(fn, p)` for a file with extension `ext` (`fn.extension()`), content `bytes`, which
    tinyxml2 parses to `doc`: the dataframe and the returned count -/
def readFile {F} (cfg : Cfg) (o : NumOracle F) (p : Params) (ext : Str) (bytes : Str) (doc : XDoc) : M (DF F × Nat) :=
  if isXrffExt ext then readXrffH cfg o p.hook doc
  else readCsv cfg o p bytes >>= fun df => pure (df, df.examples.length)

/-! ### `category_set`, `setup_terminals`, variables -/

structure VarSym where
  name : Str
  var : Nat                  -- `variable::var_`
  category : Option Nat      -- `none` = undefined_category
  deriving DecidableEq, Repr

/-- `category_set::category_set(columns, typing)`: (category, domain) per column -/
def categoriesGo (strong : Bool) : List Col → Nat → List (Option Nat × Dom) → List (Option Nat × Dom)
  | [], _, acc => acc
  | c :: cs, next, acc =>
    if c.dom = .void then categoriesGo strong cs next (acc ++ [(none, c.dom)])
    else if strong || c.dom = .str then categoriesGo strong cs (next + 1) (acc ++ [(some next, c.dom)])
    else match acc.find? (fun x => x.2 = c.dom) with
      | some x => categoriesGo strong cs next (acc ++ [(x.1, c.dom)])
      | none => categoriesGo strong cs (next + 1) (acc ++ [(some next, c.dom)])

def categories (strong : Bool) (cols : List Col) : List (Option Nat × Dom) := categoriesGo strong cols 0 []

/-- decimal digits of `std::to_string(i)` -/
def natStr (i : Nat) : Str := (Nat.repr i).toList

/-- name of the variable made for column `i` -/
def varName (c : Col) (i : Nat) : Str := if c.name.isEmpty then 'X' :: natStr i else c.name

/-- the loop of `setup_terminals` over the columns `i, i + 1, …` (`v` = next index into the
    input vector).  As found (`guards = false`) every column `i` becomes `variable(name, i - 1,
    category)`; after the fix a column without a domain – which `to_example` leaves out of the
    examples – gets no variable and does not use up an index. -/
def setupVarsGo (guards : Bool) (cats : List (Option Nat × Dom)) : List Col → Nat → Nat → List VarSym
  | [], _, _ => []
  | c :: cs, i, v =>
    if guards && c.dom = .void then setupVarsGo guards cats cs (i + 1) v
    else { name := varName c i, var := v, category := (cats.getD i (none, .void)).1 } ::
           setupVarsGo guards cats cs (i + 1) (v + 1)

/-- the variables `setup_terminals` inserts -/
def setupTerminals (cfg : Cfg) (strong : Bool) (cols : List Col) : M (List VarSym) :=
  if cols.length < 2 then throw (.exc .insufficientData)
  else pure (setupVarsGo cfg.guards (categories strong cols) cols.tail 1 0)

/-- a terminal `setup_terminals` inserts: a variable, or the constant of one of the states of a
    nominal column (`constant<D_STRING>`: named by the text between quotes, evaluates to the text) -/
inductive TermSym
  | var (v : VarSym)
  | const (name val : Str) (category : Option Nat)
  deriving DecidableEq, Repr

/-- `constant<std::string>::quote_str` -/
def quoteStr (s : Str) : Str := '"' :: (s ++ ['"'])

/-- the `for (const auto &s : columns[i].states) switch (columns[i].domain)` loop: states are texts,
    so `std::get<D_DOUBLE / D_INT>` throws when the column is numeric; nothing is inserted (and nothing
    is thrown: the `default:` branch builds an exception object without throwing it) for `d_void` -/
def stateConsts (c : Col) (cat : Option Nat) : M (List TermSym) :=
  match c.dom with
  | .str => pure (c.states.map (fun s => .const (quoteStr s) s cat))
  | .void => pure []
  | _ => if c.states.isEmpty then pure [] else throw (.exc .badVariant)

/-- the whole loop of `setup_terminals`: per column with a variable, the variable followed by the
    constants of its states (insertion order; a `std::set` holds the states, its order is that of the
    texts – the driver prints them in the order of `Col.states`, the tie sorts both sides) -/
def setupSymsGo (guards : Bool) (cats : List (Option Nat × Dom)) : List Col → Nat → Nat → M (List TermSym)
  | [], _, _ => pure []
  | c :: cs, i, v =>
    if guards && c.dom = .void then setupSymsGo guards cats cs (i + 1) v
    else
      stateConsts c (cats.getD i (none, .void)).1 >>= fun ks =>
      setupSymsGo guards cats cs (i + 1) (v + 1) >>= fun rest =>
      pure (.var { name := varName c i, var := v, category := (cats.getD i (none, .void)).1 } :: (ks ++ rest))

/-- every terminal `setup_terminals` inserts, in insertion order -/
def setupSymbols (cfg : Cfg) (strong : Bool) (cols : List Col) : M (List TermSym) :=
  if cols.length < 2 then throw (.exc .insufficientData)
  else setupSymsGo cfg.guards (categories strong cols) cols.tail 1 0

def TermSym.category : TermSym → Option Nat
  | .var v => v.category
  | .const _ _ c => c

/-- `symbol_set::categories()` after `setup_terminals` on an empty symbol set: `views_` grows up to
    the largest category a symbol was inserted with -/
def ssetCategories (syms : List TermSym) : Nat :=
  syms.foldl (fun n s => match s.category with | some c => max n (c + 1) | none => n) 0

/-- `src_interpreter::fetch_var`: `(*example_)[i]`, an out-of-bounds read when `i` is too large -/
def fetchVar {F} (e : Example F) (i : Nat) : M (Val F) :=
  match e.input[i]? with
  | some v => pure v
  | none => throw (.fault .fetchVar)

/-- `variable::eval` under a `src_interpreter` positioned on example `e` -/
def evalVar {F} (v : VarSym) (e : Example F) : M (Val F) := fetchVar e v.var

end Vita.C09
