/-
  C09 — dataset import is faithful to the table.

  Model: Vita/C09/Csv.lean (pocket_csv) and Vita/C09/Model.lean (dataframe import).
  Vocabulary of the statements (defined in the Lemmas files, all plain recursive functions):

    renderField f q / renderLine d fields / renderFile eol lines
                      how a table is written: a field as it is or between quotes with inner quotes
                      doubled, fields joined by the delimiter, every line ended by `eol` LF
    needsQuote d f    the field contains the delimiter or its first non-blank character is a quote
    prep outIdx r     the record as the dataframe sees it: output cell first (an empty surrogate
                      cell when there is no output column), the other cells in their order
    kinds o true r'   the domain each column gets from the first data record
    cellVal o d x     the value a cell of a column with domain `d` has to become
                      (number ↦ `std::stod (trim x)`, text ↦ `trim x`)
    inputVals o D xs  the values of the input cells (columns without a domain are skipped)
    RowOK o D r'      the cells of the record convert under the domains `D`
    Regr / Classif    all output cells are numbers (or there is no output) / all are labels

  Number parsing is a parameter (`NumOracle`): `isNum` = vita::is_number, `stod` = std::stod,
  `stoi` = std::stoi; every theorem holds for every such oracle and every number type `F`.
-/
import Vita.C09.LemmasRead
import Vita.C09.LemmasSniff
import Vita.C09.LemmasTable
import Vita.C09.LemmasXrff
import Vita.C09.LemmasCat
import Vita.C09.LemmasHist
import Vita.C09.LemmasSniffQ

namespace Vita.C09

variable {F : Type}

/-! ## 1. `parse_line` inverts rendering -/

/-- For every delimiter (other than NUL and the quote), both quoting styles (`REMOVE_QUOTES`,
    `KEEP_QUOTES`), `trim_ws` on or off, every list of fields free of NUL / CR / LF and **every**
    choice of the fields to quote that includes the ones that need it, parsing the rendered line
    gives the fields back – `fieldSeen`: between the quotes they were written with when quotes are
    kept, `fieldOut`: trimmed when `trim_ws` is on –, also when the line ends with the CR of a CR LF
    pair. -/
theorem parse_render_dialect (dl : Dialect) (eol : Str) (fields : List (Str × Bool))
    (h0 : dl.delim ≠ '\x00') (hq : dl.delim ≠ QUOTE) (heol : EolOK dl.delim eol) (hne : fields ≠ [])
    (hclean : ∀ p ∈ fields, Clean p.1) (hquoted : ∀ p ∈ fields, needsQuote dl.delim p.1 = true → p.2 = true) :
    parseLine dl (renderLine dl.delim fields ++ eol) =
      fields.map (fun p => fieldOut dl (fieldSeen dl p.1 p.2)) := by
  have := go_line dl h0 hq eol heol fields [] hne
    (fun p hp => ⟨hclean p hp, fun h2 => by
      cases hn : needsQuote dl.delim p.1 with
      | false => rfl
      | true => have := hquoted p hp hn; rw [h2] at this; cases this⟩)
  simpa [parseLine] using this

/-- the default quoting style (`REMOVE_QUOTES`): the fields come back as they were -/
theorem parse_render (d : Char) (trimWs : Bool) (eol : Str) (fields : List (Str × Bool))
    (h0 : d ≠ '\x00') (hq : d ≠ QUOTE) (heol : EolOK d eol) (hne : fields ≠ [])
    (hclean : ∀ p ∈ fields, Clean p.1) (hquoted : ∀ p ∈ fields, needsQuote d p.1 = true → p.2 = true) :
    parseLine { delim := d, trimWs := trimWs } (renderLine d fields ++ eol) =
      fields.map (fun p => if trimWs then trim p.1 else p.1) := by
  have := parse_render_dialect { delim := d, trimWs := trimWs } eol fields h0 hq heol hne hclean hquoted
  simpa [fieldOut, fieldSeen] using this

/-- `KEEP_QUOTES`: a quoted field comes back between its quotes (inner quotes un-doubled) -/
theorem parse_render_keep (d : Char) (eol : Str) (fields : List (Str × Bool))
    (h0 : d ≠ '\x00') (hq : d ≠ QUOTE) (heol : EolOK d eol) (hne : fields ≠ [])
    (hclean : ∀ p ∈ fields, Clean p.1) (hquoted : ∀ p ∈ fields, needsQuote d p.1 = true → p.2 = true) :
    parseLine { delim := d, keepQuotes := true } (renderLine d fields ++ eol) =
      fields.map (fun p => if p.2 then QUOTE :: (p.1 ++ [QUOTE]) else p.1) := by
  have := parse_render_dialect { delim := d, keepQuotes := true } eol fields h0 hq heol hne hclean hquoted
  simpa [fieldOut, fieldSeen] using this

/-- "quote iff needed" -/
theorem parse_render_minimal (d : Char) (fields : List Str) (h0 : d ≠ '\x00') (hq : d ≠ QUOTE)
    (hne : fields ≠ []) (hclean : ∀ f ∈ fields, Clean f) :
    parseLine { delim := d } (renderLine d (fields.map (fun f => (f, needsQuote d f)))) = fields := by
  have := parse_render d false [] (fields.map (fun f => (f, needsQuote d f))) h0 hq (Or.inl rfl)
    (by simpa using hne)
    (by intro p hp; simp only [List.mem_map] at hp; obtain ⟨f, hf, rfl⟩ := hp; exact hclean f hf)
    (by intro p hp; simp only [List.mem_map] at hp; obtain ⟨f, hf, rfl⟩ := hp; exact id)
  simpa [Function.comp_def] using this

/-- the conventional rule (quote every field that contains the delimiter or a quote) and
    "quote everything" are supersets of what is needed -/
theorem parse_render_rfc (d : Char) (fields : List Str) (h0 : d ≠ '\x00') (hq : d ≠ QUOTE)
    (hne : fields ≠ []) (hclean : ∀ f ∈ fields, Clean f) :
    parseLine { delim := d } (renderLine d (fields.map (fun f => (f, needsQuoteRfc d f)))) = fields ∧
    parseLine { delim := d } (renderLine d (fields.map (fun f => (f, true)))) = fields := by
  constructor
  · have := parse_render d false [] (fields.map (fun f => (f, needsQuoteRfc d f))) h0 hq (Or.inl rfl)
      (by simpa using hne)
      (by intro p hp; simp only [List.mem_map] at hp; obtain ⟨f, hf, rfl⟩ := hp; exact hclean f hf)
      (by intro p hp; simp only [List.mem_map] at hp; obtain ⟨f, hf, rfl⟩ := hp; exact needsQuote_le_rfc d f)
    simpa [Function.comp_def] using this
  · have := parse_render d false [] (fields.map (fun f => (f, true))) h0 hq (Or.inl rfl)
      (by simpa using hne)
      (by intro p hp; simp only [List.mem_map] at hp; obtain ⟨f, hf, rfl⟩ := hp; exact hclean f hf)
      (by intro p hp; simp only [List.mem_map] at hp; obtain ⟨f, hf, rfl⟩ := hp; exact fun _ => rfl)
    simpa [Function.comp_def] using this

/-! ## 2. class encoding -/

/-- `classes_map_` as `read_csv` / `read_xrff` leave it satisfies `ClassInv` (ids = positions,
    labels distinct): it starts empty and only `encode` touches it -/
theorem encode_preserves (m : ClassMap) (h : ClassInv m) (l : Str) : ClassInv (encode m l).2 :=
  encode_inv m h l

/-- equal labels get equal ids: the id `encode` returns is the one stored for the label, and the
    label keeps it however many labels are encoded afterwards -/
theorem encode_fun (m : ClassMap) (l : Str) :
    lookup (encode m l).2 l = some (encode m l).1 ∨ ¬ ClassInv m := by
  by_cases h : ClassInv m
  · exact Or.inl (lookup_of_mem _ (encode_inv m h l) l _ (encode_mem m l))
  · exact Or.inr h

theorem encode_stable (m : ClassMap) (h : ClassInv m) (l l' : Str) (i : Nat) (hl : lookup m l = some i) :
    lookup (encode m l').2 l = some i := by
  obtain ⟨t, ht⟩ := encode_grow m l'
  apply lookup_of_mem _ (encode_inv m h l')
  rw [ht]
  exact List.mem_append_left _ (lookup_some_mem m l i hl)

/-- distinct labels get distinct ids -/
theorem encode_inj (m : ClassMap) (h : ClassInv m) (l1 l2 : Str) (i : Nat)
    (h1 : lookup m l1 = some i) (h2 : lookup m l2 = some i) : l1 = l2 := by
  have hnd : (m.map (·.2)).Nodup := by rw [h.1]; exact List.nodup_range
  have := nodup_map_inj (·.2) m hnd (l1, i) (lookup_some_mem m l1 i h1) (l2, i) (lookup_some_mem m l2 i h2) rfl
  exact congrArg Prod.fst this

/-- names are recoverable from ids -/
theorem class_name_left_inverse (m : ClassMap) (h : ClassInv m) (l : Str) :
    className (encode m l).2 (encode m l).1 = l :=
  className_of_mem _ (encode_inv m h l) l _ (encode_mem m l)

theorem class_name_of_lookup (m : ClassMap) (h : ClassInv m) (l : Str) (i : Nat) (hl : lookup m l = some i) :
    className m i = l :=
  className_of_mem m h l i (lookup_some_mem m l i hl)

/-- **label_trimmed.**  Class labels are compared after trimming: two output cells that differ only
    in surrounding white space (`Iris-setosa` and ` Iris-setosa `, quoted or not) are the same class –
    the second one gets the id of the first and adds nothing to the class map – and the name stored
    for the id is the trimmed text. -/
theorem label_trimmed (o : NumOracle F) (m : ClassMap) (hinv : ClassInv m) (c0 : Col) (a b : Str) (add : Bool)
    (hd : c0.dom ≠ .void) (ha : isNumber o a = false) (hab : trim a = trim b) :
    ∃ (id : Nat) (m' : ClassMap) (c' : Col), outputOf o m c0 a add = .ok (.int id, m', c') ∧ ClassInv m' ∧
      lookup m' (trim a) = some id ∧ className m' id = trim a ∧ c'.dom = c0.dom ∧
      ∃ c'', outputOf o m' c' b add = .ok (.int id, m', c'') := by
  have hb : isNumber o b = false := by
    rw [← isNumber_trim, ← hab, isNumber_trim]; exact ha
  have hinv' := encode_inv m hinv (trim a)
  have hlk : lookup (encode m (trim a)).2 (trim a) = some (encode m (trim a)).1 :=
    lookup_of_mem _ hinv' _ _ (encode_mem m (trim a))
  have hdom : (addState add c0 (trim a)).dom = c0.dom := by
    unfold addState; split <;> rfl
  refine ⟨(encode m (trim a)).1, (encode m (trim a)).2, addState add c0 (trim a), ?_, hinv', hlk,
    className_of_mem _ hinv' _ _ (encode_mem m (trim a)), hdom, addState add (addState add c0 (trim a)) (trim b), ?_⟩
  · simp [outputOf, hd, ha, pure, Except.pure]
  · have he : encode (encode m (trim a)).2 (trim b) = ((encode m (trim a)).1, (encode m (trim a)).2) := by
      rw [← hab]
      unfold encode at hlk ⊢
      simp only [hlk]
    simp [outputOf, hdom, hd, hb, he, pure, Except.pure]

/-! ## 3. rows of a well-formed table -/

/-- with output index `k` the record seen by the dataframe is cell `k` followed by the others -/
theorem prep_some (r : List Str) (k : Nat) (h : k < r.length) : prep (some k) r = r[k] :: r.eraseIdx k := by
  unfold prep rot
  by_cases hk : k = 0
  · subst hk
    cases r with
    | nil => simp at h
    | cons a b => simp
  · simp only [hk, if_false, List.getElem?_eq_getElem h, List.eraseIdx_eq_take_drop_succ]

theorem prep_none (r : List Str) : prep none r = [] :: r := rfl

/-- **rows_faithful.**  Reading the rendered file of a well-formed, consistently typed table with
    the explicit dialect (delimiter `d`, header flag = whether the table has one) succeeds and yields
    one example per data row, in order; example `i` has as inputs exactly the values of the
    non-output cells of row `i` in their original order, as output the value of the designated
    cell (nothing when there is no output column, the number for a numeric output, the class id of
    the label otherwise – with the label recoverable from the id); the columns are named by the
    header (output first) and carry the domains of the first data row. -/
theorem rows_faithful (cfg : Cfg) (o : NumOracle F) (d : Char) (eol : Str) (t : Table) (p : Params)
    (hd : p.delim = d) (hh : p.header = some t.header.isSome) (hf : p.hook = some)
    (hwf : WellFormed d eol t) (hk : ∀ k, p.outIdx = some k → k < t.row0.length)
    (hty : Typed o p.outIdx p.trimWs p.keepQuotes t) :
    ∃ df, readCsv cfg o p (t.render d eol) = .ok df ∧
      df.examples.length = t.rows.length ∧
      (∀ pr ∈ t.rows.zip df.examples,
        pr.2.input = inputVals o (kinds o true (prep p.outIdx (fieldsOf p.trimWs p.keepQuotes t.row0))).tail
                       (prep p.outIdx (fieldsOf p.trimWs p.keepQuotes pr.1)).tail) ∧
      (Regr o (kinds o true (prep p.outIdx (fieldsOf p.trimWs p.keepQuotes t.row0)))
          (t.rows.map (fun r => prep p.outIdx (fieldsOf p.trimWs p.keepQuotes r))) →
        df.classes = [] ∧
        ∀ pr ∈ t.rows.zip df.examples,
          pr.2.output = if outDom (kinds o true (prep p.outIdx (fieldsOf p.trimWs p.keepQuotes t.row0))) = .void then .void
            else cellVal o (outDom (kinds o true (prep p.outIdx (fieldsOf p.trimWs p.keepQuotes t.row0))))
                   ((prep p.outIdx (fieldsOf p.trimWs p.keepQuotes pr.1)).headD [])) ∧
      (Classif o (kinds o true (prep p.outIdx (fieldsOf p.trimWs p.keepQuotes t.row0)))
          (t.rows.map (fun r => prep p.outIdx (fieldsOf p.trimWs p.keepQuotes r))) →
        ClassInv df.classes ∧
        ∀ pr ∈ t.rows.zip df.examples, ∃ id : Nat,
          pr.2.output = .int id ∧
          lookup df.classes (trim ((prep p.outIdx (fieldsOf p.trimWs p.keepQuotes pr.1)).headD [])) = some id ∧
          className df.classes id = trim ((prep p.outIdx (fieldsOf p.trimWs p.keepQuotes pr.1)).headD [])) ∧
      skel df.cols =
        (colNames p.outIdx (t.header.map (fieldsOf p.trimWs p.keepQuotes)) (prep p.outIdx (fieldsOf p.trimWs p.keepQuotes t.row0)).length).zip
          (kinds o true (prep p.outIdx (fieldsOf p.trimWs p.keepQuotes t.row0))) := by
  have hd0 : p.delim ≠ '\x00' := by rw [hd]; exact hwf.d0
  have hrecs := records_of_table d eol t p.trimWs p.keepQuotes p.hook hwf
  have hlines : (t.lines.map (fieldsOf p.trimWs p.keepQuotes)).filterMap p.hook =
      (t.header.map (fieldsOf p.trimWs p.keepQuotes)).toList ++ fieldsOf p.trimWs p.keepQuotes t.row0 :: t.rest.map (fieldsOf p.trimWs p.keepQuotes) := by
    rw [hf]
    cases hh' : t.header <;> simp [Table.lines, Table.rows, hh']
  have hflen : ∀ l, (fieldsOf p.trimWs p.keepQuotes l).length = l.length := fieldsOf_length _ _
  obtain ⟨df, hread, hex, hcl, hsk⟩ := readCsvRecs_faithful cfg o p.outIdx (t.header.map (fieldsOf p.trimWs p.keepQuotes))
    (fieldsOf p.trimWs p.keepQuotes t.row0) (t.rest.map (fieldsOf p.trimWs p.keepQuotes))
    (by
      intro r hr k hko
      have : ∃ l ∈ t.lines, r = fieldsOf p.trimWs p.keepQuotes l := by
        cases hh' : t.header with
        | none =>
          simp only [hh', Option.map_none, Option.toList_none, List.nil_append, List.mem_cons, List.mem_map] at hr
          rcases hr with rfl | ⟨l, hl, rfl⟩
          · exact ⟨t.row0, by simp [Table.lines, Table.rows], rfl⟩
          · exact ⟨l, by simp [Table.lines, Table.rows, hl], rfl⟩
        | some h =>
          simp only [hh', Option.map_some, Option.toList_some, List.singleton_append, List.mem_cons, List.mem_map] at hr
          rcases hr with rfl | rfl | ⟨l, hl, rfl⟩
          · exact ⟨h, by simp [Table.lines, hh'], rfl⟩
          · exact ⟨t.row0, by simp [Table.lines, Table.rows], rfl⟩
          · exact ⟨l, by simp [Table.lines, Table.rows, hl], rfl⟩
      obtain ⟨l, hl, rfl⟩ := this
      rw [hflen, hwf.rect l hl]
      exact hk k hko)
    (by
      intro h hh'
      cases hh'' : t.header with
      | none => simp [hh''] at hh'
      | some h0 =>
        simp only [hh'', Option.map_some, Option.some.injEq] at hh'
        subst hh'
        rw [hflen, hflen]
        exact hwf.rect h0 (by simp [Table.lines, hh'']))
    (by
      intro r hr
      simp only [List.mem_cons, List.mem_map] at hr
      rcases hr with rfl | ⟨l, hl, rfl⟩
      · exact hty.rows t.row0 (by simp [Table.rows])
      · exact hty.rows l (by simp [Table.rows, hl]))
    (by simpa [Table.rows, Function.comp_def] using hty.cls)
  have hrows' : (fieldsOf p.trimWs p.keepQuotes t.row0 :: t.rest.map (fieldsOf p.trimWs p.keepQuotes)).map (prep p.outIdx) =
      t.rows.map (fun r => prep p.outIdx (fieldsOf p.trimWs p.keepQuotes r)) := by
    simp [Table.rows, Function.comp_def]
  rw [hrows'] at hex hcl
  have hrok : ∀ r' ∈ t.rows.map (fun r => prep p.outIdx (fieldsOf p.trimWs p.keepQuotes r)), r' ≠ [] := by
    intro r' hr'
    simp only [List.mem_map] at hr'
    obtain ⟨r, hr, rfl⟩ := hr'
    apply prep_ne_nil
    intro h
    have h1 := hflen r
    rw [h] at h1
    have h2 := hwf.rect r (by simp [Table.lines, hr])
    have : t.row0.length = 0 := by simp at h1; omega
    exact hwf.width (List.length_eq_zero_iff.1 this)
  have hzip : ∀ pr ∈ t.rows.zip df.examples,
      (prep p.outIdx (fieldsOf p.trimWs p.keepQuotes pr.1), pr.2) ∈
        (t.rows.map (fun r => prep p.outIdx (fieldsOf p.trimWs p.keepQuotes r))).zip df.examples := by
    intro pr hpr
    rw [List.zip_map_left]
    exact List.mem_map.2 ⟨pr, hpr, rfl⟩
  have hisSome : (t.header.map (fieldsOf p.trimWs p.keepQuotes)).isSome = t.header.isSome := by cases t.header <;> rfl
  refine ⟨df, ?_, ?_, ?_, ?_, ?_, ?_⟩
  · unfold readCsv resolveDialect
    simp only [hh, Option.isNone_some, hd0, Bool.false_or, decide_false, Bool.false_eq_true, if_false,
      Option.getD_some]
    rw [hd, hrecs, hlines, ← hisSome]
    exact hread
  · rw [hex, (specRows_inputs o _ _ [] (fun r' hr' => by
      simp only [List.mem_map] at hr'
      obtain ⟨r, hr, rfl⟩ := hr'
      exact rowOK_x o _ _ (hty.rows r hr))).2]
    simp
  · intro pr hpr
    have := specRows_zip_inputs o _ _ [] hrok _ (by rw [← hex]; exact hzip pr hpr)
    exact this
  · intro hr
    refine ⟨by rw [hcl]; exact specRows_regr o _ _ [] hr, ?_⟩
    intro pr hpr
    exact specRows_zip_regr o _ _ [] hrok hr _ (by rw [← hex]; exact hzip pr hpr)
  · intro hc
    obtain ⟨hinv, _, _⟩ := specRows_classif o _ _ [] classInv_nil hc
    rw [← hcl] at hinv
    refine ⟨hinv, ?_⟩
    intro pr hpr
    obtain ⟨id, h1, h2⟩ := specRows_zip_classif o _ _ [] hrok classInv_nil hc _ (by rw [← hex]; exact hzip pr hpr)
    rw [← hcl] at h2
    exact ⟨id, h1, lookup_of_mem _ hinv _ _ h2, className_of_mem _ hinv _ _ h2⟩
  · exact hsk

/-- **rows_faithful (XRFF).**  `XHeader` describes the attribute list of a well-formed document
    (class attribute marked, or by default the last one); `h.cols` are the columns it prescribes
    (output first; a nominal / string class attribute is numeric), `h.k` the position of the output
    value in an instance.  If the instances (those the filter keeps) have a value in position `h.k`,
    their cells convert under the domains of the header (`RowOKx`) and the output values are all
    numbers or all labels (≠ 1 classes), `read_xrff` returns the number of instances kept and one
    example per instance, in order: inputs = the values of the other attributes in their order,
    output = the number / the class id (label recoverable from the id). -/
theorem rows_faithful_xrff (cfg : Cfg) (o : NumOracle F) (filter : List Str → Bool) (h : XHeader) (hwf : h.WF)
    (insts : List (List Str))
    (hrows : ∀ r ∈ insts.filter filter, h.k < r.length ∧ RowOKx o (h.cols.map (·.dom)) (rot r h.k))
    (hcls : Regr o (h.cols.map (·.dom)) ((insts.filter filter).map (fun r => rot r h.k)) ∨
            (Classif o (h.cols.map (·.dom)) ((insts.filter filter).map (fun r => rot r h.k)) ∧
             (specRows o (h.cols.map (·.dom)) [] ((insts.filter filter).map (fun r => rot r h.k))).1.length ≠ 1)) :
    ∃ df, readXrff cfg o filter (.doc h.attrs (some insts)) = .ok (df, (insts.filter filter).length) ∧
      df.examples.length = (insts.filter filter).length ∧
      (∀ pr ∈ (insts.filter filter).zip df.examples,
        pr.2.input = inputVals o (h.cols.map (·.dom)).tail (rot pr.1 h.k).tail) ∧
      (Regr o (h.cols.map (·.dom)) ((insts.filter filter).map (fun r => rot r h.k)) →
        df.classes = [] ∧
        ∀ pr ∈ (insts.filter filter).zip df.examples,
          pr.2.output = if outDom (h.cols.map (·.dom)) = .void then .void
            else cellVal o (outDom (h.cols.map (·.dom))) ((rot pr.1 h.k).headD [])) ∧
      (Classif o (h.cols.map (·.dom)) ((insts.filter filter).map (fun r => rot r h.k)) →
        ClassInv df.classes ∧
        ∀ pr ∈ (insts.filter filter).zip df.examples, ∃ id : Nat,
          pr.2.output = .int id ∧
          lookup df.classes (trim ((rot pr.1 h.k).headD [])) = some id ∧
          className df.classes id = trim ((rot pr.1 h.k).headD [])) ∧
      skel df.cols = skel h.cols := by
  obtain ⟨df, hread, hex, hcl, hsk⟩ := readXrff_faithful cfg o filter h hwf insts hrows hcls
  have hrx : ∀ r' ∈ (insts.filter filter).map (fun r => rot r h.k), RowOKx o (h.cols.map (·.dom)) r' := by
    intro r' hr'
    simp only [List.mem_map] at hr'
    obtain ⟨r, hr, rfl⟩ := hr'
    exact (hrows r hr).2
  have hrok : ∀ r' ∈ (insts.filter filter).map (fun r => rot r h.k), r' ≠ [] := by
    intro r' hr' hnil
    have := hrx r' hr'
    rw [hnil] at this
    cases hD : h.cols.map (·.dom) <;> simp [hD, RowOKx] at this
  have hzip : ∀ pr ∈ (insts.filter filter).zip df.examples,
      (rot pr.1 h.k, pr.2) ∈ ((insts.filter filter).map (fun r => rot r h.k)).zip df.examples := by
    intro pr hpr
    rw [List.zip_map_left]
    exact List.mem_map.2 ⟨pr, hpr, rfl⟩
  refine ⟨df, hread, ?_, ?_, ?_, ?_, hsk⟩
  · rw [hex, (specRows_inputs o _ _ [] hrx).2]; simp
  · intro pr hpr
    exact specRows_zip_inputs o _ _ [] hrok _ (by rw [← hex]; exact hzip pr hpr)
  · intro hr
    refine ⟨by rw [hcl]; exact specRows_regr o _ _ [] hr, ?_⟩
    intro pr hpr
    exact specRows_zip_regr o _ _ [] hrok hr _ (by rw [← hex]; exact hzip pr hpr)
  · intro hc
    obtain ⟨hinv, _, _⟩ := specRows_classif o _ _ [] classInv_nil hc
    rw [← hcl] at hinv
    refine ⟨hinv, ?_⟩
    intro pr hpr
    obtain ⟨id, h1, h2⟩ := specRows_zip_classif o _ _ [] hrok classInv_nil hc _ (by rw [← hex]; exact hzip pr hpr)
    rw [← hcl] at h2
    exact ⟨id, h1, lookup_of_mem _ hinv _ _ h2, className_of_mem _ hinv _ _ h2⟩

/-- **xrff_types.**  The attribute types `read_xrff` handles, for **every** type string: `integer` is
    read with `std::stoi`, `numeric` / `real` with `std::stod`, `nominal` / `string` as text; anything
    else (`date`, `relational`, a missing or differently spelled type) gives the column no domain, and
    such a column is left out of the examples (`inputVals` skips it, the other inputs keep their
    order: `rows_faithful_xrff`).  A `nominal` / `string` class attribute is numeric (class ids). -/
theorem xrff_types (t : Str) (a : XAttr) :
    (t = "integer".toList → fromWeka t = .int) ∧
    (t = "numeric".toList ∨ t = "real".toList → fromWeka t = .dbl) ∧
    (t = "nominal".toList ∨ t = "string".toList → fromWeka t = .str) ∧
    (t ∉ ["integer".toList, "numeric".toList, "real".toList, "nominal".toList, "string".toList] → fromWeka t = .void) ∧
    ((a.type = "nominal".toList ∨ a.type = "string".toList) → (colOfOut a).dom = .dbl ∧ (colOfOut a).states = []) ∧
    (colOf a).dom = fromWeka a.type ∧ (colOfOut a).name = a.name ∧ (colOf a).name = a.name := by
  refine ⟨?_, ?_, ?_, ?_, ?_, rfl, rfl, rfl⟩
  · intro h; subst h; decide
  · intro h; rcases h with h | h <;> subst h <;> decide
  · intro h; rcases h with h | h <;> subst h <;> decide
  · intro h
    simp only [List.mem_cons, List.mem_nil_iff, or_false, not_or] at h
    obtain ⟨h1, h2, h3, h4, h5⟩ := h
    unfold fromWeka
    have n23 : ¬ (decide (t = "numeric".toList) || decide (t = "real".toList)) = true := by
      intro hc
      rcases Bool.or_eq_true_iff.1 hc with h | h
      · exact h2 (of_decide_eq_true h)
      · exact h3 (of_decide_eq_true h)
    have n45 : ¬ (decide (t = "nominal".toList) || decide (t = "string".toList)) = true := by
      intro hc
      rcases Bool.or_eq_true_iff.1 hc with h | h
      · exact h4 (of_decide_eq_true h)
      · exact h5 (of_decide_eq_true h)
    rw [if_neg h1, if_neg n23, if_neg n45]
  · intro h
    have hb : (decide (a.type = "nominal".toList) || decide (a.type = "string".toList)) = true := by
      rcases h with h | h <;> rw [h] <;> decide
    have hw : fromWeka "numeric".toList = .dbl := by decide
    have hne : ¬ "numeric".toList = "nominal".toList := by decide
    constructor
    · unfold colOfOut; rw [if_pos hb]; exact hw
    · unfold colOfOut; rw [if_pos hb]; simp only []; rw [if_neg hne]

/-- **header_names.**  With a header the column names are the (trimmed) header cells, output
    column first; without one they are empty – this is the `skel` clause of `rows_faithful`: -/
theorem header_names (outIdx : Option Nat) (h : List Str) (n : Nat) :
    colNames outIdx (some h) n = (prep outIdx h).map trim ∧
    colNames outIdx none n = List.replicate n [] := ⟨rfl, rfl⟩

/-- **hook_on_parsed_records** (filter_absent, general form, CSV).  For **every** byte string, every
    parameter setting and every hook: the import is `read_csv`'s loop over the records the parser
    delivers when no hook is installed, each handed to the hook – one by one, in file order, exactly as
    parsed (the header line too; the output cell still in its place: the rotation is part of
    `readCsvRecs`) –; what the hook rejects is absent, what it rewrites is read rewritten.  The
    dialect does not depend on the hook. -/
theorem hook_on_parsed_records (cfg : Cfg) (o : NumOracle F) (p : Params) (bytes : Str) :
    resolveDialect cfg o p (splitLines bytes) = resolveDialect cfg o { p with hook := some } (splitLines bytes) ∧
    readCsv cfg o p bytes =
      readCsvRecs cfg o p.outIdx (resolveDialect cfg o p (splitLines bytes)).2
        ((records { delim := (resolveDialect cfg o p (splitLines bytes)).1, trimWs := p.trimWs,
                    keepQuotes := p.keepQuotes } some (splitLines bytes)).filterMap p.hook) := by
  refine ⟨rfl, ?_⟩
  unfold readCsv records
  simp

/-- **hook_absent.**  On a well-formed table: reading with a hook gives exactly what reading – without
    a hook – any well-formed file gives whose rows are the records the hook returns (the hook sees the
    parsed fields of every line, header included, before the output column is moved). -/
theorem hook_absent (cfg : Cfg) (o : NumOracle F) (d : Char) (eol : Str) (t : Table) (p : Params)
    (hook : Hook) (lines' : List (List (Str × Bool)))
    (hd : p.delim = d) (hh : p.header.isSome) (hwf : WellFormed d eol t)
    (hne : ∀ l ∈ lines', l ≠ [])
    (hclean : ∀ l ∈ lines', ∀ c ∈ l, Clean c.1 ∧ (c.2 = false → needsQuote d c.1 = false))
    (hvis : ∀ l ∈ lines', isBlank (renderLine d l ++ eol) = false)
    (hl : lines'.map (fieldsOf p.trimWs p.keepQuotes) =
          (t.lines.map (fieldsOf p.trimWs p.keepQuotes)).filterMap hook) :
    readCsv cfg o { p with hook := hook } (t.render d eol) =
    readCsv cfg o { p with hook := some } (renderFile eol (lines'.map (renderLine d))) := by
  have hd0 : p.delim ≠ '\x00' := by rw [hd]; exact hwf.d0
  have h1 := records_of_table d eol t p.trimWs p.keepQuotes hook hwf
  have h2 := records_render { delim := d, trimWs := p.trimWs, keepQuotes := p.keepQuotes } hwf.d0 hwf.dq hwf.dn eol
    hwf.eol_ok some lines' hne hclean hvis
  cases hp : p.header with
  | none => simp [hp] at hh
  | some hflag =>
    unfold readCsv resolveDialect
    simp only [Option.isNone_some, hd0, Bool.false_or, decide_false, Bool.false_eq_true, if_false,
      Option.getD_some]
    rw [hd, h1, h2, ← hl, List.filterMap_some]
    rfl

/-- **filter_absent.**  Reading with a filter gives exactly what reading the table without the
    rejected lines gives (the filter sees the parsed fields of every line, header included, in
    their order in the file). -/
theorem filter_absent (cfg : Cfg) (o : NumOracle F) (d : Char) (eol : Str) (t : Table) (p : Params)
    (f : List Str → Bool) (lines' : List (List (Str × Bool)))
    (hd : p.delim = d) (hh : p.header.isSome) (hwf : WellFormed d eol t)
    (hl : lines' = t.lines.filter (fun l => f (fieldsOf p.trimWs p.keepQuotes l))) :
    readCsv cfg o { p with hook := Hook.ofPred f } (t.render d eol) =
    readCsv cfg o { p with hook := some } (renderFile eol (lines'.map (renderLine d))) := by
  have hsub : ∀ l ∈ lines', l ∈ t.lines := by
    intro l hl'; rw [hl] at hl'; exact (List.mem_filter.1 hl').1
  apply hook_absent cfg o d eol t p (Hook.ofPred f) lines' hd hh hwf
  · intro l hl' h
    have := hwf.rect l (hsub l hl')
    rw [h] at this
    exact hwf.width (List.length_eq_zero_iff.1 this.symm)
  · exact fun l hl' => hwf.clean l (hsub l hl')
  · exact fun l hl' => hwf.visible l (hsub l hl')
  · rw [hl]
    generalize t.lines = L
    induction L with
    | nil => rfl
    | cons a L ih =>
      simp only [List.filter_cons, List.map_cons, List.filterMap_cons, Hook.ofPred]
      cases f (fieldsOf p.trimWs p.keepQuotes a) <;> simp [ih]

/-- **filter_absent (XRFF).**  For every document and every hook: the hook is handed the values of
    each `<instance>` in the order of the `<value>` elements – *before* the class value is moved to
    the front –, one instance at a time, in document order; reading with the hook is reading –
    without a hook – the document whose instances are the records the hook returns. -/
theorem filter_absent_xrff (cfg : Cfg) (o : NumOracle F) (hook : Hook) (attrs : List XAttr)
    (insts : List (List Str)) :
    readXrffH cfg o hook (.doc attrs (some insts)) =
    readXrffH cfg o some (.doc attrs (some (insts.filterMap hook))) :=
  readXrffH_filterMap cfg o hook attrs insts

/-- a filter predicate is the hook that only filters; for it the instances read are the instances
    the predicate accepts -/
theorem filter_pred_xrff (cfg : Cfg) (o : NumOracle F) (f : List Str → Bool) (attrs : List XAttr)
    (insts : List (List Str)) :
    readXrff cfg o f (.doc attrs (some insts)) = readXrffH cfg o (Hook.ofPred f) (.doc attrs (some insts)) ∧
    readXrffH cfg o (Hook.ofPred f) (.doc attrs (some insts)) =
      readXrffH cfg o some (.doc attrs (some (insts.filter f))) := by
  refine ⟨readXrff_eq_H cfg o f _, ?_⟩
  rw [readXrffH_filterMap]
  congr 3
  induction insts with
  | nil => rfl
  | cons a l ih => cases h : f a <;> simp [Hook.ofPred, h, ih]

/-- **rows_faithful (XRFF) with a hook**: `rows_faithful_xrff` for the records the hook returns -/
theorem rows_faithful_xrff_hook (cfg : Cfg) (o : NumOracle F) (hook : Hook) (h : XHeader) (hwf : h.WF)
    (insts : List (List Str))
    (hrows : ∀ r ∈ insts.filterMap hook, h.k < r.length ∧ RowOKx o (h.cols.map (·.dom)) (rot r h.k))
    (hcls : Regr o (h.cols.map (·.dom)) ((insts.filterMap hook).map (fun r => rot r h.k)) ∨
            (Classif o (h.cols.map (·.dom)) ((insts.filterMap hook).map (fun r => rot r h.k)) ∧
             (specRows o (h.cols.map (·.dom)) [] ((insts.filterMap hook).map (fun r => rot r h.k))).1.length ≠ 1)) :
    ∃ df, readXrffH cfg o hook (.doc h.attrs (some insts)) = .ok (df, (insts.filterMap hook).length) ∧
      df.examples.length = (insts.filterMap hook).length ∧
      (∀ pr ∈ (insts.filterMap hook).zip df.examples,
        pr.2.input = inputVals o (h.cols.map (·.dom)).tail (rot pr.1 h.k).tail) ∧
      (Regr o (h.cols.map (·.dom)) ((insts.filterMap hook).map (fun r => rot r h.k)) →
        df.classes = [] ∧
        ∀ pr ∈ (insts.filterMap hook).zip df.examples,
          pr.2.output = if outDom (h.cols.map (·.dom)) = .void then .void
            else cellVal o (outDom (h.cols.map (·.dom))) ((rot pr.1 h.k).headD [])) ∧
      (Classif o (h.cols.map (·.dom)) ((insts.filterMap hook).map (fun r => rot r h.k)) →
        ClassInv df.classes ∧
        ∀ pr ∈ (insts.filterMap hook).zip df.examples, ∃ id : Nat,
          pr.2.output = .int id ∧
          lookup df.classes (trim ((rot pr.1 h.k).headD [])) = some id ∧
          className df.classes id = trim ((rot pr.1 h.k).headD [])) ∧
      skel df.cols = skel h.cols := by
  have hT : ∀ l : List (List Str), l.filter (fun _ => true) = l := fun l => by simp
  have := rows_faithful_xrff cfg o (fun _ => true) h hwf (insts.filterMap hook)
    (by rw [hT]; exact hrows) (by rw [hT]; exact hcls)
  rw [hT, readXrff_eq_H, ofPred_true, ← readXrffH_filterMap] at this
  exact this

/-! ## 4. variables -/

/-- **var_binding.**  The `j`-th variable `setup_terminals` creates carries index `j`, and
    evaluating it on an example returns input `j` of that example.  In the code after the fix
    there is exactly one variable per column that has a domain (after the output column), named
    after it, in order; since `to_example` stores exactly the cells of those columns
    (`inputVals`), variable `j` reads the `j`-th input column and no variable reads beyond the
    inputs. -/
theorem var_binding (cfg : Cfg) (strong : Bool) (cols : List Col) (vars : List VarSym) (e : Example F)
    (h : setupTerminals cfg strong cols = .ok vars) :
    (∀ j (hj : j < vars.length), (vars[j]).var = j ∧
      ∀ (hi : j < e.input.length), evalVar vars[j] e = .ok e.input[j]) ∧
    vars.map (·.name) =
      ((cols.tail.zipIdx 1).filter (fun p => !(cfg.guards && p.1.dom = .void))).map (fun p => varName p.1 p.2) ∧
    (cfg.guards = true → vars.length = ((cols.tail.map (·.dom)).filter (fun d => d ≠ .void)).length) := by
  unfold setupTerminals at h
  split at h
  · cases h
  · simp only [pure, Except.pure, Except.ok.injEq] at h
    subst h
    refine ⟨?_, setupVarsGo_names _ _ _ _ _, ?_⟩
    · intro j hj
      have hv := setupVarsGo_var cfg.guards (categories strong cols) cols.tail 1 0 j hj
      simp only [Nat.zero_add] at hv
      refine ⟨hv, ?_⟩
      intro hi
      simp [evalVar, fetchVar, hv, List.getElem?_eq_getElem hi, pure, Except.pure]
    · intro hg
      rw [hg]
      exact setupVarsGo_length _ _ _ _

/-- consequently, after the fix, on an example `to_example` built for these columns every
    variable evaluates to the corresponding input: none reads out of range -/
theorem var_in_range (o : NumOracle F) (strong : Bool) (cols : List Col) (vars : List VarSym) (xs : List Str)
    (h : setupTerminals { guards := true } strong cols = .ok vars)
    (hin : InputsOK o (cols.tail.map (·.dom)) xs) (e : Example F)
    (he : e.input = inputVals o (cols.tail.map (·.dom)) xs) :
    ∀ j (hj : j < vars.length), ∃ (hi : j < e.input.length), evalVar vars[j] e = .ok e.input[j] := by
  obtain ⟨h1, _, h3⟩ := var_binding { guards := true } strong cols vars e h
  intro j hj
  have hlen : e.input.length = vars.length := by
    rw [he, inputVals_length o _ _ hin, h3 rfl]
  have hi : j < e.input.length := by omega
  exact ⟨hi, (h1 j hj).2 hi⟩

/-- the code as found: after a column without a domain the last variable reads past the inputs
    (`a,b,c / 1,,3`: columns `a` (output), `b` (no domain), `c`; the example has one input) -/
theorem old_var_out_of_range :
    ∃ vars : List VarSym, setupTerminals { guards := false } false
        [{ name := ['a'], dom := .dbl }, { name := ['b'], dom := .void }, { name := ['c'], dom := .dbl }] = .ok vars ∧
      ∃ v ∈ vars, evalVar v ({ input := [.dbl (3 : Nat)], output := .dbl 1 } : Example Nat) = .error (.fault .fetchVar) := by
  refine ⟨_, rfl, ⟨['c'], 1, some 0⟩, ?_, ?_⟩
  · simp [setupVarsGo, varName, categories, categoriesGo]
  · simp [evalVar, fetchVar, throw, throwThe, MonadExceptOf.throw]

/-! ## 4b. categories, state constants, types -/

/-- **category_valid.**  For every list of columns and both typings the `category_set` built from it
    passes `category_set::is_valid`: one entry per column carrying the column's domain; the category
    is undefined exactly for the columns without a domain; equal categories imply equal domains. -/
theorem category_valid (strong : Bool) (cols : List Col) :
    (categories strong cols).map (·.2) = cols.map (·.dom) ∧
    (∀ x ∈ categories strong cols, (x.1 = none ↔ x.2 = .void)) ∧
    (∀ x ∈ categories strong cols, ∀ y ∈ categories strong cols, x.1 = y.1 → x.1 ≠ none → x.2 = y.2) := by
  obtain ⟨h1, n, h2⟩ := categories_spec strong cols
  exact ⟨h1, h2.void, h2.dom⟩

/-- **category_typing.**  Strong typing: two different columns never share a category.  Weak typing:
    the numeric columns of equal domain share one.  Both: a column of domain `d_string` has a
    category of its own. -/
theorem category_typing (strong : Bool) (cols : List Col) :
    (strong = true → (categories strong cols).Pairwise (fun x y => x.1 = y.1 → x.1 = none)) ∧
    (strong = false → ∀ x ∈ categories strong cols, ∀ y ∈ categories strong cols,
        x.2 = y.2 → x.2 ≠ .str → x.1 = y.1) ∧
    (categories strong cols).Pairwise (fun x y => (x.2 = .str ∨ y.2 = .str) → x.1 ≠ y.1) := by
  obtain ⟨_, n, h⟩ := categories_spec strong cols
  refine ⟨h.strongP, h.weak, ?_⟩
  refine List.Pairwise.imp_of_mem ?_ h.strP
  intro a b ha hb hab hor
  by_cases has : a.2 = .str <;> by_cases hbs : b.2 = .str
  · exact hab has hbs
  · exact h.strNon a ha b hb has hbs
  · exact fun e => h.strNon b hb a ha hbs has e.symm
  · rcases hor with h1 | h1
    · exact absurd h1 has
    · exact absurd h1 hbs

/-- **terminals_spec.**  For columns whose states sit in `d_string` columns (every column list the two
    readers build): `setup_terminals` inserts, column by column – for the columns after the output
    column that have a domain, in their order – the variable of the column (index = its rank among
    those columns) followed by one constant per state of the column, named by the state between
    quotes, evaluating to the state, all in the category `category_set` gives the column; and the
    variables are exactly those of `var_binding`. -/
theorem terminals_spec (strong : Bool) (cols : List Col) (h2 : 2 ≤ cols.length) (hst : StatesStr cols.tail) :
    ∃ syms, setupSymbols { guards := true } strong cols = .ok syms ∧
      syms = ((keptCols cols.tail 1).zipIdx 0).flatMap (fun q =>
        TermSym.var { name := varName q.1.1 q.1.2, var := q.2,
                      category := ((categories strong cols).getD q.1.2 (none, .void)).1 } ::
          q.1.1.states.map (fun s =>
            TermSym.const (quoteStr s) s ((categories strong cols).getD q.1.2 (none, .void)).1)) ∧
      setupTerminals { guards := true } strong cols = .ok (syms.filterMap TermSym.var?) := by
  have hlt : ¬ cols.length < 2 := by omega
  refine ⟨_, ?_, rfl, ?_⟩
  · simp only [setupSymbols, hlt, if_false]
    exact setupSymsGo_spec _ cols.tail 1 0 hst
  · simp only [setupTerminals, hlt, if_false, pure, Except.pure]
    rw [setupVarsGo_spec, flatMap_var?]
    intro a s hs
    simp only [List.mem_map] at hs
    obtain ⟨_, _, rfl⟩ := hs
    rfl

/-- **terminals_of_read.**  `terminals_spec` applies to every dataframe the two readers return, for
    every input and every parameter setting: the columns they build carry states only when their
    domain is `d_string` (so `setup_terminals` never meets a state it cannot turn into a constant). -/
theorem terminals_of_read (cfg : Cfg) (o : NumOracle F) :
    (∀ (p : Params) (bytes : Str) (df : DF F), readCsv cfg o p bytes = .ok df → StatesStr df.cols.tail) ∧
    (∀ (hook : Hook) (doc : XDoc) (df : DF F) (n : Nat), readXrffH cfg o hook doc = .ok (df, n) →
        StatesStr df.cols.tail) := by
  constructor
  · intro p bytes df h c hc
    exact readCsv_statesStr cfg o p bytes df h c (List.mem_of_mem_tail hc)
  · intro hook doc df n h c hc
    exact readXrffH_statesStr cfg o hook doc df n h c (List.mem_of_mem_tail hc)

/-- **var_typed.**  After the fix, on an example `to_example` built for the same columns: there is one
    variable per column with a domain; variable `j` is named after the `j`-th such column, is in the
    category of that column, reads input `j`, and what it reads is a value of that column's domain –
    the domain `category_set` records for the category (numbers for numeric columns, texts for string
    columns; never a value of another column's type). -/
theorem var_typed (o : NumOracle F) (strong : Bool) (cols : List Col) (vars : List VarSym) (xs : List Str)
    (e : Example F) (h : setupTerminals { guards := true } strong cols = .ok vars)
    (hin : InputsOK o (cols.tail.map (·.dom)) xs) (he : e.input = inputVals o (cols.tail.map (·.dom)) xs) :
    vars.length = (keptCols cols.tail 1).length ∧
    ∀ j (hj : j < vars.length) (hk : j < (keptCols cols.tail 1).length),
      vars[j].name = varName (keptCols cols.tail 1)[j].1 (keptCols cols.tail 1)[j].2 ∧
      vars[j].var = j ∧
      vars[j].category = ((categories strong cols).getD (keptCols cols.tail 1)[j].2 (none, .void)).1 ∧
      ((categories strong cols).getD (keptCols cols.tail 1)[j].2 (none, .void)).2 = (keptCols cols.tail 1)[j].1.dom ∧
      ∃ x, evalVar vars[j] e = .ok x ∧ x.dom = (keptCols cols.tail 1)[j].1.dom := by
  unfold setupTerminals at h
  split at h
  · cases h
  · simp only [pure, Except.pure, Except.ok.injEq] at h
    subst h
    rw [setupVarsGo_spec]
    have hd := inputVals_doms o cols.tail xs 1 hin
    rw [← he] at hd
    have hlen : e.input.length = (keptCols cols.tail 1).length := by
      have := congrArg List.length hd
      simpa using this
    refine ⟨by simp, ?_⟩
    intro j hj hk
    simp only [List.getElem_map, List.getElem_zipIdx, Nat.zero_add]
    have hje : j < e.input.length := by omega
    refine ⟨trivial, trivial, trivial, ?_, e.input[j], ?_, ?_⟩
    · -- the domain recorded for the column in the category set is the column's
      have hmem : (keptCols cols.tail 1)[j] ∈ cols.tail.zipIdx 1 :=
        (List.mem_filter.1 (List.getElem_mem hk)).1
      generalize (keptCols cols.tail 1)[j] = p at hmem ⊢
      obtain ⟨c, i⟩ := p
      obtain ⟨hi, hi2, hc⟩ := List.mem_zipIdx hmem
      have hcols : cols[i]? = some c := by
        cases cols with
        | nil => simp at hi2; omega
        | cons c0 cs =>
          simp only [List.tail_cons] at hc hi2
          have : i = (i - 1) + 1 := by omega
          rw [this, List.getElem?_cons_succ, hc, List.getElem?_eq_getElem]
      have hmap := (category_valid strong cols).1
      have : ((categories strong cols).map (·.2))[i]? = some c.dom := by
        rw [hmap, List.getElem?_map, hcols]; rfl
      rw [List.getElem?_map] at this
      cases hg : (categories strong cols)[i]? with
      | none => simp [hg] at this
      | some y =>
        simp only [hg, Option.map_some, Option.some.injEq] at this
        simp [List.getD, hg, this]
    · simp [evalVar, fetchVar, List.getElem?_eq_getElem hje, pure, Except.pure]
    · have := congrArg (fun l => l[j]?) hd
      simp only [List.getElem?_map, List.getElem?_eq_getElem hje, List.getElem?_eq_getElem hk,
        Option.map_some, Option.some.injEq] at this
      exact this

/-! ## 4c. `dataframe::read` -/

/-- **read_by_extension.**  `dataframe::read` reads a file as XRFF exactly when its extension is `.xrff`
    or `.xml` in any mixture of upper and lower case, and as CSV otherwise; in either case with the same
    parameters (the hook for XRFF; everything for CSV) and the result of that reader. -/
theorem read_by_extension (cfg : Cfg) (o : NumOracle F) (p : Params) (ext bytes : Str) (doc : XDoc) :
    (isXrffExt ext = true ↔ (ext.map toLower = ".xrff".toList ∨ ext.map toLower = ".xml".toList)) ∧
    (isXrffExt ext = true → readFile cfg o p ext bytes doc = readXrffH cfg o p.hook doc) ∧
    (isXrffExt ext = false → readFile cfg o p ext bytes doc =
      (readCsv cfg o p bytes >>= fun df => pure (df, df.examples.length))) := by
  refine ⟨?_, ?_, ?_⟩
  · unfold isXrffExt
    rw [Bool.or_eq_true, iequals_iff, iequals_iff]
    have h1 : (".xrff".toList).map toLower = ".xrff".toList := by decide
    have h2 : (".xml".toList).map toLower = ".xml".toList := by decide
    rw [h1, h2]
  · intro h; simp [readFile, h]
  · intro h; simp [readFile, h]

/-! ## 5. sniffer -/

/-- **sniff_agrees.**  On the tables of the class `Unambiguous` (defined in LemmasSniff.lean: at
    least two data rows; a header, if present, of non-numeric non-blank cells; data cells that are
    numbers without letters; no quote and none of the five candidate delimiters `\t , : ; |`
    inside a cell; the delimiter is one of the five and there are at least two columns)
    the sniffed dialect is the explicit one – however many lines `n ≥ 1` the sniffer inspects
    (the code uses 20) –, so reading with everything left to the sniffer and reading with the
    explicit dialect are the same computation. -/
theorem sniff_agrees (o : NumOracle F) (n : Nat) (hn : 1 ≤ n) (d : Char) (hdr : Option (List Str))
    (rows : List (List Str)) (h : Unambiguous o d hdr rows) :
    sniffer o n (splitLines (renderPlain d (hdr.toList ++ rows))) = (d, hdr.isSome) :=
  sniffer_unambiguous o n hn d hdr rows h

theorem sniffed_read_eq_explicit (cfg : Cfg) (o : NumOracle F) (d : Char) (hdr : Option (List Str))
    (rows : List (List Str)) (h : Unambiguous o d hdr rows) (p : Params) (hn : 1 ≤ cfg.sniffLines)
    (hp : p.delim = '\x00' ∧ p.header = none) :
    readCsv cfg o p (renderPlain d (hdr.toList ++ rows)) =
    readCsv cfg o { p with delim := d, header := some hdr.isSome } (renderPlain d (hdr.toList ++ rows)) := by
  have hs := sniffer_unambiguous o cfg.sniffLines hn d hdr rows h
  have hd0 : d ≠ '\x00' := by
    have := h.delim
    intro hd; subst hd; simp [preferred] at this
  unfold readCsv resolveDialect
  simp [hp.1, hp.2, hs, hd0]

/-- **sniff_agrees_quoted.**  `sniff_agrees` for tables written WITH quoting – the class `UnambiguousQ`
    (LemmasSniffQ.lean): as `Unambiguous`, and any cell may be written between quotes (every cell, only the
    numbers, only the names, any mixture; numbers of any widths; names in lower case, Capitalised, UPPER
    case) provided that a name as the header pass sees it – with its quotes, if quoted – is not a number
    (so `"1980"` is a name, `1980` is not) and that, when there is no header line, the cells of the first row are
    not quoted: the sniffer finds the delimiter and says whether there is a header line. -/
theorem sniff_agrees_quoted (o : NumOracle F) (n : Nat) (hn : 1 ≤ n) (d : Char) (hdr : Option (List (Str × Bool)))
    (rows : List (List (Str × Bool))) (h : UnambiguousQ o d hdr rows) :
    sniffer o n (splitLines (renderQ d (hdr.toList ++ rows))) = (d, hdr.isSome) :=
  sniffer_unambiguousQ o n hn d hdr rows h

/-- consequently, on an unambiguous table every one of the four ways of giving the dialect – delimiter explicit
    or left to the sniffer × `header()` / `no_header()` or left to the sniffer – is the same import, into a
    dataframe in any state -/
theorem sniffed_read_eq_explicit_quoted (cfg : Cfg) (o : NumOracle F) (d : Char) (hdr : Option (List (Str × Bool)))
    (rows : List (List (Str × Bool))) (h : UnambiguousQ o d hdr rows) (p : Params) (prior : DF F)
    (hn : 1 ≤ cfg.sniffLines)
    (hpd : p.delim = '\x00' ∨ p.delim = d) (hph : p.header = none ∨ p.header = some hdr.isSome) :
    readCsvFrom cfg o p prior (renderQ d (hdr.toList ++ rows)) =
    readCsvFrom cfg o { p with delim := d, header := some hdr.isSome } prior (renderQ d (hdr.toList ++ rows)) := by
  have hs := sniffer_unambiguousQ o cfg.sniffLines hn d hdr rows h
  have hd0 : d ≠ '\x00' := by
    have := h.delim
    intro hd; subst hd; simp [preferred] at this
  unfold readCsvFrom resolveDialect
  rcases hpd with hpd | hpd <;> rcases hph with hph | hph <;> simp [hpd, hph, hs, hd0]

/-- **explicit_wins.**  For every file and every parameter setting: an explicit delimiter and an
    explicit `header()` / `no_header()` are the ones `read_csv` uses, whatever the sniffer thinks of
    the file and whether or not it runs for the other setting; the sniffer's values are used only for
    what the caller left open (`delimiter = 0`, `GUESS_HEADER`). -/
theorem explicit_wins (cfg : Cfg) (o : NumOracle F) (p : Params) (lines : List Str) :
    (p.delim ≠ '\x00' → (resolveDialect cfg o p lines).1 = p.delim) ∧
    (∀ b, p.header = some b → (resolveDialect cfg o p lines).2 = b) ∧
    (p.delim = '\x00' → (resolveDialect cfg o p lines).1 = (sniffer o cfg.sniffLines lines).1) ∧
    (p.header = none → (resolveDialect cfg o p lines).2 = (sniffer o cfg.sniffLines lines).2) := by
  unfold resolveDialect
  refine ⟨?_, ?_, ?_, ?_⟩
  · intro h; split <;> simp [h]
  · intro b h; split <;> simp [h]
  · intro h; simp [h]
  · intro h; simp [h]

/-- consequently, with an explicit header setting the import is the loop of `read_csv` run with that
    setting over the records parsed with the explicit – or, if left open, the guessed – delimiter: the
    sniffer's header vote has no influence, for any file, also when the delimiter is sniffed -/
theorem explicit_header_wins (cfg : Cfg) (o : NumOracle F) (p : Params) (b : Bool) (bytes : Str)
    (h : p.header = some b) :
    readCsv cfg o p bytes =
      readCsvRecs cfg o p.outIdx b
        (records { delim := if p.delim = '\x00' then guessDelimiter cfg.sniffLines (splitLines bytes) else p.delim,
                   trimWs := p.trimWs, keepQuotes := p.keepQuotes } p.hook (splitLines bytes)) := by
  unfold readCsv resolveDialect
  by_cases hd : p.delim = '\x00' <;> simp [h, hd, sniffer]

/-- **explicit header, sniffed delimiter, on a table.**  A file without quoting whose cells are not
    blank and free of the five candidate delimiters (at least two columns, at least one line; the
    cells may be numbers or text, the first line may or may not look like a header to the sniffer):
    reading it with `header()` / `no_header()` and the delimiter left to the sniffer is reading it
    with both given explicitly. -/
theorem explicit_header_sniffed_delimiter (cfg : Cfg) (o : NumOracle F) (d : Char) (hd : d ∈ preferred)
    (w : Nat) (hw : 2 ≤ w) (rows : List (List Str)) (hne : rows ≠ [])
    (hcells : ∀ r ∈ rows, r.length = w ∧ ∀ c ∈ r, PlainCell c ∧ isBlank c = false)
    (p : Params) (b : Bool) (hn : 1 ≤ cfg.sniffLines) (hp : p.delim = '\x00' ∧ p.header = some b) :
    readCsv cfg o p (renderPlain d rows) = readCsv cfg o { p with delim := d } (renderPlain d rows) := by
  have hg := guessDelimiter_plain cfg.sniffLines hn d hd w hw rows hne hcells
  have hd0 : d ≠ '\x00' := (preferred_facts d hd).1
  rw [explicit_header_wins cfg o p b _ hp.2, explicit_header_wins cfg o { p with delim := d } b _ hp.2]
  simp [hp.1, hg, hd0]

/-! ## 5b. histories: several imports into one dataframe object -/

/-- **read_fresh.**  The readers that take the prior state of the object (History.lean) are, on a freshly
    constructed `dataframe`, the readers all the theorems above speak about: the first import of a history
    is an import into a new object. -/
theorem read_fresh (cfg : Cfg) (o : NumOracle F) (p : Params) (ext bytes : Str) (doc : XDoc) :
    readCsvFrom cfg o p ({} : DF F) bytes = readCsv cfg o p bytes ∧
    readXrffHFrom cfg o p.hook ({} : DF F) doc = readXrffH cfg o p.hook doc ∧
    readFileFrom cfg o p ({} : DF F) ext bytes doc = readFile cfg o p ext bytes doc := by
  refine ⟨readCsvFrom_fresh cfg o p bytes, readXrffHFrom_fresh cfg o p.hook doc, ?_⟩
  simp only [readFileFrom, readFile, readCsvFrom_fresh, readXrffHFrom_fresh]

/-- **rows_faithful_append.**  `read_csv` into a dataframe that already has its columns and possibly a
    class map and examples (the state `prior` left by ANY earlier calls), for a well-formed table whose rows
    fit the schema the object has (`TypedFrom`: the cells convert under the domains of the existing columns,
    a column without a domain sees blank cells only, labels / numbers go with the class map), read with
    the explicit dialect, with or without header line (code after the fix): the import succeeds and the
    object then holds exactly the data rows of THIS table – one example per row, in order; the examples of
    earlier imports are gone and the header line is never an example –, inputs = the values of the
    non-output cells in their order, output = the number / the class id; the class map is the old one
    continued (every label seen before keeps its id, new labels get the next ids, names recoverable); names
    and domains of the columns are unchanged.  The resulting state meets the hypotheses on `prior` again. -/
theorem rows_faithful_append (cfg : Cfg) (hg : cfg.guards = true) (o : NumOracle F) (d : Char) (eol : Str)
    (t : Table) (p : Params) (prior : DF F)
    (hd : p.delim = d) (hh : p.header = some t.header.isSome) (hf : p.hook = some)
    (hwf : WellFormed d eol t) (hk : ∀ k, p.outIdx = some k → k < t.row0.length)
    (hcols : prior.cols ≠ []) (hvc : VoidClean prior.cols) (hinv : ClassInv prior.classes)
    (hty : TypedFrom o p.outIdx p.trimWs p.keepQuotes (prior.cols.map (·.dom)) prior.classes t) :
    ∃ df, readCsvFrom cfg o p prior (t.render d eol) = .ok df ∧
      df.examples.length = t.rows.length ∧
      (∀ pr ∈ t.rows.zip df.examples,
        pr.2.input = inputVals o (prior.cols.map (·.dom)).tail
                       (prep p.outIdx (fieldsOf p.trimWs p.keepQuotes pr.1)).tail) ∧
      (Regr o (prior.cols.map (·.dom)) (t.rows.map (fun r => prep p.outIdx (fieldsOf p.trimWs p.keepQuotes r))) →
        ∀ pr ∈ t.rows.zip df.examples,
          pr.2.output = if outDom (prior.cols.map (·.dom)) = .void then .void
            else cellVal o (outDom (prior.cols.map (·.dom)))
                   ((prep p.outIdx (fieldsOf p.trimWs p.keepQuotes pr.1)).headD [])) ∧
      (Classif o (prior.cols.map (·.dom)) (t.rows.map (fun r => prep p.outIdx (fieldsOf p.trimWs p.keepQuotes r))) →
        ∀ pr ∈ t.rows.zip df.examples, ∃ id : Nat,
          pr.2.output = .int id ∧
          lookup df.classes (trim ((prep p.outIdx (fieldsOf p.trimWs p.keepQuotes pr.1)).headD [])) = some id ∧
          className df.classes id = trim ((prep p.outIdx (fieldsOf p.trimWs p.keepQuotes pr.1)).headD [])) ∧
      Extends prior.classes df.classes ∧
      (∀ l i, lookup prior.classes l = some i → lookup df.classes l = some i ∧ className df.classes i = l) ∧
      skel df.cols = skel prior.cols ∧ VoidClean df.cols ∧ ClassInv df.classes := by
  have hd0 : p.delim ≠ '\x00' := by rw [hd]; exact hwf.d0
  have hrecs := records_of_table d eol t p.trimWs p.keepQuotes p.hook hwf
  have hlines : (t.lines.map (fieldsOf p.trimWs p.keepQuotes)).filterMap p.hook =
      (t.header.map (fieldsOf p.trimWs p.keepQuotes)).toList ++ t.rows.map (fieldsOf p.trimWs p.keepQuotes) := by
    rw [hf]
    cases hh' : t.header <;> simp [Table.lines, hh']
  have hflen : ∀ l, (fieldsOf p.trimWs p.keepQuotes l).length = l.length := fieldsOf_length _ _
  have hrows' : (t.rows.map (fieldsOf p.trimWs p.keepQuotes)).map (prep p.outIdx) =
      t.rows.map (fun r => prep p.outIdx (fieldsOf p.trimWs p.keepQuotes r)) := by
    simp [Function.comp_def]
  obtain ⟨df, hread, hex, hcl, hsk, hvc'⟩ := readCsvRecsFrom_faithful cfg hg o p.outIdx prior
    (t.header.map (fieldsOf p.trimWs p.keepQuotes)) (t.rows.map (fieldsOf p.trimWs p.keepQuotes))
    hcols hvc hinv (by simp [Table.rows])
    (by
      intro r hr k hko
      have : ∃ l ∈ t.lines, r = fieldsOf p.trimWs p.keepQuotes l := by
        cases hh' : t.header with
        | none =>
          simp only [hh', Option.map_none, Option.toList_none, List.nil_append, List.mem_map] at hr
          obtain ⟨l, hl, rfl⟩ := hr
          exact ⟨l, by simp [Table.lines, hl], rfl⟩
        | some h =>
          simp only [hh', Option.map_some, Option.toList_some, List.singleton_append, List.mem_cons, List.mem_map] at hr
          rcases hr with rfl | ⟨l, hl, rfl⟩
          · exact ⟨h, by simp [Table.lines, hh'], rfl⟩
          · exact ⟨l, by simp [Table.lines, hl], rfl⟩
      obtain ⟨l, hl, rfl⟩ := this
      rw [hflen, hwf.rect l hl]
      exact hk k hko)
    (by
      intro r hr
      simp only [List.mem_map] at hr
      obtain ⟨l, hl, rfl⟩ := hr
      exact hty.rows l hl)
    (by rw [hrows']; exact hty.cls)
  rw [hrows'] at hex hcl
  have hrx : ∀ r' ∈ t.rows.map (fun r => prep p.outIdx (fieldsOf p.trimWs p.keepQuotes r)),
      RowOKx o (prior.cols.map (·.dom)) r' := by
    intro r' hr'
    simp only [List.mem_map] at hr'
    obtain ⟨r, hr, rfl⟩ := hr'
    exact rowOK_x o _ _ (hty.rows r hr)
  have hrok : ∀ r' ∈ t.rows.map (fun r => prep p.outIdx (fieldsOf p.trimWs p.keepQuotes r)), r' ≠ [] := by
    intro r' hr' hnil
    have := hrx r' hr'
    rw [hnil] at this
    cases hD : prior.cols.map (·.dom) <;> simp [hD, RowOKx] at this
  have hzip : ∀ pr ∈ t.rows.zip df.examples,
      (prep p.outIdx (fieldsOf p.trimWs p.keepQuotes pr.1), pr.2) ∈
        (t.rows.map (fun r => prep p.outIdx (fieldsOf p.trimWs p.keepQuotes r))).zip df.examples := by
    intro pr hpr
    rw [List.zip_map_left]
    exact List.mem_map.2 ⟨pr, hpr, rfl⟩
  have hisSome : (t.header.map (fieldsOf p.trimWs p.keepQuotes)).isSome = t.header.isSome := by cases t.header <;> rfl
  -- the class map after the import
  have hcm : ClassInv df.classes ∧ Extends prior.classes df.classes := by
    rcases hty.cls with ⟨hr, _⟩ | ⟨hc, _⟩
    · rw [hcl, specRows_regr o _ _ _ hr]; exact ⟨hinv, Extends.refl _⟩
    · obtain ⟨h1, h2, _⟩ := specRows_classif o _ _ prior.classes hinv hc
      rw [hcl]; exact ⟨h1, h2⟩
  refine ⟨df, ?_, ?_, ?_, ?_, ?_, hcm.2, ?_, hsk, hvc', hcm.1⟩
  · unfold readCsvFrom resolveDialect
    simp only [hh, Option.isNone_some, hd0, Bool.false_or, decide_false, Bool.false_eq_true, if_false,
      Option.getD_some]
    rw [hd, hrecs, hlines, ← hisSome]
    exact hread
  · rw [hex, (specRows_inputs o _ _ prior.classes hrx).2]
    simp
  · intro pr hpr
    exact specRows_zip_inputs o _ _ prior.classes hrok _ (by rw [← hex]; exact hzip pr hpr)
  · intro hr pr hpr
    exact specRows_zip_regr o _ _ prior.classes hrok hr _ (by rw [← hex]; exact hzip pr hpr)
  · intro hc pr hpr
    obtain ⟨id, h1, h2⟩ := specRows_zip_classif o _ _ prior.classes hrok hinv hc _ (by rw [← hex]; exact hzip pr hpr)
    rw [← hcl] at h2
    exact ⟨id, h1, lookup_of_mem _ hcm.1 _ _ h2, className_of_mem _ hcm.1 _ _ h2⟩
  · intro l i hl
    have := lookup_extends _ _ hcm.1 hcm.2 l i hl
    exact ⟨this, class_name_of_lookup _ hcm.1 l i this⟩

/-- **rows_faithful_xrff_append.**  `read_xrff` (code after the fix) into a dataframe in ANY state: the
    columns are those of the header of the document, whatever columns the object had; the examples are
    exactly the instances of the document (those the hook returns), in order – none of an earlier import
    is left –; the class map is the old one continued. -/
theorem rows_faithful_xrff_append (cfg : Cfg) (hg : cfg.guards = true) (o : NumOracle F) (hook : Hook)
    (prior : DF F) (hinv : ClassInv prior.classes) (h : XHeader) (hwf : h.WF) (insts : List (List Str))
    (hrows : ∀ r ∈ insts.filterMap hook, h.k < r.length ∧ RowOKx o (h.cols.map (·.dom)) (rot r h.k))
    (hcls : (Regr o (h.cols.map (·.dom)) ((insts.filterMap hook).map (fun r => rot r h.k)) ∧ prior.classes = []) ∨
            (Classif o (h.cols.map (·.dom)) ((insts.filterMap hook).map (fun r => rot r h.k)) ∧
             (specRows o (h.cols.map (·.dom)) prior.classes ((insts.filterMap hook).map (fun r => rot r h.k))).1.length ≠ 1)) :
    ∃ df, readXrffHFrom cfg o hook prior (.doc h.attrs (some insts)) = .ok (df, (insts.filterMap hook).length) ∧
      df.examples.length = (insts.filterMap hook).length ∧
      (∀ pr ∈ (insts.filterMap hook).zip df.examples,
        pr.2.input = inputVals o (h.cols.map (·.dom)).tail (rot pr.1 h.k).tail) ∧
      (Regr o (h.cols.map (·.dom)) ((insts.filterMap hook).map (fun r => rot r h.k)) →
        ∀ pr ∈ (insts.filterMap hook).zip df.examples,
          pr.2.output = if outDom (h.cols.map (·.dom)) = .void then .void
            else cellVal o (outDom (h.cols.map (·.dom))) ((rot pr.1 h.k).headD [])) ∧
      (Classif o (h.cols.map (·.dom)) ((insts.filterMap hook).map (fun r => rot r h.k)) →
        ∀ pr ∈ (insts.filterMap hook).zip df.examples, ∃ id : Nat,
          pr.2.output = .int id ∧
          lookup df.classes (trim ((rot pr.1 h.k).headD [])) = some id ∧
          className df.classes id = trim ((rot pr.1 h.k).headD [])) ∧
      Extends prior.classes df.classes ∧
      (∀ l i, lookup prior.classes l = some i → lookup df.classes l = some i ∧ className df.classes i = l) ∧
      skel df.cols = skel h.cols ∧ VoidClean df.cols ∧ ClassInv df.classes := by
  obtain ⟨df, hread, hex, hcl, hsk, hvc'⟩ := readXrffHFrom_faithful cfg hg o hook prior hinv h hwf insts hrows hcls
  have hrx : ∀ r' ∈ (insts.filterMap hook).map (fun r => rot r h.k), RowOKx o (h.cols.map (·.dom)) r' := by
    intro r' hr'
    simp only [List.mem_map] at hr'
    obtain ⟨r, hr, rfl⟩ := hr'
    exact (hrows r hr).2
  have hrok : ∀ r' ∈ (insts.filterMap hook).map (fun r => rot r h.k), r' ≠ [] := by
    intro r' hr' hnil
    have := hrx r' hr'
    rw [hnil] at this
    cases hD : h.cols.map (·.dom) <;> simp [hD, RowOKx] at this
  have hzip : ∀ pr ∈ (insts.filterMap hook).zip df.examples,
      (rot pr.1 h.k, pr.2) ∈ ((insts.filterMap hook).map (fun r => rot r h.k)).zip df.examples := by
    intro pr hpr
    rw [List.zip_map_left]
    exact List.mem_map.2 ⟨pr, hpr, rfl⟩
  have hcm : ClassInv df.classes ∧ Extends prior.classes df.classes := by
    rcases hcls with ⟨hr, _⟩ | ⟨hc, _⟩
    · rw [hcl, specRows_regr o _ _ _ hr]; exact ⟨hinv, Extends.refl _⟩
    · obtain ⟨h1, h2, _⟩ := specRows_classif o _ _ prior.classes hinv hc
      rw [hcl]; exact ⟨h1, h2⟩
  refine ⟨df, hread, ?_, ?_, ?_, ?_, hcm.2, ?_, hsk, hvc', hcm.1⟩
  · rw [hex, (specRows_inputs o _ _ prior.classes hrx).2]; simp
  · intro pr hpr
    exact specRows_zip_inputs o _ _ prior.classes hrok _ (by rw [← hex]; exact hzip pr hpr)
  · intro hr pr hpr
    exact specRows_zip_regr o _ _ prior.classes hrok hr _ (by rw [← hex]; exact hzip pr hpr)
  · intro hc pr hpr
    obtain ⟨id, h1, h2⟩ := specRows_zip_classif o _ _ prior.classes hrok hinv hc _ (by rw [← hex]; exact hzip pr hpr)
    rw [← hcl] at h2
    exact ⟨id, h1, lookup_of_mem _ hcm.1 _ _ h2, className_of_mem _ hcm.1 _ _ h2⟩
  · intro l i hl
    have := lookup_extends _ _ hcm.1 hcm.2 l i hl
    exact ⟨this, class_name_of_lookup _ hcm.1 l i this⟩

/-- **class_map_continued.**  For EVERY history – any sequence of `read_csv` / `read_xrff` / `read` /
    `clear` calls on one object, any bytes, parameters and hooks, well-formed or not – in which the calls
    succeed: the class map of the object is the initial one continued (a label keeps the id it has, so
    equal labels of different tables get equal ids), ids stay the positions and labels stay distinct
    (distinct labels of different tables get distinct ids), names stay recoverable from ids. -/
theorem class_map_continued (cfg : Cfg) (o : NumOracle F) (ops : List HOp) (prior df : DF F)
    (hinv : ClassInv prior.classes) (h : finalHist cfg o prior ops = .ok df) :
    ClassInv df.classes ∧ Extends prior.classes df.classes ∧
    (∀ l i, lookup prior.classes l = some i → lookup df.classes l = some i ∧ className df.classes i = l) ∧
    (∀ l1 l2 i, lookup df.classes l1 = some i → lookup df.classes l2 = some i → l1 = l2) := by
  obtain ⟨h1, h2⟩ := finalHist_cls cfg o ops prior df h
  have hi := h1 hinv
  refine ⟨hi, h2, ?_, fun l1 l2 i => encode_inj df.classes hi l1 l2 i⟩
  intro l i hl
  have := lookup_extends _ _ hi h2 l i hl
  exact ⟨this, class_name_of_lookup _ hi l i this⟩

/-- **xrff_replaces_columns.**  After the fix `read_xrff` does not look at the columns or the examples the
    object had: only the class map of the prior state matters. -/
theorem xrff_replaces_columns (cfg : Cfg) (hg : cfg.guards = true) (o : NumOracle F) (hook : Hook) (prior : DF F)
    (doc : XDoc) :
    readXrffHFrom cfg o hook prior doc = readXrffHFrom cfg o hook ({ classes := prior.classes } : DF F) doc :=
  readXrffHFrom_classes cfg hg o hook prior doc

/-- **vars_survive_reimport.**  The variables `setup_terminals` made for the columns of the object keep
    reading the right column of the examples of a later import (same hypotheses as `rows_faithful_append`):
    there are as many variables as inputs in every new example and variable `j` evaluates to input `j`,
    the value of the `j`-th column with a domain. -/
theorem vars_survive_reimport (cfg : Cfg) (hg : cfg.guards = true) (o : NumOracle F) (d : Char) (eol : Str)
    (t : Table) (p : Params) (prior : DF F) (strong : Bool) (vars : List VarSym)
    (hd : p.delim = d) (hh : p.header = some t.header.isSome) (hf : p.hook = some)
    (hwf : WellFormed d eol t) (hk : ∀ k, p.outIdx = some k → k < t.row0.length)
    (hcols : prior.cols ≠ []) (hvc : VoidClean prior.cols) (hinv : ClassInv prior.classes)
    (hty : TypedFrom o p.outIdx p.trimWs p.keepQuotes (prior.cols.map (·.dom)) prior.classes t)
    (hvars : setupTerminals { guards := true } strong prior.cols = .ok vars) :
    ∃ df, readCsvFrom cfg o p prior (t.render d eol) = .ok df ∧
      ∀ e ∈ df.examples, e.input.length = vars.length ∧
        ∀ j (hj : j < vars.length) (hi : j < e.input.length), evalVar vars[j] e = .ok e.input[j] := by
  obtain ⟨df, hread, hlen, hin, _⟩ := rows_faithful_append cfg hg o d eol t p prior hd hh hf hwf hk hcols hvc hinv hty
  refine ⟨df, hread, ?_⟩
  intro e he
  -- the example is paired with a row of the table
  obtain ⟨i, hi, rfl⟩ := List.mem_iff_getElem.1 he
  have hir : i < t.rows.length := by omega
  have hmem : (t.rows[i], df.examples[i]) ∈ t.rows.zip df.examples := by
    rw [List.mem_iff_getElem]
    exact ⟨i, by simp [List.length_zip]; omega, by simp⟩
  have hinp := hin _ hmem
  have hrow := hty.rows t.rows[i] (List.getElem_mem hir)
  have hio : InputsOK o ((prior.cols.map (·.dom)).tail) (prep p.outIdx (fieldsOf p.trimWs p.keepQuotes t.rows[i])).tail := by
    cases hD : prior.cols.map (·.dom) with
    | nil => rw [hD] at hrow; simp [RowOK] at hrow
    | cons d0 ds =>
      cases hr : prep p.outIdx (fieldsOf p.trimWs p.keepQuotes t.rows[i]) with
      | nil => rw [hD, hr] at hrow; simp [RowOK] at hrow
      | cons v vs => rw [hD, hr] at hrow; exact hrow.2.1
  have htail : (prior.cols.map (·.dom)).tail = prior.cols.tail.map (·.dom) := by cases prior.cols <;> rfl
  rw [htail] at hio hinp
  obtain ⟨hb, _, hl⟩ := var_binding { guards := true } strong prior.cols vars df.examples[i] hvars
  refine ⟨?_, fun j hj hi' => (hb j hj).2 hi'⟩
  rw [hinp, inputVals_length o _ _ hio, hl rfl]

/-! ## 6. the hypotheses can be met -/

/-- a toy oracle: the numbers are the non-empty digit strings -/
def digitOracle : NumOracle Nat where
  isNum s := !s.isEmpty && s.all Char.isDigit
  stod s := if !s.isEmpty && s.all Char.isDigit then some (s.foldl (fun n c => 10 * n + (c.toNat - 48)) 0) else none
  stoi _ := none

/-- `x,"say ""hi"", you"` and back -/
example : parseLine { delim := ',' } (renderLine ',' [("x".toList, false), ("say \"hi\", you".toList, true)]) =
    ["x".toList, "say \"hi\", you".toList] := by
  have := parse_render ',' false [] [("x".toList, false), ("say \"hi\", you".toList, true)]
    (by decide) (by decide) (Or.inl rfl) (by simp)
    (by intro p hp; simp at hp; rcases hp with rfl | rfl <;> exact clean_of_all _ (by decide))
    (by intro p hp; simp at hp; rcases hp with rfl | rfl <;> simp [needsQuote, isSpace])
  simpa using this

/-- a table `name,n / "a,b",1 / c,2` (header, text output column 0, numeric input) is well formed and typed -/
def toyTable : Table :=
  { header := some [("name".toList, false), ("n".toList, false)],
    row0 := [("a,b".toList, true), ("1".toList, false)],
    rest := [[("c".toList, false), ("2".toList, false)]] }

example : WellFormed ',' [] toyTable where
  d0 := by decide
  dq := by decide
  dn := by decide
  eol_ok := Or.inl rfl
  rect := by intro l hl; simp [Table.lines, Table.rows, toyTable] at hl; rcases hl with rfl | rfl | rfl <;> rfl
  width := by simp [toyTable]
  clean := by
    intro l hl p hp
    simp [Table.lines, Table.rows, toyTable] at hl
    rcases hl with rfl | rfl | rfl <;> simp at hp <;> rcases hp with rfl | rfl <;>
      (refine ⟨?_, ?_⟩ <;> simp [Clean, needsQuote, isSpace] <;> decide)
  visible := by
    intro l hl
    simp [Table.lines, Table.rows, toyTable] at hl
    rcases hl with rfl | rfl | rfl <;> simp [renderLine, renderField, esc, isBlank, isSpace]

example : Typed digitOracle (some 0) false false toyTable where
  rows := by
    intro r hr
    simp [Table.rows, toyTable] at hr
    rcases hr with rfl | rfl <;>
      simp [toyTable, fieldsOf, fieldOut, fieldSeen, prep, rot, kinds, kindOf, RowOK, OutOK, InputsOK, CellOK, Stable, isNumber, trim,
        isBlank, isSpace, digitOracle]
  cls := by
    right
    simp [Table.rows, toyTable, fieldsOf, fieldOut, fieldSeen, prep, rot, kinds, kindOf, Classif, outDom, specRows, outVal, encode, lookup,
      isNumber, trim, isBlank, isSpace, digitOracle]

/-- the hypotheses of `hook_absent` / `filter_absent` can be met: `toyTable` read with the filter that
    rejects the records whose first field is `c` is `name,n / "a,b",1` read without a filter -/
example : readCsv {} digitOracle { delim := ',', header := some true, hook := Hook.ofPred (fun r => r.head? != some ['c']) }
      (toyTable.render ',' []) =
    readCsv {} digitOracle { delim := ',', header := some true, hook := some }
      (renderFile [] ([[("name".toList, false), ("n".toList, false)], [("a,b".toList, true), ("1".toList, false)]].map
        (renderLine ','))) :=
  filter_absent {} digitOracle ',' [] toyTable { delim := ',', header := some true }
    (fun r => r.head? != some ['c']) _ rfl rfl
    { d0 := by decide, dq := by decide, dn := by decide, eol_ok := Or.inl rfl
      rect := by intro l hl; simp [Table.lines, Table.rows, toyTable] at hl; rcases hl with rfl | rfl | rfl <;> rfl
      width := by simp [toyTable]
      clean := by
        intro l hl p hp
        simp [Table.lines, Table.rows, toyTable] at hl
        rcases hl with rfl | rfl | rfl <;> simp at hp <;> rcases hp with rfl | rfl <;>
          (refine ⟨?_, ?_⟩ <;> simp [Clean, needsQuote, isSpace] <;> decide)
      visible := by
        intro l hl
        simp [Table.lines, Table.rows, toyTable] at hl
        rcases hl with rfl | rfl | rfl <;> simp [renderLine, renderField, esc, isBlank, isSpace] }
    (by simp [Table.lines, Table.rows, toyTable, fieldsOf, fieldOut, fieldSeen]; decide)

/-- columns `y` (numeric output), `a` (numeric), `s` (text with the states `F`, `M`): the hypotheses
    of `terminals_spec` and `var_typed` are met (record `7, 1, M`) -/
def toyCols : List Col :=
  [{ name := ['y'], dom := .dbl }, { name := ['a'], dom := .dbl }, { name := ['s'], dom := .str, states := [['F'], ['M']] }]

example : StatesStr toyCols.tail ∧ 2 ≤ toyCols.length := by
  constructor
  · intro c hc; simp [toyCols] at hc; rcases hc with rfl | rfl <;> simp
  · simp [toyCols]

example : ∃ vars : List VarSym, setupTerminals { guards := true } false toyCols = .ok vars ∧
    InputsOK digitOracle (toyCols.tail.map (·.dom)) [['1'], ['M']] := by
  refine ⟨_, rfl, ?_⟩
  simp [toyCols, InputsOK, CellOK, digitOracle, trim, isSpace]

/-- `x,y / 1,2 / 3,4` is an unambiguous table -/
example : Unambiguous digitOracle ',' (some ["x".toList, "y".toList])
    [["1".toList, "2".toList], ["3".toList, "4".toList]] where
  delim := by simp [preferred]
  width := ⟨2, by omega, by intro r hr; simp at hr; rcases hr with rfl | rfl <;> rfl,
    by intro h hh; simp at hh; subst hh; rfl⟩
  two := by simp
  data := by
    intro r hr c hc
    simp at hr
    rcases hr with rfl | rfl <;> simp at hc <;> rcases hc with rfl | rfl <;>
      simp [DataCell, PlainCell, preferred, isBlank, isSpace, isNumber, trim, digitOracle, isAlpha, isUpper, isLower] <;>
      decide
  head := by
    intro h hh c hc
    simp at hh
    subst hh
    simp at hc
    rcases hc with rfl | rfl <;>
      simp [HeadCell, PlainCell, preferred, isBlank, isSpace, isNumber, trim, digitOracle] <;> decide

/-- `"x","y" / "10","2" / "3","456"` (every cell quoted, lower-case names, numbers of different widths) is an
    unambiguous table in the sense of `sniff_agrees_quoted`, for an oracle that – like `strtod` – does not take
    a text that starts with a quote for a number -/
example : UnambiguousQ digitOracle ',' (some [("x".toList, true), ("y".toList, true)])
    [[("10".toList, true), ("2".toList, true)], [("3".toList, true), ("456".toList, true)]] where
  delim := by simp [preferred]
  width := ⟨2, by omega, by intro r hr; simp at hr; rcases hr with rfl | rfl <;> rfl,
    by intro h hh; simp at hh; subst hh; rfl⟩
  two := by simp
  data := by
    intro r hr c hc
    simp at hr
    rcases hr with rfl | rfl <;> simp at hc <;> rcases hc with rfl | rfl <;>
      simp [DataCell, PlainCell, preferred, isBlank, isSpace, isNumber, trim, digitOracle, isAlpha, isUpper, isLower] <;>
      decide
  head := by
    intro h hh c hc
    simp at hh
    subst hh
    simp at hc
    rcases hc with rfl | rfl <;>
      simp [seenQ, PlainCell, preferred, isBlank, isSpace, isNumber, trim, digitOracle] <;> decide
  bare := by intro h; cases h

/-- `2019;2020 / 1;2` (column names that are numbers: the sniffer votes "no header") meets the
    hypotheses of `explicit_header_sniffed_delimiter` -/
example : readCsv {} digitOracle { header := some true } (renderPlain ';' [["2019".toList, "2020".toList], ["1".toList, "2".toList]]) =
    readCsv {} digitOracle { header := some true, delim := ';' }
      (renderPlain ';' [["2019".toList, "2020".toList], ["1".toList, "2".toList]]) :=
  explicit_header_sniffed_delimiter {} digitOracle ';' (by simp [preferred]) 2 (by omega) _ (by simp)
    (by
      intro r hr
      simp at hr
      rcases hr with rfl | rfl <;> refine ⟨rfl, ?_⟩ <;> intro c hc <;> simp at hc <;> rcases hc with rfl | rfl <;>
        simp [PlainCell, preferred, isBlank, isSpace] <;> decide)
    { header := some true } true (by decide) ⟨rfl, rfl⟩

/-- an XRFF document (numeric attribute `x`, nominal class attribute `c`, instances `1,u` and `2,v`)
    meets the hypotheses of `rows_faithful_xrff` -/
example : ∃ df : DF Nat, readXrff {} digitOracle (fun _ => true)
    (.doc [⟨['x'], false, "numeric".toList, []⟩, ⟨['c'], true, "nominal".toList, []⟩]
          (some [[['1'], ['u']], [['2'], ['v']]])) = .ok (df, 2) := by
  obtain ⟨df, h, _⟩ := rows_faithful_xrff {} digitOracle (fun _ => true)
    (.explicit [⟨['x'], false, "numeric".toList, []⟩] ⟨['c'], true, "nominal".toList, []⟩ [])
    (by simp [XHeader.WF])
    [[['1'], ['u']], [['2'], ['v']]]
    (by
      intro r hr
      simp at hr
      rcases hr with rfl | rfl <;>
        simp [XHeader.k, XHeader.cols, colOf, colOfOut, fromWeka, rot, RowOKx, OutOK, InputsOK, CellOK, isNumber,
          trim, isSpace, digitOracle])
    (by
      right
      simp [XHeader.k, XHeader.cols, colOf, colOfOut, fromWeka, rot, Classif, outDom, specRows, outVal, encode,
        lookup, isNumber, trim, isSpace, digitOracle])
  exact ⟨df, h⟩

/-! ### histories -/

/-- the state `toyTable` leaves: columns `name` (output) / `n`, classes `a,b` ↦ 0 and `c` ↦ 1, two examples -/
def toyPrior : DF Nat :=
  { cols := [{ name := "name".toList, dom := .dbl }, { name := "n".toList, dom := .dbl }],
    classes := [("a,b".toList, 0), ("c".toList, 1)],
    examples := [{ input := [.dbl 1], output := .int 0 }, { input := [.dbl 2], output := .int 1 }] }

example : (readCsv {} digitOracle { delim := ',', header := some true } (toyTable.render ',' [])).toOption.map
    (fun df => (df.cols, df.classes, df.examples)) = some (toyPrior.cols, toyPrior.classes, toyPrior.examples) := by
  rfl

/-- a second table of the same schema, `name,n / c,5 / "a,b",7 / d,9` (an old label first, a new one last) -/
def toyTable2 : Table :=
  { header := some [("name".toList, false), ("n".toList, false)],
    row0 := [("c".toList, false), ("5".toList, false)],
    rest := [[("a,b".toList, true), ("7".toList, false)], [("d".toList, false), ("9".toList, false)]] }

/-- the hypotheses of `rows_faithful_append` / `vars_survive_reimport` are met by `toyTable2` read into the
    state `toyTable` left: three examples (not five, not four), `c` and `a,b` keep the ids 1 and 0 -/
example : ∃ df, readCsvFrom {} digitOracle { delim := ',', header := some true } toyPrior (toyTable2.render ',' []) = .ok df ∧
    df.examples.length = 3 ∧ lookup df.classes "c".toList = some 1 ∧ lookup df.classes "a,b".toList = some 0 := by
  have toy2_wf : WellFormed ',' [] toyTable2 :=
    {
      d0 := by decide
      dq := by decide
      dn := by decide
      eol_ok := Or.inl rfl
      rect := by intro l hl; simp [Table.lines, Table.rows, toyTable2] at hl; rcases hl with rfl | rfl | rfl | rfl <;> rfl
      width := by simp [toyTable2]
      clean := by
        intro l hl p hp
        simp [Table.lines, Table.rows, toyTable2] at hl
        rcases hl with rfl | rfl | rfl | rfl <;> simp at hp <;> rcases hp with rfl | rfl <;>
          (refine ⟨?_, ?_⟩ <;> simp [Clean, needsQuote, isSpace] <;> decide)
      visible := by
        intro l hl
        simp [Table.lines, Table.rows, toyTable2] at hl
        rcases hl with rfl | rfl | rfl | rfl <;> simp [renderLine, renderField, esc, isBlank, isSpace]
    }
  have toy2_typed : TypedFrom digitOracle (some 0) false false (toyPrior.cols.map (·.dom)) toyPrior.classes toyTable2 :=
    {
      rows := by
        intro r hr
        simp [Table.rows, toyTable2] at hr
        rcases hr with rfl | rfl | rfl <;>
          simp [toyPrior, fieldsOf, fieldOut, fieldSeen, prep, rot, RowOK, OutOK, InputsOK, CellOK, Stable, isNumber, trim,
            isBlank, isSpace, digitOracle]
      cls := by
        right
        simp [Table.rows, toyTable2, toyPrior, fieldsOf, fieldOut, fieldSeen, prep, rot, Classif, outDom, specRows, outVal,
          encode, lookup, isNumber, trim, isSpace, digitOracle]
    }
  obtain ⟨df, h1, h2, _, _, _, _, h7, _⟩ := rows_faithful_append {} rfl digitOracle ',' [] toyTable2
    { delim := ',', header := some true } toyPrior rfl rfl rfl toy2_wf (by intro k hk; cases hk; decide)
    (by simp [toyPrior])
    (by intro c hc; simp [toyPrior] at hc; rcases hc with rfl | rfl <;> simp)
    (by constructor <;> decide) toy2_typed
  exact ⟨df, h1, h2, (h7 _ _ (by rfl)).1, (h7 _ _ (by rfl)).1⟩

example : ∃ vars, setupTerminals { guards := true } false toyPrior.cols = .ok vars := ⟨_, rfl⟩

/-- a history (the second table, `clear()`, an XRFF document) on the object in state `toyPrior` succeeds:
    `class_map_continued` applies to it -/
example : ClassInv toyPrior.classes ∧
    ∃ df, finalHist {} digitOracle toyPrior
      [.csv { delim := ',', header := some true } (toyTable2.render ',' []), .clear,
       .xrff some (.doc [⟨['x'], false, "numeric".toList, []⟩, ⟨['c'], true, "nominal".toList, []⟩]
                        (some [[['1'], ['c']], [['2'], ['e']]]))] = .ok df :=
  ⟨by constructor <;> decide, _, rfl⟩

/-- the XRFF document of the last example read into the object in state `toyPrior` (its columns are not those
    of the document) meets the hypotheses of `rows_faithful_xrff_append` -/
example : ∃ df : DF Nat, readXrffHFrom {} digitOracle some toyPrior
    (.doc [⟨['x'], false, "numeric".toList, []⟩, ⟨['c'], true, "nominal".toList, []⟩]
          (some [[['1'], ['c']], [['2'], ['e']]])) = .ok (df, 2) := by
  obtain ⟨df, h, _⟩ := rows_faithful_xrff_append {} rfl digitOracle some toyPrior (by constructor <;> decide)
    (.explicit [⟨['x'], false, "numeric".toList, []⟩] ⟨['c'], true, "nominal".toList, []⟩ [])
    (by simp [XHeader.WF])
    [[['1'], ['c']], [['2'], ['e']]]
    (by
      intro r hr
      simp at hr
      rcases hr with rfl | rfl <;>
        simp [XHeader.k, XHeader.cols, colOf, colOfOut, fromWeka, rot, RowOKx, OutOK, InputsOK, CellOK, isNumber,
          trim, isSpace, digitOracle])
    (by
      right
      simp [toyPrior, XHeader.k, XHeader.cols, colOf, colOfOut, fromWeka, rot, Classif, outDom, specRows, outVal, encode,
        lookup, isNumber, trim, isSpace, digitOracle])
  exact ⟨df, h⟩

/-- the code as found (`guards := false`): `y,b,c / 1,,3` read a second time into the dataframe it left
    (column `b` has no domain) – the header record goes through `set_domain`, the NAME `b` makes the column a
    text column and the example gets two inputs; after the fix the column keeps having no domain -/
theorem old_header_types_column :
    (readCsvRecsFrom { guards := false } digitOracle (some 0) true
        ({ cols := [{ name := ['y'], dom := .dbl }, { name := ['b'], dom := .void }, { name := ['c'], dom := .dbl }] } : DF Nat)
        [[['y'], ['b'], ['c']], [['1'], [], ['3']]]).map (fun df => (df.cols.map (·.dom), df.examples.map (·.input.length))) =
      .ok ([.dbl, .str, .dbl], [2]) ∧
    (readCsvRecsFrom { guards := true } digitOracle (some 0) true
        ({ cols := [{ name := ['y'], dom := .dbl }, { name := ['b'], dom := .void }, { name := ['c'], dom := .dbl }] } : DF Nat)
        [[['y'], ['b'], ['c']], [['1'], [], ['3']]]).map (fun df => (df.cols.map (·.dom), df.examples.map (·.input.length))) =
      .ok ([.dbl, .void, .dbl], [1]) := ⟨rfl, rfl⟩

/-- the code as found: an XRFF document read into a dataframe that has two columns leaves four columns and
    no example (every instance has the wrong number of values) and returns 0; after the fix two and two -/
theorem old_xrff_appends_columns :
    (readXrffHFrom { guards := false } digitOracle some
        ({ cols := [{ name := ['c'], dom := .dbl }, { name := ['x'], dom := .dbl }] } : DF Nat)
        (.doc [⟨['x'], false, "numeric".toList, []⟩, ⟨['c'], true, "nominal".toList, []⟩]
              (some [[['1'], ['u']], [['2'], ['v']]]))).map
      (fun r => (r.1.cols.length, r.1.examples.length, r.2)) = .ok (4, 0, 0) ∧
    (readXrffHFrom { guards := true } digitOracle some
        ({ cols := [{ name := ['c'], dom := .dbl }, { name := ['x'], dom := .dbl }] } : DF Nat)
        (.doc [⟨['x'], false, "numeric".toList, []⟩, ⟨['c'], true, "nominal".toList, []⟩]
              (some [[['1'], ['u']], [['2'], ['v']]]))).map
      (fun r => (r.1.cols.length, r.1.examples.length, r.2)) = .ok (2, 2, 2) := ⟨rfl, rfl⟩

end Vita.C09
