import Vita.C09.Model
namespace Vita.C09
theorem placeholder : True := trivial
end Vita.C09
