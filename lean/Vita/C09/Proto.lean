/-
  Line protocol shared by the C09 and C10 drivers (same requests as harness/c09_read.cc).

    csv  <delim> <hdr> <trim> <oidx> <hook> <hexbytes> [D <n> {<hexstr> <isnum> <d..|x> <i..|x>}]
    csv2 <delim> <hdr> <trim> <keep> <oidx> <hook> <hexbytes> [D …]     (+ dialect.quoting)
    xrff <hook> <doc tokens …> [D …]              (doc tokens = answer of the harness' `xdoc`)
    xrff2 <hook> <doc tokens …> [D …]             (the harness' `xrff2` also sets dialect / output_index,
                                                   which `read_xrff` must ignore: they are not in the model)
    parse <delim> <trim> <keep> <hexbytes>
    sniff <hexbytes> [D …]
    file <hexext> <delim> <hdr> <trim> <keep> <oidx> <hook> <hexbytes> X <doc tokens …> [D …]
    var  <delim> <hdr> <trim> <oidx> <typing> <hexbytes> [D …]
    var2 csv <delim> <hdr> <trim> <keep> <oidx> <hook> <typing> <data|ctor> <hexbytes> [D …]
    var2 xrff <hook> <typing> <doc tokens …> [D …]
    old  csv|xrff …                               the same with `guards := false` (code before the fixes)
    hist <df|prob> <typing> <nsteps> {step} [D …]   a history of calls on one dataframe object (History.lean)
         step = csv <delim> <hdr> <trim> <keep> <oidx> <hook> <hexbytes>
              | xrff <hook> <ntokens> <doc tokens …>
              | file <hexext> <delim> <hdr> <trim> <keep> <oidx> <hook> <hexbytes> <ntokens> <doc tokens …>
              | clear | clone
    oldhist …                                     the same with `guards := false`

  Numbers: the model is parametric in `is_number` / `stod` / `stoi`.  The driver receives their
  values for the strings of this request in the dictionary `D …` (computed by the C++ harness'
  `num` request).  It first lists the strings the model can ask about; if one is missing from
  the dictionary the answer is `need <hexstr> …` and the caller repeats the request.
  A double is only ever a 64-bit pattern (`F := Nat`).
-/
import Vita.C09.History
import Std.Data.HashMap

namespace Vita.C09.Proto
open Vita.C09

def hexDigit (c : Char) : Option Nat :=
  if '0' ≤ c && c ≤ '9' then some (c.toNat - '0'.toNat)
  else if 'a' ≤ c && c ≤ 'f' then some (c.toNat - 'a'.toNat + 10)
  else none

def unhexGo : List Char → List Char → Option (List Char)
  | [], acc => some acc.reverse
  | a :: b :: r, acc => do
    let x ← hexDigit a
    let y ← hexDigit b
    unhexGo r (Char.ofNat (x * 16 + y) :: acc)
  | _, _ => none

def unhex (s : String) : Option Str := if s == "-" then some [] else unhexGo s.toList []

def hexNibble (n : Nat) : Char := if n < 10 then Char.ofNat (48 + n) else Char.ofNat (87 + n)

def hex (s : Str) : String :=
  if s.isEmpty then "-"
  else String.ofList (s.flatMap (fun c => [hexNibble (c.toNat / 16 % 16), hexNibble (c.toNat % 16)]))

def hex16 (n : Nat) : String :=
  String.ofList ((List.range 16).map (fun i => hexNibble (n / 16 ^ (15 - i) % 16)))

def parseHexNat (s : String) : Option Nat :=
  s.toList.foldlM (fun acc c => do let d ← hexDigit c; pure (acc * 16 + d)) 0

abbrev Dict := Std.HashMap Str (Bool × Option Nat × Option Int)

def oracle (d : Dict) : NumOracle Nat where
  isNum s := match d.get? s with | some e => e.1 | none => false
  stod s := match d.get? s with | some e => e.2.1 | none => none
  stoi s := match d.get? s with | some e => e.2.2 | none => none

/-- tokens after `D`: n entries of 4 tokens -/
def parseDict : List String → Option Dict
  | [] => some {}
  | "D" :: _n :: rest =>
    let rec go : List String → Dict → Option Dict
      | [], d => some d
      | k :: isn :: dv :: iv :: r, d => do
        let key ← unhex k
        let dd ← if dv == "x" then some none else (parseHexNat (dv.drop 1).toString).map some
        let ii ← if iv == "x" then some none else ((iv.drop 1).toString.toInt?).map some
        go r (d.insert key (isn == "1", dd, ii))
      | _, _ => none
    go rest {}
  | _ => none

def splitDict (toks : List String) : List String × List String :=
  (toks.takeWhile (· != "D"), toks.dropWhile (· != "D"))

def valStr : Val Nat → String
  | .void => "v"
  | .int n => s!"i{n}"
  | .dbl x => "d" ++ hex16 x
  | .str s => "s" ++ hex s

def domNum : Dom → Nat
  | .void => 0 | .int => 1 | .dbl => 2 | .str => 3

def dump (df : DF Nat) (ret : Nat) (valid : Bool) : String :=
  let eq := match df.examples with
    | [] => true
    | e0 :: _ => df.examples.all (fun e => e.input.length == e0.input.length)
  let cols := df.cols.map (fun c =>
    s!" {hex c.name} {domNum c.dom} {c.states.length}" ++ String.join (c.states.map (fun s => " s" ++ hex s)))
  let n := df.classes.length
  let names := (List.range (n + 1)).map (fun i => " " ++ hex (className df.classes i))
  let exs := df.examples.map (fun e =>
    s!" {valStr e.output} {e.input.length}" ++ String.join (e.input.map (fun v => " " ++ valStr v)))
  s!"ok ret={ret} valid={if valid then 1 else 0} eqin={if eq then 1 else 0} C {df.cols.length}" ++
    String.join cols ++ s!" K {n}" ++ String.join names ++ s!" E {df.examples.length}" ++ String.join exs

def excName : ExcKind → String
  | .dataFormat => "data_format"
  | .insufficientData => "insufficient_data"
  | .stdNumber => "std_number"
  | .badVariant => "bad_variant_access"

def siteName : Site → String
  | .build => "build" | .rotateCsv => "rotate_csv" | .rotateXrff => "rotate_xrff" | .fetchVar => "fetch_var"

def errStr : Err → String
  | .exc k => "exc " ++ excName k
  | .fault s => "fault " ++ siteName s

/-! hooks (the same little language as `make_filter` of harness/c09_read.cc): primitives joined by `+`,
    applied in order, the first one that rejects the record rejects it

      0            no hook                      <m>_<k> / s<m>_<k>   keep iff (#fields + Σ bytes) % m ≠ k
      w<m>_<k>     keep iff (Σ_i (i+1)·(1 + Σ bytes of field i)) % m ≠ k        (position dependent)
      c<j>_<m>_<k> keep iff there is no field j or (Σ bytes of field j + its length) % m ≠ k
      U<j>         field j (if any) in upper case   X<i>_<j>  fields i and j (if both exist) swapped -/

def sumBytes (f : Str) : Nat := (f.map Char.toNat).sum

def upperChar (c : Char) : Char := if 'a' ≤ c && c ≤ 'z' then Char.ofNat (c.toNat - 32) else c

def nats (s : String) : Option (List Nat) := (s.splitOn "_").mapM String.toNat?

def primHook (spec : String) : Option Hook :=
  match spec.toList with
  | [] => none
  | c :: rest =>
    let body := String.ofList rest
    if spec == "0" then some some
    else if c.isDigit || c == 's' then
      match nats (if c == 's' then body else spec) with
      | some [m, k] => if m = 0 then none else
        some (fun r => if (r.length + (r.map sumBytes).sum) % m != k then some r else none)
      | _ => none
    else if c == 'w' then
      match nats body with
      | some [m, k] => if m = 0 then none else
        some (fun r => if ((r.zipIdx 1).map (fun p => p.2 * (1 + sumBytes p.1))).sum % m != k then some r else none)
      | _ => none
    else if c == 'c' then
      match nats body with
      | some [j, m, k] => if m = 0 then none else
        some (fun r => match r[j]? with
          | none => some r
          | some f => if (sumBytes f + f.length) % m != k then some r else none)
      | _ => none
    else if c == 'U' then
      match nats body with
      | some [j] => some (fun r => match r[j]? with
          | none => some r
          | some f => some (r.set j (f.map upperChar)))
      | _ => none
    else if c == 'X' then
      match nats body with
      | some [i, j] => some (fun r => match r[i]?, r[j]? with
          | some a, some b => some ((r.set i b).set j a)
          | _, _ => some r)
      | _ => none
    else none

def makeHook (spec : String) : Option Hook := do
  let prims ← (spec.splitOn "+").mapM primHook
  some (fun r => prims.foldlM (fun r h => h r) r)

def makeParams (delim hdr trim keep oidx : String) : Option Params := do
  let d ← delim.toNat?
  let h ← hdr.toInt?
  let o ← oidx.toInt?
  some { delim := Char.ofNat d, header := if h < 0 then none else some (h != 0),
         trimWs := trim == "1", keepQuotes := keep == "1", outIdx := if o < 0 then none else some o.toNat }

/-- every string the model may hand to `isNum` / `stod` / `stoi` for this input: the trimmed
    fields of every record under the delimiters in play, with quotes removed and kept -/
def csvCells (p : Params) (lines : List Str) : List Str :=
  let nb := lines.filter (fun l => !isBlank l)
  let ds := (if p.delim = '\x00' then [] else [p.delim]) ++ [guessDelimiter 20 lines]
  let fields := ds.flatMap (fun d =>
    nb.flatMap (fun l => parseLine { delim := d, trimWs := p.trimWs } l ++
                         parseLine { delim := d, keepQuotes := true } l ++
                         parseLine { delim := d } l) ++
    (records { delim := d, trimWs := p.trimWs, keepQuotes := p.keepQuotes } p.hook lines).flatMap id)
  (fields.map trim).eraseDups

def missing (d : Dict) (cells : List Str) : List Str := cells.filter (fun c => !d.contains c)

def needStr (ms : List Str) : String := "need" ++ String.join (ms.map (fun m => " " ++ hex m))

/-- doc tokens (answer of `xdoc` without the leading `doc`) -/
def parseStrs : Nat → List String → Option (List Str × List String)
  | 0, r => some ([], r)
  | n + 1, t :: r => do
    let s ← unhex t
    let (ss, r') ← parseStrs n r
    some (s :: ss, r')
  | _, [] => none

def parseAttrs : Nat → List String → Option (List XAttr × List String)
  | 0, r => some ([], r)
  | n + 1, nm :: cls :: ty :: nl :: r => do
    let name ← unhex nm
    let type ← unhex ty
    let k ← nl.toNat?
    let (labels, r') ← parseStrs k r
    let (as, r'') ← parseAttrs n r'
    some ({ name := name, cls := cls == "1", type := type, labels := labels } :: as, r'')
  | _, _ => none

def parseInsts : Nat → List String → Option (List (List Str) × List String)
  | 0, r => some ([], r)
  | n + 1, k :: r => do
    let k ← k.toNat?
    let (vs, r') ← parseStrs k r
    let (is, r'') ← parseInsts n r'
    some (vs :: is, r'')
  | _, [] => none

def parseDoc : List String → Option XDoc
  | ["parse-error"] => some .parseError
  | ["no-attributes"] => some .noAttributes
  | "A" :: n :: r => do
    let n ← n.toNat?
    let (attrs, r') ← parseAttrs n r
    match r' with
    | ["no-instances"] => some (.doc attrs none)
    | "I" :: m :: r'' => do
      let m ← m.toNat?
      let (insts, rest) ← parseInsts m r''
      if rest.isEmpty then some (.doc attrs (some insts)) else none
    | _ => none
  | _ => none

def docCells (hook : Hook) : XDoc → List Str
  | .doc _ (some insts) => ((insts ++ insts.filterMap hook).flatMap (fun r => r.map trim)).eraseDups
  | _ => []

def answerCsvP (cfg : Cfg) (p : Option Params) (filt bytes : String) (dict : Dict) : String :=
  match p, makeHook filt, unhex bytes with
  | some p, some f, some b =>
    let p := { p with hook := f }
    let ms := missing dict (csvCells p (splitLines b))
    if !ms.isEmpty then needStr ms
    else match readCsv cfg (oracle dict) p b with
      | .ok df => dump df df.examples.length true
      | .error e => errStr e
  | _, _, _ => "bad-op"

def answerCsv (cfg : Cfg) (main : List String) (dict : Dict) : String :=
  match main with
  | [delim, hdr, trim, oidx, filt, bytes] => answerCsvP cfg (makeParams delim hdr trim "0" oidx) filt bytes dict
  | [delim, hdr, trim, keep, oidx, filt, bytes] => answerCsvP cfg (makeParams delim hdr trim keep oidx) filt bytes dict
  | _ => "bad-op"

def answerXrff (cfg : Cfg) (main : List String) (dict : Dict) : String :=
  match main with
  | filt :: docToks =>
    match makeHook filt, parseDoc docToks with
    | some f, some doc =>
      let ms := missing dict (docCells f doc)
      if !ms.isEmpty then needStr ms
      else match readXrffH cfg (oracle dict) f doc with
        | .ok (df, ret) =>
          let valid := match isValid df with | .ok v => v | .error _ => false
          dump df ret valid
        | .error e => errStr e
    | _, _ => "bad-op"
  | _ => "bad-op"

/-- `file <hexext> <delim> <hdr> <trim> <keep> <oidx> <hook> <hexbytes> X <doc tokens>` -/
def answerFile (cfg : Cfg) (main : List String) (dict : Dict) : String :=
  match main with
  | ext :: delim :: hdr :: trim :: keep :: oidx :: filt :: bytes :: "X" :: docToks =>
    match unhex ext, makeParams delim hdr trim keep oidx, makeHook filt, unhex bytes, parseDoc docToks with
    | some e, some p, some f, some b, some doc =>
      let p := { p with hook := f }
      let ms := missing dict (if isXrffExt e then docCells f doc else csvCells p (splitLines b))
      if !ms.isEmpty then needStr ms
      else match readFile cfg (oracle dict) p e b doc with
        | .ok (df, ret) =>
          let valid := match isValid df with | .ok v => v | .error _ => false
          dump df ret valid
        | .error e => errStr e
    | _, _, _, _, _ => "bad-op"
  | _ => "bad-op"

def recsStr (rs : List (List Str)) : String :=
  s!"ok R {rs.length}" ++ String.join (rs.map (fun r => s!" {r.length}" ++ String.join (r.map (fun f => " " ++ hex f))))

def answerVar (main : List String) (dict : Dict) : String :=
  match main with
  | [delim, hdr, trim, oidx, typing, bytes] =>
    match makeParams delim hdr trim "0" oidx, unhex bytes with
    | some p, some b =>
      let ms := missing dict (csvCells p (splitLines b))
      if !ms.isEmpty then needStr ms
      else
        let r : M String := do
          let df ← readCsv {} (oracle dict) p b
          let vars ← setupTerminals {} (typing == "1") df.cols
          let parts ← vars.mapM (fun v => do
            let vals ← (df.examples.take 3).mapM (fun e => do
              let x ← evalVar v e
              pure s!" {v.var} {valStr x}")
            let cat := match v.category with | some c => toString c | none => "u"
            pure (s!" {hex v.name} {cat} {vals.length}" ++ String.join vals))
          pure (s!"ok V {vars.length}" ++ String.join parts)
        match r with
        | .ok s => s
        | .error e => errStr e
    | _, _ => "bad-op"
  | _ => "bad-op"

/-- `ok S n {v name cat rows {asked value} | k name cat value} P categories variables classes C n {name dom nstates}` -/
def symsStr (df : DF Nat) (syms : List TermSym) : M String := do
  let parts ← syms.mapM (fun s => match s with
    | .var v => do
      let vals ← (df.examples.take 3).mapM (fun e => do
        let x ← evalVar v e
        pure s!" {v.var} {valStr x}")
      let cat := match v.category with | some c => toString c | none => "u"
      pure (s!" v {hex v.name} {cat} {vals.length}" ++ String.join vals)
    | .const name val c =>
      let cat := match c with | some c => toString c | none => "u"
      pure s!" k {hex name} {cat} s{hex val}")
  let nvars := match df.examples with | [] => 0 | e :: _ => e.input.length
  let cols := df.cols.map (fun c => s!" {hex c.name} {domNum c.dom} {c.states.length}")
  pure (s!"ok S {syms.length}" ++ String.join parts ++
    s!" P {ssetCategories syms} {nvars} {df.classes.length} C {df.cols.length}" ++ String.join cols)

/-- `symsStr` for a history: the examples may be those of a later import with another number of inputs;
    a variable that asks for an input the example does not have gets the harness' probe value
    `<out-of-range>` instead of a fault -/
def symsStrH (df : DF Nat) (syms : List TermSym) : String :=
  let parts := syms.map (fun s => match s with
    | .var v =>
      let vals := (df.examples.take 3).map (fun e =>
        match evalVar v e with
        | .ok x => s!" {v.var} {valStr x}"
        | .error _ => s!" {v.var} s{hex "<out-of-range>".toList}")
      let cat := match v.category with | some c => toString c | none => "u"
      s!" v {hex v.name} {cat} {vals.length}" ++ String.join vals
    | .const name val c =>
      let cat := match c with | some c => toString c | none => "u"
      s!" k {hex name} {cat} s{hex val}")
  let nvars := match df.examples with | [] => 0 | e :: _ => e.input.length
  let cols := df.cols.map (fun c => s!" {hex c.name} {domNum c.dom} {c.states.length}")
  s!"ok S {syms.length}" ++ String.join parts ++
    s!" P {ssetCategories syms} {nvars} {df.classes.length} C {df.cols.length}" ++ String.join cols

def answerVar2 (main : List String) (dict : Dict) : String :=
  match main with
  | ["csv", delim, hdr, trim, keep, oidx, filt, typing, _via, bytes] =>
    match makeParams delim hdr trim keep oidx, makeHook filt, unhex bytes with
    | some p, some f, some b =>
      let p := { p with hook := f }
      let ms := missing dict (csvCells p (splitLines b))
      if !ms.isEmpty then needStr ms
      else
        let r : M String := do
          let df ← readCsv {} (oracle dict) p b
          let syms ← setupSymbols {} (typing == "1") df.cols
          symsStr df syms
        match r with
        | .ok s => s
        | .error e => errStr e
    | _, _, _ => "bad-op"
  | "xrff" :: filt :: typing :: docToks =>
    match makeHook filt, parseDoc docToks with
    | some f, some doc =>
      let ms := missing dict (docCells f doc)
      if !ms.isEmpty then needStr ms
      else
        let r : M String := do
          let (df, _) ← readXrffH {} (oracle dict) f doc
          let syms ← setupSymbols {} (typing == "1") df.cols
          symsStr df syms
        match r with
        | .ok s => s
        | .error e => errStr e
    | _, _ => "bad-op"
  | _ => "bad-op"

/-! histories (`hist`): the steps are parsed together with the strings the model may ask the oracle about -/

def takeDoc : List String → Option (XDoc × List String)
  | n :: r => do
    let n ← n.toNat?
    if r.length < n then none
    else do
      let doc ← parseDoc (r.take n)
      some (doc, r.drop n)
  | [] => none

def parseSteps : Nat → List String → Option (List (POp × List Str))
  | 0, [] => some []
  | 0, _ => none
  | n + 1, "csv" :: delim :: hdr :: trim :: keep :: oidx :: filt :: bytes :: r => do
    let p ← makeParams delim hdr trim keep oidx
    let f ← makeHook filt
    let b ← unhex bytes
    let p := { p with hook := f }
    let rest ← parseSteps n r
    some ((.op (.csv p b), csvCells p (splitLines b)) :: rest)
  | n + 1, "xrff" :: filt :: r => do
    let f ← makeHook filt
    let (doc, r') ← takeDoc r
    let rest ← parseSteps n r'
    some ((.op (.xrff f doc), docCells f doc) :: rest)
  | n + 1, "file" :: ext :: delim :: hdr :: trim :: keep :: oidx :: filt :: bytes :: r => do
    let e ← unhex ext
    let p ← makeParams delim hdr trim keep oidx
    let f ← makeHook filt
    let b ← unhex bytes
    let p := { p with hook := f }
    let (doc, r') ← takeDoc r
    let rest ← parseSteps n r'
    some ((.op (.file p e b doc), if isXrffExt e then docCells f doc else csvCells p (splitLines b)) :: rest)
  | n + 1, "clear" :: r => do
    let rest ← parseSteps n r
    some ((.op .clear, []) :: rest)
  | n + 1, "clone" :: r => do
    let rest ← parseSteps n r
    some ((.clone, []) :: rest)
  | _, _ => none

/-- the answers of the steps, each preceded by ` | ` (same text as the harness' `hist`) -/
def histGo (cfg : Cfg) (o : NumOracle Nat) (prob strong : Bool) : List POp → PSt Nat → String
  | [], s =>
    if prob then
      " | " ++ (match s.syms with
        | none => "no-import"
        | some syms => symsStrH s.target syms)
    else ""
  | op :: ops, s =>
    if !prob && !op.isImport && (match op with | .clone => true | _ => false) then " | bad-step"
    else match op.run cfg o s with
      | .error e => " | " ++ errStr e
      | .ok (s', df, ret) =>
        let valid := match isValid df with | .ok v => v | .error _ => false
        let d := " | " ++ dump df ret valid
        if prob && op.isImport && s'.syms.isNone then
          match s'.setup cfg strong with
          | .error e => d ++ " | " ++ errStr e
          | .ok s'' => d ++ histGo cfg o prob strong ops s''
        else d ++ histGo cfg o prob strong ops s'

def answerHist (cfg : Cfg) (main : List String) (dict : Dict) : String :=
  match main with
  | via :: typing :: n :: toks =>
    match n.toNat? >>= fun n => parseSteps n toks with
    | none => "bad-op"
    | some steps =>
      let ms := missing dict ((steps.flatMap (·.2)).eraseDups)
      if !ms.isEmpty then needStr ms
      else "hist" ++ histGo cfg (oracle dict) (via == "prob") (typing == "1") (steps.map (·.1)) {}
  | _ => "bad-op"

def answer (line : String) : String :=
  let toks := (line.trimAscii.toString.splitOn " ").filter (· != "")
  let (main, dtoks) := splitDict toks
  match parseDict dtoks with
  | none => "bad-op"
  | some dict =>
    match main with
    | "csv" :: rest => answerCsv {} rest dict
    | "csv2" :: rest => answerCsv {} rest dict
    | "xrff" :: rest => answerXrff {} rest dict
    | "xrff2" :: rest => answerXrff {} rest dict
    | "old" :: "csv" :: rest => answerCsv { guards := false } rest dict
    | "old" :: "xrff" :: rest => answerXrff { guards := false } rest dict
    | "file" :: rest => answerFile {} rest dict
    | "var" :: rest => answerVar rest dict
    | "var2" :: rest => answerVar2 rest dict
    | "hist" :: rest => answerHist {} rest dict
    | "oldhist" :: rest => answerHist { guards := false } rest dict
    | ["parse", delim, trim, keep, bytes] =>
      match delim.toNat?, unhex bytes with
      | some d, some b =>
        recsStr (records { delim := Char.ofNat d, trimWs := trim == "1", keepQuotes := keep == "1" }
          some (splitLines b))
      | _, _ => "bad-op"
    | ["sniff", bytes] =>
      match unhex bytes with
      | some b =>
        let lines := splitLines b
        let d := guessDelimiter 20 lines
        let cells := ((lines.filter (fun l => !isBlank l)).flatMap (fun l =>
          parseLine { delim := d, keepQuotes := true } l ++ parseLine { delim := d } l)).map trim
        let ms := missing dict cells.eraseDups
        if !ms.isEmpty then needStr ms
        else
          let s := sniffer (oracle dict) 20 lines
          s!"ok {s.1.toNat} {if s.2 then 1 else 0}"
      | none => "bad-op"
    | _ => "bad-op"

end Vita.C09.Proto
