/-
  C10 line-protocol driver: the C10 model is the C09 model (checked accesses, partial conversions) (requests: see Vita/C09/Proto.lean; same lines as harness/c09_read.cc).
-/
import Vita.C09.Proto

partial def loop (h : IO.FS.Stream) (out : IO.FS.Stream) : IO Unit := do
  let line ← h.getLine
  if line.isEmpty then return ()
  out.putStrLn (Vita.C09.Proto.answer line)
  loop h out

def main : IO Unit := do
  loop (← IO.getStdin) (← IO.getStdout)
