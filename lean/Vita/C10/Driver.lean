/-
  C10 line-protocol driver: the C10 model is the C09 model (checked accesses, partial conversions); requests: see
  Vita/C09/Proto.lean (same lines as harness/c09_read.cc) and Vita/C10/Proto.lean (`valid`, harness/c10_scale.cc).
-/
import Vita.C10.Proto

partial def loop (h : IO.FS.Stream) (out : IO.FS.Stream) : IO Unit := do
  let line ← h.getLine
  if line.isEmpty then return ()
  out.putStrLn (Vita.C10.Proto.answer line)
  loop h out

def main : IO Unit := do
  loop (← IO.getStdin) (← IO.getStdout)
