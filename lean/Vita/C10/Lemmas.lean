/-
  C10 — helper lemmas: a computation of the import model that cannot end in `Err.fault`.
-/
import Vita.C09.LemmasDf
import Vita.C09.LemmasCat
import Vita.C09.LemmasRead

namespace Vita.C10
open Vita.C09

variable {F : Type} {α β : Type}

/-- the computation does not end in an out-of-bounds access -/
def NoFault (x : M α) : Prop := ∀ s, x ≠ .error (.fault s)

theorem noFault_pure (a : α) : NoFault (pure a : M α) := by intro s h; cases h
theorem noFault_ok (a : α) : NoFault (.ok a : M α) := by intro s h; cases h
theorem noFault_exc (k : ExcKind) : NoFault (throw (.exc k) : M α) := by intro s h; cases h
theorem noFault_err_exc (k : ExcKind) : NoFault (.error (.exc k) : M α) := by intro s h; cases h

theorem noFault_bind {x : M α} {f : α → M β} (hx : NoFault x) (hf : ∀ a, NoFault (f a)) :
    NoFault (x >>= f) := by
  intro s h
  cases x with
  | error e =>
    simp only [bind, Except.bind] at h
    cases h
    exact hx s rfl
  | ok a => exact hf a s h

theorem noFault_foldlM (f : β → α → M β) (hf : ∀ b a, NoFault (f b a)) : ∀ (l : List α) (b : β),
    NoFault (l.foldlM f b) := by
  intro l
  induction l with
  | nil => intro b; exact noFault_pure b
  | cons a l ih =>
    intro b
    simp only [List.foldlM]
    exact noFault_bind (hf b a) (fun b' => ih b')

theorem convert_noFault (o : NumOracle F) (d : Dom) (s : Str) : NoFault (convert o d s) := by
  unfold convert
  cases d with
  | int => cases o.stoi s <;> first | exact noFault_pure _ | exact noFault_exc _
  | dbl => cases o.stod s <;> first | exact noFault_pure _ | exact noFault_exc _
  | str => exact noFault_pure _
  | void => exact noFault_pure _

theorem inputsGo_noFault (o : NumOracle F) (add : Bool) : ∀ (cs : List Col) (xs : List Str),
    NoFault (inputsGo o add cs xs) := by
  intro cs
  induction cs with
  | nil => intro xs; unfold inputsGo; exact noFault_pure _
  | cons c cs ih =>
    intro xs
    cases xs with
    | nil => unfold inputsGo; exact noFault_pure _
    | cons x xs =>
      unfold inputsGo
      split
      · exact noFault_bind (ih xs) (fun a => by obtain ⟨a1, a2⟩ := a; exact noFault_pure _)
      · exact noFault_bind (convert_noFault o c.dom (trim x)) (fun v =>
          noFault_bind (ih xs) (fun a => by obtain ⟨a1, a2⟩ := a; exact noFault_pure _))

theorem outputOf_noFault (o : NumOracle F) (cl : ClassMap) (c0 : Col) (v0 : Str) (add : Bool) :
    NoFault (outputOf o cl c0 v0 add) := by
  unfold outputOf
  split
  · exact noFault_pure _
  · split
    · exact noFault_pure _
    · exact noFault_bind (convert_noFault o c0.dom (trim v0)) (fun x => noFault_pure _)

theorem toExample_noFault (o : NumOracle F) (df : DF F) (v : List Str) (add : Bool) :
    NoFault (toExample o df v add) := by
  unfold toExample
  split
  · next _ _ c0 cs v0 vs _ =>
    exact noFault_bind (outputOf_noFault o df.classes c0 v0 add) (fun r =>
      noFault_bind (inputsGo_noFault o add cs vs) (fun q => noFault_pure _))
  · exact noFault_pure _

theorem readRecord_noFault (o : NumOracle F) (df : DF F) (r : List Str) (add : Bool) :
    NoFault (readRecord o df r add) := by
  unfold readRecord
  split
  · exact noFault_pure _
  · exact noFault_bind (toExample_noFault o df r add) (fun a => by obtain ⟨a1, a2⟩ := a; exact noFault_pure _)

/-! ### the guarded accesses -/

/-- with the guard of the fix `build` never indexes `cols_` out of range -/
theorem build_noFault (o : NumOracle F) (cols : List Col) (r : List Str) (hdr : Bool) :
    NoFault (build { guards := true } o cols r hdr) := by
  unfold build
  split
  · exact noFault_pure _
  · generalize (if cols.isEmpty = true then List.replicate r.length ({} : Col) else cols) = cols'
    simp only [Bool.true_and]
    split
    · exact noFault_pure _
    · next h =>
      simp only [bne_iff_ne, ne_eq, Decidable.not_not] at h
      rw [buildGo_eq o true _ r h]
      exact noFault_ok _

theorem csvProceed_noFault (o : NumOracle F) (hasHdr : Bool) (st : St F) (r' : List Str) :
    NoFault (csvProceed { guards := true } o hasHdr st r') := by
  unfold csvProceed
  apply noFault_bind
  · split
    · exact build_noFault o _ _ _
    · exact noFault_pure _
  · intro cols
    apply noFault_bind
    · split
      · exact readRecord_noFault o _ _ _
      · exact noFault_pure _
    · intro df; exact noFault_pure _

/-- with the guard of the fix `read_csv` never rotates past the end of a record -/
theorem csvStep_noFault (o : NumOracle F) (outIdx : Option Nat) (hasHdr : Bool) (st : St F) (r : List Str) :
    NoFault (csvStep { guards := true } o outIdx hasHdr st r) := by
  unfold csvStep
  split
  · next k =>
    simp only [Bool.true_and]
    split
    · exact noFault_pure _
    · next h =>
      simp only [ge_iff_le, decide_eq_true_eq, Nat.not_le] at h
      rw [rotate?_ok _ r k h]
      exact csvProceed_noFault o hasHdr st _
  · exact csvProceed_noFault o hasHdr st _

theorem label_noFault (e : Example F) : NoFault (label e) := by
  unfold label
  split
  · exact noFault_pure _
  · exact noFault_exc _

theorem examplesValid_noFault (cl inSize : Nat) : ∀ es : List (Example F), NoFault (examplesValid cl inSize es) := by
  intro es
  induction es with
  | nil => unfold examplesValid; exact noFault_pure _
  | cons e es ih =>
    unfold examplesValid
    split
    · exact noFault_pure _
    · split
      · exact ih
      · apply noFault_bind (label_noFault e)
        intro l
        split
        · exact noFault_pure _
        · exact ih

theorem isValid_noFault (df : DF F) : NoFault (isValid df) := by
  unfold isValid
  split
  · exact noFault_pure _
  · split
    · exact noFault_pure _
    · exact noFault_bind (examplesValid_noFault _ _ _) (fun b => noFault_pure _)

theorem readCsvRecs_noFault (o : NumOracle F) (outIdx : Option Nat) (hasHdr : Bool) (recs : List (List Str)) :
    NoFault (readCsvRecs { guards := true } o outIdx hasHdr recs) := by
  unfold readCsvRecs
  apply noFault_bind (noFault_foldlM _ (fun st r => csvStep_noFault o outIdx hasHdr st r) recs _)
  intro st
  apply noFault_bind (isValid_noFault st.df)
  intro v
  split
  · exact noFault_exc _
  · exact noFault_pure _

/-! ### XRFF -/

theorem xAttrStep_noFault (st : XSt) (a : XAttr) : NoFault (xAttrStep st a) := by
  unfold xAttrStep
  simp only []
  split <;> split <;> first | exact noFault_exc _ | exact noFault_pure _

theorem xInstStepH_noFault (o : NumOracle F) (hook : Hook) (k : Nat) (df : DF F) (r : List Str) :
    NoFault (xInstStepH { guards := true } o hook k df r) := by
  unfold xInstStepH
  split
  · exact noFault_pure _
  · next r' _ =>
    apply noFault_bind
    · simp only [Bool.true_and]
      split
      · exact noFault_pure _
      · next h =>
        simp only [ge_iff_le, decide_eq_true_eq, Nat.not_le] at h
        rw [rotate?_ok _ r' k h]
        exact noFault_ok _
    · intro r''; exact readRecord_noFault o df r'' false

theorem readXrffH_noFault (o : NumOracle F) (hook : Hook) (doc : XDoc) :
    NoFault (readXrffH { guards := true } o hook doc) := by
  unfold readXrffH
  split
  · exact noFault_exc _
  · exact noFault_exc _
  · next attrs instances =>
    apply noFault_bind (noFault_foldlM _ xAttrStep_noFault attrs _)
    intro st
    split
    · exact noFault_exc _
    · simp only []
      split
      · exact noFault_exc _
      · next insts =>
        apply noFault_bind (noFault_foldlM _ (fun df r => xInstStepH_noFault o hook _ df r) insts _)
        intro df
        apply noFault_bind (isValid_noFault df)
        intro v
        split
        · exact noFault_exc _
        · exact noFault_pure _

/-! ### vocabulary of the C10 theorems -/

/-- the dataframe passes its own consistency check -/
def Valid (df : DF F) : Prop := isValid df = .ok true

/-- every example has the same number of inputs -/
def EqualInputs (df : DF F) : Prop := ∀ e ∈ df.examples, ∀ e' ∈ df.examples, e.input.length = e'.input.length

theorem examplesValid_true (cl n : Nat) : ∀ es : List (Example F), examplesValid cl n es = .ok true →
    ∀ e ∈ es, e.input.length = n := by
  intro es
  induction es with
  | nil => intro _ e he; cases he
  | cons a es ih =>
    intro h e he
    unfold examplesValid at h
    split at h
    · cases h
    · next hlen =>
      simp only [bne_iff_ne, ne_eq, Decidable.not_not] at hlen
      have hrest : examplesValid cl n es = .ok true := by
        split at h
        · exact h
        · cases hl : label a with
          | error err => simp [hl, bind, Except.bind] at h
          | ok l =>
            simp only [hl, bind, Except.bind] at h
            split at h
            · cases h
            · exact h
      simp only [List.mem_cons] at he
      rcases he with rfl | he
      · exact hlen
      · exact ih hrest e he

theorem valid_equalInputs (df : DF F) (h : Valid df) : EqualInputs df := by
  unfold Valid isValid at h
  split at h
  · next hnil => intro e he; rw [hnil] at he; cases he
  · next e0 es hes =>
    split at h
    · cases h
    · cases hv : examplesValid df.classes.length e0.input.length df.examples with
      | error err => simp [hv, bind, Except.bind] at h
      | ok b =>
        simp only [hv, bind, Except.bind, pure, Except.pure, Except.ok.injEq, Bool.and_eq_true] at h
        have := examplesValid_true _ _ _ (by rw [hv, h.1])
        intro e he e' he'
        rw [this e he, this e' he']

/-- what `read_csv` guarantees: no out-of-bounds access, and a returned dataframe is valid, not
    empty, with equally long input vectors -/
def ReadTotalCsv (cfg : Cfg) : Prop :=
  ∀ (F : Type) (o : NumOracle F) (p : Params) (bytes : Str),
    NoFault (readCsv cfg o p bytes) ∧
    ∀ df, readCsv cfg o p bytes = .ok df → Valid df ∧ df.examples ≠ [] ∧ EqualInputs df

/-- what `read_xrff` guarantees, for every hook (`filter_hook_t` may reject and may rewrite the record) -/
def ReadTotalXrff (cfg : Cfg) : Prop :=
  ∀ (F : Type) (o : NumOracle F) (hook : Hook) (doc : XDoc),
    NoFault (readXrffH cfg o hook doc) ∧
    ∀ df n, readXrffH cfg o hook doc = .ok (df, n) → Valid df ∧ EqualInputs df ∧ n = df.examples.length

/-- what `dataframe::read(path)` guarantees, whatever the extension of the file name -/
def ReadTotalFile (cfg : Cfg) : Prop :=
  ∀ (F : Type) (o : NumOracle F) (p : Params) (ext bytes : Str) (doc : XDoc),
    NoFault (readFile cfg o p ext bytes doc) ∧
    ∀ df n, readFile cfg o p ext bytes doc = .ok (df, n) → Valid df ∧ EqualInputs df ∧ n = df.examples.length

/-- an oracle for which the letters used below are not numbers -/
def LettersOnly (o : NumOracle F) : Prop := ∀ s : Str, s.length = 1 → s.all isAlpha = true → o.isNum s = false


theorem readCsvRecs_valid (cfg : Cfg) (o : NumOracle F) (outIdx : Option Nat) (hasHdr : Bool)
    (recs : List (List Str)) (df : DF F) (h : readCsvRecs cfg o outIdx hasHdr recs = .ok df) :
    Valid df ∧ df.examples ≠ [] ∧ EqualInputs df := by
  unfold readCsvRecs at h
  cases hf : List.foldlM (csvStep cfg o outIdx hasHdr) ({} : St F) recs with
  | error e => simp [hf, bind, Except.bind] at h
  | ok st =>
    simp only [hf, bind, Except.bind] at h
    cases hv : isValid st.df with
    | error e => simp [hv] at h
    | ok v =>
      simp only [hv] at h
      split at h
      · cases h
      · next hc =>
        simp only [pure, Except.pure, Except.ok.injEq] at h
        subst h
        simp only [Bool.or_eq_true, Bool.not_eq_eq_eq_not, Bool.not_true, not_or, Bool.not_eq_false,
          Bool.not_eq_true] at hc
        have hvalid : Valid st.df := by unfold Valid; rw [hv, hc.1]
        refine ⟨hvalid, ?_, valid_equalInputs _ hvalid⟩
        intro hnil
        simp [hnil] at hc


theorem readXrffH_valid (o : NumOracle F) (hook : Hook) (doc : XDoc) (df : DF F) (n : Nat)
    (h : readXrffH { guards := true } o hook doc = .ok (df, n)) :
    Valid df ∧ EqualInputs df ∧ n = df.examples.length := by
  unfold readXrffH at h
  split at h
  · cases h
  · cases h
  · next attrs instances =>
    cases ha : List.foldlM xAttrStep ({} : XSt) attrs with
    | error e => simp [ha, bind, Except.bind] at h
    | ok st =>
      simp only [ha, bind, Except.bind] at h
      split at h
      · cases h
      · split at h
        · cases h
        · next insts =>
          cases hi : List.foldlM (xInstStepH { guards := true } o hook
              (if st.nOutput = 0 then st.index - 1 else st.outputIndex))
              ({ cols := if st.nOutput = 0 then st.cols.getLast?.toList ++ st.cols.dropLast else st.cols } : DF F)
              insts with
          | error e => simp [hi] at h
          | ok df' =>
            simp only [hi] at h
            cases hv : isValid df' with
            | error e => simp [hv] at h
            | ok v =>
              simp only [hv, Bool.true_and] at h
              split at h
              · cases h
              · next hc =>
                simp only [pure, Except.pure, Except.ok.injEq, Prod.mk.injEq] at h
                obtain ⟨rfl, rfl⟩ := h
                simp only [Bool.not_eq_true', Bool.not_eq_false] at hc
                have hvalid : Valid df' := by unfold Valid; rw [hv, hc]
                exact ⟨hvalid, valid_equalInputs _ hvalid, by simp [hc]⟩

/-- the labels `is_valid` accepts: no classes at all (regression), or every output is a class id below the
    number of classes -/
def LabelsOK (df : DF F) : Prop :=
  df.classes.length = 0 ∨ ∀ e ∈ df.examples, ∃ l : Int, e.output = .int l ∧ 0 ≤ l ∧ l < df.classes.length

theorem examplesValid_spec (cl n : Nat) : ∀ es : List (Example F), examplesValid cl n es = .ok true ↔
    (∀ e ∈ es, e.input.length = n) ∧
    (cl = 0 ∨ ∀ e ∈ es, ∃ l : Int, e.output = .int l ∧ 0 ≤ l ∧ l < cl) := by
  intro es
  induction es with
  | nil => simp [examplesValid, pure, Except.pure]
  | cons a es ih =>
    unfold examplesValid
    by_cases hlen : a.input.length = n
    · simp only [hlen, bne_self_eq_false, Bool.false_eq_true, if_false]
      by_cases hcl : cl = 0
      · simp only [hcl, if_true] at ih ⊢
        rw [ih]
        simp [hlen]
      · simp only [hcl, if_false]
        cases ho : a.output with
        | int l =>
          simp only [label, ho, pure, Except.pure, bind, Except.bind]
          by_cases hl : l < 0 ∨ (cl : Int) ≤ l
          · have hl' : (decide (l < 0) || decide (l ≥ (cl : Int))) = true := by
              rcases hl with h | h <;> simp [h]
            simp only [hl', if_true]
            constructor
            · intro h; cases h
            · intro h
              rcases h.2 with h0 | h0
              · first | exact h0.elim | exact absurd h0 hcl
              · obtain ⟨l', hl1, hl2, hl3⟩ := h0 a (by simp)
                rw [ho] at hl1
                cases hl1
                omega
          · have hl' : (decide (l < 0) || decide (l ≥ (cl : Int))) = false := by
              simp only [not_or, Int.not_lt, Int.not_le] at hl
              simp [hl.1, hl.2]
            simp only [hl', Bool.false_eq_true, if_false]
            rw [ih]
            simp only [hcl, false_or, List.mem_cons, forall_eq_or_imp, hlen, true_and]
            constructor
            · rintro ⟨h1, h2⟩
              refine ⟨h1, ⟨l, ho, by omega, by omega⟩, h2⟩
            · rintro ⟨h1, _, h2⟩
              exact ⟨h1, h2⟩
        | void =>
          simp only [label, ho, throw, throwThe, MonadExceptOf.throw, bind, Except.bind]
          constructor
          · intro h; cases h
          · intro h
            rcases h.2 with h0 | h0
            · first | exact h0.elim | exact absurd h0 hcl
            · obtain ⟨l', hl1, _⟩ := h0 a (by simp)
              rw [ho] at hl1; cases hl1
        | dbl x =>
          simp only [label, ho, throw, throwThe, MonadExceptOf.throw, bind, Except.bind]
          constructor
          · intro h; cases h
          · intro h
            rcases h.2 with h0 | h0
            · first | exact h0.elim | exact absurd h0 hcl
            · obtain ⟨l', hl1, _⟩ := h0 a (by simp)
              rw [ho] at hl1; cases hl1
        | str x =>
          simp only [label, ho, throw, throwThe, MonadExceptOf.throw, bind, Except.bind]
          constructor
          · intro h; cases h
          · intro h
            rcases h.2 with h0 | h0
            · first | exact h0.elim | exact absurd h0 hcl
            · obtain ⟨l', hl1, _⟩ := h0 a (by simp)
              rw [ho] at hl1; cases hl1
    · have : (a.input.length != n) = true := by simpa using hlen
      simp only [this, if_true, pure, Except.pure]
      constructor
      · intro h; cases h
      · intro h; exact absurd (h.1 a (by simp)) hlen


end Vita.C10
