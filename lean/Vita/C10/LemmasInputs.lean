/-
  C10 — every example of a dataframe the readers return has exactly one input per column (after the output
  column) that has a domain.  This is what makes the variables `setup_terminals` creates (one per such column,
  numbered in order) read inside the input vector of every example: `src_interpreter::fetch_var` never reads
  out of bounds on a dataframe that was read from a stream, whatever the bytes were.

  `read_csv` infers the domains while it imports the first ten records, so an early example can be shorter
  than a later one; the invariant below shows that the *last* example always has the full length, so the final
  `is_valid()` (all examples as long as the first) forces all of them to.
-/
import Vita.C10.Lemmas
import Vita.C10.Model

namespace Vita.C10
open Vita.C09

variable {F : Type}

/-- number of columns that have a domain -/
def nv (cs : List Col) : Nat := (cs.filter (fun c => decide (c.dom ≠ .void))).length

theorem nv_nil : nv [] = 0 := rfl

theorem nv_cons (c : Col) (cs : List Col) : nv (c :: cs) = (if c.dom = .void then 0 else 1) + nv cs := by
  unfold nv
  by_cases h : c.dom = .void <;> simp [List.filter, h] <;> omega

/-- `nv` only depends on the domains -/
theorem nv_congr (cs cs' : List Col) (h : cs'.map (·.dom) = cs.map (·.dom)) : nv cs' = nv cs := by
  induction cs generalizing cs' with
  | nil => cases cs' with
    | nil => rfl
    | cons c cs' => simp at h
  | cons c cs ih =>
    cases cs' with
    | nil => simp at h
    | cons c' cs' =>
      simp only [List.map_cons, List.cons.injEq] at h
      rw [nv_cons, nv_cons, ih cs' h.2, h.1]

theorem nv_keptCols (cs : List Col) (i : Nat) : (keptCols cs i).length = nv cs := by
  induction cs generalizing i with
  | nil => rfl
  | cons c cs ih =>
    rw [keptCols_cons, nv_cons]
    by_cases h : c.dom = .void
    · simp [h, ih]
    · simp [h, ih]; omega

theorem addState_dom (add : Bool) (c : Col) (f : Str) : (addState add c f).dom = c.dom := by
  unfold addState
  split <;> rfl

/-! ### `to_example` / `read_record` -/

theorem inputsGo_len (o : NumOracle F) (add : Bool) : ∀ (cs : List Col) (xs : List Str) (cs' : List Col) (vs : List (Val F)),
    xs.length = cs.length → inputsGo o add cs xs = .ok (cs', vs) →
    vs.length = nv cs ∧ cs'.map (·.dom) = cs.map (·.dom) := by
  intro cs
  induction cs with
  | nil =>
    intro xs cs' vs _ h
    unfold inputsGo at h
    simp only [pure, Except.pure, Except.ok.injEq, Prod.mk.injEq] at h
    obtain ⟨rfl, rfl⟩ := h
    exact ⟨rfl, rfl⟩
  | cons c cs ih =>
    intro xs cs' vs hl h
    cases xs with
    | nil => simp at hl
    | cons x xs =>
      simp only [List.length_cons, Nat.add_right_cancel_iff] at hl
      unfold inputsGo at h
      by_cases hd : c.dom = .void
      · simp only [hd, if_true] at h
        obtain ⟨q, hq, h⟩ := bind_ok h
        obtain ⟨q1, q2⟩ := q
        simp only [pure, Except.pure, Except.ok.injEq, Prod.mk.injEq] at h
        obtain ⟨rfl, rfl⟩ := h
        obtain ⟨h1, h2⟩ := ih xs q1 q2 hl hq
        rw [nv_cons]
        simp [hd, h1, h2]
      · simp only [hd, if_false] at h
        obtain ⟨v, _, h⟩ := bind_ok h
        obtain ⟨q, hq, h⟩ := bind_ok h
        obtain ⟨q1, q2⟩ := q
        simp only [pure, Except.pure, Except.ok.injEq, Prod.mk.injEq] at h
        obtain ⟨rfl, rfl⟩ := h
        obtain ⟨h1, h2⟩ := ih xs q1 q2 hl hq
        rw [nv_cons]
        simp [hd, h1, h2, addState_dom]
        omega

theorem outputOf_dom (o : NumOracle F) (cl : ClassMap) (c0 : Col) (v0 : Str) (add : Bool) (r : Val F × ClassMap × Col)
    (h : outputOf o cl c0 v0 add = .ok r) : r.2.2.dom = c0.dom := by
  unfold outputOf at h
  split at h
  · simp only [pure, Except.pure, Except.ok.injEq] at h; subst h; rfl
  · split at h
    · simp only [pure, Except.pure, Except.ok.injEq] at h; subst h; exact addState_dom _ _ _
    · obtain ⟨x, _, h⟩ := bind_ok h
      simp only [pure, Except.pure, Except.ok.injEq] at h; subst h; exact addState_dom _ _ _

/-- what `read_record` does to the quantities of the invariant: the domains stay, and either nothing is
    appended (wrong width) or one example with one input per column that has a domain -/
theorem readRecord_len (o : NumOracle F) (df df' : DF F) (r : List Str) (add : Bool)
    (h : readRecord o df r add = .ok df') :
    df'.cols.map (·.dom) = df.cols.map (·.dom) ∧
    ((r.length ≠ df.cols.length ∧ df'.examples = df.examples) ∨
     (r.length = df.cols.length ∧ ∃ e : Example F, df'.examples = df.examples ++ [e] ∧ e.input.length = nv df.cols.tail)) := by
  unfold readRecord at h
  split at h
  · next hne =>
    simp only [pure, Except.pure, Except.ok.injEq] at h
    subst h
    exact ⟨rfl, Or.inl ⟨by simpa using hne, rfl⟩⟩
  · next heq =>
    have heq' : r.length = df.cols.length := by simpa using heq
    obtain ⟨q, hq, h⟩ := bind_ok h
    obtain ⟨df1, e⟩ := q
    simp only [pure, Except.pure, Except.ok.injEq] at h
    subst h
    unfold toExample at hq
    cases hc : df.cols with
    | nil =>
      rw [hc] at heq'
      have hr : r = [] := List.eq_nil_of_length_eq_zero heq'
      simp only [hc, hr, pure, Except.pure, Except.ok.injEq, Prod.mk.injEq] at hq
      obtain ⟨rfl, rfl⟩ := hq
      exact ⟨by simp [hc], Or.inr ⟨heq', _, rfl, by simp [nv]⟩⟩
    | cons c0 cs =>
      rw [hc] at heq'
      cases hr : r with
      | nil => rw [hr] at heq'; simp at heq'
      | cons v0 vs =>
        simp only [hc, hr] at hq
        obtain ⟨ro, hro, hq⟩ := bind_ok hq
        obtain ⟨qi, hqi, hq⟩ := bind_ok hq
        simp only [pure, Except.pure, Except.ok.injEq, Prod.mk.injEq] at hq
        obtain ⟨rfl, rfl⟩ := hq
        have hl : vs.length = cs.length := by
          rw [hr] at heq'
          simpa using heq'
        obtain ⟨qc, qv⟩ := qi
        obtain ⟨h1, h2⟩ := inputsGo_len o add cs vs qc qv hl hqi
        refine ⟨?_, Or.inr ⟨by rw [← hr]; exact heq', _, rfl, ?_⟩⟩
        · simp only [List.map_cons, h2, outputOf_dom o _ c0 v0 add ro hro]
        · simp only [List.tail_cons]; exact h1

/-! ### `columns_info::build` never takes a domain away -/

theorem setDomain_mono (o : NumOracle F) (first : Bool) (c : Col) (x : Str) :
    c.dom ≠ .void → (setDomain o first c x).dom ≠ .void := by
  intro h
  rw [setDomain_id o first c x (Or.inl h)]
  exact h

theorem nv_buildPure (o : NumOracle F) : ∀ (first : Bool) (cs : List Col) (xs : List Str),
    nv cs ≤ nv (buildPure o first cs xs) ∧ nv cs.tail ≤ nv (buildPure o first cs xs).tail ∧
    (buildPure o first cs xs).length = cs.length := by
  intro first cs
  induction cs generalizing first with
  | nil => intro xs; cases xs <;> simp [buildPure]
  | cons c cs ih =>
    intro xs
    cases xs with
    | nil => simp [buildPure]
    | cons x xs =>
      obtain ⟨h1, _, h3⟩ := ih false xs
      simp only [buildPure, List.tail_cons, List.length_cons, h3, and_true]
      refine ⟨?_, h1⟩
      rw [nv_cons, nv_cons]
      by_cases hd : c.dom = .void
      · simp only [hd, if_true]; omega
      · have := setDomain_mono o first c x hd
        simp only [hd, this, if_false]; omega

theorem build_mono (o : NumOracle F) (cols cols' : List Col) (r : List Str) (hdr : Bool)
    (h : build { guards := true } o cols r hdr = .ok cols') : nv cols.tail ≤ nv cols'.tail := by
  by_cases he : cols = []
  · subst he; simp [nv]
  · have he' : cols.isEmpty = false := by simpa using he
    unfold build at h
    simp only [he', Bool.false_and, Bool.false_eq_true, if_false, Bool.true_and] at h
    split at h
    · simp only [pure, Except.pure, Except.ok.injEq] at h; subst h; exact Nat.le_refl _
    · next hl =>
      simp only [bne_iff_ne, ne_eq, Decidable.not_not] at hl
      rw [buildGo_eq o true cols r hl] at h
      simp only [Except.ok.injEq] at h
      subst h
      exact (nv_buildPure o true cols r).2.1

/-- with the guard of the fix: a record of another width leaves the columns as they are -/
theorem build_width (o : NumOracle F) (cols cols' : List Col) (r : List Str) (hdr : Bool)
    (h : build { guards := true } o cols r hdr = .ok cols') :
    cols'.length = r.length ∨ cols' = cols := by
  by_cases he : cols = []
  · subst he
    unfold build at h
    simp only [List.isEmpty_nil, Bool.true_and, if_true] at h
    split at h
    · simp only [pure, Except.pure, Except.ok.injEq] at h; subst h; left; simp
    · simp only [List.length_replicate, bne_self_eq_false, Bool.false_eq_true, if_false] at h
      rw [buildGo_eq o true _ r (by simp)] at h
      simp only [Except.ok.injEq] at h
      subst h
      left
      rw [(nv_buildPure o true _ r).2.2]; simp
  · have he' : cols.isEmpty = false := by simpa using he
    unfold build at h
    simp only [he', Bool.false_and, Bool.false_eq_true, if_false, Bool.true_and] at h
    split at h
    · simp only [pure, Except.pure, Except.ok.injEq] at h; right; exact h.symm
    · next hl =>
      simp only [bne_iff_ne, ne_eq, Decidable.not_not] at hl
      rw [buildGo_eq o true cols r hl] at h
      simp only [Except.ok.injEq] at h
      subst h
      left
      rw [(nv_buildPure o true cols r).2.2, hl]

/-! ### the invariant of the loop of `read_csv` -/

/-- (A) no example is longer than the number of typed input columns; (B) the last one has exactly that length;
    (C) before the first record there are no columns -/
structure InpInv (st : St F) : Prop where
  le : ∀ e ∈ st.df.examples, e.input.length ≤ nv st.df.cols.tail
  last : ∀ e, st.df.examples.getLast? = some e → e.input.length = nv st.df.cols.tail
  fresh : st.count = 0 → st.df.cols = []

theorem inpInv_init : InpInv ({} : St F) :=
  ⟨fun _ he => absurd he List.not_mem_nil, fun _ he => by simp at he, fun _ => rfl⟩

theorem csvProceed_inv (o : NumOracle F) (hasHdr : Bool) (st st' : St F) (r' : List Str)
    (hinv : InpInv st) (h : csvProceed { guards := true } o hasHdr st r' = .ok st') : InpInv st' := by
  unfold csvProceed at h
  obtain ⟨cols, hb, h⟩ := bind_ok h
  obtain ⟨df, hr, h⟩ := bind_ok h
  simp only [pure, Except.pure, Except.ok.injEq] at h
  subst h
  -- the columns after `build`
  have hmono : nv st.df.cols.tail ≤ nv cols.tail := by
    split at hb
    · exact build_mono o _ _ _ _ hb
    · simp only [pure, Except.pure, Except.ok.injEq] at hb; subst hb; exact Nat.le_refl _
  have hwidth : cols.length = r'.length ∨ cols = st.df.cols := by
    split at hb
    · exact build_width o _ _ _ _ hb
    · simp only [pure, Except.pure, Except.ok.injEq] at hb; subst hb; right; rfl
  refine ⟨?_, ?_, by intro hc; simp at hc⟩
  all_goals
    split at hr
    · -- the record is read
      obtain ⟨hd, hcase⟩ := readRecord_len o _ _ _ _ hr
      have hnv : nv df.cols.tail = nv cols.tail := by
        apply nv_congr
        have := congrArg List.tail hd
        simpa [List.map_tail] using this
      rcases hcase with ⟨hne, hex⟩ | ⟨_, e, hex, hlen⟩
      · -- wrong width: `build` has left the columns alone
        have hcols : cols = st.df.cols := by
          rcases hwidth with hw | hw
          · exact absurd hw.symm hne
          · exact hw
        simp only [] at hex hne hd
        first
          | (intro e he
             rw [hex] at he
             have := hinv.le e he
             rw [hnv, hcols]; exact this)
          | (intro e he
             rw [hex] at he
             have := hinv.last e he
             rw [hnv, hcols]; exact this)
      · simp only [] at hex hlen
        first
          | (intro e' he'
             rw [hex, List.mem_append, List.mem_singleton] at he'
             rcases he' with he' | rfl
             · have := hinv.le e' he'
               rw [hnv]; omega
             · rw [hnv]; omega)
          | (intro e' he'
             rw [hex, List.getLast?_append, List.getLast?_singleton] at he'
             simp at he'
             subst he'
             rw [hnv]; exact hlen)
    · -- the header line: nothing is read; this is the first record, so there were no columns (all inputs empty)
      next hcond =>
      simp only [pure, Except.pure, Except.ok.injEq] at hr
      subst hr
      have hc0 : st.count = 0 := by
        simp only [Bool.or_eq_true, Bool.not_eq_true', bne_iff_ne, ne_eq, not_or, Bool.not_eq_false,
          Decidable.not_not] at hcond
        exact hcond.2
      have hnil := hinv.fresh hc0
      first
        | (intro e he
           have := hinv.le e he
           rw [hnil] at this
           simp only [List.tail_nil, nv_nil] at this
           simp only []; omega)
        | (intro e he
           have := hinv.le e (List.mem_of_getLast? he)
           have hm := hmono
           rw [hnil] at this
           simp only [List.tail_nil, nv_nil] at this
           -- a header line only names the columns: none has a domain yet
           have hz : nv cols.tail = 0 := by
             split at hb
             · unfold build at hb
               simp only [hnil, List.isEmpty_nil, Bool.true_and] at hb
               have hh : hasHdr = true := by
                 simp only [Bool.or_eq_true, Bool.not_eq_true', bne_iff_ne, ne_eq, not_or, Bool.not_eq_false,
                   Decidable.not_not] at hcond
                 exact hcond.1
               simp only [hh, if_true, pure, Except.pure, Except.ok.injEq] at hb
               subst hb
               unfold nv
               rw [List.length_eq_zero_iff, List.filter_eq_nil_iff]
               intro c hc
               have := List.mem_of_mem_tail hc
               simp only [List.mem_map] at this
               obtain ⟨n, _, rfl⟩ := this
               simp
             · simp only [pure, Except.pure, Except.ok.injEq] at hb; subst hb; rw [hnil]; rfl
           simp only []; omega)

theorem csvStep_inv (o : NumOracle F) (outIdx : Option Nat) (hasHdr : Bool) (st st' : St F) (r : List Str)
    (hinv : InpInv st) (h : csvStep { guards := true } o outIdx hasHdr st r = .ok st') : InpInv st' := by
  unfold csvStep at h
  split at h
  · split at h
    · simp only [pure, Except.pure, Except.ok.injEq] at h; subst h; exact hinv
    · obtain ⟨r', _, h⟩ := bind_ok h
      exact csvProceed_inv o hasHdr st st' r' hinv h
  · exact csvProceed_inv o hasHdr st st' _ hinv h

/-- **every example has one input per typed input column** (CSV) -/
theorem readCsv_inputs (o : NumOracle F) (p : Params) (bytes : Str) (df : DF F)
    (h : readCsv { guards := true } o p bytes = .ok df) :
    ∀ e ∈ df.examples, e.input.length = nv df.cols.tail := by
  have hv := (readCsvRecs_valid _ o p.outIdx _ _ df (by unfold readCsv at h; exact h))
  unfold readCsv readCsvRecs at h
  simp only [] at h
  obtain ⟨st, hf, h⟩ := bind_ok h
  obtain ⟨v, _, h⟩ := bind_ok h
  split at h
  · cases h
  · simp only [pure, Except.pure, Except.ok.injEq] at h
    subst h
    have hinv : InpInv st :=
      foldlM_inv InpInv _ (fun b a b' hb hfa => csvStep_inv o _ _ b b' a hb hfa) _ _ st inpInv_init hf
    intro e he
    have hne : st.df.examples ≠ [] := hv.2.1
    obtain ⟨l, hl⟩ : ∃ l, st.df.examples.getLast? = some l := by
      cases hx : st.df.examples.getLast? with
      | none => exact absurd (List.getLast?_eq_none_iff.1 hx) hne
      | some l => exact ⟨l, rfl⟩
    rw [hv.2.2 e he l (List.mem_of_getLast? hl)]
    exact hinv.last l hl

/-- the same for XRFF: the columns are fixed by the header, every instance that is read has their width -/
theorem readXrffH_inputs (o : NumOracle F) (hook : Hook) (doc : XDoc) (df : DF F) (n : Nat)
    (h : readXrffH { guards := true } o hook doc = .ok (df, n)) :
    ∀ e ∈ df.examples, e.input.length = nv df.cols.tail := by
  cases doc with
  | parseError => cases h
  | noAttributes => cases h
  | doc attrs instances =>
    unfold readXrffH at h
    obtain ⟨st, _, h⟩ := bind_ok h
    split at h
    · cases h
    · simp only [] at h
      cases instances with
      | none => cases h
      | some insts =>
        simp only [] at h
        obtain ⟨df', hfold, h⟩ := bind_ok h
        obtain ⟨v, _, h⟩ := bind_ok h
        split at h
        · cases h
        · simp only [pure, Except.pure, Except.ok.injEq, Prod.mk.injEq] at h
          obtain ⟨rfl, _⟩ := h
          refine foldlM_inv (fun d : DF F => ∀ e ∈ d.examples, e.input.length = nv d.cols.tail)
            (xInstStepH { guards := true } o hook _) ?_ insts _ df' (fun e he => absurd he List.not_mem_nil) hfold
          intro b a b' hb hfa
          unfold xInstStepH at hfa
          split at hfa
          · simp only [pure, Except.pure, Except.ok.injEq] at hfa; subst hfa; exact hb
          · obtain ⟨rec', _, hfa⟩ := bind_ok hfa
            obtain ⟨hd, hcase⟩ := readRecord_len o b b' rec' false hfa
            have hnv : nv b'.cols.tail = nv b.cols.tail := by
              apply nv_congr
              have := congrArg List.tail hd
              simpa [List.map_tail] using this
            rcases hcase with ⟨_, hex⟩ | ⟨_, e, hex, hlen⟩
            · intro e he; rw [hex] at he; rw [hnv]; exact hb e he
            · intro e' he'
              rw [hex, List.mem_append, List.mem_singleton] at he'
              rcases he' with he' | rfl
              · rw [hnv]; exact hb e' he'
              · rw [hnv]; exact hlen

/-! ### `setup_terminals` on what was read -/

theorem stateConsts_noFault (c : Col) (cat : Option Nat) : NoFault (stateConsts c cat) := by
  unfold stateConsts
  split
  · exact noFault_pure _
  · exact noFault_pure _
  · split
    · exact noFault_pure _
    · exact noFault_exc _

theorem setupSymsGo_noFault (guards : Bool) (cats : List (Option Nat × Dom)) : ∀ (cs : List Col) (i v : Nat),
    NoFault (setupSymsGo guards cats cs i v) := by
  intro cs
  induction cs with
  | nil => intro i v; exact noFault_pure _
  | cons c cs ih =>
    intro i v
    unfold setupSymsGo
    split
    · exact ih _ _
    · exact noFault_bind (stateConsts_noFault _ _) (fun ks => noFault_bind (ih _ _) (fun rest => noFault_pure _))

theorem setupSymbols_noFault (cfg : Cfg) (strong : Bool) (cols : List Col) : NoFault (setupSymbols cfg strong cols) := by
  unfold setupSymbols
  split
  · exact noFault_exc _
  · exact setupSymsGo_noFault _ _ _ _ _

/-- the variables `setup_terminals` inserts for columns whose examples have one input per typed column read
    inside every such example -/
theorem vars_in_range (strong : Bool) (cols : List Col) (syms : List TermSym) (hst : StatesStr cols.tail)
    (h : setupSymbols { guards := true } strong cols = .ok syms) (e : Example F)
    (he : e.input.length = nv cols.tail) :
    ∀ v, TermSym.var v ∈ syms → ∃ x, evalVar v e = .ok x := by
  have h2 : 2 ≤ cols.length := by
    unfold setupSymbols at h
    split at h
    · cases h
    · omega
  have hlt2 : ¬ cols.length < 2 := by omega
  simp only [setupSymbols, hlt2, if_false] at h
  rw [setupSymsGo_spec _ cols.tail 1 0 hst] at h
  simp only [Except.ok.injEq] at h
  intro v hv
  rw [← h, List.mem_flatMap] at hv
  obtain ⟨q, hq, hv⟩ := hv
  simp only [List.mem_cons, TermSym.var.injEq, List.mem_map, reduceCtorEq, and_false, exists_false, or_false] at hv
  have hlt : q.2 < (keptCols cols.tail 1).length := by
    obtain ⟨⟨c, i⟩, j⟩ := q
    have := List.mem_zipIdx hq
    simp only at this ⊢
    omega
  rw [nv_keptCols] at hlt
  have hvar : v.var = q.2 := by rw [hv]
  refine ⟨e.input[v.var]'(by omega), ?_⟩
  simp [evalVar, fetchVar, List.getElem?_eq_getElem (show v.var < e.input.length by omega), pure, Except.pure]

end Vita.C10
