/-
  C10 — the loops of the CSV parser at the level of the stream: termination and stack depth.

  `parser::const_iterator::get_input` is two nested `do … while` loops around `std::getline`: skip blank
  lines, parse, hand the record to the hook, repeat while the hook rejects it.  `getInput` mirrors it on
  the list of lines still in the stream: every `std::getline` consumes the head of the list (the loop
  variable of the C++ is the position of the stream), so the recursion is structural.  Besides the result
  it reports two resource measures:

    getlines   calls of `std::getline` (time: each consumes one line, or fails at the end)
    depth      activation records of `get_input` alive at the deepest point (stack)

  The skipping can be written as a loop (the code: the activation record is reused, depth 1) or – the
  seeded change C10-m4 – as a self call per skipped line (`Shape.recursion`: one more record per skipped
  line).  Both compute the same records; only `depth` tells them apart.

  `iterate` is `for (it = begin(); it != end(); ++it)`: every `++it` is one `get_input` on what the stream
  still holds; it terminates because every successful `get_input` leaves the stream strictly shorter.
-/
import Vita.C09.Csv

namespace Vita.C10
open Vita.C09

structure Got where
  /-- the record now in `value_`; `none`: the iterator has become `end()` -/
  value : Option (List Str)
  /-- what is left in the stream -/
  rest : List Str
  getlines : Nat
  depth : Nat

inductive Shape | loop | recursion
  deriving DecidableEq, Repr

def Shape.deeper : Shape → Nat → Nat
  | .loop, d => d
  | .recursion, d => d + 1

/-- one call of `get_input` -/
def getInput (sh : Shape) (dl : Dialect) (hook : Hook) : List Str → Got
  | [] => { value := none, rest := [], getlines := 1, depth := 1 }            -- `std::getline` fails
  | l :: ls =>
    if isBlank l then                                                          -- `while (trim(line).empty())`
      let g := getInput sh dl hook ls
      { g with getlines := g.getlines + 1, depth := sh.deeper g.depth }
    else match hook (parseLine dl l) with
      | some r => { value := some r, rest := ls, getlines := 1, depth := 1 }
      | none =>                                                                -- `while (filter_hook_ && !filter_hook_(value_))`
        let g := getInput sh dl hook ls
        { g with getlines := g.getlines + 1, depth := sh.deeper g.depth }

/-- number of lines `get_input` skips before it stops: the run of blank / rejected lines at the front -/
def skippedRun (dl : Dialect) (hook : Hook) : List Str → Nat
  | [] => 0
  | l :: ls => if isBlank l then skippedRun dl hook ls + 1
               else match hook (parseLine dl l) with
                 | some _ => 0
                 | none => skippedRun dl hook ls + 1

theorem getInput_shape (sh : Shape) (dl : Dialect) (hook : Hook) : ∀ ls : List Str,
    (getInput sh dl hook ls).value = (getInput .loop dl hook ls).value ∧
    (getInput sh dl hook ls).rest = (getInput .loop dl hook ls).rest ∧
    (getInput sh dl hook ls).getlines = (getInput .loop dl hook ls).getlines := by
  intro ls
  induction ls with
  | nil => simp [getInput]
  | cons l ls ih =>
    unfold getInput
    split
    · exact ⟨ih.1, ih.2.1, by simp [ih.2.2]⟩
    · split
      · exact ⟨rfl, rfl, rfl⟩
      · exact ⟨ih.1, ih.2.1, by simp [ih.2.2]⟩

theorem getInput_depth_loop (dl : Dialect) (hook : Hook) : ∀ ls : List Str, (getInput .loop dl hook ls).depth = 1 := by
  intro ls
  induction ls with
  | nil => rfl
  | cons l ls ih =>
    unfold getInput
    split
    · simpa [Shape.deeper] using ih
    · split
      · rfl
      · simpa [Shape.deeper] using ih

theorem getInput_depth_recursion (dl : Dialect) (hook : Hook) : ∀ ls : List Str,
    (getInput .recursion dl hook ls).depth = skippedRun dl hook ls + 1 := by
  intro ls
  induction ls with
  | nil => rfl
  | cons l ls ih =>
    unfold getInput skippedRun
    split
    · simp [Shape.deeper, ih]
    · split
      · rfl
      · simp [Shape.deeper, ih]

/-- the stream only gets shorter, by exactly the lines read -/
theorem getInput_consumes (sh : Shape) (dl : Dialect) (hook : Hook) : ∀ ls : List Str,
    (getInput sh dl hook ls).rest.length + (getInput sh dl hook ls).getlines =
      ls.length + (if (getInput sh dl hook ls).value.isSome then 0 else 1) := by
  intro ls
  induction ls with
  | nil => simp [getInput]
  | cons l ls ih =>
    unfold getInput
    split
    · simp only [List.length_cons]; omega
    · split
      · simp
      · simp only [List.length_cons]; omega

theorem getInput_rest_lt (sh : Shape) (dl : Dialect) (hook : Hook) (ls : List Str) (r : List Str)
    (h : (getInput sh dl hook ls).value = some r) : (getInput sh dl hook ls).rest.length < ls.length := by
  have := getInput_consumes sh dl hook ls
  have hg : 1 ≤ (getInput sh dl hook ls).getlines := by
    cases ls with
    | nil => simp [getInput]
    | cons l ls =>
      unfold getInput
      split
      · simp
      · split <;> simp
  simp [h] at this
  omega

theorem getInput_none_rest (sh : Shape) (dl : Dialect) (hook : Hook) : ∀ ls : List Str,
    (getInput sh dl hook ls).value = none → (getInput sh dl hook ls).rest = [] := by
  intro ls
  induction ls with
  | nil => intro _; rfl
  | cons l ls ih =>
    intro h
    by_cases hb : isBlank l = true
    · have h2 : (getInput sh dl hook (l :: ls)).value = (getInput sh dl hook ls).value := by simp [getInput, hb]
      have h3 : (getInput sh dl hook (l :: ls)).rest = (getInput sh dl hook ls).rest := by simp [getInput, hb]
      rw [h3]; exact ih (h2 ▸ h)
    · have hb' : isBlank l = false := by simpa using hb
      cases hr : hook (parseLine dl l) with
      | some r => simp [getInput, hb', hr] at h
      | none =>
        have h2 : (getInput sh dl hook (l :: ls)).value = (getInput sh dl hook ls).value := by simp [getInput, hb', hr]
        have h3 : (getInput sh dl hook (l :: ls)).rest = (getInput sh dl hook ls).rest := by simp [getInput, hb', hr]
        rw [h3]; exact ih (h2 ▸ h)

/-- what one full iteration over the parser does -/
structure Run where
  recs : List (List Str)
  getlines : Nat
  /-- deepest stack of `get_input` activations over the whole iteration -/
  depth : Nat

/-- `for (it = parser.begin(); it != parser.end(); ++it) recs.push_back(*it)` -/
def iterate (sh : Shape) (dl : Dialect) (hook : Hook) (ls : List Str) : Run :=
  match _h : (getInput sh dl hook ls).value with
  | none => { recs := [], getlines := (getInput sh dl hook ls).getlines, depth := (getInput sh dl hook ls).depth }
  | some r =>
    let run := iterate sh dl hook (getInput sh dl hook ls).rest
    { recs := r :: run.recs, getlines := (getInput sh dl hook ls).getlines + run.getlines,
      depth := max (getInput sh dl hook ls).depth run.depth }
termination_by ls.length
decreasing_by exact getInput_rest_lt sh dl hook ls r _h


/-- `get_input` against the specification of C09 (`records` = filter, map, filterMap) -/
theorem records_step (sh : Shape) (dl : Dialect) (hook : Hook) : ∀ ls : List Str,
    records dl hook ls = match (getInput sh dl hook ls).value with
      | none => []
      | some r => r :: records dl hook (getInput sh dl hook ls).rest := by
  intro ls
  induction ls with
  | nil => simp [records, getInput]
  | cons l ls ih =>
    by_cases hb : isBlank l = true
    · have h1 : records dl hook (l :: ls) = records dl hook ls := by simp [records, List.filter, hb]
      have h2 : (getInput sh dl hook (l :: ls)).value = (getInput sh dl hook ls).value := by simp [getInput, hb]
      have h3 : (getInput sh dl hook (l :: ls)).rest = (getInput sh dl hook ls).rest := by simp [getInput, hb]
      rw [h1, h2, h3]
      exact ih
    · have hb' : isBlank l = false := by simpa using hb
      cases hr : hook (parseLine dl l) with
      | some r =>
        have h2 : (getInput sh dl hook (l :: ls)).value = some r := by simp [getInput, hb', hr]
        have h3 : (getInput sh dl hook (l :: ls)).rest = ls := by simp [getInput, hb', hr]
        rw [h2, h3]
        simp [records, List.filter, hb', hr]
      | none =>
        have h1 : records dl hook (l :: ls) = records dl hook ls := by simp [records, List.filter, hb', hr]
        have h2 : (getInput sh dl hook (l :: ls)).value = (getInput sh dl hook ls).value := by simp [getInput, hb', hr]
        have h3 : (getInput sh dl hook (l :: ls)).rest = (getInput sh dl hook ls).rest := by simp [getInput, hb', hr]
        rw [h1, h2, h3]
        exact ih

/-- the iteration over the parser yields exactly the records of the specification, for either shape -/
theorem iterate_recs (sh : Shape) (dl : Dialect) (hook : Hook) (ls : List Str) :
    (iterate sh dl hook ls).recs = records dl hook ls := by
  fun_induction iterate sh dl hook ls with
  | case1 ls h =>
    have := records_step sh dl hook ls
    rw [h] at this
    exact this.symm
  | case2 ls r h run ih =>
    have := records_step sh dl hook ls
    rw [h] at this
    rw [this, ← ih]

/-- time: one `std::getline` per line of the stream plus the one that fails at the end -/
theorem iterate_getlines (sh : Shape) (dl : Dialect) (hook : Hook) (ls : List Str) :
    (iterate sh dl hook ls).getlines = ls.length + 1 := by
  fun_induction iterate sh dl hook ls with
  | case1 ls h =>
    have := getInput_consumes sh dl hook ls
    have hr := getInput_none_rest sh dl hook ls h
    simp [h, hr] at this
    simpa using this
  | case2 ls r h run ih =>
    have := getInput_consumes sh dl hook ls
    simp [h] at this
    have ih' : run.getlines = (getInput sh dl hook ls).rest.length + 1 := ih
    show (getInput sh dl hook ls).getlines + run.getlines = ls.length + 1
    omega

/-- stack: written as loops, `get_input` never has more than one activation record, whatever the stream -/
theorem iterate_depth_loop (dl : Dialect) (hook : Hook) (ls : List Str) : (iterate .loop dl hook ls).depth = 1 := by
  fun_induction iterate Shape.loop dl hook ls with
  | case1 ls h => exact getInput_depth_loop dl hook ls
  | case2 ls r h run ih =>
    have ih' : run.depth = 1 := ih
    show max (getInput .loop dl hook ls).depth run.depth = 1
    rw [ih', getInput_depth_loop]; rfl

/-- stack: written as a self call per skipped line, the depth exceeds every bound (a run of blank lines) -/
theorem iterate_depth_recursion_unbounded (dl : Dialect) (hook : Hook) (n : Nat) :
    n < (iterate .recursion dl hook (List.replicate n [])).depth := by
  have hrun : ∀ n, skippedRun dl hook (List.replicate n ([] : Str)) = n := by
    intro n
    induction n with
    | zero => rfl
    | succ n ih => simp [List.replicate_succ, skippedRun, isBlank, ih]
  have hd : (getInput .recursion dl hook (List.replicate n ([] : Str))).depth = n + 1 := by
    rw [getInput_depth_recursion, hrun]
  rw [iterate]
  split
  · show n < (getInput .recursion dl hook (List.replicate n ([] : Str))).depth
    omega
  · next r h =>
    show n < max (getInput .recursion dl hook (List.replicate n ([] : Str))).depth _
    omega

/-! ### `parse_line` -/

/-- iterations of the `for (pos = 0; pos < length && line[pos]; ++pos)` loop of `parse_line`, mirroring `go` (same
    case analysis; the loop variable `pos` is the number of characters already dropped from the list): one per
    character, except that a doubled quote inside quotes consumes two characters in one iteration (`++pos` in
    the body) and NUL / an unquoted CR or LF leave the loop -/
def parseSteps (dl : Dialect) : Str → Bool → Str → Nat
  | [], _, _ => 0
  | c :: rest, inq, cur =>
    if c = '\x00' then 0
    else if !inq && isBlank cur && c = '"' then parseSteps dl rest true (if dl.keepQuotes then cur ++ [c] else cur) + 1
    else if inq && c = '"' then
      match rest with
      | c' :: rest' =>
        if c' = '"' then parseSteps dl rest' true (cur ++ [c]) + 1
        else parseSteps dl (c' :: rest') false (if dl.keepQuotes then cur ++ [c] else cur) + 1
      | [] => 1
    else if !inq && c = dl.delim then parseSteps dl rest false [] + 1
    else if !inq && (c = '\r' || c = '\n') then 0
    else parseSteps dl rest inq (cur ++ [c]) + 1

theorem parseSteps_le (dl : Dialect) (s : Str) (inq : Bool) (cur : Str) : parseSteps dl s inq cur ≤ s.length := by
  fun_induction parseSteps dl s inq cur <;> simp only [List.length_cons, List.length_nil] at * <;> omega

end Vita.C10
