/-
  C10 — the constructors of `src_problem` that read a dataset (`src/kernel/gp/src/problem.cc`), on top of the
  C09 model of the readers and of `setup_terminals`.
-/
import Vita.C09.Model

namespace Vita.C10
open Vita.C09

/-- `src_problem::src_problem(std::istream &ds, typing t)`: `read_csv(ds)` with the default parameters (delimiter
    sniffed, header guessed, output column 0, no filter), then `setup_terminals(t)`; the dataframe and every
    terminal inserted -/
def srcProblemStream {F} (cfg : Cfg) (o : NumOracle F) (strong : Bool) (bytes : Str) : M (DF F × List TermSym) :=
  readCsv cfg o {} bytes >>= fun df =>
  setupSymbols cfg strong df.cols >>= fun syms => pure (df, syms)

/-- `src_problem::src_problem(const std::filesystem::path &ds, typing t)`: `read(ds)` (format by the extension of the
    name, default parameters), then `setup_terminals(t)` -/
def srcProblemFile {F} (cfg : Cfg) (o : NumOracle F) (strong : Bool) (ext bytes : Str) (doc : XDoc) :
    M (DF F × List TermSym) :=
  readFile cfg o {} ext bytes doc >>= fun r =>
  setupSymbols cfg strong r.1.cols >>= fun syms => pure (r.1, syms)

end Vita.C10
