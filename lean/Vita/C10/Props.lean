import Vita.C09.Model
namespace Vita.C10
theorem placeholder : True := trivial
end Vita.C10
