/-
  C10 — dataset import is memory-safe on malformed input.

  The model (Vita/C09/Csv.lean, Vita/C09/Model.lean) writes the accesses whose index the C++ does
  not check as checked accesses: `buildGo` (columns_info::build, `cols_[idx]`), `rotate?`
  (std::rotate in read_csv / read_xrff); they yield `Err.fault`.  `std::stod`, `std::stoi`,
  `std::get` and the explicit `throw`s yield `Err.exc`.  `Cfg.guards = true` is the code after the
  four `fix:` commits, `false` the code as it was found.

  * `read_total_csv`, `read_total_xrff`: for **every** byte string / parsed document, every
    parameter setting, every number oracle: the model of the fixed code never faults, and when it
    returns a dataframe, that dataframe passes `is_valid` and all examples have the same number
    of inputs.
  * `old_*`: concrete inputs on which the model of the code as found faults (three sites) or
    returns normally with an invalid dataframe; `read_total_old_false`: so the same statement is
    false for that code.
-/
import Vita.C10.Lemmas
import Vita.C10.GenSites
import Vita.C10.Reviewed
import Vita.C10.Loops

namespace Vita.C10
open Vita.C09 Vita.C10.Sites

variable {F : Type}

/-- **read_total (CSV)** for the code after the fixes: all byte strings, all parameters -/
theorem read_total_csv : ReadTotalCsv { guards := true } := by
  intro F o p bytes
  constructor
  · unfold readCsv
    exact readCsvRecs_noFault o _ _ _
  · intro df h
    unfold readCsv at h
    exact readCsvRecs_valid _ _ _ _ _ _ h

/-- **read_total (XRFF)** for the code after the fixes: all parsed documents, all hooks (a hook may reject
    the record and may rewrite it: `filter_hook_t = std::function<bool (record_t &)>`) -/
theorem read_total_xrff : ReadTotalXrff { guards := true } := by
  intro F o hook doc
  exact ⟨readXrffH_noFault o hook doc, fun df n h => readXrffH_valid o hook doc df n h⟩

/-- the same for a filter that only accepts or rejects (`readXrff`, the form used by the round-1 theorems) -/
theorem read_total_xrff_pred (o : NumOracle F) (f : List Str → Bool) (doc : XDoc) :
    NoFault (readXrff { guards := true } o f doc) ∧
    ∀ df n, readXrff { guards := true } o f doc = .ok (df, n) →
      Valid df ∧ EqualInputs df ∧ n = df.examples.length := by
  rw [readXrff_eq_H]
  exact read_total_xrff F o (Hook.ofPred f) doc

/-- **read_total (file)**: `dataframe::read(path, params)` – XRFF for `.xrff` / `.xml` in any case, else CSV – never
    faults and returns only valid dataframes with equally long inputs; the count it returns is the number of examples -/
theorem read_total_file : ReadTotalFile { guards := true } := by
  intro F o p ext bytes doc
  unfold readFile
  split
  · exact read_total_xrff F o p.hook doc
  · constructor
    · exact noFault_bind (read_total_csv F o p bytes).1 (fun df => noFault_pure _)
    · intro df n h
      cases hr : readCsv { guards := true } o p bytes with
      | error e => simp [hr, bind, Except.bind] at h
      | ok df' =>
        simp only [hr, bind, Except.bind, pure, Except.pure, Except.ok.injEq, Prod.mk.injEq] at h
        obtain ⟨rfl, rfl⟩ := h
        obtain ⟨h1, _, h3⟩ := (read_total_csv F o p bytes).2 df' hr
        exact ⟨h1, h3, rfl⟩

/-! ### the code as found -/

/-- defect 1 (`columns_info::build`): the second record is wider than the first -/
theorem old_build_faults (o : NumOracle F) (ho : LettersOnly o) :
    readCsv { guards := false } o { delim := ',', header := some false } "a,b\nc,d,e\n".toList
      = .error (.fault .build) := by
  have ha : o.isNum ['a'] = false := ho ['a'] rfl rfl
  have hb : o.isNum ['b'] = false := ho ['b'] rfl rfl
  have hc : o.isNum ['c'] = false := ho ['c'] rfl rfl
  have hd : o.isNum ['d'] = false := ho ['d'] rfl rfl
  simp [readCsv, resolveDialect, splitLines, splitLinesAux, records, isBlank, isSpace, parseLine, go, addField,
    readCsvRecs, List.foldlM, csvStep, csvProceed, rotate?, build, buildGo, setDomain, trim, isNumber,
    readRecord, toExample, outputOf, inputsGo, convert, encode, lookup, addState, setInsert,
    bind, Except.bind, pure, Except.pure, throw, throwThe, MonadExceptOf.throw, ha, hb, hc, hd]

/-- defect 2 (`read_csv`, `std::rotate`): a record shorter than the output index -/
theorem old_rotate_csv_faults (o : NumOracle F) (ho : LettersOnly o) :
    readCsv { guards := false } o { delim := ',', header := some false, outIdx := some 2 } "a,b,c\nd,e\n".toList
      = .error (.fault .rotateCsv) := by
  have ha : o.isNum ['a'] = false := ho ['a'] rfl rfl
  have hb : o.isNum ['b'] = false := ho ['b'] rfl rfl
  have hc : o.isNum ['c'] = false := ho ['c'] rfl rfl
  simp [readCsv, resolveDialect, splitLines, splitLinesAux, records, isBlank, isSpace, parseLine, go, addField,
    readCsvRecs, List.foldlM, csvStep, csvProceed, rotate?, build, buildGo, setDomain, trim, isNumber,
    readRecord, toExample, outputOf, inputsGo, convert, encode, lookup, addState, setInsert,
    bind, Except.bind, pure, Except.pure, throw, throwThe, MonadExceptOf.throw, ha, hb, hc]

/-- defect 3 (`read_xrff`, `std::rotate`): an instance with fewer values than the position of the
    class attribute -/
theorem old_rotate_xrff_faults (o : NumOracle F) :
    readXrff { guards := false } o (fun _ => true)
      (.doc [⟨"a".toList, false, "string".toList, []⟩, ⟨"c".toList, true, "string".toList, []⟩]
            (some [["x".toList]]))
      = .error (.fault .rotateXrff) := by
  simp [readXrff, List.foldlM, xAttrStep, xInstStep, rotate?, fromWeka, bind, Except.bind, pure, Except.pure,
    throw, throwThe, MonadExceptOf.throw]

/-- defect 4 (`read_xrff`): one class only – the call returns 0 and leaves an inconsistent dataframe -/
theorem old_xrff_returns_invalid (o : NumOracle F) (ho : LettersOnly o) :
    ∃ df : DF F, readXrff { guards := false } o (fun _ => true)
      (.doc [⟨"a".toList, false, "string".toList, []⟩, ⟨"c".toList, true, "nominal".toList, []⟩]
            (some [["x".toList, "u".toList], ["y".toList, "u".toList]]))
      = .ok (df, 0) ∧ isValid df = .ok false := by
  have hu : o.isNum ['u'] = false := ho ['u'] rfl rfl
  refine ⟨{ cols := [{ name := ['c'], dom := .dbl }, { name := ['a'], dom := .str }],
            classes := [(['u'], 0)],
            examples := [{ input := [.str ['x']], output := .int 0 }, { input := [.str ['y']], output := .int 0 }] },
          ?_, ?_⟩
  · simp [readXrff, List.foldlM, xAttrStep, xInstStep, rotate?, fromWeka, readRecord, toExample, outputOf,
      inputsGo, convert, encode, lookup, addState, setInsert, isNumber, trim, isSpace, isValid,
      bind, Except.bind, pure, Except.pure, throw, throwThe, MonadExceptOf.throw, hu]
  · simp [isValid, pure, Except.pure]

/-- the property fails for the code as it was found -/
theorem read_total_old_false : ¬ ReadTotalCsv { guards := false } ∧ ¬ ReadTotalXrff { guards := false } := by
  let o : NumOracle Nat := { isNum := fun _ => false, stod := fun _ => none, stoi := fun _ => none }
  constructor
  · intro h
    have := (h Nat o { delim := ',', header := some false } "a,b\nc,d,e\n".toList).1
    exact this .build (old_build_faults o (fun _ _ _ => rfl))
  · intro h
    have := (h Nat o (Hook.ofPred (fun _ => true))
      (.doc [⟨"a".toList, false, "string".toList, []⟩, ⟨"c".toList, true, "string".toList, []⟩]
            (some [["x".toList]]))).1
    rw [← readXrff_eq_H] at this
    exact this .rotateXrff (old_rotate_xrff_faults o)

/-! ### every access site of the C++ readers (extracted by tools/translate_reader.py on every run) -/

/-- **sites_safe.**  For every subscript / `front` / `back` / iterator-arithmetic / iterator-, pointer- and
    optional-dereference / `std::string(const char *)` site that the translator finds in `read_csv`, `read_xrff`,
    `read`, `read_record`, `to_example`, `columns_info::build`, `is_valid`, `encode`, `class_name`, the whole of
    pocket_csv.h (parser, `parse_line`, `get_input`, sniffer), `src_problem(stream)`, `setup_terminals`, `category_set`:
    in every state in which the guards that dominate the site hold, the index is inside the container
    (`idx < size`; `≤ size` for a position; the pointer / optional is not null; a call that closes a cycle of the
    call graph is unreachable) – or the site is one of the ten of `reviewedSites`, whose safety is argued on the
    model there.  Deleting or weakening a guard, or adding an access that is not evidently guarded, makes a
    conjunct unprovable. -/
theorem sites_safe : ∀ s ∈ Gen.sites, s.Safe ∨ s.key ∈ reviewedSites := by
  rw [← allP_iff]
  unfold Gen.sites
  repeat' (first | exact trivial | apply And.intro)
  all_goals first
    | (left; intro env hg
       simp only [allHold, GE.eval, IE.eval, SiteRec.goal] at hg ⊢
       omega)
    | (right; decide)

/-- **no_reachable_recursion.**  Every call that closes a cycle among the reader functions (the translator inlines
    a cycle once and reports the call that would start a third turn) is dominated by guards that contradict each
    other: no reader function calls itself, directly or through others, on any input.  (In the tree as it is the
    only cycle is `get_input` → `const_iterator()` → `get_input`, cut by the null stream of the default argument.)
    None of these sites is in `reviewedSites`. -/
theorem no_reachable_recursion : ∀ s ∈ Gen.sites, s.kind = .never → s.Safe := by
  rw [← allP_iff]
  unfold Gen.sites
  repeat' (first | exact trivial | apply And.intro)
  all_goals first
    | (intro hk; exact absurd hk (by decide))
    | (intro _ env hg
       simp only [allHold, GE.eval, IE.eval, SiteRec.goal] at hg ⊢
       omega)

/-! ### termination and stack depth of the parser's loops -/

/-- how `get_input` skips lines, from the generated call graph: a self call makes it a recursion -/
def getInputShape : Shape :=
  if Gen.selfRecursive.contains "pocket_csv::parser::const_iterator::get_input()" then .recursion else .loop

/-- **get_input_terminates_flat.**  On every stream (list of lines), for every dialect and hook: iterating the
    parser as `read_csv` / `has_header` do (`begin()`, then `++` until `end()`) (a) yields exactly the records of the
    specification the C09 / C10 theorems speak about, (b) calls `std::getline` once per line plus once at the end –
    every loop iteration consumes a line, so the loops terminate – and (c) never has more than ONE activation
    record of `get_input` on the stack, however long the runs of blank or hook-rejected lines are. -/
theorem get_input_terminates_flat (dl : Dialect) (hook : Hook) (lines : List Str) :
    (iterate getInputShape dl hook lines).recs = records dl hook lines ∧
    (iterate getInputShape dl hook lines).getlines = lines.length + 1 ∧
    (iterate getInputShape dl hook lines).depth = 1 := by
  have hs : getInputShape = .loop := by decide
  rw [hs]
  exact ⟨iterate_recs _ dl hook lines, iterate_getlines _ dl hook lines, iterate_depth_loop dl hook lines⟩

/-- **recursive_skipping_unbounded.**  The same function with the skipping written as a self call per skipped
    line (the seeded change C10-m4) computes the same records with the same number of `getline`s, but its stack
    depth exceeds every bound: `n` blank lines need more than `n` activation records.  (This is why the check
    reads long runs of skipped lines on a small stack.) -/
theorem recursive_skipping_unbounded (dl : Dialect) (hook : Hook) :
    (∀ lines, (iterate .recursion dl hook lines).recs = (iterate .loop dl hook lines).recs ∧
              (iterate .recursion dl hook lines).getlines = (iterate .loop dl hook lines).getlines) ∧
    ∀ n, n < (iterate .recursion dl hook (List.replicate n [])).depth := by
  refine ⟨fun lines => ⟨?_, ?_⟩, iterate_depth_recursion_unbounded dl hook⟩
  · rw [iterate_recs, iterate_recs]
  · rw [iterate_getlines, iterate_getlines]

/-- non-vacuity: the fixed model does return dataframes (`a,b / c,d` with labels in column 0) -/
example : ∃ df : DF Nat, readCsv { guards := true }
    ({ isNum := fun _ => false, stod := fun _ => none, stoi := fun _ => none } : NumOracle Nat)
    { delim := ',', header := some false } "a,b\nc,d\n".toList = .ok df := by
  refine ⟨{ cols := [{ dom := .dbl }, { dom := .str, states := [['b'], ['d']] }],
            classes := [(['a'], 0), (['c'], 1)],
            examples := [{ input := [.str ['b']], output := .int 0 }, { input := [.str ['d']], output := .int 1 }] }, ?_⟩
  simp [readCsv, resolveDialect, splitLines, splitLinesAux, records, isBlank, isSpace, parseLine, go, addField,
    readCsvRecs, List.foldlM, csvStep, csvProceed, rotate?, build, buildGo, setDomain, trim, isNumber,
    readRecord, toExample, outputOf, inputsGo, convert, encode, lookup, addState, setInsert, isValid,
    examplesValid, label, colsValid,
    bind, Except.bind, pure, Except.pure, throw, throwThe, MonadExceptOf.throw]

end Vita.C10
