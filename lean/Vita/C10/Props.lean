/-
  C10 — dataset import is memory-safe on malformed input.

  The model (Vita/C09/Csv.lean, Vita/C09/Model.lean) writes the accesses whose index the C++ does
  not check as checked accesses: `buildGo` (columns_info::build, `cols_[idx]`), `rotate?`
  (std::rotate in read_csv / read_xrff); they yield `Err.fault`.  `std::stod`, `std::stoi`,
  `std::get` and the explicit `throw`s yield `Err.exc`.  `Cfg.guards = true` is the code after the
  four `fix:` commits, `false` the code as it was found.

  * `read_total_csv`, `read_total_xrff`: for **every** byte string / parsed document, every
    parameter setting, every number oracle: the model of the fixed code never faults, and when it
    returns a dataframe, that dataframe passes `is_valid` and all examples have the same number
    of inputs.
  * `old_*`: concrete inputs on which the model of the code as found faults (three sites) or
    returns normally with an invalid dataframe; `read_total_old_false`: so the same statement is
    false for that code.
-/
import Vita.C10.Lemmas

namespace Vita.C10
open Vita.C09

variable {F : Type}

/-- **read_total (CSV)** for the code after the fixes: all byte strings, all parameters -/
theorem read_total_csv : ReadTotalCsv { guards := true } := by
  intro F o p bytes
  constructor
  · unfold readCsv
    exact readCsvRecs_noFault o _ _ _
  · intro df h
    unfold readCsv at h
    exact readCsvRecs_valid _ _ _ _ _ _ h

/-- **read_total (XRFF)** for the code after the fixes: all parsed documents -/
theorem read_total_xrff : ReadTotalXrff { guards := true } := by
  intro F o filter doc
  constructor
  · exact readXrff_noFault o filter doc
  · intro df n h
    unfold readXrff at h
    split at h
    · cases h
    · cases h
    · next attrs instances =>
      cases ha : List.foldlM xAttrStep ({} : XSt) attrs with
      | error e => simp [ha, bind, Except.bind] at h
      | ok st =>
        simp only [ha, bind, Except.bind] at h
        split at h
        · cases h
        · split at h
          · cases h
          · next insts =>
            cases hi : List.foldlM (xInstStep { guards := true } o filter
                (if st.nOutput = 0 then st.index - 1 else st.outputIndex))
                ({ cols := if st.nOutput = 0 then st.cols.getLast?.toList ++ st.cols.dropLast else st.cols } : DF F)
                insts with
            | error e => simp [hi] at h
            | ok df' =>
              simp only [hi] at h
              cases hv : isValid df' with
              | error e => simp [hv] at h
              | ok v =>
                simp only [hv, Bool.true_and] at h
                split at h
                · cases h
                · next hc =>
                  simp only [pure, Except.pure, Except.ok.injEq, Prod.mk.injEq] at h
                  obtain ⟨rfl, rfl⟩ := h
                  simp only [Bool.not_eq_true', Bool.not_eq_false] at hc
                  have hvalid : Valid df' := by unfold Valid; rw [hv, hc]
                  exact ⟨hvalid, valid_equalInputs _ hvalid, by simp [hc]⟩

/-! ### the code as found -/

/-- defect 1 (`columns_info::build`): the second record is wider than the first -/
theorem old_build_faults (o : NumOracle F) (ho : LettersOnly o) :
    readCsv { guards := false } o { delim := ',', header := some false } "a,b\nc,d,e\n".toList
      = .error (.fault .build) := by
  have ha : o.isNum ['a'] = false := ho ['a'] rfl rfl
  have hb : o.isNum ['b'] = false := ho ['b'] rfl rfl
  have hc : o.isNum ['c'] = false := ho ['c'] rfl rfl
  have hd : o.isNum ['d'] = false := ho ['d'] rfl rfl
  simp [readCsv, resolveDialect, splitLines, splitLinesAux, records, isBlank, isSpace, parseLine, go, addField,
    readCsvRecs, List.foldlM, csvStep, csvProceed, rotate?, build, buildGo, setDomain, trim, isNumber,
    readRecord, toExample, outputOf, inputsGo, convert, encode, lookup, addState, setInsert,
    bind, Except.bind, pure, Except.pure, throw, throwThe, MonadExceptOf.throw, ha, hb, hc, hd]

/-- defect 2 (`read_csv`, `std::rotate`): a record shorter than the output index -/
theorem old_rotate_csv_faults (o : NumOracle F) (ho : LettersOnly o) :
    readCsv { guards := false } o { delim := ',', header := some false, outIdx := some 2 } "a,b,c\nd,e\n".toList
      = .error (.fault .rotateCsv) := by
  have ha : o.isNum ['a'] = false := ho ['a'] rfl rfl
  have hb : o.isNum ['b'] = false := ho ['b'] rfl rfl
  have hc : o.isNum ['c'] = false := ho ['c'] rfl rfl
  simp [readCsv, resolveDialect, splitLines, splitLinesAux, records, isBlank, isSpace, parseLine, go, addField,
    readCsvRecs, List.foldlM, csvStep, csvProceed, rotate?, build, buildGo, setDomain, trim, isNumber,
    readRecord, toExample, outputOf, inputsGo, convert, encode, lookup, addState, setInsert,
    bind, Except.bind, pure, Except.pure, throw, throwThe, MonadExceptOf.throw, ha, hb, hc]

/-- defect 3 (`read_xrff`, `std::rotate`): an instance with fewer values than the position of the
    class attribute -/
theorem old_rotate_xrff_faults (o : NumOracle F) :
    readXrff { guards := false } o (fun _ => true)
      (.doc [⟨"a".toList, false, "string".toList, []⟩, ⟨"c".toList, true, "string".toList, []⟩]
            (some [["x".toList]]))
      = .error (.fault .rotateXrff) := by
  simp [readXrff, List.foldlM, xAttrStep, xInstStep, rotate?, fromWeka, bind, Except.bind, pure, Except.pure,
    throw, throwThe, MonadExceptOf.throw]

/-- defect 4 (`read_xrff`): one class only – the call returns 0 and leaves an inconsistent dataframe -/
theorem old_xrff_returns_invalid (o : NumOracle F) (ho : LettersOnly o) :
    ∃ df : DF F, readXrff { guards := false } o (fun _ => true)
      (.doc [⟨"a".toList, false, "string".toList, []⟩, ⟨"c".toList, true, "nominal".toList, []⟩]
            (some [["x".toList, "u".toList], ["y".toList, "u".toList]]))
      = .ok (df, 0) ∧ isValid df = .ok false := by
  have hu : o.isNum ['u'] = false := ho ['u'] rfl rfl
  refine ⟨{ cols := [{ name := ['c'], dom := .dbl }, { name := ['a'], dom := .str }],
            classes := [(['u'], 0)],
            examples := [{ input := [.str ['x']], output := .int 0 }, { input := [.str ['y']], output := .int 0 }] },
          ?_, ?_⟩
  · simp [readXrff, List.foldlM, xAttrStep, xInstStep, rotate?, fromWeka, readRecord, toExample, outputOf,
      inputsGo, convert, encode, lookup, addState, setInsert, isNumber, trim, isSpace, isValid,
      bind, Except.bind, pure, Except.pure, throw, throwThe, MonadExceptOf.throw, hu]
  · simp [isValid, pure, Except.pure]

/-- the property fails for the code as it was found -/
theorem read_total_old_false : ¬ ReadTotalCsv { guards := false } ∧ ¬ ReadTotalXrff { guards := false } := by
  let o : NumOracle Nat := { isNum := fun _ => false, stod := fun _ => none, stoi := fun _ => none }
  constructor
  · intro h
    have := (h Nat o { delim := ',', header := some false } "a,b\nc,d,e\n".toList).1
    exact this .build (old_build_faults o (fun _ _ _ => rfl))
  · intro h
    have := (h Nat o (fun _ => true)
      (.doc [⟨"a".toList, false, "string".toList, []⟩, ⟨"c".toList, true, "string".toList, []⟩]
            (some [["x".toList]]))).1
    exact this .rotateXrff (old_rotate_xrff_faults o)

/-- non-vacuity: the fixed model does return dataframes (`a,b / c,d` with labels in column 0) -/
example : ∃ df : DF Nat, readCsv { guards := true }
    ({ isNum := fun _ => false, stod := fun _ => none, stoi := fun _ => none } : NumOracle Nat)
    { delim := ',', header := some false } "a,b\nc,d\n".toList = .ok df := by
  refine ⟨{ cols := [{ dom := .dbl }, { dom := .str, states := [['b'], ['d']] }],
            classes := [(['a'], 0), (['c'], 1)],
            examples := [{ input := [.str ['b']], output := .int 0 }, { input := [.str ['d']], output := .int 1 }] }, ?_⟩
  simp [readCsv, resolveDialect, splitLines, splitLinesAux, records, isBlank, isSpace, parseLine, go, addField,
    readCsvRecs, List.foldlM, csvStep, csvProceed, rotate?, build, buildGo, setDomain, trim, isNumber,
    readRecord, toExample, outputOf, inputsGo, convert, encode, lookup, addState, setInsert, isValid,
    examplesValid, label, colsValid,
    bind, Except.bind, pure, Except.pure, throw, throwThe, MonadExceptOf.throw]

end Vita.C10
