/-
  C10 — dataset import is memory-safe on malformed input.

  The model (Vita/C09/Csv.lean, Vita/C09/Model.lean) writes the accesses whose index the C++ does
  not check as checked accesses: `buildGo` (columns_info::build, `cols_[idx]`), `rotate?`
  (std::rotate in read_csv / read_xrff); they yield `Err.fault`.  `std::stod`, `std::stoi`,
  `std::get` and the explicit `throw`s yield `Err.exc`.  `Cfg.guards = true` is the code after the
  four `fix:` commits, `false` the code as it was found.

  * `read_total_csv`, `read_total_xrff`: for **every** byte string / parsed document, every
    parameter setting, every number oracle: the model of the fixed code never faults, and when it
    returns a dataframe, that dataframe passes `is_valid` and all examples have the same number
    of inputs.
  * `old_*`: concrete inputs on which the model of the code as found faults (three sites) or
    returns normally with an invalid dataframe; `read_total_old_false`: so the same statement is
    false for that code.
-/
import Vita.C10.Lemmas
import Vita.C10.LemmasInputs
import Vita.C10.GenSites
import Vita.C10.Reviewed
import Vita.C10.Loops
import Vita.C09.Props

namespace Vita.C10
open Vita.C09 Vita.C10.Sites

variable {F : Type}

/-- **read_total (CSV)** for the code after the fixes: all byte strings, all parameters -/
theorem read_total_csv : ReadTotalCsv { guards := true } := by
  intro F o p bytes
  constructor
  · unfold readCsv
    exact readCsvRecs_noFault o _ _ _
  · intro df h
    unfold readCsv at h
    exact readCsvRecs_valid _ _ _ _ _ _ h

/-- **read_total (XRFF)** for the code after the fixes: all parsed documents, all hooks (a hook may reject
    the record and may rewrite it: `filter_hook_t = std::function<bool (record_t &)>`) -/
theorem read_total_xrff : ReadTotalXrff { guards := true } := by
  intro F o hook doc
  exact ⟨readXrffH_noFault o hook doc, fun df n h => readXrffH_valid o hook doc df n h⟩

/-- the same for a filter that only accepts or rejects (`readXrff`, the form used by the round-1 theorems) -/
theorem read_total_xrff_pred (o : NumOracle F) (f : List Str → Bool) (doc : XDoc) :
    NoFault (readXrff { guards := true } o f doc) ∧
    ∀ df n, readXrff { guards := true } o f doc = .ok (df, n) →
      Valid df ∧ EqualInputs df ∧ n = df.examples.length := by
  rw [readXrff_eq_H]
  exact read_total_xrff F o (Hook.ofPred f) doc

/-- **read_total (file)**: `dataframe::read(path, params)` – XRFF for `.xrff` / `.xml` in any case, else CSV – never
    faults and returns only valid dataframes with equally long inputs; the count it returns is the number of examples -/
theorem read_total_file : ReadTotalFile { guards := true } := by
  intro F o p ext bytes doc
  unfold readFile
  split
  · exact read_total_xrff F o p.hook doc
  · constructor
    · exact noFault_bind (read_total_csv F o p bytes).1 (fun df => noFault_pure _)
    · intro df n h
      cases hr : readCsv { guards := true } o p bytes with
      | error e => simp [hr, bind, Except.bind] at h
      | ok df' =>
        simp only [hr, bind, Except.bind, pure, Except.pure, Except.ok.injEq, Prod.mk.injEq] at h
        obtain ⟨rfl, rfl⟩ := h
        obtain ⟨h1, _, h3⟩ := (read_total_csv F o p bytes).2 df' hr
        exact ⟨h1, h3, rfl⟩

/-! ### the code as found -/

/-- defect 1 (`columns_info::build`): the second record is wider than the first -/
theorem old_build_faults (o : NumOracle F) (ho : LettersOnly o) :
    readCsv { guards := false } o { delim := ',', header := some false } "a,b\nc,d,e\n".toList
      = .error (.fault .build) := by
  have ha : o.isNum ['a'] = false := ho ['a'] rfl rfl
  have hb : o.isNum ['b'] = false := ho ['b'] rfl rfl
  have hc : o.isNum ['c'] = false := ho ['c'] rfl rfl
  have hd : o.isNum ['d'] = false := ho ['d'] rfl rfl
  simp [readCsv, resolveDialect, splitLines, splitLinesAux, records, isBlank, isSpace, parseLine, go, addField,
    readCsvRecs, List.foldlM, csvStep, csvProceed, rotate?, build, buildGo, setDomain, trim, isNumber,
    readRecord, toExample, outputOf, inputsGo, convert, encode, lookup, addState, setInsert,
    bind, Except.bind, pure, Except.pure, throw, throwThe, MonadExceptOf.throw, ha, hb, hc, hd]

/-- defect 2 (`read_csv`, `std::rotate`): a record shorter than the output index -/
theorem old_rotate_csv_faults (o : NumOracle F) (ho : LettersOnly o) :
    readCsv { guards := false } o { delim := ',', header := some false, outIdx := some 2 } "a,b,c\nd,e\n".toList
      = .error (.fault .rotateCsv) := by
  have ha : o.isNum ['a'] = false := ho ['a'] rfl rfl
  have hb : o.isNum ['b'] = false := ho ['b'] rfl rfl
  have hc : o.isNum ['c'] = false := ho ['c'] rfl rfl
  simp [readCsv, resolveDialect, splitLines, splitLinesAux, records, isBlank, isSpace, parseLine, go, addField,
    readCsvRecs, List.foldlM, csvStep, csvProceed, rotate?, build, buildGo, setDomain, trim, isNumber,
    readRecord, toExample, outputOf, inputsGo, convert, encode, lookup, addState, setInsert,
    bind, Except.bind, pure, Except.pure, throw, throwThe, MonadExceptOf.throw, ha, hb, hc]

/-- defect 3 (`read_xrff`, `std::rotate`): an instance with fewer values than the position of the
    class attribute -/
theorem old_rotate_xrff_faults (o : NumOracle F) :
    readXrff { guards := false } o (fun _ => true)
      (.doc [⟨"a".toList, false, "string".toList, []⟩, ⟨"c".toList, true, "string".toList, []⟩]
            (some [["x".toList]]))
      = .error (.fault .rotateXrff) := by
  simp [readXrff, List.foldlM, xAttrStep, xInstStep, rotate?, fromWeka, bind, Except.bind, pure, Except.pure,
    throw, throwThe, MonadExceptOf.throw]

/-- defect 4 (`read_xrff`): one class only – the call returns 0 and leaves an inconsistent dataframe -/
theorem old_xrff_returns_invalid (o : NumOracle F) (ho : LettersOnly o) :
    ∃ df : DF F, readXrff { guards := false } o (fun _ => true)
      (.doc [⟨"a".toList, false, "string".toList, []⟩, ⟨"c".toList, true, "nominal".toList, []⟩]
            (some [["x".toList, "u".toList], ["y".toList, "u".toList]]))
      = .ok (df, 0) ∧ isValid df = .ok false := by
  have hu : o.isNum ['u'] = false := ho ['u'] rfl rfl
  refine ⟨{ cols := [{ name := ['c'], dom := .dbl }, { name := ['a'], dom := .str }],
            classes := [(['u'], 0)],
            examples := [{ input := [.str ['x']], output := .int 0 }, { input := [.str ['y']], output := .int 0 }] },
          ?_, ?_⟩
  · simp [readXrff, List.foldlM, xAttrStep, xInstStep, rotate?, fromWeka, readRecord, toExample, outputOf,
      inputsGo, convert, encode, lookup, addState, setInsert, isNumber, trim, isSpace, isValid,
      bind, Except.bind, pure, Except.pure, throw, throwThe, MonadExceptOf.throw, hu]
  · simp [isValid, pure, Except.pure]

/-- the property fails for the code as it was found -/
theorem read_total_old_false : ¬ ReadTotalCsv { guards := false } ∧ ¬ ReadTotalXrff { guards := false } := by
  let o : NumOracle Nat := { isNum := fun _ => false, stod := fun _ => none, stoi := fun _ => none }
  constructor
  · intro h
    have := (h Nat o { delim := ',', header := some false } "a,b\nc,d,e\n".toList).1
    exact this .build (old_build_faults o (fun _ _ _ => rfl))
  · intro h
    have := (h Nat o (Hook.ofPred (fun _ => true))
      (.doc [⟨"a".toList, false, "string".toList, []⟩, ⟨"c".toList, true, "string".toList, []⟩]
            (some [["x".toList]]))).1
    rw [← readXrff_eq_H] at this
    exact this .rotateXrff (old_rotate_xrff_faults o)

/-! ### `is_valid` itself, and the problem built from a stream -/

/-- **is_valid_spec.**  The consistency check, characterised (so that "passes its own consistency check" of
    the property is a statement about the dataframe, not about a function): `is_valid()` answers `true` exactly
    for an empty dataframe, or one with no class or at least two, **all examples with the same number of inputs**,
    every label a class id in range when there are classes, and no column without a domain that has states.  In
    particular a dataframe whose examples have different numbers of inputs never passes – whatever the kind of
    problem (the scan of the examples is not restricted to classification tasks). -/
theorem is_valid_spec (df : DF F) : isValid df = .ok true ↔
    (df.examples = [] ∨
      (df.classes.length ≠ 1 ∧ EqualInputs df ∧ LabelsOK df ∧ colsValid df.cols = true)) := by
  unfold isValid
  cases hex : df.examples with
  | nil => simp [pure, Except.pure]
  | cons e0 es =>
    simp only [reduceCtorEq, false_or]
    by_cases h1 : df.classes.length = 1
    · simp [h1, pure, Except.pure]
    · simp only [h1, if_false, ne_eq, not_false_eq_true, true_and]
      have hspec := examplesValid_spec df.classes.length e0.input.length (e0 :: es)
      have heq : EqualInputs df ↔ ∀ e ∈ e0 :: es, e.input.length = e0.input.length := by
        unfold EqualInputs
        rw [hex]
        constructor
        · intro h e he; exact h e he e0 (by simp)
        · intro h e he e' he'; rw [h e he, h e' he']
      have hlab : LabelsOK df ↔ (df.classes.length = 0 ∨
          ∀ e ∈ e0 :: es, ∃ l : Int, e.output = .int l ∧ 0 ≤ l ∧ l < df.classes.length) := by
        unfold LabelsOK; rw [hex]
      rw [heq, hlab]
      cases hv : examplesValid df.classes.length e0.input.length (e0 :: es) with
      | error err =>
        simp only [bind, Except.bind, reduceCtorEq, false_iff]
        intro h
        have := hspec.2 ⟨h.1, h.2.1⟩
        rw [hv] at this; cases this
      | ok b =>
        simp only [bind, Except.bind, pure, Except.pure, Except.ok.injEq, Bool.and_eq_true]
        rw [hv] at hspec
        simp only [Except.ok.injEq] at hspec
        constructor
        · rintro ⟨hb, hc⟩
          have := hspec.1 hb
          exact ⟨this.1, this.2, hc⟩
        · rintro ⟨ha, hb, hc⟩
          exact ⟨hspec.2 ⟨ha, hb⟩, hc⟩

/-- what a problem set up from a dataset guarantees to the evolution that runs on it -/
def ProblemOK (df : DF F) (syms : List TermSym) : Prop :=
  Valid df ∧ df.examples ≠ [] ∧ EqualInputs df ∧
  ∀ v, TermSym.var v ∈ syms → ∀ e ∈ df.examples, ∃ x, evalVar v e = .ok x

/-- **src_problem_total (stream).**  `src_problem(std::istream &, typing)` – `read_csv` with sniffed dialect,
    then `category_set` and `setup_terminals` – for **every byte string**, both typings, every number oracle:
    never an out-of-bounds access; and when it returns, the training set is valid, not empty, with equally long
    input vectors, and **every variable it inserted reads inside the input vector of every example**
    (`src_interpreter::fetch_var` in range: one input per column that has a domain, one variable per such column). -/
theorem src_problem_total (o : NumOracle F) (strong : Bool) (bytes : Str) :
    NoFault (srcProblemStream { guards := true } o strong bytes) ∧
    ∀ df syms, srcProblemStream { guards := true } o strong bytes = .ok (df, syms) → ProblemOK df syms := by
  constructor
  · exact noFault_bind (read_total_csv F o {} bytes).1
      (fun df => noFault_bind (setupSymbols_noFault _ _ _) (fun syms => noFault_pure _))
  · intro df syms h
    unfold srcProblemStream at h
    obtain ⟨df', hr, h⟩ := bind_ok h
    obtain ⟨syms', hs, h⟩ := bind_ok h
    simp only [pure, Except.pure, Except.ok.injEq, Prod.mk.injEq] at h
    obtain ⟨rfl, rfl⟩ := h
    obtain ⟨h1, h2, h3⟩ := (read_total_csv F o {} bytes).2 df' hr
    refine ⟨h1, h2, h3, ?_⟩
    intro v hv e he
    exact vars_in_range strong df'.cols syms'
      (fun c hc => readCsv_statesStr _ o _ bytes df' hr c (List.mem_of_mem_tail hc)) hs e
      (readCsv_inputs o {} bytes df' hr e he) v hv

/-- **src_problem_total (file)**: the same for `src_problem(path, typing)`, whatever the extension of the name
    (XRFF or CSV); an XRFF file may hold no instance at all (then there is nothing a variable could read) -/
theorem src_problem_file_total (o : NumOracle F) (strong : Bool) (ext bytes : Str) (doc : XDoc) :
    NoFault (srcProblemFile { guards := true } o strong ext bytes doc) ∧
    ∀ df syms, srcProblemFile { guards := true } o strong ext bytes doc = .ok (df, syms) →
      Valid df ∧ EqualInputs df ∧
      ∀ v, TermSym.var v ∈ syms → ∀ e ∈ df.examples, ∃ x, evalVar v e = .ok x := by
  constructor
  · exact noFault_bind (read_total_file F o {} ext bytes doc).1
      (fun r => noFault_bind (setupSymbols_noFault _ _ _) (fun syms => noFault_pure _))
  · intro df syms h
    unfold srcProblemFile at h
    obtain ⟨r, hr, h⟩ := bind_ok h
    obtain ⟨syms', hs, h⟩ := bind_ok h
    simp only [pure, Except.pure, Except.ok.injEq, Prod.mk.injEq] at h
    obtain ⟨rfl, rfl⟩ := h
    obtain ⟨df', n⟩ := r
    obtain ⟨h1, h3, _⟩ := (read_total_file F o {} ext bytes doc).2 df' n hr
    refine ⟨h1, h3, ?_⟩
    intro v hv e he
    unfold readFile at hr
    split at hr
    · exact vars_in_range strong df'.cols syms'
        (fun c hc => readXrffH_statesStr _ o _ doc df' n hr c (List.mem_of_mem_tail hc)) hs e
        (readXrffH_inputs o _ doc df' n hr e he) v hv
    · obtain ⟨df'', hr', hr⟩ := bind_ok hr
      simp only [pure, Except.pure, Except.ok.injEq, Prod.mk.injEq] at hr
      obtain ⟨rfl, _⟩ := hr
      exact vars_in_range strong df''.cols syms'
        (fun c hc => readCsv_statesStr _ o _ bytes df'' hr' c (List.mem_of_mem_tail hc)) hs e
        (readCsv_inputs o {} bytes df'' hr' e he) v hv

/-! ### every access site of the C++ readers (extracted by tools/translate_reader.py on every run) -/

/-- **sites_safe.**  For every subscript / `front` / `back` / iterator-arithmetic / iterator-, pointer- and
    optional-dereference / `std::string(const char *)` site that the translator finds in `read_csv`, `read_xrff`,
    `read`, `read_record`, `to_example`, `columns_info::build`, `is_valid`, `encode`, `class_name`, the whole of
    pocket_csv.h (parser, `parse_line`, `get_input`, sniffer), `src_problem(stream)`, `setup_terminals`, `category_set`:
    in every state in which the guards that dominate the site hold, the index is inside the container
    (`idx < size`; `≤ size` for a position; the pointer / optional is not null; a call that closes a cycle of the
    call graph is unreachable) – or the site is one of the ten of `reviewedSites`, whose safety is argued on the
    model there.  Deleting or weakening a guard, or adding an access that is not evidently guarded, makes a
    conjunct unprovable. -/
theorem sites_safe : ∀ s ∈ Gen.sites, s.Safe ∨ s.key ∈ reviewedSites := by
  rw [← allP_iff]
  unfold Gen.sites
  repeat' (first | exact trivial | apply And.intro)
  all_goals first
    | (left; intro env hg
       simp only [allHold, GE.eval, IE.eval, SiteRec.goal] at hg ⊢
       omega)
    | (right; decide)

/-- **no_reachable_recursion.**  Every call that closes a cycle among the reader functions (the translator inlines
    a cycle once and reports the call that would start a third turn) is dominated by guards that contradict each
    other: no reader function calls itself, directly or through others, on any input.  (In the tree as it is the
    only cycle is `get_input` → `const_iterator()` → `get_input`, cut by the null stream of the default argument.)
    None of these sites is in `reviewedSites`. -/
theorem no_reachable_recursion : ∀ s ∈ Gen.sites, s.kind = .never → s.Safe := by
  rw [← allP_iff]
  unfold Gen.sites
  repeat' (first | exact trivial | apply And.intro)
  all_goals first
    | (intro hk; exact absurd hk (by decide))
    | (intro _ env hg
       simp only [allHold, GE.eval, IE.eval, SiteRec.goal] at hg ⊢
       omega)

/-! ### termination and stack depth of the parser's loops -/

/-- how `get_input` skips lines, from the generated call graph: a self call makes it a recursion -/
def getInputShape : Shape :=
  if Gen.selfRecursive.contains "pocket_csv::parser::const_iterator::get_input()" then .recursion else .loop

/-- **get_input_terminates_flat.**  On every stream (list of lines), for every dialect and hook: iterating the
    parser as `read_csv` / `has_header` do (`begin()`, then `++` until `end()`) (a) yields exactly the records of the
    specification the C09 / C10 theorems speak about, (b) calls `std::getline` once per line plus once at the end –
    every loop iteration consumes a line, so the loops terminate – and (c) never has more than ONE activation
    record of `get_input` on the stack, however long the runs of blank or hook-rejected lines are. -/
theorem get_input_terminates_flat (dl : Dialect) (hook : Hook) (lines : List Str) :
    (iterate getInputShape dl hook lines).recs = records dl hook lines ∧
    (iterate getInputShape dl hook lines).getlines = lines.length + 1 ∧
    (iterate getInputShape dl hook lines).depth = 1 := by
  have hs : getInputShape = .loop := by decide
  rw [hs]
  exact ⟨iterate_recs _ dl hook lines, iterate_getlines _ dl hook lines, iterate_depth_loop dl hook lines⟩

/-- **recursive_skipping_unbounded.**  The same function with the skipping written as a self call per skipped
    line (the seeded change C10-m4) computes the same records with the same number of `getline`s, but its stack
    depth exceeds every bound: `n` blank lines need more than `n` activation records.  (This is why the check
    reads long runs of skipped lines on a small stack.) -/
theorem recursive_skipping_unbounded (dl : Dialect) (hook : Hook) :
    (∀ lines, (iterate .recursion dl hook lines).recs = (iterate .loop dl hook lines).recs ∧
              (iterate .recursion dl hook lines).getlines = (iterate .loop dl hook lines).getlines) ∧
    ∀ n, n < (iterate .recursion dl hook (List.replicate n [])).depth := by
  refine ⟨fun lines => ⟨?_, ?_⟩, iterate_depth_recursion_unbounded dl hook⟩
  · rw [iterate_recs, iterate_recs]
  · rw [iterate_getlines, iterate_getlines]

/-- **parse_line_steps.**  The loop of `parse_line` (`for (pos = 0; pos < length && line[pos]; ++pos)`, with the extra
    `++pos` of a doubled quote) runs at most `line.length` times, whatever the line, the dialect and the quoting state:
    `pos` strictly increases towards `length`. -/
theorem parse_line_steps (dl : Dialect) (line : Str) : parseSteps dl line false [] ≤ line.length :=
  parseSteps_le dl line false []

/-- non-vacuity: the fixed model does return dataframes (`a,b / c,d` with labels in column 0) -/
example : ∃ df : DF Nat, readCsv { guards := true }
    ({ isNum := fun _ => false, stod := fun _ => none, stoi := fun _ => none } : NumOracle Nat)
    { delim := ',', header := some false } "a,b\nc,d\n".toList = .ok df := by
  refine ⟨{ cols := [{ dom := .dbl }, { dom := .str, states := [['b'], ['d']] }],
            classes := [(['a'], 0), (['c'], 1)],
            examples := [{ input := [.str ['b']], output := .int 0 }, { input := [.str ['d']], output := .int 1 }] }, ?_⟩
  simp [readCsv, resolveDialect, splitLines, splitLinesAux, records, isBlank, isSpace, parseLine, go, addField,
    readCsvRecs, List.foldlM, csvStep, csvProceed, rotate?, build, buildGo, setDomain, trim, isNumber,
    readRecord, toExample, outputOf, inputsGo, convert, encode, lookup, addState, setInsert, isValid,
    examplesValid, label, colsValid,
    bind, Except.bind, pure, Except.pure, throw, throwThe, MonadExceptOf.throw]

/-- non-vacuity of `src_problem_total`: the four-line file `x,y / 1,2 / 3,4` (dialect left to the sniffer, as the
    constructor does) yields a problem: two examples, one variable `y` that reads input 0 -/
example : ∃ (df : DF Nat) (syms : List TermSym),
    srcProblemStream { guards := true } digitOracle false
      (renderPlain ',' [["x".toList, "y".toList], ["1".toList, "2".toList], ["3".toList, "4".toList]]) = .ok (df, syms) ∧
    df.examples.length = 2 ∧ syms = [.var { name := ['y'], var := 0, category := some 0 }] := by
  have hu : Unambiguous digitOracle ',' (some ["x".toList, "y".toList])
      [["1".toList, "2".toList], ["3".toList, "4".toList]] :=
    { delim := by simp [preferred]
      width := ⟨2, by omega, by intro r hr; simp at hr; rcases hr with rfl | rfl <;> rfl,
        by intro h hh; simp at hh; subst hh; rfl⟩
      two := by simp
      data := by
        intro r hr c hc
        simp at hr
        rcases hr with rfl | rfl <;> simp at hc <;> rcases hc with rfl | rfl <;>
          simp [DataCell, PlainCell, preferred, isBlank, isSpace, isNumber, trim, digitOracle, isAlpha, isUpper, isLower] <;>
          decide
      head := by
        intro h hh c hc
        simp at hh
        subst hh
        simp at hc
        rcases hc with rfl | rfl <;>
          simp [HeadCell, PlainCell, preferred, isBlank, isSpace, isNumber, trim, digitOracle] <;> decide }
  have hs := sniffed_read_eq_explicit { guards := true } digitOracle ',' (some ["x".toList, "y".toList])
    [["1".toList, "2".toList], ["3".toList, "4".toList]] hu {} (by decide) ⟨rfl, rfl⟩
  simp only [Option.toList_some, List.singleton_append] at hs
  refine ⟨{ cols := [{ name := ['x'], dom := .dbl }, { name := ['y'], dom := .dbl }],
            examples := [{ input := [.dbl 2], output := .dbl 1 }, { input := [.dbl 4], output := .dbl 3 }] },
          _, ?_, rfl, rfl⟩
  have hbytes : renderPlain ',' [["x".toList, "y".toList], ["1".toList, "2".toList], ["3".toList, "4".toList]] =
      "x,y\n1,2\n3,4\n".toList := by decide
  unfold srcProblemStream
  rw [hs, hbytes]
  simp [readCsv, resolveDialect, splitLines, splitLinesAux, records, isBlank,
    isSpace, parseLine, go, addField, readCsvRecs, List.foldlM, csvStep, csvProceed, rotate?, build, buildGo, setDomain,
    trim, isNumber, readRecord, toExample, outputOf, inputsGo, convert, encode, lookup, addState, setInsert, isValid,
    examplesValid, label, colsValid, digitOracle, setupSymbols, setupSymsGo, stateConsts, categories, categoriesGo,
    varName, bind, Except.bind, pure, Except.pure]

end Vita.C10
