/-
  Line protocol of the C10 driver: every request of Vita/C09/Proto.lean, plus

    valid <nclasses> <nvoidstates> <n> {<out> <k>}     `dataframe::is_valid()` of a hand-built dataframe
        (harness/c10_scale.cc builds the same one): <nclasses> classes, the two columns of the file the classes
        were read from plus <nvoidstates> columns without a domain that have a state, <n> examples with output
        <out> (`v` | `i<int>` | `d` | `s`) and <k> inputs.  Answer: `ok valid=<0|1> eqin=<0|1>` | `exc <kind>`.
-/
import Vita.C09.Proto

namespace Vita.C10.Proto
open Vita.C09 Vita.C09.Proto

def parseOut (s : String) : Option (Val Nat) :=
  if s == "v" then some .void
  else if s == "d" then some (.dbl 0)
  else if s == "s" then some (.str ['t'])
  else if s.startsWith "i" then (s.drop 1).toString.toInt?.map .int
  else none

def parseExamples : List String → Option (List (Example Nat))
  | [] => some []
  | o :: k :: rest => do
    let out ← parseOut o
    let n ← k.toNat?
    let es ← parseExamples rest
    some ({ input := List.replicate n (.dbl 0), output := out } :: es)
  | _ => none

def answerValid (toks : List String) : String :=
  match toks with
  | ncl :: nvoid :: _n :: rest =>
    match ncl.toNat?, nvoid.toNat?, parseExamples rest with
    | some ncl, some nvoid, some es =>
      let df : DF Nat :=
        { cols := [{ dom := .dbl }, { dom := .dbl }] ++ List.replicate nvoid { dom := .void, states := [['s']] },
          classes := (List.range ncl).map (fun i => (("class" ++ toString i).toList, i)),
          examples := es }
      let eq := match es with
        | [] => true
        | e0 :: _ => es.all (fun e => e.input.length == e0.input.length)
      match isValid df with
      | .ok v => s!"ok valid={if v then 1 else 0} eqin={if eq then 1 else 0}"
      | .error e => errStr e
    | _, _, _ => "bad-op"
  | _ => "bad-op"

def answer (line : String) : String :=
  let toks := (line.trimAscii.toString.splitOn " ").filter (· != "")
  match toks with
  | "valid" :: rest => answerValid rest
  | _ => Vita.C09.Proto.answer line

end Vita.C10.Proto
