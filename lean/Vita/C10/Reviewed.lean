/-
  C10 — the access sites of lean/Vita/C10/GenSites.lean that are NOT discharged by arithmetic on their
  extracted guards, each with the argument that covers it.  The table is keyed by
  `function | access as written | digest of the dominating guards`: changing the access, or adding /
  deleting / changing a guard in front of it, changes the key and breaks `sites_safe` (Props.lean) until
  the site has been looked at again.  A new site that arithmetic cannot discharge is not in the table.
-/
namespace Vita.C10

def reviewedSites : List String := [
  -- `++count[c].back()` in `guess_delimiter`.  `count` is a `std::map<char, std::vector<unsigned>>`; the loop
  -- just before (`for (auto c : preferred) count[c].push_back(0u)`) has appended an element to `count[c]`
  -- for every `c` in `preferred`, for this very line, and `back()` is evaluated only under
  -- `std::find(preferred.begin(), preferred.end(), c) != preferred.end()`, i.e. for such a `c`.
  -- Model: `guessDelimiter` counts with `l.count c` per candidate – no container is indexed.
  "pocket_csv::detail::guess_delimiter | count[c].back() | da39a3ee5e",
  -- `res->second.…` in `guess_delimiter` (three uses, after different tests).  `res` is
  -- `std::max_element(mode_weight.begin(), mode_weight.end(), …)`: it is `end()` only for an empty map
  -- (extracted guard `res < #mode_weight ∨ #mode_weight = 0`).  `mode_weight` received one entry per entry
  -- of `count` in the loop before, and `count.empty()` has returned `0` earlier.
  -- Model: `guessDelimiter` matches on `preferred.map …` (five entries), `maxByWeight m ms` on `m :: ms`.
  "pocket_csv::detail::guess_delimiter | res-> | ae2c3f98dc",
  "pocket_csv::detail::guess_delimiter | res-> | 4c0d58dfed",
  "pocket_csv::detail::guess_delimiter | res-> | 87f9d7856d",
  -- `*end` after `strtod(s.c_str(), &end)` in both copies of `is_number`: strtod stores a pointer into the
  -- string it was given (the first character it did not consume), never null.
  "pocket_csv::detail::is_number | *end | 8e9b7ad206",
  "vita::is_number | *end | 8e9b7ad206",
  -- `is_->clear()`, `is_->seekg(…)`, `*is_` in `parser::begin()`: `is_` is initialised with the address of a
  -- reference (`is_(&is)`) by the only non-delegating constructor and never assigned afterwards; the
  -- `assert(is_)` in front is compiled out.
  "pocket_csv::parser::begin | is_->clear | da39a3ee5e",
  "pocket_csv::parser::begin | is_->seekg | da39a3ee5e",
  "pocket_csv::parser::begin | *is_ | da39a3ee5e",
  -- `columns_[i]` in `category_set::column(i)`, called by `setup_terminals` with `i < columns.size()` of the
  -- dataframe: the constructor of `category_set` pushes exactly one entry per column of the dataframe
  -- (C09 `category_valid`: `(categories strong cols).map (·.2) = cols.map (·.dom)`, so equal lengths).
  "vita::category_set::column | columns_[i] | a46ddc62c8"
]

end Vita.C10
