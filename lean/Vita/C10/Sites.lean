/-
  C10 — the language of the access sites tools/translate_reader.py extracts from the clang AST of the
  dataset readers (dataframe.cc, pocket_csv.h, utility.cc, problem.cc, category_set.cc).

  A site is one place where the C++ indexes a container, moves / dereferences an iterator, dereferences a
  raw pointer or a `std::optional`, or builds a `std::string` from a `const char *`, together with the
  guards that dominate it on the path from the entry point (conditions of the enclosing `if` / loops /
  `&&` / `||` / `?:`, negated conditions of early exits, defining equations of locals that nothing modified
  since) – all as terms over *named quantities*: the text of a pure C++ expression names its value, `#c`
  the size of container `c`.

  Semantics: an environment gives every name a natural number (a pointer / optional / boolean is `0` when
  null / empty / false).  A site is `Safe` when, in every environment in which all its guards hold,

    index      idx < #container            (`c[i]`, `*it`, `c.front()`, `c.back()`, `c.pop_back()`)
    position   idx ≤ #container            (`std::next(c.begin(), k)`, `c.begin() + k`: one past the end is allowed;
                                            `s[i]` on a std::string: `s[s.size()]` is the terminating NUL)
    nonzero    0 < idx                     (`p->m`, `*p`, `*opt`, `std::string(p)`)
    never      False                       (a call that closes a cycle of the call graph – recursion – must be
                                            unreachable: its guards contradict each other)

  Arithmetic is over ideal naturals (sizes are far below 2^64); subtraction and anything that is not
  `+` on literals and names is an opaque name.
-/
namespace Vita.C10.Sites

inductive IE
  | lit (n : Nat)
  | var (x : String)
  | size (c : String)
  | add (a b : IE)
  deriving Repr, DecidableEq

inductive GE
  | lt (a b : IE)
  | le (a b : IE)
  | eq (a b : IE)
  | ne (a b : IE)
  | not (g : GE)
  | and (g h : GE)
  | or (g h : GE)
  | tt
  deriving Repr, DecidableEq

inductive Kind | index | position | nonzero | never
  deriving Repr, DecidableEq

structure Env where
  val : String → Nat
  sz : String → Nat

def IE.eval (env : Env) : IE → Nat
  | .lit n => n
  | .var x => env.val x
  | .size c => env.sz c
  | .add a b => a.eval env + b.eval env

def GE.eval (env : Env) : GE → Prop
  | .lt a b => a.eval env < b.eval env
  | .le a b => a.eval env ≤ b.eval env
  | .eq a b => a.eval env = b.eval env
  | .ne a b => a.eval env ≠ b.eval env
  | .not g => ¬ g.eval env
  | .and g h => g.eval env ∧ h.eval env
  | .or g h => g.eval env ∨ h.eval env
  | .tt => True

def allHold (env : Env) : List GE → Prop
  | [] => True
  | g :: gs => g.eval env ∧ allHold env gs

structure SiteRec where
  /-- qualified name of the function the access is written in -/
  fn : String
  /-- the access as written there -/
  what : String
  /-- the entry point and the calls through which it is reached (inlined with their arguments) -/
  via : String
  kind : Kind
  container : String
  idx : IE
  guards : List GE
  /-- `fn | what | guards` with the frame numbers of inlined calls removed: the key of the table of sites
      that are discharged by an argument on the model instead of by arithmetic on the guards -/
  key : String

def SiteRec.goal (s : SiteRec) (env : Env) : Prop :=
  match s.kind with
  | .index => s.idx.eval env < env.sz s.container
  | .position => s.idx.eval env ≤ env.sz s.container
  | .nonzero => 0 < s.idx.eval env
  | .never => False

/-- the access is in bounds (the pointer is not null) whenever its dominating guards hold -/
def SiteRec.Safe (s : SiteRec) : Prop := ∀ env : Env, allHold env s.guards → s.goal env

/-- `P` holds for every element (a conjunction that `refine ⟨?_, ?_⟩` takes apart) -/
def AllP {α : Type} (P : α → Prop) : List α → Prop
  | [] => True
  | a :: l => P a ∧ AllP P l

theorem allP_iff {α : Type} (P : α → Prop) (l : List α) : AllP P l ↔ ∀ x ∈ l, P x := by
  induction l with
  | nil => simp [AllP]
  | cons a l ih => simp [AllP, ih]

/-! ### call graph of the extracted functions: no cycle (no recursion, direct or mutual) -/

/-- one round: the functions all of whose callees are already known to be cycle-free -/
def acyclicStep (edges : List (String × String)) (good : List String) (fns : List String) : List String :=
  fns.filter (fun f => good.contains f || (edges.filter (fun e => e.1 == f)).all (fun e => good.contains e.2))

def acyclicIter (edges : List (String × String)) (fns : List String) : Nat → List String → List String
  | 0, good => good
  | n + 1, good => acyclicIter edges fns n (acyclicStep edges good fns)

/-- every function is eventually marked: the call graph restricted to `fns` has no cycle -/
def acyclic (edges : List (String × String)) (fns : List String) : Bool :=
  (acyclicIter edges fns fns.length []).length == fns.length

end Vita.C10.Sites
