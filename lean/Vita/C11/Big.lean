import Vita.C11.Model
/-!
  C11 — composite persistable types: `i_mep` (individual.tcc + gp/mep/i_mep.cc), `team`
  (gp/team.tcc), `population` (population.tcc), `summary` (evolution_summary.tcc).

  The symbol set enters only through `ss.decode(opcode)`: `SymTab` maps an opcode to what the
  load/save code looks at — whether the symbol is a parametric terminal (then one parameter is
  written) and its arity (then that many argument indices are written).
-/
namespace Vita.C11

variable {F : Type}

structure SymInfo where
  hasPar : Bool     -- `sym->terminal() && terminal::cast(sym)->parametric()`
  arity : Nat       -- `sym->arity()`
deriving DecidableEq, Repr

abbrev SymTab := Nat → Option SymInfo

/-! ### i_mep -/

structure Gene (F : Type) where
  op : Nat
  par : Option F         -- present iff the symbol is a parametric terminal
  args : List Nat

structure IMep (F : Type) where
  age : Nat
  cols : Nat
  genes : List (Gene F)    -- row-major genome matrix
  best : Nat × Nat         -- locus (index, category); `locus::npos()` for the empty individual

def npos : Nat × Nat := (U64, U64)

def IMep.rows (x : IMep F) : Nat := if x.cols = 0 then 0 else x.genes.length / x.cols

def Gene.body (io : FloatIO F) (g : Gene F) : Str :=
  showNat g.op ++ (match g.par with | some p => ' ' :: io.fmt p | none => []) ++
    g.args.flatMap (fun a => ' ' :: showNat a)

/-- `out << age() << '\n'` then `save_impl` -/
def IMep.save (io : FloatIO F) (x : IMep F) : Str :=
  showNat x.age ++ '\n' :: showNat x.rows ++ ' ' :: showNat x.cols ++ '\n' ::
    items (Gene.body io) '\n' x.genes ++
    (if x.genes = [] then [] else showNat x.best.1 ++ ' ' :: showNat x.best.2 ++ ['\n'])

/-- `if (sym is a parametric terminal) in >> temp.par` -/
def optPar (io : FloatIO F) (hasPar : Bool) : P (Option F) := fun s =>
  if hasPar then
    match readF io s with
    | none => none
    | some (p, r) => some (some p, r)
  else some (none, s)

def Gene.load (io : FloatIO F) (tab : SymTab) : P (Gene F) := do
  let op ← readU U32
  match tab op with
  | none => P.fail
  | some info =>
    let par ← optPar io info.hasPar
    let args ← readN (readU U16) info.arity
    pure ⟨op, par, args⟩

/-- `auto best(locus::npos()); if (rows && !(in >> best.index >> best.category)) return false;` -/
def readBest (rows : Nat) : P (Nat × Nat) := fun s =>
  if rows = 0 then some (npos, s)
  else match readU U64 s with
    | none => none
    | some (i, s1) => match readU U64 s1 with
      | none => none
      | some (c, s2) => some ((i, c), s2)

def IMep.load (io : FloatIO F) (tab : SymTab) : P (IMep F) := do
  let age ← readU U32
  let rows ← readU U32
  let cols ← readU U32
  let genes ← readN (Gene.load io tab) (rows * cols)
  let best ← readBest rows
  pure ⟨age, cols, genes, best⟩

def Gene.ok (io : FloatIO F) (tab : SymTab) (g : Gene F) : Prop :=
  g.op ≤ U32 ∧ ∃ info, tab g.op = some info ∧ g.par.isSome = info.hasPar ∧
    (∀ p, g.par = some p → io.finite p = true) ∧ g.args.length = info.arity ∧ ∀ a ∈ g.args, a ≤ U16

def IMep.ok (io : FloatIO F) (tab : SymTab) (x : IMep F) : Prop :=
  x.age ≤ U32 ∧ x.cols ≤ U32 ∧ x.rows ≤ U32 ∧ x.rows * x.cols = x.genes.length ∧
  (∀ g ∈ x.genes, g.ok io tab) ∧
  (if x.genes = [] then x.best = npos else x.best.1 ≤ U64 ∧ x.best.2 ≤ U64)

/-! ### team<i_mep> -/

def Team.save (io : FloatIO F) (t : List (IMep F)) : Str :=
  showNat t.length ++ '\n' :: t.flatMap (IMep.save io)

def Team.load (io : FloatIO F) (tab : SymTab) : P (List (IMep F)) := do
  let n ← readU U32
  if n = 0 then P.fail else readN (IMep.load io tab) n

def Team.ok (io : FloatIO F) (tab : SymTab) (t : List (IMep F)) : Prop :=
  t ≠ [] ∧ t.length ≤ U32 ∧ ∀ x ∈ t, x.ok io tab

/-! ### population<i_mep> (load as repaired by the `fix:` commit) -/

structure Layer (F : Type) where
  allowed : Nat
  inds : List (IMep F)

def Layer.save (io : FloatIO F) (l : Layer F) : Str :=
  showNat l.allowed ++ ' ' :: showNat l.inds.length ++ '\n' :: l.inds.flatMap (IMep.save io)

def Pop.save (io : FloatIO F) (p : List (Layer F)) : Str :=
  showNat p.length ++ '\n' :: p.flatMap (Layer.save io)

def Layer.load (io : FloatIO F) (tab : SymTab) : P (Layer F) := do
  let allowed ← readU U32
  let n ← readU U32
  if n > allowed then P.fail else do
    let inds ← readN (IMep.load io tab) n
    pure ⟨allowed, inds⟩

def Pop.load (io : FloatIO F) (tab : SymTab) : P (List (Layer F)) := do
  let n ← readU U32
  if n = 0 then P.fail else readN (Layer.load io tab) n

def Layer.ok (io : FloatIO F) (tab : SymTab) (l : Layer F) : Prop :=
  l.allowed ≤ U32 ∧ l.inds.length ≤ l.allowed ∧ ∀ x ∈ l.inds, x.ok io tab

def Pop.ok (io : FloatIO F) (tab : SymTab) (p : List (Layer F)) : Prop :=
  p ≠ [] ∧ p.length ≤ U32 ∧ ∀ l ∈ p, l.ok io tab

/-! ### summary<i_mep> -/

structure Best (F : Type) where
  solution : IMep F
  fitness : List F
  accuracy : F

structure Summary (F : Type) where
  best : Option (Best F)       -- `none` iff `best.solution.empty()`
  elapsed : Int                -- milliseconds
  mutations : Nat
  crossovers : Nat
  gen : Nat
  lastImp : Nat

def Summary.save (io : FloatIO F) (s : Summary F) : Str :=
  (match s.best with
   | none => ['0', '\n']
   | some b =>
     if b.solution.genes = [] then ['0', '\n']       -- `if (best.solution.empty()) out << "0\n";`
     else '1' :: '\n' :: IMep.save io b.solution ++ Fitness.save io b.fitness ++ io.fmt b.accuracy ++ ['\n']) ++
  showInt s.elapsed ++ ' ' :: showNat s.mutations ++ ' ' :: showNat s.crossovers ++ ' ' ::
    showNat s.gen ++ ' ' :: showNat s.lastImp ++ ['\n']

/-- `if (known_best) { tmp_ind.load; tmp_fitness.load; load_float_from_stream(accuracy) }` -/
def readKnownBest (io : FloatIO F) (tab : SymTab) (known : Nat) : P (Option (Best F)) := fun s =>
  if known = 0 then some (none, s)
  else match IMep.load io tab s with
    | none => none
    | some (ind, s1) => match Fitness.load io s1 with
      | none => none
      | some (fit, s2) => match readF io s2 with
        | none => none
        | some (acc, s3) => some (some ⟨ind, fit, acc⟩, s3)

def Summary.load (io : FloatIO F) (tab : SymTab) : P (Summary F) := do
  let known ← readU U32
  let best ← readKnownBest io tab known
  let ms ← readI I32
  let mutations ← readU U64
  let crossovers ← readU U64
  let gen ← readU U32
  let lastImp ← readU U32
  pure ⟨best, ms, mutations, crossovers, gen, lastImp⟩

def Summary.ok (io : FloatIO F) (tab : SymTab) (s : Summary F) : Prop :=
  (∀ b, s.best = some b → b.solution.genes ≠ [] ∧ b.solution.ok io tab ∧ Fitness.ok io b.fitness ∧
      io.finite b.accuracy = true) ∧
  -(I32 + 1 : Int) ≤ s.elapsed ∧ s.elapsed ≤ I32 ∧ s.mutations ≤ U64 ∧ s.crossovers ≤ U64 ∧
  s.gen ≤ U32 ∧ s.lastImp ≤ U32

end Vita.C11
