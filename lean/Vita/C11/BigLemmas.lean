import Vita.C11.Big
import Vita.C11.Lemmas
/-! Round-trip lemmas for the composite types. -/
namespace Vita.C11

variable {F : Type}

theorem Sep_itemsL' {α} (body : α → Str) (c : Char) (hc : isWs c = true) (xs : List α) (r : Str)
    (hr : Sep r) : Sep (itemsL body c xs ++ r) := by
  cases xs with
  | nil => simpa [itemsL] using hr
  | cons x xs => simp [itemsL, Sep, hc]

/-- separator-led items followed by any separator-started rest -/
theorem readN_itemsL' {α} (p : P α) (body : α → Str) (c : Char) (hc : isWs c = true)
    (hskip : ∀ s, p (c :: s) = p s) (xs : List α) (r : Str) (hr : Sep r)
    (hp : ∀ x ∈ xs, ∀ r', Sep r' → p (body x ++ r') = some (x, r')) :
    readN p xs.length (itemsL body c xs ++ r) = some (xs, r) := by
  induction xs with
  | nil => simp [readN, itemsL, P.pure_apply]
  | cons x xs ih =>
    have h1 := hp x (by simp) (itemsL body c xs ++ r) (Sep_itemsL' body c hc xs r hr)
    have h2 := ih (fun y hy => hp y (by simp [hy]))
    simp only [List.length_cons, readN, itemsL, List.flatMap_cons, List.cons_append,
      List.append_assoc, P.bind_apply, hskip] at h1 h2 ⊢
    rw [h1]
    simp only []
    rw [h2]
    rfl

/-- newline-terminated blocks, each read by a white-space-skipping parser that leaves the
    block's final newline unread -/
theorem readN_blocks {α} (p : P α) (sv : α → Str) (hskip : ∀ s, p ('\n' :: s) = p s)
    (xs : List α) (r : Str)
    (hp : ∀ x ∈ xs, ∀ r', p (sv x ++ r') = some (x, '\n' :: r')) :
    readN p xs.length ('\n' :: (xs.flatMap sv ++ r)) = some (xs, '\n' :: r) := by
  induction xs with
  | nil => simp [readN, P.pure_apply]
  | cons x xs ih =>
    have h1 := hp x (by simp) (xs.flatMap sv ++ r)
    have h2 := ih (fun y hy => hp y (by simp [hy]))
    simp only [List.length_cons, readN, List.flatMap_cons, List.append_assoc, P.bind_apply, hskip]
    rw [h1]
    simp only []
    rw [h2]
    rfl

/-! ### gene -/

theorem Gene.load_body (io : FloatIO F) (law : FloatLaw io) (tab : SymTab) (g : Gene F)
    (hk : g.ok io tab) (r : Str) (hr : Sep r) :
    Gene.load io tab (g.body io ++ r) = some (g, r) := by
  obtain ⟨hop, info, htab, hpar, hfin, hlen, hargs⟩ := hk
  obtain ⟨op, par, args⟩ := g
  simp only at hop htab hpar hfin hlen hargs
  have hA : ∀ r', Sep r' → readN (readU U16) info.arity (itemsL showNat ' ' args ++ r') = some (args, r') := by
    intro r' hr'
    rw [← hlen]
    exact readN_itemsL' (readU U16) showNat ' ' (by decide) (readU_sp U16) args r' hr'
      (fun a ha r'' hr'' => readU_showNat U16 a r'' (hargs a ha) hr'')
  have hsepA : ∀ r', Sep r' → Sep (itemsL showNat ' ' args ++ r') :=
    fun r' hr' => Sep_itemsL' showNat ' ' (by decide) args r' hr'
  cases par with
  | none =>
    have hp : info.hasPar = false := by simpa using hpar.symm
    simp only [Gene.load, Gene.body, P.bind_apply, List.append_assoc, List.nil_append]
    have hs0 := hsepA r hr
    simp only [itemsL] at hs0
    rw [readU_showNat _ _ _ hop hs0]
    simp only [htab, hp, optPar, Bool.false_eq_true, if_false, P.bind_apply]
    have := hA r hr
    simp only [itemsL] at this
    rw [this]
    rfl
  | some pv =>
    have hp : info.hasPar = true := by simpa using hpar.symm
    simp only [Gene.load, Gene.body, P.bind_apply, List.append_assoc, List.cons_append]
    rw [readU_showNat _ _ _ hop (by simp)]
    simp only [htab, hp, optPar, if_true, P.bind_apply, readF_sp]
    have hs := hsepA r hr
    simp only [itemsL] at hs
    rw [law.roundtrip pv _ (hfin pv rfl) hs]
    simp only []
    have := hA r hr
    simp only [itemsL] at this
    rw [this]
    rfl

theorem Gene.load_nl (io : FloatIO F) (tab : SymTab) (s : Str) :
    Gene.load io tab ('\n' :: s) = Gene.load io tab s := by
  simp [Gene.load, P.bind_apply]

/-! ### i_mep -/

theorem IMep.genes_nil_iff (x : IMep F) (h : x.rows * x.cols = x.genes.length) :
    x.genes = [] ↔ x.rows = 0 := by
  constructor
  · intro hg
    simp only [IMep.rows, hg, List.length_nil, Nat.zero_div, ite_self]
  · intro hr
    rw [hr] at h
    simp at h
    exact List.eq_nil_of_length_eq_zero h.symm

theorem IMep.load_save (io : FloatIO F) (law : FloatLaw io) (tab : SymTab) (x : IMep F)
    (hk : x.ok io tab) (r : Str) :
    IMep.load io tab (x.save io ++ r) = some (x, '\n' :: r) := by
  obtain ⟨hage, hcols, hrows, hsz, hg, hbest⟩ := hk
  have hnil := IMep.genes_nil_iff x hsz
  simp only [IMep.load, IMep.save, P.bind_apply, List.append_assoc, List.cons_append]
  rw [readU_showNat _ _ _ hage (by simp)]
  simp only [readU_nl]
  rw [readU_showNat _ _ _ hrows (by simp)]
  simp only [readU_sp]
  rw [readU_showNat _ _ _ hcols (by simp)]
  simp only [hsz]
  rw [readN_items (Gene.load io tab) (Gene.body io) '\n' (by decide) (Gene.load_nl io tab) x.genes _
    (fun g hg' r' hr' => Gene.load_body io law tab g (hg g hg') r' hr')]
  simp only []
  by_cases he : x.genes = []
  · have hr0 : x.rows = 0 := hnil.mp he
    simp only [he, if_true] at hbest ⊢
    simp only [hr0, readBest, if_true, P.pure_apply, List.nil_append]
    obtain ⟨age, cols, genes, best⟩ := x
    simp only at he hbest
    subst he; subst hbest
    rfl
  · have hr0 : x.rows ≠ 0 := fun h => he (hnil.mpr h)
    simp only [he, if_false] at hbest ⊢
    simp only [hr0, readBest, if_false, P.bind_apply, List.append_assoc, List.cons_append, readU_nl]
    rw [readU_showNat _ _ _ hbest.1 (by simp)]
    simp only [readU_sp]
    rw [readU_showNat _ _ _ hbest.2 (by simp)]
    rfl

theorem IMep.load_nl (io : FloatIO F) (tab : SymTab) (s : Str) :
    IMep.load io tab ('\n' :: s) = IMep.load io tab s := by
  simp [IMep.load, P.bind_apply]

/-! ### team -/

theorem Team.load_save (io : FloatIO F) (law : FloatLaw io) (tab : SymTab) (t : List (IMep F))
    (hk : Team.ok io tab t) (r : Str) :
    Team.load io tab (Team.save io t ++ r) = some (t, '\n' :: r) := by
  obtain ⟨hne, hlen, hx⟩ := hk
  simp only [Team.load, Team.save, P.bind_apply, List.append_assoc, List.cons_append]
  rw [readU_showNat _ _ _ hlen (by simp)]
  have : t.length ≠ 0 := fun h => hne (List.eq_nil_of_length_eq_zero h)
  simp only [this, if_false]
  exact readN_blocks (IMep.load io tab) (IMep.save io) (IMep.load_nl io tab) t r
    (fun x hx' r' => IMep.load_save io law tab x (hx x hx') r')

/-! ### population -/

theorem Layer.load_save (io : FloatIO F) (law : FloatLaw io) (tab : SymTab) (l : Layer F)
    (hk : l.ok io tab) (r : Str) :
    Layer.load io tab (l.save io ++ r) = some (l, '\n' :: r) := by
  obtain ⟨ha, hle, hx⟩ := hk
  have hn : l.inds.length ≤ U32 := Nat.le_trans hle ha
  simp only [Layer.load, Layer.save, P.bind_apply, List.append_assoc, List.cons_append]
  rw [readU_showNat _ _ _ ha (by simp)]
  simp only [readU_sp]
  rw [readU_showNat _ _ _ hn (by simp)]
  have : ¬ l.inds.length > l.allowed := by omega
  simp only [this, if_false, P.bind_apply]
  rw [readN_blocks (IMep.load io tab) (IMep.save io) (IMep.load_nl io tab) l.inds r
    (fun x hx' r' => IMep.load_save io law tab x (hx x hx') r')]
  rfl

theorem Layer.load_nl (io : FloatIO F) (tab : SymTab) (s : Str) :
    Layer.load io tab ('\n' :: s) = Layer.load io tab s := by
  simp [Layer.load, P.bind_apply]

theorem Pop.load_save (io : FloatIO F) (law : FloatLaw io) (tab : SymTab) (p : List (Layer F))
    (hk : Pop.ok io tab p) (r : Str) :
    Pop.load io tab (Pop.save io p ++ r) = some (p, '\n' :: r) := by
  obtain ⟨hne, hlen, hl⟩ := hk
  simp only [Pop.load, Pop.save, P.bind_apply, List.append_assoc, List.cons_append]
  rw [readU_showNat _ _ _ hlen (by simp)]
  have : p.length ≠ 0 := fun h => hne (List.eq_nil_of_length_eq_zero h)
  simp only [this, if_false]
  exact readN_blocks (Layer.load io tab) (Layer.save io) (Layer.load_nl io tab) p r
    (fun l hl' r' => Layer.load_save io law tab l (hl l hl') r')

/-! ### summary -/

theorem Fitness.load_nl (io : FloatIO F) (s : Str) :
    Fitness.load io ('\n' :: s) = Fitness.load io s := by
  simp [Fitness.load, P.bind_apply, getline]

theorem Summary.load_save (io : FloatIO F) (law : FloatLaw io) (tab : SymTab) (s : Summary F)
    (hk : s.ok io tab) (r : Str) :
    Summary.load io tab (s.save io ++ r) = some (s, '\n' :: r) := by
  obtain ⟨hb, he1, he2, hm, hc, hg, hl⟩ := hk
  have tail : ∀ (b : Option (Best F)),
      (do
        let ms ← readI I32
        let mutations ← readU U64
        let crossovers ← readU U64
        let gen ← readU U32
        let lastImp ← readU U32
        pure (⟨b, ms, mutations, crossovers, gen, lastImp⟩ : Summary F) : P (Summary F))
        ('\n' :: (showInt s.elapsed ++ ' ' :: (showNat s.mutations ++ ' ' :: (showNat s.crossovers ++ ' ' ::
          (showNat s.gen ++ ' ' :: (showNat s.lastImp ++ '\n' :: r))))))
        = some (⟨b, s.elapsed, s.mutations, s.crossovers, s.gen, s.lastImp⟩, '\n' :: r) := by
    intro b
    simp only [P.bind_apply, readI_nl]
    rw [readI_showInt _ _ _ he1 he2 (by simp)]
    simp only [readU_sp]
    rw [readU_showNat _ _ _ hm (by simp)]
    simp only [readU_sp]
    rw [readU_showNat _ _ _ hc (by simp)]
    simp only [readU_sp]
    rw [readU_showNat _ _ _ hg (by simp)]
    simp only [readU_sp]
    rw [readU_showNat _ _ _ hl (by simp)]
    rfl
  obtain ⟨best, elapsed, mutations, crossovers, gen, lastImp⟩ := s
  simp only at hb he1 he2 hm hc hg hl tail
  cases best with
  | none =>
    simp only [Summary.load, Summary.save, P.bind_apply, List.append_assoc, List.cons_append,
      List.nil_append]
    have h0 : readU U32 ('0' :: '\n' :: (showInt elapsed ++ ' ' :: (showNat mutations ++ ' ' ::
        (showNat crossovers ++ ' ' :: (showNat gen ++ ' ' :: (showNat lastImp ++ '\n' :: r))))))
        = some (0, '\n' :: (showInt elapsed ++ ' ' :: (showNat mutations ++ ' ' ::
        (showNat crossovers ++ ' ' :: (showNat gen ++ ' ' :: (showNat lastImp ++ '\n' :: r)))))) := by
      have := readU_showNat U32 0 ('\n' :: (showInt elapsed ++ ' ' :: (showNat mutations ++ ' ' ::
        (showNat crossovers ++ ' ' :: (showNat gen ++ ' ' :: (showNat lastImp ++ '\n' :: r))))))
        (by decide) (by simp)
      have e : showNat 0 = ['0'] := by rfl
      rw [e] at this
      exact this
    rw [h0]
    simp only [readKnownBest, if_true]
    exact tail none
  | some b =>
    obtain ⟨hne, hsol, hfit, hacc⟩ := hb b rfl
    simp only [Summary.load, Summary.save, hne, if_false, P.bind_apply, List.append_assoc, List.cons_append,
      List.nil_append]
    have h1 : ∀ rest, readU U32 ('1' :: '\n' :: rest) = some (1, '\n' :: rest) := by
      intro rest
      have := readU_showNat U32 1 ('\n' :: rest) (by decide) (by simp)
      have e : showNat 1 = ['1'] := by rfl
      rw [e] at this
      exact this
    rw [h1]
    simp only [readKnownBest, Nat.succ_ne_zero, if_false, IMep.load_nl]
    rw [IMep.load_save io law tab b.solution hsol]
    simp only [Fitness.load_nl]
    rw [Fitness.load_save io law b.fitness hfit]
    simp only []
    rw [law.roundtrip _ _ hacc (by simp)]
    exact tail (some b)

end Vita.C11
