import Vita.C11.Model
/-!
  C11 — the fitness cache (`src/kernel/cache.cc`): a direct-mapped table of `2^bits` slots,
  each `{hash, fitness, seal}`; a slot is live when its seal equals the cache's current seal
  (`clear()` increments the seal) and its hash is not the empty signature.

  `save` writes the seal, the number of live slots and the live slots in table order
  (as repaired by the `fix:` commit: the header used to count the slots of older seals too);
  `load` stores every slot read at `index(hash)` of the target table and adopts the seal.
-/
namespace Vita.C11

variable {F : Type}

structure Slot (F : Type) where
  hash : Hash
  fitness : List F
  sl : Nat

structure Cache (F : Type) where
  bits : Nat
  table : List (Slot F)
  sl : Nat

def Hash.isEmpty (h : Hash) : Bool := h.d0 == 0 && h.d1 == 0

/-- `h.data[0] & k_mask` with `k_mask = 2^bits - 1` -/
def slotIndex (bits : Nat) (h : Hash) : Nat := h.d0 % 2 ^ bits

def Slot.live (sl : Nat) (s : Slot F) : Bool := s.sl == sl && !s.hash.isEmpty

/-- `cache::find`: the stored fitness, or the empty fitness when the slot is stale / holds
    another key -/
def Cache.find (c : Cache F) (h : Hash) : List F :=
  match c.table[slotIndex c.bits h]? with
  | some s => if s.sl = c.sl ∧ s.hash = h then s.fitness else []
  | none => []

def Slot.save (io : FloatIO F) (s : Slot F) : Str := s.hash.save ++ Fitness.save io s.fitness

def Cache.save (io : FloatIO F) (c : Cache F) : Str :=
  showNat c.sl ++ ' ' :: '\n' :: showNat ((c.table.filter (Slot.live c.sl)).length) ++ '\n' ::
    (c.table.filter (Slot.live c.sl)).flatMap (Slot.save io)

/-- a freshly constructed `cache(bits)`: value-initialised slots (seal 0), current seal 1 -/
def Cache.fresh (bits : Nat) : Cache F :=
  ⟨bits, List.replicate (2 ^ bits) ⟨⟨0, 0⟩, [], 0⟩, 1⟩

def Slot.load (io : FloatIO F) : P (Hash × List F) := do
  let h ← Hash.load
  let f ← Fitness.load io
  pure (h, f)

/-- `cache::load` on the target `c0` -/
def Cache.loadInto (io : FloatIO F) (c0 : Cache F) : P (Cache F) := do
  let sl ← readU U32
  let n ← readU U64
  let slots ← readN (Slot.load io) n
  pure ⟨c0.bits, slots.foldl (fun t hf => t.set (slotIndex c0.bits hf.1) ⟨hf.1, hf.2, sl⟩) c0.table, sl⟩

/-- invariant of a cache reached by `insert` / `clear` / `clear(key)` from `cache(bits)`:
    table size, seal never 0, every live slot sits at the index of its own key and holds a
    loadable (non-empty, finite) fitness -/
def Cache.ok (io : FloatIO F) (c : Cache F) : Prop :=
  c.table.length = 2 ^ c.bits ∧ 1 ≤ c.sl ∧ c.sl ≤ U32 ∧ 2 ^ c.bits ≤ U64 ∧
  ∀ i s, c.table[i]? = some s → s.live c.sl = true →
    slotIndex c.bits s.hash = i ∧ s.hash.ok ∧ Fitness.ok io s.fitness

end Vita.C11

namespace Vita.C11
variable {F : Type}

/-! ### the operations that build a cache (cache.cc), for the reachability of `Cache.ok` -/

/-- `cache::insert` -/
def Cache.insert (c : Cache F) (h : Hash) (f : List F) : Cache F :=
  { c with table := c.table.set (slotIndex c.bits h) ⟨h, f, c.sl⟩ }

/-- `cache::clear()` -/
def Cache.clear (c : Cache F) : Cache F := { c with sl := c.sl + 1 }

/-- `cache::clear(key)`: `table_[index(h)].hash = hash_t();` -/
def Cache.clearKey (c : Cache F) (h : Hash) : Cache F :=
  { c with table := match c.table[slotIndex c.bits h]? with
      | some s => c.table.set (slotIndex c.bits h) { s with hash := ⟨0, 0⟩ }
      | none => c.table }

/-- `Cache.ok` strengthened so that it is preserved by `clear()`: no slot is newer than the cache -/
def Cache.Reach (io : FloatIO F) (c : Cache F) : Prop :=
  c.ok io ∧ ∀ s ∈ c.table, s.sl ≤ c.sl

end Vita.C11
