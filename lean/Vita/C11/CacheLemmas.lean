import Vita.C11.Cache
import Vita.C11.Lemmas
import Vita.C11.BigLemmas
/-! Round trip of the fitness cache. -/
namespace Vita.C11

variable {F : Type}

def dfltSlot : Slot F := ⟨⟨0, 0⟩, [], 0⟩

/-- what a reloaded table holds at a position: the live slot that was there, else a
    value-initialised slot -/
def keepLive (sl : Nat) (s : Slot F) : Slot F := if s.live sl then s else dfltSlot

theorem dflt_not_live (sl : Nat) (h : 1 ≤ sl) : (dfltSlot : Slot F).live sl = false := by
  simp [Slot.live, dfltSlot]
  omega

theorem live_keepLive (sl : Nat) (h : 1 ≤ sl) (s : Slot F) : (keepLive sl s).live sl = s.live sl := by
  unfold keepLive
  cases hl : s.live sl with
  | true => simp [hl]
  | false => simp [dflt_not_live sl h]

theorem filter_keepLive (sl : Nat) (h : 1 ≤ sl) (T : List (Slot F)) :
    (T.map (keepLive sl)).filter (Slot.live sl) = T.filter (Slot.live sl) := by
  induction T with
  | nil => rfl
  | cons s T ih =>
    simp only [List.map_cons, List.filter_cons, live_keepLive sl h]
    cases hl : s.live sl with
    | true => simp [ih, keepLive, hl]
    | false => simp [ih]

/-- writing a family of slots, each at its own index, into a table -/
theorem foldl_set_get (T : List (Slot F)) (idx : Slot F → Nat) (L : List (Slot F)) (D : List (Slot F))
    (hD : D.length = T.length) (hL : ∀ s ∈ L, T[idx s]? = some s) (i : Nat) :
    (L.foldl (fun t s => t.set (idx s) s) D)[i]? = if (∃ s ∈ L, idx s = i) then T[i]? else D[i]? := by
  induction L generalizing D with
  | nil => simp
  | cons s L ih =>
    simp only [List.foldl_cons]
    rw [ih (D.set (idx s) s) (by simpa using hD) (fun s' hs' => hL s' (by simp [hs']))]
    by_cases h1 : ∃ s' ∈ L, idx s' = i
    · have : ∃ s' ∈ s :: L, idx s' = i := by
        obtain ⟨s', hs', he⟩ := h1; exact ⟨s', by simp [hs'], he⟩
      rw [if_pos h1, if_pos this]
    · by_cases h2 : idx s = i
      · have h3 : ∃ s' ∈ s :: L, idx s' = i := ⟨s, by simp, h2⟩
        have hs := hL s (by simp)
        rw [h2] at hs
        have hlt : i < D.length := by
          rw [hD]
          cases hlt : decide (i < T.length) with
          | true => simpa using hlt
          | false =>
            have : T.length ≤ i := by simpa using hlt
            rw [List.getElem?_eq_none this] at hs
            cases hs
        rw [if_neg h1, if_pos h3, h2]
        rw [List.getElem?_set_self hlt, hs]
      · have h3 : ¬ ∃ s' ∈ s :: L, idx s' = i := by
          intro ⟨s', hs', he⟩
          simp at hs'
          rcases hs' with h | h
          · subst h; exact h2 he
          · exact h1 ⟨s', h, he⟩
        rw [if_neg h1, if_neg h3]
        rw [List.getElem?_set_ne h2]

theorem slot_eta (s : Slot F) (sl : Nat) (h : s.live sl = true) : (⟨s.hash, s.fitness, sl⟩ : Slot F) = s := by
  obtain ⟨a, b, c⟩ := s
  simp [Slot.live] at h
  simp [h.1]

/-- the table produced by `cache::load` on a fresh cache -/
theorem reload_table (io : FloatIO F) (c : Cache F) (hk : c.ok io) :
    ((c.table.filter (Slot.live c.sl)).map (fun s => (s.hash, s.fitness))).foldl
        (fun t hf => t.set (slotIndex c.bits hf.1) ⟨hf.1, hf.2, c.sl⟩)
        (List.replicate (2 ^ c.bits) (dfltSlot : Slot F))
      = c.table.map (keepLive c.sl) := by
  obtain ⟨hlen, hs1, _, _, hinv⟩ := hk
  rw [List.foldl_map]
  have hfold : ∀ (L : List (Slot F)) (D : List (Slot F)), (∀ s ∈ L, s.live c.sl = true) →
      L.foldl (fun t s => t.set (slotIndex c.bits (s.hash, s.fitness).1)
        ⟨(s.hash, s.fitness).1, (s.hash, s.fitness).2, c.sl⟩) D
      = L.foldl (fun t s => t.set (slotIndex c.bits s.hash) s) D := by
    intro L
    induction L with
    | nil => intro D _; rfl
    | cons s L ih =>
      intro D hl
      simp only [List.foldl_cons]
      rw [slot_eta s c.sl (hl s (by simp))]
      exact ih _ (fun s' hs' => hl s' (by simp [hs']))
  rw [hfold _ _ (fun s hs => (List.mem_filter.mp hs).2)]
  apply List.ext_getElem?
  intro i
  have hL : ∀ s ∈ c.table.filter (Slot.live c.sl), c.table[slotIndex c.bits s.hash]? = some s := by
    intro s hs
    obtain ⟨hm, hl⟩ := List.mem_filter.mp hs
    obtain ⟨j, hj⟩ := List.getElem?_of_mem hm
    have := (hinv j s hj hl).1
    rw [this]; exact hj
  rw [foldl_set_get c.table (fun s => slotIndex c.bits s.hash) _ _ (by simp [hlen]) hL i]
  rw [List.getElem?_map]
  cases hT : c.table[i]? with
  | none =>
    have hge : c.table.length ≤ i := by
      cases hlt : decide (i < c.table.length) with
      | true =>
        have : i < c.table.length := by simpa using hlt
        rw [List.getElem?_eq_getElem this] at hT; cases hT
      | false => simpa using hlt
    have hno : ¬ ∃ s ∈ c.table.filter (Slot.live c.sl), slotIndex c.bits s.hash = i := by
      intro ⟨s, hs, he⟩
      have := hL s hs
      rw [he, hT] at this; cases this
    rw [if_neg hno]
    simp only [Option.map_none]
    rw [List.getElem?_eq_none (by simpa [hlen] using hge)]
  | some s =>
    have hlt : i < 2 ^ c.bits := by
      rw [← hlen]
      cases hlt : decide (i < c.table.length) with
      | true => simpa using hlt
      | false =>
        have : c.table.length ≤ i := by simpa using hlt
        rw [List.getElem?_eq_none this] at hT; cases hT
    simp only [Option.map_some]
    cases hl : s.live c.sl with
    | true =>
      have hex : ∃ s' ∈ c.table.filter (Slot.live c.sl), slotIndex c.bits s'.hash = i :=
        ⟨s, List.mem_filter.mpr ⟨List.mem_of_getElem? hT, hl⟩, (hinv i s hT hl).1⟩
      rw [if_pos hex]
      simp [keepLive, hl]
    | false =>
      have hno : ¬ ∃ s' ∈ c.table.filter (Slot.live c.sl), slotIndex c.bits s'.hash = i := by
        intro ⟨s', hs', he⟩
        have := hL s' hs'
        rw [he, hT] at this
        cases this
        rw [(List.mem_filter.mp hs').2] at hl; cases hl
      rw [if_neg hno]
      simp only [keepLive, hl, Bool.false_eq_true, if_false]
      rw [List.getElem?_replicate]
      simp [hlt]

/-! parsing the slots -/

theorem Slot.load_save (io : FloatIO F) (law : FloatLaw io) (s : Slot F) (hh : s.hash.ok)
    (hf : Fitness.ok io s.fitness) (r : Str) :
    Slot.load io (s.save io ++ r) = some ((s.hash, s.fitness), r) := by
  simp only [Slot.load, Slot.save, P.bind_apply, List.append_assoc]
  rw [Hash.load_save s.hash hh]
  simp only [Fitness.load_nl]
  rw [Fitness.load_save io law s.fitness hf]
  rfl

theorem Slot.load_nl (io : FloatIO F) (s : Str) : Slot.load io ('\n' :: s) = Slot.load io s := by
  simp [Slot.load, Hash.load, P.bind_apply]

theorem readN_selfterm {α β} (p : P β) (sv : α → Str) (f : α → β) (xs : List α) (r : Str)
    (hp : ∀ x ∈ xs, ∀ r', p (sv x ++ r') = some (f x, r')) :
    readN p xs.length (xs.flatMap sv ++ r) = some (xs.map f, r) := by
  induction xs with
  | nil => simp [readN, P.pure_apply]
  | cons x xs ih =>
    have h1 := hp x (by simp) (xs.flatMap sv ++ r)
    have h2 := ih (fun y hy => hp y (by simp [hy]))
    simp only [List.length_cons, readN, List.flatMap_cons, List.append_assoc, P.bind_apply]
    rw [h1]
    simp only []
    rw [h2]
    rfl

theorem readN_nl {β} (p : P β) (hskip : ∀ s, p ('\n' :: s) = p s) (n : Nat) (s : Str) :
    readN p (n + 1) ('\n' :: s) = readN p (n + 1) s := by
  simp [readN, P.bind_apply, hskip]

end Vita.C11

namespace Vita.C11
variable {F : Type}

/-- `cache::load` of what `cache::save` wrote, into a fresh cache of the same size -/
theorem Cache.load_save (io : FloatIO F) (law : FloatLaw io) (c : Cache F) (hk : c.ok io) (r : Str) :
    ∃ rest, Cache.loadInto io (Cache.fresh c.bits) (c.save io ++ r)
      = some (⟨c.bits, c.table.map (keepLive c.sl), c.sl⟩, rest) := by
  have hk' := hk
  obtain ⟨hlen, hs1, hsU, hsz, hinv⟩ := hk
  have hcnt : (c.table.filter (Slot.live c.sl)).length ≤ U64 :=
    Nat.le_trans (List.length_filter_le _ _) (hlen ▸ hsz)
  have hslots : ∀ s ∈ c.table.filter (Slot.live c.sl), ∀ r', Slot.load io (s.save io ++ r')
      = some ((fun s : Slot F => (s.hash, s.fitness)) s, r') := by
    intro s hs r'
    obtain ⟨hm, hl⟩ := List.mem_filter.mp hs
    obtain ⟨j, hj⟩ := List.getElem?_of_mem hm
    obtain ⟨_, hh, hf⟩ := hinv j s hj hl
    exact Slot.load_save io law s hh hf r'
  have htab := reload_table io c hk'
  simp only [Cache.loadInto, Cache.save, Cache.fresh, P.bind_apply, List.append_assoc, List.cons_append]
  rw [readU_showNat _ _ _ hsU (by simp)]
  simp only [readU_sp, readU_nl]
  rw [readU_showNat _ _ _ hcnt (by simp)]
  simp only []
  cases hL : c.table.filter (Slot.live c.sl) with
  | nil =>
    rw [hL] at htab
    simp only [List.length_nil, readN, P.pure_apply, List.flatMap_nil, List.nil_append]
    refine ⟨'\n' :: r, ?_⟩
    simp only [List.map_nil, List.foldl_nil] at htab
    simp only [List.foldl_nil]
    rw [← htab]
    rfl
  | cons x xs =>
    rw [hL] at htab hslots
    have := readN_selfterm (Slot.load io) (Slot.save io) (fun s : Slot F => (s.hash, s.fitness)) (x :: xs) r hslots
    simp only [List.length_cons] at this ⊢
    rw [readN_nl (Slot.load io) (Slot.load_nl io), this]
    refine ⟨r, ?_⟩
    simp only [P.pure_apply]
    rw [← htab]
    rfl

/-- every lookup with a non-empty key gives the same answer in the reloaded cache -/
theorem find_reloaded (c : Cache F) (hs1 : 1 ≤ c.sl) (h : Hash) (hne : h.isEmpty = false) :
    Cache.find ⟨c.bits, c.table.map (keepLive c.sl), c.sl⟩ h = Cache.find c h := by
  unfold Cache.find
  simp only [List.getElem?_map]
  cases c.table[slotIndex c.bits h]? with
  | none => rfl
  | some s =>
    simp only [Option.map_some, keepLive]
    cases hl : s.live c.sl with
    | true => simp
    | false =>
      simp only [Bool.false_eq_true, if_false, dfltSlot]
      have h0 : ¬ (0 = c.sl ∧ (⟨0, 0⟩ : Hash) = h) := by omega
      simp only [h0, if_false]
      by_cases hc : s.sl = c.sl ∧ s.hash = h
      · obtain ⟨h1, h2⟩ := hc
        simp [Slot.live, h1, h2, hne] at hl
      · simp [hc]

/-- and it saves to the same bytes -/
theorem save_reloaded (io : FloatIO F) (c : Cache F) (hs1 : 1 ≤ c.sl) :
    Cache.save io ⟨c.bits, c.table.map (keepLive c.sl), c.sl⟩ = Cache.save io c := by
  simp only [Cache.save, filter_keepLive c.sl hs1]

end Vita.C11

namespace Vita.C11
variable {F : Type}

theorem Cache.reach_fresh (io : FloatIO F) (bits : Nat) (hb : 2 ^ bits ≤ U64) :
    (Cache.fresh bits : Cache F).Reach io := by
  refine ⟨⟨by simp [Cache.fresh], by simp [Cache.fresh], by simp [Cache.fresh, U32], hb, ?_⟩, ?_⟩
  · intro i s hs hl
    simp only [Cache.fresh] at hs hl
    have := List.mem_of_getElem? hs
    simp only [List.mem_replicate] at this
    rw [this.2] at hl
    simp [Slot.live] at hl
  · intro s hs
    simp only [Cache.fresh, List.mem_replicate] at hs
    rw [hs.2]; simp [Cache.fresh]

theorem Cache.reach_insert (io : FloatIO F) (c : Cache F) (hc : c.Reach io) (h : Hash) (f : List F)
    (hh : h.ok) (hf : Fitness.ok io f) : (c.insert h f).Reach io := by
  obtain ⟨⟨hlen, hs1, hsU, hsz, hinv⟩, hle⟩ := hc
  refine ⟨⟨by simp [Cache.insert, hlen], hs1, hsU, hsz, ?_⟩, ?_⟩
  · intro i s hs hl
    simp only [Cache.insert] at hs hl
    by_cases hi : slotIndex c.bits h = i
    · subst hi
      rw [List.getElem?_set_self (by rw [hlen]; exact Nat.mod_lt _ (Nat.pow_pos (by decide)))] at hs
      cases hs
      exact ⟨rfl, hh, hf⟩
    · rw [List.getElem?_set_ne hi] at hs
      exact hinv i s hs hl
  · intro s hs
    simp only [Cache.insert] at hs ⊢
    rcases List.mem_or_eq_of_mem_set hs with h1 | h1
    · exact hle s h1
    · subst h1; exact Nat.le_refl _

theorem Cache.reach_clear (io : FloatIO F) (c : Cache F) (hc : c.Reach io) (hlt : c.sl + 1 ≤ U32) :
    c.clear.Reach io := by
  obtain ⟨⟨hlen, hs1, hsU, hsz, hinv⟩, hle⟩ := hc
  refine ⟨⟨hlen, by simp [Cache.clear], hlt, hsz, ?_⟩, ?_⟩
  · intro i s hs hl
    simp only [Cache.clear] at hs hl
    have := hle s (List.mem_of_getElem? hs)
    simp [Slot.live] at hl
    omega
  · intro s hs
    have := hle s hs
    simp only [Cache.clear]; omega

theorem Cache.reach_clearKey (io : FloatIO F) (c : Cache F) (hc : c.Reach io) (h : Hash) :
    (c.clearKey h).Reach io := by
  obtain ⟨⟨hlen, hs1, hsU, hsz, hinv⟩, hle⟩ := hc
  unfold Cache.clearKey
  cases hg : c.table[slotIndex c.bits h]? with
  | none => exact ⟨⟨hlen, hs1, hsU, hsz, hinv⟩, hle⟩
  | some s0 =>
    refine ⟨⟨by simp [hlen], hs1, hsU, hsz, ?_⟩, ?_⟩
    · intro i s hs hl
      simp only at hs hl
      by_cases hi : slotIndex c.bits h = i
      · subst hi
        have hlt : slotIndex c.bits h < c.table.length := by
          cases hd : decide (slotIndex c.bits h < c.table.length) with
          | true => simpa using hd
          | false =>
            have : c.table.length ≤ slotIndex c.bits h := by simpa using hd
            rw [List.getElem?_eq_none this] at hg; cases hg
        rw [List.getElem?_set_self hlt] at hs
        cases hs
        simp [Slot.live, Hash.isEmpty] at hl
      · rw [List.getElem?_set_ne hi] at hs
        exact hinv i s hs hl
    · intro s hs
      simp only at hs ⊢
      rcases List.mem_or_eq_of_mem_set hs with h1 | h1
      · exact hle s h1
      · subst h1; exact hle s0 (List.mem_of_getElem? hg)

end Vita.C11
