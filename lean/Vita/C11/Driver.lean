import Vita.C11.DriverMore
def main : IO Unit := Vita.C11.Drv2.driverMain2
