import Vita.C11.DriverLib
def main : IO Unit := Vita.C11.Drv.driverMain
