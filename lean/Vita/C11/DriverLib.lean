import Vita.C11.Model
import Vita.C11.FloatImpl
/-!
  Line protocol of the C11 / C12 drivers (executable side of the model).

    save <type> <ints…>      -> <hex of the model's save> | bad-op
    load <type> <hex>        -> ok <ints…> | <hex of the unread rest>   or   fail

  Objects travel as flat lists of integers (doubles as their 64-bit patterns):
    hash  d0 d1                      fit  n b…            iga  age n g…        ide  age n b…
    mati/matu  cols n e…             dist count mean min max m2 n (key val)…
-/
namespace Vita.C11.Drv
open Vita.C11

def fio := FloatImpl.io

/-! hex -/
def hexDigit (n : Nat) : Char := if n < 10 then Char.ofNat (48 + n) else Char.ofNat (87 + n)
def toHex (s : Str) : String :=
  if s.isEmpty then "-" else String.ofList (s.flatMap fun c => [hexDigit (c.toNat / 16 % 16), hexDigit (c.toNat % 16)])
def hexVal (c : Char) : Option Nat :=
  if c.isDigit then some (c.toNat - 48)
  else if 'a' ≤ c ∧ c ≤ 'f' then some (c.toNat - 87) else none
def fromHexL : List Char → Option Str
  | [] => some []
  | a :: b :: t => do
    let x ← hexVal a; let y ← hexVal b; let r ← fromHexL t
    pure (Char.ofNat (x * 16 + y) :: r)
  | _ => none
def fromHex (s : String) : Option Str := if s == "-" then some [] else fromHexL s.toList

/-! integer-list codecs -/
abbrev D (α : Type) := List Int → Option (α × List Int)
def dInt : D Int | [] => none | x :: t => some (x, t)
def dNat : D Nat | [] => none | x :: t => if x < 0 then none else some (x.toNat, t)
def dN {α} (p : D α) : Nat → D (List α)
  | 0 => fun s => some ([], s)
  | n + 1 => fun s => match p s with
    | none => none
    | some (a, s') => match dN p n s' with
      | none => none
      | some (as, s'') => some (a :: as, s'')
def dList {α} (p : D α) : D (List α) := fun s => match dNat s with
  | none => none
  | some (n, s') => if n > s'.length then none else dN p n s'
def dEnd {α} (r : Option (α × List Int)) : Option α := match r with
  | some (a, []) => some a
  | _ => none

def nats (l : List Nat) : List Int := l.map Int.ofNat

def encHash (h : Hash) : List Int := [h.d0, h.d1]
def decHash : D Hash := fun s => match dNat s with
  | none => none
  | some (a, s) => match dNat s with
    | none => none
    | some (b, s) => some (⟨a, b⟩, s)
def encFit (f : List Nat) : List Int := (f.length : Int) :: nats f
def encIGa (x : IGa) : List Int := [(x.age : Int), (x.genome.length : Int)] ++ x.genome
def decIGa : D IGa := fun s => match dNat s with
  | none => none
  | some (a, s) => match dList dInt s with
    | none => none
    | some (g, s) => some (⟨a, g⟩, s)
def encIDe (x : IDe Nat) : List Int := [(x.age : Int), (x.genome.length : Int)] ++ nats x.genome
def decIDe : D (IDe Nat) := fun s => match dNat s with
  | none => none
  | some (a, s) => match dList dNat s with
    | none => none
    | some (g, s) => some (⟨a, g⟩, s)
def encMat (m : Matrix) : List Int := [(m.cols : Int), (m.data.length : Int)] ++ m.data
def decMat : D Matrix := fun s => match dNat s with
  | none => none
  | some (c, s) => match dList dInt s with
    | none => none
    | some (d, s) => some (⟨c, d⟩, s)
def encDist (d : Dist Nat) : List Int :=
  nats [d.count, d.mean, d.min, d.max, d.m2, d.seen.length] ++ d.seen.flatMap (fun kv => nats [kv.1, kv.2])
def decDist : D (Dist Nat) := fun s => match dN dNat 5 s with
  | some ([c, m, mn, mx, m2], s) =>
    match dList (fun s => match dNat s with
        | none => none
        | some (k, s) => match dNat s with
          | none => none
          | some (v, s) => some ((k, v), s)) s with
    | none => none
    | some (kvs, s) => some (⟨c, m, mn, mx, m2, kvs⟩, s)
  | _ => none

/-- model `save` of the object described by `ints` -/
def doSave (ty : String) (ints : List Int) : Option Str :=
  match ty with
  | "hash" => (dEnd (decHash ints)).map Hash.save
  | "fit" => (dEnd (dList dNat ints)).map (Fitness.save fio)
  | "iga" => (dEnd (decIGa ints)).map IGa.save
  | "ide" => (dEnd (decIDe ints)).map (IDe.save fio)
  | "mati" => (dEnd (decMat ints)).map Matrix.save
  | "matu" => (dEnd (decMat ints)).map Matrix.save
  | "dist" => (dEnd (decDist ints)).map (Dist.save fio)
  | _ => none

def fin {α} (enc : α → List Int) (r : Option (α × Str)) : String :=
  match r with
  | none => "fail"
  | some (x, rest) => "ok " ++ " ".intercalate ((enc x).map toString) ++ " | " ++ toHex rest

/-- model `load` on a byte string -/
def doLoad (ty : String) (s : Str) : Option String :=
  match ty with
  | "hash" => some (fin encHash (Hash.load s))
  | "fit" => some (fin encFit (Fitness.load fio s))
  | "iga" => some (fin encIGa (IGa.load s))
  | "ide" => some (fin encIDe (IDe.load fio s))
  | "mati" => some (fin encMat (Matrix.load .i32 s))
  | "matu" => some (fin encMat (Matrix.load .u32 s))
  | "dist" => some (fin encDist (Dist.load fio s))
  | _ => none

def answer (line : String) : String :=
  match (line.trimAscii.toString.splitOn " ").filter (· ≠ "") with
  | "save" :: ty :: rest =>
    match rest.mapM String.toInt? with
    | none => "bad-op"
    | some ints => match doSave ty ints with
      | none => "bad-op"
      | some s => toHex s
  | ["load", ty, hx] =>
    match fromHex hx with
    | none => "bad-op"
    | some s => (doLoad ty s).getD "bad-op"
  | ["fmt", b] => match b.toNat? with
    | some n => toHex (FloatImpl.fmt17 n)
    | none => "bad-op"
  | ["strtod", hx] => match fromHex hx with
    | some s => match readF fio s with
      | some (v, rest) => s!"ok {v} | {toHex rest}"
      | none => "fail"
    | none => "bad-op"
  | _ => "bad-op"

partial def loop (h : IO.FS.Stream) (out : IO.FS.Stream) : IO Unit := do
  let line ← h.getLine
  if line.isEmpty then return ()
  out.putStrLn (answer line)
  loop h out

def driverMain : IO Unit := do
  loop (← IO.getStdin) (← IO.getStdout)

end Vita.C11.Drv
