import Vita.C11.Model
import Vita.C11.Big
import Vita.C11.Cache
import Vita.C11.Lambda
import Vita.C11.FloatImpl
/-!
  Line protocol of the C11 / C12 drivers (executable side of the model).

    save <type> <ints…>      -> <hex of the model's save> | bad-op
    load <type> <hex>        -> ok <ints…> | <hex of the unread rest>   or   fail
    resave lam <hex> <ctx…>  -> ok <hex of save (load bytes)>                 or   fail

  Objects travel as flat lists of integers (doubles as their 64-bit patterns):
    hash  d0 d1                      fit  n b…            iga  age n g…        ide  age n b…
    mati/matu  cols n e…             dist count mean min max m2 n (key val)…
    imep/team/pop/summ: see harness/c11_big.h; `load` takes the symbol table
    `nsym (opcode hasPar arity)*` as trailing context integers
-/
namespace Vita.C11.Drv
open Vita.C11

def fio := FloatImpl.io

/-! hex -/
def hexDigit (n : Nat) : Char := if n < 10 then Char.ofNat (48 + n) else Char.ofNat (87 + n)
def toHex (s : Str) : String :=
  if s.isEmpty then "-" else String.ofList (s.flatMap fun c => [hexDigit (c.toNat / 16 % 16), hexDigit (c.toNat % 16)])
def hexVal (c : Char) : Option Nat :=
  if c.isDigit then some (c.toNat - 48)
  else if 'a' ≤ c ∧ c ≤ 'f' then some (c.toNat - 87) else none
def fromHexL : List Char → Option Str
  | [] => some []
  | a :: b :: t => do
    let x ← hexVal a; let y ← hexVal b; let r ← fromHexL t
    pure (Char.ofNat (x * 16 + y) :: r)
  | _ => none
def fromHex (s : String) : Option Str := if s == "-" then some [] else fromHexL s.toList

/-! integer-list codecs -/
abbrev D (α : Type) := List Int → Option (α × List Int)
def dInt : D Int | [] => none | x :: t => some (x, t)
def dNat : D Nat | [] => none | x :: t => if x < 0 then none else some (x.toNat, t)
def dN {α} (p : D α) : Nat → D (List α)
  | 0 => fun s => some ([], s)
  | n + 1 => fun s => match p s with
    | none => none
    | some (a, s') => match dN p n s' with
      | none => none
      | some (as, s'') => some (a :: as, s'')
def dList {α} (p : D α) : D (List α) := fun s => match dNat s with
  | none => none
  | some (n, s') => if n > s'.length then none else dN p n s'
def dEnd {α} (r : Option (α × List Int)) : Option α := match r with
  | some (a, []) => some a
  | _ => none

def nats (l : List Nat) : List Int := l.map Int.ofNat

def encHash (h : Hash) : List Int := [h.d0, h.d1]
def decHash : D Hash := fun s => match dNat s with
  | none => none
  | some (a, s) => match dNat s with
    | none => none
    | some (b, s) => some (⟨a, b⟩, s)
def encFit (f : List Nat) : List Int := (f.length : Int) :: nats f
def encIGa (x : IGa) : List Int := [(x.age : Int), (x.genome.length : Int)] ++ x.genome
def decIGa : D IGa := fun s => match dNat s with
  | none => none
  | some (a, s) => match dList dInt s with
    | none => none
    | some (g, s) => some (⟨a, g⟩, s)
def encIDe (x : IDe Nat) : List Int := [(x.age : Int), (x.genome.length : Int)] ++ nats x.genome
def decIDe : D (IDe Nat) := fun s => match dNat s with
  | none => none
  | some (a, s) => match dList dNat s with
    | none => none
    | some (g, s) => some (⟨a, g⟩, s)
def encMat (m : Matrix) : List Int := [(m.cols : Int), (m.data.length : Int)] ++ m.data
def decMat : D Matrix := fun s => match dNat s with
  | none => none
  | some (c, s) => match dList dInt s with
    | none => none
    | some (d, s) => some (⟨c, d⟩, s)
def encDist (d : Dist Nat) : List Int :=
  nats [d.count, d.mean, d.min, d.max, d.m2, d.seen.length] ++ d.seen.flatMap (fun kv => nats [kv.1, kv.2])
def decDist : D (Dist Nat) := fun s => match dN dNat 5 s with
  | some ([c, m, mn, mx, m2], s) =>
    match dList (fun s => match dNat s with
        | none => none
        | some (k, s) => match dNat s with
          | none => none
          | some (v, s) => some ((k, v), s)) s with
    | none => none
    | some (kvs, s) => some (⟨c, m, mn, mx, m2, kvs⟩, s)
  | _ => none


/-! composite types -/
instance : Monad D where
  pure a := fun s => some (a, s)
  bind p f := fun s => match p s with
    | none => none
    | some (a, s') => f a s'

def dGene : D (Gene Nat) := do
  let op ← dNat; let hp ← dNat; let par ← dNat; let args ← dList dNat
  pure ⟨op, if hp = 0 then none else some par, args⟩
def dIMep : D (IMep Nat) := do
  let age ← dNat; let cols ← dNat; let genes ← dList dGene; let bi ← dNat; let bc ← dNat
  pure ⟨age, cols, genes, (bi, bc)⟩
def dLayer : D (Layer Nat) := do
  let a ← dNat; let inds ← dList dIMep
  pure ⟨a, inds⟩
def dSumm : D (Summary Nat) := do
  let known ← dNat
  let best ← (if known = 0 then (pure none : D (Option (Best Nat))) else do
    let sol ← dIMep; let fit ← dList dNat; let acc ← dNat
    pure (some ⟨sol, fit, acc⟩))
  let el ← dInt; let mu ← dNat; let cr ← dNat; let g ← dNat; let li ← dNat
  pure ⟨best, el, mu, cr, g, li⟩

def encGene (g : Gene Nat) : List Int :=
  [(g.op : Int), if g.par.isSome then 1 else 0, ((g.par.getD 0 : Nat) : Int), (g.args.length : Int)] ++ nats g.args
def encIMep (x : IMep Nat) : List Int :=
  [(x.age : Int), (x.cols : Int), (x.genes.length : Int)] ++ x.genes.flatMap encGene ++ [(x.best.1 : Int), (x.best.2 : Int)]
def encTeam (t : List (IMep Nat)) : List Int := (t.length : Int) :: t.flatMap encIMep
def encPop (p : List (Layer Nat)) : List Int :=
  (p.length : Int) :: p.flatMap (fun l => [(l.allowed : Int), (l.inds.length : Int)] ++ l.inds.flatMap encIMep)
def encSumm (s : Summary Nat) : List Int :=
  (match s.best with
   | none => [0]
   | some b => if b.solution.genes.isEmpty then [0] else
       [1] ++ encIMep b.solution ++ encFit b.fitness ++ [(b.accuracy : Int)]) ++
  [s.elapsed, (s.mutations : Int), (s.crossovers : Int), (s.gen : Int), (s.lastImp : Int)]


/-! cache: `bits sl nlive (position d0 d1 fitness)*` -/
def dCache : D (Cache Nat) := do
  let bits ← dNat; let sl ← dNat
  let slots ← dList (do
    let pos ← dNat; let h ← decHash; let f ← dList dNat
    pure (pos, (⟨h, f, sl⟩ : Slot Nat)) : D (Nat × Slot Nat))
  pure ⟨bits, slots.foldl (fun t ps => t.set ps.1 ps.2) (List.replicate (2 ^ bits) ⟨⟨0, 0⟩, [], 0⟩), sl⟩
def encCacheGo (sl : Nat) : List (Slot Nat) → Nat → List Int
  | [], _ => []
  | s :: t, i => (if s.live sl then [(i : Int)] ++ encHash s.hash ++ encFit s.fitness else []) ++ encCacheGo sl t (i + 1)
def encCache (c : Cache Nat) : List Int :=
  [(c.bits : Int), (c.sl : Int), ((c.table.filter (Slot.live c.sl)).length : Int)] ++ encCacheGo c.sl c.table 0


/-! trained models (see harness/c11_lambda.h) -/
def dName : D Str := do
  let cs ← dList dNat
  pure (cs.map Char.ofNat)
def dDynPart : D DynPart := do
  let m ← decMat; let sc ← dList dNat; let ds ← dNat
  pure ⟨m, sc, ds⟩
def dLambda : D (Lambda Nat) := do
  let kind ← dNat
  match kind with
  | 0 => do let i ← dIMep; pure (.reg i)
  | 1 => do let i ← dIMep; let d ← dDynPart; let n ← dList dName; pure (.dyn i d n)
  | 2 => do let i ← dIMep; let d ← dList decDist; let n ← dList dName; pure (.gauss i d n)
  | 3 => do let i ← dIMep; let n ← dList dName; pure (.binary i n)
  | 4 => do let ms ← dList dIMep; pure (.teamReg ms)
  | 5 => do
    let c ← dNat
    let ms ← dList (do let i ← dIMep; let d ← dDynPart; pure (i, d) : D (IMep Nat × DynPart))
    let n ← dList dName
    pure (.teamDyn c ms n)
  | 6 => do
    let c ← dNat
    let ms ← dList (do let i ← dIMep; let d ← dList decDist; pure (i, d) : D (IMep Nat × List (Dist Nat)))
    let n ← dList dName
    pure (.teamGauss c ms n)
  | 7 => do let c ← dNat; let ms ← dList dIMep; let n ← dList dName; pure (.teamBinary c ms n)
  | _ => fun _ => none

def encNames (ns : List Str) : List Int :=
  (ns.length : Int) :: ns.flatMap (fun n => (n.length : Int) :: n.map (fun c => (c.toNat : Int)))
def encDynPart (d : DynPart) : List Int :=
  encMat d.slotMatrix ++ [(d.slotClass.length : Int)] ++ nats d.slotClass ++ [(d.datasetSize : Int)]
def encDists (ds : List (Dist Nat)) : List Int := (ds.length : Int) :: ds.flatMap encDist
def encLambda : Lambda Nat → List Int
  | .reg i => [0] ++ encIMep i
  | .dyn i d n => [1] ++ encIMep i ++ encDynPart d ++ encNames n
  | .gauss i d n => [2] ++ encIMep i ++ encDists d ++ encNames n
  | .binary i n => [3] ++ encIMep i ++ encNames n
  | .teamReg ms => [4] ++ encTeam ms
  | .teamDyn c ms n => [5, (c : Int), (ms.length : Int)] ++ ms.flatMap (fun m => encIMep m.1 ++ encDynPart m.2) ++ encNames n
  | .teamGauss c ms n => [6, (c : Int), (ms.length : Int)] ++ ms.flatMap (fun m => encIMep m.1 ++ encDists m.2) ++ encNames n
  | .teamBinary c ms n => [7, (c : Int), (ms.length : Int)] ++ ms.flatMap encIMep ++ encNames n

/-- symbol table context: `nsym (opcode hasPar arity)*` -/
def decTab (ctx : List Int) : SymTab :=
  match dEnd (dList (do let op ← dNat; let hp ← dNat; let ar ← dNat; pure (op, (⟨hp != 0, ar⟩ : SymInfo)) : D (Nat × SymInfo)) ctx) with
  | none => fun _ => none
  | some l => fun op => (l.find? (fun e => e.1 == op)).map (·.2)

/-- model `save` of the object described by `ints` -/
def doSave (ty : String) (ints : List Int) : Option Str :=
  match ty with
  | "hash" => (dEnd (decHash ints)).map Hash.save
  | "fit" => (dEnd (dList dNat ints)).map (Fitness.save fio)
  | "iga" => (dEnd (decIGa ints)).map IGa.save
  | "ide" => (dEnd (decIDe ints)).map (IDe.save fio)
  | "mati" => (dEnd (decMat ints)).map Matrix.save
  | "matu" => (dEnd (decMat ints)).map Matrix.save
  | "dist" => (dEnd (decDist ints)).map (Dist.save fio)
  | "imep" => (dEnd (dIMep ints)).map (IMep.save fio)
  | "team" => (dEnd (dList dIMep ints)).map (Team.save fio)
  | "pop" => (dEnd (dList dLayer ints)).map (Pop.save fio)
  | "summ" => (dEnd (dSumm ints)).map (Summary.save fio)
  | "cache" => (dEnd (dCache ints)).map (Cache.save fio)
  | "lam" => (dEnd (dLambda ints)).map (Lambda.save fio)
  | _ => none

def fin {α} (enc : α → List Int) (r : Option (α × Str)) : String :=
  match r with
  | none => "fail"
  | some (x, rest) => "ok " ++ " ".intercalate ((enc x).map toString) ++ " | " ++ toHex rest

/-- model `load` on a byte string -/
def doLoad (ty : String) (s : Str) (ctx : List Int := []) : Option String :=
  match ty with
  | "imep" => some (fin encIMep (IMep.load fio (decTab ctx) s))
  | "team" => some (fin encTeam (Team.load fio (decTab ctx) s))
  | "pop" => some (fin encPop (Pop.load fio (decTab ctx) s))
  | "summ" => some (fin encSumm (Summary.load fio (decTab ctx) s))
  | "lam" => some (fin encLambda (Lambda.load fio (decTab ctx) s))
  | "cache" => match ctx with         -- context: the `bits` of the fresh target cache
    | [b] => if b < 0 ∨ b > 20 then none else some (fin encCache (Cache.loadInto fio (Cache.fresh b.toNat) s))
    | _ => none
  | "hash" => some (fin encHash (Hash.load s))
  | "fit" => some (fin encFit (Fitness.load fio s))
  | "iga" => some (fin encIGa (IGa.load s))
  | "ide" => some (fin encIDe (IDe.load fio s))
  | "mati" => some (fin encMat (Matrix.load .i32 s))
  | "matu" => some (fin encMat (Matrix.load .u32 s))
  | "dist" => some (fin encDist (Dist.load fio s))
  | _ => none

def answer (line : String) : String :=
  match (line.trimAscii.toString.splitOn " ").filter (· ≠ "") with
  | "save" :: ty :: rest =>
    match rest.mapM String.toInt? with
    | none => "bad-op"
    | some ints => match doSave ty ints with
      | none => "bad-op"
      | some s => toHex s
  | "load" :: ty :: hx :: ctx =>
    match fromHex hx, ctx.mapM String.toInt? with
    | some s, some c => (doLoad ty s c).getD "bad-op"
    | _, _ => "bad-op"
  | "resave" :: "lam" :: hx :: ctx =>
    match fromHex hx, ctx.mapM String.toInt? with
    | some s, some c => match Lambda.load fio (decTab c) s with
      | none => "fail"
      | some (x, _) => "ok " ++ toHex (Lambda.save fio x)
    | _, _ => "bad-op"
  | ["fmt", b] => match b.toNat? with
    | some n => toHex (FloatImpl.fmt17 n)
    | none => "bad-op"
  | ["strtod", hx] => match fromHex hx with
    | some s => match readF fio s with
      | some (v, rest) => s!"ok {v} | {toHex rest}"
      | none => "fail"
    | none => "bad-op"
  | _ => "bad-op"

partial def loop (h : IO.FS.Stream) (out : IO.FS.Stream) : IO Unit := do
  let line ← h.getLine
  if line.isEmpty then return ()
  out.putStrLn (answer line)
  loop h out

def driverMain : IO Unit := do
  loop (← IO.getStdin) (← IO.getStdout)

end Vita.C11.Drv
