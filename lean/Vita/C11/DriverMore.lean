import Vita.C11.DriverLib
import Vita.C11.Generic
import Vita.C11.MatrixG
import Vita.C11.Proxy
import Vita.C11.Factory
/-!
  Round-3 additions to the line protocol of the C11 driver (everything `DriverLib.answer` knows is kept):

    save/load matl|matul|mats|matus|matc|matsc|matuc     cols n e…
    save/load teamga | popga | popde | summga | summde   (see harness/c11_more.h)
    save/load proxy   persist count cache                 load context: bits persist
    save/load search  named bits persist count cache      load context: named bits
    save/load flt     bits
    factory n (team kind)*        -> one character per call: 1 = the model is loaded, 0 = nullptr
-/
namespace Vita.C11.Drv2
open Vita.C11 Vita.C11.Drv

def matKind : String → Option IntKind
  | "mati" => some (.sint I32) | "matu" => some (.uint U32)
  | "matl" => some (.sint I64) | "matul" => some (.uint U64)
  | "mats" => some (.sint I16) | "matus" => some (.uint U16)
  | "matc" => some (.sint I8) | "matsc" => some (.sint I8) | "matuc" => some (.uint U8)
  | _ => none

def dLayerOf {X} (p : D X) : D (LayerOf X) := do
  let a ← dNat; let inds ← dList p
  pure ⟨a, inds⟩

def dSummOf {X} (p : D X) : D (SummaryOf X Nat) := do
  let known ← dNat
  let best ← (if known = 0 then (pure none : D (Option (BestOf X Nat))) else do
    let sol ← p; let fit ← dList dNat; let acc ← dNat
    pure (some ⟨sol, fit, acc⟩))
  let el ← dInt; let mu ← dNat; let cr ← dNat; let g ← dNat; let li ← dNat
  pure ⟨best, el, mu, cr, g, li⟩

def encTeamOf {X} (enc : X → List Int) (t : List X) : List Int := (t.length : Int) :: t.flatMap enc
def encPopOf {X} (enc : X → List Int) (p : List (LayerOf X)) : List Int :=
  (p.length : Int) :: p.flatMap (fun l => [(l.allowed : Int), (l.inds.length : Int)] ++ l.inds.flatMap enc)
def encSummOf {X} (enc : X → List Int) (isEmpty : X → Bool) (s : SummaryOf X Nat) : List Int :=
  (match s.best with
   | none => [0]
   | some b => if isEmpty b.solution then [0] else
       [1] ++ enc b.solution ++ encFit b.fitness ++ [(b.accuracy : Int)]) ++
  [s.elapsed, (s.mutations : Int), (s.crossovers : Int), (s.gen : Int), (s.lastImp : Int)]

def evaOf (persist count : Nat) : EvaSer := if persist = 0 then EvaSer.base else EvaSer.counter count

def dProxy : D (Nat × Nat × Cache Nat) := do
  let persist ← dNat; let count ← dNat; let c ← dCache
  pure (persist, count, c)

def cfgOf (named bits : Nat) : SearchCfg := ⟨if named = 0 then [] else ['f'], bits⟩

def doSave2 (ty : String) (ints : List Int) : Option Str :=
  match matKind ty with
  | some _ => (dEnd (decMat ints)).map Matrix.save
  | none =>
  match ty with
  | "teamga" => (dEnd (dList decIGa ints)).map (TeamOf.save igaSer)
  | "popga" => (dEnd (dList (dLayerOf decIGa) ints)).map (PopOf.save igaSer)
  | "popde" => (dEnd (dList (dLayerOf decIDe) ints)).map (PopOf.save (ideSer fio))
  | "summga" => (dEnd (dSummOf decIGa ints)).map (SummaryOf.save fio igaSer)
  | "summde" => (dEnd (dSummOf decIDe ints)).map (SummaryOf.save fio (ideSer fio))
  | "proxy" => (dEnd (dProxy ints)).map fun (p, n, c) => Proxy.save fio (evaOf p n) c
  | "search" => match ints with
    | named :: bits :: rest => (dEnd (dProxy rest)).map fun (p, n, c) =>
        ((Search.save fio (cfgOf named.toNat bits.toNat) true (evaOf p n) c).2).getD []
    | _ => none
  | "flt" => match ints with
    | [b] => if b < 0 then none else some (fio.fmt b.toNat ++ ['\n'])
    | _ => none
  | _ => doSave ty ints

def doLoad2 (ty : String) (s : Str) (ctx : List Int) : Option String :=
  match matKind ty with
  | some k => some (fin encMat (MatrixG.load k s))
  | none =>
  match ty with
  | "teamga" => some (fin (encTeamOf encIGa) (TeamOf.load igaSer s))
  | "popga" => some (fin (encPopOf encIGa) (PopOf.load igaSer s))
  | "popde" => some (fin (encPopOf encIDe) (PopOf.load (ideSer fio) s))
  | "summga" => some (fin (encSummOf encIGa igaSer.isEmpty) (SummaryOf.load fio igaSer s))
  | "summde" => some (fin (encSummOf encIDe (ideSer fio).isEmpty) (SummaryOf.load fio (ideSer fio) s))
  | "proxy" => match ctx with
    | [b, p] =>
      if b < 0 ∨ b > 20 then none
      else if p = 0 then
        some (fin (fun c => [0, 0] ++ encCache c) (Proxy.loadInto fio EvaSer.base (Cache.fresh b.toNat) s))
      else match readU U64 s with
        | none => some "fail"
        | some (n, _) =>
          some (fin (fun c => [1, (n : Int)] ++ encCache c) (Proxy.loadInto fio (EvaSer.counter n) (Cache.fresh b.toNat) s))
    | _ => none
  | "search" => match ctx with
    | [named, b] =>
      if b < 0 ∨ b > 20 then none
      else match Search.load fio (cfgOf named.toNat b.toNat) (some s) EvaSer.base (Cache.fresh b.toNat) with
        | none => some "fail"
        | some c => some ("ok " ++ " ".intercalate (([named, b, 0, 0] ++ encCache c).map toString) ++ " | -")
    | _ => none
  | "flt" => some (fin (fun (b : Nat) => [(b : Int)]) (readF fio s))
  | _ => doLoad ty s ctx

def kindSid : Nat → Str
  | 0 => idReg | 1 => idDyn | 2 => idGauss | 3 => idBinary
  | 4 => idTeam idReg | 5 => idTeam idDyn | 6 => idTeam idGauss | _ => idTeam idBinary

/-- outcomes of a history of `load<T>` calls starting from the empty factory -/
def factoryRun : List Int → List Str → String
  | t :: k :: rest, fs =>
    let fs' := Factory.register (t != 0) fs
    (if kindSid k.toNat ∈ fs' then "1" else "0") ++ factoryRun rest fs'
  | _, _ => ""

def answer2 (line : String) : String :=
  match (line.trimAscii.toString.splitOn " ").filter (· ≠ "") with
  | "save" :: ty :: rest =>
    match rest.mapM String.toInt? with
    | none => "bad-op"
    | some ints => match doSave2 ty ints with
      | none => "bad-op"
      | some s => toHex s
  | "load" :: ty :: hx :: ctx =>
    match fromHex hx, ctx.mapM String.toInt? with
    | some s, some c => (doLoad2 ty s c).getD "bad-op"
    | _, _ => "bad-op"
  | "factory" :: _ :: calls =>
    match calls.mapM String.toInt? with
    | some cs => "ok " ++ factoryRun cs []
    | none => "bad-op"
  | _ => answer line

partial def loop2 (h : IO.FS.Stream) (out : IO.FS.Stream) : IO Unit := do
  let line ← h.getLine
  if line.isEmpty then return ()
  out.putStrLn (answer2 line)
  loop2 h out

def driverMain2 : IO Unit := do
  loop2 (← IO.getStdin) (← IO.getStdout)

end Vita.C11.Drv2
