import Vita.C11.Lambda
import Vita.C11.LambdaLemmas
/-!
  C11 — the factory behind `serialize::lambda::load<T>` (gp/src/lambda_f.tcc).

  The factory is one process-wide `std::map<std::string, build_func>`.  `load<T>` first looks for
  `reg_lambda_f<T>::SERIALIZE_ID`; when it is missing the four ids of `T` are inserted
  (`T = i_mep`: `REG_…`, `DYN_SLOT_…`, `GAUSSIAN_…`, `BINARY_LAMBDA_F`; `T = team<i_mep>`: the same with
  the `TEAM_` prefix), then the id word is read and looked up; an unknown id gives `nullptr`.
  So what a call can load depends on the history of the calls made before it in the process: the state
  of the factory is the set of registered ids (`std::map::insert` never replaces an entry, and in the
  closed world of the eight library classes an id determines its constructor).
-/
namespace Vita.C11

variable {F : Type}

def Lambda.isTeam : Lambda F → Bool
  | .reg _ | .dyn .. | .gauss .. | .binary .. => false
  | _ => true

/-- the `SERIALIZE_ID` written by `serialize::save` -/
def Lambda.sid : Lambda F → Str
  | .reg _ => idReg
  | .dyn .. => idDyn
  | .gauss .. => idGauss
  | .binary .. => idBinary
  | .teamReg _ => idTeam idReg
  | .teamDyn .. => idTeam idDyn
  | .teamGauss .. => idTeam idGauss
  | .teamBinary .. => idTeam idBinary

def plainIds : List Str := [idReg, idDyn, idGauss, idBinary]
def teamIds : List Str := plainIds.map idTeam
def groupIds (team : Bool) : List Str := if team then teamIds else plainIds
def groupKey (team : Bool) : Str := if team then idTeam idReg else idReg

/-- the registration step of `load<T>` -/
def Factory.register (team : Bool) (fs : List Str) : List Str :=
  if groupKey team ∈ fs then fs else groupIds team ++ fs

/-- `serialize::lambda::load<T>(in, ss)` in a process whose factory holds `fs`:
    the factory afterwards, and the model loaded (`none`: `nullptr` / `exception::data_format`) -/
def Factory.load (io : FloatIO F) (tab : SymTab) (team : Bool) (fs : List Str) (s : Str) :
    List Str × Option (Lambda F × Str) :=
  let fs' := Factory.register team fs
  (fs', match readWord s with
    | none => none
    | some (w, _) => if w ∈ fs' then Lambda.load io tab s else none)

/-- factories reached from the empty one by calls of `load<i_mep>` / `load<team<i_mep>>` -/
inductive Factory.Reach : List Str → Prop
  | empty : Factory.Reach []
  | step (team : Bool) (fs : List Str) : Factory.Reach fs → Factory.Reach (Factory.register team fs)

end Vita.C11
