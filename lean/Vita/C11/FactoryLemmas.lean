import Vita.C11.Factory
/-! Lemmas about the factory of `serialize::lambda::load<T>`. -/
namespace Vita.C11

variable {F : Type}

/-- groups are registered as a whole -/
def Factory.Inv (fs : List Str) : Prop :=
  ∀ team, groupKey team ∈ fs → ∀ w ∈ groupIds team, w ∈ fs

theorem groupKey_mem (team : Bool) : groupKey team ∈ groupIds team := by
  cases team <;> simp [groupKey, groupIds, plainIds, teamIds]

theorem groups_disjoint (team : Bool) : ∀ w ∈ groupIds team, w ∉ groupIds (!team) := by
  cases team <;> decide

theorem Factory.inv_register (team : Bool) (fs : List Str) (h : Factory.Inv fs) :
    Factory.Inv (Factory.register team fs) := by
  unfold Factory.register
  by_cases hk : groupKey team ∈ fs
  · simpa [hk] using h
  · simp only [hk, if_false]
    intro t ht w hw
    by_cases e : t = team
    · subst e
      exact List.mem_append_left _ hw
    · have e' : team = !t := by cases t <;> cases team <;> simp_all
      have hnot : groupKey t ∉ groupIds team := by
        rw [e']
        exact groups_disjoint t _ (groupKey_mem t)
      rcases List.mem_append.mp ht with h1 | h1
      · exact absurd h1 hnot
      · exact List.mem_append_right _ (h t h1 w hw)

theorem Factory.inv_of_reach (fs : List Str) (h : Factory.Reach fs) : Factory.Inv fs := by
  induction h with
  | empty => intro _ hk; simp at hk
  | step team fs _ ih => exact Factory.inv_register team fs ih

/-- after the registration step of `load<T>` every id of `T`'s group is known -/
theorem Factory.group_registered (team : Bool) (fs : List Str) (h : Factory.Inv fs) :
    ∀ w ∈ groupIds team, w ∈ Factory.register team fs := by
  intro w hw
  unfold Factory.register
  by_cases hk : groupKey team ∈ fs
  · simp only [hk, if_true]; exact h team hk w hw
  · simp only [hk, if_false]; exact List.mem_append_left _ hw

/-- the registration step of the other group does not change what is known about this one -/
theorem Factory.other_group (team : Bool) (fs : List Str) (w : Str) (hw : w ∈ groupIds team) :
    w ∈ Factory.register (!team) fs ↔ w ∈ fs := by
  unfold Factory.register
  by_cases hk : groupKey (!team) ∈ fs
  · simp [hk]
  · simp only [hk, if_false, List.mem_append]
    constructor
    · rintro (h | h)
      · exact absurd h (groups_disjoint team w hw)
      · exact h
    · exact Or.inr

theorem Lambda.sid_mem (x : Lambda F) : x.sid ∈ groupIds x.isTeam := by
  cases x <;> simp [Lambda.sid, Lambda.isTeam, groupIds, plainIds, teamIds]

/-- the first word of a saved model is its id -/
theorem Lambda.readWord_save (io : FloatIO F) (x : Lambda F) (r : Str) :
    ∃ rest, readWord (x.save io ++ r) = some (x.sid, rest) := by
  obtain ⟨w1, w2, w3, w4, w5, w6, w7, w8⟩ := ids_noWs
  cases x <;> simp only [Lambda.save, Lambda.sid, List.append_assoc, List.cons_append]
  · exact ⟨_, readWord_id idReg w1 (by decide) _⟩
  · exact ⟨_, readWord_id idDyn w2 (by decide) _⟩
  · exact ⟨_, readWord_id idGauss w3 (by decide) _⟩
  · exact ⟨_, readWord_id idBinary w4 (by decide) _⟩
  · exact ⟨_, readWord_id (idTeam idReg) w5 (by decide) _⟩
  · exact ⟨_, readWord_id (idTeam idDyn) w6 (by decide) _⟩
  · exact ⟨_, readWord_id (idTeam idGauss) w7 (by decide) _⟩
  · exact ⟨_, readWord_id (idTeam idBinary) w8 (by decide) _⟩

theorem Factory.load_matching (io : FloatIO F) (law : FloatLaw io) (tab : SymTab) (fs : List Str)
    (hfs : Factory.Inv fs) (x : Lambda F) (hk : x.ok io tab) (r : Str) :
    (Factory.load io tab x.isTeam fs (x.save io ++ r)).2 = some (x, x.tail ++ r) := by
  obtain ⟨rest, hw⟩ := Lambda.readWord_save io x r
  have hm := Factory.group_registered x.isTeam fs hfs x.sid (Lambda.sid_mem x)
  simp only [Factory.load, hw, hm, if_true]
  exact Lambda.load_save io law tab x hk r

theorem Factory.load_other (io : FloatIO F) (law : FloatLaw io) (tab : SymTab) (fs : List Str)
    (x : Lambda F) (hk : x.ok io tab) (r : Str) :
    (Factory.load io tab (!x.isTeam) fs (x.save io ++ r)).2 =
      if x.sid ∈ fs then some (x, x.tail ++ r) else none := by
  obtain ⟨rest, hw⟩ := Lambda.readWord_save io x r
  have hiff := Factory.other_group x.isTeam fs x.sid (Lambda.sid_mem x)
  simp only [Factory.load, hw]
  by_cases hm : x.sid ∈ fs
  · simp only [hiff.mpr hm, hm, if_true]
    exact Lambda.load_save io law tab x hk r
  · have : x.sid ∉ Factory.register (!x.isTeam) fs := fun h => hm (hiff.mp h)
    simp only [this, hm, if_false]

end Vita.C11
