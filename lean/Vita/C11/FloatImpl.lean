import Vita.C11.Text
/-!
  Executable instance of `FloatIO` on IEEE-754 binary64 bit patterns (as `Nat`), used by the
  compiled driver only: `fmt17` = `printf("%.16e")` (what `save_float_to_stream` produces),
  `strtod` = correctly rounded decimal → binary64 conversion.  Exact integer arithmetic.
  No theorem depends on this file; the differential run checks it against libstdc++/glibc on
  every value that occurs (and so tests the `FloatLaw` hypothesis on the real instance).
-/
namespace Vita.C11.FloatImpl

def mant (b : Nat) : Nat := b % 2 ^ 52
def expo (b : Nat) : Nat := (b / 2 ^ 52) % 2 ^ 11
def neg (b : Nat) : Bool := (b / 2 ^ 63) % 2 == 1
def finite (b : Nat) : Bool := expo b != 2047

/-- |value| as a fraction -/
def numDen (b : Nat) : Nat × Nat :=
  let E := expo b
  let m := if E == 0 then mant b else mant b + 2 ^ 52
  let e : Int := (if E == 0 then 1 else (E : Int)) - 1075
  if e ≥ 0 then (m * 2 ^ e.toNat, 1) else (m, 2 ^ (-e).toNat)

/-- 10^k ≤ num/den -/
def ge10 (num den : Nat) (k : Int) : Bool :=
  if k ≥ 0 then num ≥ den * 10 ^ k.toNat else num * 10 ^ (-k).toNat ≥ den

def adjust10 (num den : Nat) : Nat → Int → Int
  | 0, k => k
  | f + 1, k =>
    if ge10 num den (k + 1) then adjust10 num den f (k + 1)
    else if !ge10 num den k then adjust10 num den f (k - 1)
    else k

def roundDiv (n d : Nat) : Nat :=
  let q := n / d
  let r := n % d
  if 2 * r > d || (2 * r == d && q % 2 == 1) then q + 1 else q

def pad2 (n : Nat) : Str := if n < 10 then '0' :: Nat.toDigits 10 n else Nat.toDigits 10 n

def fmt17 (b : Nat) : Str :=
  let sg : Str := if neg b then ['-'] else []
  if expo b == 2047 then sg ++ (if mant b == 0 then "inf".toList else "nan".toList)
  else
    let (num, den) := numDen b
    if num == 0 then sg ++ "0.0000000000000000e+00".toList
    else
      let k0 : Int := (((num.log2 : Int) - (den.log2 : Int)) * 30103) / 100000
      let k := adjust10 num den 8 k0
      let q := if k - 16 ≥ 0 then roundDiv num (den * 10 ^ (k - 16).toNat)
               else roundDiv (num * 10 ^ (16 - k).toNat) den
      let (q, k) := if q ≥ 10 ^ 17 then (q / 10, k + 1) else (q, k)
      match Nat.toDigits 10 q with
      | [] => []
      | d :: ds =>
        sg ++ d :: '.' :: ds ++ 'e' :: (if k < 0 then '-' else '+') :: pad2 k.natAbs

/-! ### strtod -/

def takeDigits : Str → Str × Str
  | [] => ([], [])
  | c :: t => if c.isDigit then let (d, r) := takeDigits t; (c :: d, r) else ([], c :: t)

def digitsVal (ds : Str) : Nat := Nat.ofDigitChars 10 ds 0

/-- 2^b ≤ num/den -/
def ge2 (num den : Nat) (b : Int) : Bool :=
  if b ≥ 0 then num ≥ den * 2 ^ b.toNat else num * 2 ^ (-b).toNat ≥ den

def adjust2 (num den : Nat) : Nat → Int → Int
  | 0, k => k
  | f + 1, k =>
    if ge2 num den (k + 1) then adjust2 num den f (k + 1)
    else if !ge2 num den k then adjust2 num den f (k - 1)
    else k

/-- nearest binary64 (ties to even) of num/den > 0; `none` on overflow -/
def nearest (num den : Nat) : Option Nat :=
  let l0 : Int := (num.log2 : Int) - (den.log2 : Int)
  let l := adjust2 num den 8 l0            -- floor(log2(value))
  let b : Int := if l - 52 < -1074 then -1074 else l - 52
  let m := if b ≥ 0 then roundDiv num (den * 2 ^ b.toNat) else roundDiv (num * 2 ^ (-b).toNat) den
  let (m, b) := if m ≥ 2 ^ 53 then (m / 2, b + 1) else (m, b)
  if m < 2 ^ 52 then some m                  -- subnormal (or zero)
  else
    let E := b + 1075
    if E ≥ 2047 then none else some (E.toNat * 2 ^ 52 + (m - 2 ^ 52))

/-- `strtod` on the text accepted by `lexFloat`; `none` = not a complete numeral or overflow -/
def strtod (s : Str) : Option Nat :=
  let (sg, s) : Bool × Str := match s with
    | '-' :: t => (true, t)
    | '+' :: t => (false, t)
    | s => (false, s)
  let (ip, s) := takeDigits s
  let (fp, s) : Str × Str := match s with
    | '.' :: t => takeDigits t
    | s => ([], s)
  if ip.isEmpty && fp.isEmpty then none else
  let ex : Option (Int × Str) := match s with
    | 'e' :: t =>
      let (esg, t) : Bool × Str := match t with
        | '-' :: u => (true, u)
        | '+' :: u => (false, u)
        | u => (false, u)
      let (ed, r) := takeDigits t
      if ed.isEmpty then none else some (if esg then -(digitsVal ed : Int) else (digitsVal ed : Int), r)
    | s => some (0, s)
  match ex with
  | none => none
  | some (x, r) =>
    if !r.isEmpty then none else
    let D := digitsVal (ip ++ fp)
    let sbit := if sg then 2 ^ 63 else 0
    if D == 0 then some sbit else
    let x10 : Int := x - fp.length
    let mag : Int := x10 + (Nat.toDigits 10 D).length
    if mag > 400 then none
    else if mag < -400 then some sbit
    else
      let (num, den) := if x10 ≥ 0 then (D * 10 ^ x10.toNat, 1) else (D, 10 ^ (-x10).toNat)
      match nearest num den with
      | none => none
      | some v => some (sbit + v)

def ltBits (a b : Nat) : Bool :=
  decide (Float.ofBits (UInt64.ofNat a) < Float.ofBits (UInt64.ofNat b))

def io : FloatIO Nat := { fmt := fmt17, conv := strtod, finite := finite, lt := ltBits }

end Vita.C11.FloatImpl
