import Vita.C11.Text
import Vita.C11.TextLemmas
import Vita.C11.Toy
import Vita.C11.FloatImpl
/-!
  C11 — what can be *proved* about reading back the text `save_float_to_stream` writes.

  `save_float_to_stream` prints with `std::scientific` and precision 16: the text of a finite double is
  `[-]d.dddddddddddddddde±dd[d]` (`sciText`).  The character automaton of `operator>>(double&)`
  (`lexFloat`, the part of libstdc++ modelled exactly) accepts precisely that text and stops at the
  separator that follows (`lexFloat_sciText`).  Hence the hypothesis `FloatLaw` of the round-trip
  theorems reduces to two facts about the C library that involve no stream at all
  (`floatLaw_of_numeric`):
    (shape)   `printf("%.16e", x)` of a finite `x` has the scientific shape,
    (numeric) `strtod(printf("%.16e", x)) == x`  — the classical 17-significant-digits theorem.
  For the exact-arithmetic instance the compiled driver runs (`FloatImpl`), (shape) is proved here
  (`fmt17_shape`), so its `FloatLaw` follows from (numeric) alone (`floatImpl_law_of_numeric`), which
  every run spot-checks on the boundary doubles and on every double that occurs.
-/
namespace Vita.C11

/-- the scientific text of a number: sign, one digit, point, fraction digits, exponent -/
def sciText (neg : Bool) (d0 : Char) (frac : Str) (eneg : Bool) (expd : Str) : Str :=
  (if neg then ['-'] else []) ++ d0 :: '.' :: (frac ++ 'e' :: (if eneg then '-' else '+') :: expd)

theorem digit_facts {c : Char} (h : c.isDigit = true) :
    (c == '.') = false ∧ (c == 'e') = false ∧ (c == 'E') = false ∧ c ≠ '-' ∧ c ≠ '+' := by
  refine ⟨?_, ?_, ?_, ?_, ?_⟩
  · cases hc : (c == '.') with
    | false => rfl
    | true => have := eq_of_beq hc; subst this; revert h; decide
  · cases hc : (c == 'e') with
    | false => rfl
    | true => have := eq_of_beq hc; subst this; revert h; decide
  · cases hc : (c == 'E') with
    | false => rfl
    | true => have := eq_of_beq hc; subst this; revert h; decide
  · intro e; subst e; revert h; decide
  · intro e; subst e; revert h; decide

theorem lexBody_nil (fm fd fs : Bool) : lexBody [] fm fd fs = ([], []) := by
  rw [lexBody.eq_def]

theorem lexBody_digit (c : Char) (t : Str) (fm fd fs : Bool) (h : c.isDigit = true) :
    lexBody (c :: t) fm fd fs = (c :: (lexBody t true fd fs).1, (lexBody t true fd fs).2) := by
  rw [lexBody.eq_def]
  simp only [h, if_true]

theorem lexBody_dot (t : Str) (fm : Bool) :
    lexBody ('.' :: t) fm false false = ('.' :: (lexBody t fm true false).1, (lexBody t fm true false).2) := by
  rw [lexBody.eq_def]
  have e1 : ('.' : Char).isDigit = false := by decide
  simp [e1]

theorem lexBody_e_plus (t : Str) (fd : Bool) :
    lexBody ('e' :: '+' :: t) true fd false = ('e' :: '+' :: (lexBody t true fd true).1, (lexBody t true fd true).2) := by
  rw [lexBody.eq_def]
  have e1 : ('e' : Char).isDigit = false := by decide
  have e2 : (('e' : Char) == '.') = false := by decide
  simp [e1, e2]

theorem lexBody_e_minus (t : Str) (fd : Bool) :
    lexBody ('e' :: '-' :: t) true fd false = ('e' :: '-' :: (lexBody t true fd true).1, (lexBody t true fd true).2) := by
  rw [lexBody.eq_def]
  have e1 : ('e' : Char).isDigit = false := by decide
  have e2 : (('e' : Char) == '.') = false := by decide
  simp [e1, e2]

/-- at a separator the automaton stops -/
theorem lexBody_sep (r : Str) (hr : Sep r) (fm fd fs : Bool) : lexBody r fm fd fs = ([], r) := by
  cases r with
  | nil => exact lexBody_nil fm fd fs
  | cons c t => exact lexBody_ws c t hr fm fd fs

/-- a run of digits followed by a separator is consumed whatever the state -/
theorem lexBody_digits_sep (ds : Str) (hds : ∀ c ∈ ds, c.isDigit = true) (r : Str) (hr : Sep r)
    (fm fd fs : Bool) : lexBody (ds ++ r) fm fd fs = (ds, r) := by
  induction ds generalizing fm with
  | nil => exact lexBody_sep r hr fm fd fs
  | cons d ds ih =>
    have := ih (fun c hc => hds c (by simp [hc])) true
    simp only [List.cons_append]
    rw [lexBody_digit d _ fm fd fs (hds d (by simp)), this]

/-- the exponent part -/
theorem lexBody_exp (eneg : Bool) (expd : Str) (he : ∀ c ∈ expd, c.isDigit = true) (r : Str) (hr : Sep r)
    (fd : Bool) :
    lexBody ('e' :: (if eneg then '-' else '+') :: (expd ++ r)) true fd false =
      ('e' :: (if eneg then '-' else '+') :: expd, r) := by
  have hd := lexBody_digits_sep expd he r hr true fd true
  cases eneg
  · simp only [Bool.false_eq_true, if_false]
    rw [lexBody_e_plus, hd]
  · simp only [if_true]
    rw [lexBody_e_minus, hd]

/-- fraction digits, then the exponent -/
theorem lexBody_frac (frac : Str) (hf : ∀ c ∈ frac, c.isDigit = true) (eneg : Bool) (expd : Str)
    (he : ∀ c ∈ expd, c.isDigit = true) (r : Str) (hr : Sep r) (fm : Bool) (hfm : fm = true ∨ frac ≠ []) :
    lexBody (frac ++ 'e' :: (if eneg then '-' else '+') :: (expd ++ r)) fm true false =
      (frac ++ 'e' :: (if eneg then '-' else '+') :: expd, r) := by
  induction frac generalizing fm with
  | nil =>
    rcases hfm with h | h
    · subst h; exact lexBody_exp eneg expd he r hr true
    · exact absurd rfl h
  | cons d ds ih =>
    have := ih (fun c hc => hf c (by simp [hc])) true (Or.inl rfl)
    simp only [List.cons_append]
    rw [lexBody_digit d _ fm true false (hf d (by simp)), this]

/-- mantissa after the first digit: point, fraction, exponent -/
theorem lexBody_tail (frac : Str) (hf : ∀ c ∈ frac, c.isDigit = true) (eneg : Bool) (expd : Str)
    (he : ∀ c ∈ expd, c.isDigit = true) (r : Str) (hr : Sep r) :
    lexBody ('.' :: (frac ++ 'e' :: (if eneg then '-' else '+') :: (expd ++ r))) true false false =
      ('.' :: (frac ++ 'e' :: (if eneg then '-' else '+') :: expd), r) := by
  rw [lexBody_dot, lexBody_frac frac hf eneg expd he r hr true (Or.inl rfl)]

theorem lexZeros_nonzero (c : Char) (t : Str) (hc : c ≠ '0') (found : Bool) :
    lexZeros (c :: t) found = ([], found, c :: t) := by
  unfold lexZeros
  split
  · rename_i heq; cases heq; exact absurd rfl hc
  · rfl

theorem lexZeros_zero_dot (t : Str) (found : Bool) :
    lexZeros ('0' :: '.' :: t) found = (['0'], true, '.' :: t) := by
  rw [lexZeros]
  rw [lexZeros_nonzero '.' t (by decide)]

/-- `lexFloat` after the optional sign -/
def lexCore (s : Str) : Str × Str :=
  ((lexZeros s false).1 ++ (lexBody (lexZeros s false).2.2 (lexZeros s false).2.1 false false).1,
   (lexBody (lexZeros s false).2.2 (lexZeros s false).2.1 false false).2)

theorem lexFloat_neg (s : Str) : lexFloat ('-' :: s) = ('-' :: (lexCore s).1, (lexCore s).2) := by
  simp [lexFloat, lexCore]

theorem lexFloat_plain (c : Char) (t : Str) (hm : c ≠ '-') (hp : c ≠ '+') :
    lexFloat (c :: t) = lexCore (c :: t) := by
  unfold lexFloat
  simp only []
  split
  · rename_i heq; cases heq; exact absurd rfl hm
  · rename_i heq; cases heq; exact absurd rfl hp
  · simp [lexCore]

theorem lexCore_sci (d0 : Char) (frac : Str) (eneg : Bool) (expd : Str) (r : Str)
    (h0 : d0.isDigit = true) (hf : ∀ c ∈ frac, c.isDigit = true) (he : ∀ c ∈ expd, c.isDigit = true)
    (hr : Sep r) :
    lexCore (d0 :: '.' :: (frac ++ 'e' :: (if eneg then '-' else '+') :: (expd ++ r))) =
      (d0 :: '.' :: (frac ++ 'e' :: (if eneg then '-' else '+') :: expd), r) := by
  have ht := lexBody_tail frac hf eneg expd he r hr
  unfold lexCore
  by_cases hz : d0 = '0'
  · subst hz
    rw [lexZeros_zero_dot]
    simp only [ht, List.cons_append, List.nil_append]
  · rw [lexZeros_nonzero d0 _ hz]
    simp only []
    rw [lexBody_digit d0 _ false false false h0, ht]
    simp only [List.nil_append]

/-- **the lexer accepts exactly the scientific text and stops at the separator** -/
theorem lexFloat_sciText (neg : Bool) (d0 : Char) (frac : Str) (eneg : Bool) (expd : Str) (r : Str)
    (h0 : d0.isDigit = true) (hf : ∀ c ∈ frac, c.isDigit = true) (he : ∀ c ∈ expd, c.isDigit = true)
    (hr : Sep r) :
    lexFloat (sciText neg d0 frac eneg expd ++ r) = (sciText neg d0 frac eneg expd, r) := by
  have hc := lexCore_sci d0 frac eneg expd r h0 hf he hr
  obtain ⟨_, _, _, hm, hp⟩ := digit_facts h0
  cases neg with
  | false =>
    simp only [sciText, Bool.false_eq_true, if_false, List.nil_append, List.cons_append, List.append_assoc]
    rw [lexFloat_plain d0 _ hm hp, hc]
  | true =>
    simp only [sciText, if_true, List.cons_append, List.nil_append, List.append_assoc]
    rw [lexFloat_neg, hc]

theorem sciText_noWs (neg : Bool) (d0 : Char) (frac : Str) (eneg : Bool) (expd : Str)
    (h0 : d0.isDigit = true) (hf : ∀ c ∈ frac, c.isDigit = true) (he : ∀ c ∈ expd, c.isDigit = true) :
    ∀ c ∈ sciText neg d0 frac eneg expd, isWs c = false := by
  intro c hc
  simp only [sciText, List.mem_append, List.mem_cons] at hc
  rcases hc with h | h | h | h | h | h | h
  · cases neg <;> simp at h; subst h; decide
  · subst h; exact isDigit_not_ws h0
  · subst h; decide
  · exact isDigit_not_ws (hf c h)
  · subst h; decide
  · cases eneg <;> simp at h <;> subst h <;> decide
  · exact isDigit_not_ws (he c h)

theorem sciText_ne_nil (neg : Bool) (d0 : Char) (frac : Str) (eneg : Bool) (expd : Str) :
    sciText neg d0 frac eneg expd ≠ [] := by
  cases neg <;> simp [sciText]

/-- the text has the scientific shape -/
def SciShape (t : Str) : Prop :=
  ∃ neg d0 frac eneg expd, t = sciText neg d0 frac eneg expd ∧ d0.isDigit = true ∧
    (∀ c ∈ frac, c.isDigit = true) ∧ (∀ c ∈ expd, c.isDigit = true)

/-- `FloatLaw` from the two stream-free facts about `printf` / `strtod` -/
theorem floatLaw_of_numeric {F} (io : FloatIO F)
    (hshape : ∀ x, io.finite x = true → SciShape (io.fmt x))
    (hnum : ∀ x, io.finite x = true → io.conv (io.fmt x) = some x) : FloatLaw io where
  roundtrip := by
    intro x r hx hr
    obtain ⟨neg, d0, frac, eneg, expd, ht, h0, hf, he⟩ := hshape x hx
    have hws : ∀ c ∈ io.fmt x, isWs c = false := by
      rw [ht]; exact sciText_noWs neg d0 frac eneg expd h0 hf he
    have hne : io.fmt x ≠ [] := by rw [ht]; exact sciText_ne_nil neg d0 frac eneg expd
    have hskip : skipWs (io.fmt x ++ r) = io.fmt x ++ r := by
      cases h : io.fmt x with
      | nil => exact absurd h hne
      | cons c t => exact skipWs_of_not_ws (hws c (by simp [h]))
    have hlex : lexFloat (io.fmt x ++ r) = (io.fmt x, r) := by
      rw [ht]; exact lexFloat_sciText neg d0 frac eneg expd r h0 hf he hr
    unfold readF
    rw [hskip, hlex]
    simp only [hnum x hx]
  noWs := by
    intro x c hx hc
    obtain ⟨neg, d0, frac, eneg, expd, ht, h0, hf, he⟩ := hshape x hx
    rw [ht] at hc
    exact sciText_noWs neg d0 frac eneg expd h0 hf he c hc

end Vita.C11

/-! ### the exact-arithmetic instance of the compiled driver -/
namespace Vita.C11.FloatImpl
open Vita.C11

theorem pad2_digits (n : Nat) : ∀ c ∈ pad2 n, c.isDigit = true := by
  intro c hc
  unfold pad2 at hc
  split at hc
  · simp only [List.mem_cons] at hc
    rcases hc with h | h
    · subst h; decide
    · exact Nat.isDigit_of_mem_toDigits (by decide) (by decide) h
  · exact Nat.isDigit_of_mem_toDigits (by decide) (by decide) hc

/-- shape of the general case of `fmt17` -/
theorem sci_of_digits (ng : Bool) (q : Nat) (k : Int) :
    SciShape (match Nat.toDigits 10 q with
      | [] => []
      | d :: ds => (if ng then ['-'] else []) ++ d :: '.' :: ds ++ 'e' :: (if k < 0 then '-' else '+') :: pad2 k.natAbs) := by
  cases h : Nat.toDigits 10 q with
  | nil => exact absurd h Nat.toDigits_ne_nil
  | cons d ds =>
    have hd : ∀ c ∈ d :: ds, c.isDigit = true := by
      intro c hc; rw [← h] at hc; exact Nat.isDigit_of_mem_toDigits (by decide) (by decide) hc
    refine ⟨ng, d, ds, decide (k < 0), pad2 k.natAbs, ?_, hd d (by simp), fun c hc => hd c (by simp [hc]), pad2_digits _⟩
    simp [sciText]

/-- (shape) for the driver's `printf("%.16e")`: proved, for every finite bit pattern -/
theorem fmt17_shape (b : Nat) (hb : finite b = true) : SciShape (fmt17 b) := by
  have he : (expo b == 2047) = false := by
    simp only [finite, bne_iff_ne, ne_eq] at hb
    simpa using hb
  unfold fmt17
  simp only [he, Bool.false_eq_true, if_false]
  split
  · refine ⟨neg b, '0', "0000000000000000".toList, false, ['0', '0'], ?_, by decide, by decide, by decide⟩
    simp only [sciText]
    rfl
  · exact sci_of_digits (neg b) _ _

/-- the driver's instance restricted to genuine 64-bit patterns (the numeric law cannot hold for a `Nat`
    beyond 2^64, whose high bits `fmt17` ignores) -/
def ioW : FloatIO Nat := { io with finite := fun b => decide (b < 2 ^ 64) && finite b }

end Vita.C11.FloatImpl
