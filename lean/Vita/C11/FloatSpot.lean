import Vita.C11.FloatImpl
/-!
  Boundary bit patterns of IEEE-754 binary64 on which the numeric law `strtod (fmt17 b) = some b` of the
  driver's exact-arithmetic instance is checked *by the kernel* (`Props.floatImpl_boundary`): zero, the
  smallest / largest subnormals, the smallest normal, 1, the neighbours of powers of two and of ten across the
  exponent range, 2^53 ± 1 ulp, the largest finite value; both signs.
  A sample, not the law: the law itself stays the hypothesis `FloatLaw`; every run compares this instance with
  glibc on ≈ 20 000 further boundary doubles and on every double that occurs in a saved object.
-/
namespace Vita.C11.FloatImpl

def boundaryPos : List Nat := [
  0x0000000000000000, 0x0000000000000001, 0x0000000000000002, 0x000FFFFFFFFFFFFF,
  0x0010000000000000, 0x0010000000000001, 0x001FFFFFFFFFFFFF, 0x0020000000000000,
  0x3FF0000000000000, 0x3FEFFFFFFFFFFFFF, 0x3FF0000000000001, 0x3FB999999999999A,
  0x3FD5555555555555, 0x4340000000000000, 0x433FFFFFFFFFFFFF, 0x4340000000000001,
  0x4024000000000000, 0x4023FFFFFFFFFFFF, 0x4024000000000001, 0x444B1AE4D6E2EF50,
  0x44B52D02C7E14AF6, 0x44B52D02C7E14AF7, 0x0066789E3750F791, 0x7E37E43C8800759C,
  0x1000000000000000, 0x0FFFFFFFFFFFFFFF, 0x2000000000000001, 0x5FFFFFFFFFFFFFFF,
  0x7000000000000000, 0x7FE0000000000000, 0x7FEFFFFFFFFFFFFE, 0x7FEFFFFFFFFFFFFF,
  0xC08B68A3D70A3D71, 0x8000000000000000, 0x8000000000000001, 0xFFEFFFFFFFFFFFFF
]

end Vita.C11.FloatImpl
