/-
  C11 — the field sequence of every save()/load() pair, as syntax.

  `tools/translate_formats.py` abstracts, from the clang AST of the current tree, the body of each
  function that writes to / reads from a stream to a term of `Fmt`:

    sep c        save: one white-space character written literally (`out << ' '`, `'\n'`, the white
                 space inside a string literal)
    lit s        save: literal non-white text (`"0\n"` is `lit "0"; sep 10`)
    fld t name var  `out << e` / `in >> v` of a scalar; `t` is the type the `operator<<` / `operator>>`
                 overload formats / extracts, `name` the data member the value comes from / ends up in
                 (`"?"` when the translator cannot tell), `var` the local variable read into (or `""`)
    manip m      stream manipulators: `fixed`, `scientific`, `setprecision:digits10+1`, `ws`,
                 `save_flags` (the RAII saver that restores the flags when the function returns)
    sub k        a call of another function of the table (nested save / load / stream constructor)
    dyn          dispatch to the most derived class (`l->save(out)`, `factory[id](in, ss)`)
    fail         `return false`, `throw`
    seq / rep / alt   statement structure (sequence, any loop, `if`/`&&`/`||`)

  Syntax only.  This file gives the syntax its meaning for the obligation

      "load reads exactly the fields save writes, in the same order, with types that can hold
       what was written, and save separates any two fields by white space"

  as two decidable checks on the extracted table (`agrees`, `separated`), closed by `decide` in
  `Props.lean`; `FormatLemmas.lean` proves what the checks mean for the flat fragment (`flat_roundtrip`).
  Callees are normalised when they are inlined.
-/
namespace Vita.C11.Fmt

inductive Ty
  | chr | u16 | u32 | u64 | i16 | i32 | i64
  | f64            -- `double` through `operator<<` / `operator>>`
  | str            -- `out << std::string`
  | word           -- `in >> std::string`
  | line           -- `getline(in, s)`
  | flag           -- a literal digit string written by save
deriving DecidableEq, Repr

inductive Fmt
  | skip
  | sep (c : Nat)
  | lit (s : String)
  | fld (t : Ty) (name : String) (var : String)
  | manip (m : String)
  | sub (k : String)
  | dyn
  | fail
  | seq (a b : Fmt)
  | rep (a : Fmt)
  | alt (a b : Fmt)
deriving DecidableEq, Repr

structure Entry where
  key : String
  body : Fmt
deriving DecidableEq, Repr

abbrev Table := List Entry

def Table.find (t : Table) (k : String) : Option Fmt :=
  match t with
  | [] => none
  | e :: r => if e.key == k then some e.body else Table.find r k

/-! ### normal form: the success path, without separators -/

/-- surely leaves reporting failure -/
def fails : Fmt → Bool
  | .fail => true
  | .seq a b => fails a || fails b
  | _ => false

def mkSeq : Fmt → Fmt → Fmt
  | .skip, b => b
  | .seq a1 a2, b => .seq a1 (mkSeq a2 b)
  | a, .skip => a
  | a, b => .seq a b

/-- first literal of a branch, and what follows it -/
def headLit : Fmt → Option (String × Fmt)
  | .lit s => some (s, .skip)
  | .seq (.lit s) r => some (s, r)
  | _ => none

def mkAlt0 : Fmt → Fmt → Fmt
  | .skip, .skip => .skip
  | .rep x, .skip => .rep x
  | .skip, .rep x => .rep x
  | .skip, b => .alt b .skip
  | a, b => .alt a b

/-- a failing branch is not part of the success path; an `if` whose branches start with two
    literals writes a flag and then branches on it; `if (n) loop` is the loop -/
def mkAlt (a b : Fmt) : Fmt :=
  if fails a then b else if fails b then a else
  match headLit a, headLit b with
  | some (_, ra), some (_, rb) => mkSeq (.fld .flag "?" "") (mkAlt0 ra rb)
  | _, _ => mkAlt0 a b

/-- a loop whose body may do nothing is the loop of the other branch -/
def mkRep : Fmt → Fmt
  | .skip => .skip
  | .alt a .skip => .rep a
  | a => .rep a

def norm : Fmt → Fmt
  | .seq a b => mkSeq (norm a) (norm b)
  | .rep a => mkRep (norm a)
  | .alt a b => mkAlt (norm a) (norm b)
  | .sep _ => .skip
  | x => x

/-! ### the linear field sequence, nested calls inlined, float precision resolved -/

inductive Atom
  | fld (t : Ty) (exact : Bool) (name : String) (var : String)   -- `exact`: a double written with 17 significant digits
  | lit (s : String)
  | dyn
  | unknown (k : String)                          -- a callee that is not in the table
  | repO | repC | altO | altM | altC
deriving DecidableEq, Repr

/-- what the stream's format flags are known to be -/
structure Flags where
  sci : Bool
  p17 : Bool
deriving DecidableEq, Repr

def Flags.dflt : Flags := ⟨false, false⟩
def Flags.meet (a b : Flags) : Flags := ⟨a.sci && b.sci, a.p17 && b.p17⟩

def restores : Fmt → Bool
  | .manip m => m == "save_flags"
  | .seq a b => restores a || restores b
  | _ => false

/-- `fuel` bounds the depth of the term plus the depth of the inlined calls (structural recursion on
    the fuel, so that the kernel can evaluate the checks) -/
def flat (tbl : Table) : Nat → Fmt → Flags → List Atom × Flags
  | 0, _, s => ([.unknown "fuel"], s)
  | _ + 1, .skip, s => ([], s)
  | _ + 1, .sep _, s => ([], s)
  | _ + 1, .fail, s => ([], s)
  | _ + 1, .lit x, s => ([.lit x], s)
  | _ + 1, .fld t n v, s => ([.fld t (s.sci && s.p17) n v], s)
  | _ + 1, .manip m, s =>
    if m == "scientific" then ([], { s with sci := true })
    else if m == "setprecision:digits10+1" then ([], { s with p17 := true })
    else if m == "fixed" || m == "ws" || m == "save_flags" || m == "line_window" then ([], s)
    else ([.unknown m], s)
  | _ + 1, .dyn, s => ([.dyn], s)
  | fuel + 1, .sub k, s =>
    match tbl.find k with
    | none => ([.unknown k], s)
    | some body =>
      let (as, s') := flat tbl fuel (norm body) s
      (as, if restores body then s else s')
  | fuel + 1, .seq a b, s =>
    let (x, s1) := flat tbl fuel a s
    let (y, s2) := flat tbl fuel b s1
    (x ++ y, s2)
  | fuel + 1, .rep a, s =>
    let (x, s1) := flat tbl fuel a s
    (.repO :: x ++ [.repC], s.meet s1)
  | fuel + 1, .alt a b, s =>
    let (x, s1) := flat tbl fuel a s
    let (y, s2) := flat tbl fuel b s
    (.altO :: x ++ .altM :: y ++ [.altC], s1.meet s2)

def depth : Nat := 400

/-- the fields a function writes / reads on its success path -/
def fields (tbl : Table) (k : String) : List Atom :=
  match tbl.find k with
  | none => [.unknown k]
  | some body => (flat tbl depth (norm body) Flags.dflt).1

/-! ### agreement of a save with a load -/

def Ty.bits : Ty → Option (Bool × Nat)      -- (signed, width)
  | .u16 => some (false, 16) | .u32 => some (false, 32) | .u64 => some (false, 64)
  | .i16 => some (true, 16) | .i32 => some (true, 32) | .i64 => some (true, 64)
  | _ => none

/-- every value written as `s` is read back by an extraction of type `l` -/
def Ty.holds (s l : Ty) : Bool :=
  match s, l with
  | .flag, l => (l.bits).isSome
  | .f64, .f64 => true
  | .str, .line => true
  | .chr, .chr => true
  | s, l =>
    match s.bits, l.bits with
    | some (false, ws), some (false, wl) => ws ≤ wl
    | some (true, ws), some (true, wl) => ws ≤ wl
    | some (false, ws), some (true, wl) => ws < wl
    | _, _ => false

def nameOk (a b : String) : Bool := a == "?" || b == "?" || a == b

/-- a pair of types that `Ty.holds` rejects but the model's invariant covers: (save type, load type,
    data member the value ends up in, local variable it is read into) -/
abbrev Narrowing := Ty × Ty × String × String

def atomOk (acc : List Narrowing) : Atom → Atom → Bool
  | .fld ts ex ns _, .fld tl _ nl vl =>
    nameOk ns nl && (if ts == .f64 then ex else true) &&
      (ts.holds tl || acc.contains (ts, tl, nl, vl))
  | .lit a, .lit b => a == b
  | .dyn, .dyn => true
  | .repO, .repO => true
  | .repC, .repC => true
  | .altO, .altO => true
  | .altM, .altM => true
  | .altC, .altC => true
  | _, _ => false

def listOk (acc : List Narrowing) : List Atom → List Atom → Bool
  | [], [] => true
  | a :: as, b :: bs => atomOk acc a b && listOk acc as bs
  | _, _ => false

/-- "load reads exactly the fields save writes, in the same order, with types that hold them" -/
def agrees (tbl : Table) (acc : List Narrowing) (saveKey loadKey : String) : Bool :=
  listOk acc (fields tbl saveKey) (fields tbl loadKey)

/-! ### separation: on every path of a save two fields never touch -/

/-- abstract summary of the text a term may write -/
structure Edge where
  ok : Bool            -- no two tokens adjacent inside
  mayEmpty : Bool      -- may write nothing
  startTok : Bool      -- may start with a token character
  endTok : Bool        -- may end with a token character
deriving DecidableEq, Repr

def Edge.empty : Edge := ⟨true, true, false, false⟩
def Edge.tok : Edge := ⟨true, false, true, true⟩
def Edge.ws : Edge := ⟨true, false, false, false⟩

def Edge.seq (a b : Edge) : Edge :=
  ⟨a.ok && b.ok && !(a.endTok && b.startTok), a.mayEmpty && b.mayEmpty,
   a.startTok || (a.mayEmpty && b.startTok), b.endTok || (b.mayEmpty && a.endTok)⟩

def Edge.alt (a b : Edge) : Edge :=
  ⟨a.ok && b.ok, a.mayEmpty || b.mayEmpty, a.startTok || b.startTok, a.endTok || b.endTok⟩

def Edge.rep (a : Edge) : Edge :=
  ⟨a.ok && !(a.endTok && a.startTok), true, a.startTok, a.endTok⟩

/-- the branches that surely fail write nothing that matters -/
def prune : Fmt → Fmt
  | .seq a b => .seq (prune a) (prune b)
  | .rep a => .rep (prune a)
  | .alt a b => if fails a then prune b else if fails b then prune a else .alt (prune a) (prune b)
  | x => x

def edge (tbl : Table) : Nat → Fmt → Edge
  | 0, _ => ⟨false, true, true, true⟩
  | _ + 1, .skip => .empty
  | _ + 1, .fail => .empty
  | _ + 1, .manip _ => .empty
  | _ + 1, .sep _ => .ws
  | _ + 1, .lit _ => .tok
  | _ + 1, .fld _ _ _ => .tok
  | _ + 1, .dyn => ⟨true, false, true, false⟩      -- a model: starts with its first field, ends with a newline
  | fuel + 1, .sub k =>
    match tbl.find k with
    | none => ⟨false, true, true, true⟩
    | some body => edge tbl fuel (prune body)
  | fuel + 1, .seq a b => (edge tbl fuel a).seq (edge tbl fuel b)
  | fuel + 1, .rep a => (edge tbl fuel a).rep
  | fuel + 1, .alt a b => (edge tbl fuel a).alt (edge tbl fuel b)

/-- inside `k` no two fields touch, and `k` does not end with a field (so that whatever is written
    next cannot merge with it) -/
def separated (tbl : Table) (k : String) : Bool :=
  match tbl.find k with
  | none => false
  | some body =>
    let e := edge tbl depth (prune body)
    e.ok && !e.endTok

end Vita.C11.Fmt
