import Vita.C11.TextLemmas
/-!
  C11 — what the two syntactic checks on a field sequence (`Fmt.agrees`: same fields in the same order, read
  into types that hold what was written; `Fmt.separated`: every field is followed by white space) *mean*, proved
  for the flat fragment (a record that is a sequence of integer fields and separators, e.g. `hash_t`, the headers
  of `matrix` / `cache` / `population`, the trailer of `summary`):

  `flat_roundtrip`: if every value fits the type it is written with, every load type is at least as wide as the
  save type, and every field is followed by a white-space separator, then reading the load types off the text
  written (followed by anything) gives back exactly the values and stops right after the last field.
-/
namespace Vita.C11.Flat

open Vita.C11

/-- integer field types: unsigned with maximum `M`, signed with range `[-(H+1), H]` -/
inductive FTy
  | u (M : Nat)
  | i (H : Nat)
deriving DecidableEq, Repr

inductive Item
  | fld (t : FTy)
  | sep (c : Char)
deriving DecidableEq, Repr

def FTy.fits : FTy → Int → Prop
  | .u M, v => 0 ≤ v ∧ v ≤ M
  | .i H, v => -(H + 1 : Int) ≤ v ∧ v ≤ H

/-- every value of `s` is a value of `l` (the semantic content of `Fmt.Ty.holds` on integer types) -/
def FTy.holds : FTy → FTy → Prop
  | .u M, .u M' => M ≤ M'
  | .i H, .i H' => H ≤ H'
  | .u M, .i H' => M ≤ H'
  | .i _, .u _ => False

def FTy.read : FTy → P Int
  | .u M => fun s => match readU M s with | none => none | some (n, r) => some ((n : Int), r)
  | .i H => readI H

/-- the text a save with these items writes for these values (one value per field) -/
def write : List Item → List Int → Str
  | [], _ => []
  | .sep c :: rest, vs => c :: write rest vs
  | .fld _ :: rest, v :: vs => showInt v ++ write rest vs
  | .fld _ :: rest, [] => write rest []

def readAll : List FTy → P (List Int)
  | [] => pure []
  | t :: ts => do
    let v ← t.read
    let vs ← readAll ts
    pure (v :: vs)

/-- save types of the fields, in order -/
def fields : List Item → List FTy
  | [] => []
  | .fld t :: rest => t :: fields rest
  | .sep _ :: rest => fields rest

/-- every field is immediately followed by a white-space separator, all separators are white space -/
def Separated : List Item → Prop
  | [] => True
  | .sep c :: rest => isWs c = true ∧ Separated rest
  | .fld _ :: .sep c :: rest => isWs c = true ∧ Separated rest
  | .fld _ :: _ => False

/-- values fit the save types -/
def Fits : List FTy → List Int → Prop
  | [], [] => True
  | t :: ts, v :: vs => t.fits v ∧ Fits ts vs
  | _, _ => False

/-- load types hold the save types, position by position -/
def Holds : List FTy → List FTy → Prop
  | [], [] => True
  | s :: ss, l :: ls => s.holds l ∧ Holds ss ls
  | _, _ => False

/-- what is left unread: the separators after the last field -/
def trail : List Item → Str
  | [] => []
  | .sep c :: rest => if fields rest = [] then c :: trail rest else trail rest
  | .fld _ :: rest => trail rest

theorem read_ws (t : FTy) (c : Char) (hc : isWs c = true) (s : Str) : t.read (c :: s) = t.read s := by
  have hs : skipWs (c :: s) = skipWs s := by simp [skipWs, hc]
  cases t <;> simp [FTy.read, readU, readI, hs]

theorem read_show (s l : FTy) (h : s.holds l) (v : Int) (hv : s.fits v) (r : Str) (hr : Sep r) :
    l.read (showInt v ++ r) = some (v, r) := by
  cases s with
  | u M =>
    obtain ⟨h0, h1⟩ := hv
    have hs : showInt v = showNat v.natAbs := by simp [showInt]; omega
    cases l with
    | u M' =>
      have hle : v.natAbs ≤ M' := by simp only [FTy.holds] at h; omega
      simp only [FTy.read, hs]
      rw [readU_showNat _ _ _ hle hr]
      simp only []
      congr 2
      omega
    | i H' =>
      simp only [FTy.holds] at h
      exact readI_showInt H' v r (by omega) (by omega) hr
  | i H =>
    obtain ⟨h0, h1⟩ := hv
    cases l with
    | u M' => exact absurd h (by simp [FTy.holds])
    | i H' =>
      simp only [FTy.holds] at h
      exact readI_showInt H' v r (by omega) (by omega) hr

theorem write_nofields (items : List Item) (h : fields items = []) (vs : List Int) :
    write items vs = trail items := by
  induction items with
  | nil => rfl
  | cons it rest ih =>
    cases it with
    | fld t => simp [fields] at h
    | sep c =>
      simp only [fields] at h
      simp [write, trail, h, ih h]

theorem readAll_ws (ts : List FTy) (c : Char) (hc : isWs c = true) (s : Str) (hts : ts ≠ []) :
    readAll ts (c :: s) = readAll ts s := by
  cases ts with
  | nil => exact absurd rfl hts
  | cons t ts => simp [readAll, P.bind_apply, read_ws t c hc]

/-- **meaning of the two checks on the flat fragment** -/
theorem flat_roundtrip (items : List Item) (ltys : List FTy) (vs : List Int) (r : Str)
    (hsep : Separated items) (hfit : Fits (fields items) vs) (hh : Holds (fields items) ltys) :
    readAll ltys (write items vs ++ r) = some (vs, trail items ++ r) := by
  induction items generalizing ltys vs with
  | nil =>
    cases ltys <;> cases vs <;> simp_all [fields, Fits, Holds, readAll, write, trail, P.pure_apply]
  | cons it rest ih =>
    cases it with
    | sep c =>
      obtain ⟨hc, hrest⟩ := hsep
      simp only [fields] at hfit hh
      by_cases hf : fields rest = []
      · -- nothing more to read
        rw [hf] at hfit hh
        cases ltys <;> cases vs <;> simp_all [Fits, Holds]
        simp [readAll, P.pure_apply, write, trail, hf, write_nofields rest hf]
      · have hl : ltys ≠ [] := by
          intro e; subst e
          cases hfr : fields rest with
          | nil => exact hf hfr
          | cons a b => rw [hfr] at hh; simp [Holds] at hh
        simp only [write, trail, hf, if_false, List.cons_append]
        rw [readAll_ws ltys c hc _ hl]
        exact ih ltys vs hrest hfit hh
    | fld t =>
      cases rest with
      | nil => simp [Separated] at hsep
      | cons it2 rest2 =>
        cases it2 with
        | fld t2 => simp [Separated] at hsep
        | sep c =>
          obtain ⟨hc, hrest⟩ := hsep
          cases vs with
          | nil => simp [fields, Fits] at hfit
          | cons v vs =>
            cases ltys with
            | nil => simp [fields, Holds] at hh
            | cons l ls =>
              simp only [fields, Fits, Holds] at hfit hh
              have hsep' : Separated (.sep c :: rest2) := ⟨hc, hrest⟩
              have := ih ls vs hsep' (by simpa [fields] using hfit.2) (by simpa [fields] using hh.2)
              simp only [write, readAll, P.bind_apply, List.append_assoc, trail] at this ⊢
              rw [read_show t l hh.1 v hfit.1 _ (by simp [Sep, hc])]
              simp only [List.cons_append] at this ⊢
              rw [this]
              rfl

/-- `hash_t`: two `u64` fields, a blank between, a newline at the end -/
example (a b : Int) (ha : 0 ≤ a ∧ a ≤ U64) (hb : 0 ≤ b ∧ b ≤ U64) (r : Str) :
    readAll [.u U64, .u U64] (write [.fld (.u U64), .sep ' ', .fld (.u U64), .sep '\n'] [a, b] ++ r)
      = some ([a, b], '\n' :: r) := by
  have := flat_roundtrip [.fld (.u U64), .sep ' ', .fld (.u U64), .sep '\n'] [.u U64, .u U64] [a, b] r
    ⟨by decide, by decide, trivial⟩ ⟨ha, hb, trivial⟩ ⟨Nat.le_refl _, Nat.le_refl _, trivial⟩
  simpa [trail, fields] using this

end Vita.C11.Flat
