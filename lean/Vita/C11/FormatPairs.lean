import Vita.C11.Format
/-!
  C11 — which save goes with which load (hand-written: this is the specification side of the
  obligation; the bodies come from `GenFormats.lean`), and the narrowing extractions the model's
  invariants cover.
-/
namespace Vita.C11.Fmt

def indSave (i : String) : String := "vita::individual<vita::" ++ i ++ ">::save"

/-- (save, load) -/
def pairs : List (String × String) := [
  ("vita::hash_t::save", "vita::hash_t::load"),
  ("vita::basic_fitness_t<double>::save", "vita::basic_fitness_t<double>::load"),
  ("vita::save_float_to_stream<double>", "vita::load_float_from_stream<double>"),
  ("vita::matrix<int>::save", "vita::matrix<int>::load"),
  ("vita::matrix<unsigned int>::save", "vita::matrix<unsigned int>::load"),
  ("vita::distribution<double>::save", "vita::distribution<double>::load"),
  ("vita::i_ga::save_impl", "vita::i_ga::load_impl"),
  ("vita::i_de::save_impl", "vita::i_de::load_impl"),
  ("vita::i_mep::save_impl", "vita::i_mep::load_impl"),
  ("vita::individual<vita::i_ga>::save", "vita::individual<vita::i_ga>::load"),
  ("vita::individual<vita::i_de>::save", "vita::individual<vita::i_de>::load"),
  ("vita::individual<vita::i_mep>::save", "vita::individual<vita::i_mep>::load"),
  ("vita::team<vita::i_mep>::save", "vita::team<vita::i_mep>::load"),
  ("vita::population<vita::i_ga>::save", "vita::population<vita::i_ga>::load"),
  ("vita::population<vita::i_de>::save", "vita::population<vita::i_de>::load"),
  ("vita::population<vita::i_mep>::save", "vita::population<vita::i_mep>::load"),
  ("vita::summary<vita::i_ga>::save", "vita::summary<vita::i_ga>::load"),
  ("vita::summary<vita::i_de>::save", "vita::summary<vita::i_de>::load"),
  ("vita::summary<vita::i_mep>::save", "vita::summary<vita::i_mep>::load"),
  ("vita::cache::save", "vita::cache::load"),
  ("vita::evaluator<vita::i_mep>::save", "vita::evaluator<vita::i_mep>::load"),
  ("vita::evaluator_proxy<vita::i_mep, vita::test_evaluator<vita::i_mep>>::save",
   "vita::evaluator_proxy<vita::i_mep, vita::test_evaluator<vita::i_mep>>::load"),
  ("vita::search<vita::i_mep, vita::std_es>::save", "vita::search<vita::i_mep, vita::std_es>::load"),
  ("vita::detail::class_names<true>::save", "vita::detail::class_names<true>::load"),
  ("vita::detail::class_names<false>::save", "vita::detail::class_names<false>::load"),
  -- trained models: `save` against the stream constructor
  ("vita::detail::reg_lambda_f_storage<vita::i_mep, true, false>::save",
   "vita::detail::reg_lambda_f_storage<vita::i_mep, true, false>::ctor"),
  ("vita::detail::reg_lambda_f_storage<vita::team<vita::i_mep>, true, true>::save",
   "vita::detail::reg_lambda_f_storage<vita::team<vita::i_mep>, true, true>::ctor"),
  ("vita::basic_reg_lambda_f<vita::i_mep, true>::save", "vita::basic_reg_lambda_f<vita::i_mep, true>::ctor"),
  ("vita::basic_reg_lambda_f<vita::team<vita::i_mep>, true>::save",
   "vita::basic_reg_lambda_f<vita::team<vita::i_mep>, true>::ctor"),
  ("vita::basic_dyn_slot_lambda_f<vita::i_mep, true, true>::save",
   "vita::basic_dyn_slot_lambda_f<vita::i_mep, true, true>::ctor"),
  ("vita::basic_dyn_slot_lambda_f<vita::i_mep, true, false>::save",
   "vita::basic_dyn_slot_lambda_f<vita::i_mep, true, false>::ctor"),
  ("vita::basic_gaussian_lambda_f<vita::i_mep, true, true>::save",
   "vita::basic_gaussian_lambda_f<vita::i_mep, true, true>::ctor"),
  ("vita::basic_gaussian_lambda_f<vita::i_mep, true, false>::save",
   "vita::basic_gaussian_lambda_f<vita::i_mep, true, false>::ctor"),
  ("vita::basic_binary_lambda_f<vita::i_mep, true, true>::save",
   "vita::basic_binary_lambda_f<vita::i_mep, true, true>::ctor"),
  ("vita::basic_binary_lambda_f<vita::i_mep, true, false>::save",
   "vita::basic_binary_lambda_f<vita::i_mep, true, false>::ctor"),
  ("vita::team_class_lambda_f<vita::i_mep, true, true, vita::basic_dyn_slot_lambda_f>::save",
   "vita::team_class_lambda_f<vita::i_mep, true, true, vita::basic_dyn_slot_lambda_f>::ctor"),
  ("vita::team_class_lambda_f<vita::i_mep, true, true, vita::basic_gaussian_lambda_f>::save",
   "vita::team_class_lambda_f<vita::i_mep, true, true, vita::basic_gaussian_lambda_f>::ctor"),
  ("vita::team_class_lambda_f<vita::i_mep, true, true, vita::basic_binary_lambda_f>::save",
   "vita::team_class_lambda_f<vita::i_mep, true, true, vita::basic_binary_lambda_f>::ctor"),
  ("vita::serialize::save", "vita::serialize::lambda::load<vita::i_mep>"),
  ("vita::serialize::save", "vita::serialize::lambda::load<vita::team<vita::i_mep>>")
]

/-- helpers that are not complete records (they do not end with a separator themselves) -/
def helpers : List String := ["vita::save_float_to_stream<double>"]

def records : List (String × String) := pairs.filter fun p => !helpers.contains p.1

/-- Extractions into a type narrower than the one written (save type, load type, data member, local variable).
    Each is covered by a clause of the model's invariant (and listed in design/C11.md):
    * `rows`, `cols` of `i_mep::load_impl` are `unsigned`, `genome_.rows()/cols()` are `size_t` — `IMep.ok`: `rows, cols ≤ U32`;
    * `int ms` for `elapsed.count()` (a 64-bit `long`) in `summary::load` — `Summary.ok`: `elapsed` fits `int`
      (runs longer than 24.8 days do not reload: documented observation);
    * `unsigned n` for `names_.size()` (`class_names<true>::load`) and for `team_.size()`
      (`reg_lambda_f_storage<team<T>>`) — `Names.ok`, `Lambda.ok`: lengths `≤ U32`;
    * the `SERIALIZE_ID` is written as a `std::string` and read back as a white-space delimited word — the ids
      are identifiers (`Lambda.save` writes one of eight constants without white space). -/
def accepted : List Narrowing := [
  (.u64, .u32, "?", "rows"),
  (.u64, .u32, "?", "cols"),
  (.i64, .i32, "elapsed", "ms"),
  (.u64, .u32, "?", "n"),
  (.str, .word, "?", "id")
]

end Vita.C11.Fmt
