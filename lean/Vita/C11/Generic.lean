import Vita.C11.Big
/-!
  C11 — `team<T>`, `population<T>`, `summary<T>` for an arbitrary member type `T`
  (gp/team.tcc, population.tcc, evolution_summary.tcc are templates: `population<i_ga>`,
  `population<i_de>`, `summary<i_ga>`, `summary<i_de>` are what the GA / DE searches use,
  `team<i_ga>`-like instantiations compile from the same text).

  What the templates need from `T` is collected in `Ser`: its `save`, its `load`, its
  invariant and `empty()`; `Ser.Block` is the one property of `T` the round trip of the
  containers rests on.  `Big.lean`'s `Team` / `Pop` / `Summary` are the instances at
  `imepSer` (`teamOf_imep`, … in `GenericLemmas.lean`).
-/
namespace Vita.C11

variable {F X : Type}

/-- a persistable member type -/
structure Ser (X : Type) where
  save : X → Str
  load : P X
  ok : X → Prop
  isEmpty : X → Bool

/-- `save` writes a block that ends with a newline; the white-space-skipping `load` reads the
    block back and leaves that newline unread -/
structure Ser.Block (s : Ser X) : Prop where
  roundtrip : ∀ x r, s.ok x → s.load (s.save x ++ r) = some (x, '\n' :: r)
  skipNl : ∀ t, s.load ('\n' :: t) = s.load t

/-! ### the three individual kinds as `Ser` -/

def igaSer : Ser IGa := ⟨IGa.save, IGa.load, IGa.ok, fun x => x.genome.isEmpty⟩
def ideSer (io : FloatIO F) : Ser (IDe F) := ⟨IDe.save io, IDe.load io, IDe.ok io, fun x => x.genome.isEmpty⟩
def imepSer (io : FloatIO F) (tab : SymTab) : Ser (IMep F) :=
  ⟨IMep.save io, IMep.load io tab, IMep.ok io tab, fun x => x.genes.isEmpty⟩

/-! ### team<T> -/

def TeamOf.save (s : Ser X) (t : List X) : Str := showNat t.length ++ '\n' :: t.flatMap s.save

def TeamOf.load (s : Ser X) : P (List X) := do
  let n ← readU U32
  if n = 0 then P.fail else readN s.load n

def TeamOf.ok (s : Ser X) (t : List X) : Prop := t ≠ [] ∧ t.length ≤ U32 ∧ ∀ x ∈ t, s.ok x

/-- `team<T>` is itself a member type (`population<team<i_mep>>`, `summary<team<i_mep>>`) -/
def teamSer (s : Ser X) : Ser (List X) := ⟨TeamOf.save s, TeamOf.load s, TeamOf.ok s, fun t => t.isEmpty⟩

/-! ### population<T> -/

structure LayerOf (X : Type) where
  allowed : Nat
  inds : List X
deriving DecidableEq

def LayerOf.save (s : Ser X) (l : LayerOf X) : Str :=
  showNat l.allowed ++ ' ' :: showNat l.inds.length ++ '\n' :: l.inds.flatMap s.save

def PopOf.save (s : Ser X) (p : List (LayerOf X)) : Str :=
  showNat p.length ++ '\n' :: p.flatMap (LayerOf.save s)

def LayerOf.load (s : Ser X) : P (LayerOf X) := do
  let allowed ← readU U32
  let n ← readU U32
  if n > allowed then P.fail else do
    let inds ← readN s.load n
    pure ⟨allowed, inds⟩

def PopOf.load (s : Ser X) : P (List (LayerOf X)) := do
  let n ← readU U32
  if n = 0 then P.fail else readN (LayerOf.load s) n

def LayerOf.ok (s : Ser X) (l : LayerOf X) : Prop :=
  l.allowed ≤ U32 ∧ l.inds.length ≤ l.allowed ∧ ∀ x ∈ l.inds, s.ok x

def PopOf.ok (s : Ser X) (p : List (LayerOf X)) : Prop :=
  p ≠ [] ∧ p.length ≤ U32 ∧ ∀ l ∈ p, l.ok s

/-! ### summary<T> -/

structure BestOf (X F : Type) where
  solution : X
  fitness : List F
  accuracy : F

structure SummaryOf (X F : Type) where
  best : Option (BestOf X F)
  elapsed : Int
  mutations : Nat
  crossovers : Nat
  gen : Nat
  lastImp : Nat

def SummaryOf.save (io : FloatIO F) (s : Ser X) (x : SummaryOf X F) : Str :=
  (match x.best with
   | none => ['0', '\n']
   | some b =>
     if s.isEmpty b.solution then ['0', '\n']
     else '1' :: '\n' :: s.save b.solution ++ Fitness.save io b.fitness ++ io.fmt b.accuracy ++ ['\n']) ++
  showInt x.elapsed ++ ' ' :: showNat x.mutations ++ ' ' :: showNat x.crossovers ++ ' ' ::
    showNat x.gen ++ ' ' :: showNat x.lastImp ++ ['\n']

def readKnownBestOf (io : FloatIO F) (s : Ser X) (known : Nat) : P (Option (BestOf X F)) := fun str =>
  if known = 0 then some (none, str)
  else match s.load str with
    | none => none
    | some (ind, s1) => match Fitness.load io s1 with
      | none => none
      | some (fit, s2) => match readF io s2 with
        | none => none
        | some (acc, s3) => some (some ⟨ind, fit, acc⟩, s3)

def SummaryOf.load (io : FloatIO F) (s : Ser X) : P (SummaryOf X F) := do
  let known ← readU U32
  let best ← readKnownBestOf io s known
  let ms ← readI I32
  let mutations ← readU U64
  let crossovers ← readU U64
  let gen ← readU U32
  let lastImp ← readU U32
  pure ⟨best, ms, mutations, crossovers, gen, lastImp⟩

def SummaryOf.ok (io : FloatIO F) (s : Ser X) (x : SummaryOf X F) : Prop :=
  (∀ b, x.best = some b → s.isEmpty b.solution = false ∧ s.ok b.solution ∧ Fitness.ok io b.fitness ∧
      io.finite b.accuracy = true) ∧
  -(I32 + 1 : Int) ≤ x.elapsed ∧ x.elapsed ≤ I32 ∧ x.mutations ≤ U64 ∧ x.crossovers ≤ U64 ∧
  x.gen ≤ U32 ∧ x.lastImp ≤ U32

end Vita.C11
