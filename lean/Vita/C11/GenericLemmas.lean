import Vita.C11.Generic
import Vita.C11.BigLemmas
/-! Round-trip lemmas for the containers over an arbitrary member type. -/
namespace Vita.C11

variable {F X : Type}

/-! ### the member types are blocks -/

theorem IGa.load_nl (s : Str) : IGa.load ('\n' :: s) = IGa.load s := by
  simp [IGa.load, P.bind_apply]

theorem IDe.load_nl (io : FloatIO F) (s : Str) : IDe.load io ('\n' :: s) = IDe.load io s := by
  simp [IDe.load, P.bind_apply]

theorem igaSer_block : igaSer.Block :=
  ⟨fun x r hk => IGa.load_save x hk r, IGa.load_nl⟩

theorem ideSer_block (io : FloatIO F) (law : FloatLaw io) : (ideSer io).Block :=
  ⟨fun x r hk => IDe.load_save io law x hk r, IDe.load_nl io⟩

theorem imepSer_block (io : FloatIO F) (law : FloatLaw io) (tab : SymTab) : (imepSer io tab).Block :=
  ⟨fun x r hk => IMep.load_save io law tab x hk r, IMep.load_nl io tab⟩

/-! ### team<T> -/

theorem TeamOf.load_save (s : Ser X) (hb : s.Block) (t : List X) (hk : TeamOf.ok s t) (r : Str) :
    TeamOf.load s (TeamOf.save s t ++ r) = some (t, '\n' :: r) := by
  obtain ⟨hne, hlen, hx⟩ := hk
  simp only [TeamOf.load, TeamOf.save, P.bind_apply, List.append_assoc, List.cons_append]
  rw [readU_showNat _ _ _ hlen (by simp)]
  have : t.length ≠ 0 := fun h => hne (List.eq_nil_of_length_eq_zero h)
  simp only [this, if_false]
  exact readN_blocks s.load s.save hb.skipNl t r (fun x hx' r' => hb.roundtrip x r' (hx x hx'))

theorem TeamOf.load_nl (s : Ser X) (t : Str) : TeamOf.load s ('\n' :: t) = TeamOf.load s t := by
  simp [TeamOf.load, P.bind_apply]

theorem teamSer_block (s : Ser X) (hb : s.Block) : (teamSer s).Block :=
  ⟨fun t r hk => TeamOf.load_save s hb t hk r, TeamOf.load_nl s⟩

/-! ### population<T> -/

theorem LayerOf.load_save (s : Ser X) (hb : s.Block) (l : LayerOf X) (hk : l.ok s) (r : Str) :
    LayerOf.load s (l.save s ++ r) = some (l, '\n' :: r) := by
  obtain ⟨ha, hle, hx⟩ := hk
  have hn : l.inds.length ≤ U32 := Nat.le_trans hle ha
  simp only [LayerOf.load, LayerOf.save, P.bind_apply, List.append_assoc, List.cons_append]
  rw [readU_showNat _ _ _ ha (by simp)]
  simp only [readU_sp]
  rw [readU_showNat _ _ _ hn (by simp)]
  have : ¬ l.inds.length > l.allowed := by omega
  simp only [this, if_false, P.bind_apply]
  rw [readN_blocks s.load s.save hb.skipNl l.inds r (fun x hx' r' => hb.roundtrip x r' (hx x hx'))]
  rfl

theorem LayerOf.load_nl (s : Ser X) (t : Str) : LayerOf.load s ('\n' :: t) = LayerOf.load s t := by
  simp [LayerOf.load, P.bind_apply]

theorem PopOf.load_save (s : Ser X) (hb : s.Block) (p : List (LayerOf X)) (hk : PopOf.ok s p) (r : Str) :
    PopOf.load s (PopOf.save s p ++ r) = some (p, '\n' :: r) := by
  obtain ⟨hne, hlen, hl⟩ := hk
  simp only [PopOf.load, PopOf.save, P.bind_apply, List.append_assoc, List.cons_append]
  rw [readU_showNat _ _ _ hlen (by simp)]
  have : p.length ≠ 0 := fun h => hne (List.eq_nil_of_length_eq_zero h)
  simp only [this, if_false]
  exact readN_blocks (LayerOf.load s) (LayerOf.save s) (LayerOf.load_nl s) p r
    (fun l hl' r' => LayerOf.load_save s hb l (hl l hl') r')

/-! ### summary<T> -/

theorem SummaryOf.load_save (io : FloatIO F) (law : FloatLaw io) (s : Ser X) (hb : s.Block)
    (x : SummaryOf X F) (hk : x.ok io s) (r : Str) :
    SummaryOf.load io s (x.save io s ++ r) = some (x, '\n' :: r) := by
  obtain ⟨hbst, he1, he2, hm, hc, hg, hl⟩ := hk
  have tail : ∀ (b : Option (BestOf X F)),
      (do
        let ms ← readI I32
        let mutations ← readU U64
        let crossovers ← readU U64
        let gen ← readU U32
        let lastImp ← readU U32
        pure (⟨b, ms, mutations, crossovers, gen, lastImp⟩ : SummaryOf X F) : P (SummaryOf X F))
        ('\n' :: (showInt x.elapsed ++ ' ' :: (showNat x.mutations ++ ' ' :: (showNat x.crossovers ++ ' ' ::
          (showNat x.gen ++ ' ' :: (showNat x.lastImp ++ '\n' :: r))))))
        = some (⟨b, x.elapsed, x.mutations, x.crossovers, x.gen, x.lastImp⟩, '\n' :: r) := by
    intro b
    simp only [P.bind_apply, readI_nl]
    rw [readI_showInt _ _ _ he1 he2 (by simp)]
    simp only [readU_sp]
    rw [readU_showNat _ _ _ hm (by simp)]
    simp only [readU_sp]
    rw [readU_showNat _ _ _ hc (by simp)]
    simp only [readU_sp]
    rw [readU_showNat _ _ _ hg (by simp)]
    simp only [readU_sp]
    rw [readU_showNat _ _ _ hl (by simp)]
    rfl
  obtain ⟨best, elapsed, mutations, crossovers, gen, lastImp⟩ := x
  simp only at hbst he1 he2 hm hc hg hl tail
  cases best with
  | none =>
    simp only [SummaryOf.load, SummaryOf.save, P.bind_apply, List.append_assoc, List.cons_append,
      List.nil_append]
    have h0 : ∀ rest, readU U32 ('0' :: '\n' :: rest) = some (0, '\n' :: rest) := by
      intro rest
      have := readU_showNat U32 0 ('\n' :: rest) (by decide) (by simp)
      have e : showNat 0 = ['0'] := by rfl
      rw [e] at this
      exact this
    rw [h0]
    simp only [readKnownBestOf, if_true]
    exact tail none
  | some b =>
    obtain ⟨hne, hsol, hfit, hacc⟩ := hbst b rfl
    simp only [SummaryOf.load, SummaryOf.save, hne, Bool.false_eq_true, if_false, P.bind_apply,
      List.append_assoc, List.cons_append, List.nil_append]
    have h1 : ∀ rest, readU U32 ('1' :: '\n' :: rest) = some (1, '\n' :: rest) := by
      intro rest
      have := readU_showNat U32 1 ('\n' :: rest) (by decide) (by simp)
      have e : showNat 1 = ['1'] := by rfl
      rw [e] at this
      exact this
    rw [h1]
    simp only [readKnownBestOf, Nat.succ_ne_zero, if_false, hb.skipNl]
    rw [hb.roundtrip b.solution _ hsol]
    simp only [Fitness.load_nl]
    rw [Fitness.load_save io law b.fitness hfit]
    simp only []
    rw [law.roundtrip _ _ hacc (by simp)]
    exact tail (some b)

/-! ### `Big.lean`'s definitions are the instances at `imepSer` -/

theorem teamOf_imep (io : FloatIO F) (tab : SymTab) (t : List (IMep F)) :
    TeamOf.save (imepSer io tab) t = Team.save io t ∧ TeamOf.load (imepSer io tab) = Team.load io tab :=
  ⟨rfl, rfl⟩

def Layer.toOf (l : Layer F) : LayerOf (IMep F) := ⟨l.allowed, l.inds⟩

theorem popOf_imep_save (io : FloatIO F) (tab : SymTab) (p : List (Layer F)) :
    PopOf.save (imepSer io tab) (p.map Layer.toOf) = Pop.save io p := by
  simp only [PopOf.save, Pop.save, List.length_map, List.flatMap_map]
  rfl

end Vita.C11
