import Vita.C11.Big
/-!
  C11 — trained models (`src/kernel/gp/src/lambda_f.{h,tcc,cc}`, `gp/detail/lambda_f.h`).

  `serialize::save` writes the model's `SERIALIZE_ID` on a line of its own and then the model;
  `serialize::lambda::load` reads the id as a word, looks it up in the factory and calls the stream
  constructor of the class (`nullptr` for an unknown id; the constructors throw
  `exception::data_format` — both are "no model" here).  The factory is assumed to hold all eight
  ids (`load<i_mep>` registers the four plain kinds, `load<team<i_mep>>` the four `TEAM_` kinds).

  What determines every prediction of a model is in the record: the program(s), and per kind the
  slot matrix / slot classes / dataset size, the per-class distributions, the class names.
-/
namespace Vita.C11

variable {F : Type}

/-! ### class names (`detail::class_names<true>`) : a count line, one name per line -/

def Names.save (ns : List Str) : Str := showNat ns.length ++ '\n' :: ns.flatMap (fun n => n ++ ['\n'])

/-- plain `getline(in, line)` (no white-space skipping) -/
def getlineRaw : P Str := fun s =>
  match s with
  | [] => none
  | _ => some (s.takeWhile (· != '\n'), (s.dropWhile (· != '\n')).drop 1)

/-- `in >> n` (fail on 0), `std::ws(in)`, then `n` times `getline` -/
def Names.load : P (List Str) := fun s =>
  match readU U32 s with
  | none => none
  | some (n, s1) => if n = 0 then none else readN getlineRaw n (skipWs s1)

/-- class labels as they come out of a dataset: no newline inside, the first one non-empty and
    not starting with white space (`std::ws` would eat it) -/
def Names.ok (ns : List Str) : Prop :=
  ns ≠ [] ∧ ns.length ≤ U32 ∧ (∀ n ∈ ns, ∀ c ∈ n, (c != '\n') = true) ∧
  ∃ c t, ns.head? = some (c :: t) ∧ isWs c = false

/-! ### the eight kinds -/

structure DynPart where
  slotMatrix : Matrix          -- matrix<unsigned>
  slotClass : List Nat         -- one class per slot (row of the matrix)
  datasetSize : Nat

inductive Lambda (F : Type)
  | reg (ind : IMep F)
  | dyn (ind : IMep F) (d : DynPart) (names : List Str)
  | gauss (ind : IMep F) (dists : List (Dist F)) (names : List Str)
  | binary (ind : IMep F) (names : List Str)
  | teamReg (members : List (IMep F))
  | teamDyn (classes : Nat) (members : List (IMep F × DynPart)) (names : List Str)
  | teamGauss (classes : Nat) (members : List (IMep F × List (Dist F))) (names : List Str)
  | teamBinary (classes : Nat) (members : List (IMep F)) (names : List Str)

def DynPart.save (d : DynPart) : Str :=
  d.slotMatrix.save ++ items showNat '\n' d.slotClass ++ showNat d.datasetSize ++ ['\n']

def DynPart.load : P DynPart := do
  let m ← Matrix.load .u32
  let sc ← readN (readU U64) m.rows
  let ds ← readU U64
  pure ⟨m, sc, ds⟩

def gaussSave (io : FloatIO F) (ds : List (Dist F)) : Str :=
  showNat ds.length ++ '\n' :: ds.flatMap (Dist.save io)

def gaussLoad (io : FloatIO F) : P (List (Dist F)) := do
  let n ← readU U64
  readN (Dist.load io) n

def idReg : Str := ['R', 'E', 'G', '_', 'L', 'A', 'M', 'B', 'D', 'A', '_', 'F']
def idDyn : Str := ['D', 'Y', 'N', '_', 'S', 'L', 'O', 'T', '_', 'L', 'A', 'M', 'B', 'D', 'A', '_', 'F']
def idGauss : Str := ['G', 'A', 'U', 'S', 'S', 'I', 'A', 'N', '_', 'L', 'A', 'M', 'B', 'D', 'A', '_', 'F']
def idBinary : Str := ['B', 'I', 'N', 'A', 'R', 'Y', '_', 'L', 'A', 'M', 'B', 'D', 'A', '_', 'F']
def idTeam (s : Str) : Str := ['T', 'E', 'A', 'M', '_'] ++ s

/-- the team wrappers: `classes_`, `team_.size()`, the members (which never store names), the names -/
def teamSave {α} (member : α → Str) (classes : Nat) (ms : List α) (names : List Str) : Str :=
  showNat classes ++ '\n' :: showNat ms.length ++ '\n' :: ms.flatMap member ++ Names.save names

def teamLoad {α} (member : P α) : P (Nat × List α × List Str) := do
  let classes ← readU U64
  let n ← readU U64
  let ms ← readN member n
  let names ← Names.load
  pure (classes, ms, names)

def Lambda.save (io : FloatIO F) : Lambda F → Str
  | .reg ind => idReg ++ '\n' :: ind.save io
  | .dyn ind d names => idDyn ++ '\n' :: ind.save io ++ d.save ++ Names.save names
  | .gauss ind ds names => idGauss ++ '\n' :: ind.save io ++ gaussSave io ds ++ Names.save names
  | .binary ind names => idBinary ++ '\n' :: ind.save io ++ Names.save names
  | .teamReg ms => idTeam idReg ++ '\n' :: showNat ms.length ++ '\n' :: ms.flatMap (IMep.save io)
  | .teamDyn c ms names => idTeam idDyn ++ '\n' :: teamSave (fun m => m.1.save io ++ m.2.save) c ms names
  | .teamGauss c ms names => idTeam idGauss ++ '\n' :: teamSave (fun m => m.1.save io ++ gaussSave io m.2) c ms names
  | .teamBinary c ms names => idTeam idBinary ++ '\n' :: teamSave (IMep.save io) c ms names

def Lambda.load (io : FloatIO F) (tab : SymTab) : P (Lambda F) := fun s =>
  match readWord s with
  | none => none
  | some (w, s1) =>
    if w = idReg then (do let i ← IMep.load io tab; pure (Lambda.reg i)) s1
    else if w = idDyn then
      (do let i ← IMep.load io tab; let d ← DynPart.load; let n ← Names.load; pure (Lambda.dyn i d n)) s1
    else if w = idGauss then
      (do let i ← IMep.load io tab; let d ← gaussLoad io; let n ← Names.load; pure (Lambda.gauss i d n)) s1
    else if w = idBinary then
      (do let i ← IMep.load io tab; let n ← Names.load; pure (Lambda.binary i n)) s1
    else if w = idTeam idReg then
      (do let n ← readU U32
          if n = 0 then P.fail else do
            let ms ← readN (IMep.load io tab) n
            pure (Lambda.teamReg ms)) s1
    else if w = idTeam idDyn then
      (do let r ← teamLoad (do let i ← IMep.load io tab; let d ← DynPart.load; pure (i, d))
          pure (Lambda.teamDyn r.1 r.2.1 r.2.2)) s1
    else if w = idTeam idGauss then
      (do let r ← teamLoad (do let i ← IMep.load io tab; let d ← gaussLoad io; pure (i, d))
          pure (Lambda.teamGauss r.1 r.2.1 r.2.2)) s1
    else if w = idTeam idBinary then
      (do let r ← teamLoad (IMep.load io tab)
          pure (Lambda.teamBinary r.1 r.2.1 r.2.2)) s1
    else none

def DynPart.ok (d : DynPart) : Prop :=
  d.slotMatrix.ok .u32 ∧ d.slotClass.length = d.slotMatrix.rows ∧ (∀ c ∈ d.slotClass, c ≤ U64) ∧
  d.datasetSize ≤ U64

def distsOk (io : FloatIO F) (ds : List (Dist F)) : Prop := ds.length ≤ U64 ∧ ∀ d ∈ ds, d.ok io

def Lambda.ok (io : FloatIO F) (tab : SymTab) : Lambda F → Prop
  | .reg ind => ind.ok io tab
  | .dyn ind d names => ind.ok io tab ∧ d.ok ∧ Names.ok names
  | .gauss ind ds names => ind.ok io tab ∧ distsOk io ds ∧ Names.ok names
  | .binary ind names => ind.ok io tab ∧ Names.ok names
  | .teamReg ms => ms ≠ [] ∧ ms.length ≤ U32 ∧ ∀ m ∈ ms, m.ok io tab
  | .teamDyn c ms names => c ≤ U64 ∧ ms.length ≤ U64 ∧ (∀ m ∈ ms, m.1.ok io tab ∧ m.2.ok) ∧ Names.ok names
  | .teamGauss c ms names =>
    c ≤ U64 ∧ ms.length ≤ U64 ∧ (∀ m ∈ ms, m.1.ok io tab ∧ distsOk io m.2) ∧ Names.ok names
  | .teamBinary c ms names => c ≤ U64 ∧ ms.length ≤ U64 ∧ (∀ m ∈ ms, m.ok io tab) ∧ Names.ok names

end Vita.C11
