import Vita.C11.Lambda
import Vita.C11.CacheLemmas
/-! Round trip of the trained models. -/
namespace Vita.C11

variable {F : Type}

/-! ### names -/

theorem takeDrop_nl (l : Str) (hl : ∀ c ∈ l, (c != '\n') = true) (r : Str) :
    (l ++ '\n' :: r).takeWhile (· != '\n') = l ∧ (l ++ '\n' :: r).dropWhile (· != '\n') = '\n' :: r := by
  induction l with
  | nil => simp
  | cons a l ih =>
    have ha := hl a (by simp)
    have := ih (fun c hc => hl c (by simp [hc]))
    simp [ha, this]

theorem getlineRaw_line (l : Str) (hl : ∀ c ∈ l, (c != '\n') = true) (r : Str) :
    getlineRaw (l ++ '\n' :: r) = some (l, r) := by
  have h := takeDrop_nl l hl r
  unfold getlineRaw
  cases hs : l ++ '\n' :: r with
  | nil => simp at hs
  | cons a t =>
    rw [← hs]
    simp [h.1, h.2]

theorem Names.load_save (ns : List Str) (hk : Names.ok ns) (r : Str) :
    Names.load (Names.save ns ++ r) = some (ns, r) := by
  obtain ⟨hne, hlen, hnl, c, t, hhead, hws⟩ := hk
  have hlen0 : ns.length ≠ 0 := fun h => hne (List.eq_nil_of_length_eq_zero h)
  simp only [Names.load, Names.save, List.append_assoc, List.cons_append]
  rw [readU_showNat _ _ _ hlen (by simp)]
  simp only [hlen0, if_false, skipWs_nl]
  have hsk : skipWs (ns.flatMap (fun n => n ++ ['\n']) ++ r) = ns.flatMap (fun n => n ++ ['\n']) ++ r := by
    cases ns with
    | nil => exact absurd rfl hne
    | cons n ns' =>
      simp only [List.head?_cons, Option.some.injEq] at hhead
      subst hhead
      simp only [List.flatMap_cons, List.cons_append]
      exact skipWs_of_not_ws hws
  rw [hsk]
  have := readN_selfterm getlineRaw (fun n : Str => n ++ ['\n']) id ns r
    (fun n hn r' => by
      have := getlineRaw_line n (hnl n hn) r'
      simpa using this)
  simpa using this

theorem Names.load_nl (s : Str) : Names.load ('\n' :: s) = Names.load s := by
  simp [Names.load]

/-! ### the dynamic-slot part -/

theorem Matrix.load_nl (k : ElemKind) (s : Str) : Matrix.load k ('\n' :: s) = Matrix.load k s := by
  simp [Matrix.load, P.bind_apply]

theorem DynPart.load_save (d : DynPart) (hk : d.ok) (r : Str) :
    DynPart.load (d.save ++ r) = some (d, '\n' :: r) := by
  obtain ⟨hm, hsc, hc, hds⟩ := hk
  simp only [DynPart.load, DynPart.save, P.bind_apply, List.append_assoc]
  rw [Matrix.load_save .u32 d.slotMatrix hm]
  simp only [← hsc]
  rw [readN_items (readU U64) showNat '\n' (by decide) (readU_nl U64) d.slotClass _
    (fun c hc' r' hr' => readU_showNat U64 c r' (hc c hc') hr')]
  simp only [readU_nl, List.cons_append, List.nil_append]
  rw [readU_showNat _ _ _ hds (by simp)]
  rfl

theorem DynPart.load_nl (s : Str) : DynPart.load ('\n' :: s) = DynPart.load s := by
  simp [DynPart.load, P.bind_apply, Matrix.load_nl]

/-! ### the gaussian part -/

theorem Dist.load_nl (io : FloatIO F) (s : Str) : Dist.load io ('\n' :: s) = Dist.load io s := by
  simp [Dist.load, P.bind_apply]

theorem gauss_load_save (io : FloatIO F) (law : FloatLaw io) (ds : List (Dist F)) (hk : distsOk io ds)
    (r : Str) : gaussLoad io (gaussSave io ds ++ r) = some (ds, '\n' :: r) := by
  obtain ⟨hlen, hd⟩ := hk
  simp only [gaussLoad, gaussSave, P.bind_apply, List.append_assoc, List.cons_append]
  rw [readU_showNat _ _ _ hlen (by simp)]
  exact readN_blocks (Dist.load io) (Dist.save io) (Dist.load_nl io) ds r
    (fun d hd' r' => Dist.load_save io law d (hd d hd') r')

theorem gaussLoad_nl (io : FloatIO F) (s : Str) : gaussLoad io ('\n' :: s) = gaussLoad io s := by
  simp [gaussLoad, P.bind_apply]

/-! ### team wrappers -/

theorem teamLoad_save {α} (member : P α) (msave : α → Str) (hskip : ∀ s, member ('\n' :: s) = member s)
    (classes : Nat) (ms : List α) (names : List Str) (hc : classes ≤ U64) (hn : ms.length ≤ U64)
    (hm : ∀ m ∈ ms, ∀ r', member (msave m ++ r') = some (m, '\n' :: r')) (hnames : Names.ok names)
    (r : Str) :
    teamLoad member (teamSave msave classes ms names ++ r) = some ((classes, ms, names), r) := by
  simp only [teamLoad, teamSave, P.bind_apply, List.append_assoc, List.cons_append]
  rw [readU_showNat _ _ _ hc (by simp)]
  simp only [readU_nl]
  rw [readU_showNat _ _ _ hn (by simp)]
  simp only []
  rw [readN_blocks member msave hskip ms _ hm]
  simp only [Names.load_nl]
  rw [Names.load_save names hnames]
  rfl

/-! ### the id word -/

theorem readWord_id (w : Str) (hw : ∀ c ∈ w, isWs c = false) (hne : w ≠ []) (s : Str) :
    readWord (w ++ '\n' :: s) = some (w, '\n' :: s) := by
  have htd : ∀ (l : Str), (∀ c ∈ l, isWs c = false) →
      (l ++ '\n' :: s).takeWhile (fun c => !isWs c) = l ∧ (l ++ '\n' :: s).dropWhile (fun c => !isWs c) = '\n' :: s := by
    intro l hl
    induction l with
    | nil => simp [isWs]
    | cons a l ih =>
      have ha := hl a (by simp)
      have := ih (fun c hc => hl c (by simp [hc]))
      simp [ha, this]
  cases w with
  | nil => exact absurd rfl hne
  | cons a t =>
    have h := htd (a :: t) hw
    simp only [List.cons_append] at h
    simp only [readWord, List.cons_append, skipWs_of_not_ws (hw a (by simp)), h.1, h.2]

end Vita.C11

namespace Vita.C11
variable {F : Type}

/-- what `load` leaves unread: the final newline of the last program for the kinds without class
    names, nothing otherwise (the last name is read with `getline`) -/
def Lambda.tail : Lambda F → Str
  | .reg _ => ['\n']
  | .teamReg _ => ['\n']
  | _ => []

theorem ids_noWs : (∀ c ∈ idReg, isWs c = false) ∧ (∀ c ∈ idDyn, isWs c = false) ∧
    (∀ c ∈ idGauss, isWs c = false) ∧ (∀ c ∈ idBinary, isWs c = false) ∧
    (∀ c ∈ idTeam idReg, isWs c = false) ∧ (∀ c ∈ idTeam idDyn, isWs c = false) ∧
    (∀ c ∈ idTeam idGauss, isWs c = false) ∧ (∀ c ∈ idTeam idBinary, isWs c = false) := by
  refine ⟨?_, ?_, ?_, ?_, ?_, ?_, ?_, ?_⟩ <;> decide

theorem imep_dyn_member (io : FloatIO F) (law : FloatLaw io) (tab : SymTab) (m : IMep F × DynPart)
    (h1 : m.1.ok io tab) (h2 : m.2.ok) (r : Str) :
    (do let i ← IMep.load io tab; let d ← DynPart.load; pure (i, d) : P (IMep F × DynPart))
      (m.1.save io ++ m.2.save ++ r) = some (m, '\n' :: r) := by
  simp only [P.bind_apply, List.append_assoc]
  rw [IMep.load_save io law tab m.1 h1]
  simp only [DynPart.load_nl]
  rw [DynPart.load_save m.2 h2]
  rfl

theorem imep_gauss_member (io : FloatIO F) (law : FloatLaw io) (tab : SymTab) (m : IMep F × List (Dist F))
    (h1 : m.1.ok io tab) (h2 : distsOk io m.2) (r : Str) :
    (do let i ← IMep.load io tab; let d ← gaussLoad io; pure (i, d) : P (IMep F × List (Dist F)))
      (m.1.save io ++ gaussSave io m.2 ++ r) = some (m, '\n' :: r) := by
  simp only [P.bind_apply, List.append_assoc]
  rw [IMep.load_save io law tab m.1 h1]
  simp only [gaussLoad_nl]
  rw [gauss_load_save io law m.2 h2]
  rfl

theorem Lambda.load_save (io : FloatIO F) (law : FloatLaw io) (tab : SymTab) (x : Lambda F)
    (hk : x.ok io tab) (r : Str) :
    Lambda.load io tab (x.save io ++ r) = some (x, x.tail ++ r) := by
  obtain ⟨w1, w2, w3, w4, w5, w6, w7, w8⟩ := ids_noWs
  cases x with
  | reg ind =>
    simp only [Lambda.load, Lambda.save, Lambda.tail, List.append_assoc, List.cons_append]
    rw [readWord_id idReg w1 (by decide)]
    simp only [if_true, P.bind_apply, IMep.load_nl]
    rw [IMep.load_save io law tab ind hk]
    rfl
  | dyn ind d names =>
    obtain ⟨h1, h2, h3⟩ := hk
    simp only [Lambda.load, Lambda.save, Lambda.tail, List.append_assoc, List.cons_append]
    rw [readWord_id idDyn w2 (by decide)]
    have e1 : ¬ idDyn = idReg := by decide
    simp only [e1, if_false, if_true, P.bind_apply, IMep.load_nl]
    rw [IMep.load_save io law tab ind h1]
    simp only [DynPart.load_nl]
    rw [DynPart.load_save d h2]
    simp only [Names.load_nl]
    rw [Names.load_save names h3]
    rfl
  | gauss ind ds names =>
    obtain ⟨h1, h2, h3⟩ := hk
    simp only [Lambda.load, Lambda.save, Lambda.tail, List.append_assoc, List.cons_append]
    rw [readWord_id idGauss w3 (by decide)]
    have e1 : ¬ idGauss = idReg := by decide
    have e2 : ¬ idGauss = idDyn := by decide
    simp only [e1, e2, if_false, if_true, P.bind_apply, IMep.load_nl]
    rw [IMep.load_save io law tab ind h1]
    simp only [gaussLoad_nl]
    rw [gauss_load_save io law ds h2]
    simp only [Names.load_nl]
    rw [Names.load_save names h3]
    rfl
  | binary ind names =>
    obtain ⟨h1, h3⟩ := hk
    simp only [Lambda.load, Lambda.save, Lambda.tail, List.append_assoc, List.cons_append]
    rw [readWord_id idBinary w4 (by decide)]
    have e1 : ¬ idBinary = idReg := by decide
    have e2 : ¬ idBinary = idDyn := by decide
    have e3 : ¬ idBinary = idGauss := by decide
    simp only [e1, e2, e3, if_false, if_true, P.bind_apply, IMep.load_nl]
    rw [IMep.load_save io law tab ind h1]
    simp only [Names.load_nl]
    rw [Names.load_save names h3]
    rfl
  | teamReg ms =>
    obtain ⟨hne, hlen, hm⟩ := hk
    simp only [Lambda.load, Lambda.save, Lambda.tail, List.append_assoc, List.cons_append]
    rw [readWord_id (idTeam idReg) w5 (by decide)]
    have e1 : ¬ idTeam idReg = idReg := by decide
    have e2 : ¬ idTeam idReg = idDyn := by decide
    have e3 : ¬ idTeam idReg = idGauss := by decide
    have e4 : ¬ idTeam idReg = idBinary := by decide
    simp only [e1, e2, e3, e4, if_false, if_true, P.bind_apply, readU_nl]
    rw [readU_showNat _ _ _ hlen (by simp)]
    have : ms.length ≠ 0 := fun h => hne (List.eq_nil_of_length_eq_zero h)
    simp only [this, if_false, P.bind_apply]
    rw [readN_blocks (IMep.load io tab) (IMep.save io) (IMep.load_nl io tab) ms r
      (fun m hm' r' => IMep.load_save io law tab m (hm m hm') r')]
    rfl
  | teamDyn c ms names =>
    obtain ⟨hc, hlen, hm, h3⟩ := hk
    simp only [Lambda.load, Lambda.save, Lambda.tail, List.append_assoc, List.cons_append]
    rw [readWord_id (idTeam idDyn) w6 (by decide)]
    have e1 : ¬ idTeam idDyn = idReg := by decide
    have e2 : ¬ idTeam idDyn = idDyn := by decide
    have e3 : ¬ idTeam idDyn = idGauss := by decide
    have e4 : ¬ idTeam idDyn = idBinary := by decide
    have e5 : ¬ idTeam idDyn = idTeam idReg := by decide
    simp only [e1, e2, e3, e4, e5, if_false, if_true]
    have hskip : ∀ s, (do let i ← IMep.load io tab; let d ← DynPart.load; pure (i, d) : P (IMep F × DynPart))
        ('\n' :: s) = (do let i ← IMep.load io tab; let d ← DynPart.load; pure (i, d) : P (IMep F × DynPart)) s := by
      intro s; simp only [P.bind_apply, IMep.load_nl]
    have := teamLoad_save _ (fun m : IMep F × DynPart => m.1.save io ++ m.2.save) hskip c ms names hc hlen
      (fun m hm' r' => by
        have := imep_dyn_member io law tab m (hm m hm').1 (hm m hm').2 r'
        simpa using this) h3 r
    have hnl : ∀ (p : P (Nat × List (IMep F × DynPart) × List Str)) (s : Str),
        p = teamLoad (do let i ← IMep.load io tab; let d ← DynPart.load; pure (i, d)) →
        p ('\n' :: s) = p s := by
      intro p s hp; subst hp; simp [teamLoad, P.bind_apply]
    simp only [P.bind_apply]
    rw [hnl _ _ rfl, this]
    rfl
  | teamGauss c ms names =>
    obtain ⟨hc, hlen, hm, h3⟩ := hk
    simp only [Lambda.load, Lambda.save, Lambda.tail, List.append_assoc, List.cons_append]
    rw [readWord_id (idTeam idGauss) w7 (by decide)]
    have e1 : ¬ idTeam idGauss = idReg := by decide
    have e2 : ¬ idTeam idGauss = idDyn := by decide
    have e3 : ¬ idTeam idGauss = idGauss := by decide
    have e4 : ¬ idTeam idGauss = idBinary := by decide
    have e5 : ¬ idTeam idGauss = idTeam idReg := by decide
    have e6 : ¬ idTeam idGauss = idTeam idDyn := by decide
    simp only [e1, e2, e3, e4, e5, e6, if_false, if_true]
    have hskip : ∀ s, (do let i ← IMep.load io tab; let d ← gaussLoad io; pure (i, d) : P (IMep F × List (Dist F)))
        ('\n' :: s) = (do let i ← IMep.load io tab; let d ← gaussLoad io; pure (i, d) : P (IMep F × List (Dist F))) s := by
      intro s; simp only [P.bind_apply, IMep.load_nl]
    have := teamLoad_save _ (fun m : IMep F × List (Dist F) => m.1.save io ++ gaussSave io m.2) hskip c ms names hc hlen
      (fun m hm' r' => by
        have := imep_gauss_member io law tab m (hm m hm').1 (hm m hm').2 r'
        simpa using this) h3 r
    have hnl : ∀ (p : P (Nat × List (IMep F × List (Dist F)) × List Str)) (s : Str),
        p = teamLoad (do let i ← IMep.load io tab; let d ← gaussLoad io; pure (i, d)) →
        p ('\n' :: s) = p s := by
      intro p s hp; subst hp; simp [teamLoad, P.bind_apply]
    simp only [P.bind_apply]
    rw [hnl _ _ rfl, this]
    rfl
  | teamBinary c ms names =>
    obtain ⟨hc, hlen, hm, h3⟩ := hk
    simp only [Lambda.load, Lambda.save, Lambda.tail, List.append_assoc, List.cons_append]
    rw [readWord_id (idTeam idBinary) w8 (by decide)]
    have e1 : ¬ idTeam idBinary = idReg := by decide
    have e2 : ¬ idTeam idBinary = idDyn := by decide
    have e3 : ¬ idTeam idBinary = idGauss := by decide
    have e4 : ¬ idTeam idBinary = idBinary := by decide
    have e5 : ¬ idTeam idBinary = idTeam idReg := by decide
    have e6 : ¬ idTeam idBinary = idTeam idDyn := by decide
    have e7 : ¬ idTeam idBinary = idTeam idGauss := by decide
    simp only [e1, e2, e3, e4, e5, e6, e7, if_false, if_true]
    have := teamLoad_save (IMep.load io tab) (IMep.save io) (IMep.load_nl io tab) c ms names hc hlen
      (fun m hm' r' => IMep.load_save io law tab m (hm m hm') r') h3 r
    have hnl : ∀ (s : Str), teamLoad (IMep.load io tab) ('\n' :: s) = teamLoad (IMep.load io tab) s := by
      intro s; simp [teamLoad, P.bind_apply]
    simp only [P.bind_apply]
    rw [hnl, this]
    rfl

end Vita.C11
