import Vita.C11.Model
import Vita.C11.TextLemmas
/-! Round-trip lemmas for the simple types. -/
namespace Vita.C11

variable {F : Type}

/-- items each *preceded* by the separator -/
def itemsL {α} (body : α → Str) (c : Char) (xs : List α) : Str := xs.flatMap (fun x => c :: body x)

theorem items_shift {α} (body : α → Str) (c : Char) (xs : List α) :
    c :: items body c xs = itemsL body c xs ++ [c] := by
  induction xs with
  | nil => simp [items, itemsL]
  | cons x xs ih =>
    simp only [items, itemsL, List.flatMap_cons] at ih ⊢
    simp only [List.append_assoc, List.cons_append, List.nil_append, List.cons.injEq, true_and]
    rw [ih]

theorem Sep_itemsL {α} (body : α → Str) (c : Char) (hc : isWs c = true) (xs : List α) (r : Str) :
    Sep (itemsL body c xs ++ c :: r) := by
  cases xs with
  | nil => simp [itemsL, Sep, hc]
  | cons x xs => simp [itemsL, Sep, hc]

theorem readN_itemsL {α} (p : P α) (body : α → Str) (c : Char) (hc : isWs c = true)
    (hskip : ∀ s, p (c :: s) = p s) (xs : List α) (r : Str)
    (hp : ∀ x ∈ xs, ∀ r', Sep r' → p (body x ++ r') = some (x, r')) :
    readN p xs.length (itemsL body c xs ++ c :: r) = some (xs, c :: r) := by
  induction xs with
  | nil => simp [readN, itemsL, P.pure_apply]
  | cons x xs ih =>
    have h1 := hp x (by simp) (itemsL body c xs ++ c :: r) (Sep_itemsL body c hc xs r)
    have h2 := ih (fun y hy => hp y (by simp [hy]))
    simp only [List.length_cons, readN, itemsL, List.flatMap_cons, List.cons_append,
      List.append_assoc, P.bind_apply, hskip] at h1 h2 ⊢
    rw [h1]
    simp only []
    rw [h2]
    rfl

/-- the form in which the loops appear in the `save` functions: a separator, then
    `c`-terminated items -/
theorem readN_items {α} (p : P α) (body : α → Str) (c : Char) (hc : isWs c = true)
    (hskip : ∀ s, p (c :: s) = p s) (xs : List α) (r : Str)
    (hp : ∀ x ∈ xs, ∀ r', Sep r' → p (body x ++ r') = some (x, r')) :
    readN p xs.length (c :: (items body c xs ++ r)) = some (xs, c :: r) := by
  have := readN_itemsL p body c hc hskip xs r hp
  rw [← List.cons_append, items_shift]
  simpa using this

/-! ### hash -/

theorem Hash.load_save (h : Hash) (hk : h.ok) (r : Str) :
    Hash.load (h.save ++ r) = some (h, '\n' :: r) := by
  obtain ⟨h0, h1⟩ := hk
  simp only [Hash.load, Hash.save, P.bind_apply, List.append_assoc, List.cons_append,
    List.nil_append]
  rw [readU_showNat _ _ _ h0 (by simp)]
  simp only [readU_sp]
  rw [readU_showNat _ _ _ h1 (by simp)]
  rfl

/-! ### fitness -/

theorem floatsLoop_items (io : FloatIO F) (law : FloatLaw io) (f : List F)
    (hf : ∀ x ∈ f, io.finite x = true) (k : Nat) (hk : f.length ≤ k) :
    floatsLoop io k (items io.fmt ' ' f) = f := by
  induction f generalizing k with
  | nil =>
    cases k with
    | zero => rfl
    | succ k => simp [floatsLoop, items, readF, skipWs, lexFloat, lexZeros, lexBody]
  | cons x f ih =>
    cases k with
    | zero => simp at hk
    | succ k =>
      have hx := law.roundtrip x (' ' :: items io.fmt ' ' f) (hf x (by simp)) (by simp)
      simp only [items, List.flatMap_cons, List.append_assoc, List.cons_append, List.nil_append,
        floatsLoop] at hx ⊢
      rw [hx]
      simp only [List.cons.injEq, true_and]
      have := ih (fun y hy => hf y (by simp [hy])) k (by simpa using hk)
      cases k with
      | zero =>
        have : f = [] := by simpa using hk
        subst this; rfl
      | succ k =>
        simp only [items] at this
        simp only [floatsLoop, readF_sp] at this ⊢
        exact this

theorem fmt_ne_nil (io : FloatIO F) (law : FloatLaw io) (x : F) (hx : io.finite x = true) :
    io.fmt x ≠ [] := by
  intro h
  have := law.roundtrip x [] hx trivial
  simp [h, readF, skipWs, lexFloat, lexZeros, lexBody] at this

theorem items_no_nl (io : FloatIO F) (law : FloatLaw io) (f : List F)
    (hf : ∀ x ∈ f, io.finite x = true) : ∀ c ∈ items io.fmt ' ' f, (c != '\n') = true := by
  intro c hc
  simp only [items, List.mem_flatMap, List.mem_append, List.mem_singleton] at hc
  obtain ⟨x, hx, h | h⟩ := hc
  · have := law.noWs x c (hf x hx) h
    simp [isWs] at this
    simp [this.1.1.1.1.2]
  · subst h; decide

theorem items_head_not_ws (io : FloatIO F) (law : FloatLaw io) (x : F) (f : List F)
    (hx : io.finite x = true) :
    ∃ c t, items io.fmt ' ' (x :: f) = c :: t ∧ isWs c = false := by
  cases h : io.fmt x with
  | nil => exact absurd h (fmt_ne_nil io law x hx)
  | cons c t =>
    refine ⟨c, t ++ ' ' :: items io.fmt ' ' f, by simp [items, h], ?_⟩
    exact law.noWs x c hx (by simp [h])

theorem Fitness.load_save (io : FloatIO F) (law : FloatLaw io) (f : List F) (hk : Fitness.ok io f)
    (r : Str) : Fitness.load io (Fitness.save io f ++ r) = some (f, r) := by
  obtain ⟨hne, hf⟩ := hk
  cases f with
  | nil => exact absurd rfl hne
  | cons x f =>
    obtain ⟨c, t, hct, hws⟩ := items_head_not_ws io law x f (hf x (by simp))
    have hnl := items_no_nl io law (x :: f) hf
    simp only [Fitness.load, Fitness.save, P.bind_apply, getline, List.append_assoc]
    rw [hct] at hnl ⊢
    simp only [List.cons_append, skipWs_of_not_ws hws]
    have htw : ∀ (l : Str), (∀ c ∈ l, (c != '\n') = true) → ∀ r : Str,
        (l ++ '\n' :: r).takeWhile (· != '\n') = l ∧ (l ++ '\n' :: r).dropWhile (· != '\n') = '\n' :: r := by
      intro l hl r
      induction l with
      | nil => simp
      | cons a l ih =>
        have ha := hl a (by simp)
        have := ih (fun c hc => hl c (by simp [hc]))
        simp [ha, this]
    have h2 := htw (c :: t) hnl r
    simp only [List.cons_append] at h2
    simp only [List.nil_append, h2.1, h2.2, List.drop_one, List.tail_cons, P.pure_apply]
    rw [← hct]
    rw [floatsLoop_items io law (x :: f) hf _ ?_]
    simp only [items, List.flatMap_cons, List.length_append, List.length_cons, List.length_nil]
    have : ∀ (l : List F), l.length ≤ (List.flatMap (fun x => io.fmt x ++ [' ']) l).length := by
      intro l
      induction l with
      | nil => simp
      | cons a l ih => simp only [List.flatMap_cons, List.length_append, List.length_cons, List.length_nil]; omega
    have := this f
    omega

/-! ### i_ga, i_de -/

theorem IGa.load_save (x : IGa) (hk : x.ok) (r : Str) :
    IGa.load (x.save ++ r) = some (x, '\n' :: r) := by
  obtain ⟨ha, hl, hg⟩ := hk
  simp only [IGa.load, IGa.save, P.bind_apply, List.append_assoc, List.cons_append]
  rw [readU_showNat _ _ _ ha (by simp)]
  simp only [readU_nl]
  rw [readU_showNat _ _ _ hl (by simp)]
  simp only []
  rw [readN_items (readI I32) showInt '\n' (by decide) (readI_nl I32) x.genome r
    (fun g hg' r' hr' => readI_showInt I32 g r' (hg g hg').1 (hg g hg').2 hr')]
  rfl

theorem IDe.load_save (io : FloatIO F) (law : FloatLaw io) (x : IDe F) (hk : x.ok io) (r : Str) :
    IDe.load io (x.save io ++ r) = some (x, '\n' :: r) := by
  obtain ⟨ha, hl, hg⟩ := hk
  simp only [IDe.load, IDe.save, P.bind_apply, List.append_assoc, List.cons_append]
  rw [readU_showNat _ _ _ ha (by simp)]
  simp only [readU_nl]
  rw [readU_showNat _ _ _ hl (by simp)]
  simp only []
  rw [readN_items (readF io) io.fmt '\n' (by decide) (readF_nl io) x.genome r
    (fun g hg' r' hr' => law.roundtrip g r' (hg g hg') hr')]
  rfl

/-! ### matrix -/

theorem elemP_nl (k : ElemKind) (s : Str) : elemP k ('\n' :: s) = elemP k s := by
  cases k <;> simp [elemP, P.bind_apply]

theorem elemP_show (k : ElemKind) (e : Int) (he : elemOK k e) (r : Str) (hr : Sep r) :
    elemP k (showInt e ++ r) = some (e, r) := by
  cases k with
  | i32 => exact readI_showInt I32 e r he.1 he.2 hr
  | u32 =>
    obtain ⟨h0, h1⟩ := he
    have hs : showInt e = showNat e.natAbs := by simp [showInt]; omega
    have hle : e.natAbs ≤ U32 := by omega
    simp only [elemP, P.bind_apply, hs]
    rw [readU_showNat _ _ _ hle hr]
    simp only [P.pure_apply]
    congr 2
    omega

theorem Matrix.load_save (k : ElemKind) (m : Matrix) (hk : m.ok k) (r : Str) :
    Matrix.load k (m.save ++ r) = some (m, '\n' :: r) := by
  obtain ⟨hc, hr, hsz, he⟩ := hk
  simp only [Matrix.load, Matrix.save, P.bind_apply, List.append_assoc, List.cons_append]
  rw [readU_showNat _ _ _ hc (by simp)]
  simp only [readU_sp]
  rw [readU_showNat _ _ _ hr (by simp)]
  simp only [hsz]
  rw [readN_items (elemP k) showInt '\n' (by decide) (elemP_nl k) m.data r
    (fun e he' r' hr' => elemP_show k e (he e he') r' hr')]
  rfl

/-! ### distribution -/

theorem mapInsert_append (io : FloatIO F) (k : F) (v : Nat) (l : List (F × Nat))
    (h : ∀ a ∈ l, io.lt a.1 k = true ∧ io.lt k a.1 = false) :
    mapInsert io k v l = l ++ [(k, v)] := by
  induction l with
  | nil => rfl
  | cons a l ih =>
    obtain ⟨h1, h2⟩ := h a (by simp)
    obtain ⟨k', v'⟩ := a
    simp only at h1 h2
    have := ih (fun b hb => h b (by simp [hb]))
    simp [mapInsert, h2, h1, this]

theorem foldl_mapInsert (io : FloatIO F) (l2 l1 : List (F × Nat)) (h : KeysSorted io (l1 ++ l2)) :
    l2.foldl (fun s kv => mapInsert io kv.1 kv.2 s) l1 = l1 ++ l2 := by
  induction l2 generalizing l1 with
  | nil => simp
  | cons a l2 ih =>
    simp only [List.foldl_cons]
    have hs : ∀ b ∈ l1, io.lt b.1 a.1 = true ∧ io.lt a.1 b.1 = false := by
      intro b hb
      have := List.pairwise_append.mp h
      exact this.2.2 b hb a (by simp)
    rw [mapInsert_append io a.1 a.2 l1 hs]
    have : l1 ++ [(a.1, a.2)] ++ l2 = l1 ++ a :: l2 := by simp
    rw [ih (l1 ++ [(a.1, a.2)]) (by rw [this]; exact h), this]

theorem Dist.load_save (io : FloatIO F) (law : FloatLaw io) (d : Dist F) (hk : d.ok io) (r : Str) :
    Dist.load io (d.save io ++ r) = some (d, '\n' :: r) := by
  obtain ⟨hc, hm, hmn, hmx, hm2, hl, hs, hkv⟩ := hk
  simp only [Dist.load, Dist.save, P.bind_apply, List.append_assoc, List.cons_append]
  rw [readU_showNat _ _ _ hc (by simp)]
  simp only [readF_nl]
  rw [law.roundtrip _ _ hm (by simp)]
  simp only [readF_nl]
  rw [law.roundtrip _ _ hmn (by simp)]
  simp only [readF_nl]
  rw [law.roundtrip _ _ hmx (by simp)]
  simp only [readF_nl]
  rw [law.roundtrip _ _ hm2 (by simp)]
  simp only [readU_nl]
  rw [readU_showNat _ _ _ hl (by simp)]
  simp only []
  rw [readN_items _ (fun kv : F × Nat => io.fmt kv.1 ++ ' ' :: showNat kv.2) '\n' (by decide)
    (by intro s; simp [P.bind_apply]) d.seen r ?_]
  · simp only [P.pure_apply]
    rw [foldl_mapInsert io d.seen [] (by simpa using hs)]
    rfl
  · intro kv hkv' r' hr'
    obtain ⟨hf, hv⟩ := hkv kv hkv'
    simp only [P.bind_apply, List.append_assoc, List.cons_append]
    rw [law.roundtrip _ _ hf (by simp)]
    simp only [readU_sp]
    rw [readU_showNat _ _ _ hv hr']
    rfl

end Vita.C11
