import Vita.C11.Model
import Vita.C11.Lemmas
/-!
  C11 — `matrix<T>` for every integral element type `T` (utility/matrix.tcc is a template guarded by
  `static_assert(std::is_integral<T>)`).

  * `short`, `int`, `long`, `long long` and their unsigned versions are written by the arithmetic
    `operator<<` and read by the arithmetic `operator>>` (range check = failbit; for unsigned types a
    leading `-` wraps): `IntKind.sint H` / `IntKind.uint M`.
  * the character types (`char`, `signed char`, `unsigned char`, i.e. also `std::int8_t` / `std::uint8_t`):
    as repaired (finding C11-matrix-char) `save` writes `+e` (the promoted value: a number) and `load` reads
    an `int` and checks the range — again `sint 127` / `uint 255` for `signed char` / `unsigned char`.
    `elemRaw*` keep the unrepaired format (one raw byte per element, read by the white-space-skipping
    character extraction) for the counterexample theorem.
  `Model.lean`'s `Matrix.load .i32 / .u32` are the instances at `sint I32` / `uint U32`.
-/
namespace Vita.C11

inductive IntKind
  | sint (H : Nat)      -- signed, range [-(H+1), H]
  | uint (M : Nat)      -- unsigned, range [0, M]
deriving DecidableEq, Repr

def I8 : Nat := 127
def U8 : Nat := 255
def I16 : Nat := 32767
def I64 : Nat := 9223372036854775807

def IntKind.read : IntKind → P Int
  | .sint H => readI H
  | .uint M => do let n ← readU M; pure (n : Int)

def IntKind.ok : IntKind → Int → Prop
  | .sint H, e => -(H + 1 : Int) ≤ e ∧ e ≤ H
  | .uint M, e => 0 ≤ e ∧ e ≤ M

def MatrixG.load (k : IntKind) : P Matrix := do
  let cs ← readU U64
  let rs ← readU U64
  let v ← readN k.read (cs * rs)
  pure ⟨cs, v⟩

def MatrixG.ok (k : IntKind) (m : Matrix) : Prop :=
  m.cols ≤ U64 ∧ m.rows ≤ U64 ∧ m.cols * m.rows = m.data.length ∧ ∀ e ∈ m.data, k.ok e

/-! ### the unrepaired character format -/

/-- `out << e` for a character type: the byte itself -/
def elemRawShow (e : Int) : Str := [Char.ofNat (e % 256).toNat]

/-- `in >> e` for `unsigned char`: skip white space, take one byte -/
def elemRawRead : P Int := fun s =>
  match skipWs s with
  | [] => none
  | c :: r => some ((c.toNat : Int), r)

def MatrixRaw.save (m : Matrix) : Str :=
  showNat m.cols ++ ' ' :: showNat m.rows ++ '\n' :: items elemRawShow '\n' m.data

def MatrixRaw.load : P Matrix := do
  let cs ← readU U64
  let rs ← readU U64
  let v ← readN elemRawRead (cs * rs)
  pure ⟨cs, v⟩

/-! ### lemmas -/

theorem IntKind.read_nl (k : IntKind) (s : Str) : k.read ('\n' :: s) = k.read s := by
  cases k <;> simp [IntKind.read, P.bind_apply]

theorem IntKind.read_show (k : IntKind) (e : Int) (he : k.ok e) (r : Str) (hr : Sep r) :
    k.read (showInt e ++ r) = some (e, r) := by
  cases k with
  | sint H => exact readI_showInt H e r he.1 he.2 hr
  | uint M =>
    obtain ⟨h0, h1⟩ := he
    have hs : showInt e = showNat e.natAbs := by simp [showInt]; omega
    have hle : e.natAbs ≤ M := by omega
    simp only [IntKind.read, P.bind_apply, hs]
    rw [readU_showNat _ _ _ hle hr]
    simp only [P.pure_apply]
    congr 2
    omega

theorem MatrixG.load_save (k : IntKind) (m : Matrix) (hk : MatrixG.ok k m) (r : Str) :
    MatrixG.load k (m.save ++ r) = some (m, '\n' :: r) := by
  obtain ⟨hc, hr, hsz, he⟩ := hk
  simp only [MatrixG.load, Matrix.save, P.bind_apply, List.append_assoc, List.cons_append]
  rw [readU_showNat _ _ _ hc (by simp)]
  simp only [readU_sp]
  rw [readU_showNat _ _ _ hr (by simp)]
  simp only [hsz]
  rw [readN_items k.read showInt '\n' (by decide) (IntKind.read_nl k) m.data r
    (fun e he' r' hr' => IntKind.read_show k e (he e he') r' hr')]
  rfl

/-- the two kinds of `Model.lean` are instances -/
theorem matrixG_i32 : MatrixG.load (.sint I32) = Matrix.load .i32 := rfl
theorem matrixG_u32 : MatrixG.load (.uint U32) = Matrix.load .u32 := rfl

end Vita.C11
