import Vita.C11.Text
/-!
  C11 — `save` / `load` of the simple persistable types, written as the C++ writes / reads.

  Each `save` is the exact byte string (order, counts, separators) the C++ `save` inserts into
  the stream; each `load` is the sequence of extractions of the C++ `load`, in the same order,
  with the same checks.  Sources: `src/kernel/cache_hash.cc`, `fitness.tcc`, `ga/i_ga.cc`,
  `ga/i_de.cc`, `individual.tcc`, `src/utility/matrix.tcc`, `distribution.tcc`.
-/
namespace Vita.C11

variable {F : Type}

/-- `c`-terminated items, as every `for (…) out << x << c` loop writes them -/
def items {α} (body : α → Str) (c : Char) (xs : List α) : Str := xs.flatMap (fun x => body x ++ [c])

/-! ### `hash_t` (cache_hash.cc) -/

structure Hash where
  d0 : Nat
  d1 : Nat
deriving DecidableEq, Repr

def Hash.save (h : Hash) : Str := showNat h.d0 ++ ' ' :: showNat h.d1 ++ ['\n']

def Hash.load : P Hash := do
  let a ← readU U64
  let b ← readU U64
  pure ⟨a, b⟩

def Hash.ok (h : Hash) : Prop := h.d0 ≤ U64 ∧ h.d1 ≤ U64

/-! ### `basic_fitness_t<double>` (fitness.tcc) : one line, every value followed by a blank -/

def Fitness.save (io : FloatIO F) (f : List F) : Str := items io.fmt ' ' f ++ ['\n']

/-- `while (load_float_from_stream(line_in, &elem)) tmp.push_back(elem);` -/
def floatsLoop (io : FloatIO F) : Nat → Str → List F
  | 0, _ => []
  | k + 1, s => match readF io s with
    | none => []
    | some (v, s') => v :: floatsLoop io k s'

def Fitness.load (io : FloatIO F) : P (List F) := do
  let line ← getline
  pure (floatsLoop io line.length line)

def Fitness.ok (io : FloatIO F) (f : List F) : Prop := f ≠ [] ∧ ∀ x ∈ f, io.finite x = true

/-! ### `individual<Derived>::save/load` wrapping `i_ga` / `i_de` (individual.tcc, i_ga.cc, i_de.cc) -/

structure IGa where
  age : Nat
  genome : List Int
deriving DecidableEq, Repr

def IGa.save (x : IGa) : Str :=
  showNat x.age ++ '\n' :: showNat x.genome.length ++ '\n' :: items showInt '\n' x.genome

def IGa.load : P IGa := do
  let age ← readU U32
  let sz ← readU U64
  let v ← readN (readI I32) sz
  pure ⟨age, v⟩

def IGa.ok (x : IGa) : Prop :=
  x.age ≤ U32 ∧ x.genome.length ≤ U64 ∧ ∀ g ∈ x.genome, -(I32 + 1 : Int) ≤ g ∧ g ≤ I32

structure IDe (F : Type) where
  age : Nat
  genome : List F

def IDe.save (io : FloatIO F) (x : IDe F) : Str :=
  showNat x.age ++ '\n' :: showNat x.genome.length ++ '\n' :: items io.fmt '\n' x.genome

def IDe.load (io : FloatIO F) : P (IDe F) := do
  let age ← readU U32
  let sz ← readU U64
  let v ← readN (readF io) sz
  pure ⟨age, v⟩

def IDe.ok (io : FloatIO F) (x : IDe F) : Prop :=
  x.age ≤ U32 ∧ x.genome.length ≤ U64 ∧ ∀ g ∈ x.genome, io.finite g = true

/-! ### `matrix<T>` for integral `T` (matrix.tcc) -/

inductive ElemKind | i32 | u32
deriving DecidableEq, Repr

def elemP : ElemKind → P Int
  | .i32 => readI I32
  | .u32 => do let n ← readU U32; pure (n : Int)

def elemOK : ElemKind → Int → Prop
  | .i32, e => -(I32 + 1 : Int) ≤ e ∧ e ≤ I32
  | .u32, e => 0 ≤ e ∧ e ≤ U32

structure Matrix where
  cols : Nat
  data : List Int
deriving DecidableEq, Repr

def Matrix.rows (m : Matrix) : Nat := if m.cols = 0 then 0 else m.data.length / m.cols

def Matrix.save (m : Matrix) : Str :=
  showNat m.cols ++ ' ' :: showNat m.rows ++ '\n' :: items showInt '\n' m.data

def Matrix.load (k : ElemKind) : P Matrix := do
  let cs ← readU U64
  let rs ← readU U64
  let v ← readN (elemP k) (cs * rs)
  pure ⟨cs, v⟩

def Matrix.ok (k : ElemKind) (m : Matrix) : Prop :=
  m.cols ≤ U64 ∧ m.rows ≤ U64 ∧ m.cols * m.rows = m.data.length ∧ ∀ e ∈ m.data, elemOK k e

/-! ### `distribution<double>` (distribution.tcc) -/

structure Dist (F : Type) where
  count : Nat
  mean : F
  min : F
  max : F
  m2 : F
  seen : List (F × Nat)

def Dist.save (io : FloatIO F) (d : Dist F) : Str :=
  showNat d.count ++ '\n' :: io.fmt d.mean ++ '\n' :: io.fmt d.min ++ '\n' :: io.fmt d.max ++ '\n' ::
  io.fmt d.m2 ++ '\n' :: showNat d.seen.length ++ '\n' ::
  items (fun kv : F × Nat => io.fmt kv.1 ++ ' ' :: showNat kv.2) '\n' d.seen

/-- `s[key] = val` on a `std::map<double, uintmax_t>` kept as its sorted list of entries -/
def mapInsert (io : FloatIO F) (k : F) (v : Nat) : List (F × Nat) → List (F × Nat)
  | [] => [(k, v)]
  | (k', v') :: t =>
    if io.lt k k' then (k, v) :: (k', v') :: t
    else if io.lt k' k then (k', v') :: mapInsert io k v t
    else (k', v) :: t

def Dist.load (io : FloatIO F) : P (Dist F) := do
  let c ← readU U64
  let m ← readF io
  let mn ← readF io
  let mx ← readF io
  let m2 ← readF io
  let n ← readU U64
  let kvs ← readN (do let k ← readF io; let v ← readU U64; pure (k, v)) n
  pure ⟨c, m, mn, mx, m2, kvs.foldl (fun s kv => mapInsert io kv.1 kv.2 s) []⟩

/-- keys strictly increasing for `operator<` (what iterating a `std::map` yields) -/
def KeysSorted (io : FloatIO F) (l : List (F × Nat)) : Prop :=
  l.Pairwise (fun a b => io.lt a.1 b.1 = true ∧ io.lt b.1 a.1 = false)

def Dist.ok (io : FloatIO F) (d : Dist F) : Prop :=
  d.count ≤ U64 ∧ io.finite d.mean = true ∧ io.finite d.min = true ∧ io.finite d.max = true ∧
  io.finite d.m2 = true ∧ d.seen.length ≤ U64 ∧ KeysSorted io d.seen ∧
  ∀ kv ∈ d.seen, io.finite kv.1 = true ∧ kv.2 ≤ U64

end Vita.C11
