import Vita.C11.Lemmas
/-!
  C11 — save followed by load reproduces the object (property theorems).

  For every persistable type `X` modelled in `Model.lean`:
    * `X_load_save`      : `X.load (X.save x ++ r) = some (x, rest ++ r)` — loading the bytes written by
                           `save` (followed by anything) yields exactly `x` and leaves only the final
                           newline (nothing for line-oriented `fitness_t`) unread;
    * `X_save_load_save` : whatever `load` returns on `save x` saves to the same bytes.
  `x` ranges over all values satisfying the type's invariant `X.ok` (ranges of the C++ integer
  types, finite doubles, `std::map` key order).  Doubles are abstract: the theorems hold for every
  `FloatIO` satisfying `FloatLaw` (printf-17-digits / strtod round trip, a hypothesis).

  Equality of the model records *is* the observational equality of the property: the records hold
  the genome, the age, the values — the cached signature is a function of the genome (C03) and is
  not part of the record.
-/
namespace Vita.C11

variable {F : Type}

/-! ### hash_t / signature -/
theorem hash_load_save (h : Hash) (hk : h.ok) (r : Str) :
    Hash.load (h.save ++ r) = some (h, '\n' :: r) := Hash.load_save h hk r

theorem hash_save_load_save (h h' : Hash) (hk : h.ok) (rest : Str)
    (hl : Hash.load h.save = some (h', rest)) : h'.save = h.save := by
  have := Hash.load_save h hk []
  simp only [List.append_nil] at this
  rw [this] at hl
  cases hl; rfl

/-! ### fitness_t -/
theorem fitness_load_save (io : FloatIO F) (law : FloatLaw io) (f : List F) (hk : Fitness.ok io f)
    (r : Str) : Fitness.load io (Fitness.save io f ++ r) = some (f, r) :=
  Fitness.load_save io law f hk r

theorem fitness_save_load_save (io : FloatIO F) (law : FloatLaw io) (f f' : List F)
    (hk : Fitness.ok io f) (rest : Str) (hl : Fitness.load io (Fitness.save io f) = some (f', rest)) :
    Fitness.save io f' = Fitness.save io f := by
  have := Fitness.load_save io law f hk []
  simp only [List.append_nil] at this
  rw [this] at hl
  cases hl; rfl

/-- The invariant `f ≠ []` is needed: an *empty* fitness is written as an empty line, which
    `std::getline(in >> std::ws, …)` cannot read back (finding C11-fit-empty). -/
theorem fitness_empty_not_loadable (io : FloatIO F) :
    Fitness.load io (Fitness.save io []) = none := by
  simp [Fitness.load, Fitness.save, items, P.bind_apply, getline, skipWs, isWs]

/-! ### i_ga -/
theorem iga_load_save (x : IGa) (hk : x.ok) (r : Str) :
    IGa.load (x.save ++ r) = some (x, '\n' :: r) := IGa.load_save x hk r

theorem iga_save_load_save (x x' : IGa) (hk : x.ok) (rest : Str)
    (hl : IGa.load x.save = some (x', rest)) : x'.save = x.save := by
  have := IGa.load_save x hk []
  simp only [List.append_nil] at this
  rw [this] at hl
  cases hl; rfl

/-! ### i_de -/
theorem ide_load_save (io : FloatIO F) (law : FloatLaw io) (x : IDe F) (hk : x.ok io) (r : Str) :
    IDe.load io (x.save io ++ r) = some (x, '\n' :: r) := IDe.load_save io law x hk r

theorem ide_save_load_save (io : FloatIO F) (law : FloatLaw io) (x x' : IDe F) (hk : x.ok io)
    (rest : Str) (hl : IDe.load io (x.save io) = some (x', rest)) : x'.save io = x.save io := by
  have := IDe.load_save io law x hk []
  simp only [List.append_nil] at this
  rw [this] at hl
  cases hl; rfl

/-! ### matrix<int>, matrix<unsigned> -/
theorem matrix_load_save (k : ElemKind) (m : Matrix) (hk : m.ok k) (r : Str) :
    Matrix.load k (m.save ++ r) = some (m, '\n' :: r) := Matrix.load_save k m hk r

theorem matrix_save_load_save (k : ElemKind) (m m' : Matrix) (hk : m.ok k) (rest : Str)
    (hl : Matrix.load k m.save = some (m', rest)) : m'.save = m.save := by
  have := Matrix.load_save k m hk []
  simp only [List.append_nil] at this
  rw [this] at hl
  cases hl; rfl

/-! ### distribution<double> -/
theorem dist_load_save (io : FloatIO F) (law : FloatLaw io) (d : Dist F) (hk : d.ok io) (r : Str) :
    Dist.load io (d.save io ++ r) = some (d, '\n' :: r) := Dist.load_save io law d hk r

theorem dist_save_load_save (io : FloatIO F) (law : FloatLaw io) (d d' : Dist F) (hk : d.ok io)
    (rest : Str) (hl : Dist.load io (d.save io) = some (d', rest)) : d'.save io = d.save io := by
  have := Dist.load_save io law d hk []
  simp only [List.append_nil] at this
  rw [this] at hl
  cases hl; rfl

/-! ### non-vacuity -/

/-- a two-valued toy number type whose texts go through the *same* lexer -/
def toyIO : FloatIO Bool where
  fmt b := if b then ['1'] else ['0']
  conv s := if s = ['1'] then some true else if s = ['0'] then some false else none
  finite _ := true
  lt a b := !a && b

theorem ws_cases {c : Char} (h : isWs c = true) :
    c = ' ' ∨ c = '\n' ∨ c = '\t' ∨ c = '\r' ∨ c = '\x0b' ∨ c = '\x0c' := by
  simp [isWs] at h
  rcases h with ((((h | h) | h) | h) | h) | h <;> simp [h]

theorem lexBody_ws (c : Char) (t : Str) (h : isWs c = true) (fm fd fs : Bool) :
    lexBody (c :: t) fm fd fs = ([], c :: t) := by
  rcases ws_cases h with h | h | h | h | h | h <;> subst h <;> unfold lexBody <;> simp

/-- the hypothesis `FloatLaw` is satisfiable -/
theorem toyIO_law : FloatLaw toyIO where
  roundtrip := by
    intro x r _ hr
    cases r with
    | nil => cases x <;> rfl
    | cons c t =>
      have hc := ws_cases hr
      cases x <;> rcases hc with h | h | h | h | h | h <;> subst h <;>
        simp [readF, skipWs, isWs, lexFloat, lexZeros, lexBody, lexBody_ws, toyIO]
  noWs := by
    intro x c _ hc
    cases x <;> simp [toyIO] at hc <;> subst hc <;> decide

example : Hash.ok ⟨18446744073709551615, 42⟩ := by unfold Hash.ok U64; decide
example : Fitness.ok toyIO [true, false, true] := by simp [Fitness.ok, toyIO]
example : IGa.ok ⟨4294967295, [-2147483648, 2147483647, 0]⟩ := by
  simp [IGa.ok, U32, U64, I32]
example : IDe.ok toyIO ⟨7, [false, true]⟩ := by simp [IDe.ok, toyIO, U32, U64]
example : Matrix.ok .i32 ⟨3, [1, -2, 3, 4, 5, -2147483648]⟩ := by
  simp [Matrix.ok, Matrix.rows, elemOK, U64, I32]
example : Dist.ok toyIO ⟨3, true, false, true, false, [(false, 1), (true, 2)]⟩ := by
  simp [Dist.ok, KeysSorted, toyIO, U64]
/-- and the theorems really compute on such values -/
example : IGa.load (IGa.save ⟨5, [-7, 12]⟩) = some (⟨5, [-7, 12]⟩, ['\n']) := by decide

end Vita.C11
