import Vita.C11.Lemmas
import Vita.C11.BigLemmas
import Vita.C11.CacheLemmas
import Vita.C11.LambdaLemmas
import Vita.C11.Toy
/-!
  C11 — save followed by load reproduces the object (property theorems).

  For every persistable type `X` modelled in `Model.lean`:
    * `X_load_save`      : `X.load (X.save x ++ r) = some (x, rest ++ r)` — loading the bytes written by
                           `save` (followed by anything) yields exactly `x` and leaves only the final
                           newline (nothing for line-oriented `fitness_t`) unread;
    * `X_save_load_save` : whatever `load` returns on `save x` saves to the same bytes.
  `x` ranges over all values satisfying the type's invariant `X.ok` (ranges of the C++ integer
  types, finite doubles, `std::map` key order).  Doubles are abstract: the theorems hold for every
  `FloatIO` satisfying `FloatLaw` (printf-17-digits / strtod round trip, a hypothesis).

  Equality of the model records *is* the observational equality of the property: the records hold
  the genome, the age, the values — the cached signature is a function of the genome (C03) and is
  not part of the record.
-/
namespace Vita.C11

variable {F : Type}

/-! ### hash_t / signature -/
theorem hash_load_save (h : Hash) (hk : h.ok) (r : Str) :
    Hash.load (h.save ++ r) = some (h, '\n' :: r) := Hash.load_save h hk r

theorem hash_save_load_save (h h' : Hash) (hk : h.ok) (rest : Str)
    (hl : Hash.load h.save = some (h', rest)) : h'.save = h.save := by
  have := Hash.load_save h hk []
  simp only [List.append_nil] at this
  rw [this] at hl
  cases hl; rfl

/-! ### fitness_t -/
theorem fitness_load_save (io : FloatIO F) (law : FloatLaw io) (f : List F) (hk : Fitness.ok io f)
    (r : Str) : Fitness.load io (Fitness.save io f ++ r) = some (f, r) :=
  Fitness.load_save io law f hk r

theorem fitness_save_load_save (io : FloatIO F) (law : FloatLaw io) (f f' : List F)
    (hk : Fitness.ok io f) (rest : Str) (hl : Fitness.load io (Fitness.save io f) = some (f', rest)) :
    Fitness.save io f' = Fitness.save io f := by
  have := Fitness.load_save io law f hk []
  simp only [List.append_nil] at this
  rw [this] at hl
  cases hl; rfl

/-- The invariant `f ≠ []` is needed: an *empty* fitness is written as an empty line, which
    `std::getline(in >> std::ws, …)` cannot read back (finding C11-fit-empty). -/
theorem fitness_empty_not_loadable (io : FloatIO F) :
    Fitness.load io (Fitness.save io []) = none := by
  simp [Fitness.load, Fitness.save, items, P.bind_apply, getline, skipWs, isWs]

/-! ### i_ga -/
theorem iga_load_save (x : IGa) (hk : x.ok) (r : Str) :
    IGa.load (x.save ++ r) = some (x, '\n' :: r) := IGa.load_save x hk r

theorem iga_save_load_save (x x' : IGa) (hk : x.ok) (rest : Str)
    (hl : IGa.load x.save = some (x', rest)) : x'.save = x.save := by
  have := IGa.load_save x hk []
  simp only [List.append_nil] at this
  rw [this] at hl
  cases hl; rfl

/-! ### i_de -/
theorem ide_load_save (io : FloatIO F) (law : FloatLaw io) (x : IDe F) (hk : x.ok io) (r : Str) :
    IDe.load io (x.save io ++ r) = some (x, '\n' :: r) := IDe.load_save io law x hk r

theorem ide_save_load_save (io : FloatIO F) (law : FloatLaw io) (x x' : IDe F) (hk : x.ok io)
    (rest : Str) (hl : IDe.load io (x.save io) = some (x', rest)) : x'.save io = x.save io := by
  have := IDe.load_save io law x hk []
  simp only [List.append_nil] at this
  rw [this] at hl
  cases hl; rfl

/-! ### matrix<int>, matrix<unsigned> -/
theorem matrix_load_save (k : ElemKind) (m : Matrix) (hk : m.ok k) (r : Str) :
    Matrix.load k (m.save ++ r) = some (m, '\n' :: r) := Matrix.load_save k m hk r

theorem matrix_save_load_save (k : ElemKind) (m m' : Matrix) (hk : m.ok k) (rest : Str)
    (hl : Matrix.load k m.save = some (m', rest)) : m'.save = m.save := by
  have := Matrix.load_save k m hk []
  simp only [List.append_nil] at this
  rw [this] at hl
  cases hl; rfl

/-! ### distribution<double> -/
theorem dist_load_save (io : FloatIO F) (law : FloatLaw io) (d : Dist F) (hk : d.ok io) (r : Str) :
    Dist.load io (d.save io ++ r) = some (d, '\n' :: r) := Dist.load_save io law d hk r

theorem dist_save_load_save (io : FloatIO F) (law : FloatLaw io) (d d' : Dist F) (hk : d.ok io)
    (rest : Str) (hl : Dist.load io (d.save io) = some (d', rest)) : d'.save io = d.save io := by
  have := Dist.load_save io law d hk []
  simp only [List.append_nil] at this
  rw [this] at hl
  cases hl; rfl

/-! ### i_mep (any symbol table `tab`, i.e. any symbol set) -/
theorem imep_load_save (io : FloatIO F) (law : FloatLaw io) (tab : SymTab) (x : IMep F)
    (hk : x.ok io tab) (r : Str) : IMep.load io tab (x.save io ++ r) = some (x, '\n' :: r) :=
  IMep.load_save io law tab x hk r

theorem imep_save_load_save (io : FloatIO F) (law : FloatLaw io) (tab : SymTab) (x x' : IMep F)
    (hk : x.ok io tab) (rest : Str) (hl : IMep.load io tab (x.save io) = some (x', rest)) :
    x'.save io = x.save io := by
  have := IMep.load_save io law tab x hk []
  simp only [List.append_nil] at this
  rw [this] at hl
  cases hl; rfl

/-! ### team<i_mep> -/
theorem team_load_save (io : FloatIO F) (law : FloatLaw io) (tab : SymTab) (t : List (IMep F))
    (hk : Team.ok io tab t) (r : Str) : Team.load io tab (Team.save io t ++ r) = some (t, '\n' :: r) :=
  Team.load_save io law tab t hk r

theorem team_save_load_save (io : FloatIO F) (law : FloatLaw io) (tab : SymTab) (t t' : List (IMep F))
    (hk : Team.ok io tab t) (rest : Str) (hl : Team.load io tab (Team.save io t) = some (t', rest)) :
    Team.save io t' = Team.save io t := by
  have := Team.load_save io law tab t hk []
  simp only [List.append_nil] at this
  rw [this] at hl
  cases hl; rfl

/-! ### population<i_mep>: any number of layers, any allowed sizes, partially filled layers -/
theorem pop_load_save (io : FloatIO F) (law : FloatLaw io) (tab : SymTab) (p : List (Layer F))
    (hk : Pop.ok io tab p) (r : Str) : Pop.load io tab (Pop.save io p ++ r) = some (p, '\n' :: r) :=
  Pop.load_save io law tab p hk r

theorem pop_save_load_save (io : FloatIO F) (law : FloatLaw io) (tab : SymTab) (p p' : List (Layer F))
    (hk : Pop.ok io tab p) (rest : Str) (hl : Pop.load io tab (Pop.save io p) = some (p', rest)) :
    Pop.save io p' = Pop.save io p := by
  have := Pop.load_save io law tab p hk []
  simp only [List.append_nil] at this
  rw [this] at hl
  cases hl; rfl

/-! ### summary<i_mep> -/
theorem summary_load_save (io : FloatIO F) (law : FloatLaw io) (tab : SymTab) (s : Summary F)
    (hk : s.ok io tab) (r : Str) : Summary.load io tab (s.save io ++ r) = some (s, '\n' :: r) :=
  Summary.load_save io law tab s hk r

theorem summary_save_load_save (io : FloatIO F) (law : FloatLaw io) (tab : SymTab) (s s' : Summary F)
    (hk : s.ok io tab) (rest : Str) (hl : Summary.load io tab (s.save io) = some (s', rest)) :
    s'.save io = s.save io := by
  have := Summary.load_save io law tab s hk []
  simp only [List.append_nil] at this
  rw [this] at hl
  cases hl; rfl

/-! ### the fitness cache, also after `clear()` / `clear(key)` -/

/-- Loading what `cache::save` wrote into a fresh cache of the same size succeeds and yields the
    cache `c'` that keeps exactly the live slots of `c` (all other slots value-initialised). -/
theorem cache_load_save (io : FloatIO F) (law : FloatLaw io) (c : Cache F) (hk : c.ok io) (r : Str) :
    ∃ rest, Cache.loadInto io (Cache.fresh c.bits) (c.save io ++ r)
      = some (⟨c.bits, c.table.map (keepLive c.sl), c.sl⟩, rest) :=
  Cache.load_save io law c hk r

/-- identical cache lookups: every non-empty signature finds the same fitness (or nothing) in the
    reloaded cache as in the original -/
theorem cache_lookups_equal (io : FloatIO F) (law : FloatLaw io) (c c' : Cache F) (hk : c.ok io)
    (rest : Str) (hl : Cache.loadInto io (Cache.fresh c.bits) (c.save io) = some (c', rest))
    (h : Hash) (hne : h.isEmpty = false) : c'.find h = c.find h := by
  obtain ⟨rest', he⟩ := Cache.load_save io law c hk []
  simp only [List.append_nil] at he
  rw [he] at hl
  cases hl
  exact find_reloaded c hk.2.1 h hne

theorem cache_save_load_save (io : FloatIO F) (law : FloatLaw io) (c c' : Cache F) (hk : c.ok io)
    (rest : Str) (hl : Cache.loadInto io (Cache.fresh c.bits) (c.save io) = some (c', rest)) :
    c'.save io = c.save io := by
  obtain ⟨rest', he⟩ := Cache.load_save io law c hk []
  simp only [List.append_nil] at he
  rw [he] at hl
  cases hl
  exact save_reloaded io c hk.2.1

/-- the invariant is the one of every cache reached from `cache(bits)` by any history of
    `insert` (non-empty keys, non-empty finite fitness), `clear()` (fewer than 2^32 of them, cf.
    the seal-wrap finding of C04) and `clear(key)` -/
theorem cache_reach_fresh (io : FloatIO F) (bits : Nat) (hb : 2 ^ bits ≤ U64) :
    (Cache.fresh bits : Cache F).Reach io := Cache.reach_fresh io bits hb
theorem cache_reach_insert (io : FloatIO F) (c : Cache F) (hc : c.Reach io) (h : Hash) (f : List F)
    (hh : h.ok) (hf : Fitness.ok io f) : (c.insert h f).Reach io := Cache.reach_insert io c hc h f hh hf
theorem cache_reach_clear (io : FloatIO F) (c : Cache F) (hc : c.Reach io) (hlt : c.sl + 1 ≤ U32) :
    c.clear.Reach io := Cache.reach_clear io c hc hlt
theorem cache_reach_clearKey (io : FloatIO F) (c : Cache F) (hc : c.Reach io) (h : Hash) :
    (c.clearKey h).Reach io := Cache.reach_clearKey io c hc h

/-! ### trained models: `serialize::save` then `serialize::lambda::load`, all eight kinds
    (regression, dynamic slot, gaussian, binary and their `TEAM_` variants) -/
theorem lambda_load_save (io : FloatIO F) (law : FloatLaw io) (tab : SymTab) (x : Lambda F)
    (hk : x.ok io tab) (r : Str) : Lambda.load io tab (x.save io ++ r) = some (x, x.tail ++ r) :=
  Lambda.load_save io law tab x hk r

theorem lambda_save_load_save (io : FloatIO F) (law : FloatLaw io) (tab : SymTab) (x x' : Lambda F)
    (hk : x.ok io tab) (rest : Str) (hl : Lambda.load io tab (x.save io) = some (x', rest)) :
    x'.save io = x.save io := by
  have := Lambda.load_save io law tab x hk []
  simp only [List.append_nil] at this
  rw [this] at hl
  cases hl; rfl

/-- class names as they come out of a dataset -/
example : Names.ok [['I', 'r', 'i', 's', ' ', 's'], [], ['C', '3']] := by
  refine ⟨by decide, by decide, by decide, 'I', ['r', 'i', 's', ' ', 's'], rfl, by decide⟩

/-! ### non-vacuity -/

/-- the hypothesis `FloatLaw` is satisfiable -/
theorem toyIO_law : FloatLaw toyIO where
  roundtrip := by
    intro x r _ hr
    cases r with
    | nil => cases x <;> rfl
    | cons c t =>
      have hc := ws_cases hr
      cases x <;> rcases hc with h | h | h | h | h | h <;> subst h <;>
        simp [readF, skipWs, isWs, lexFloat, lexZeros, lexBody, lexBody_ws, toyIO]
  noWs := by
    intro x c _ hc
    cases x <;> simp [toyIO] at hc <;> subst hc <;> decide

example : Hash.ok ⟨18446744073709551615, 42⟩ := by unfold Hash.ok U64; decide
example : Fitness.ok toyIO [true, false, true] := by simp [Fitness.ok, toyIO]
example : IGa.ok ⟨4294967295, [-2147483648, 2147483647, 0]⟩ := by
  simp [IGa.ok, U32, U64, I32]
example : IDe.ok toyIO ⟨7, [false, true]⟩ := by simp [IDe.ok, toyIO, U32, U64]
example : Matrix.ok .i32 ⟨3, [1, -2, 3, 4, 5, -2147483648]⟩ := by
  simp [Matrix.ok, Matrix.rows, elemOK, U64, I32]
example : Dist.ok toyIO ⟨3, true, false, true, false, [(false, 1), (true, 2)]⟩ := by
  simp [Dist.ok, KeysSorted, toyIO, U64]
example : IMep.ok toyIO toyTab toyInd := by
  refine ⟨by decide, by decide, by decide, by decide, ?_, by decide⟩
  intro g hg
  simp [toyInd] at hg
  rcases hg with h | h <;> subst h
  · exact ⟨by decide, ⟨false, 2⟩, by decide, by decide, by simp, by decide, by decide⟩
  · exact ⟨by decide, ⟨true, 0⟩, by decide, by decide, by simp [toyIO], by decide, by decide⟩
/-- and the theorems really compute on such values -/
example : IGa.load (IGa.save ⟨5, [-7, 12]⟩) = some (⟨5, [-7, 12]⟩, ['\n']) := by decide

end Vita.C11
