import Vita.C11.Lemmas
import Vita.C11.BigLemmas
import Vita.C11.CacheLemmas
import Vita.C11.LambdaLemmas
import Vita.C11.Toy
import Vita.C11.GenericLemmas
import Vita.C11.MatrixG
import Vita.C11.ProxyLemmas
import Vita.C11.FactoryLemmas
import Vita.C11.FloatLex
import Vita.C11.FloatSpot
import Vita.C11.FormatPairs
import Vita.C11.GenFormats
import Vita.C11.FormatLemmas
/-!
  C11 — save followed by load reproduces the object (property theorems).

  For every persistable type `X` modelled in `Model.lean`:
    * `X_load_save`      : `X.load (X.save x ++ r) = some (x, rest ++ r)` — loading the bytes written by
                           `save` (followed by anything) yields exactly `x` and leaves only the final
                           newline (nothing for line-oriented `fitness_t`) unread;
    * `X_save_load_save` : whatever `load` returns on `save x` saves to the same bytes.
  `x` ranges over all values satisfying the type's invariant `X.ok` (ranges of the C++ integer
  types, finite doubles, `std::map` key order).  Doubles are abstract: the theorems hold for every
  `FloatIO` satisfying `FloatLaw` (printf-17-digits / strtod round trip, a hypothesis).

  Equality of the model records *is* the observational equality of the property: the records hold
  the genome, the age, the values — the cached signature is a function of the genome (C03) and is
  not part of the record.
-/
namespace Vita.C11

variable {F : Type}

/-! ### hash_t / signature -/
theorem hash_load_save (h : Hash) (hk : h.ok) (r : Str) :
    Hash.load (h.save ++ r) = some (h, '\n' :: r) := Hash.load_save h hk r

theorem hash_save_load_save (h h' : Hash) (hk : h.ok) (rest : Str)
    (hl : Hash.load h.save = some (h', rest)) : h'.save = h.save := by
  have := Hash.load_save h hk []
  simp only [List.append_nil] at this
  rw [this] at hl
  cases hl; rfl

/-! ### fitness_t -/
theorem fitness_load_save (io : FloatIO F) (law : FloatLaw io) (f : List F) (hk : Fitness.ok io f)
    (r : Str) : Fitness.load io (Fitness.save io f ++ r) = some (f, r) :=
  Fitness.load_save io law f hk r

theorem fitness_save_load_save (io : FloatIO F) (law : FloatLaw io) (f f' : List F)
    (hk : Fitness.ok io f) (rest : Str) (hl : Fitness.load io (Fitness.save io f) = some (f', rest)) :
    Fitness.save io f' = Fitness.save io f := by
  have := Fitness.load_save io law f hk []
  simp only [List.append_nil] at this
  rw [this] at hl
  cases hl; rfl

/-- The invariant `f ≠ []` is needed: an *empty* fitness is written as an empty line, which
    `std::getline(in >> std::ws, …)` cannot read back (finding C11-fit-empty). -/
theorem fitness_empty_not_loadable (io : FloatIO F) :
    Fitness.load io (Fitness.save io []) = none := by
  simp [Fitness.load, Fitness.save, items, P.bind_apply, getline, skipWs, isWs]

/-! ### i_ga -/
theorem iga_load_save (x : IGa) (hk : x.ok) (r : Str) :
    IGa.load (x.save ++ r) = some (x, '\n' :: r) := IGa.load_save x hk r

theorem iga_save_load_save (x x' : IGa) (hk : x.ok) (rest : Str)
    (hl : IGa.load x.save = some (x', rest)) : x'.save = x.save := by
  have := IGa.load_save x hk []
  simp only [List.append_nil] at this
  rw [this] at hl
  cases hl; rfl

/-! ### i_de -/
theorem ide_load_save (io : FloatIO F) (law : FloatLaw io) (x : IDe F) (hk : x.ok io) (r : Str) :
    IDe.load io (x.save io ++ r) = some (x, '\n' :: r) := IDe.load_save io law x hk r

theorem ide_save_load_save (io : FloatIO F) (law : FloatLaw io) (x x' : IDe F) (hk : x.ok io)
    (rest : Str) (hl : IDe.load io (x.save io) = some (x', rest)) : x'.save io = x.save io := by
  have := IDe.load_save io law x hk []
  simp only [List.append_nil] at this
  rw [this] at hl
  cases hl; rfl

/-! ### matrix<int>, matrix<unsigned> -/
theorem matrix_load_save (k : ElemKind) (m : Matrix) (hk : m.ok k) (r : Str) :
    Matrix.load k (m.save ++ r) = some (m, '\n' :: r) := Matrix.load_save k m hk r

theorem matrix_save_load_save (k : ElemKind) (m m' : Matrix) (hk : m.ok k) (rest : Str)
    (hl : Matrix.load k m.save = some (m', rest)) : m'.save = m.save := by
  have := Matrix.load_save k m hk []
  simp only [List.append_nil] at this
  rw [this] at hl
  cases hl; rfl

/-! ### distribution<double> -/
theorem dist_load_save (io : FloatIO F) (law : FloatLaw io) (d : Dist F) (hk : d.ok io) (r : Str) :
    Dist.load io (d.save io ++ r) = some (d, '\n' :: r) := Dist.load_save io law d hk r

theorem dist_save_load_save (io : FloatIO F) (law : FloatLaw io) (d d' : Dist F) (hk : d.ok io)
    (rest : Str) (hl : Dist.load io (d.save io) = some (d', rest)) : d'.save io = d.save io := by
  have := Dist.load_save io law d hk []
  simp only [List.append_nil] at this
  rw [this] at hl
  cases hl; rfl

/-! ### i_mep (any symbol table `tab`, i.e. any symbol set) -/
theorem imep_load_save (io : FloatIO F) (law : FloatLaw io) (tab : SymTab) (x : IMep F)
    (hk : x.ok io tab) (r : Str) : IMep.load io tab (x.save io ++ r) = some (x, '\n' :: r) :=
  IMep.load_save io law tab x hk r

theorem imep_save_load_save (io : FloatIO F) (law : FloatLaw io) (tab : SymTab) (x x' : IMep F)
    (hk : x.ok io tab) (rest : Str) (hl : IMep.load io tab (x.save io) = some (x', rest)) :
    x'.save io = x.save io := by
  have := IMep.load_save io law tab x hk []
  simp only [List.append_nil] at this
  rw [this] at hl
  cases hl; rfl

/-! ### team<i_mep> -/
theorem team_load_save (io : FloatIO F) (law : FloatLaw io) (tab : SymTab) (t : List (IMep F))
    (hk : Team.ok io tab t) (r : Str) : Team.load io tab (Team.save io t ++ r) = some (t, '\n' :: r) :=
  Team.load_save io law tab t hk r

theorem team_save_load_save (io : FloatIO F) (law : FloatLaw io) (tab : SymTab) (t t' : List (IMep F))
    (hk : Team.ok io tab t) (rest : Str) (hl : Team.load io tab (Team.save io t) = some (t', rest)) :
    Team.save io t' = Team.save io t := by
  have := Team.load_save io law tab t hk []
  simp only [List.append_nil] at this
  rw [this] at hl
  cases hl; rfl

/-! ### population<i_mep>: any number of layers, any allowed sizes, partially filled layers -/
theorem pop_load_save (io : FloatIO F) (law : FloatLaw io) (tab : SymTab) (p : List (Layer F))
    (hk : Pop.ok io tab p) (r : Str) : Pop.load io tab (Pop.save io p ++ r) = some (p, '\n' :: r) :=
  Pop.load_save io law tab p hk r

theorem pop_save_load_save (io : FloatIO F) (law : FloatLaw io) (tab : SymTab) (p p' : List (Layer F))
    (hk : Pop.ok io tab p) (rest : Str) (hl : Pop.load io tab (Pop.save io p) = some (p', rest)) :
    Pop.save io p' = Pop.save io p := by
  have := Pop.load_save io law tab p hk []
  simp only [List.append_nil] at this
  rw [this] at hl
  cases hl; rfl

/-! ### summary<i_mep> -/
theorem summary_load_save (io : FloatIO F) (law : FloatLaw io) (tab : SymTab) (s : Summary F)
    (hk : s.ok io tab) (r : Str) : Summary.load io tab (s.save io ++ r) = some (s, '\n' :: r) :=
  Summary.load_save io law tab s hk r

theorem summary_save_load_save (io : FloatIO F) (law : FloatLaw io) (tab : SymTab) (s s' : Summary F)
    (hk : s.ok io tab) (rest : Str) (hl : Summary.load io tab (s.save io) = some (s', rest)) :
    s'.save io = s.save io := by
  have := Summary.load_save io law tab s hk []
  simp only [List.append_nil] at this
  rw [this] at hl
  cases hl; rfl

/-! ### the fitness cache, also after `clear()` / `clear(key)` -/

/-- Loading what `cache::save` wrote into a fresh cache of the same size succeeds and yields the
    cache `c'` that keeps exactly the live slots of `c` (all other slots value-initialised). -/
theorem cache_load_save (io : FloatIO F) (law : FloatLaw io) (c : Cache F) (hk : c.ok io) (r : Str) :
    ∃ rest, Cache.loadInto io (Cache.fresh c.bits) (c.save io ++ r)
      = some (⟨c.bits, c.table.map (keepLive c.sl), c.sl⟩, rest) :=
  Cache.load_save io law c hk r

/-- identical cache lookups: every non-empty signature finds the same fitness (or nothing) in the
    reloaded cache as in the original -/
theorem cache_lookups_equal (io : FloatIO F) (law : FloatLaw io) (c c' : Cache F) (hk : c.ok io)
    (rest : Str) (hl : Cache.loadInto io (Cache.fresh c.bits) (c.save io) = some (c', rest))
    (h : Hash) (hne : h.isEmpty = false) : c'.find h = c.find h := by
  obtain ⟨rest', he⟩ := Cache.load_save io law c hk []
  simp only [List.append_nil] at he
  rw [he] at hl
  cases hl
  exact find_reloaded c hk.2.1 h hne

theorem cache_save_load_save (io : FloatIO F) (law : FloatLaw io) (c c' : Cache F) (hk : c.ok io)
    (rest : Str) (hl : Cache.loadInto io (Cache.fresh c.bits) (c.save io) = some (c', rest)) :
    c'.save io = c.save io := by
  obtain ⟨rest', he⟩ := Cache.load_save io law c hk []
  simp only [List.append_nil] at he
  rw [he] at hl
  cases hl
  exact save_reloaded io c hk.2.1

/-- the invariant is the one of every cache reached from `cache(bits)` by any history of
    `insert` (non-empty keys, non-empty finite fitness), `clear()` (fewer than 2^32 of them, cf.
    the seal-wrap finding of C04) and `clear(key)` -/
theorem cache_reach_fresh (io : FloatIO F) (bits : Nat) (hb : 2 ^ bits ≤ U64) :
    (Cache.fresh bits : Cache F).Reach io := Cache.reach_fresh io bits hb
theorem cache_reach_insert (io : FloatIO F) (c : Cache F) (hc : c.Reach io) (h : Hash) (f : List F)
    (hh : h.ok) (hf : Fitness.ok io f) : (c.insert h f).Reach io := Cache.reach_insert io c hc h f hh hf
theorem cache_reach_clear (io : FloatIO F) (c : Cache F) (hc : c.Reach io) (hlt : c.sl + 1 ≤ U32) :
    c.clear.Reach io := Cache.reach_clear io c hc hlt
theorem cache_reach_clearKey (io : FloatIO F) (c : Cache F) (hc : c.Reach io) (h : Hash) :
    (c.clearKey h).Reach io := Cache.reach_clearKey io c hc h

/-! ### trained models: `serialize::save` then `serialize::lambda::load`, all eight kinds
    (regression, dynamic slot, gaussian, binary and their `TEAM_` variants) -/
theorem lambda_load_save (io : FloatIO F) (law : FloatLaw io) (tab : SymTab) (x : Lambda F)
    (hk : x.ok io tab) (r : Str) : Lambda.load io tab (x.save io ++ r) = some (x, x.tail ++ r) :=
  Lambda.load_save io law tab x hk r

theorem lambda_save_load_save (io : FloatIO F) (law : FloatLaw io) (tab : SymTab) (x x' : Lambda F)
    (hk : x.ok io tab) (rest : Str) (hl : Lambda.load io tab (x.save io) = some (x', rest)) :
    x'.save io = x.save io := by
  have := Lambda.load_save io law tab x hk []
  simp only [List.append_nil] at this
  rw [this] at hl
  cases hl; rfl

/-- class names as they come out of a dataset -/
example : Names.ok [['I', 'r', 'i', 's', ' ', 's'], [], ['C', '3']] := by
  refine ⟨by decide, by decide, by decide, 'I', ['r', 'i', 's', ' ', 's'], rfl, by decide⟩

/-! ### non-vacuity -/

/-- the hypothesis `FloatLaw` is satisfiable -/
theorem toyIO_law : FloatLaw toyIO where
  roundtrip := by
    intro x r _ hr
    cases r with
    | nil => cases x <;> rfl
    | cons c t =>
      have hc := ws_cases hr
      cases x <;> rcases hc with h | h | h | h | h | h <;> subst h <;>
        simp [readF, skipWs, isWs, lexFloat, lexZeros, lexBody, lexBody_ws, toyIO]
  noWs := by
    intro x c _ hc
    cases x <;> simp [toyIO] at hc <;> subst hc <;> decide

example : Hash.ok ⟨18446744073709551615, 42⟩ := by unfold Hash.ok U64; decide
example : Fitness.ok toyIO [true, false, true] := by simp [Fitness.ok, toyIO]
example : IGa.ok ⟨4294967295, [-2147483648, 2147483647, 0]⟩ := by
  simp [IGa.ok, U32, U64, I32]
example : IDe.ok toyIO ⟨7, [false, true]⟩ := by simp [IDe.ok, toyIO, U32, U64]
example : Matrix.ok .i32 ⟨3, [1, -2, 3, 4, 5, -2147483648]⟩ := by
  simp [Matrix.ok, Matrix.rows, elemOK, U64, I32]
example : Dist.ok toyIO ⟨3, true, false, true, false, [(false, 1), (true, 2)]⟩ := by
  simp [Dist.ok, KeysSorted, toyIO, U64]
example : IMep.ok toyIO toyTab toyInd := by
  refine ⟨by decide, by decide, by decide, by decide, ?_, by decide⟩
  intro g hg
  simp [toyInd] at hg
  rcases hg with h | h <;> subst h
  · exact ⟨by decide, ⟨false, 2⟩, by decide, by decide, by simp, by decide, by decide⟩
  · exact ⟨by decide, ⟨true, 0⟩, by decide, by decide, by simp [toyIO], by decide, by decide⟩
/-- and the theorems really compute on such values -/
example : IGa.load (IGa.save ⟨5, [-7, 12]⟩) = some (⟨5, [-7, 12]⟩, ['\n']) := by decide


/-! ## round 3 -/

/-! ### the field sequences extracted from the clang AST (`GenFormats.lean`, regenerated on every run)

    For every save / load pair of `Fmt.pairs`: on the success path `load` reads exactly the fields `save`
    writes, in the same order and the same loop / branch structure, each into a type that holds every value
    of the type written (or one of the five documented narrowings of `Fmt.accepted`), every `double` is
    written with 17 significant digits in scientific notation, and a field whose origin / destination data
    member is known on both sides is the same member. -/
set_option maxRecDepth 100000 in
theorem formats_agree : ∀ p ∈ Fmt.pairs, Fmt.agrees Fmt.Gen.table Fmt.accepted p.1 p.2 = true := by decide

set_option maxRecDepth 100000 in
/-- in every record two fields are separated by white space on every path, and the record ends with white
    space (so whatever is written next cannot merge with its last field) -/
theorem formats_separated : ∀ p ∈ Fmt.records, Fmt.separated Fmt.Gen.table p.1 = true := by decide

/-- the checks discriminate: a field added to `save` only, two fields of different type swapped, a `double`
    written without the precision manipulators, two fields written without a separator -/
example : Fmt.agrees [⟨"s", .seq (.fld .u32 "a" "") (.seq (.sep 32) (.seq (.fld .u32 "b" "") (.sep 10)))⟩,
    ⟨"l", .fld .u32 "a" "x"⟩] [] "s" "l" = false := by decide
example : Fmt.agrees [⟨"s", .seq (.fld .u32 "a" "") (.seq (.sep 32) (.fld .f64 "b" ""))⟩,
    ⟨"l", .seq (.fld .f64 "b" "") (.fld .u32 "a" "")⟩] [] "s" "l" = false := by decide
example : Fmt.agrees [⟨"s", .fld .f64 "a" ""⟩, ⟨"l", .fld .f64 "a" ""⟩] [] "s" "l" = false := by decide
example : Fmt.agrees [⟨"s", .seq (.fld .u64 "a" "") (.seq (.sep 32) (.fld .u64 "b" ""))⟩,
    ⟨"l", .seq (.fld .u64 "b" "") (.fld .u64 "a" "")⟩] [] "s" "l" = false := by decide
example : Fmt.separated [⟨"s", .seq (.fld .u32 "a" "") (.seq (.fld .u32 "b" "") (.sep 10))⟩] "s" = false := by decide
example : Fmt.separated [⟨"s", .seq (.fld .u32 "a" "") (.seq (.sep 32) (.fld .u32 "b" ""))⟩] "s" = false := by decide

/-- what the two checks mean, proved for the flat fragment (records that are sequences of integer fields and
    separators: `hash_t`, the headers of `matrix` / `cache` / `population`, the trailer of `summary`): if every
    value fits the type it is written with, every load type holds the save type at the same position and every
    field is followed by a white-space separator, then reading the load types off the text written — followed by
    anything — gives back exactly the values and stops right after the last field -/
theorem flat_format_roundtrip (items : List Flat.Item) (ltys : List Flat.FTy) (vs : List Int) (r : Str)
    (hsep : Flat.Separated items) (hfit : Flat.Fits (Flat.fields items) vs)
    (hh : Flat.Holds (Flat.fields items) ltys) :
    Flat.readAll ltys (Flat.write items vs ++ r) = some (vs, Flat.trail items ++ r) :=
  Flat.flat_roundtrip items ltys vs r hsep hfit hh

example : Flat.Separated [.fld (.u U64), .sep ' ', .fld (.u U64), .sep '\n'] ∧
    Flat.Holds [.u U32, .i I32] [.u U64, .i I64] := by
  refine ⟨⟨by decide, by decide, trivial⟩, ?_, ?_, trivial⟩ <;> simp [Flat.FTy.holds, U32, U64, I32, I64]

/-! ### team<T>, population<T>, summary<T> for every member type `T` with the block property
    (`i_ga`, `i_de`, `i_mep`, and `team<T>` again: `population<i_ga>`, `summary<i_de>`, `team<i_ga>`,
    `population<team<i_mep>>`, …) -/

theorem iga_block : igaSer.Block := igaSer_block
theorem ide_block (io : FloatIO F) (law : FloatLaw io) : (ideSer io).Block := ideSer_block io law
theorem imep_block (io : FloatIO F) (law : FloatLaw io) (tab : SymTab) : (imepSer io tab).Block :=
  imepSer_block io law tab
theorem team_block {X} (s : Ser X) (hb : s.Block) : (teamSer s).Block := teamSer_block s hb

theorem teamOf_load_save {X} (s : Ser X) (hb : s.Block) (t : List X) (hk : TeamOf.ok s t) (r : Str) :
    TeamOf.load s (TeamOf.save s t ++ r) = some (t, '\n' :: r) := TeamOf.load_save s hb t hk r

theorem teamOf_save_load_save {X} (s : Ser X) (hb : s.Block) (t t' : List X) (hk : TeamOf.ok s t) (rest : Str)
    (hl : TeamOf.load s (TeamOf.save s t) = some (t', rest)) : TeamOf.save s t' = TeamOf.save s t := by
  have := TeamOf.load_save s hb t hk []
  simp only [List.append_nil] at this
  rw [this] at hl
  cases hl; rfl

theorem popOf_load_save {X} (s : Ser X) (hb : s.Block) (p : List (LayerOf X)) (hk : PopOf.ok s p) (r : Str) :
    PopOf.load s (PopOf.save s p ++ r) = some (p, '\n' :: r) := PopOf.load_save s hb p hk r

theorem popOf_save_load_save {X} (s : Ser X) (hb : s.Block) (p p' : List (LayerOf X)) (hk : PopOf.ok s p)
    (rest : Str) (hl : PopOf.load s (PopOf.save s p) = some (p', rest)) : PopOf.save s p' = PopOf.save s p := by
  have := PopOf.load_save s hb p hk []
  simp only [List.append_nil] at this
  rw [this] at hl
  cases hl; rfl

theorem summaryOf_load_save {X} (io : FloatIO F) (law : FloatLaw io) (s : Ser X) (hb : s.Block)
    (x : SummaryOf X F) (hk : x.ok io s) (r : Str) :
    SummaryOf.load io s (x.save io s ++ r) = some (x, '\n' :: r) := SummaryOf.load_save io law s hb x hk r

theorem summaryOf_save_load_save {X} (io : FloatIO F) (law : FloatLaw io) (s : Ser X) (hb : s.Block)
    (x x' : SummaryOf X F) (hk : x.ok io s) (rest : Str)
    (hl : SummaryOf.load io s (x.save io s) = some (x', rest)) : x'.save io s = x.save io s := by
  have := SummaryOf.load_save io law s hb x hk []
  simp only [List.append_nil] at this
  rw [this] at hl
  cases hl; rfl

example : TeamOf.ok igaSer [⟨1, [3, -4]⟩, ⟨0, []⟩] := by
  simp [TeamOf.ok, igaSer, IGa.ok, U32, U64, I32]
example : PopOf.load igaSer (PopOf.save igaSer [⟨3, [⟨1, [5]⟩]⟩, ⟨2, []⟩]) =
    some ([⟨3, [⟨1, [5]⟩]⟩, ⟨2, []⟩], ['\n']) := by decide

/-! ### matrix<T> for every integral element type (character types as repaired: written as numbers) -/

theorem matrixG_load_save (k : IntKind) (m : Matrix) (hk : MatrixG.ok k m) (r : Str) :
    MatrixG.load k (m.save ++ r) = some (m, '\n' :: r) := MatrixG.load_save k m hk r

theorem matrixG_save_load_save (k : IntKind) (m m' : Matrix) (hk : MatrixG.ok k m) (rest : Str)
    (hl : MatrixG.load k m.save = some (m', rest)) : m'.save = m.save := by
  have := MatrixG.load_save k m hk []
  simp only [List.append_nil] at this
  rw [this] at hl
  cases hl; rfl

example : MatrixG.ok (.sint I8) ⟨2, [-128, 127, 32, 10]⟩ := by
  simp [MatrixG.ok, Matrix.rows, IntKind.ok, U64, I8]

/-- finding C11-matrix-char: in the unrepaired format (one raw byte per element) a `matrix<char>` holding a
    blank cannot be read back, one holding a newline neither -/
theorem matrix_char_raw_not_loadable :
    MatrixRaw.load (MatrixRaw.save ⟨2, [32, 98]⟩) = none ∧
    MatrixRaw.load (MatrixRaw.save ⟨2, [97, 10, 99, 100]⟩) = none := by decide

/-! ### evaluator_proxy and search::save / load (env.misc.serialization_file) -/

theorem proxy_load_save (io : FloatIO F) (law : FloatLaw io) (e : EvaSer) (he : e.Sound) (c : Cache F)
    (hk : c.ok io) (r : Str) :
    ∃ rest, Proxy.loadInto io e (Cache.fresh c.bits) (Proxy.save io e c ++ r)
      = some (⟨c.bits, c.table.map (keepLive c.sl), c.sl⟩, rest) := Proxy.load_save io law e he c hk r

/-- the reloaded proxy finds what the original finds, for every non-empty signature -/
theorem proxy_lookups_equal (io : FloatIO F) (law : FloatLaw io) (e : EvaSer) (he : e.Sound) (c c' : Cache F)
    (hk : c.ok io) (rest : Str)
    (hl : Proxy.loadInto io e (Cache.fresh c.bits) (Proxy.save io e c) = some (c', rest))
    (h : Hash) (hne : h.isEmpty = false) : c'.find h = c.find h := by
  obtain ⟨rest', he'⟩ := Proxy.load_save io law e he c hk []
  simp only [List.append_nil] at he'
  rw [he'] at hl
  cases hl
  exact find_reloaded c hk.2.1 h hne

/-- `operator()` of the reloaded proxy returns the same fitness as the original's for every program, and calls
    the real evaluator exactly when the original would -/
theorem proxy_answers_equal (io : FloatIO F) (law : FloatLaw io) (e : EvaSer) (he : e.Sound) (c c' : Cache F)
    (hk : c.ok io) (rest : Str)
    (hl : Proxy.loadInto io e (Cache.fresh c.bits) (Proxy.save io e c) = some (c', rest))
    (eva : Hash → List F) (h : Hash) (hne : h.isEmpty = false) :
    (Proxy.eval eva c' h).1 = (Proxy.eval eva c h).1 ∧ (Proxy.eval eva c' h).2.2 = (Proxy.eval eva c h).2.2 :=
  Proxy.eval_congr eva c c' h (proxy_lookups_equal io law e he c c' hk rest hl h hne)

theorem proxy_save_load_save (io : FloatIO F) (law : FloatLaw io) (e : EvaSer) (he : e.Sound) (c c' : Cache F)
    (hk : c.ok io) (rest : Str)
    (hl : Proxy.loadInto io e (Cache.fresh c.bits) (Proxy.save io e c) = some (c', rest)) :
    Proxy.save io e c' = Proxy.save io e c := by
  obtain ⟨rest', he'⟩ := Proxy.load_save io law e he c hk []
  simp only [List.append_nil] at he'
  rw [he'] at hl
  cases hl
  simp only [Proxy.save, save_reloaded io c hk.2.1]

/-- `search::close()` then `search::init()` of a new search on the same environment: the file written by
    `save` is read back by `load` into the fresh training evaluator, which then finds what the old one found -/
theorem search_load_save (io : FloatIO F) (law : FloatLaw io) (cfg : SearchCfg) (e : EvaSer) (he : e.Sound)
    (c : Cache F) (hk : c.ok io) (hf : cfg.fileName ≠ []) (hb : cfg.cacheBits = c.bits) (hb0 : c.bits ≠ 0) :
    ∃ file c', Search.save io cfg true e c = (true, some file) ∧
      Search.load io cfg (some file) e (Cache.fresh cfg.cacheBits) = some c' ∧
      (∀ h : Hash, h.isEmpty = false → c'.find h = c.find h) ∧
      Search.save io cfg true e c' = (true, some file) := by
  obtain ⟨rest, hl⟩ := Proxy.load_save io law e he c hk []
  simp only [List.append_nil] at hl
  have hcb : cfg.cacheBits ≠ 0 := by rw [hb]; exact hb0
  refine ⟨Proxy.save io e c, ⟨c.bits, c.table.map (keepLive c.sl), c.sl⟩, ?_, ?_, ?_, ?_⟩
  · simp [Search.save, hf, hcb]
  · simp only [Search.load, hf, hcb, if_false, hb, hb0, hl]
  · intro h hne
    exact find_reloaded c hk.2.1 h hne
  · simp only [Search.save, hf, hcb, if_false, Bool.not_true, Bool.false_eq_true, Proxy.save,
      save_reloaded io c hk.2.1]

/-- no file name: nothing is written, `load` succeeds and leaves the evaluator alone; no cache: an empty file -/
theorem search_trivial (io : FloatIO F) (e : EvaSer) (c c0 : Cache F) (name : Str) (hn : name ≠ []) :
    Search.save io ⟨[], c.bits⟩ true e c = (true, none) ∧
    Search.load io ⟨[], c.bits⟩ none e c0 = some c0 ∧
    Search.save io ⟨name, 0⟩ true e c = (true, some []) ∧
    Search.load io ⟨name, 0⟩ (some []) e c0 = some c0 := by
  simp [Search.save, Search.load, hn]

example : (EvaSer.counter 42).Sound := EvaSer.counter_sound 42 (by unfold U64; decide)
example : EvaSer.base.Sound := EvaSer.base_sound

/-! ### the factory of `serialize::lambda::load<T>`: what can be loaded depends on the calls made before -/

theorem factory_reach_inv (fs : List Str) (h : Factory.Reach fs) : Factory.Inv fs := Factory.inv_of_reach fs h

/-- `load<T>` with the `T` of the model (`i_mep` for the four plain kinds, `team<i_mep>` for the `TEAM_` kinds)
    loads it whatever was loaded before in the process -/
theorem factory_load_matching (io : FloatIO F) (law : FloatLaw io) (tab : SymTab) (fs : List Str)
    (hfs : Factory.Reach fs) (x : Lambda F) (hk : x.ok io tab) (r : Str) :
    (Factory.load io tab x.isTeam fs (x.save io ++ r)).2 = some (x, x.tail ++ r) :=
  Factory.load_matching io law tab fs (Factory.inv_of_reach fs hfs) x hk r

/-- `load<T>` with the other `T` (e.g. the default `load<>` = `load<i_mep>` on a `TEAM_` model) gives the model
    exactly when an earlier call already registered its id, and `nullptr` otherwise -/
theorem factory_load_other (io : FloatIO F) (law : FloatLaw io) (tab : SymTab) (fs : List Str)
    (x : Lambda F) (hk : x.ok io tab) (r : Str) :
    (Factory.load io tab (!x.isTeam) fs (x.save io ++ r)).2 =
      if x.sid ∈ fs then some (x, x.tail ++ r) else none := Factory.load_other io law tab fs x hk r

/-- in a fresh process the default `load<i_mep>` cannot load a team model -/
example : (Factory.load toyIO toyTab false [] ((Lambda.teamReg [toyInd]).save toyIO)).2 = none := by decide

/-! ### the decimal text actually written and read -/

/-- the integer printers / readers are exact: every `n ≤ M` written in decimal and followed by a separator is
    read back by `operator>>(unsigned type with maximum M)` -/
theorem nat_read_show (M n : Nat) (r : Str) (hn : n ≤ M) (hr : Sep r) :
    readU M (showNat n ++ r) = some (n, r) := readU_showNat M n r hn hr

theorem int_read_show (H : Nat) (i : Int) (r : Str) (hlo : -(H + 1 : Int) ≤ i) (hhi : i ≤ H) (hr : Sep r) :
    readI H (showInt i ++ r) = some (i, r) := readI_showInt H i r hlo hhi hr

/-- the character automaton of `operator>>(double&)` accepts exactly a text of the scientific shape
    `[-]d.ddd…e±dd…` and stops at the separator that follows -/
theorem lexFloat_accepts_sci (neg : Bool) (d0 : Char) (frac : Str) (eneg : Bool) (expd : Str) (r : Str)
    (h0 : d0.isDigit = true) (hf : ∀ c ∈ frac, c.isDigit = true) (he : ∀ c ∈ expd, c.isDigit = true)
    (hr : Sep r) :
    lexFloat (sciText neg d0 frac eneg expd ++ r) = (sciText neg d0 frac eneg expd, r) :=
  lexFloat_sciText neg d0 frac eneg expd r h0 hf he hr

/-- `FloatLaw` follows from two facts about the C library in which no stream occurs: the text of a finite
    value has the scientific shape, and `strtod` of that text is the value -/
theorem floatLaw_of_shape_and_numeric (io : FloatIO F)
    (hshape : ∀ x, io.finite x = true → SciShape (io.fmt x))
    (hnum : ∀ x, io.finite x = true → io.conv (io.fmt x) = some x) : FloatLaw io :=
  floatLaw_of_numeric io hshape hnum

/-- (shape) is a theorem for the exact-arithmetic `printf("%.16e")` the compiled driver runs -/
theorem floatImpl_shape (b : Nat) (hb : FloatImpl.finite b = true) : SciShape (FloatImpl.fmt17 b) :=
  FloatImpl.fmt17_shape b hb

/-- … so for that instance the law is exactly the numeric round trip of 64-bit patterns -/
theorem floatImpl_law_of_numeric
    (hnum : ∀ b, b < 2 ^ 64 → FloatImpl.finite b = true → FloatImpl.strtod (FloatImpl.fmt17 b) = some b) :
    FloatLaw FloatImpl.ioW :=
  floatLaw_of_numeric FloatImpl.ioW
    (fun b hb => FloatImpl.fmt17_shape b (by
      have : (decide (b < 2 ^ 64) && FloatImpl.finite b) = true := hb
      simp only [Bool.and_eq_true] at this
      exact this.2))
    (fun b hb => by
      have : (decide (b < 2 ^ 64) && FloatImpl.finite b) = true := hb
      simp only [Bool.and_eq_true, decide_eq_true_eq] at this
      exact hnum b this.1 this.2)

set_option maxRecDepth 100000 in
set_option exponentiation.threshold 3000 in
/-- the numeric round trip checked by the kernel on boundary patterns (zero, subnormals, smallest / largest
    normal, neighbours of powers of two and ten, 2^53 ± 1 ulp; a sample, not the law) -/
theorem floatImpl_boundary :
    ∀ b ∈ FloatImpl.boundaryPos, FloatImpl.finite b = true ∧ FloatImpl.strtod (FloatImpl.fmt17 b) = some b := by
  decide

/-- finding C11-fit-empty cannot be repaired in `load` alone: after a `hash_t` the stream the fitness loader
    sees for the slot `(h, [x])` is byte for byte the stream it sees for an empty fitness followed by the
    fitness `[x]` — no loader answers both correctly -/
theorem fitness_empty_no_load_only_fix (io : FloatIO F) (L : P (List F)) (x : F) (r : Str)
    (hslot : L ('\n' :: (Fitness.save io [x] ++ r)) = some ([x], r)) :
    L (Fitness.save io [] ++ (Fitness.save io [x] ++ r)) ≠ some ([], Fitness.save io [x] ++ r) := by
  have e : Fitness.save io [] ++ (Fitness.save io [x] ++ r) = '\n' :: (Fitness.save io [x] ++ r) := by
    simp [Fitness.save, items]
  rw [e, hslot]
  intro h
  cases h

end Vita.C11
