import Vita.C11.Cache
import Vita.C11.CacheLemmas
/-!
  C11 — the users of the fitness cache: `evaluator_proxy<T, E>` (kernel/evaluator_proxy.tcc) and
  `search<T, ES>::save / load` (kernel/search.tcc).

  * `evaluator_proxy::save` is `eva_.save(out) && cache_.save(out)`, `load` is
    `eva_.load(in) && cache_.load(in)`: the wrapped evaluator's own persistent part first (nothing for
    the base class `evaluator<T>`, whose `save` / `load` just return `true`), then the cache.
  * `evaluator_proxy::operator()(prg)`: look the signature up; on a hit return the stored fitness, on a
    miss evaluate, store, return.
  * `search::save()` (called by `close()`): nothing when `env.misc.serialization_file` is empty; otherwise
    the file is (re)written: the training evaluator's `save` when `env.cache_size != 0` (the evaluator is
    then an `evaluator_proxy`), an empty file otherwise.  `search::load()` (called by `init()`) mirrors it.
    The file system enters as the content of that one file (`none`: it cannot be opened).
-/
namespace Vita.C11

variable {F : Type}

/-- the persistent part of the wrapped evaluator `E`: the bytes `E::save` wrote and `E::load` -/
structure EvaSer where
  bytes : Str
  load : P Unit

/-- `evaluator<T>::save` / `load`: nothing written, nothing read -/
def EvaSer.base : EvaSer := ⟨[], pure ()⟩

/-- an evaluator with a counter-like state: one unsigned number on a line of its own -/
def EvaSer.counter (n : Nat) : EvaSer :=
  ⟨showNat n ++ ['\n'], fun s => match readU U64 s with | none => none | some (_, r) => some ((), r)⟩

/-- `E::load` consumes what `E::save` wrote, up to white space the next extraction skips anyway -/
def EvaSer.Sound (e : EvaSer) : Prop :=
  ∀ r, ∃ w, e.load (e.bytes ++ r) = some ((), w ++ r) ∧ ∀ c ∈ w, c = '\n' ∨ c = ' '

def Proxy.save (io : FloatIO F) (e : EvaSer) (c : Cache F) : Str := e.bytes ++ c.save io

def Proxy.loadInto (io : FloatIO F) (e : EvaSer) (c0 : Cache F) : P (Cache F) := do
  e.load
  Cache.loadInto io c0

/-- `evaluator_proxy::operator()`: (fitness returned, cache afterwards, did the real evaluator run?) -/
def Proxy.eval (eva : Hash → List F) (c : Cache F) (h : Hash) : List F × Cache F × Bool :=
  match c.find h with
  | [] => (eva h, c.insert h (eva h), true)
  | f => (f, c, false)

/-! ### search -/

structure SearchCfg where
  fileName : Str          -- env.misc.serialization_file
  cacheBits : Nat         -- env.cache_size (0: the training evaluator is not wrapped in a proxy)

/-- `search::save`: the value returned and the new content of the file when it was (re)written -/
def Search.save (io : FloatIO F) (cfg : SearchCfg) (canOpen : Bool) (e : EvaSer) (c : Cache F) :
    Bool × Option Str :=
  if cfg.fileName = [] then (true, none)
  else if !canOpen then (false, none)
  else if cfg.cacheBits = 0 then (true, some [])
  else (true, some (Proxy.save io e c))

/-- `search::load` given the content of the file (`none`: it cannot be opened) and the cache of the
    freshly built training evaluator; `none` in the result: `load` returned `false` -/
def Search.load (io : FloatIO F) (cfg : SearchCfg) (content : Option Str) (e : EvaSer) (c0 : Cache F) :
    Option (Cache F) :=
  if cfg.fileName = [] then some c0
  else match content with
    | none => none
    | some s =>
      if cfg.cacheBits = 0 then some c0
      else match Proxy.loadInto io e c0 s with
        | none => none
        | some (c, _) => some c

end Vita.C11
