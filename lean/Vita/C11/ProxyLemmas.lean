import Vita.C11.Proxy
/-! Round-trip lemmas for `evaluator_proxy` and `search::save / load`. -/
namespace Vita.C11

variable {F : Type}

theorem Cache.loadInto_nl (io : FloatIO F) (c0 : Cache F) (s : Str) :
    Cache.loadInto io c0 ('\n' :: s) = Cache.loadInto io c0 s := by
  simp [Cache.loadInto, P.bind_apply]

theorem Cache.loadInto_sp (io : FloatIO F) (c0 : Cache F) (s : Str) :
    Cache.loadInto io c0 (' ' :: s) = Cache.loadInto io c0 s := by
  simp [Cache.loadInto, P.bind_apply]

theorem Cache.loadInto_ws (io : FloatIO F) (c0 : Cache F) (w s : Str) (hw : ∀ c ∈ w, c = '\n' ∨ c = ' ') :
    Cache.loadInto io c0 (w ++ s) = Cache.loadInto io c0 s := by
  induction w with
  | nil => rfl
  | cons a w ih =>
    have := ih (fun c hc => hw c (by simp [hc]))
    rcases hw a (by simp) with h | h <;> subst h
    · simp only [List.cons_append, Cache.loadInto_nl, this]
    · simp only [List.cons_append, Cache.loadInto_sp, this]

theorem EvaSer.base_sound : EvaSer.base.Sound := by
  intro r
  exact ⟨[], rfl, by simp⟩

theorem EvaSer.counter_sound (n : Nat) (hn : n ≤ U64) : (EvaSer.counter n).Sound := by
  intro r
  refine ⟨['\n'], ?_, by simp⟩
  simp only [EvaSer.counter, List.append_assoc, List.cons_append, List.nil_append]
  rw [readU_showNat _ _ _ hn (by simp)]

theorem Proxy.load_save (io : FloatIO F) (law : FloatLaw io) (e : EvaSer) (he : e.Sound) (c : Cache F)
    (hk : c.ok io) (r : Str) :
    ∃ rest, Proxy.loadInto io e (Cache.fresh c.bits) (Proxy.save io e c ++ r)
      = some (⟨c.bits, c.table.map (keepLive c.sl), c.sl⟩, rest) := by
  obtain ⟨w, hw, hws⟩ := he (c.save io ++ r)
  obtain ⟨rest, hc⟩ := Cache.load_save io law c hk r
  refine ⟨rest, ?_⟩
  simp only [Proxy.loadInto, Proxy.save, P.bind_apply, List.append_assoc]
  rw [hw]
  simp only []
  rw [Cache.loadInto_ws io _ w _ hws]
  exact hc

/-- `operator()` looks at the cache only through `find` -/
theorem Proxy.eval_congr (eva : Hash → List F) (c c' : Cache F) (h : Hash) (hf : c'.find h = c.find h) :
    (Proxy.eval eva c' h).1 = (Proxy.eval eva c h).1 ∧ (Proxy.eval eva c' h).2.2 = (Proxy.eval eva c h).2.2 := by
  unfold Proxy.eval
  rw [hf]
  cases c.find h <;> simp

end Vita.C11
