/-
  C11/C12 — the text layer: iostream extraction / insertion as functions on byte strings.

  A stream is the list of its remaining characters.  `P α` is the parser type
  `Str → Option (α × Str)`; `none` is "failbit set" (every load function of vita returns
  `false` / throws at the first failed extraction, so nothing after a failure matters).

  The primitives follow libstdc++ 12 (`num_get::_M_extract_int`, `_M_extract_float`,
  `std::ws`, `std::getline`) in the "C" locale with `basefield == dec`:
    * `readU M`   `in >> (unsigned type with maximum M)`
    * `readI lo hi`  `in >> (signed type)`
    * `readF io`  `in >> double` : the character-level lexer is concrete (`lexFloat`), the
                  conversion of the lexed text (`strtod`) is the parameter `io.conv`
    * `getline`   `std::getline(in >> std::ws, line)`
    * `readWord`  `in >> std::string`
-/
namespace Vita.C11

abbrev Str := List Char

def isWs (c : Char) : Bool :=
  c == ' ' || c == '\n' || c == '\t' || c == '\r' || c == '\x0b' || c == '\x0c'

def skipWs : Str → Str
  | [] => []
  | c :: cs => if isWs c then skipWs cs else c :: cs

/-- what may follow a number in a well-formed file: end of stream or white space -/
def Sep : Str → Prop
  | [] => True
  | c :: _ => isWs c = true

instance : (s : Str) → Decidable (Sep s)
  | [] => isTrue trivial
  | c :: _ => inferInstanceAs (Decidable (isWs c = true))

/-! ### the parser type -/

abbrev P (α : Type) := Str → Option (α × Str)

instance : Monad P where
  pure a := fun s => some (a, s)
  bind p f := fun s => match p s with
    | none => none
    | some (a, s') => f a s'

def P.fail {α} : P α := fun _ => none

theorem P.pure_apply {α} (a : α) (s : Str) : (pure a : P α) s = some (a, s) := rfl
theorem P.bind_apply {α β} (p : P α) (f : α → P β) (s : Str) :
    (p >>= f) s = match p s with | none => none | some (a, s') => f a s' := rfl

theorem P.pure_bind_apply {α β} (a : α) (f : α → P β) (s : Str) :
    ((pure a : P α) >>= f) s = f a s := rfl

/-- `n` repetitions of `p` (the `for` loops of the load functions) -/
def readN {α} (p : P α) : Nat → P (List α)
  | 0 => pure []
  | n + 1 => do
    let a ← p
    let as ← readN p n
    pure (a :: as)

/-! ### integers -/

def showNat (n : Nat) : Str := Nat.toDigits 10 n

def showInt (i : Int) : Str :=
  if i < 0 then '-' :: showNat i.natAbs else showNat i.natAbs

/-- consume every leading decimal digit, accumulating the value -/
def readDigits : Str → Nat → Nat × Str
  | [], acc => (acc, [])
  | c :: cs, acc => if c.isDigit then readDigits cs (10 * acc + (c.toNat - '0'.toNat)) else (acc, c :: cs)

/-- optional sign in front of a number: (negative?, rest) -/
def readSign : Str → Bool × Str
  | '-' :: t => (true, t)
  | '+' :: t => (false, t)
  | s => (false, s)

/-- `in >> x` for an unsigned integer type with maximum `M` (a `-` sign is accepted and the
    value wraps modulo `M+1`, as libstdc++ does). -/
def readU (M : Nat) : P Nat := fun s =>
  let (neg, s1) := readSign (skipWs s)
  match s1 with
  | [] => none
  | c :: _ =>
    if c.isDigit then
      let (n, rest) := readDigits s1 0
      if n ≤ M then some (if neg then (M + 1 - n) % (M + 1) else n, rest) else none
    else none

/-- `in >> x` for a signed integer type with range `[-(H+1), H]`. -/
def readI (H : Nat) : P Int := fun s =>
  let (neg, s1) := readSign (skipWs s)
  match s1 with
  | [] => none
  | c :: _ =>
    if c.isDigit then
      let (n, rest) := readDigits s1 0
      if neg then (if n ≤ H + 1 then some (-(n : Int), rest) else none)
      else (if n ≤ H then some ((n : Int), rest) else none)
    else none

def U16 : Nat := 65535
def U32 : Nat := 4294967295
def U64 : Nat := 18446744073709551615
def I32 : Nat := 2147483647

/-! ### floating point -/

/-- The part of `in >> double` / `out << double` that is not modelled character by character:
    `fmt` is the text `save_float_to_stream` writes (scientific, 17 significant digits),
    `conv` is `strtod` applied to the text accepted by the lexer (`none` = failbit),
    `finite` singles out the values for which `fmt` is a numeral (not `inf`/`nan`),
    `lt` is `operator<` (used only for the key order of `std::map<double, …>`). -/
structure FloatIO (F : Type) where
  fmt : F → Str
  conv : Str → Option F
  finite : F → Bool
  lt : F → F → Bool

/-- leading zeros: libstdc++ keeps a single `0` for a run of zeros -/
def lexZeros : Str → Bool → Str × Bool × Str
  | '0' :: t, _ => let (_, _, r) := lexZeros t true; (['0'], true, r)
  | s, found => ([], found, s)

/-- mantissa / exponent characters; state = (found_mantissa, found_dec, found_sci) -/
def lexBody : Str → Bool → Bool → Bool → Str × Str
  | [], _, _, _ => ([], [])
  | c :: t, fm, fd, fs =>
    if c.isDigit then
      let (x, r) := lexBody t true fd fs; (c :: x, r)
    else if c == '.' && !fd && !fs then
      let (x, r) := lexBody t fm true fs; ('.' :: x, r)
    else if (c == 'e' || c == 'E') && !fs && fm then
      match t with
      | [] => (['e'], [])
      | '+' :: t' => let (x, r) := lexBody t' fm fd true; ('e' :: '+' :: x, r)
      | '-' :: t' => let (x, r) := lexBody t' fm fd true; ('e' :: '-' :: x, r)
      | t => let (x, r) := lexBody t fm fd true; ('e' :: x, r)
    else ([], c :: t)

/-- the characters `num_get::_M_extract_float` hands to `strtod`, and the rest of the stream -/
def lexFloat (s : Str) : Str × Str :=
  let (sg, s1) : Str × Str := match s with
    | '-' :: t => (['-'], t)
    | '+' :: t => (['+'], t)
    | s => ([], s)
  let (z, fm, s2) := lexZeros s1 false
  let (b, r) := lexBody s2 fm false false
  (sg ++ z ++ b, r)

def readF {F} (io : FloatIO F) : P F := fun s =>
  let (x, rest) := lexFloat (skipWs s)
  match x with
  | [] => none
  | _ => match io.conv x with
    | none => none
    | some v => some (v, rest)

/-- The law about iostreams that the round-trip theorems take as a hypothesis:
    reading back what `save_float_to_stream` wrote for a finite value gives that value and
    stops exactly at the following separator; the text contains no white space. -/
structure FloatLaw {F} (io : FloatIO F) : Prop where
  roundtrip : ∀ x r, io.finite x = true → Sep r → readF io (io.fmt x ++ r) = some (x, r)
  noWs : ∀ x c, io.finite x = true → c ∈ io.fmt x → isWs c = false

/-! ### lines and words -/

/-- `std::getline(in >> std::ws, line)` -/
def getline : P Str := fun s =>
  match skipWs s with
  | [] => none
  | s' => some (s'.takeWhile (· != '\n'), (s'.dropWhile (· != '\n')).drop 1)

/-- `in >> std::string` -/
def readWord : P Str := fun s =>
  match skipWs s with
  | [] => none
  | s' => some (s'.takeWhile (fun c => !isWs c), s'.dropWhile (fun c => !isWs c))

end Vita.C11
