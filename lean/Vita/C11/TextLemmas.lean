import Vita.C11.Text
/-! Round-trip lemmas for the text primitives. -/
namespace Vita.C11

theorem isDigit_not_ws {c : Char} (h : c.isDigit = true) : isWs c = false := by
  simp [Char.isDigit] at h
  simp [isWs]
  have h1 := h.1; have h2 := h.2
  refine ⟨⟨⟨⟨⟨?_, ?_⟩, ?_⟩, ?_⟩, ?_⟩, ?_⟩ <;> (intro e; subst e; revert h1 h2; decide)

theorem skipWs_of_not_ws {c : Char} {s : Str} (h : isWs c = false) : skipWs (c :: s) = c :: s := by
  simp [skipWs, h]

@[simp] theorem skipWs_sp (s : Str) : skipWs (' ' :: s) = skipWs s := by simp [skipWs, isWs]
@[simp] theorem skipWs_nl (s : Str) : skipWs ('\n' :: s) = skipWs s := by simp [skipWs, isWs]

theorem showNat_digits (n : Nat) : ∀ c ∈ showNat n, c.isDigit = true :=
  fun _ hc => Nat.isDigit_of_mem_toDigits (by decide) (by decide) hc

theorem showNat_ne_nil (n : Nat) : showNat n ≠ [] := Nat.toDigits_ne_nil

theorem readDigits_append (ds r : Str) (acc : Nat) (hd : ∀ c ∈ ds, c.isDigit = true)
    (hr : Sep r) : readDigits (ds ++ r) acc = (Nat.ofDigitChars 10 ds acc, r) := by
  induction ds generalizing acc with
  | nil =>
    cases r with
    | nil => simp [readDigits]
    | cons c t =>
      have : c.isDigit = false := by
        cases h : c.isDigit with
        | false => rfl
        | true => have := isDigit_not_ws h; simp [Sep] at hr; simp [hr] at this
      simp [readDigits, this]
  | cons d ds ih =>
    have hd1 : d.isDigit = true := hd d (by simp)
    simp only [List.cons_append, readDigits, hd1, if_true]
    rw [ih _ (fun c hc => hd c (by simp [hc]))]
    simp [Nat.ofDigitChars_cons]

theorem readDigits_showNat (n : Nat) (r : Str) (hr : Sep r) :
    readDigits (showNat n ++ r) 0 = (n, r) := by
  rw [readDigits_append _ _ _ (showNat_digits n) hr]
  simp [showNat]

/-- the first character of a decimal numeral is a digit -/
theorem showNat_cons (n : Nat) : ∃ c t, showNat n = c :: t ∧ c.isDigit = true := by
  cases h : showNat n with
  | nil => exact absurd h (showNat_ne_nil n)
  | cons c t => exact ⟨c, t, rfl, showNat_digits n c (by simp [h])⟩

theorem digit_ne_sign {c : Char} (h : c.isDigit = true) : c ≠ '-' ∧ c ≠ '+' := by
  constructor <;> (intro e; subst e; revert h; decide)

theorem readSign_digit {c : Char} {t : Str} (h : c.isDigit = true) :
    readSign (c :: t) = (false, c :: t) := by
  have ⟨h1, h2⟩ := digit_ne_sign h
  unfold readSign
  split
  · rename_i heq; cases heq; exact absurd rfl h1
  · rename_i heq; cases heq; exact absurd rfl h2
  · rfl

theorem readU_showNat (M n : Nat) (r : Str) (hn : n ≤ M) (hr : Sep r) :
    readU M (showNat n ++ r) = some (n, r) := by
  obtain ⟨c, t, hc, hd⟩ := showNat_cons n
  have hrd := readDigits_showNat n r hr
  rw [hc] at hrd ⊢
  simp only [readU, List.cons_append, skipWs_of_not_ws (isDigit_not_ws hd), readSign_digit hd, hd,
    if_true]
  simp only [List.cons_append] at hrd
  rw [hrd]
  simp [hn]

@[simp] theorem readU_sp (M : Nat) (s : Str) : readU M (' ' :: s) = readU M s := by simp [readU]
@[simp] theorem readU_nl (M : Nat) (s : Str) : readU M ('\n' :: s) = readU M s := by simp [readU]
@[simp] theorem readI_sp (H : Nat) (s : Str) : readI H (' ' :: s) = readI H s := by simp [readI]
@[simp] theorem readI_nl (H : Nat) (s : Str) : readI H ('\n' :: s) = readI H s := by simp [readI]

theorem readI_showInt (H : Nat) (i : Int) (r : Str) (hlo : -(H + 1 : Int) ≤ i) (hhi : i ≤ H)
    (hr : Sep r) : readI H (showInt i ++ r) = some (i, r) := by
  obtain ⟨c, t, hc, hd⟩ := showNat_cons i.natAbs
  have hrd := readDigits_showNat i.natAbs r hr
  unfold showInt
  by_cases hneg : i < 0
  · simp only [hneg, if_true, List.cons_append]
    rw [hc] at hrd ⊢
    simp only [List.cons_append] at hrd
    have hws : isWs '-' = false := by decide
    simp only [readI, skipWs_of_not_ws hws, readSign, List.cons_append, hd, if_true]
    rw [hrd]
    have h1 : i.natAbs ≤ H + 1 := by omega
    have h2 : -(i.natAbs : Int) = i := by omega
    simp [h1, h2]
  · simp only [hneg, if_false]
    rw [hc] at hrd ⊢
    simp only [List.cons_append] at hrd
    simp only [readI, List.cons_append, skipWs_of_not_ws (isDigit_not_ws hd), readSign_digit hd, hd,
      if_true]
    rw [hrd]
    have h1 : i.natAbs ≤ H := by omega
    have h2 : (i.natAbs : Int) = i := by omega
    simp [h1, h2]

@[simp] theorem readF_sp {F} (io : FloatIO F) (s : Str) : readF io (' ' :: s) = readF io s := by
  simp [readF]
@[simp] theorem readF_nl {F} (io : FloatIO F) (s : Str) : readF io ('\n' :: s) = readF io s := by
  simp [readF]

@[simp] theorem Sep_sp (s : Str) : Sep (' ' :: s) := by simp [Sep, isWs]
@[simp] theorem Sep_nl (s : Str) : Sep ('\n' :: s) := by simp [Sep, isWs]
@[simp] theorem Sep_nil : Sep [] := trivial

end Vita.C11
