import Vita.C11.Big
import Vita.C11.TextLemmas
/-!
  Small concrete instances used by the non-vacuity `example`s of `Props.lean`: a two-valued
  number type whose texts go through the same float lexer, a two-symbol table, an individual.
-/
namespace Vita.C11

/-- a two-valued toy number type whose texts go through the *same* lexer -/
def toyIO : FloatIO Bool where
  fmt b := if b then ['1'] else ['0']
  conv s := if s = ['1'] then some true else if s = ['0'] then some false else none
  finite _ := true
  lt a b := !a && b

theorem ws_cases {c : Char} (h : isWs c = true) :
    c = ' ' ∨ c = '\n' ∨ c = '\t' ∨ c = '\r' ∨ c = '\x0b' ∨ c = '\x0c' := by
  simp [isWs] at h
  rcases h with ((((h | h) | h) | h) | h) | h <;> simp [h]

theorem lexBody_ws (c : Char) (t : Str) (h : isWs c = true) (fm fd fs : Bool) :
    lexBody (c :: t) fm fd fs = ([], c :: t) := by
  rcases ws_cases h with h | h | h | h | h | h <;> subst h <;> unfold lexBody <;> simp


/-- a two-symbol table: opcode 0 = parametric terminal, opcode 1 = binary function -/
def toyTab : SymTab := fun op => if op = 0 then some ⟨true, 0⟩ else if op = 1 then some ⟨false, 2⟩ else none
def toyInd : IMep Bool := ⟨3, 1, [⟨1, none, [1, 1]⟩, ⟨0, some true, []⟩], (0, 0)⟩

end Vita.C11
