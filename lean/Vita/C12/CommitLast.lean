/-
  C12 (a) — the commit-last discipline, once and for all.

  A load function is abstracted (by tools/translate_loads.py, from the clang AST) to a
  structured program over four kinds of atoms:
    `fail`   a point where the function may leave reporting failure (`return false`, `throw`,
             `return <non-constant>`),
    `write`  any modification of `*this` (assignment to a data member, `*this = …`, a
             non-const member call on a data member, a data member bound to a non-const
             reference/pointer parameter, `in >> member`),
    `sub i`  a nested load executed on `*this` or on one of its data members (entry `i` of the
             table): it may fail and, if it does not, it has written,
    `skip`   anything else (reads, work on locals, nested loads into locals).
  The semantics is deliberately generous: `write` may change the target to *anything*, every
  `fail` may or may not fire, loops run any number of times, both branches of every `if` are
  possible, a failed nested load may even be ignored by the caller.

  `commit_last_sound`: if every entry of the table passes the syntactic test `cl` (on no path
  is a write followed by a possible failure), then whenever an entry fails, the target is
  exactly what it was before the call.
-/
namespace Vita.C12

inductive Stmt
  | skip | fail | write
  | sub (i : Nat)
  | seq (a b : Stmt)
  | loop (b : Stmt)
  | branch (a b : Stmt)
deriving DecidableEq, Repr

open Stmt

def mayFail : Stmt → Bool
  | .fail => true
  | .sub _ => true
  | .seq a b => mayFail a || mayFail b
  | .loop b => mayFail b
  | .branch a b => mayFail a || mayFail b
  | _ => false

def mayWrite : Stmt → Bool
  | .write => true
  | .sub _ => true
  | .seq a b => mayWrite a || mayWrite b
  | .loop b => mayWrite b
  | .branch a b => mayWrite a || mayWrite b
  | _ => false

/-- on no path is a write followed by a possible failure -/
def cl : Stmt → Bool
  | .seq a b => cl a && cl b && !(mayWrite a && mayFail b)
  | .loop b => cl b && !(mayWrite b && mayFail b)
  | .branch a b => cl a && cl b
  | _ => true

inductive Out | cont | failed
deriving DecidableEq, Repr

variable {σ : Type}

/-- `Exec Γ s t o t'`: running `s` on target `t` may end with outcome `o` and target `t'`. -/
inductive Exec (Γ : List Stmt) : Stmt → σ → Out → σ → Prop
  | skip (t) : Exec Γ .skip t .cont t
  | failNo (t) : Exec Γ .fail t .cont t
  | failYes (t) : Exec Γ .fail t .failed t
  | write (t t') : Exec Γ .write t .cont t'
  | sub (i t o t') : Exec Γ (Γ.getD i .skip) t o t' → Exec Γ (.sub i) t o t'
  | subIgnored (i t t') : Exec Γ (Γ.getD i .skip) t .failed t' → Exec Γ (.sub i) t .cont t'
  | seqCont (a b t t1 o t2) : Exec Γ a t .cont t1 → Exec Γ b t1 o t2 → Exec Γ (.seq a b) t o t2
  | seqFail (a b t t1) : Exec Γ a t .failed t1 → Exec Γ (.seq a b) t .failed t1
  | loopDone (b t) : Exec Γ (.loop b) t .cont t
  | loopStep (b t t1 o t2) : Exec Γ b t .cont t1 → Exec Γ (.loop b) t1 o t2 → Exec Γ (.loop b) t o t2
  | loopFail (b t t1) : Exec Γ b t .failed t1 → Exec Γ (.loop b) t .failed t1
  | brL (a b t o t') : Exec Γ a t o t' → Exec Γ (.branch a b) t o t'
  | brR (a b t o t') : Exec Γ b t o t' → Exec Γ (.branch a b) t o t'

theorem failed_mayFail {Γ : List Stmt} {s : Stmt} {t t' : σ} {o : Out}
    (h : Exec Γ s t o t') : o = .failed → mayFail s = true := by
  induction h with
  | skip | failNo | write | subIgnored | loopDone => intro e; cases e
  | failYes => intro _; rfl
  | sub => intro _; rfl
  | seqCont a b t t1 o t2 _ _ _ ih2 => intro e; simp [mayFail, ih2 e]
  | seqFail a b t t1 _ ih => intro e; simp [mayFail, ih e]
  | loopStep b t t1 o t2 _ _ _ ih2 => intro e; exact ih2 e
  | loopFail b t t1 _ ih => intro e; simp [mayFail, ih e]
  | brL a b t o t' _ ih => intro e; simp [mayFail, ih e]
  | brR a b t o t' _ ih => intro e; simp [mayFail, ih e]

theorem getD_cl {Γ : List Stmt} (hΓ : ∀ s ∈ Γ, cl s = true) (i : Nat) : cl (Γ.getD i .skip) = true := by
  rw [List.getD_eq_getElem?_getD]
  cases h : Γ[i]? with
  | none => rfl
  | some s => exact hΓ s (List.mem_of_getElem? h)

/-- the invariant carried through an execution -/
theorem exec_inv {Γ : List Stmt} (hΓ : ∀ s ∈ Γ, cl s = true) {s : Stmt} {t t' : σ} {o : Out}
    (h : Exec Γ s t o t') : cl s = true →
      (o = .failed → t' = t) ∧ (mayWrite s = false → t' = t) := by
  induction h with
  | skip | failNo | failYes | loopDone => intro _; exact ⟨fun _ => rfl, fun _ => rfl⟩
  | write t t' => intro _; exact ⟨fun e => (by cases e), fun e => (by simp [mayWrite] at e)⟩
  | sub i t o t' _ ih =>
    intro _
    exact ⟨(ih (getD_cl hΓ i)).1, fun e => by simp [mayWrite] at e⟩
  | subIgnored i t t' _ ih =>
    intro _
    exact ⟨fun e => (by cases e), fun e => (by simp [mayWrite] at e)⟩
  | seqCont a b t t1 o t2 h1 h2 ih1 ih2 =>
    intro hc
    simp only [cl, Bool.and_eq_true, Bool.not_eq_true', Bool.and_eq_false_iff] at hc
    obtain ⟨⟨ha, hb⟩, hwf⟩ := hc
    have i1 := ih1 ha
    have i2 := ih2 hb
    constructor
    · intro e
      have hf := failed_mayFail h2 e
      rcases hwf with hw | hnf
      · rw [i2.1 e, i1.2 hw]
      · rw [hf] at hnf; cases hnf
    · intro e
      simp only [mayWrite, Bool.or_eq_false_iff] at e
      rw [i2.2 e.2, i1.2 e.1]
  | seqFail a b t t1 _ ih =>
    intro hc
    simp only [cl, Bool.and_eq_true] at hc
    exact ⟨fun e => (ih hc.1.1).1 e, fun e => by
      simp only [mayWrite, Bool.or_eq_false_iff] at e; exact (ih hc.1.1).2 e.1⟩
  | loopStep b t t1 o t2 h1 h2 ih1 ih2 =>
    intro hc
    have hc' := hc
    simp only [cl, Bool.and_eq_true, Bool.not_eq_true', Bool.and_eq_false_iff] at hc
    obtain ⟨hb, hwf⟩ := hc
    have i1 := ih1 hb
    have i2 := ih2 hc'
    constructor
    · intro e
      have hf : mayFail b = true := by simpa [mayFail] using failed_mayFail h2 e
      rcases hwf with hw | hnf
      · rw [i2.1 e, i1.2 hw]
      · rw [hf] at hnf; cases hnf
    · intro e
      simp only [mayWrite] at e
      rw [i2.2 (by simpa [mayWrite] using e), i1.2 e]
  | loopFail b t t1 _ ih =>
    intro hc
    simp only [cl, Bool.and_eq_true] at hc
    exact ⟨fun e => (ih hc.1).1 e, fun e => (ih hc.1).2 (by simpa [mayWrite] using e)⟩
  | brL a b t o t' _ ih =>
    intro hc
    simp only [cl, Bool.and_eq_true] at hc
    exact ⟨(ih hc.1).1, fun e => by
      simp only [mayWrite, Bool.or_eq_false_iff] at e; exact (ih hc.1).2 e.1⟩
  | brR a b t o t' _ ih =>
    intro hc
    simp only [cl, Bool.and_eq_true] at hc
    exact ⟨(ih hc.2).1, fun e => by
      simp only [mayWrite, Bool.or_eq_false_iff] at e; exact (ih hc.2).2 e.2⟩

end Vita.C12

namespace Vita.C12

/-- **Soundness of the discipline.**  If every function of the table passes `cl`, a failing
    execution of any of them leaves the target untouched. -/
theorem commit_last_sound {σ : Type} (Γ : List Stmt) (hΓ : ∀ s ∈ Γ, cl s = true) (i : Nat) (t t' : σ)
    (h : Exec Γ (Γ.getD i .skip) t .failed t') : t' = t :=
  (exec_inv hΓ h (getD_cl hΓ i)).1 rfl

end Vita.C12
