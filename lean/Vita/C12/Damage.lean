import Vita.C12.Model
import Vita.C12.Lemmas
/-!
  C12 (c) — helper definitions and lemmas for "a damaged field is reported": which spellings the extractors
  reject whatever follows (`NoDigit`, `NoFloat`), and how the failure of one element propagates through the `for`
  loops of the load functions (`readN_none_of_elem`).  The theorems are in Props.lean.
-/
namespace Vita.C12
open Vita.C11

/-- After the white space and ONE optional sign the stream is at its end or at a character that is not a decimal
    digit: the empty stream, a word, a sign alone, `--5`, `.5`, `x12`, `inf`, `nan`, `#` … -/
def NoDigit (s : Str) : Prop :=
  match (readSign (skipWs s)).2 with
  | [] => True
  | c :: _ => c.isDigit = false

instance (s : Str) : Decidable (NoDigit s) := by
  unfold NoDigit; split <;> infer_instance

theorem readU_noDigit (M : Nat) (s : Str) (h : NoDigit s) : readU M s = none := by
  unfold NoDigit at h
  unfold readU
  generalize readSign (skipWs s) = p at h
  obtain ⟨neg, s1⟩ := p
  cases s1 with
  | nil => rfl
  | cons c t => simp only [] at h; simp [h]

theorem readI_noDigit (H : Nat) (s : Str) (h : NoDigit s) : readI H s = none := by
  unfold NoDigit at h
  unfold readI
  generalize readSign (skipWs s) = p at h
  obtain ⟨neg, s1⟩ := p
  cases s1 with
  | nil => rfl
  | cons c t => simp only [] at h; simp [h]

/-- the float lexer accepts no character at all (a word, `#`, `inf`, `nan`, the empty stream), or the text it
    accepts is not a numeral for `strtod` (a sign alone, `.`, `1.5e`, `1.5e+`, an exponent that overflows) -/
def NoFloat {F : Type} (io : FloatIO F) (s : Str) : Prop :=
  (lexFloat (skipWs s)).1 = [] ∨ (io.conv (lexFloat (skipWs s)).1).isNone = true

instance {F : Type} (io : FloatIO F) (s : Str) : Decidable (NoFloat io s) := by
  unfold NoFloat; infer_instance

theorem readF_noFloat {F : Type} (io : FloatIO F) (s : Str) (h : NoFloat io s) : readF io s = none := by
  unfold NoFloat at h
  unfold readF
  generalize lexFloat (skipWs s) = p at h
  obtain ⟨x, rest⟩ := p
  simp only [] at h ⊢
  cases x with
  | nil => rfl
  | cons c t =>
    rcases h with h | h
    · cases h
    · simp only [Option.isNone_iff_eq_none] at h; simp [h]

/-- failure of the k-th element of a counted sequence makes the sequence fail -/
theorem readN_none_of_elem {α : Type} (p : P α) :
    ∀ (k n : Nat) (s : Str) (as : List α) (r : Str),
      readN p k s = some (as, r) → p r = none → k < n → readN p n s = none := by
  intro k
  induction k with
  | zero =>
    intro n s as r h hp hk
    simp [readN, P.pure_apply] at h
    obtain ⟨_, rfl⟩ := h
    cases n with
    | zero => omega
    | succ n => simp [readN, P.bind_apply, hp]
  | succ k ih =>
    intro n s as r h hp hk
    cases n with
    | zero => omega
    | succ n =>
      simp only [readN, P.bind_apply] at h ⊢
      cases h1 : p s with
      | none => simp
      | some q =>
        obtain ⟨a, s'⟩ := q
        simp only [h1] at h ⊢
        cases h2 : readN p k s' with
        | none => simp [h2] at h
        | some w =>
          obtain ⟨as', r'⟩ := w
          simp only [h2, P.pure_apply, Option.some.injEq, Prod.mk.injEq] at h
          obtain ⟨_, rfl⟩ := h
          rw [ih n s' as' r' h2 hp (by omega)]


theorem lexFloat_nil_of_head (c : Char) (t : Str) (hd : c.isDigit = false) (h1 : c ≠ '-') (h2 : c ≠ '+')
    (h3 : c ≠ '.') : (lexFloat (c :: t)).1 = [] := by
  have hz : lexZeros (c :: t) false = ([], false, c :: t) := by
    rw [lexZeros.eq_def]
    split
    · rename_i heq; cases heq; simp at hd
    · rfl
  have hb : lexBody (c :: t) false false false = ([], c :: t) := by
    rw [lexBody.eq_def]
    simp [hd, h3]
  unfold lexFloat
  simp only []
  split
  · rename_i heq; cases heq; exact absurd rfl h1
  · rename_i heq; cases heq; exact absurd rfl h2
  · simp [hz, hb]

variable {F : Type}

/-- a failing parser: the statement-by-statement model reports failure and returns the target it was given -/
theorem parseThenCommit_none {X α : Type} (parse : P α) (commit : X → α → X) (t : X) (s : Str)
    (h : parse s = none) : (parseThenCommit parse commit t s).ok = false ∧ (parseThenCommit parse commit t s).target = t := by
  unfold parseThenCommit; simp [h]

end Vita.C12
