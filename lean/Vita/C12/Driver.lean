import Vita.C11.DriverLib
/-! C12 driver: same line protocol as C11 (`load <type> <hex>` on damaged streams). -/
def main : IO Unit := Vita.C11.Drv.driverMain
