import Vita.C11.DriverLib
import Vita.C12.FlowTable
/-! C12 driver: same line protocol as C11 (`load <type> <hex>` on damaged streams);
    `c12_driver flow` prints what the obligations say about every entry of the extracted table. -/
def main (args : List String) : IO Unit := do
  if args == ["flow"] then
    for l in Vita.C12.flowReport do IO.println l
  else
    Vita.C11.Drv.driverMain
