/-
  C12 (a) — the load functions and the stream constructors as data-flow programs.

  tools/translate_flow.py abstracts every function of the table, from the clang AST, to a structured
  program whose atoms carry the data-flow:

    `read dst chk`    an extraction from the input stream `in` (`in >> a >> b`, `getline(in, s)`,
                      `load_float_from_stream(in, &x)`) that assigns the locations `dst`; `chk = some k`
                      when the statement is `if (!(in >> …)) <leave with k>` (the read is CHECKED),
                      `none` when nobody looks at the result;
    `asg dst`         any other write of a location (assignment, compound assignment, increment, non-const
                      member call, the location handed out by non-const reference / pointer);
    `sub i obj chk`   a nested load / stream constructor (entry `i` of the table) executed on `obj`;
                      `chk = some k` for `if (!obj.load(in)) <leave with k>`; an exception thrown by the
                      callee always propagates;
    `fail k`          `return false`, `return nullptr`, `throw exception::data_format`, any other throw;
    `skip`, `seq`, `loop`, `branch`.

  A location is a local of the function (`tmp n`), a data member of `*this` (`mem n`, index in the table
  of member names), the whole object (`self`) or anything else (`ext`).

  Semantics (`Exec`): the state is the value of every member of `*this`, of every local, the sticky fail
  bit of the stream and a ghost bit "a failed nested load was ignored".  It is deliberately generous: a
  write stores any value, a read may fail at any time (and must fail once the stream is bad), loops run
  any number of times, both branches of a condition are possible, a failed read may have written its
  destinations, a nested load that modified its target at all may have done anything to it.

  Theorems
    `exec_frame`     members outside `wr s` are never changed by `s`; members outside `dirty ok s` are
                     not changed by an execution of `s` that FAILS — through nested calls on `*this`, on
                     members, on locals, provided the callees marked `ok` have an empty `dirty`;
    `fail_untouched` hence an entry with empty `dirty` leaves every member of `*this` as it was when it
                     fails (commit-last, now derived from the data-flow);
    `exec_clean`     if every read and every nested load is checked (`allChecked`; a callee that can only
                     throw needs no check), a call that returns
                     success has seen no failed extraction and no failed nested load: every failed read
                     is reported;
    `exec_kinds`     the ways a function can leave on failure are among those the table allows
                     (`return false` for loads, `throw exception::data_format` for the constructors).
-/
namespace Vita.C12.Flow

inductive Loc
  | tmp (i : Nat) | mem (i : Nat) | self | ext
deriving DecidableEq, Repr

/-- how a function leaves when it fails -/
inductive FK
  | retFalse | retNull | throwFmt | throwOther
deriving DecidableEq, Repr

def FK.isThrow : FK → Bool
  | .throwFmt | .throwOther => true
  | _ => false

/-- what an entry of the table is: `load` = a load the property names (must be commit-last), `weak` = a load
    documented "could be changed", `ctor` = a stream constructor, `builder` = serialize::lambda::detail::build<U>,
    `factory` = serialize::lambda::load<T> -/
inductive Kind
  | load | weak | ctor | builder | factory
deriving DecidableEq, Repr

inductive Stmt
  | skip
  | fail (k : FK)
  | read (dst : List Loc) (chk : Option FK)
  | asg (dst : Loc)
  | sub (i : Nat) (obj : Loc) (chk : Option FK)
  | seq (a b : Stmt)
  | loop (b : Stmt)
  | branch (a b : Stmt)
deriving DecidableEq, Repr

/-! ### sets of members -/

structure W where
  all : Bool
  ms : List Nat
deriving DecidableEq, Repr

def W.empty : W := ⟨false, []⟩
def W.union (a b : W) : W := ⟨a.all || b.all, a.ms ++ b.ms⟩
def W.has (w : W) (m : Nat) : Bool := w.all || decide (m ∈ w.ms)
def W.isEmpty (w : W) : Bool := !w.all && w.ms.isEmpty

theorem W.has_union (a b : W) (m : Nat) : (a.union b).has m = (a.has m || b.has m) := by
  simp only [W.has, W.union, List.mem_append, Bool.decide_or]
  cases a.all <;> cases b.all <;> simp

theorem W.has_empty (m : Nat) : W.empty.has m = false := by simp [W.has, W.empty]

theorem W.has_of_isEmpty {w : W} (h : w.isEmpty = true) (m : Nat) : w.has m = false := by
  simp only [W.isEmpty, Bool.and_eq_true, Bool.not_eq_true', List.isEmpty_iff] at h
  simp [W.has, h.1, h.2]

def locW : Loc → W
  | .mem m => ⟨false, [m]⟩
  | .self => ⟨true, []⟩
  | _ => .empty

def locsW : List Loc → W
  | [] => .empty
  | l :: ls => (locW l).union (locsW ls)

/-- the members of `*this` that `s` may write -/
def wr : Stmt → W
  | .read dst _ => locsW dst
  | .asg l => locW l
  | .sub _ obj _ => locW obj
  | .seq a b => (wr a).union (wr b)
  | .loop b => wr b
  | .branch a b => (wr a).union (wr b)
  | _ => .empty

def mayFail : Stmt → Bool
  | .fail _ => true
  | .read _ (some _) => true
  | .sub _ _ _ => true          -- the callee may throw
  | .seq a b => mayFail a || mayFail b
  | .loop b => mayFail b
  | .branch a b => mayFail a || mayFail b
  | _ => false

/-- the members of `*this` that may differ from their initial value when `s` FAILS; `ok i` says that the
    table entry `i` is known to leave its target untouched when it fails -/
def dirty (ok : Nat → Bool) : Stmt → W
  | .read dst (some _) => locsW dst        -- a failed extraction may have written its destinations
  | .sub i obj _ => if ok i then .empty else locW obj
  | .seq a b => (dirty ok a).union (if mayFail b then (wr a).union (dirty ok b) else .empty)
  | .loop b => (dirty ok b).union (if mayFail b then wr b else .empty)
  | .branch a b => (dirty ok a).union (dirty ok b)
  | _ => .empty

/-- every read of the stream and every nested load is checked (a callee that can only fail by throwing
    needs no check: its exception propagates) -/
def allChecked (allow : Nat → List FK) : Stmt → Bool
  | .read _ none => false
  | .sub i _ none => (allow i).all FK.isThrow
  | .seq a b => allChecked allow a && allChecked allow b
  | .loop b => allChecked allow b
  | .branch a b => allChecked allow a && allChecked allow b
  | _ => true

/-- every way of leaving on failure is in `A`; exceptions of the callees (`allow i`) propagate -/
def kindsOK (allow : Nat → List FK) (A : List FK) : Stmt → Bool
  | .fail k => decide (k ∈ A)
  | .read _ (some k) => decide (k ∈ A)
  | .sub i _ chk =>
      (match chk with | some k => decide (k ∈ A) | none => true) &&
      ((allow i).filter FK.isThrow).all (fun k => decide (k ∈ A))
  | .seq a b => kindsOK allow A a && kindsOK allow A b
  | .loop b => kindsOK allow A b
  | .branch a b => kindsOK allow A a && kindsOK allow A b
  | _ => true

/-! ### semantics -/

structure St (V : Type) where
  mem : Nat → V
  tmp : Nat → V
  bad : Bool        -- fail bit of the stream (sticky)
  missed : Bool     -- ghost: a nested load failed and nobody looked

inductive Out
  | cont | failed (k : FK)
deriving DecidableEq, Repr

variable {V : Type}

/-- a write of the locations `dst`: anything may be stored there, nothing else moves -/
def Wrs (dst : List Loc) (s s' : St V) : Prop :=
  (∀ m, (locsW dst).has m = false → s'.mem m = s.mem m) ∧
  (Loc.self ∉ dst → ∀ t, Loc.tmp t ∉ dst → s'.tmp t = s.tmp t)

/-- how the execution of a callee (`c` to `c'`, on its own `*this`) shows in the caller's state -/
def EmbedMem (obj : Loc) (s c c' s' : St V) : Prop :=
  match obj with
  | .self => c.mem = s.mem ∧ s'.mem = c'.mem ∧ s'.tmp = s.tmp
  | .mem m => (∀ k, k ≠ m → s'.mem k = s.mem k) ∧ ((∀ k, c'.mem k = c.mem k) → s'.mem m = s.mem m) ∧
              s'.tmp = s.tmp
  | .tmp t => s'.mem = s.mem ∧ ∀ k, k ≠ t → s'.tmp k = s.tmp k
  | .ext => s'.mem = s.mem ∧ s'.tmp = s.tmp

def Embed (obj : Loc) (s c c' s' : St V) : Prop :=
  c.bad = s.bad ∧ c.missed = s.missed ∧ s'.bad = c'.bad ∧ EmbedMem obj s c c' s'

inductive Exec (Γ : List Stmt) : Stmt → St V → Out → St V → Prop
  | skip (s) : Exec Γ .skip s .cont s
  | fail (k s) : Exec Γ (.fail k) s (.failed k) s
  | readOk (dst chk s s') : s.bad = false → Wrs dst s s' → s'.bad = false → s'.missed = s.missed →
      Exec Γ (.read dst chk) s .cont s'
  | readBadChk (dst k s s') : Wrs dst s s' → s'.bad = true → s'.missed = s.missed →
      Exec Γ (.read dst (some k)) s (.failed k) s'
  | readBadIgn (dst s s') : Wrs dst s s' → s'.bad = true → s'.missed = s.missed →
      Exec Γ (.read dst none) s .cont s'
  | asg (l s s') : Wrs [l] s s' → s'.bad = s.bad → s'.missed = s.missed → Exec Γ (.asg l) s .cont s'
  | subOk (i obj chk s c c' s') : Exec Γ (Γ.getD i .skip) c .cont c' → Embed obj s c c' s' →
      s'.missed = c'.missed → Exec Γ (.sub i obj chk) s .cont s'
  | subThrow (i obj chk s c c' s' k) : Exec Γ (Γ.getD i .skip) c (.failed k) c' → k.isThrow = true →
      Embed obj s c c' s' → s'.missed = c'.missed → Exec Γ (.sub i obj chk) s (.failed k) s'
  | subFailChk (i obj k' s c c' s' k) : Exec Γ (Γ.getD i .skip) c (.failed k) c' → k.isThrow = false →
      Embed obj s c c' s' → s'.missed = c'.missed → Exec Γ (.sub i obj (some k')) s (.failed k') s'
  | subFailIgn (i obj s c c' s' k) : Exec Γ (Γ.getD i .skip) c (.failed k) c' → k.isThrow = false →
      Embed obj s c c' s' → s'.missed = true → Exec Γ (.sub i obj none) s .cont s'
  | seqCont (a b s s1 o s2) : Exec Γ a s .cont s1 → Exec Γ b s1 o s2 → Exec Γ (.seq a b) s o s2
  | seqFail (a b s s1 k) : Exec Γ a s (.failed k) s1 → Exec Γ (.seq a b) s (.failed k) s1
  | loopDone (b s) : Exec Γ (.loop b) s .cont s
  | loopStep (b s s1 o s2) : Exec Γ b s .cont s1 → Exec Γ (.loop b) s1 o s2 → Exec Γ (.loop b) s o s2
  | loopFail (b s s1 k) : Exec Γ b s (.failed k) s1 → Exec Γ (.loop b) s (.failed k) s1
  | brL (a b s o s') : Exec Γ a s o s' → Exec Γ (.branch a b) s o s'
  | brR (a b s o s') : Exec Γ b s o s' → Exec Γ (.branch a b) s o s'

/-! ### a failing execution passes through a failure point -/

theorem failed_mayFail {Γ : List Stmt} {s : Stmt} {st st' : St V} {o : Out}
    (h : Exec Γ s st o st') : ∀ k, o = .failed k → mayFail s = true := by
  induction h with
  | skip | readOk | readBadIgn | asg | subOk | subFailIgn | loopDone => intro k e; cases e
  | fail => intro _ _; rfl
  | readBadChk => intro _ _; rfl
  | subThrow => intro _ _; rfl
  | subFailChk => intro _ _; rfl
  | seqCont a b s s1 o s2 _ _ _ ih2 => intro k e; simp [mayFail, ih2 k e]
  | seqFail a b s s1 k _ ih => intro k' e; simp [mayFail, ih k rfl]
  | loopStep b s s1 o s2 _ _ _ ih2 => intro k e; exact ih2 k e
  | loopFail b s s1 k _ ih => intro k' e; simp [mayFail, ih k rfl]
  | brL a b s o s' _ ih => intro k e; simp [mayFail, ih k e]
  | brR a b s o s' _ ih => intro k e; simp [mayFail, ih k e]

theorem locsW_single (l : Loc) (m : Nat) : (locsW [l]).has m = (locW l).has m := by
  simp [locsW, W.has_union, W.has_empty]

/-- what the caller sees of a callee that left its own target untouched, or of any callee for the members
    outside `locW obj` -/
theorem embed_frame {obj : Loc} {s c c' s' : St V} (h : EmbedMem obj s c c' s') (m : Nat) :
    ((locW obj).has m = false → s'.mem m = s.mem m) ∧
    ((∀ k, c'.mem k = c.mem k) → s'.mem m = s.mem m) := by
  cases obj with
  | self =>
    obtain ⟨h1, h2, _⟩ := h
    exact ⟨fun e => by simp [locW, W.has] at e, fun e => by rw [h2, e m, h1]⟩
  | mem m0 =>
    obtain ⟨h1, h2, _⟩ := h
    by_cases hm : m = m0
    · subst hm
      exact ⟨fun e => by simp [locW, W.has] at e, fun e => h2 e⟩
    · exact ⟨fun _ => h1 m hm, fun _ => h1 m hm⟩
  | tmp t => exact ⟨fun _ => by rw [h.1], fun _ => by rw [h.1]⟩
  | ext => exact ⟨fun _ => by rw [h.1], fun _ => by rw [h.1]⟩

theorem getD_ok {Γ : List Stmt} {P : Stmt → Prop} (hskip : P .skip) (hΓ : ∀ s ∈ Γ, P s) (i : Nat) :
    P (Γ.getD i .skip) := by
  rw [List.getD_eq_getElem?_getD]
  cases h : Γ[i]? with
  | none => exact hskip
  | some s => exact hΓ s (List.mem_of_getElem? h)

/-- **The frame invariant.**  Members outside `wr s` never change; members outside `dirty ok s` do not
    change when `s` fails. -/
theorem exec_frame {Γ : List Stmt} (ok : Nat → Bool)
    (hΓ : ∀ i, ok i = true → (dirty ok (Γ.getD i .skip)).isEmpty = true)
    {s : Stmt} {st st' : St V} {o : Out} (h : Exec Γ s st o st') :
    (∀ m, (wr s).has m = false → st'.mem m = st.mem m) ∧
    (∀ k, o = .failed k → ∀ m, (dirty ok s).has m = false → st'.mem m = st.mem m) := by
  induction h with
  | skip s => exact ⟨fun _ _ => rfl, fun _ _ _ _ => rfl⟩
  | fail k s => exact ⟨fun _ _ => rfl, fun _ _ _ _ => rfl⟩
  | readOk dst chk s s' _ hw _ _ =>
    exact ⟨fun m e => hw.1 m (by simpa [wr] using e), fun k e => by cases e⟩
  | readBadChk dst k s s' hw _ _ =>
    exact ⟨fun m e => hw.1 m (by simpa [wr] using e), fun _ _ m e => hw.1 m (by simpa [dirty] using e)⟩
  | readBadIgn dst s s' hw _ _ =>
    exact ⟨fun m e => hw.1 m (by simpa [wr] using e), fun k e => by cases e⟩
  | asg l s s' hw _ _ =>
    exact ⟨fun m e => hw.1 m (by rw [locsW_single]; simpa [wr] using e), fun k e => by cases e⟩
  | subOk i obj chk s c c' s' _ he _ _ =>
    exact ⟨fun m e => (embed_frame he.2.2.2 m).1 (by simpa [wr] using e), fun k e => by cases e⟩
  | subThrow i obj chk s c c' s' k _ _ he _ ih =>
    refine ⟨fun m e => (embed_frame he.2.2.2 m).1 (by simpa [wr] using e), fun _ _ m e => ?_⟩
    cases hok : ok i with
    | true =>
      have hcal : ∀ j, c'.mem j = c.mem j := fun j => ih.2 k rfl j (W.has_of_isEmpty (hΓ i hok) j)
      exact (embed_frame he.2.2.2 m).2 hcal
    | false =>
      simp only [dirty, hok] at e
      exact (embed_frame he.2.2.2 m).1 (by simpa using e)
  | subFailChk i obj k' s c c' s' k _ _ he _ ih =>
    refine ⟨fun m e => (embed_frame he.2.2.2 m).1 (by simpa [wr] using e), fun _ _ m e => ?_⟩
    cases hok : ok i with
    | true =>
      have hcal : ∀ j, c'.mem j = c.mem j := fun j => ih.2 k rfl j (W.has_of_isEmpty (hΓ i hok) j)
      exact (embed_frame he.2.2.2 m).2 hcal
    | false =>
      simp only [dirty, hok] at e
      exact (embed_frame he.2.2.2 m).1 (by simpa using e)
  | subFailIgn i obj s c c' s' k _ _ he _ _ =>
    exact ⟨fun m e => (embed_frame he.2.2.2 m).1 (by simpa [wr] using e), fun k e => by cases e⟩
  | seqCont a b s s1 o s2 _ h2 ih1 ih2 =>
    constructor
    · intro m e
      simp only [wr, W.has_union, Bool.or_eq_false_iff] at e
      rw [ih2.1 m e.2, ih1.1 m e.1]
    · intro k ek m e
      have hf : mayFail b = true := failed_mayFail h2 k ek
      simp only [dirty, hf, if_true, W.has_union, Bool.or_eq_false_iff] at e
      rw [ih2.2 k ek m e.2.2, ih1.1 m e.2.1]
  | seqFail a b s s1 k _ ih =>
    constructor
    · intro m e
      simp only [wr, W.has_union, Bool.or_eq_false_iff] at e
      exact ih.1 m e.1
    · intro k' _ m e
      simp only [dirty, W.has_union, Bool.or_eq_false_iff] at e
      exact ih.2 k rfl m e.1
  | loopDone b s => exact ⟨fun _ _ => rfl, fun _ _ _ _ => rfl⟩
  | loopStep b s s1 o s2 _ h2 ih1 ih2 =>
    constructor
    · intro m e
      rw [ih2.1 m e, ih1.1 m (by simpa [wr] using e)]
    · intro k ek m e
      have hf : mayFail b = true := by simpa [mayFail] using failed_mayFail h2 k ek
      have e' := e
      simp only [dirty, hf, if_true, W.has_union, Bool.or_eq_false_iff] at e
      rw [ih2.2 k ek m e', ih1.1 m e.2]
  | loopFail b s s1 k _ ih =>
    constructor
    · intro m e
      exact ih.1 m (by simpa [wr] using e)
    · intro k' _ m e
      simp only [dirty, W.has_union, Bool.or_eq_false_iff] at e
      exact ih.2 k rfl m e.1
  | brL a b s o s' _ ih =>
    constructor
    · intro m e
      simp only [wr, W.has_union, Bool.or_eq_false_iff] at e
      exact ih.1 m e.1
    · intro k ek m e
      simp only [dirty, W.has_union, Bool.or_eq_false_iff] at e
      exact ih.2 k ek m e.1
  | brR a b s o s' _ ih =>
    constructor
    · intro m e
      simp only [wr, W.has_union, Bool.or_eq_false_iff] at e
      exact ih.1 m e.2
    · intro k ek m e
      simp only [dirty, W.has_union, Bool.or_eq_false_iff] at e
      exact ih.2 k ek m e.2

/-- **Commit-last from the data-flow.**  If the entries marked `ok` have an empty `dirty` set, a failing
    execution of any of them leaves every member of `*this` as it was. -/
theorem fail_untouched {Γ : List Stmt} (ok : Nat → Bool)
    (hΓ : ∀ i, ok i = true → (dirty ok (Γ.getD i .skip)).isEmpty = true)
    (i : Nat) (hi : ok i = true) (st st' : St V) (k : FK)
    (h : Exec Γ (Γ.getD i .skip) st (.failed k) st') : ∀ m, st'.mem m = st.mem m :=
  fun m => (exec_frame ok hΓ h).2 k rfl m (W.has_of_isEmpty (hΓ i hi) m)

/-- what a failing execution of ANY entry can have changed: only the members in its `dirty` set -/
theorem fail_frame {Γ : List Stmt} (ok : Nat → Bool)
    (hΓ : ∀ i, ok i = true → (dirty ok (Γ.getD i .skip)).isEmpty = true)
    (i : Nat) (st st' : St V) (k : FK) (h : Exec Γ (Γ.getD i .skip) st (.failed k) st')
    (m : Nat) (hm : (dirty ok (Γ.getD i .skip)).has m = false) : st'.mem m = st.mem m :=
  (exec_frame ok hΓ h).2 k rfl m hm

/-- … and any execution (successful ones included) only the members in its `wr` set -/
theorem write_frame {Γ : List Stmt} (i : Nat) (st st' : St V) (o : Out)
    (h : Exec Γ (Γ.getD i .skip) st o st') (m : Nat) (hm : (wr (Γ.getD i .skip)).has m = false) :
    st'.mem m = st.mem m :=
  (exec_frame (fun _ => false) (fun _ e => by cases e) h).1 m hm

/-! ### the documented way of reporting failure -/

theorem exec_kinds {Γ : List Stmt} (allow : Nat → List FK)
    (hΓ : ∀ i, kindsOK allow (allow i) (Γ.getD i .skip) = true)
    {s : Stmt} {st st' : St V} {o : Out} (h : Exec Γ s st o st') :
    ∀ A k, kindsOK allow A s = true → o = .failed k → k ∈ A := by
  induction h with
  | skip | readOk | readBadIgn | asg | subOk | subFailIgn | loopDone => intro A k _ e; cases e
  | fail k s => intro A k' hk e; cases e; simpa [kindsOK] using hk
  | readBadChk dst k s s' => intro A k' hk e; cases e; simpa [kindsOK] using hk
  | subThrow i obj chk s c c' s' k _ hthrow _ _ ih =>
    intro A k' hk e
    cases e
    have hin : k ∈ allow i := ih (allow i) k (hΓ i) rfl
    simp only [kindsOK, Bool.and_eq_true, List.all_eq_true, List.mem_filter, decide_eq_true_eq] at hk
    exact hk.2 k ⟨hin, hthrow⟩
  | subFailChk i obj k' s c c' s' k _ _ _ _ _ =>
    intro A k'' hk e
    cases e
    simp only [kindsOK, Bool.and_eq_true, decide_eq_true_eq] at hk
    exact hk.1
  | seqCont a b s s1 o s2 _ _ _ ih2 =>
    intro A k hk e
    simp only [kindsOK, Bool.and_eq_true] at hk
    exact ih2 A k hk.2 e
  | seqFail a b s s1 k _ ih =>
    intro A k' hk e
    cases e
    simp only [kindsOK, Bool.and_eq_true] at hk
    exact ih A k hk.1 rfl
  | loopStep b s s1 o s2 _ _ _ ih2 => intro A k hk e; exact ih2 A k hk e
  | loopFail b s s1 k _ ih =>
    intro A k' hk e
    cases e
    exact ih A k (by simpa [kindsOK] using hk) rfl
  | brL a b s o s' _ ih =>
    intro A k hk e
    simp only [kindsOK, Bool.and_eq_true] at hk
    exact ih A k hk.1 e
  | brR a b s o s' _ ih =>
    intro A k hk e
    simp only [kindsOK, Bool.and_eq_true] at hk
    exact ih A k hk.2 e

/-! ### every failed read is reported -/

theorem exec_clean {Γ : List Stmt} (allow : Nat → List FK)
    (hK : ∀ i, kindsOK allow (allow i) (Γ.getD i .skip) = true)
    (hΓ : ∀ s ∈ Γ, allChecked allow s = true)
    {s : Stmt} {st st' : St V} {o : Out} (h : Exec Γ s st o st') :
    allChecked allow s = true → st.bad = false → st.missed = false → o = .cont →
      st'.bad = false ∧ st'.missed = false := by
  induction h with
  | skip s => intro _ hb hm _; exact ⟨hb, hm⟩
  | fail k s => intro _ _ _ e; cases e
  | readOk dst chk s s' _ _ hb' hm' => intro _ _ hm _; exact ⟨hb', by rw [hm', hm]⟩
  | readBadChk => intro _ _ _ e; cases e
  | readBadIgn => intro hc; simp [allChecked] at hc
  | asg l s s' _ hb' hm' => intro _ hb hm _; exact ⟨by rw [hb', hb], by rw [hm', hm]⟩
  | subOk i obj chk s c c' s' _ he hm' ih =>
    intro _ hb hm _
    have := ih (getD_ok (P := fun s => allChecked allow s = true) rfl hΓ i) (by rw [he.1, hb])
      (by rw [he.2.1, hm]) rfl
    exact ⟨by rw [he.2.2.1, this.1], by rw [hm', this.2]⟩
  | subThrow => intro _ _ _ e; cases e
  | subFailChk => intro _ _ _ e; cases e
  | subFailIgn i obj s c c' s' k hcal hnt _ _ _ =>
    intro hc
    -- the callee can only fail by throwing: it cannot have returned a failure that was ignored
    have hin : k ∈ allow i := exec_kinds allow hK hcal (allow i) k (hK i) rfl
    simp only [allChecked, List.all_eq_true] at hc
    rw [hc k hin] at hnt
    cases hnt
  | seqCont a b s s1 o s2 _ _ ih1 ih2 =>
    intro hc hb hm e
    simp only [allChecked, Bool.and_eq_true] at hc
    have h1 := ih1 hc.1 hb hm rfl
    exact ih2 hc.2 h1.1 h1.2 e
  | seqFail => intro _ _ _ e; cases e
  | loopDone b s => intro _ hb hm _; exact ⟨hb, hm⟩
  | loopStep b s s1 o s2 _ _ ih1 ih2 =>
    intro hc hb hm e
    have h1 := ih1 (by simpa [allChecked] using hc) hb hm rfl
    exact ih2 hc h1.1 h1.2 e
  | loopFail => intro _ _ _ e; cases e
  | brL a b s o s' _ ih =>
    intro hc hb hm e
    simp only [allChecked, Bool.and_eq_true] at hc
    exact ih hc.1 hb hm e
  | brR a b s o s' _ ih =>
    intro hc hb hm e
    simp only [allChecked, Bool.and_eq_true] at hc
    exact ih hc.2 hb hm e

/-! ### failing executions exist (non-vacuity of the theorems about failing executions) -/

/-- the way `s` fails when its very first failure point fires (`none`: `s` does not start with one) -/
def firstFail : Stmt → Option FK
  | .fail k => some k
  | .read _ (some k) => some k
  | .seq a _ => firstFail a
  | .loop b => firstFail b
  | .branch a b => match firstFail a with
      | some k => some k
      | none => firstFail b
  | _ => none

theorem exec_firstFail {Γ : List Stmt} (s : Stmt) (k : FK) (h : firstFail s = some k) (st : St V) :
    ∃ st', Exec Γ s st (.failed k) st' := by
  induction s generalizing k with
  | skip => simp [firstFail] at h
  | asg l => simp [firstFail] at h
  | sub i obj chk => simp [firstFail] at h
  | fail k' =>
    simp only [firstFail, Option.some.injEq] at h
    subst h
    exact ⟨st, .fail _ _⟩
  | read dst chk =>
    cases chk with
    | none => simp [firstFail] at h
    | some k' =>
      simp only [firstFail, Option.some.injEq] at h
      subst h
      exact ⟨{ st with bad := true }, .readBadChk _ _ _ _ ⟨fun _ _ => rfl, fun _ _ _ => rfl⟩ rfl rfl⟩
  | seq a b iha _ =>
    obtain ⟨st', h'⟩ := iha k (by simpa [firstFail] using h)
    exact ⟨st', .seqFail _ _ _ _ _ h'⟩
  | loop b ih =>
    obtain ⟨st', h'⟩ := ih k (by simpa [firstFail] using h)
    exact ⟨st', .loopFail _ _ _ _ h'⟩
  | branch a b iha ihb =>
    simp only [firstFail] at h
    cases ha : firstFail a with
    | some k' =>
      rw [ha] at h
      simp only [Option.some.injEq] at h
      subst h
      obtain ⟨st', h'⟩ := iha k' ha
      exact ⟨st', .brL _ _ _ _ _ h'⟩
    | none =>
      rw [ha] at h
      obtain ⟨st', h'⟩ := ihb k h
      exact ⟨st', .brR _ _ _ _ _ h'⟩

/-! ### from a check over the finite table to a statement about every index -/

theorem forall_of_range {n : Nat} {P Q : Nat → Bool}
    (h : (List.range n).all (fun i => !P i || Q i) = true) (hout : ∀ i, n ≤ i → P i = false) :
    ∀ i, P i = true → Q i = true := by
  intro i hp
  by_cases hi : i < n
  · have := List.all_eq_true.mp h i (List.mem_range.mpr hi)
    simpa [hp] using this
  · rw [hout i (Nat.le_of_not_lt hi)] at hp
    cases hp

theorem forall_of_range' {n : Nat} {Q : Nat → Bool}
    (h : (List.range n).all Q = true) (hout : ∀ i, n ≤ i → Q i = true) : ∀ i, Q i = true := by
  intro i
  by_cases hi : i < n
  · exact List.all_eq_true.mp h i (List.mem_range.mpr hi)
  · exact hout i (Nat.le_of_not_lt hi)

end Vita.C12.Flow
