import Vita.C12.GenFlow
/-! C12 (a): the obligations of the extracted data-flow table, as executable definitions (shared by the
    theorems of Props.lean and by the diagnostic output of the driver). -/
namespace Vita.C12
open Flow

/-- entry `i` is one of the loads the property names -/
def okF (i : Nat) : Bool := decide (GenF.kinds.getD i .weak = .load)

/-- the documented ways entry `i` may report failure -/
def allowF (i : Nat) : List FK := GenF.allowTab.getD i []

/-- the names of the members an entry may have modified when it fails -/
def dirtyNames (i : Nat) : Bool × List String :=
  let w := dirty okF (GenF.table.getD i .skip)
  (w.all, (w.ms.map (GenF.memberNames.getD · "?")).eraseDups)

/-- one line per entry: what the obligations say (for the failure report of checks/c12.py) -/
def flowReport : List String :=
  (List.range GenF.table.length).map fun i =>
    let s := GenF.table.getD i .skip
    let d := dirtyNames i
    s!"entry {i} | {GenF.names.getD i "?"} | {repr (GenF.kinds.getD i .weak)} | dirty-on-failure: {if d.1 then "*this " else ""}{d.2} | all-reads-checked: {allChecked allowF s} | documented-failure-kinds: {kindsOK allowF (allowF i) s}"

end Vita.C12
