import Vita.C12.Model
namespace Vita.C12
open Vita.C11

theorem parseThenCommit_fail {X α : Type} (parse : P α) (commit : X → α → X) (t : X) (s : Str)
    (h : (parseThenCommit parse commit t s).ok = false) : (parseThenCommit parse commit t s).target = t := by
  unfold parseThenCommit at h ⊢
  cases hp : parse s with
  | none => rfl
  | some r => obtain ⟨a, r'⟩ := r; simp [hp] at h

theorem parseThenCommit_ok_iff {X α : Type} (parse : P α) (commit : X → α → X) (t : X) (s : Str) :
    (parseThenCommit parse commit t s).ok = (parse s).isSome := by
  unfold parseThenCommit
  cases hp : parse s with
  | none => rfl
  | some r => obtain ⟨a, r'⟩ := r; rfl

/-- the load functions C12 names (DESIGN §5, properties.jsonl anchors) -/
def requiredLoads : List String := [
  "vita::hash_t::load", "vita::i_ga::load_impl", "vita::i_de::load_impl", "vita::i_mep::load_impl",
  "vita::individual<vita::i_ga>::load", "vita::individual<vita::i_de>::load",
  "vita::individual<vita::i_mep>::load", "vita::team<vita::i_mep>::load",
  "vita::population<vita::i_mep>::load", "vita::summary<vita::i_mep>::load",
  "vita::basic_fitness_t<double>::load", "vita::matrix<int>::load", "vita::matrix<unsigned int>::load",
  "vita::distribution<double>::load", "vita::detail::class_names<true>::load"]


end Vita.C12
