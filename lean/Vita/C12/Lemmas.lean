import Vita.C12.Model
namespace Vita.C12
open Vita.C11

theorem parseThenCommit_fail {X α : Type} (parse : P α) (commit : X → α → X) (t : X) (s : Str)
    (h : (parseThenCommit parse commit t s).ok = false) : (parseThenCommit parse commit t s).target = t := by
  unfold parseThenCommit at h ⊢
  cases hp : parse s with
  | none => rfl
  | some r => obtain ⟨a, r'⟩ := r; simp [hp] at h

theorem parseThenCommit_ok_iff {X α : Type} (parse : P α) (commit : X → α → X) (t : X) (s : Str) :
    (parseThenCommit parse commit t s).ok = (parse s).isSome := by
  unfold parseThenCommit
  cases hp : parse s with
  | none => rfl
  | some r => obtain ⟨a, r'⟩ := r; rfl

variable {F : Type}

theorem loadSlots_length (io : FloatIO F) (bits sl : Nat) (n : Nat) (tab : List (Slot F)) (s : Str) :
    (Cache.loadSlots io bits sl n tab s).target.length = tab.length := by
  induction n generalizing tab s with
  | zero => rfl
  | succ n ih =>
    unfold Cache.loadSlots
    cases h : Slot.load io s with
    | none => rfl
    | some p => obtain ⟨hf, r⟩ := p; simp only []; rw [ih]; simp

/-- `loadSlots` is `readN` followed by the fold of the C11 model -/
theorem loadSlots_spec (io : FloatIO F) (bits sl : Nat) (n : Nat) (tab : List (Slot F)) (s : Str) :
    (match readN (Slot.load io) n s with
     | none => (Cache.loadSlots io bits sl n tab s).ok = false
     | some (slots, r) =>
        Cache.loadSlots io bits sl n tab s =
          ⟨slots.foldl (fun t hf => t.set (slotIndex bits hf.1) ⟨hf.1, hf.2, sl⟩) tab, true, r⟩) := by
  induction n generalizing tab s with
  | zero => simp [readN, Cache.loadSlots, P.pure_apply]
  | succ n ih =>
    unfold Cache.loadSlots
    simp only [readN, P.bind_apply]
    cases h : Slot.load io s with
    | none => simp
    | some p =>
      obtain ⟨hf, r⟩ := p
      simp only []
      have := ih (tab.set (slotIndex bits hf.1) ⟨hf.1, hf.2, sl⟩) r
      cases h2 : readN (Slot.load io) n r with
      | none => simpa [h2] using this
      | some q =>
        obtain ⟨slots, r2⟩ := q
        simp only [h2] at this
        simp [this, P.pure_apply]

/-- the load functions C12 names (DESIGN §5, properties.jsonl anchors) -/
def requiredLoads : List String := [
  "vita::hash_t::load", "vita::i_ga::load_impl", "vita::i_de::load_impl", "vita::i_mep::load_impl",
  "vita::individual<vita::i_ga>::load", "vita::individual<vita::i_de>::load",
  "vita::individual<vita::i_mep>::load", "vita::team<vita::i_mep>::load",
  "vita::population<vita::i_mep>::load", "vita::summary<vita::i_mep>::load",
  "vita::basic_fitness_t<double>::load", "vita::matrix<int>::load", "vita::matrix<unsigned int>::load",
  "vita::distribution<double>::load", "vita::detail::class_names<true>::load"]


end Vita.C12
