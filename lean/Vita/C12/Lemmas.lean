import Vita.C12.Model
namespace Vita.C12
open Vita.C11

theorem parseThenCommit_fail {X α : Type} (parse : P α) (commit : X → α → X) (t : X) (s : Str)
    (h : (parseThenCommit parse commit t s).ok = false) : (parseThenCommit parse commit t s).target = t := by
  unfold parseThenCommit at h ⊢
  cases hp : parse s with
  | none => rfl
  | some r => obtain ⟨a, r'⟩ := r; simp [hp] at h

theorem parseThenCommit_ok_iff {X α : Type} (parse : P α) (commit : X → α → X) (t : X) (s : Str) :
    (parseThenCommit parse commit t s).ok = (parse s).isSome := by
  unfold parseThenCommit
  cases hp : parse s with
  | none => rfl
  | some r => obtain ⟨a, r'⟩ := r; rfl

end Vita.C12
