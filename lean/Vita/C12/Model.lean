import Vita.C11.Model
import Vita.C11.Big
import Vita.C11.Cache
/-!
  C12 (b) — the load functions as *state transformers on the target*.

  `R X` is what a call of `x.load(in)` leaves behind: the target, the returned flag, the unread
  stream.  Each `loadInto` follows the C++ statement by statement and performs the writes to the
  target where the C++ performs them (after the last extraction for the "parse into temporaries,
  assign last" functions; `individual::load` writes `age_` / clears `signature_` only after the
  nested `load_impl` has succeeded and `load_impl` itself writes `genome_` last).
  The parsers are the ones of C11 (`Vita.C11.Model`), so the two properties share one model of
  the formats.
-/
namespace Vita.C12
open Vita.C11

structure R (X : Type) where
  target : X
  ok : Bool
  rest : Str

/-- "parse everything into temporaries, then assign": the only write is the final commit -/
def parseThenCommit {X α : Type} (parse : P α) (commit : X → α → X) (t : X) (s : Str) : R X :=
  match parse s with
  | none => ⟨t, false, s⟩
  | some (a, r) => ⟨commit t a, true, r⟩

variable {F : Type}

/-! hash_t::load : `hash_t tmp; if (!(in >> tmp.data[0] >> tmp.data[1])) return false; *this = tmp;` -/
def Hash.loadInto : Hash → Str → R Hash := parseThenCommit Hash.load (fun _ h => h)

/-! basic_fitness_t::load : `values_t tmp; …; *this = tmp;` -/
def Fitness.loadInto (io : FloatIO F) : List F → Str → R (List F) :=
  parseThenCommit (Fitness.load io) (fun _ f => f)

/-! matrix::load : `cols_ = cs; data_ = v;` after the element loop -/
def Matrix.loadInto (k : ElemKind) : Matrix → Str → R Matrix :=
  parseThenCommit (Matrix.load k) (fun _ m => m)

/-! distribution::load : six assignments after the last extraction -/
def Dist.loadInto (io : FloatIO F) : Dist F → Str → R (Dist F) :=
  parseThenCommit (Dist.load io) (fun _ d => d)

/-! individuals: the target also carries the cached signature -/
structure IGaT where
  age : Nat
  genome : List Int
  sig : Hash
deriving DecidableEq, Repr

/-- i_ga::load_impl : `genome_ = v;` last -/
def IGaT.loadImplInto : IGaT → Str → R IGaT :=
  parseThenCommit (do let sz ← readU U64; readN (readI I32) sz) (fun t v => { t with genome := v })

/-- individual<i_ga>::load : read the age into a local, run `load_impl` on `*this`, and only if it
    succeeded `age_ = t_age; signature_.clear();` -/
def IGaT.loadInto (t : IGaT) (s : Str) : R IGaT :=
  match readU U32 s with
  | none => ⟨t, false, s⟩
  | some (age, s1) =>
    let r := IGaT.loadImplInto t s1
    if r.ok then ⟨{ r.target with age := age, sig := ⟨0, 0⟩ }, true, r.rest⟩ else r

structure IDeT (F : Type) where
  age : Nat
  genome : List F
  sig : Hash

def IDeT.loadImplInto (io : FloatIO F) : IDeT F → Str → R (IDeT F) :=
  parseThenCommit (do let sz ← readU U64; readN (readF io) sz) (fun t v => { t with genome := v })

def IDeT.loadInto (io : FloatIO F) (t : IDeT F) (s : Str) : R (IDeT F) :=
  match readU U32 s with
  | none => ⟨t, false, s⟩
  | some (age, s1) =>
    let r := IDeT.loadImplInto io t s1
    if r.ok then ⟨{ r.target with age := age, sig := ⟨0, 0⟩ }, true, r.rest⟩ else r

/-! ### i_mep -/
structure IMepT (F : Type) where
  age : Nat
  cols : Nat
  genes : List (Gene F)
  best : Nat × Nat
  sig : Hash

/-- what `i_mep::load_impl` parses into its locals `genome` and `best` -/
def IMep.parseImpl (io : FloatIO F) (tab : SymTab) : P (Nat × List (Gene F) × (Nat × Nat)) := do
  let rows ← readU U32
  let cols ← readU U32
  let genes ← readN (Gene.load io tab) (rows * cols)
  let best ← readBest rows
  pure (cols, genes, best)

/-- i_mep::load_impl : `best_ = best; genome_ = genome;` after the last extraction -/
def IMepT.loadImplInto (io : FloatIO F) (tab : SymTab) : IMepT F → Str → R (IMepT F) :=
  parseThenCommit (IMep.parseImpl io tab) (fun t v => { t with cols := v.1, genes := v.2.1, best := v.2.2 })

def IMepT.loadInto (io : FloatIO F) (tab : SymTab) (t : IMepT F) (s : Str) : R (IMepT F) :=
  match readU U32 s with
  | none => ⟨t, false, s⟩
  | some (age, s1) =>
    let r := IMepT.loadImplInto io tab t s1
    if r.ok then ⟨{ r.target with age := age, sig := ⟨0, 0⟩ }, true, r.rest⟩ else r

/-! ### team : members parsed into a local vector of fresh individuals; `individuals_ = v;
    signature_.clear();` last -/
structure TeamT (F : Type) where
  members : List (IMep F)
  sig : Hash

def TeamT.loadInto (io : FloatIO F) (tab : SymTab) : TeamT F → Str → R (TeamT F) :=
  parseThenCommit (Team.load io tab) (fun _ v => ⟨v, ⟨0, 0⟩⟩)

/-! ### population (repaired load): layers are built in the local `p`; `*this = std::move(p)` last -/
def Pop.loadInto (io : FloatIO F) (tab : SymTab) : List (Layer F) → Str → R (List (Layer F)) :=
  parseThenCommit (Pop.load io tab) (fun _ p => p)

/-! ### summary : `*this = tmp_summary` last -/
def Summary.loadInto (io : FloatIO F) (tab : SymTab) : Summary F → Str → R (Summary F) :=
  parseThenCommit (Summary.load io tab) (fun _ s => s)

/-! ### cache::load — NOT in the property's list (documented "could be changed"); modelled to state what holds.
    The slots are stored in the target's table while they are read: `table_[index(s.hash)] = s;` inside the
    loop; `seal_ = t_seal;` after the last failure point. -/
def Cache.loadSlots (io : FloatIO F) (bits sl : Nat) : Nat → List (Slot F) → Str → R (List (Slot F))
  | 0, tab, s => ⟨tab, true, s⟩
  | n + 1, tab, s =>
    match Slot.load io s with
    | none => ⟨tab, false, s⟩                       -- the slots stored so far stay in the table
    | some (hf, r) => Cache.loadSlots io bits sl n (tab.set (slotIndex bits hf.1) ⟨hf.1, hf.2, sl⟩) r

def Cache.loadIntoT (io : FloatIO F) (c : Cache F) (s : Str) : R (Cache F) :=
  match readU U32 s with
  | none => ⟨c, false, s⟩
  | some (sl, s1) =>
    match readU U64 s1 with
    | none => ⟨c, false, s1⟩
    | some (n, s2) =>
      let r := Cache.loadSlots io c.bits sl n c.table s2
      if r.ok then ⟨⟨c.bits, r.target, sl⟩, true, r.rest⟩ else ⟨{ c with table := r.target }, false, r.rest⟩

end Vita.C12
