import Vita.C12.GenLoads
import Vita.C12.Lemmas
/-!
  C12 — a failed load leaves the target untouched (property theorems).

  (a) `table_commit_last` / `loads_fail_untouched`: every load function extracted from the
      current sources obeys the commit-last discipline, hence (by `commit_last_sound`) a failing
      execution of any of them, in the generous abstract semantics, leaves `*this` as it was.
  (b) `X_fail_untouched`: in the statement-by-statement model of each load (`loadInto`), a call
      that reports failure returns the target it was given; `X_ok_iff`: it reports success exactly
      when the C11 parser of the same format succeeds (so the verdicts compared by the
      differential run are the verdicts the theorems speak about).
-/
namespace Vita.C12
open Vita.C11

/-! ### (a) the extracted table -/

/-- every extracted load function passes the syntactic commit-last test -/
theorem table_commit_last : ∀ s ∈ Gen.table, cl s = true := by decide

/-- the table has one entry per name and covers every function the property lists
    (`requiredLoads`, Lemmas.lean) -/
theorem table_covers : Gen.names.length = Gen.table.length ∧ ∀ n ∈ requiredLoads, n ∈ Gen.names := by
  decide

/-- **C12 (a).**  Whatever the target type `σ`, whatever the writes do and whichever failure
    points fire: if entry `i` of the extracted table ends in failure, the target is unchanged. -/
theorem loads_fail_untouched {σ : Type} (i : Nat) (t t' : σ)
    (h : Exec Gen.table (Gen.table.getD i .skip) t .failed t') : t' = t :=
  commit_last_sound Gen.table table_commit_last i t t' h

/-- the test is not vacuous: moving a write in front of a failure point is rejected
    (`age_ = t_age` before `load_impl`, the C12 mutant of DESIGN Appendix B) … -/
example : cl (.seq (.branch .fail .skip) (.seq .write (.seq (.sub 1) .write))) = false := by decide
/-- … and so is a commit inside the parsing loop (`genome_ = genome` inside the loop). -/
example : cl (.loop (.seq (.branch .fail .skip) .write)) = false := by decide
/-- a failing execution exists (the theorem is about something) -/
example : Exec (σ := Nat) Gen.table (Gen.table.getD 0 .skip) 7 .failed 7 := by
  show Exec Gen.table (.seq (.branch .fail .skip) .write) 7 .failed 7
  exact .seqFail _ _ _ _ (.brL _ _ _ _ _ (.failYes _))

/-! ### (b) the per-type models -/

variable {F : Type}

theorem hash_fail_untouched (t : Hash) (s : Str) (h : (Hash.loadInto t s).ok = false) :
    (Hash.loadInto t s).target = t := parseThenCommit_fail _ _ t s h
theorem hash_ok_iff (t : Hash) (s : Str) : (Hash.loadInto t s).ok = (Hash.load s).isSome :=
  parseThenCommit_ok_iff _ _ t s

theorem fitness_fail_untouched (io : FloatIO F) (t : List F) (s : Str)
    (h : (Fitness.loadInto io t s).ok = false) : (Fitness.loadInto io t s).target = t :=
  parseThenCommit_fail _ _ t s h
theorem fitness_ok_iff (io : FloatIO F) (t : List F) (s : Str) :
    (Fitness.loadInto io t s).ok = (Fitness.load io s).isSome := parseThenCommit_ok_iff _ _ t s

theorem matrix_fail_untouched (k : ElemKind) (t : Matrix) (s : Str)
    (h : (Matrix.loadInto k t s).ok = false) : (Matrix.loadInto k t s).target = t :=
  parseThenCommit_fail _ _ t s h
theorem matrix_ok_iff (k : ElemKind) (t : Matrix) (s : Str) :
    (Matrix.loadInto k t s).ok = (Matrix.load k s).isSome := parseThenCommit_ok_iff _ _ t s

theorem dist_fail_untouched (io : FloatIO F) (t : Dist F) (s : Str)
    (h : (Dist.loadInto io t s).ok = false) : (Dist.loadInto io t s).target = t :=
  parseThenCommit_fail _ _ t s h
theorem dist_ok_iff (io : FloatIO F) (t : Dist F) (s : Str) :
    (Dist.loadInto io t s).ok = (Dist.load io s).isSome := parseThenCommit_ok_iff _ _ t s

theorem iga_fail_untouched (t : IGaT) (s : Str) (h : (IGaT.loadInto t s).ok = false) :
    (IGaT.loadInto t s).target = t := by
  unfold IGaT.loadInto at h ⊢
  cases hr : readU U32 s with
  | none => rfl
  | some p =>
    obtain ⟨age, s1⟩ := p
    simp only [hr] at h ⊢
    cases hk : (IGaT.loadImplInto t s1).ok with
    | true => simp [hk] at h
    | false => exact parseThenCommit_fail _ _ t s1 hk

/-- success of the model = success of the C11 parser, and the loaded age / genome are the parsed
    ones; the cached signature is cleared -/
theorem iga_ok_iff (t : IGaT) (s : Str) : (IGaT.loadInto t s).ok = (IGa.load s).isSome := by
  unfold IGaT.loadInto IGa.load IGaT.loadImplInto parseThenCommit
  simp only [P.bind_apply]
  cases readU U32 s with
  | none => rfl
  | some p =>
    obtain ⟨age, s1⟩ := p
    simp only []
    cases readU U64 s1 with
    | none => rfl
    | some q =>
      obtain ⟨sz, s2⟩ := q
      simp only []
      cases readN (readI I32) sz s2 with
      | none => rfl
      | some w => obtain ⟨v, s3⟩ := w; rfl

theorem iga_ok_result (t : IGaT) (s : Str) (x : IGa) (r : Str) (h : IGa.load s = some (x, r)) :
    (IGaT.loadInto t s).target = ⟨x.age, x.genome, ⟨0, 0⟩⟩ ∧ (IGaT.loadInto t s).rest = r := by
  unfold IGaT.loadInto IGaT.loadImplInto parseThenCommit
  unfold IGa.load at h
  simp only [P.bind_apply] at h ⊢
  cases h1 : readU U32 s with
  | none => simp [h1] at h
  | some p =>
    obtain ⟨age, s1⟩ := p
    simp only [h1] at h ⊢
    cases h2 : readU U64 s1 with
    | none => simp [h2] at h
    | some q =>
      obtain ⟨sz, s2⟩ := q
      simp only [h2] at h ⊢
      cases h3 : readN (readI I32) sz s2 with
      | none => simp [h3] at h
      | some w =>
        obtain ⟨v, s3⟩ := w
        simp only [h3, P.pure_apply, Option.some.injEq, Prod.mk.injEq] at h ⊢
        obtain ⟨hx, hr⟩ := h
        subst hx; subst hr
        simp

theorem ide_fail_untouched (io : FloatIO F) (t : IDeT F) (s : Str)
    (h : (IDeT.loadInto io t s).ok = false) : (IDeT.loadInto io t s).target = t := by
  unfold IDeT.loadInto at h ⊢
  cases hr : readU U32 s with
  | none => rfl
  | some p =>
    obtain ⟨age, s1⟩ := p
    simp only [hr] at h ⊢
    cases hk : (IDeT.loadImplInto io t s1).ok with
    | true => simp [hk] at h
    | false => exact parseThenCommit_fail _ _ t s1 hk

theorem ide_ok_iff (io : FloatIO F) (t : IDeT F) (s : Str) :
    (IDeT.loadInto io t s).ok = (IDe.load io s).isSome := by
  unfold IDeT.loadInto IDe.load IDeT.loadImplInto parseThenCommit
  simp only [P.bind_apply]
  cases readU U32 s with
  | none => rfl
  | some p =>
    obtain ⟨age, s1⟩ := p
    simp only []
    cases readU U64 s1 with
    | none => rfl
    | some q =>
      obtain ⟨sz, s2⟩ := q
      simp only []
      cases readN (readF io) sz s2 with
      | none => rfl
      | some w => obtain ⟨v, s3⟩ := w; rfl

/-! composite types -/

theorem imep_fail_untouched (io : FloatIO F) (tab : SymTab) (t : IMepT F) (s : Str)
    (h : (IMepT.loadInto io tab t s).ok = false) : (IMepT.loadInto io tab t s).target = t := by
  unfold IMepT.loadInto at h ⊢
  cases hr : readU U32 s with
  | none => rfl
  | some p =>
    obtain ⟨age, s1⟩ := p
    simp only [hr] at h ⊢
    cases hk : (IMepT.loadImplInto io tab t s1).ok with
    | true => simp [hk] at h
    | false => exact parseThenCommit_fail _ _ t s1 hk

theorem imep_ok_iff (io : FloatIO F) (tab : SymTab) (t : IMepT F) (s : Str) :
    (IMepT.loadInto io tab t s).ok = (IMep.load io tab s).isSome := by
  unfold IMepT.loadInto IMep.load IMepT.loadImplInto IMep.parseImpl parseThenCommit
  simp only [P.bind_apply]
  cases readU U32 s with
  | none => rfl
  | some p =>
    obtain ⟨age, s1⟩ := p
    simp only []
    cases readU U32 s1 with
    | none => rfl
    | some q =>
      obtain ⟨rows, s2⟩ := q
      simp only []
      cases readU U32 s2 with
      | none => rfl
      | some q2 =>
        obtain ⟨cols, s3⟩ := q2
        simp only []
        cases readN (Gene.load io tab) (rows * cols) s3 with
        | none => rfl
        | some w =>
          obtain ⟨v, s4⟩ := w
          simp only []
          cases readBest rows s4 with
          | none => rfl
          | some b => obtain ⟨bb, s5⟩ := b; rfl

theorem team_fail_untouched (io : FloatIO F) (tab : SymTab) (t : TeamT F) (s : Str)
    (h : (TeamT.loadInto io tab t s).ok = false) : (TeamT.loadInto io tab t s).target = t :=
  parseThenCommit_fail _ _ t s h
theorem team_ok_iff (io : FloatIO F) (tab : SymTab) (t : TeamT F) (s : Str) :
    (TeamT.loadInto io tab t s).ok = (Team.load io tab s).isSome := parseThenCommit_ok_iff _ _ t s

theorem pop_fail_untouched (io : FloatIO F) (tab : SymTab) (t : List (Layer F)) (s : Str)
    (h : (Pop.loadInto io tab t s).ok = false) : (Pop.loadInto io tab t s).target = t :=
  parseThenCommit_fail _ _ t s h
theorem pop_ok_iff (io : FloatIO F) (tab : SymTab) (t : List (Layer F)) (s : Str) :
    (Pop.loadInto io tab t s).ok = (Pop.load io tab s).isSome := parseThenCommit_ok_iff _ _ t s

theorem summary_fail_untouched (io : FloatIO F) (tab : SymTab) (t : Summary F) (s : Str)
    (h : (Summary.loadInto io tab t s).ok = false) : (Summary.loadInto io tab t s).target = t :=
  parseThenCommit_fail _ _ t s h
theorem summary_ok_iff (io : FloatIO F) (tab : SymTab) (t : Summary F) (s : Str) :
    (Summary.loadInto io tab t s).ok = (Summary.load io tab s).isSome := parseThenCommit_ok_iff _ _ t s

/-- non-vacuity of (b): a truncated stream makes the model fail, and the target survives -/
example : (IGaT.loadInto ⟨3, [1, 2], ⟨5, 6⟩⟩ ['7', '\n', '2', '\n', '9', '\n']).ok = false := by decide
example : (IGaT.loadInto ⟨3, [1, 2], ⟨5, 6⟩⟩ ['7', '\n', '2', '\n', '9', '\n', '8', '\n']).target
    = ⟨7, [9, 8], ⟨0, 0⟩⟩ := by decide

end Vita.C12
