import Vita.C12.FlowTable
import Vita.C12.Lemmas
import Vita.C12.Damage
import Vita.C11.Toy
/-!
  C12 — a failed load leaves the target untouched (property theorems).

  (a) The data-flow of every load function and stream constructor, extracted from the current sources
      (`GenF.table`, tools/translate_flow.py), satisfies
        `flow_commit_last`   the loads the property names have an empty `dirty` set (no member of `*this`
                             is written on a path that can still fail, nested calls included),
        `flow_all_checked`   every extraction from the stream and every nested load is checked,
        `flow_kinds_ok`      failure is reported the documented way (false / exception::data_format),
      hence, by the theorems of Flow.lean, in the generous semantics of `Exec`:
        `loads_fail_untouched`      a failing load leaves every member of `*this` as it was,
        `failed_read_is_reported`   a call that returns success has seen no failed extraction,
        `failure_is_documented`     loads only fail by `return false`, stream constructors only by
                                    `throw exception::data_format`,
        `weak_load_frame`           what the loads documented "could be changed" may change on failure.
  (b) `X_fail_untouched`: in the statement-by-statement model of each load (`loadInto`), a call
      that reports failure returns the target it was given; `X_ok_iff`: it reports success exactly
      when the C11 parser of the same format succeeds (so the verdicts compared by the
      differential run are the verdicts the theorems speak about).
  (c) a damaged field is reported: `damaged_integer_field_rejected`, `damaged_float_field_rejected` (the spellings
      no extraction accepts, whatever follows), `element_failure_fails_sequence`, `failed_parse_reported` and per
      type `X_damaged_…_reported`: the load reports failure and returns the target it was given.
-/
namespace Vita.C12
open Vita.C11

/-! ### (a) the extracted data-flow table -/

open Flow in
/-- every load the property names writes no member of `*this` on a path that can still fail -/
theorem flow_commit_last :
    ∀ i, okF i = true → (dirty okF (GenF.table.getD i .skip)).isEmpty = true := by
  apply forall_of_range (n := GenF.table.length)
  · decide
  · intro i hi
    have hk : GenF.kinds[i]? = none := List.getElem?_eq_none (by
      have : GenF.kinds.length = GenF.table.length := by decide
      omega)
    simp [okF, List.getD_eq_getElem?_getD, hk]

open Flow in
/-- every extraction from the stream and every nested load is checked, in every entry -/
theorem flow_all_checked : ∀ s ∈ GenF.table, allChecked allowF s = true := by decide

open Flow in
/-- every entry reports failure only in the ways the table allows (exceptions of callees included) -/
theorem flow_kinds_ok : ∀ i, kindsOK allowF (allowF i) (GenF.table.getD i .skip) = true := by
  apply forall_of_range' (n := GenF.table.length)
  · decide
  · intro i hi
    have hk : GenF.table[i]? = none := List.getElem?_eq_none hi
    simp [List.getD_eq_getElem?_getD, hk, kindsOK]

/-- the table has one entry per name / kind / allowed set, and every function of the property's list
    (`requiredLoads`, Lemmas.lean) is present with kind `load` -/
theorem flow_covers :
    GenF.names.length = GenF.table.length ∧ GenF.kinds.length = GenF.table.length ∧
    GenF.allowTab.length = GenF.table.length ∧
    ∀ n ∈ requiredLoads, okF (GenF.names.idxOf n) = true ∧ GenF.names.idxOf n < GenF.names.length := by
  decide

open Flow in
/-- **C12 (a).**  Whatever the values are, whatever the writes store, wherever a read fails: if one of the
    loads the property names ends in failure, every data member of `*this` is what it was before the call —
    through the nested calls (individual::load → load_impl on `*this`, team → members, population → layers
    → individuals, summary → individual / fitness, on locals). -/
theorem loads_fail_untouched {V : Type} (i : Nat) (hi : okF i = true) (st st' : St V) (k : FK)
    (h : Exec GenF.table (GenF.table.getD i .skip) st (.failed k) st') : ∀ m, st'.mem m = st.mem m :=
  fail_untouched okF flow_commit_last i hi st st' k h

open Flow in
/-- a call of any entry that returns normally has seen no failed extraction and no failed nested load:
    every failed read is reported (loads: `false`; constructors: an exception) -/
theorem failed_read_is_reported {V : Type} (i : Nat) (st st' : St V)
    (h : Exec GenF.table (GenF.table.getD i .skip) st .cont st')
    (hb : st.bad = false) (hm : st.missed = false) : st'.bad = false ∧ st'.missed = false :=
  exec_clean allowF flow_kinds_ok flow_all_checked h
    (getD_ok (P := fun s => allChecked allowF s = true) rfl flow_all_checked i) hb hm rfl

open Flow in
/-- failure is reported the documented way -/
theorem failure_is_documented {V : Type} (i : Nat) (st st' : St V) (k : FK)
    (h : Exec GenF.table (GenF.table.getD i .skip) st (.failed k) st') : k ∈ allowF i :=
  exec_kinds allowF flow_kinds_ok h (allowF i) k (flow_kinds_ok i) rfl

open Flow in
/-- the loads only fail by `return false`; the stream constructors (and `build<U>`) only by
    `throw exception::data_format`; `serialize::lambda::load` by `nullptr` or that exception -/
theorem documented_kinds :
    ∀ i, i < GenF.table.length →
      allowF i = (match GenF.kinds.getD i .weak with
        | .load | .weak => [.retFalse]
        | .ctor | .builder => [.throwFmt]
        | .factory => [.retNull, .throwFmt]) := by
  decide

open Flow in
/-- what a failing execution of ANY entry (the loads documented "could be changed" included) leaves
    untouched: every member that is not in its `dirty` set -/
theorem weak_load_frame {V : Type} (i : Nat) (st st' : St V) (k : FK)
    (h : Exec GenF.table (GenF.table.getD i .skip) st (.failed k) st')
    (m : Nat) (hm : (dirty okF (GenF.table.getD i .skip)).has m = false) : st'.mem m = st.mem m :=
  fail_frame okF flow_commit_last i st st' k h m hm

/-- `cache::load` is NOT commit-last: a failing call may have overwritten slots of `table_` (and nothing
    else: `seal_` is assigned after the last failure point); `evaluator_proxy::load` may have changed
    `eva_` (through the evaluator's own load) and `cache_` -/
theorem weak_loads_dirty :
    dirtyNames (GenF.names.idxOf "vita::cache::load") = (false, ["vita::cache::table_"]) ∧
    dirtyNames (GenF.names.idxOf "vita::evaluator_proxy<vita::i_mep, vita::test_evaluator<vita::i_mep>>::load")
      = (false, ["vita::evaluator_proxy<vita::i_mep, vita::test_evaluator<vita::i_mep>>::eva_",
                 "vita::evaluator_proxy<vita::i_mep, vita::test_evaluator<vita::i_mep>>::cache_"]) := by
  decide

open Flow in
/-- the test is not vacuous: reading straight into a member is rejected (`in >> best_.index`, seeded
    change C12-m1) … -/
example : (dirty okF (.seq (.read [.tmp 0] (some .retFalse))
    (.seq (.branch (.read [.mem 2, .mem 2] (some .retFalse)) .skip) (.asg (.mem 3))))).isEmpty = false := by decide
open Flow in
/-- … so are a check after the commit (`*this = p; return is_valid();`, C12-m2), a member moved out
    before the first read (`tmp.az = std::move(az)`, C12-m3), `age_ = t_age` before `load_impl` and a
    commit inside the parsing loop -/
example : (dirty okF (.seq (.asg .self) (.branch (.fail .retFalse) .skip))).isEmpty = false := by decide
open Flow in
example : (dirty okF (.seq (.asg (.mem 7)) (.read [.tmp 1] (some .retFalse)))).isEmpty = false := by decide
open Flow in
example : (dirty okF (.seq (.asg (.mem 4)) (.sub 1 .self (some .retFalse)))).isEmpty = false := by decide
open Flow in
example : (dirty okF (.loop (.seq (.read [.tmp 0] (some .retFalse)) (.asg (.mem 0))))).isEmpty = false := by decide
open Flow in
/-- a nested load on a member is only harmless when the callee is itself commit-last -/
example : (dirty (fun _ => false) (.sub 0 (.mem 5) (some .retFalse))).isEmpty = false := by decide
open Flow in
/-- an unchecked extraction and an ignored nested load are rejected -/
example : allChecked allowF (.seq (.read [.tmp 0] none) (.asg .self)) = false := by decide
open Flow in
example : allChecked allowF (.sub 6 (.tmp 0) none) = false := by decide
open Flow in
/-- failing executions exist (the theorems are about something): `hash_t::load` on a stream that ends -/
example : Exec (V := Nat) GenF.table (GenF.table.getD 0 .skip) ⟨fun _ => 7, fun _ => 0, false, false⟩
    (.failed .retFalse) ⟨fun _ => 7, fun _ => 0, true, false⟩ := by
  show Exec GenF.table (.seq (.read [.tmp 1, .tmp 1] (some .retFalse)) (.asg .self)) _ _ _
  exact .seqFail _ _ _ _ _ (.readBadChk _ _ _ _ ⟨fun _ _ => rfl, fun _ _ _ => rfl⟩ rfl rfl)
open Flow in
/-- … successful ones too (hypothesis of `failed_read_is_reported`): both words read, `*this = tmp` -/
example : Exec (V := Nat) GenF.table (GenF.table.getD 0 .skip) ⟨fun _ => 7, fun _ => 0, false, false⟩
    .cont ⟨fun _ => 9, fun _ => 0, false, false⟩ := by
  show Exec GenF.table (.seq (.read [.tmp 1, .tmp 1] (some .retFalse)) (.asg .self)) _ _ _
  exact .seqCont _ _ _ ⟨fun _ => 7, fun _ => 0, false, false⟩ _ _
    (.readOk _ _ _ _ rfl ⟨fun _ _ => rfl, fun _ _ _ => rfl⟩ rfl rfl)
    (.asg _ _ _ ⟨fun m h => by simp [locsW, locW, W.has, W.union] at h, fun h => by simp at h⟩ rfl rfl)
open Flow in
/-- … and every entry that starts with a failure point has failing executions, from every state: all the
    loads that read anything, `cache::load` (hypothesis of `weak_load_frame`), the constructors that read -/
example {V : Type} (st : St V) :
    ∀ n ∈ ["vita::hash_t::load", "vita::i_mep::load_impl", "vita::individual<vita::i_mep>::load",
           "vita::team<vita::i_mep>::load", "vita::population<vita::i_mep>::load",
           "vita::summary<vita::i_mep>::load", "vita::cache::load"],
      ∃ st', Exec GenF.table (GenF.table.getD (GenF.names.idxOf n) .skip) st (.failed .retFalse) st' := by
  intro n hn
  apply exec_firstFail
  revert n
  decide

/-! ### (b) the per-type models -/

variable {F : Type}

theorem hash_fail_untouched (t : Hash) (s : Str) (h : (Hash.loadInto t s).ok = false) :
    (Hash.loadInto t s).target = t := parseThenCommit_fail _ _ t s h
theorem hash_ok_iff (t : Hash) (s : Str) : (Hash.loadInto t s).ok = (Hash.load s).isSome :=
  parseThenCommit_ok_iff _ _ t s

theorem fitness_fail_untouched (io : FloatIO F) (t : List F) (s : Str)
    (h : (Fitness.loadInto io t s).ok = false) : (Fitness.loadInto io t s).target = t :=
  parseThenCommit_fail _ _ t s h
theorem fitness_ok_iff (io : FloatIO F) (t : List F) (s : Str) :
    (Fitness.loadInto io t s).ok = (Fitness.load io s).isSome := parseThenCommit_ok_iff _ _ t s

theorem matrix_fail_untouched (k : ElemKind) (t : Matrix) (s : Str)
    (h : (Matrix.loadInto k t s).ok = false) : (Matrix.loadInto k t s).target = t :=
  parseThenCommit_fail _ _ t s h
theorem matrix_ok_iff (k : ElemKind) (t : Matrix) (s : Str) :
    (Matrix.loadInto k t s).ok = (Matrix.load k s).isSome := parseThenCommit_ok_iff _ _ t s

theorem dist_fail_untouched (io : FloatIO F) (t : Dist F) (s : Str)
    (h : (Dist.loadInto io t s).ok = false) : (Dist.loadInto io t s).target = t :=
  parseThenCommit_fail _ _ t s h
theorem dist_ok_iff (io : FloatIO F) (t : Dist F) (s : Str) :
    (Dist.loadInto io t s).ok = (Dist.load io s).isSome := parseThenCommit_ok_iff _ _ t s

theorem iga_fail_untouched (t : IGaT) (s : Str) (h : (IGaT.loadInto t s).ok = false) :
    (IGaT.loadInto t s).target = t := by
  unfold IGaT.loadInto at h ⊢
  cases hr : readU U32 s with
  | none => rfl
  | some p =>
    obtain ⟨age, s1⟩ := p
    simp only [hr] at h ⊢
    cases hk : (IGaT.loadImplInto t s1).ok with
    | true => simp [hk] at h
    | false => exact parseThenCommit_fail _ _ t s1 hk

/-- success of the model = success of the C11 parser, and the loaded age / genome are the parsed
    ones; the cached signature is cleared -/
theorem iga_ok_iff (t : IGaT) (s : Str) : (IGaT.loadInto t s).ok = (IGa.load s).isSome := by
  unfold IGaT.loadInto IGa.load IGaT.loadImplInto parseThenCommit
  simp only [P.bind_apply]
  cases readU U32 s with
  | none => rfl
  | some p =>
    obtain ⟨age, s1⟩ := p
    simp only []
    cases readU U64 s1 with
    | none => rfl
    | some q =>
      obtain ⟨sz, s2⟩ := q
      simp only []
      cases readN (readI I32) sz s2 with
      | none => rfl
      | some w => obtain ⟨v, s3⟩ := w; rfl

theorem iga_ok_result (t : IGaT) (s : Str) (x : IGa) (r : Str) (h : IGa.load s = some (x, r)) :
    (IGaT.loadInto t s).target = ⟨x.age, x.genome, ⟨0, 0⟩⟩ ∧ (IGaT.loadInto t s).rest = r := by
  unfold IGaT.loadInto IGaT.loadImplInto parseThenCommit
  unfold IGa.load at h
  simp only [P.bind_apply] at h ⊢
  cases h1 : readU U32 s with
  | none => simp [h1] at h
  | some p =>
    obtain ⟨age, s1⟩ := p
    simp only [h1] at h ⊢
    cases h2 : readU U64 s1 with
    | none => simp [h2] at h
    | some q =>
      obtain ⟨sz, s2⟩ := q
      simp only [h2] at h ⊢
      cases h3 : readN (readI I32) sz s2 with
      | none => simp [h3] at h
      | some w =>
        obtain ⟨v, s3⟩ := w
        simp only [h3, P.pure_apply, Option.some.injEq, Prod.mk.injEq] at h ⊢
        obtain ⟨hx, hr⟩ := h
        subst hx; subst hr
        simp

theorem ide_fail_untouched (io : FloatIO F) (t : IDeT F) (s : Str)
    (h : (IDeT.loadInto io t s).ok = false) : (IDeT.loadInto io t s).target = t := by
  unfold IDeT.loadInto at h ⊢
  cases hr : readU U32 s with
  | none => rfl
  | some p =>
    obtain ⟨age, s1⟩ := p
    simp only [hr] at h ⊢
    cases hk : (IDeT.loadImplInto io t s1).ok with
    | true => simp [hk] at h
    | false => exact parseThenCommit_fail _ _ t s1 hk

theorem ide_ok_iff (io : FloatIO F) (t : IDeT F) (s : Str) :
    (IDeT.loadInto io t s).ok = (IDe.load io s).isSome := by
  unfold IDeT.loadInto IDe.load IDeT.loadImplInto parseThenCommit
  simp only [P.bind_apply]
  cases readU U32 s with
  | none => rfl
  | some p =>
    obtain ⟨age, s1⟩ := p
    simp only []
    cases readU U64 s1 with
    | none => rfl
    | some q =>
      obtain ⟨sz, s2⟩ := q
      simp only []
      cases readN (readF io) sz s2 with
      | none => rfl
      | some w => obtain ⟨v, s3⟩ := w; rfl

/-! composite types -/

theorem imep_fail_untouched (io : FloatIO F) (tab : SymTab) (t : IMepT F) (s : Str)
    (h : (IMepT.loadInto io tab t s).ok = false) : (IMepT.loadInto io tab t s).target = t := by
  unfold IMepT.loadInto at h ⊢
  cases hr : readU U32 s with
  | none => rfl
  | some p =>
    obtain ⟨age, s1⟩ := p
    simp only [hr] at h ⊢
    cases hk : (IMepT.loadImplInto io tab t s1).ok with
    | true => simp [hk] at h
    | false => exact parseThenCommit_fail _ _ t s1 hk

theorem imep_ok_iff (io : FloatIO F) (tab : SymTab) (t : IMepT F) (s : Str) :
    (IMepT.loadInto io tab t s).ok = (IMep.load io tab s).isSome := by
  unfold IMepT.loadInto IMep.load IMepT.loadImplInto IMep.parseImpl parseThenCommit
  simp only [P.bind_apply]
  cases readU U32 s with
  | none => rfl
  | some p =>
    obtain ⟨age, s1⟩ := p
    simp only []
    cases readU U32 s1 with
    | none => rfl
    | some q =>
      obtain ⟨rows, s2⟩ := q
      simp only []
      cases readU U32 s2 with
      | none => rfl
      | some q2 =>
        obtain ⟨cols, s3⟩ := q2
        simp only []
        cases readN (Gene.load io tab) (rows * cols) s3 with
        | none => rfl
        | some w =>
          obtain ⟨v, s4⟩ := w
          simp only []
          cases readBest rows s4 with
          | none => rfl
          | some b => obtain ⟨bb, s5⟩ := b; rfl

theorem team_fail_untouched (io : FloatIO F) (tab : SymTab) (t : TeamT F) (s : Str)
    (h : (TeamT.loadInto io tab t s).ok = false) : (TeamT.loadInto io tab t s).target = t :=
  parseThenCommit_fail _ _ t s h
theorem team_ok_iff (io : FloatIO F) (tab : SymTab) (t : TeamT F) (s : Str) :
    (TeamT.loadInto io tab t s).ok = (Team.load io tab s).isSome := parseThenCommit_ok_iff _ _ t s

theorem pop_fail_untouched (io : FloatIO F) (tab : SymTab) (t : List (Layer F)) (s : Str)
    (h : (Pop.loadInto io tab t s).ok = false) : (Pop.loadInto io tab t s).target = t :=
  parseThenCommit_fail _ _ t s h
theorem pop_ok_iff (io : FloatIO F) (tab : SymTab) (t : List (Layer F)) (s : Str) :
    (Pop.loadInto io tab t s).ok = (Pop.load io tab s).isSome := parseThenCommit_ok_iff _ _ t s

theorem summary_fail_untouched (io : FloatIO F) (tab : SymTab) (t : Summary F) (s : Str)
    (h : (Summary.loadInto io tab t s).ok = false) : (Summary.loadInto io tab t s).target = t :=
  parseThenCommit_fail _ _ t s h
theorem summary_ok_iff (io : FloatIO F) (tab : SymTab) (t : Summary F) (s : Str) :
    (Summary.loadInto io tab t s).ok = (Summary.load io tab s).isSome := parseThenCommit_ok_iff _ _ t s

/-! `cache::load` (outside the property: documented "could be changed") -/

/-- what a failed `cache::load` leaves untouched: the seal, the number of bits, the size of the table -/
theorem cache_fail_seal_untouched (io : FloatIO F) (c : Cache F) (s : Str)
    (h : (Cache.loadIntoT io c s).ok = false) :
    (Cache.loadIntoT io c s).target.sl = c.sl ∧ (Cache.loadIntoT io c s).target.bits = c.bits ∧
    (Cache.loadIntoT io c s).target.table.length = c.table.length := by
  unfold Cache.loadIntoT at h ⊢
  cases h1 : readU U32 s with
  | none => exact ⟨rfl, rfl, rfl⟩
  | some p =>
    obtain ⟨sl, s1⟩ := p
    simp only [h1] at h ⊢
    cases h2 : readU U64 s1 with
    | none => exact ⟨rfl, rfl, rfl⟩
    | some q =>
      obtain ⟨n, s2⟩ := q
      simp only [h2] at h ⊢
      cases hk : (Cache.loadSlots io c.bits sl n c.table s2).ok with
      | true => simp [hk] at h
      | false => simp [loadSlots_length]

/-- the statement-by-statement model succeeds exactly when the C11 model of `cache::load` does, with the
    same cache -/
theorem cache_ok_iff (io : FloatIO F) (c : Cache F) (s : Str) :
    (Cache.loadIntoT io c s).ok = (Cache.loadInto io c s).isSome ∧
    ∀ c' r, Cache.loadInto io c s = some (c', r) →
      (Cache.loadIntoT io c s).target = c' ∧ (Cache.loadIntoT io c s).rest = r := by
  unfold Cache.loadIntoT Cache.loadInto
  simp only [P.bind_apply]
  cases h1 : readU U32 s with
  | none => simp
  | some p =>
    obtain ⟨sl, s1⟩ := p
    simp only []
    cases h2 : readU U64 s1 with
    | none => simp
    | some q =>
      obtain ⟨n, s2⟩ := q
      simp only []
      have := loadSlots_spec io c.bits sl n c.table s2
      cases h3 : readN (Slot.load io) n s2 with
      | none =>
        simp only [h3] at this
        simp [this]
      | some w =>
        obtain ⟨slots, r⟩ := w
        simp only [h3] at this
        simp [this, P.pure_apply]

/-- `cache::load` is NOT commit-last in the model either: a record that announces two slots and holds one
    makes the load fail after the first slot has been stored -/
example : (Cache.loadIntoT toyIO (Cache.fresh 1) "7\n2\n5 9\n1 \n".toList).ok = false ∧
    (Cache.loadIntoT toyIO (Cache.fresh 1) "7\n2\n5 9\n1 \n".toList).target.table.map (·.sl) = [0, 7] ∧
    (Cache.fresh (F := Bool) 1).table.map (·.sl) = [0, 0] ∧
    (Cache.loadIntoT toyIO (Cache.fresh 1) "7\n2\n5 9\n1 \n".toList).target.sl = 1 := by
  decide

/-- non-vacuity of (b): a truncated stream makes the model fail, and the target survives -/
example : (IGaT.loadInto ⟨3, [1, 2], ⟨5, 6⟩⟩ ['7', '\n', '2', '\n', '9', '\n']).ok = false := by decide
example : (IGaT.loadInto ⟨3, [1, 2], ⟨5, 6⟩⟩ ['7', '\n', '2', '\n', '9', '\n', '8', '\n']).target
    = ⟨7, [9, 8], ⟨0, 0⟩⟩ := by decide


/-! ### (c) a damaged field is reported

  The other half of the property: a load of a damaged stream *reports* failure.  In the byte-level model of the
  extractors a numeric field whose text is not a number (`NoDigit` / `NoFloat`: the empty stream, a word, a sign
  alone, `inf`, `nan`, `.`, `1.5e+`, …) fails the extraction whatever follows, the failure of one element fails the
  counted sequence it belongs to (`readN_none_of_elem`), and a failing parser makes every `loadInto` report failure
  with the target it was given.  The tie compares this verdict with the real load's on every damaged stream: the
  model says fail and the real load returns true = "load succeeded on a stream the format rejects". -/

/-- no integer extraction (any unsigned / signed type) accepts a text without a digit after the optional sign -/
theorem damaged_integer_field_rejected (s : Str) (h : NoDigit s) :
    (∀ M, readU M s = none) ∧ ∀ H, readI H s = none :=
  ⟨fun M => readU_noDigit M s h, fun H => readI_noDigit H s h⟩

/-- `load_float_from_stream` rejects a text the lexer of `operator>>(double&)` accepts no character of, or whose
    accepted characters `strtod` does not convert -/
theorem damaged_float_field_rejected (io : FloatIO F) (s : Str) (h : NoFloat io s) : readF io s = none :=
  readF_noFloat io s h

/-- a failing parser: the load reports failure and returns the target it was given (hash, fitness, matrix,
    distribution, team, population, summary are `parseThenCommit`) -/
theorem failed_parse_reported {X α : Type} (parse : P α) (commit : X → α → X) (t : X) (s : Str)
    (h : parse s = none) :
    (parseThenCommit parse commit t s).ok = false ∧ (parseThenCommit parse commit t s).target = t :=
  parseThenCommit_none parse commit t s h

/-- failure of the k-th element of a counted sequence (`for (i = 0; i < n; ++i) if (!load(elem)) return false;`)
    fails the sequence: there is no way to skip a damaged element -/
theorem element_failure_fails_sequence {α : Type} (p : P α) (k n : Nat) (s : Str) (as : List α) (r : Str)
    (h : readN p k s = some (as, r)) (hp : p r = none) (hk : k < n) : readN p n s = none :=
  readN_none_of_elem p k n s as r h hp hk

/-- a word (first character not white space, not a digit, not a sign, not a dot) is damage for every numeric
    field, whatever follows it -/
theorem word_is_damage (c : Char) (t : Str) (hw : isWs c = false) (hd : c.isDigit = false) (h1 : c ≠ '-')
    (h2 : c ≠ '+') (h3 : c ≠ '.') : NoDigit (c :: t) ∧ ∀ (io : FloatIO F), NoFloat io (c :: t) := by
  have hs : skipWs (c :: t) = c :: t := by simp [skipWs, hw]
  constructor
  · unfold NoDigit
    rw [hs]
    have : readSign (c :: t) = (false, c :: t) := by
      rw [readSign.eq_def]
      split
      · rename_i heq; cases heq; exact absurd rfl h1
      · rename_i heq; cases heq; exact absurd rfl h2
      · rfl
    simp [this, hd]
  · intro io
    unfold NoFloat
    rw [hs]
    exact Or.inl (lexFloat_nil_of_head c t hd h1 h2 h3)

/-- i_ga: if the k-th of the `sz` announced genome values cannot be extracted, `individual<i_ga>::load` reports
    failure and the target is what it was -/
theorem iga_damaged_value_reported (t : IGaT) (s s1 s2 r : Str) (age sz k : Nat) (as : List Int)
    (h1 : readU U32 s = some (age, s1)) (h2 : readU U64 s1 = some (sz, s2))
    (h3 : readN (readI I32) k s2 = some (as, r)) (hk : k < sz) (h4 : readI I32 r = none) :
    (IGaT.loadInto t s).ok = false ∧ (IGaT.loadInto t s).target = t := by
  have hp : (do let sz ← readU U64; readN (readI I32) sz : P (List Int)) s1 = none := by
    simp [P.bind_apply, h2, readN_none_of_elem _ k sz s2 as r h3 h4 hk]
  have := parseThenCommit_none (do let sz ← readU U64; readN (readI I32) sz : P (List Int))
    (fun (t : IGaT) v => { t with genome := v }) t s1 hp
  unfold IGaT.loadInto IGaT.loadImplInto
  simp only [h1]
  simp [this.1, this.2]

/-- i_de (seeded change C12-m5): if the k-th of the `sz` announced genome values cannot be extracted — a word, a sign
    alone, `inf`, the end of the stream … (`NoFloat`) — `individual<i_de>::load` reports failure and the target is what
    it was: no later token, however well-formed, makes the load succeed -/
theorem ide_damaged_value_reported (io : FloatIO F) (t : IDeT F) (s s1 s2 r : Str) (age sz k : Nat) (as : List F)
    (h1 : readU U32 s = some (age, s1)) (h2 : readU U64 s1 = some (sz, s2))
    (h3 : readN (readF io) k s2 = some (as, r)) (hk : k < sz) (h4 : readF io r = none) :
    (IDeT.loadInto io t s).ok = false ∧ (IDeT.loadInto io t s).target = t := by
  have hp : (do let sz ← readU U64; readN (readF io) sz : P (List F)) s1 = none := by
    simp [P.bind_apply, h2, readN_none_of_elem _ k sz s2 as r h3 h4 hk]
  have := parseThenCommit_none (do let sz ← readU U64; readN (readF io) sz : P (List F))
    (fun (t : IDeT F) v => { t with genome := v }) t s1 hp
  unfold IDeT.loadInto IDeT.loadImplInto
  simp only [h1]
  simp [this.1, this.2]

/-- matrix: a damaged element (any of the `cols * rows`) is reported -/
theorem matrix_damaged_element_reported (k : ElemKind) (t : Matrix) (s s1 s2 r : Str) (cs rs j : Nat) (es : List Int)
    (h1 : readU U64 s = some (cs, s1)) (h2 : readU U64 s1 = some (rs, s2))
    (h3 : readN (elemP k) j s2 = some (es, r)) (hj : j < cs * rs) (h4 : elemP k r = none) :
    (Matrix.loadInto k t s).ok = false ∧ (Matrix.loadInto k t s).target = t := by
  apply parseThenCommit_none
  simp [Matrix.load, P.bind_apply, h1, h2, readN_none_of_elem _ j (cs * rs) s2 es r h3 h4 hj]

/-- an opcode that is not in the symbol set is refused -/
theorem gene_unknown_opcode_rejected (io : FloatIO F) (tab : SymTab) (s s1 : Str) (op : Nat)
    (h1 : readU U32 s = some (op, s1)) (h2 : tab op = none) : Gene.load io tab s = none := by
  simp [Gene.load, P.bind_apply, h1, h2, P.fail]

/-- i_mep: a gene that cannot be read (damaged opcode / parameter / argument, unknown opcode) is reported -/
theorem imep_damaged_gene_reported (io : FloatIO F) (tab : SymTab) (t : IMepT F) (s s1 s2 s3 r : Str)
    (age rows cols k : Nat) (gs : List (Gene F))
    (h1 : readU U32 s = some (age, s1)) (h2 : readU U32 s1 = some (rows, s2)) (h3 : readU U32 s2 = some (cols, s3))
    (h4 : readN (Gene.load io tab) k s3 = some (gs, r)) (hk : k < rows * cols) (h5 : Gene.load io tab r = none) :
    (IMepT.loadInto io tab t s).ok = false ∧ (IMepT.loadInto io tab t s).target = t := by
  have hp : IMep.parseImpl io tab s1 = none := by
    simp [IMep.parseImpl, P.bind_apply, h2, h3, readN_none_of_elem _ k (rows * cols) s3 gs r h4 h5 hk]
  have := parseThenCommit_none (IMep.parseImpl io tab)
    (fun (t : IMepT F) v => { t with cols := v.1, genes := v.2.1, best := v.2.2 }) t s1 hp
  unfold IMepT.loadInto IMepT.loadImplInto
  simp only [h1]
  simp [this.1, this.2]

/-- team: a member that cannot be loaded (any of the `n` announced) is reported, the team is what it was (seeded
    change C12-m6 tears the members loaded before it) -/
theorem team_damaged_member_reported (io : FloatIO F) (tab : SymTab) (t : TeamT F) (s s1 r : Str) (n k : Nat)
    (ms : List (IMep F)) (h1 : readU U32 s = some (n, s1))
    (h2 : readN (IMep.load io tab) k s1 = some (ms, r)) (hk : k < n) (h3 : IMep.load io tab r = none) :
    (TeamT.loadInto io tab t s).ok = false ∧ (TeamT.loadInto io tab t s).target = t := by
  apply parseThenCommit_none
  have : n ≠ 0 := by omega
  simp [Team.load, P.bind_apply, h1, this, readN_none_of_elem _ k n s1 ms r h2 h3 hk]

/-- population: a layer that cannot be loaded is reported -/
theorem pop_damaged_layer_reported (io : FloatIO F) (tab : SymTab) (t : List (Layer F)) (s s1 r : Str) (n k : Nat)
    (ls : List (Layer F)) (h1 : readU U32 s = some (n, s1))
    (h2 : readN (Layer.load io tab) k s1 = some (ls, r)) (hk : k < n) (h3 : Layer.load io tab r = none) :
    (Pop.loadInto io tab t s).ok = false ∧ (Pop.loadInto io tab t s).target = t := by
  apply parseThenCommit_none
  have : n ≠ 0 := by omega
  simp [Pop.load, P.bind_apply, h1, this, readN_none_of_elem _ k n s1 ls r h2 h3 hk]

/-- … and a layer cannot be loaded when one of its individuals cannot -/
theorem layer_damaged_individual_rejected (io : FloatIO F) (tab : SymTab) (s s1 s2 r : Str) (al n k : Nat)
    (xs : List (IMep F)) (h1 : readU U32 s = some (al, s1)) (h2 : readU U32 s1 = some (n, s2))
    (h3 : readN (IMep.load io tab) k s2 = some (xs, r)) (hk : k < n) (h4 : IMep.load io tab r = none) :
    Layer.load io tab s = none := by
  simp only [Layer.load, P.bind_apply, h1, h2]
  split
  · rfl
  · simp [P.bind_apply, readN_none_of_elem _ k n s2 xs r h3 h4 hk]


/-! non-vacuity of (c): the spellings of the damage model are `NoDigit` / `NoFloat`; numbers are not -/
example : NoDigit "x".toList ∧ NoDigit "".toList ∧ NoDigit " -".toList ∧ NoDigit "--5".toList ∧ NoDigit ".5".toList ∧
    NoDigit "nan".toList ∧ NoDigit "inf".toList ∧ NoDigit "#".toList ∧ ¬ NoDigit "12x".toList ∧ ¬ NoDigit " +5".toList := by
  decide
example : NoFloat toyIO "x".toList ∧ NoFloat toyIO "".toList ∧ NoFloat toyIO " inf".toList ∧ NoFloat toyIO "-".toList ∧
    NoFloat toyIO "1e+".toList ∧ NoFloat toyIO ".".toList ∧ ¬ NoFloat toyIO " 1 ".toList := by decide
example : NoDigit ('x' :: "12 7".toList) ∧ NoFloat toyIO ('x' :: "12 7".toList) :=
  ⟨(word_is_damage (F := Bool) 'x' _ (by decide) (by decide) (by decide) (by decide) (by decide)).1,
   (word_is_damage 'x' _ (by decide) (by decide) (by decide) (by decide) (by decide)).2 toyIO⟩
/-- the hypotheses of `ide_damaged_value_reported` on the stream `7 2 1 x`: age 7, two values announced, the first
    is read, the second is the word `x` -/
example : readU U32 "7\n2\n1 x\n".toList = some (7, "\n2\n1 x\n".toList) ∧
    readU U64 "\n2\n1 x\n".toList = some (2, "\n1 x\n".toList) ∧
    readN (readF toyIO) 1 "\n1 x\n".toList = some ([true], " x\n".toList) ∧ 1 < 2 ∧
    readF toyIO " x\n".toList = none := by decide
/-- … and the model of the real load on the streams of the seeded change C12-m5 (`0 1 -`, `7 2 1 x`, `7 2 x 1`) -/
example : (IDeT.loadInto toyIO ⟨3, [true], ⟨5, 6⟩⟩ "0\n1\n-".toList).ok = false ∧
    (IDeT.loadInto toyIO ⟨3, [true], ⟨5, 6⟩⟩ "7\n2\n1 x\n".toList).ok = false ∧
    (IDeT.loadInto toyIO ⟨3, [true], ⟨5, 6⟩⟩ "7\n2\nx 1\n".toList).ok = false ∧
    (IDeT.loadInto toyIO ⟨3, [true], ⟨5, 6⟩⟩ "7\n2\n1 0\n".toList).ok = true := by decide +kernel
/-- iga / matrix: a damaged second value -/
example : readU U32 "7 2 5 -".toList = some (7, " 2 5 -".toList) ∧ readU U64 " 2 5 -".toList = some (2, " 5 -".toList) ∧
    readN (readI I32) 1 " 5 -".toList = some ([5], " -".toList) ∧ readI I32 " -".toList = none := by decide
example : readU U64 "1 2 5 0x1".toList = some (1, " 2 5 0x1".toList) ∧ readU U64 " 2 5 0x1".toList = some (2, " 5 0x1".toList) ∧
    readN (elemP .u32) 2 " 5 0x1".toList = some ([5, 0], "x1".toList) ∧
    (Matrix.loadInto .u32 ⟨1, [9]⟩ "1 2 5 0x1".toList).ok = true ∧      -- `0x1`: the value 0, `x1` is left unread
    (Matrix.loadInto .u32 ⟨1, [9]⟩ "1 2 5 x1".toList).ok = false := by decide +kernel
/-- imep / team: an unknown opcode (2 is not in the toy table) in the second gene of the second member -/
example : Gene.load toyIO toyTab " 2 1 1".toList = none ∧
    readU U32 "2 3 1 1 0 1 0 0 3 1 1 2 1 1 0 0".toList = some (2, " 3 1 1 0 1 0 0 3 1 1 2 1 1 0 0".toList) ∧
    (readN (IMep.load toyIO toyTab) 1 " 3 1 1 0 1 0 0 3 1 1 2 1 1 0 0".toList).isSome = true ∧
    (TeamT.loadInto toyIO toyTab ⟨[toyInd], ⟨1, 2⟩⟩ "2 3 1 1 0 1 0 0 3 1 1 2 1 1 0 0".toList).ok = false ∧
    (TeamT.loadInto toyIO toyTab ⟨[toyInd], ⟨1, 2⟩⟩ "2 3 1 1 0 1 0 0 3 1 1 0 1 0 0".toList).ok = true := by decide +kernel

end Vita.C12
