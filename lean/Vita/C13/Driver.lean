/-
  C13 line-protocol driver.  Runs the *generated* terms (Vita/C13/Gen.lean) on Lean's hardware
  `Float` (the `FloatOps Float` instance: C operators and the libm functions g++ calls).

    names                                   -> the generated primitive names
    run <name> <par:16hex> <v0> … <v4>      -> <outcome> <asked: i,j,… | ->
    fn <op> <a:16hex> <b:16hex>             -> 16hex        (one FloatOps operation, for the libm bit check)
    law <a:16hex> <b:16hex>                 -> ok | fail:<law>,…   (spot check of every IEEE law)
  anything else                             -> bad-op
-/
import Vita.C13.Gen
import Vita.C13.GenExt
import Vita.C13.Mini
import Vita.C13.Wire
open Vita Vita.Wire

/-- the bodies of the other symbol kinds (GenExt.lean), under the names the harness uses:
    `var<k>` reads the k-th value of the line as the example, `cdbl` uses the parameter as the constant,
    `cint` / `cstr` use the first value -/
def extBody (name : String) (par : Float) (xs : List (Val Float)) : Option (Prog Float (Val Float)) :=
  match name with
  | "bzero" => some Vita.C13.GenExt.boolean_zeroP
  | "bone" => some Vita.C13.GenExt.boolean_oneP
  | "band" => some Vita.C13.GenExt.boolean_l_andP
  | "bnot" => some Vita.C13.GenExt.boolean_l_notP
  | "bor" => some Vita.C13.GenExt.boolean_l_orP
  | "cdbl" => some (Vita.C13.GenExt.constant_doubleP par)
  | "cint" => match xs.head? with
    | some (.int n) => some (Vita.C13.GenExt.constant_intP n)
    | _ => none
  | "cstr" => match xs.head? with
    | some (.str t) => some (Vita.C13.GenExt.constant_stringP t)
    | _ => none
  | _ =>
    if name.startsWith "var" then (name.drop 3).toNat?.map fun k => Vita.C13.GenExt.variableP k else none

def extNames : List String := ["bzero", "bone", "band", "bnot", "bor", "cdbl", "cint", "cstr", "var"]

/-- elementary facts of `CoreLaws`, evaluated on hardware doubles (a test of the hypotheses) -/
def coreFailures (x y z : Float) : List String :=
  let fin := FloatOps.isFinite (F := Float)
  let le := FloatOps.le (F := Float)
  let neg := FloatOps.neg (F := Float)
  let zero : Float := FloatOps.zero
  let one : Float := FloatOps.one
  let imp (a b : Bool) : Bool := !a || b
  let d := FloatOps.div x y
  let chk : List (String × Bool) := [
    ("zero_fin", fin zero), ("one_fin", fin one),
    ("neg_fin", imp (fin x) (fin (neg x))),
    ("fabs_cases", (FloatOps.fabs x).toBits == x.toBits || (FloatOps.fabs x).toBits == (neg x).toBits || x.isNaN),
    ("le_trans", imp (le x y && le y z) (le x z)),
    ("le_total_fin", imp (fin x && fin y) (le x y || le y x)),
    ("between_fin", imp (fin x && fin z && le x y && le y z) (fin y)),
    ("neg_antitone", imp (le x y) (le (neg y) (neg x))),
    ("neg_zero_le", le (neg zero) zero),
    ("one_add_mono", imp (le x y) (le (FloatOps.add one x) (FloatOps.add one y))),
    ("one_add_zero", (FloatOps.add one zero).toBits == one.toBits),
    ("two_fin", fin (FloatOps.add one one)),
    ("div_shrinks", imp (fin x && le one y)
      (imp (le zero x) (le zero d && le d x) && imp (le x zero) (le x d && le d zero))),
    ("sin_range", imp (fin x) (le (neg one) (FloatOps.sin x) && le (FloatOps.sin x) one)),
    ("cos_range", imp (fin x) (le (neg one) (FloatOps.cos x) && le (FloatOps.cos x) one)),
    ("sqrt_range", imp (fin x && !(FloatOps.lt x zero))
      (le zero (FloatOps.sqrt x) && (le (FloatOps.sqrt x) x || le (FloatOps.sqrt x) one))),
    ("exp_range", imp (fin x && le x zero) (le zero (FloatOps.exp x) && le (FloatOps.exp x) one)),
    ("ofInt_fin", fin (FloatOps.ofInt (x.toInt32.toInt) : Float))]
  (chk.filter fun p => !p.2).map (·.1)

/-- one operation of the 6-bit format (`mini <op> a b`, bit patterns 0..63) -/
def miniOp (op : String) (a b : Nat) : String :=
  let x : Vita.C13.Mini := ⟨⟨a % 64, by omega⟩⟩
  let y : Vita.C13.Mini := ⟨⟨b % 64, by omega⟩⟩
  let bit (v : Bool) : String := if v then "1" else "0"
  let res (v : Vita.C13.Mini) : String := if v.isNaN then "nan" else toString v.b.val
  match op with
  | "add" => res (FloatOps.add x y) | "sub" => res (FloatOps.sub x y)
  | "mul" => res (FloatOps.mul x y) | "div" => res (FloatOps.div x y)
  | "neg" => res (FloatOps.neg x) | "fabs" => res (FloatOps.fabs x)
  | "floor" => res (FloatOps.floor x) | "sqrt" => res (FloatOps.sqrt x)
  | "log" => res (FloatOps.log x) | "exp" => res (FloatOps.exp x)
  | "sin" => res (FloatOps.sin x) | "cos" => res (FloatOps.cos x)
  | "fmod" => res (FloatOps.fmod x y) | "fmin" => res (FloatOps.fmin x y) | "fmax" => res (FloatOps.fmax x y)
  | "isfinite" => bit (FloatOps.isFinite x)
  | "lt" => bit (FloatOps.lt x y) | "le" => bit (FloatOps.le x y) | "eq" => bit (FloatOps.eq x y)
  | _ => "bad-op"

def fbits? (s : String) : Option Float := (hexNat? s).map fun n => Float.ofBits (UInt64.ofNat n)

def fnOp (op : String) (a b : Float) : Option Float :=
  match op with
  | "add" => some (FloatOps.add a b) | "sub" => some (FloatOps.sub a b)
  | "mul" => some (FloatOps.mul a b) | "div" => some (FloatOps.div a b)
  | "neg" => some (FloatOps.neg a) | "fabs" => some (FloatOps.fabs a)
  | "floor" => some (FloatOps.floor a) | "sqrt" => some (FloatOps.sqrt a)
  | "log" => some (FloatOps.log a) | "exp" => some (FloatOps.exp a)
  | "sin" => some (FloatOps.sin a) | "cos" => some (FloatOps.cos a)
  | "fmod" => some (FloatOps.fmod a b) | "fmin" => some (FloatOps.fmin a b)
  | "fmax" => some (FloatOps.fmax a b)
  | "isfinite" => some (if FloatOps.isFinite a then 1.0 else 0.0)
  | "lt" => some (if FloatOps.lt a b then 1.0 else 0.0)
  | "le" => some (if FloatOps.le a b then 1.0 else 0.0)
  | "eq" => some (if FloatOps.eq a b then 1.0 else 0.0)
  | _ => none

/-- every field of `IEEELaws`, evaluated on concrete hardware doubles (a test, not a proof) -/
def lawFailures (x d : Float) : List String :=
  let fin := FloatOps.isFinite (F := Float)
  let le := FloatOps.le (F := Float)
  let zero : Float := FloatOps.zero
  let one : Float := FloatOps.one
  let imp (a b : Bool) : Bool := !a || b
  let chk : List (String × Bool) := [
    ("fabs_fin", imp (fin x) (fin (FloatOps.fabs x))),
    ("sin_fin", imp (fin x) (fin (FloatOps.sin x))),
    ("cos_fin", imp (fin x) (fin (FloatOps.cos x))),
    ("sqrt_fin", imp (fin x && !(FloatOps.lt x zero)) (fin (FloatOps.sqrt x))),
    ("neg_fin", imp (fin x) (fin (FloatOps.neg x))),
    ("neg_nonpos", imp (le zero x) (le (FloatOps.neg x) zero)),
    ("le_total_zero", imp (fin x && !(le zero x)) (le x zero)),
    ("exp_unit", imp (fin x && le x zero) (le zero (FloatOps.exp x) && le (FloatOps.exp x) one)),
    ("unit_fin", imp (le zero x && le x one) (fin x)),
    ("one_add_unit", imp (le zero x && le x one) (fin (FloatOps.add one x) && le one (FloatOps.add one x))),
    ("one_fin", fin one),
    ("div_ge_one_fin", imp (fin x && fin d && le one d) (fin (FloatOps.div x d))),
    ("ofNat_fin", fin (FloatOps.ofNat (x.toBits.toNat) : Float))]
  (chk.filter fun p => !p.2).map (·.1)

def answer (line : String) : String :=
  match (line.trimAscii.toString.splitOn " ").filter (· ≠ "") with
  | ["names"] => " ".intercalate (Vita.C13.Gen.names ++ extNames)
  | ["classes"] => " ".intercalate (Vita.C13.GenExt.classes.map (·.1))
  | "run" :: name :: par :: vs =>
    match fbits? par, vs.mapM decodeVal? with
    | some q, some xs =>
     match ((Vita.C13.Gen.prims (F := Float)).lookup name).orElse (fun _ => extBody name q xs) with
     | none => "bad-op"
     | some p =>
      let argv : Nat → Option (Val Float) := fun i => some (xs.getD i .void)
      let vars : Nat → Val Float := fun i => xs.getD i .void
      let r := p.runPure argv q vars
      let asked := p.asked argv q vars
      encodeOut r ++ " " ++ (if asked.isEmpty then "-" else ",".intercalate (asked.map toString))
    | _, _ => "bad-op"
  | ["init", "real", a, b, r] =>
    match fbits? a, fbits? b, fbits? r with
    | some x, some y, some z => toHex16 (Vita.C13.GenExt.real_realInit (fun _ _ => z) x y).toBits
    | _, _, _ => "bad-op"
  | ["init", "integer", a, b, r] =>
    match a.toInt?, b.toInt?, r.toInt? with
    | some x, some y, some z => toHex16 (Vita.C13.GenExt.real_integerInit (F := Float) (fun _ _ => z) x y).toBits
    | _, _, _ => "bad-op"
  | ["pen", a, b, c, d] =>
    match a.toNat?, b.toNat?, c.toNat?, d.toNat? with
    | some a, some b, some c, some d =>
      toHex16 (Vita.C13.GenExt.compPenalty (F := Float) (fun i => [a, b, c, d].getD i 0)).toBits
    | _, _, _, _ => "bad-op"
  | ["mini", op, a, b] =>
    match a.toNat?, b.toNat? with
    | some x, some y => miniOp op x y
    | _, _ => "bad-op"
  | ["core", a, b, c] =>
    match fbits? a, fbits? b, fbits? c with
    | some x, some y, some z =>
      match coreFailures x y z with
      | [] => "ok"
      | fs => "fail:" ++ ",".intercalate fs
    | _, _, _ => "bad-op"
  | ["fn", op, a, b] =>
    match fbits? a, fbits? b with
    | some x, some y =>
      match fnOp op x y with
      | some r => toHex16 r.toBits
      | none => "bad-op"
    | _, _ => "bad-op"
  | ["law", a, b] =>
    match fbits? a, fbits? b with
    | some x, some y =>
      match lawFailures x y with
      | [] => "ok"
      | fs => "fail:" ++ ",".intercalate fs
    | _, _ => "bad-op"
  | _ => "bad-op"

partial def loop (h : IO.FS.Stream) (out : IO.FS.Stream) : IO Unit := do
  let line ← h.getLine
  if line.isEmpty then return ()
  out.putStrLn (answer line)
  loop h out

def main : IO Unit := do
  loop (← IO.getStdin) (← IO.getStdout)
