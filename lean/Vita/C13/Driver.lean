/-
  C13 line-protocol driver.  Runs the *generated* terms (Vita/C13/Gen.lean) on Lean's hardware
  `Float` (the `FloatOps Float` instance: C operators and the libm functions g++ calls).

    names                                   -> the generated primitive names
    run <name> <par:16hex> <v0> … <v4>      -> <outcome> <asked: i,j,… | ->
    fn <op> <a:16hex> <b:16hex>             -> 16hex        (one FloatOps operation, for the libm bit check)
    law <a:16hex> <b:16hex>                 -> ok | fail:<law>,…   (spot check of every IEEE law)
  anything else                             -> bad-op
-/
import Vita.C13.Gen
import Vita.C13.Wire
open Vita Vita.Wire

def fbits? (s : String) : Option Float := (hexNat? s).map fun n => Float.ofBits (UInt64.ofNat n)

def fnOp (op : String) (a b : Float) : Option Float :=
  match op with
  | "add" => some (FloatOps.add a b) | "sub" => some (FloatOps.sub a b)
  | "mul" => some (FloatOps.mul a b) | "div" => some (FloatOps.div a b)
  | "neg" => some (FloatOps.neg a) | "fabs" => some (FloatOps.fabs a)
  | "floor" => some (FloatOps.floor a) | "sqrt" => some (FloatOps.sqrt a)
  | "log" => some (FloatOps.log a) | "exp" => some (FloatOps.exp a)
  | "sin" => some (FloatOps.sin a) | "cos" => some (FloatOps.cos a)
  | "fmod" => some (FloatOps.fmod a b) | "fmin" => some (FloatOps.fmin a b)
  | "fmax" => some (FloatOps.fmax a b)
  | "isfinite" => some (if FloatOps.isFinite a then 1.0 else 0.0)
  | "lt" => some (if FloatOps.lt a b then 1.0 else 0.0)
  | "le" => some (if FloatOps.le a b then 1.0 else 0.0)
  | "eq" => some (if FloatOps.eq a b then 1.0 else 0.0)
  | _ => none

/-- every field of `IEEELaws`, evaluated on concrete hardware doubles (a test, not a proof) -/
def lawFailures (x d : Float) : List String :=
  let fin := FloatOps.isFinite (F := Float)
  let le := FloatOps.le (F := Float)
  let zero : Float := FloatOps.zero
  let one : Float := FloatOps.one
  let imp (a b : Bool) : Bool := !a || b
  let chk : List (String × Bool) := [
    ("fabs_fin", imp (fin x) (fin (FloatOps.fabs x))),
    ("sin_fin", imp (fin x) (fin (FloatOps.sin x))),
    ("cos_fin", imp (fin x) (fin (FloatOps.cos x))),
    ("sqrt_fin", imp (fin x && !(FloatOps.lt x zero)) (fin (FloatOps.sqrt x))),
    ("neg_fin", imp (fin x) (fin (FloatOps.neg x))),
    ("neg_nonpos", imp (le zero x) (le (FloatOps.neg x) zero)),
    ("le_total_zero", imp (fin x && !(le zero x)) (le x zero)),
    ("exp_unit", imp (fin x && le x zero) (le zero (FloatOps.exp x) && le (FloatOps.exp x) one)),
    ("unit_fin", imp (le zero x && le x one) (fin x)),
    ("one_add_unit", imp (le zero x && le x one) (fin (FloatOps.add one x) && le one (FloatOps.add one x))),
    ("one_fin", fin one),
    ("div_ge_one_fin", imp (fin x && fin d && le one d) (fin (FloatOps.div x d))),
    ("ofNat_fin", fin (FloatOps.ofNat (x.toBits.toNat) : Float))]
  (chk.filter fun p => !p.2).map (·.1)

def answer (line : String) : String :=
  match (line.trimAscii.toString.splitOn " ").filter (· ≠ "") with
  | ["names"] => " ".intercalate Vita.C13.Gen.names
  | "run" :: name :: par :: vs =>
    match (Vita.C13.Gen.prims (F := Float)).lookup name, fbits? par, vs.mapM decodeVal? with
    | some p, some q, some xs =>
      let argv : Nat → Option (Val Float) := fun i => some (xs.getD i .void)
      let vars : Nat → Val Float := fun _ => .void
      let r := p.runPure argv q vars
      let asked := p.asked argv q vars
      encodeOut r ++ " " ++ (if asked.isEmpty then "-" else ",".intercalate (asked.map toString))
    | _, _, _ => "bad-op"
  | ["fn", op, a, b] =>
    match fbits? a, fbits? b with
    | some x, some y =>
      match fnOp op x y with
      | some r => toHex16 r.toBits
      | none => "bad-op"
    | _, _ => "bad-op"
  | ["law", a, b] =>
    match fbits? a, fbits? b with
    | some x, some y =>
      match lawFailures x y with
      | [] => "ok"
      | fs => "fail:" ++ ",".intercalate fs
    | _, _ => "bad-op"
  | _ => "bad-op"

partial def loop (h : IO.FS.Stream) (out : IO.FS.Stream) : IO Unit := do
  let line ← h.getLine
  if line.isEmpty then return ()
  out.putStrLn (answer line)
  loop h out

def main : IO Unit := do
  loop (← IO.getStdin) (← IO.getStdout)
