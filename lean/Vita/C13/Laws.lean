/-
  C13 — the IEEE-754 / libm facts the closure theorems take as hypotheses, reduced.

  `Vita.IEEELaws F` (Common/FloatOps.lean, 13 fields) mixes arithmetic facts with the conversion of a
  `std::size_t`.  Here:

  * `ArithLaws F`  : its twelve arithmetic / libm fields;  `SizeLaw F` : the conversion field
                     (`ieee_iff : IEEELaws F ↔ ArithLaws F ∧ SizeLaw F`);  `IntLaw F`: `int → double`.
  * `CoreLaws F`   : a set of ELEMENTARY facts – the order `≤` is transitive and total on finite values,
                     finiteness is order-convex, negation is an exact order-reversing sign flip, `|x|` is `x`
                     or `−x`, rounding is monotone for `1 + ·` and exact at `1 + 0`, dividing a finite value by
                     something `≥ 1` moves it towards zero without crossing it, and the ranges of the four
                     libm functions used (`sin cos ∈ [−1,1]`, `0 ≤ √x ≤ max(x,1)`, `exp x ∈ [0,1]` for `x ≤ 0`).
  * `arith_of_core : CoreLaws F → ArithLaws F` – every arithmetic law is DERIVED from them.
  * `mini_core : CoreLaws Mini` – the elementary facts hold in the genuine IEEE-style 6-bit format of
    Mini.lean (correct rounding to nearest-even, ±0, subnormals, ±inf, NaN), checked on all its values by
    `decide`; hence `ArithLaws Mini`: the hypotheses of the closure theorems are satisfiable by a real
    floating-point arithmetic.  (`SizeLaw` cannot hold in a format whose largest number is 14: it is
    witnessed by the bounded-integer model `Toy`, jointly with all the other laws – `toy_laws`.)
-/
import Vita.C13.Mini
import Vita.Common.IntE

namespace Vita.C13
open Vita FloatOps

/-- the arithmetic / libm fields of `IEEELaws` -/
structure ArithLaws (F : Type) [FloatOps F] : Prop where
  fabs_fin : ∀ x : F, isFinite x = true → isFinite (fabs x) = true
  sin_fin : ∀ x : F, isFinite x = true → isFinite (sin x) = true
  cos_fin : ∀ x : F, isFinite x = true → isFinite (cos x) = true
  sqrt_fin : ∀ x : F, isFinite x = true → lt x zero = false → isFinite (sqrt x) = true
  neg_fin : ∀ x : F, isFinite x = true → isFinite (neg x) = true
  neg_nonpos : ∀ x : F, le zero x = true → le (neg x) zero = true
  le_total_zero : ∀ x : F, isFinite x = true → le zero x = false → le x zero = true
  exp_unit : ∀ x : F, isFinite x = true → le x zero = true →
    le zero (exp x) = true ∧ le (exp x) one = true
  unit_fin : ∀ y : F, le zero y = true → le y one = true → isFinite y = true
  one_add_unit : ∀ y : F, le zero y = true → le y one = true →
    isFinite (add one y) = true ∧ le one (add one y) = true
  one_fin : isFinite (one : F) = true
  div_ge_one_fin : ∀ a d : F, isFinite a = true → isFinite d = true → le one d = true →
    isFinite (div a d) = true

/-- a `std::size_t` converts to a finite double -/
def SizeLaw (F : Type) [FloatOps F] : Prop := ∀ n : Nat, n < 2 ^ 64 → isFinite (ofNat n : F) = true

/-- an `int` converts to a finite double -/
def IntLaw (F : Type) [FloatOps F] : Prop := ∀ n : Int, IntE.In32 n → isFinite (ofInt n : F) = true

theorem ieee_iff {F : Type} [FloatOps F] : IEEELaws F ↔ ArithLaws F ∧ SizeLaw F := by
  constructor
  · intro L
    exact ⟨⟨L.fabs_fin, L.sin_fin, L.cos_fin, L.sqrt_fin, L.neg_fin, L.neg_nonpos, L.le_total_zero, L.exp_unit,
      L.unit_fin, L.one_add_unit, L.one_fin, L.div_ge_one_fin⟩, L.ofNat_fin⟩
  · intro ⟨A, S⟩
    exact ⟨A.fabs_fin, A.sin_fin, A.cos_fin, A.sqrt_fin, A.neg_fin, A.neg_nonpos, A.le_total_zero, A.exp_unit,
      A.unit_fin, A.one_add_unit, A.one_fin, A.div_ge_one_fin, S⟩

/-- elementary facts (see the header) -/
structure CoreLaws (F : Type) [FloatOps F] : Prop where
  zero_fin : isFinite (zero : F) = true
  one_fin : isFinite (one : F) = true
  /-- negation flips the sign: finite stays finite -/
  neg_fin : ∀ x : F, isFinite x = true → isFinite (neg x) = true
  /-- `|x|` is `x` or `−x` -/
  fabs_cases : ∀ x : F, fabs x = x ∨ fabs x = neg x
  le_trans : ∀ a b c : F, le a b = true → le b c = true → le a c = true
  /-- two finite values are comparable -/
  le_total_fin : ∀ a b : F, isFinite a = true → isFinite b = true → le a b = true ∨ le b a = true
  /-- what lies between two finite values is finite (no NaN, no infinity in between) -/
  between_fin : ∀ a y b : F, isFinite a = true → isFinite b = true → le a y = true → le y b = true →
    isFinite y = true
  neg_antitone : ∀ a b : F, le a b = true → le (neg b) (neg a) = true
  neg_zero_le : le (neg (zero : F)) zero = true
  /-- rounding is monotone: `a ≤ b → 1 + a ≤ 1 + b` -/
  one_add_mono : ∀ a b : F, le a b = true → le (add one a) (add one b) = true
  /-- … and exact where nothing has to be rounded -/
  one_add_zero : add one (zero : F) = one
  two_fin : isFinite (add one one : F) = true
  /-- dividing a finite value by something `≥ 1` moves it towards zero and not across -/
  div_shrinks : ∀ a d : F, isFinite a = true → le one d = true →
    (le zero a = true → le zero (div a d) = true ∧ le (div a d) a = true) ∧
    (le a zero = true → le a (div a d) = true ∧ le (div a d) zero = true)
  sin_range : ∀ x : F, isFinite x = true → le (neg one) (sin x) = true ∧ le (sin x) one = true
  cos_range : ∀ x : F, isFinite x = true → le (neg one) (cos x) = true ∧ le (cos x) one = true
  /-- `0 ≤ √x ≤ max(x, 1)` for a finite `x` that is not below zero (this includes −0) -/
  sqrt_range : ∀ x : F, isFinite x = true → lt x zero = false →
    le zero (sqrt x) = true ∧ (le (sqrt x) x = true ∨ le (sqrt x) one = true)
  exp_range : ∀ x : F, isFinite x = true → le x zero = true →
    le zero (exp x) = true ∧ le (exp x) one = true

/-- every arithmetic law of `IEEELaws` follows from the elementary facts -/
theorem arith_of_core {F : Type} [FloatOps F] (C : CoreLaws F) : ArithLaws F where
  fabs_fin := by
    intro x hx
    rcases C.fabs_cases x with h | h
    · rw [h]; exact hx
    · rw [h]; exact C.neg_fin x hx
  sin_fin := by
    intro x hx
    have h := C.sin_range x hx
    exact C.between_fin _ _ _ (C.neg_fin _ C.one_fin) C.one_fin h.1 h.2
  cos_fin := by
    intro x hx
    have h := C.cos_range x hx
    exact C.between_fin _ _ _ (C.neg_fin _ C.one_fin) C.one_fin h.1 h.2
  sqrt_fin := by
    intro x hx hl
    have h := C.sqrt_range x hx hl
    rcases h.2 with h2 | h2
    · exact C.between_fin _ _ _ C.zero_fin hx h.1 h2
    · exact C.between_fin _ _ _ C.zero_fin C.one_fin h.1 h2
  neg_fin := C.neg_fin
  neg_nonpos := by
    intro x hx
    exact C.le_trans _ _ _ (C.neg_antitone _ _ hx) C.neg_zero_le
  le_total_zero := by
    intro x hx hl
    rcases C.le_total_fin zero x C.zero_fin hx with h | h
    · rw [h] at hl; cases hl
    · exact h
  exp_unit := C.exp_range
  unit_fin := by
    intro y h0 h1
    exact C.between_fin _ _ _ C.zero_fin C.one_fin h0 h1
  one_add_unit := by
    intro y h0 h1
    have l1 := C.one_add_mono _ _ h0
    rw [C.one_add_zero] at l1
    have l2 := C.one_add_mono _ _ h1
    exact ⟨C.between_fin _ _ _ C.one_fin C.two_fin l1 l2, l1⟩
  one_fin := C.one_fin
  div_ge_one_fin := by
    intro a d ha _ h1
    have h := C.div_shrinks a d ha h1
    rcases C.le_total_fin zero a C.zero_fin ha with h0 | h0
    · have := h.1 h0
      exact C.between_fin _ _ _ C.zero_fin ha this.1 this.2
    · have := h.2 h0
      exact C.between_fin _ _ _ ha C.zero_fin this.1 this.2

/-! ### the elementary facts hold in the 6-bit IEEE-style format -/

namespace Mini

theorem forall_iff (p : Mini → Prop) : (∀ x : Mini, p x) ↔ ∀ i : Fin 64, p ⟨i⟩ :=
  ⟨fun h i => h ⟨i⟩, fun h x => h x.b⟩

instance (p : Mini → Prop) [DecidablePred p] : Decidable (∀ x : Mini, p x) :=
  decidable_of_iff _ (forall_iff p).symm

theorem zero_eq : (FloatOps.zero : Mini) = ⟨0⟩ := by decide
theorem one_eq : (FloatOps.one : Mini) = ⟨12⟩ := by decide

/-- `le` through the order key -/
theorem le_iff (a b : Mini) : FloatOps.le a b = true ↔ ∃ x y, a.key = some x ∧ b.key = some y ∧ x ≤ y := by
  show Mini.le a b = true ↔ _
  unfold Mini.le
  cases ha : a.key <;> cases hb : b.key <;> simp

/-- finite = the key is within ±224 sixteenths (the infinities sit at ±256) -/
theorem fin_iff (a : Mini) : FloatOps.isFinite a = true ↔ ∃ x, a.key = some x ∧ -224 ≤ x ∧ x ≤ 224 := by
  revert a; decide

theorem key_bound (a : Mini) (x : Int) (h : a.key = some x) : (-224 ≤ x ∧ x ≤ 224) ∨ x = 256 ∨ x = -256 := by
  revert x; revert a; decide

end Mini

set_option maxRecDepth 100000 in
theorem mini_core : CoreLaws Mini where
  zero_fin := by decide
  one_fin := by decide
  neg_fin := by decide
  fabs_cases := by decide
  le_trans := by
    intro a b c h1 h2
    rw [Mini.le_iff] at *
    obtain ⟨x, y, hx, hy, hxy⟩ := h1
    obtain ⟨y', z, hy', hz, hyz⟩ := h2
    rw [hy] at hy'; cases hy'
    exact ⟨x, z, hx, hz, by omega⟩
  le_total_fin := by
    intro a b ha hb
    rw [Mini.fin_iff] at ha hb
    obtain ⟨x, hx, _⟩ := ha
    obtain ⟨y, hy, _⟩ := hb
    rw [Mini.le_iff, Mini.le_iff]
    by_cases h : x ≤ y
    · exact Or.inl ⟨x, y, hx, hy, h⟩
    · exact Or.inr ⟨y, x, hy, hx, by omega⟩
  between_fin := by
    intro a y b ha hb h1 h2
    rw [Mini.fin_iff] at *
    rw [Mini.le_iff] at h1 h2
    obtain ⟨x, hx, _, _⟩ := ha
    obtain ⟨z, hz, _, _⟩ := hb
    obtain ⟨x', u, hx', hu, _⟩ := h1
    obtain ⟨u', z', hu', hz', _⟩ := h2
    rw [hx] at hx'; cases hx'
    rw [hz] at hz'; cases hz'
    rw [hu] at hu'; cases hu'
    exact ⟨u, hu, by omega, by omega⟩
  neg_antitone := by decide
  neg_zero_le := by decide
  one_add_mono := by rw [Mini.one_eq]; decide
  one_add_zero := by decide
  two_fin := by decide
  div_shrinks := by rw [Mini.one_eq, Mini.zero_eq]; decide
  sin_range := by rw [Mini.one_eq]; decide
  cos_range := by rw [Mini.one_eq]; decide
  sqrt_range := by rw [Mini.one_eq, Mini.zero_eq]; decide
  exp_range := by rw [Mini.one_eq, Mini.zero_eq]; decide

/-- the arithmetic hypotheses of the closure theorems are satisfiable by a genuine IEEE-style format -/
theorem mini_arith : ArithLaws Mini := arith_of_core mini_core

end Vita.C13
