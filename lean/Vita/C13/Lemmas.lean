/-
  C13 — helper lemmas and proof scripts (the property theorems are in Props.lean).
-/
import Vita.C13.Model

set_option linter.unusedSimpArgs false
set_option linter.unusedSectionVars false

namespace Vita.C13
open Vita FloatOps

/-- the syntactic criterion implies strictness (induction on the interaction tree) -/
theorem strict_of_syn {F : Type} : ∀ p : Prog F (Val F), StrictSyn p → Strict p := by
  intro p
  induction p with
  | ret v => intro _ argv par vars i hi; simp [Prog.asked] at hi
  | throw => intro _ argv par vars i hi; simp [Prog.asked] at hi
  | fetch j k ih =>
    intro hs argv par vars i hi hv
    simp only [Prog.asked] at hi
    simp only [Prog.runPure]
    cases hj : argv j with
    | none =>
      simp [hj] at hi; subst hi; rw [hj] at hv; cases hv
    | some v =>
      simp [hj] at hi
      by_cases hij : i = j
      · subst hij
        rw [hj] at hv
        cases hv
        simp [hs.1, Prog.runPure]
      · rcases hi with hi | hi
        · exact absurd hi hij
        · exact ih v (hs.2 v) argv par vars i hi hv
  | param k ih => intro hs argv par vars i hi hv; exact ih par (hs par) argv par vars i hi hv
  | var j k ih => intro hs argv par vars i hi hv; exact ih (vars j) (hs _) argv par vars i hi hv

/-- stepping script for `Closed`: follow the control flow of the body, close each leaf -/
macro "closed_steps" : tactic =>
  `(tactic| (
    repeat' (first | simp only [Prog.runPure, Val.withDbl, Val.withStr] | split)
    all_goals (first | trivial | simp_all [GoodO, Good])))

macro "strict_syn" : tactic =>
  `(tactic| (repeat' (first
      | (simp only [StrictSyn, Val.withDbl, Val.withStr, Val.hasValue, Bool.not_true, Bool.not_false,
                    if_true, if_false, and_true, true_and])
      | intro _ | constructor | split | rfl | trivial | (simp_all; done))))

/-- simplification step for the functional specifications -/
macro "spec_step" : tactic =>
  `(tactic| (simp only [Prog.runPure, Prog.asked, Val.withDbl, Val.withStr, Val.hasValue, Bool.not_true,
                         Bool.not_false, Bool.false_eq_true, if_true, if_false, *]))

/-! ### the toy model satisfies every law -/

theorem toy_laws : IEEELaws Toy where
  fabs_fin := by intro x h; cases x <;> simp_all [FloatOps.fabs, FloatOps.isFinite]
  sin_fin := by intro x h; cases x <;> simp_all [FloatOps.sin, FloatOps.isFinite]
  cos_fin := by intro x h; cases x <;> simp_all [FloatOps.cos, FloatOps.isFinite]
  sqrt_fin := by
    intro x h hl
    cases x with
    | none => simp [FloatOps.isFinite] at h
    | some n =>
      simp only [FloatOps.lt, FloatOps.zero, FloatOps.ofBits, Toy.cmp] at hl
      simp at hl
      simp [FloatOps.sqrt, FloatOps.isFinite]
      exact hl
  neg_fin := by intro x h; cases x <;> simp_all [FloatOps.neg, FloatOps.isFinite]
  neg_nonpos := by
    intro x h
    cases x with
    | none => simp [FloatOps.le, FloatOps.zero, FloatOps.ofBits, Toy.cmp] at h
    | some n =>
      simp [FloatOps.le, FloatOps.zero, FloatOps.ofBits, Toy.cmp, FloatOps.neg] at *
      omega
  le_total_zero := by
    intro x h hl
    cases x with
    | none => simp [FloatOps.isFinite] at h
    | some n =>
      simp [FloatOps.le, FloatOps.zero, FloatOps.ofBits, Toy.cmp] at *
      omega
  exp_unit := by
    intro x h hl
    cases x with
    | none => simp [FloatOps.isFinite] at h
    | some n =>
      simp [FloatOps.le, FloatOps.zero, FloatOps.one, FloatOps.ofBits, Toy.cmp, FloatOps.exp] at *
      by_cases h0 : n < 0
      · simp [h0, Toy.cmp]
      · have : n = 0 := by omega
        subst this; simp [Toy.cmp]
  unit_fin := by
    intro y h0 h1
    cases y with
    | none => simp [FloatOps.le, Toy.cmp] at h0
    | some n => simp [FloatOps.isFinite]
  one_add_unit := by
    intro y h0 h1
    cases y with
    | none => simp [FloatOps.le, Toy.cmp] at h0
    | some n =>
      simp [FloatOps.le, FloatOps.zero, FloatOps.one, FloatOps.ofBits, Toy.cmp, FloatOps.add, Toy.bin,
            Toy.mk, Toy.bound, FloatOps.isFinite] at *
      have hb : -1180591620717411303424 ≤ 1 + n ∧ 1 + n ≤ 1180591620717411303424 := by omega
      simp [hb, Toy.cmp]
      omega
  one_fin := by simp [FloatOps.one, FloatOps.ofBits, FloatOps.isFinite]
  div_ge_one_fin := by
    intro a d ha hd h1
    cases a with
    | none => simp [FloatOps.isFinite] at ha
    | some x =>
      cases d with
      | none => simp [FloatOps.isFinite] at hd
      | some y =>
        simp [FloatOps.le, FloatOps.one, FloatOps.ofBits, Toy.cmp, FloatOps.div, Toy.bin,
              FloatOps.isFinite] at *
        have : y ≠ 0 := by omega
        simp [this]
  ofNat_fin := by
    intro n hn
    simp [FloatOps.ofNat, Toy.mk, Toy.bound, FloatOps.isFinite]
    have hb : -1180591620717411303424 ≤ (n : Int) ∧ (n : Int) ≤ 1180591620717411303424 := by
      have : n < 18446744073709551616 := by simpa using hn
      omega
    simp [hb]

end Vita.C13
