/-
  C13 — definitions used by the statements about the real-valued primitives.

  The primitives themselves are NOT written here: `Vita/C13/Gen.lean` is regenerated from
  real.h / string.h / utility.h on every check run (tools/translate_real.py).  This file only
  fixes the vocabulary of the statements and provides a small *toy* number model which shows
  that the IEEE laws taken as hypotheses are jointly satisfiable by a model in which overflow
  exists (so the statements are not vacuous).
-/
import Vita.Common.Prog
import Vita.Common.FloatOps
import Vita.C13.Gen

namespace Vita.C13
open Vita FloatOps

/-- `p` maps finite-or-undefined arguments (a finite parameter, finite-or-undefined
    variables) to a finite-or-undefined result – never NaN, never an infinity. -/
def Closed {F : Type} [FloatOps F] (p : Prog F (Val F)) : Prop :=
  ∀ (argv : Nat → Option (Val F)) (par : F) (vars : Nat → Val F),
    (∀ i, GoodO (argv i)) → isFinite par = true → (∀ i, Good (vars i)) →
    GoodO (p.runPure argv par vars)

/-- `p` returns the undefined value whenever an argument it asks for is undefined. -/
def Strict {F : Type} (p : Prog F (Val F)) : Prop :=
  ∀ (argv : Nat → Option (Val F)) (par : F) (vars : Nat → Val F) (i : Nat),
    i ∈ p.asked argv par vars → argv i = some .void → p.runPure argv par vars = some .void

/-- syntactic criterion for `Strict`: every continuation of an argument request answers
    `void` with `void` -/
def StrictSyn {F : Type} : Prog F (Val F) → Prop
  | .ret _ => True
  | .throw => True
  | .fetch _ k => k .void = .ret .void ∧ ∀ v, StrictSyn (k v)
  | .param k => ∀ p, StrictSyn (k p)
  | .var _ k => ∀ v, StrictSyn (k v)

/-- a real-typed value: undefined or a double -/
def IsReal {F : Type} : Val F → Prop
  | .void => True
  | .dbl _ => True
  | _ => False

/-- a string-typed value: undefined or a string -/
def IsStr {F : Type} : Val F → Prop
  | .void => True
  | .str _ => True
  | _ => False

/-- no exception leaves `p` when every argument is delivered and argument `i` has type `typ i` -/
def NoThrow {F : Type} (typ : Nat → Val F → Prop) (p : Prog F (Val F)) : Prop :=
  ∀ (argv : Nat → Option (Val F)) (par : F) (vars : Nat → Val F),
    (∀ i, ∃ v, argv i = some v ∧ typ i v) → p.runPure argv par vars ≠ none

/-- the tolerance of `issmall`: `2.0 * std::numeric_limits<double>::epsilon()` as the code computes it -/
def tol {F : Type} [FloatOps F] : F := mul (ofBits 0x4000000000000000) (ofBits 0x3CB0000000000000)

/-! ### a toy model of the laws (integers of bounded magnitude; `none` = NaN / ±inf) -/

abbrev Toy := Option Int

def Toy.bound : Int := 1180591620717411303424   -- 2^70

def Toy.mk (n : Int) : Toy := if -Toy.bound ≤ n ∧ n ≤ Toy.bound then some n else none

def Toy.bin (f : Int → Int → Toy) : Toy → Toy → Toy
  | some x, some y => f x y
  | _, _ => none

def Toy.cmp (f : Int → Int → Bool) : Toy → Toy → Bool
  | some x, some y => f x y
  | _, _ => false

instance : FloatOps Toy where
  ofBits b := if b = 0x3FF0000000000000 then some 1 else if b = 0x4000000000000000 then some 2 else some 0
  toBits _ := 0
  add := Toy.bin fun x y => Toy.mk (x + y)
  sub := Toy.bin fun x y => Toy.mk (x - y)
  mul := Toy.bin fun x y => Toy.mk (x * y)
  div := Toy.bin fun x y => if y = 0 then none else some (Int.tdiv x y)
  neg a := a.map fun x => -x
  fabs a := a.map fun x => Int.ofNat x.natAbs
  floor a := a
  sqrt a := a.bind fun x => if x < 0 then none else some (Int.ofNat (Nat.sqrt x.toNat))
  log a := a.bind fun x => if x ≤ 0 then none else some 0
  exp a := a.bind fun x => if x < 0 then some 0 else if x = 0 then some 1 else none
  sin a := a.map fun _ => 0
  cos a := a.map fun _ => 1
  fmod := Toy.bin fun x y => if y = 0 then none else some (Int.tmod x y)
  fmin := Toy.bin fun x y => some (if x ≤ y then x else y)
  fmax := Toy.bin fun x y => some (if x ≤ y then y else x)
  isFinite a := a.isSome
  lt := Toy.cmp fun x y => decide (x < y)
  le := Toy.cmp fun x y => decide (x ≤ y)
  eq := Toy.cmp fun x y => decide (x = y)
  ofNat n := Toy.mk (Int.ofNat n)
  ofInt n := Toy.mk n
  toInt a := a.getD 0

end Vita.C13
