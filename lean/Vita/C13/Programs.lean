/-
  C13 — programs: the vocabulary for "every shipped symbol" (all terminal kinds, all categories).

  * `ClosedSyn` / `closed_of_syn` : a syntactic criterion for `Closed` (every value a body returns is `Good`
    provided the values it receives are) – the bodies that only return integers, booleans, their own
    arguments, variables or finite constants are closed without any IEEE law;
  * the integer family: the terms generated from int.h (C14) lifted to interaction trees by C01's `progOfE`;
    `numberP`: the body of `integer::number` built from C14's generated, checked `numberEval`;
  * `Shipped` : the `eval` body of a symbol of ANY class of `GenExt.classes` (real family, `str::ife`,
    boolean family, integer family, `integer::number`, variables, constants of the three value types).
  Theorems about them are in Props.lean.
-/
import Vita.C13.Lemmas
import Vita.C13.Laws
import Vita.C13.GenExt
import Vita.C14.Gen
import Vita.C14.GenNum
import Vita.C01.Prims

set_option linter.unusedSimpArgs false
set_option linter.unusedSectionVars false
set_option linter.unusedVariables false

namespace Vita.C13
open Vita FloatOps

variable {F : Type} [FloatOps F]

/-- syntactic criterion for `Closed`: every value returned is `Good` provided the values received are -/
def ClosedSyn : Prog F (Val F) → Prop
  | .ret v => Good v
  | .throw => True
  | .fetch _ k => ∀ v, Good v → ClosedSyn (k v)
  | .param k => ∀ p, isFinite p = true → ClosedSyn (k p)
  | .var _ k => ∀ v, Good v → ClosedSyn (k v)

theorem closed_of_syn : ∀ p : Prog F (Val F), ClosedSyn p → Closed p := by
  intro p
  induction p with
  | ret v => intro h argv par vars _ _ _; exact h
  | throw => intro _ argv par vars _ _ _; trivial
  | fetch i k ih =>
    intro h argv par vars hg hp hv
    simp only [Prog.runPure]
    have hi := hg i
    cases ha : argv i with
    | none => trivial
    | some v =>
      rw [ha] at hi
      exact ih v (h v hi) argv par vars hg hp hv
  | param k ih => intro h argv par vars hg hp hv; exact ih par (h par hp) argv par vars hg hp hv
  | var i k ih => intro h argv par vars hg hp hv; exact ih (vars i) (h _ (hv i)) argv par vars hg hp hv

/-- the integer family (terms generated from int.h, lifted to interaction trees by C01's `progOfE`):
    whatever the expression, the body returns an `int`, hands an argument back or raises -/
theorem closedSyn_tailE (ρ : IntE.Env) : ∀ e : IntE.E, ClosedSyn (C01.tailE ρ e : Prog F (Val F)) := by
  intro e
  induction e with
  | ite c t e _ iht ihe =>
    unfold C01.tailE
    split
    · split
      · exact iht
      · exact ihe
    · trivial
  | arg i => unfold C01.tailE; intro v hv; exact hv
  | lit n => unfold C01.tailE; split <;> trivial
  | var i => unfold C01.tailE; split <;> trivial
  | bin op w a b _ _ => unfold C01.tailE; split <;> trivial
  | cmp op a b _ _ => unfold C01.tailE; split <;> trivial
  | not a _ => unfold C01.tailE; split <;> trivial
  | and a b _ _ => unfold C01.tailE; split <;> trivial
  | or a b _ _ => unfold C01.tailE; split <;> trivial
  | cast w a _ => unfold C01.tailE; split <;> trivial

theorem closedSyn_fetchInts (is : List Nat) : ∀ (ρ : List (Nat × Int)) (k : List (Nat × Int) → Prog F (Val F)),
    (∀ ρ', ClosedSyn (k ρ')) → ClosedSyn (C01.fetchInts is ρ k) := by
  induction is with
  | nil => intro ρ k hk; exact hk ρ
  | cons i is ih =>
    intro ρ k hk
    unfold C01.fetchInts
    intro v _
    cases v <;> simp only [Val.withInt] <;> first | trivial | exact ih _ _ hk


/-- `integer::number::eval` as an interaction tree: the gene parameter's bit pattern goes through C14's
    generated `numberEval` (a fault – undefined behaviour – would end the run; C14 proves there is none) -/
def numberP : Prog F (Val F) :=
  .param fun p =>
    match C14.GenNum.numberEval (toBits p).toNat with
    | .ok n => .ret (.int n)
    | .error _ => .throw

/-- the `eval` body of a shipped symbol: one constructor per class family of `GenExt.classes` -/
inductive Shipped : Prog F (Val F) → Prop where
  /-- real.h and `str::ife` (the 24 bodies of `Gen.prims`) -/
  | real (p : String × Prog F (Val F)) : p ∈ (Gen.prims : List (String × Prog F (Val F))) → Shipped p.2
  | boolZero : Shipped GenExt.boolean_zeroP
  | boolOne : Shipped GenExt.boolean_oneP
  | boolAnd : Shipped GenExt.boolean_l_andP
  | boolNot : Shipped GenExt.boolean_l_notP
  | boolOr : Shipped GenExt.boolean_l_orP
  /-- int.h: the nine arithmetic / conditional primitives -/
  | int (e : String × IntE.E) : e ∈ C14.Gen.ops → Shipped (C01.progOfE e.2)
  | number : Shipped numberP
  | var (k : Nat) : Shipped (GenExt.variableP k)
  /-- a constant is a shipped symbol of a program "over finite constants" when its value is finite -/
  | constD (c : F) : isFinite c = true → Shipped (GenExt.constant_doubleP c)
  | constI (n : Int) : Shipped (GenExt.constant_intP n)
  | constS (s : String) : s.utf8ByteSize < 2 ^ 64 → Shipped (GenExt.constant_stringP s)

end Vita.C13
