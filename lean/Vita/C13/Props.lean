/-
  C13 — real-valued primitives are closed over finite-or-undefined values.

  The terms `Gen.absP … Gen.sifeP` and `Gen.issmall` are regenerated from real.h, string.h and
  utility.h on every run.  For each shipped primitive `p`, over ANY number type `F` with the
  operations of `FloatOps`:
    * `closed_p`  : arguments finite-or-undefined  ⇒  result finite-or-undefined (never NaN / ±inf).
                    Guarded primitives need no IEEE law at all (the theorem is about the guard being
                    there); the others cite exactly the laws shown in their signature (`IEEELaws F`,
                    hypotheses – never axioms).
    * `strict_p`  : the result is undefined whenever an argument the body asks for is undefined.
    * `spec_p`    : on defined (double) arguments the result is the IEEE result of the named
                    operation (or undefined when the guard fires) – a complete functional description.
    * `cond_branch_p` : conditionals hand back exactly the documented argument (also at the
                    boundary of the tolerance, see `issmall_def`) and ask for no other branch.
    * `nothrow_p` : on arguments of the declared domain no exception leaves the body.
  `tree_closed` lifts closure to every expression tree built from closed bodies.
-/
import Vita.C13.Lemmas
import Vita.C01.Lemmas

set_option linter.unusedSimpArgs false
set_option linter.unusedSectionVars false
set_option linter.unusedVariables false

namespace Vita.C13
open Vita FloatOps

variable {F : Type} [FloatOps F]

/-! ### the primitives shipped today are exactly the ones proved below -/

theorem ops_covered : Gen.names =
    ["real", "integer", "abs", "add", "aq", "cos", "div", "gt", "idiv", "ifb", "ife", "ifl", "ifz",
     "length", "ln", "lt", "max", "mod", "mul", "sin", "sqrt", "sub", "sigmoid", "sife"] := by
  decide

/-- `issmall(v)` is `|v| < 2·ε`, strictly, with `2·ε` computed as the code computes it -/
theorem issmall_def (v : F) : Gen.issmall v = lt (fabs v) tol := by
  rfl

/-! ### closure -/

theorem closed_real : Closed (Gen.realP : Prog F (Val F)) := by
  intro argv par vars hg hp hv
  have h0 := hg 0; have h1 := hg 1; have h2 := hg 2; have h3 := hg 3; have h4 := hg 4
  unfold Gen.realP
  closed_steps

theorem closed_integer : Closed (Gen.integerP : Prog F (Val F)) := by
  intro argv par vars hg hp hv
  have h0 := hg 0; have h1 := hg 1; have h2 := hg 2; have h3 := hg 3; have h4 := hg 4
  unfold Gen.integerP
  closed_steps

theorem closed_abs (L : IEEELaws F) : Closed (Gen.absP : Prog F (Val F)) := by
  intro argv par vars hg hp hv
  have h0 := hg 0; have h1 := hg 1; have h2 := hg 2; have h3 := hg 3; have h4 := hg 4
  unfold Gen.absP
  closed_steps
  all_goals (apply L.fabs_fin <;> assumption)

theorem closed_add : Closed (Gen.addP : Prog F (Val F)) := by
  intro argv par vars hg hp hv
  have h0 := hg 0; have h1 := hg 1; have h2 := hg 2; have h3 := hg 3; have h4 := hg 4
  unfold Gen.addP
  closed_steps

theorem closed_aq : Closed (Gen.aqP : Prog F (Val F)) := by
  intro argv par vars hg hp hv
  have h0 := hg 0; have h1 := hg 1; have h2 := hg 2; have h3 := hg 3; have h4 := hg 4
  unfold Gen.aqP
  closed_steps

theorem closed_cos (L : IEEELaws F) : Closed (Gen.cosP : Prog F (Val F)) := by
  intro argv par vars hg hp hv
  have h0 := hg 0; have h1 := hg 1; have h2 := hg 2; have h3 := hg 3; have h4 := hg 4
  unfold Gen.cosP
  closed_steps
  all_goals (apply L.cos_fin <;> assumption)

theorem closed_div : Closed (Gen.divP : Prog F (Val F)) := by
  intro argv par vars hg hp hv
  have h0 := hg 0; have h1 := hg 1; have h2 := hg 2; have h3 := hg 3; have h4 := hg 4
  unfold Gen.divP
  closed_steps

theorem closed_gt : Closed (Gen.gtP : Prog F (Val F)) := by
  intro argv par vars hg hp hv
  have h0 := hg 0; have h1 := hg 1; have h2 := hg 2; have h3 := hg 3; have h4 := hg 4
  unfold Gen.gtP
  closed_steps

theorem closed_idiv : Closed (Gen.idivP : Prog F (Val F)) := by
  intro argv par vars hg hp hv
  have h0 := hg 0; have h1 := hg 1; have h2 := hg 2; have h3 := hg 3; have h4 := hg 4
  unfold Gen.idivP
  closed_steps

theorem closed_ifb : Closed (Gen.ifbP : Prog F (Val F)) := by
  intro argv par vars hg hp hv
  have h0 := hg 0; have h1 := hg 1; have h2 := hg 2; have h3 := hg 3; have h4 := hg 4
  unfold Gen.ifbP
  closed_steps

theorem closed_ife : Closed (Gen.ifeP : Prog F (Val F)) := by
  intro argv par vars hg hp hv
  have h0 := hg 0; have h1 := hg 1; have h2 := hg 2; have h3 := hg 3; have h4 := hg 4
  unfold Gen.ifeP
  closed_steps

theorem closed_ifl : Closed (Gen.iflP : Prog F (Val F)) := by
  intro argv par vars hg hp hv
  have h0 := hg 0; have h1 := hg 1; have h2 := hg 2; have h3 := hg 3; have h4 := hg 4
  unfold Gen.iflP
  closed_steps

theorem closed_ifz : Closed (Gen.ifzP : Prog F (Val F)) := by
  intro argv par vars hg hp hv
  have h0 := hg 0; have h1 := hg 1; have h2 := hg 2; have h3 := hg 3; have h4 := hg 4
  unfold Gen.ifzP
  closed_steps

theorem closed_length (L : IEEELaws F) : Closed (Gen.lengthP : Prog F (Val F)) := by
  intro argv par vars hg hp hv
  have h0 := hg 0; have h1 := hg 1; have h2 := hg 2; have h3 := hg 3; have h4 := hg 4
  unfold Gen.lengthP
  closed_steps
  all_goals (apply L.ofNat_fin <;> assumption)

theorem closed_ln : Closed (Gen.lnP : Prog F (Val F)) := by
  intro argv par vars hg hp hv
  have h0 := hg 0; have h1 := hg 1; have h2 := hg 2; have h3 := hg 3; have h4 := hg 4
  unfold Gen.lnP
  closed_steps

theorem closed_lt : Closed (Gen.ltP : Prog F (Val F)) := by
  intro argv par vars hg hp hv
  have h0 := hg 0; have h1 := hg 1; have h2 := hg 2; have h3 := hg 3; have h4 := hg 4
  unfold Gen.ltP
  closed_steps

theorem closed_max : Closed (Gen.maxP : Prog F (Val F)) := by
  intro argv par vars hg hp hv
  have h0 := hg 0; have h1 := hg 1; have h2 := hg 2; have h3 := hg 3; have h4 := hg 4
  unfold Gen.maxP
  closed_steps

theorem closed_mod : Closed (Gen.modP : Prog F (Val F)) := by
  intro argv par vars hg hp hv
  have h0 := hg 0; have h1 := hg 1; have h2 := hg 2; have h3 := hg 3; have h4 := hg 4
  unfold Gen.modP
  closed_steps

theorem closed_mul : Closed (Gen.mulP : Prog F (Val F)) := by
  intro argv par vars hg hp hv
  have h0 := hg 0; have h1 := hg 1; have h2 := hg 2; have h3 := hg 3; have h4 := hg 4
  unfold Gen.mulP
  closed_steps

theorem closed_sin (L : IEEELaws F) : Closed (Gen.sinP : Prog F (Val F)) := by
  intro argv par vars hg hp hv
  have h0 := hg 0; have h1 := hg 1; have h2 := hg 2; have h3 := hg 3; have h4 := hg 4
  unfold Gen.sinP
  closed_steps
  all_goals (apply L.sin_fin <;> assumption)

theorem closed_sqrt (L : IEEELaws F) : Closed (Gen.sqrtP : Prog F (Val F)) := by
  intro argv par vars hg hp hv
  have h0 := hg 0; have h1 := hg 1; have h2 := hg 2; have h3 := hg 3; have h4 := hg 4
  unfold Gen.sqrtP
  closed_steps
  all_goals (apply L.sqrt_fin <;> assumption)

theorem closed_sub : Closed (Gen.subP : Prog F (Val F)) := by
  intro argv par vars hg hp hv
  have h0 := hg 0; have h1 := hg 1; have h2 := hg 2; have h3 := hg 3; have h4 := hg 4
  unfold Gen.subP
  closed_steps

theorem closed_sife : Closed (Gen.sifeP : Prog F (Val F)) := by
  intro argv par vars hg hp hv
  have h0 := hg 0; have h1 := hg 1; have h2 := hg 2; have h3 := hg 3; have h4 := hg 4
  unfold Gen.sifeP
  closed_steps

/-- the sigmoid is finite because `exp` of a non-positive number lies in [0,1] -/
theorem closed_sigmoid (L : IEEELaws F) : Closed (Gen.sigmoidP : Prog F (Val F)) := by
  intro argv par vars hg hp hv
  have h0 := hg 0
  unfold Gen.sigmoidP
  simp only [Prog.runPure]
  cases h : argv 0 with
  | none => trivial
  | some v =>
    rw [h] at h0
    cases v with
    | dbl x =>
      have hfin : isFinite x = true := h0
      simp only [Val.hasValue, Val.withDbl, Bool.not_true, Bool.false_eq_true, if_false]
      by_cases hx : le (zero : F) x = true
      · -- x ≥ 0 :  1 / (1 + exp (-x))
        rw [if_pos hx]
        have hn := L.neg_nonpos x hx
        have he := L.exp_unit (neg x) (L.neg_fin x hfin) hn
        have ha := L.one_add_unit (exp (neg x)) he.1 he.2
        exact L.div_ge_one_fin _ _ L.one_fin ha.1 ha.2
      · -- x < 0 :  exp x / (1 + exp x)
        rw [if_neg hx]
        have hx' : le (zero : F) x = false := by simpa using hx
        have hle := L.le_total_zero x hfin hx'
        have he := L.exp_unit x hfin hle
        have ha := L.one_add_unit (exp x) he.1 he.2
        exact L.div_ge_one_fin _ _ (L.unit_fin _ he.1 he.2) ha.1 ha.2
    | void => simp [Val.hasValue, Prog.runPure, GoodO, Good]
    | int n => simp [Val.hasValue, Val.withDbl, Prog.runPure, GoodO]
    | str s => simp [Val.hasValue, Val.withDbl, Prog.runPure, GoodO]

/-- every shipped real-valued primitive (and `str::ife`) is closed -/
theorem prims_closed (L : IEEELaws F) : ∀ p ∈ (Gen.prims : List (String × Prog F (Val F))), Closed p.2 := by
  intro p hp
  simp only [Gen.prims, List.mem_cons, List.not_mem_nil, or_false] at hp
  rcases hp with rfl | rfl | rfl | rfl | rfl | rfl | rfl | rfl | rfl | rfl | rfl | rfl | rfl | rfl | rfl | rfl | rfl | rfl | rfl | rfl | rfl | rfl | rfl | rfl

  · exact closed_real
  · exact closed_integer
  · exact closed_abs L
  · exact closed_add
  · exact closed_aq
  · exact closed_cos L
  · exact closed_div
  · exact closed_gt
  · exact closed_idiv
  · exact closed_ifb
  · exact closed_ife
  · exact closed_ifl
  · exact closed_ifz
  · exact closed_length L
  · exact closed_ln
  · exact closed_lt
  · exact closed_max
  · exact closed_mod
  · exact closed_mul
  · exact closed_sin L
  · exact closed_sqrt L
  · exact closed_sub
  · exact closed_sigmoid L
  · exact closed_sife

/-- hence every expression tree over closed bodies with finite constants, evaluated on
    finite-or-undefined inputs, yields a finite number or the undefined value -/
theorem tree_closed (vars : Nat → Val F) (hv : ∀ i, Good (vars i)) :
    ∀ t : Tree F (Val F), t.All (fun b par => Closed b ∧ isFinite par = true) → GoodO (t.eval vars) := by
  intro t
  induction t with
  | nil => intro _; trivial
  | node body par kids ih =>
    intro h
    simp only [Tree.eval]
    exact h.1.1 _ par vars (fun i => ih i (h.2 i)) h.1.2 hv

/-- … and so does vita's interpreter on every well-formed program whose genes carry closed bodies
    (e.g. any of `Gen.prims`, variables, finite constants) and finite parameters, run on a
    finite-or-undefined example from ANY interpreter state (by C01's `interp_eq_denote`) -/
theorem run_closed (g : C01.Genome F) (h : C01.WF g)
    (hg : ∀ l, Closed (g.gene l).body ∧ isFinite (g.gene l).par = true)
    (ex : List (Val F)) (hex : ∀ v ∈ ex, Good v) (s : C01.St F) :
    GoodO (C01.run g ex s).1 := by
  rw [C01.run_eq_denote g h s ex]
  show GoodO (C01.denoteF g ex _ _)
  rw [C01.denoteF_eq_unfold]
  apply tree_closed
  · intro i
    unfold C01.varOf
    by_cases hi : i < ex.length
    · have : ex.getD i Val.void = ex[i] := by simp [List.getD, hi]
      rw [this]; exact hex _ (List.getElem_mem hi)
    · have : ex.getD i Val.void = Val.void := by
        have h2 : ex.length ≤ i := by omega
        simp [List.getD, List.getElem?_eq_none h2]
      rw [this]; trivial
  · generalize g.rows - g.best.index = f
    generalize g.best = l
    induction f generalizing l with
    | zero => trivial
    | succ f ih =>
      simp only [C01.unfold, Tree.All]
      refine ⟨hg l, fun i => ?_⟩
      split
      · exact ih _
      · trivial

/-! ### strictness -/

theorem strict_real : Strict (Gen.realP : Prog F (Val F)) := by
  apply strict_of_syn; unfold Gen.realP; strict_syn

theorem strict_integer : Strict (Gen.integerP : Prog F (Val F)) := by
  apply strict_of_syn; unfold Gen.integerP; strict_syn

theorem strict_abs : Strict (Gen.absP : Prog F (Val F)) := by
  apply strict_of_syn; unfold Gen.absP; strict_syn

theorem strict_add : Strict (Gen.addP : Prog F (Val F)) := by
  apply strict_of_syn; unfold Gen.addP; strict_syn

theorem strict_aq : Strict (Gen.aqP : Prog F (Val F)) := by
  apply strict_of_syn; unfold Gen.aqP; strict_syn

theorem strict_cos : Strict (Gen.cosP : Prog F (Val F)) := by
  apply strict_of_syn; unfold Gen.cosP; strict_syn

theorem strict_div : Strict (Gen.divP : Prog F (Val F)) := by
  apply strict_of_syn; unfold Gen.divP; strict_syn

theorem strict_gt : Strict (Gen.gtP : Prog F (Val F)) := by
  apply strict_of_syn; unfold Gen.gtP; strict_syn

theorem strict_idiv : Strict (Gen.idivP : Prog F (Val F)) := by
  apply strict_of_syn; unfold Gen.idivP; strict_syn

theorem strict_ifb : Strict (Gen.ifbP : Prog F (Val F)) := by
  apply strict_of_syn; unfold Gen.ifbP; strict_syn

theorem strict_ife : Strict (Gen.ifeP : Prog F (Val F)) := by
  apply strict_of_syn; unfold Gen.ifeP; strict_syn

theorem strict_ifl : Strict (Gen.iflP : Prog F (Val F)) := by
  apply strict_of_syn; unfold Gen.iflP; strict_syn

theorem strict_ifz : Strict (Gen.ifzP : Prog F (Val F)) := by
  apply strict_of_syn; unfold Gen.ifzP; strict_syn

theorem strict_length : Strict (Gen.lengthP : Prog F (Val F)) := by
  apply strict_of_syn; unfold Gen.lengthP; strict_syn

theorem strict_ln : Strict (Gen.lnP : Prog F (Val F)) := by
  apply strict_of_syn; unfold Gen.lnP; strict_syn

theorem strict_lt : Strict (Gen.ltP : Prog F (Val F)) := by
  apply strict_of_syn; unfold Gen.ltP; strict_syn

theorem strict_max : Strict (Gen.maxP : Prog F (Val F)) := by
  apply strict_of_syn; unfold Gen.maxP; strict_syn

theorem strict_mod : Strict (Gen.modP : Prog F (Val F)) := by
  apply strict_of_syn; unfold Gen.modP; strict_syn

theorem strict_mul : Strict (Gen.mulP : Prog F (Val F)) := by
  apply strict_of_syn; unfold Gen.mulP; strict_syn

theorem strict_sin : Strict (Gen.sinP : Prog F (Val F)) := by
  apply strict_of_syn; unfold Gen.sinP; strict_syn

theorem strict_sqrt : Strict (Gen.sqrtP : Prog F (Val F)) := by
  apply strict_of_syn; unfold Gen.sqrtP; strict_syn

theorem strict_sub : Strict (Gen.subP : Prog F (Val F)) := by
  apply strict_of_syn; unfold Gen.subP; strict_syn

theorem strict_sigmoid : Strict (Gen.sigmoidP : Prog F (Val F)) := by
  apply strict_of_syn; unfold Gen.sigmoidP; strict_syn

theorem strict_sife : Strict (Gen.sifeP : Prog F (Val F)) := by
  apply strict_of_syn; unfold Gen.sifeP; strict_syn

/-! ### functional specification on defined arguments -/

theorem spec_real (argv : Nat → Option (Val F)) (par : F) (vars : Nat → Val F) :
    (Gen.realP : Prog F (Val F)).runPure argv par vars = some (.dbl par) := by
  rfl

theorem spec_integer (argv : Nat → Option (Val F)) (par : F) (vars : Nat → Val F) :
    (Gen.integerP : Prog F (Val F)).runPure argv par vars = some (.dbl par) := by
  rfl

theorem spec_abs (argv : Nat → Option (Val F)) (par : F) (vars : Nat → Val F) (x : F)
    (h0 : argv 0 = some (.dbl x)) :
    (Gen.absP : Prog F (Val F)).runPure argv par vars = some (.dbl (fabs x)) := by
  unfold Gen.absP; spec_step

theorem spec_cos (argv : Nat → Option (Val F)) (par : F) (vars : Nat → Val F) (x : F)
    (h0 : argv 0 = some (.dbl x)) :
    (Gen.cosP : Prog F (Val F)).runPure argv par vars = some (.dbl (cos x)) := by
  unfold Gen.cosP; spec_step

theorem spec_sin (argv : Nat → Option (Val F)) (par : F) (vars : Nat → Val F) (x : F)
    (h0 : argv 0 = some (.dbl x)) :
    (Gen.sinP : Prog F (Val F)).runPure argv par vars = some (.dbl (sin x)) := by
  unfold Gen.sinP; spec_step

theorem spec_add (argv : Nat → Option (Val F)) (par : F) (vars : Nat → Val F) (x y : F)
    (h0 : argv 0 = some (.dbl x)) (h1 : argv 1 = some (.dbl y)) :
    (Gen.addP : Prog F (Val F)).runPure argv par vars =
      some (if isFinite (add x y) = true then .dbl (add x y) else .void) := by
  unfold Gen.addP; spec_step
  split <;> simp_all [Prog.runPure]

theorem spec_sub (argv : Nat → Option (Val F)) (par : F) (vars : Nat → Val F) (x y : F)
    (h0 : argv 0 = some (.dbl x)) (h1 : argv 1 = some (.dbl y)) :
    (Gen.subP : Prog F (Val F)).runPure argv par vars =
      some (if isFinite (sub x y) = true then .dbl (sub x y) else .void) := by
  unfold Gen.subP; spec_step
  split <;> simp_all [Prog.runPure]

theorem spec_mul (argv : Nat → Option (Val F)) (par : F) (vars : Nat → Val F) (x y : F)
    (h0 : argv 0 = some (.dbl x)) (h1 : argv 1 = some (.dbl y)) :
    (Gen.mulP : Prog F (Val F)).runPure argv par vars =
      some (if isFinite (mul x y) = true then .dbl (mul x y) else .void) := by
  unfold Gen.mulP; spec_step
  split <;> simp_all [Prog.runPure]

theorem spec_div (argv : Nat → Option (Val F)) (par : F) (vars : Nat → Val F) (x y : F)
    (h0 : argv 0 = some (.dbl x)) (h1 : argv 1 = some (.dbl y)) :
    (Gen.divP : Prog F (Val F)).runPure argv par vars =
      some (if isFinite (div x y) = true then .dbl (div x y) else .void) := by
  unfold Gen.divP; spec_step
  split <;> simp_all [Prog.runPure]

theorem spec_idiv (argv : Nat → Option (Val F)) (par : F) (vars : Nat → Val F) (x y : F)
    (h0 : argv 0 = some (.dbl x)) (h1 : argv 1 = some (.dbl y)) :
    (Gen.idivP : Prog F (Val F)).runPure argv par vars =
      some (if isFinite (floor (div x y)) = true then .dbl (floor (div x y)) else .void) := by
  unfold Gen.idivP; spec_step
  split <;> simp_all [Prog.runPure]

theorem spec_mod (argv : Nat → Option (Val F)) (par : F) (vars : Nat → Val F) (x y : F)
    (h0 : argv 0 = some (.dbl x)) (h1 : argv 1 = some (.dbl y)) :
    (Gen.modP : Prog F (Val F)).runPure argv par vars =
      some (if isFinite (fmod x y) = true then .dbl (fmod x y) else .void) := by
  unfold Gen.modP; spec_step
  split <;> simp_all [Prog.runPure]

theorem spec_max (argv : Nat → Option (Val F)) (par : F) (vars : Nat → Val F) (x y : F)
    (h0 : argv 0 = some (.dbl x)) (h1 : argv 1 = some (.dbl y)) :
    (Gen.maxP : Prog F (Val F)).runPure argv par vars =
      some (if isFinite (fmax x y) = true then .dbl (fmax x y) else .void) := by
  unfold Gen.maxP; spec_step
  split <;> simp_all [Prog.runPure]

theorem spec_aq (argv : Nat → Option (Val F)) (par : F) (vars : Nat → Val F) (x y : F)
    (h0 : argv 0 = some (.dbl x)) (h1 : argv 1 = some (.dbl y)) :
    (Gen.aqP : Prog F (Val F)).runPure argv par vars =
      some (if isFinite (div x (sqrt (add one (mul y y)))) = true then .dbl (div x (sqrt (add one (mul y y)))) else .void) := by
  unfold Gen.aqP; spec_step
  split <;> simp_all [Prog.runPure]

theorem spec_ln (argv : Nat → Option (Val F)) (par : F) (vars : Nat → Val F) (x : F)
    (h0 : argv 0 = some (.dbl x)) :
    (Gen.lnP : Prog F (Val F)).runPure argv par vars =
      some (if isFinite (log x) = true then .dbl (log x) else .void) := by
  unfold Gen.lnP; spec_step
  split <;> simp_all [Prog.runPure]

theorem spec_sqrt (argv : Nat → Option (Val F)) (par : F) (vars : Nat → Val F) (x : F)
    (h0 : argv 0 = some (.dbl x)) :
    (Gen.sqrtP : Prog F (Val F)).runPure argv par vars =
      some (if lt x zero = true then .void else .dbl (sqrt x)) := by
  unfold Gen.sqrtP; spec_step
  split <;> simp_all [Prog.runPure]

theorem spec_sigmoid (argv : Nat → Option (Val F)) (par : F) (vars : Nat → Val F) (x : F)
    (h0 : argv 0 = some (.dbl x)) :
    (Gen.sigmoidP : Prog F (Val F)).runPure argv par vars =
      some (.dbl (if le zero x = true then div one (add one (exp (neg x)))
                  else div (exp x) (add one (exp x)))) := by
  unfold Gen.sigmoidP; spec_step
  split <;> simp_all [Prog.runPure]

theorem spec_gt (argv : Nat → Option (Val F)) (par : F) (vars : Nat → Val F) (x y : F)
    (h0 : argv 0 = some (.dbl x)) (h1 : argv 1 = some (.dbl y)) :
    (Gen.gtP : Prog F (Val F)).runPure argv par vars = some (.ofBool (lt y x)) := by
  unfold Gen.gtP; spec_step

theorem spec_lt (argv : Nat → Option (Val F)) (par : F) (vars : Nat → Val F) (x y : F)
    (h0 : argv 0 = some (.dbl x)) (h1 : argv 1 = some (.dbl y)) :
    (Gen.ltP : Prog F (Val F)).runPure argv par vars = some (.ofBool (lt x y)) := by
  unfold Gen.ltP; spec_step

theorem spec_length (argv : Nat → Option (Val F)) (par : F) (vars : Nat → Val F) (s : String)
    (h0 : argv 0 = some (.str s)) :
    (Gen.lengthP : Prog F (Val F)).runPure argv par vars = some (.dbl (ofNat s.utf8ByteSize)) := by
  unfold Gen.lengthP; spec_step

/-! ### conditionals: the documented branch, and only that branch is asked for -/

theorem cond_branch_ife (argv : Nat → Option (Val F)) (par : F) (vars : Nat → Val F) (x y : F)
    (h0 : argv 0 = some (.dbl x)) (h1 : argv 1 = some (.dbl y)) :
    (Gen.ifeP : Prog F (Val F)).runPure argv par vars =
      (if lt (fabs (sub x y)) tol = true then argv 2 else argv 3) ∧
    (Gen.ifeP : Prog F (Val F)).asked argv par vars =
      (if lt (fabs (sub x y)) tol = true then [0, 1, 2] else [0, 1, 3]) := by
  unfold Gen.ifeP Gen.issmall tol; spec_step
  constructor <;> split <;> spec_step <;> split <;> simp_all [Prog.runPure, Prog.asked]

theorem cond_branch_ifz (argv : Nat → Option (Val F)) (par : F) (vars : Nat → Val F) (x : F)
    (h0 : argv 0 = some (.dbl x)) :
    (Gen.ifzP : Prog F (Val F)).runPure argv par vars =
      (if lt (fabs x) tol = true then argv 1 else argv 2) ∧
    (Gen.ifzP : Prog F (Val F)).asked argv par vars =
      (if lt (fabs x) tol = true then [0, 1] else [0, 2]) := by
  unfold Gen.ifzP Gen.issmall tol; spec_step
  constructor <;> split <;> spec_step <;> split <;> simp_all [Prog.runPure, Prog.asked]

theorem cond_branch_ifl (argv : Nat → Option (Val F)) (par : F) (vars : Nat → Val F) (x y : F)
    (h0 : argv 0 = some (.dbl x)) (h1 : argv 1 = some (.dbl y)) :
    (Gen.iflP : Prog F (Val F)).runPure argv par vars =
      (if lt x y = true then argv 2 else argv 3) ∧
    (Gen.iflP : Prog F (Val F)).asked argv par vars =
      (if lt x y = true then [0, 1, 2] else [0, 1, 3]) := by
  unfold Gen.iflP; spec_step
  constructor <;> split <;> spec_step <;> split <;> simp_all [Prog.runPure, Prog.asked]

theorem cond_branch_ifb (argv : Nat → Option (Val F)) (par : F) (vars : Nat → Val F) (x y z : F)
    (h0 : argv 0 = some (.dbl x)) (h1 : argv 1 = some (.dbl y)) (h2 : argv 2 = some (.dbl z)) :
    (Gen.ifbP : Prog F (Val F)).runPure argv par vars =
      (if (lt x (fmin y z) || lt (fmax y z) x) = true then argv 4 else argv 3) ∧
    (Gen.ifbP : Prog F (Val F)).asked argv par vars =
      (if (lt x (fmin y z) || lt (fmax y z) x) = true then [0, 1, 2, 4] else [0, 1, 2, 3]) := by
  unfold Gen.ifbP; spec_step
  constructor <;> split <;> spec_step <;> split <;> simp_all [Prog.runPure, Prog.asked]

theorem cond_branch_sife (argv : Nat → Option (Val F)) (par : F) (vars : Nat → Val F) (a b : Val F)
    (h0 : argv 0 = some a) (h1 : argv 1 = some b) (ha : a.hasValue = true) (hb : b.hasValue = true) :
    (Gen.sifeP : Prog F (Val F)).runPure argv par vars =
      (if Val.eqv a b = true then argv 2 else argv 3) ∧
    (Gen.sifeP : Prog F (Val F)).asked argv par vars =
      (if Val.eqv a b = true then [0, 1, 2] else [0, 1, 3]) := by
  unfold Gen.sifeP
  simp only [Prog.runPure, Prog.asked, h0, h1, ha, hb, Bool.not_true, Bool.false_eq_true, if_false]
  constructor <;> split <;> simp only [Prog.runPure, Prog.asked] <;> split <;> simp_all [Prog.runPure, Prog.asked]

/-! ### no exception on arguments of the declared domain -/

theorem nothrow_real : NoThrow (fun _ v => IsReal v) (Gen.realP : Prog F (Val F)) := by
  intro argv par vars h
  obtain ⟨a0, e0, t0⟩ := h 0; obtain ⟨a1, e1, t1⟩ := h 1; obtain ⟨a2, e2, t2⟩ := h 2
  obtain ⟨a3, e3, t3⟩ := h 3; obtain ⟨a4, e4, t4⟩ := h 4
  unfold Gen.realP
  simp only [Prog.runPure, e0, e1, e2, e3, e4]
  cases a0 <;>
    simp_all [IsReal, IsStr, Val.hasValue, Val.withDbl, Val.withStr, Prog.runPure] <;>
    (repeat' split) <;> simp_all [Prog.runPure]

theorem nothrow_integer : NoThrow (fun _ v => IsReal v) (Gen.integerP : Prog F (Val F)) := by
  intro argv par vars h
  obtain ⟨a0, e0, t0⟩ := h 0; obtain ⟨a1, e1, t1⟩ := h 1; obtain ⟨a2, e2, t2⟩ := h 2
  obtain ⟨a3, e3, t3⟩ := h 3; obtain ⟨a4, e4, t4⟩ := h 4
  unfold Gen.integerP
  simp only [Prog.runPure, e0, e1, e2, e3, e4]
  cases a0 <;>
    simp_all [IsReal, IsStr, Val.hasValue, Val.withDbl, Val.withStr, Prog.runPure] <;>
    (repeat' split) <;> simp_all [Prog.runPure]

theorem nothrow_abs : NoThrow (fun _ v => IsReal v) (Gen.absP : Prog F (Val F)) := by
  intro argv par vars h
  obtain ⟨a0, e0, t0⟩ := h 0; obtain ⟨a1, e1, t1⟩ := h 1; obtain ⟨a2, e2, t2⟩ := h 2
  obtain ⟨a3, e3, t3⟩ := h 3; obtain ⟨a4, e4, t4⟩ := h 4
  unfold Gen.absP
  simp only [Prog.runPure, e0, e1, e2, e3, e4]
  cases a0 <;>
    simp_all [IsReal, IsStr, Val.hasValue, Val.withDbl, Val.withStr, Prog.runPure] <;>
    (repeat' split) <;> simp_all [Prog.runPure]

theorem nothrow_add : NoThrow (fun _ v => IsReal v) (Gen.addP : Prog F (Val F)) := by
  intro argv par vars h
  obtain ⟨a0, e0, t0⟩ := h 0; obtain ⟨a1, e1, t1⟩ := h 1; obtain ⟨a2, e2, t2⟩ := h 2
  obtain ⟨a3, e3, t3⟩ := h 3; obtain ⟨a4, e4, t4⟩ := h 4
  unfold Gen.addP
  simp only [Prog.runPure, e0, e1, e2, e3, e4]
  cases a0 <;> cases a1 <;>
    simp_all [IsReal, IsStr, Val.hasValue, Val.withDbl, Val.withStr, Prog.runPure] <;>
    (repeat' split) <;> simp_all [Prog.runPure]

theorem nothrow_aq : NoThrow (fun _ v => IsReal v) (Gen.aqP : Prog F (Val F)) := by
  intro argv par vars h
  obtain ⟨a0, e0, t0⟩ := h 0; obtain ⟨a1, e1, t1⟩ := h 1; obtain ⟨a2, e2, t2⟩ := h 2
  obtain ⟨a3, e3, t3⟩ := h 3; obtain ⟨a4, e4, t4⟩ := h 4
  unfold Gen.aqP
  simp only [Prog.runPure, e0, e1, e2, e3, e4]
  cases a0 <;> cases a1 <;>
    simp_all [IsReal, IsStr, Val.hasValue, Val.withDbl, Val.withStr, Prog.runPure] <;>
    (repeat' split) <;> simp_all [Prog.runPure]

theorem nothrow_cos : NoThrow (fun _ v => IsReal v) (Gen.cosP : Prog F (Val F)) := by
  intro argv par vars h
  obtain ⟨a0, e0, t0⟩ := h 0; obtain ⟨a1, e1, t1⟩ := h 1; obtain ⟨a2, e2, t2⟩ := h 2
  obtain ⟨a3, e3, t3⟩ := h 3; obtain ⟨a4, e4, t4⟩ := h 4
  unfold Gen.cosP
  simp only [Prog.runPure, e0, e1, e2, e3, e4]
  cases a0 <;>
    simp_all [IsReal, IsStr, Val.hasValue, Val.withDbl, Val.withStr, Prog.runPure] <;>
    (repeat' split) <;> simp_all [Prog.runPure]

theorem nothrow_div : NoThrow (fun _ v => IsReal v) (Gen.divP : Prog F (Val F)) := by
  intro argv par vars h
  obtain ⟨a0, e0, t0⟩ := h 0; obtain ⟨a1, e1, t1⟩ := h 1; obtain ⟨a2, e2, t2⟩ := h 2
  obtain ⟨a3, e3, t3⟩ := h 3; obtain ⟨a4, e4, t4⟩ := h 4
  unfold Gen.divP
  simp only [Prog.runPure, e0, e1, e2, e3, e4]
  cases a0 <;> cases a1 <;>
    simp_all [IsReal, IsStr, Val.hasValue, Val.withDbl, Val.withStr, Prog.runPure] <;>
    (repeat' split) <;> simp_all [Prog.runPure]

theorem nothrow_gt : NoThrow (fun _ v => IsReal v) (Gen.gtP : Prog F (Val F)) := by
  intro argv par vars h
  obtain ⟨a0, e0, t0⟩ := h 0; obtain ⟨a1, e1, t1⟩ := h 1; obtain ⟨a2, e2, t2⟩ := h 2
  obtain ⟨a3, e3, t3⟩ := h 3; obtain ⟨a4, e4, t4⟩ := h 4
  unfold Gen.gtP
  simp only [Prog.runPure, e0, e1, e2, e3, e4]
  cases a0 <;> cases a1 <;>
    simp_all [IsReal, IsStr, Val.hasValue, Val.withDbl, Val.withStr, Prog.runPure] <;>
    (repeat' split) <;> simp_all [Prog.runPure]

theorem nothrow_idiv : NoThrow (fun _ v => IsReal v) (Gen.idivP : Prog F (Val F)) := by
  intro argv par vars h
  obtain ⟨a0, e0, t0⟩ := h 0; obtain ⟨a1, e1, t1⟩ := h 1; obtain ⟨a2, e2, t2⟩ := h 2
  obtain ⟨a3, e3, t3⟩ := h 3; obtain ⟨a4, e4, t4⟩ := h 4
  unfold Gen.idivP
  simp only [Prog.runPure, e0, e1, e2, e3, e4]
  cases a0 <;> cases a1 <;>
    simp_all [IsReal, IsStr, Val.hasValue, Val.withDbl, Val.withStr, Prog.runPure] <;>
    (repeat' split) <;> simp_all [Prog.runPure]

theorem nothrow_ifb : NoThrow (fun i v => i < 3 → IsReal v) (Gen.ifbP : Prog F (Val F)) := by
  intro argv par vars h
  obtain ⟨a0, e0, t0⟩ := h 0; obtain ⟨a1, e1, t1⟩ := h 1; obtain ⟨a2, e2, t2⟩ := h 2
  obtain ⟨a3, e3, t3⟩ := h 3; obtain ⟨a4, e4, t4⟩ := h 4
  unfold Gen.ifbP
  simp only [Prog.runPure, e0, e1, e2, e3, e4]
  cases a0 <;> cases a1 <;> cases a2 <;>
    simp_all [IsReal, IsStr, Val.hasValue, Val.withDbl, Val.withStr, Prog.runPure] <;>
    (repeat' split) <;> simp_all [Prog.runPure]

theorem nothrow_ife : NoThrow (fun i v => i < 2 → IsReal v) (Gen.ifeP : Prog F (Val F)) := by
  intro argv par vars h
  obtain ⟨a0, e0, t0⟩ := h 0; obtain ⟨a1, e1, t1⟩ := h 1; obtain ⟨a2, e2, t2⟩ := h 2
  obtain ⟨a3, e3, t3⟩ := h 3; obtain ⟨a4, e4, t4⟩ := h 4
  unfold Gen.ifeP
  simp only [Prog.runPure, e0, e1, e2, e3, e4]
  cases a0 <;> cases a1 <;>
    simp_all [IsReal, IsStr, Val.hasValue, Val.withDbl, Val.withStr, Prog.runPure] <;>
    (repeat' split) <;> simp_all [Prog.runPure]

theorem nothrow_ifl : NoThrow (fun i v => i < 2 → IsReal v) (Gen.iflP : Prog F (Val F)) := by
  intro argv par vars h
  obtain ⟨a0, e0, t0⟩ := h 0; obtain ⟨a1, e1, t1⟩ := h 1; obtain ⟨a2, e2, t2⟩ := h 2
  obtain ⟨a3, e3, t3⟩ := h 3; obtain ⟨a4, e4, t4⟩ := h 4
  unfold Gen.iflP
  simp only [Prog.runPure, e0, e1, e2, e3, e4]
  cases a0 <;> cases a1 <;>
    simp_all [IsReal, IsStr, Val.hasValue, Val.withDbl, Val.withStr, Prog.runPure] <;>
    (repeat' split) <;> simp_all [Prog.runPure]

theorem nothrow_ifz : NoThrow (fun i v => i < 1 → IsReal v) (Gen.ifzP : Prog F (Val F)) := by
  intro argv par vars h
  obtain ⟨a0, e0, t0⟩ := h 0; obtain ⟨a1, e1, t1⟩ := h 1; obtain ⟨a2, e2, t2⟩ := h 2
  obtain ⟨a3, e3, t3⟩ := h 3; obtain ⟨a4, e4, t4⟩ := h 4
  unfold Gen.ifzP
  simp only [Prog.runPure, e0, e1, e2, e3, e4]
  cases a0 <;>
    simp_all [IsReal, IsStr, Val.hasValue, Val.withDbl, Val.withStr, Prog.runPure] <;>
    (repeat' split) <;> simp_all [Prog.runPure]

theorem nothrow_length : NoThrow (fun _ v => IsStr v) (Gen.lengthP : Prog F (Val F)) := by
  intro argv par vars h
  obtain ⟨a0, e0, t0⟩ := h 0; obtain ⟨a1, e1, t1⟩ := h 1; obtain ⟨a2, e2, t2⟩ := h 2
  obtain ⟨a3, e3, t3⟩ := h 3; obtain ⟨a4, e4, t4⟩ := h 4
  unfold Gen.lengthP
  simp only [Prog.runPure, e0, e1, e2, e3, e4]
  cases a0 <;>
    simp_all [IsReal, IsStr, Val.hasValue, Val.withDbl, Val.withStr, Prog.runPure] <;>
    (repeat' split) <;> simp_all [Prog.runPure]

theorem nothrow_ln : NoThrow (fun _ v => IsReal v) (Gen.lnP : Prog F (Val F)) := by
  intro argv par vars h
  obtain ⟨a0, e0, t0⟩ := h 0; obtain ⟨a1, e1, t1⟩ := h 1; obtain ⟨a2, e2, t2⟩ := h 2
  obtain ⟨a3, e3, t3⟩ := h 3; obtain ⟨a4, e4, t4⟩ := h 4
  unfold Gen.lnP
  simp only [Prog.runPure, e0, e1, e2, e3, e4]
  cases a0 <;>
    simp_all [IsReal, IsStr, Val.hasValue, Val.withDbl, Val.withStr, Prog.runPure] <;>
    (repeat' split) <;> simp_all [Prog.runPure]

theorem nothrow_lt : NoThrow (fun _ v => IsReal v) (Gen.ltP : Prog F (Val F)) := by
  intro argv par vars h
  obtain ⟨a0, e0, t0⟩ := h 0; obtain ⟨a1, e1, t1⟩ := h 1; obtain ⟨a2, e2, t2⟩ := h 2
  obtain ⟨a3, e3, t3⟩ := h 3; obtain ⟨a4, e4, t4⟩ := h 4
  unfold Gen.ltP
  simp only [Prog.runPure, e0, e1, e2, e3, e4]
  cases a0 <;> cases a1 <;>
    simp_all [IsReal, IsStr, Val.hasValue, Val.withDbl, Val.withStr, Prog.runPure] <;>
    (repeat' split) <;> simp_all [Prog.runPure]

theorem nothrow_max : NoThrow (fun _ v => IsReal v) (Gen.maxP : Prog F (Val F)) := by
  intro argv par vars h
  obtain ⟨a0, e0, t0⟩ := h 0; obtain ⟨a1, e1, t1⟩ := h 1; obtain ⟨a2, e2, t2⟩ := h 2
  obtain ⟨a3, e3, t3⟩ := h 3; obtain ⟨a4, e4, t4⟩ := h 4
  unfold Gen.maxP
  simp only [Prog.runPure, e0, e1, e2, e3, e4]
  cases a0 <;> cases a1 <;>
    simp_all [IsReal, IsStr, Val.hasValue, Val.withDbl, Val.withStr, Prog.runPure] <;>
    (repeat' split) <;> simp_all [Prog.runPure]

theorem nothrow_mod : NoThrow (fun _ v => IsReal v) (Gen.modP : Prog F (Val F)) := by
  intro argv par vars h
  obtain ⟨a0, e0, t0⟩ := h 0; obtain ⟨a1, e1, t1⟩ := h 1; obtain ⟨a2, e2, t2⟩ := h 2
  obtain ⟨a3, e3, t3⟩ := h 3; obtain ⟨a4, e4, t4⟩ := h 4
  unfold Gen.modP
  simp only [Prog.runPure, e0, e1, e2, e3, e4]
  cases a0 <;> cases a1 <;>
    simp_all [IsReal, IsStr, Val.hasValue, Val.withDbl, Val.withStr, Prog.runPure] <;>
    (repeat' split) <;> simp_all [Prog.runPure]

theorem nothrow_mul : NoThrow (fun _ v => IsReal v) (Gen.mulP : Prog F (Val F)) := by
  intro argv par vars h
  obtain ⟨a0, e0, t0⟩ := h 0; obtain ⟨a1, e1, t1⟩ := h 1; obtain ⟨a2, e2, t2⟩ := h 2
  obtain ⟨a3, e3, t3⟩ := h 3; obtain ⟨a4, e4, t4⟩ := h 4
  unfold Gen.mulP
  simp only [Prog.runPure, e0, e1, e2, e3, e4]
  cases a0 <;> cases a1 <;>
    simp_all [IsReal, IsStr, Val.hasValue, Val.withDbl, Val.withStr, Prog.runPure] <;>
    (repeat' split) <;> simp_all [Prog.runPure]

theorem nothrow_sin : NoThrow (fun _ v => IsReal v) (Gen.sinP : Prog F (Val F)) := by
  intro argv par vars h
  obtain ⟨a0, e0, t0⟩ := h 0; obtain ⟨a1, e1, t1⟩ := h 1; obtain ⟨a2, e2, t2⟩ := h 2
  obtain ⟨a3, e3, t3⟩ := h 3; obtain ⟨a4, e4, t4⟩ := h 4
  unfold Gen.sinP
  simp only [Prog.runPure, e0, e1, e2, e3, e4]
  cases a0 <;>
    simp_all [IsReal, IsStr, Val.hasValue, Val.withDbl, Val.withStr, Prog.runPure] <;>
    (repeat' split) <;> simp_all [Prog.runPure]

theorem nothrow_sqrt : NoThrow (fun _ v => IsReal v) (Gen.sqrtP : Prog F (Val F)) := by
  intro argv par vars h
  obtain ⟨a0, e0, t0⟩ := h 0; obtain ⟨a1, e1, t1⟩ := h 1; obtain ⟨a2, e2, t2⟩ := h 2
  obtain ⟨a3, e3, t3⟩ := h 3; obtain ⟨a4, e4, t4⟩ := h 4
  unfold Gen.sqrtP
  simp only [Prog.runPure, e0, e1, e2, e3, e4]
  cases a0 <;>
    simp_all [IsReal, IsStr, Val.hasValue, Val.withDbl, Val.withStr, Prog.runPure] <;>
    (repeat' split) <;> simp_all [Prog.runPure]

theorem nothrow_sub : NoThrow (fun _ v => IsReal v) (Gen.subP : Prog F (Val F)) := by
  intro argv par vars h
  obtain ⟨a0, e0, t0⟩ := h 0; obtain ⟨a1, e1, t1⟩ := h 1; obtain ⟨a2, e2, t2⟩ := h 2
  obtain ⟨a3, e3, t3⟩ := h 3; obtain ⟨a4, e4, t4⟩ := h 4
  unfold Gen.subP
  simp only [Prog.runPure, e0, e1, e2, e3, e4]
  cases a0 <;> cases a1 <;>
    simp_all [IsReal, IsStr, Val.hasValue, Val.withDbl, Val.withStr, Prog.runPure] <;>
    (repeat' split) <;> simp_all [Prog.runPure]

theorem nothrow_sigmoid : NoThrow (fun _ v => IsReal v) (Gen.sigmoidP : Prog F (Val F)) := by
  intro argv par vars h
  obtain ⟨a0, e0, t0⟩ := h 0; obtain ⟨a1, e1, t1⟩ := h 1; obtain ⟨a2, e2, t2⟩ := h 2
  obtain ⟨a3, e3, t3⟩ := h 3; obtain ⟨a4, e4, t4⟩ := h 4
  unfold Gen.sigmoidP
  simp only [Prog.runPure, e0, e1, e2, e3, e4]
  cases a0 <;>
    simp_all [IsReal, IsStr, Val.hasValue, Val.withDbl, Val.withStr, Prog.runPure] <;>
    (repeat' split) <;> simp_all [Prog.runPure]

theorem nothrow_sife : NoThrow (fun _ _ => True) (Gen.sifeP : Prog F (Val F)) := by
  intro argv par vars h
  obtain ⟨a0, e0, t0⟩ := h 0; obtain ⟨a1, e1, t1⟩ := h 1; obtain ⟨a2, e2, t2⟩ := h 2
  obtain ⟨a3, e3, t3⟩ := h 3; obtain ⟨a4, e4, t4⟩ := h 4
  unfold Gen.sifeP
  simp only [Prog.runPure, e0, e1, e2, e3, e4]
  cases a0 <;> cases a1 <;>
    simp_all [IsReal, IsStr, Val.hasValue, Val.withDbl, Val.withStr, Prog.runPure] <;>
    (repeat' split) <;> simp_all [Prog.runPure]

/-! ### non-vacuity: the laws have a model with overflow, and in it the guards bite -/

example : IEEELaws Toy := toy_laws

/-- in the toy model 2^40 · 2^40 overflows: `FMUL` answers the undefined value -/
example : (Gen.mulP : Prog Toy (Val Toy)).runPure (fun _ => some (.dbl (some 1099511627776))) none
    (fun _ => .void) = some .void := by decide

example : (Gen.mulP : Prog Toy (Val Toy)).runPure (fun _ => some (.dbl (some 3))) none
    (fun _ => .void) = some (.dbl (some 9)) := by decide

/-- the hypotheses of `closed_mul` are met by these arguments -/
example : ∀ i : Nat, GoodO ((fun _ => some (.dbl (some 1099511627776)) : Nat → Option (Val Toy)) i) := by
  intro i; simp [GoodO, Good, FloatOps.isFinite]

/-- `FIFE` at the boundary in the toy model (tolerance 0: only equal operands are "small") -/
example : (Gen.ifeP : Prog Toy (Val Toy)).asked
    (fun i => some (.dbl (some (if i = 0 then 5 else 6)))) none (fun _ => .void) = [0, 1, 3] := by decide

end Vita.C13
