/-
  C13 — real-valued primitives are closed over finite-or-undefined values.

  The terms `Gen.absP … Gen.sifeP` and `Gen.issmall` are regenerated from real.h, string.h and
  utility.h on every run.  For each shipped primitive `p`, over ANY number type `F` with the
  operations of `FloatOps`:
    * `closed_p`  : arguments finite-or-undefined  ⇒  result finite-or-undefined (never NaN / ±inf).
                    Guarded primitives need no IEEE law at all (the theorem is about the guard being
                    there); the others cite exactly the laws shown in their signature (`IEEELaws F`,
                    hypotheses – never axioms).
    * `strict_p`  : the result is undefined whenever an argument the body asks for is undefined.
    * `spec_p`    : on defined (double) arguments the result is the IEEE result of the named
                    operation (or undefined when the guard fires) – a complete functional description.
    * `cond_branch_p` : conditionals hand back exactly the documented argument (also at the
                    boundary of the tolerance, see `issmall_def`) and ask for no other branch.
    * `nothrow_p` : on arguments of the declared domain no exception leaves the body.
  `tree_closed` lifts closure to every expression tree built from closed bodies.
-/
import Vita.C13.Lemmas
import Vita.C13.Laws
import Vita.C13.GenExt
import Vita.C13.Programs
import Vita.C01.Lemmas

set_option linter.unusedSimpArgs false
set_option linter.unusedSectionVars false
set_option linter.unusedVariables false

namespace Vita.C13
open Vita FloatOps

variable {F : Type} [FloatOps F]

/-! ### the primitives shipped today are exactly the ones proved below -/

theorem ops_covered : Gen.names =
    ["real", "integer", "abs", "add", "aq", "cos", "div", "gt", "idiv", "ifb", "ife", "ifl", "ifz",
     "length", "ln", "lt", "max", "mod", "mul", "sin", "sqrt", "sub", "sigmoid", "sife"] ∧
    -- … and they are the classes of real.h / string.h in the class table extracted from the AST
    -- (`classes_covered` below enumerates every symbol class of every primitive header)
    (GenExt.classes.filter fun c => c.2.2.2 == "real.h" || c.2.2.2 == "string.h").map (·.1) =
    ["real::real", "real::integer", "real::abs", "real::add", "real::aq", "real::cos", "real::div", "real::gt",
     "real::idiv", "real::ifb", "real::ife", "real::ifl", "real::ifz", "real::length", "real::ln", "real::lt",
     "real::max", "real::mod", "real::mul", "real::sin", "real::sqrt", "real::sub", "real::sigmoid", "str::ife"] := by
  decide

/-- `issmall(v)` is `|v| < 2·ε`, strictly, with `2·ε` computed as the code computes it -/
theorem issmall_def (v : F) : Gen.issmall v = lt (fabs v) tol := by
  rfl

/-! ### closure -/

theorem closed_real : Closed (Gen.realP : Prog F (Val F)) := by
  intro argv par vars hg hp hv
  have h0 := hg 0; have h1 := hg 1; have h2 := hg 2; have h3 := hg 3; have h4 := hg 4
  unfold Gen.realP
  closed_steps

theorem closed_integer : Closed (Gen.integerP : Prog F (Val F)) := by
  intro argv par vars hg hp hv
  have h0 := hg 0; have h1 := hg 1; have h2 := hg 2; have h3 := hg 3; have h4 := hg 4
  unfold Gen.integerP
  closed_steps

theorem closed_abs (L : ArithLaws F) : Closed (Gen.absP : Prog F (Val F)) := by
  intro argv par vars hg hp hv
  have h0 := hg 0; have h1 := hg 1; have h2 := hg 2; have h3 := hg 3; have h4 := hg 4
  unfold Gen.absP
  closed_steps
  all_goals (apply L.fabs_fin <;> assumption)

theorem closed_add : Closed (Gen.addP : Prog F (Val F)) := by
  intro argv par vars hg hp hv
  have h0 := hg 0; have h1 := hg 1; have h2 := hg 2; have h3 := hg 3; have h4 := hg 4
  unfold Gen.addP
  closed_steps

theorem closed_aq : Closed (Gen.aqP : Prog F (Val F)) := by
  intro argv par vars hg hp hv
  have h0 := hg 0; have h1 := hg 1; have h2 := hg 2; have h3 := hg 3; have h4 := hg 4
  unfold Gen.aqP
  closed_steps

theorem closed_cos (L : ArithLaws F) : Closed (Gen.cosP : Prog F (Val F)) := by
  intro argv par vars hg hp hv
  have h0 := hg 0; have h1 := hg 1; have h2 := hg 2; have h3 := hg 3; have h4 := hg 4
  unfold Gen.cosP
  closed_steps
  all_goals (apply L.cos_fin <;> assumption)

theorem closed_div : Closed (Gen.divP : Prog F (Val F)) := by
  intro argv par vars hg hp hv
  have h0 := hg 0; have h1 := hg 1; have h2 := hg 2; have h3 := hg 3; have h4 := hg 4
  unfold Gen.divP
  closed_steps

theorem closed_gt : Closed (Gen.gtP : Prog F (Val F)) := by
  intro argv par vars hg hp hv
  have h0 := hg 0; have h1 := hg 1; have h2 := hg 2; have h3 := hg 3; have h4 := hg 4
  unfold Gen.gtP
  closed_steps

theorem closed_idiv : Closed (Gen.idivP : Prog F (Val F)) := by
  intro argv par vars hg hp hv
  have h0 := hg 0; have h1 := hg 1; have h2 := hg 2; have h3 := hg 3; have h4 := hg 4
  unfold Gen.idivP
  closed_steps

theorem closed_ifb : Closed (Gen.ifbP : Prog F (Val F)) := by
  intro argv par vars hg hp hv
  have h0 := hg 0; have h1 := hg 1; have h2 := hg 2; have h3 := hg 3; have h4 := hg 4
  unfold Gen.ifbP
  closed_steps

theorem closed_ife : Closed (Gen.ifeP : Prog F (Val F)) := by
  intro argv par vars hg hp hv
  have h0 := hg 0; have h1 := hg 1; have h2 := hg 2; have h3 := hg 3; have h4 := hg 4
  unfold Gen.ifeP
  closed_steps

theorem closed_ifl : Closed (Gen.iflP : Prog F (Val F)) := by
  intro argv par vars hg hp hv
  have h0 := hg 0; have h1 := hg 1; have h2 := hg 2; have h3 := hg 3; have h4 := hg 4
  unfold Gen.iflP
  closed_steps

theorem closed_ifz : Closed (Gen.ifzP : Prog F (Val F)) := by
  intro argv par vars hg hp hv
  have h0 := hg 0; have h1 := hg 1; have h2 := hg 2; have h3 := hg 3; have h4 := hg 4
  unfold Gen.ifzP
  closed_steps

theorem closed_length (S : SizeLaw F) : Closed (Gen.lengthP : Prog F (Val F)) := by
  intro argv par vars hg hp hv
  have h0 := hg 0; have h1 := hg 1; have h2 := hg 2; have h3 := hg 3; have h4 := hg 4
  unfold Gen.lengthP
  closed_steps
  all_goals (apply S <;> assumption)

theorem closed_ln : Closed (Gen.lnP : Prog F (Val F)) := by
  intro argv par vars hg hp hv
  have h0 := hg 0; have h1 := hg 1; have h2 := hg 2; have h3 := hg 3; have h4 := hg 4
  unfold Gen.lnP
  closed_steps

theorem closed_lt : Closed (Gen.ltP : Prog F (Val F)) := by
  intro argv par vars hg hp hv
  have h0 := hg 0; have h1 := hg 1; have h2 := hg 2; have h3 := hg 3; have h4 := hg 4
  unfold Gen.ltP
  closed_steps

theorem closed_max : Closed (Gen.maxP : Prog F (Val F)) := by
  intro argv par vars hg hp hv
  have h0 := hg 0; have h1 := hg 1; have h2 := hg 2; have h3 := hg 3; have h4 := hg 4
  unfold Gen.maxP
  closed_steps

theorem closed_mod : Closed (Gen.modP : Prog F (Val F)) := by
  intro argv par vars hg hp hv
  have h0 := hg 0; have h1 := hg 1; have h2 := hg 2; have h3 := hg 3; have h4 := hg 4
  unfold Gen.modP
  closed_steps

theorem closed_mul : Closed (Gen.mulP : Prog F (Val F)) := by
  intro argv par vars hg hp hv
  have h0 := hg 0; have h1 := hg 1; have h2 := hg 2; have h3 := hg 3; have h4 := hg 4
  unfold Gen.mulP
  closed_steps

theorem closed_sin (L : ArithLaws F) : Closed (Gen.sinP : Prog F (Val F)) := by
  intro argv par vars hg hp hv
  have h0 := hg 0; have h1 := hg 1; have h2 := hg 2; have h3 := hg 3; have h4 := hg 4
  unfold Gen.sinP
  closed_steps
  all_goals (apply L.sin_fin <;> assumption)

theorem closed_sqrt (L : ArithLaws F) : Closed (Gen.sqrtP : Prog F (Val F)) := by
  intro argv par vars hg hp hv
  have h0 := hg 0; have h1 := hg 1; have h2 := hg 2; have h3 := hg 3; have h4 := hg 4
  unfold Gen.sqrtP
  closed_steps
  all_goals (apply L.sqrt_fin <;> assumption)

theorem closed_sub : Closed (Gen.subP : Prog F (Val F)) := by
  intro argv par vars hg hp hv
  have h0 := hg 0; have h1 := hg 1; have h2 := hg 2; have h3 := hg 3; have h4 := hg 4
  unfold Gen.subP
  closed_steps

theorem closed_sife : Closed (Gen.sifeP : Prog F (Val F)) := by
  intro argv par vars hg hp hv
  have h0 := hg 0; have h1 := hg 1; have h2 := hg 2; have h3 := hg 3; have h4 := hg 4
  unfold Gen.sifeP
  closed_steps

/-- the sigmoid is finite because `exp` of a non-positive number lies in [0,1] -/
theorem closed_sigmoid (L : ArithLaws F) : Closed (Gen.sigmoidP : Prog F (Val F)) := by
  intro argv par vars hg hp hv
  have h0 := hg 0
  unfold Gen.sigmoidP
  simp only [Prog.runPure]
  cases h : argv 0 with
  | none => trivial
  | some v =>
    rw [h] at h0
    cases v with
    | dbl x =>
      have hfin : isFinite x = true := h0
      simp only [Val.hasValue, Val.withDbl, Bool.not_true, Bool.false_eq_true, if_false]
      by_cases hx : le (zero : F) x = true
      · -- x ≥ 0 :  1 / (1 + exp (-x))
        rw [if_pos hx]
        have hn := L.neg_nonpos x hx
        have he := L.exp_unit (neg x) (L.neg_fin x hfin) hn
        have ha := L.one_add_unit (exp (neg x)) he.1 he.2
        exact L.div_ge_one_fin _ _ L.one_fin ha.1 ha.2
      · -- x < 0 :  exp x / (1 + exp x)
        rw [if_neg hx]
        have hx' : le (zero : F) x = false := by simpa using hx
        have hle := L.le_total_zero x hfin hx'
        have he := L.exp_unit x hfin hle
        have ha := L.one_add_unit (exp x) he.1 he.2
        exact L.div_ge_one_fin _ _ (L.unit_fin _ he.1 he.2) ha.1 ha.2
    | void => simp [Val.hasValue, Prog.runPure, GoodO, Good]
    | int n => simp [Val.hasValue, Val.withDbl, Prog.runPure, GoodO]
    | str s => simp [Val.hasValue, Val.withDbl, Prog.runPure, GoodO]

/-- every shipped real-valued primitive (and `str::ife`) is closed -/
theorem prims_closed (L : ArithLaws F) (S : SizeLaw F) :
    ∀ p ∈ (Gen.prims : List (String × Prog F (Val F))), Closed p.2 := by
  intro p hp
  simp only [Gen.prims, List.mem_cons, List.not_mem_nil, or_false] at hp
  rcases hp with rfl | rfl | rfl | rfl | rfl | rfl | rfl | rfl | rfl | rfl | rfl | rfl | rfl | rfl | rfl | rfl | rfl | rfl | rfl | rfl | rfl | rfl | rfl | rfl

  · exact closed_real
  · exact closed_integer
  · exact closed_abs L
  · exact closed_add
  · exact closed_aq
  · exact closed_cos L
  · exact closed_div
  · exact closed_gt
  · exact closed_idiv
  · exact closed_ifb
  · exact closed_ife
  · exact closed_ifl
  · exact closed_ifz
  · exact closed_length S
  · exact closed_ln
  · exact closed_lt
  · exact closed_max
  · exact closed_mod
  · exact closed_mul
  · exact closed_sin L
  · exact closed_sqrt L
  · exact closed_sub
  · exact closed_sigmoid L
  · exact closed_sife

/-- the same, from the law structure of Common/FloatOps.lean -/
theorem prims_closed_ieee (L : IEEELaws F) :
    ∀ p ∈ (Gen.prims : List (String × Prog F (Val F))), Closed p.2 :=
  prims_closed (ieee_iff.mp L).1 (ieee_iff.mp L).2

/-- hence every expression tree over closed bodies with finite constants, evaluated on
    finite-or-undefined inputs, yields a finite number or the undefined value -/
theorem tree_closed (vars : Nat → Val F) (hv : ∀ i, Good (vars i)) :
    ∀ t : Tree F (Val F), t.All (fun b par => Closed b ∧ isFinite par = true) → GoodO (t.eval vars) := by
  intro t
  induction t with
  | nil => intro _; trivial
  | node body par kids ih =>
    intro h
    simp only [Tree.eval]
    exact h.1.1 _ par vars (fun i => ih i (h.2 i)) h.1.2 hv

/-- … and so does vita's interpreter on every well-formed program whose genes carry closed bodies
    (e.g. any of `Gen.prims`, variables, finite constants) and finite parameters, run on a
    finite-or-undefined example from ANY interpreter state (by C01's `interp_eq_denote`) -/
theorem run_closed (g : C01.Genome F) (h : C01.WF g)
    (hg : ∀ l, Closed (g.gene l).body ∧ isFinite (g.gene l).par = true)
    (ex : List (Val F)) (hex : ∀ v ∈ ex, Good v) (s : C01.St F) :
    GoodO (C01.run g ex s).1 := by
  rw [C01.run_eq_denote g h s ex]
  show GoodO (C01.denoteF g ex _ _)
  rw [C01.denoteF_eq_unfold]
  apply tree_closed
  · intro i
    unfold C01.varOf
    by_cases hi : i < ex.length
    · have : ex.getD i Val.void = ex[i] := by simp [List.getD, hi]
      rw [this]; exact hex _ (List.getElem_mem hi)
    · have : ex.getD i Val.void = Val.void := by
        have h2 : ex.length ≤ i := by omega
        simp [List.getD, List.getElem?_eq_none h2]
      rw [this]; trivial
  · generalize g.rows - g.best.index = f
    generalize g.best = l
    induction f generalizing l with
    | zero => trivial
    | succ f ih =>
      simp only [C01.unfold, Tree.All]
      refine ⟨hg l, fun i => ?_⟩
      split
      · exact ih _
      · trivial

/-! ### strictness -/

theorem strict_real : Strict (Gen.realP : Prog F (Val F)) := by
  apply strict_of_syn; unfold Gen.realP; strict_syn

theorem strict_integer : Strict (Gen.integerP : Prog F (Val F)) := by
  apply strict_of_syn; unfold Gen.integerP; strict_syn

theorem strict_abs : Strict (Gen.absP : Prog F (Val F)) := by
  apply strict_of_syn; unfold Gen.absP; strict_syn

theorem strict_add : Strict (Gen.addP : Prog F (Val F)) := by
  apply strict_of_syn; unfold Gen.addP; strict_syn

theorem strict_aq : Strict (Gen.aqP : Prog F (Val F)) := by
  apply strict_of_syn; unfold Gen.aqP; strict_syn

theorem strict_cos : Strict (Gen.cosP : Prog F (Val F)) := by
  apply strict_of_syn; unfold Gen.cosP; strict_syn

theorem strict_div : Strict (Gen.divP : Prog F (Val F)) := by
  apply strict_of_syn; unfold Gen.divP; strict_syn

theorem strict_gt : Strict (Gen.gtP : Prog F (Val F)) := by
  apply strict_of_syn; unfold Gen.gtP; strict_syn

theorem strict_idiv : Strict (Gen.idivP : Prog F (Val F)) := by
  apply strict_of_syn; unfold Gen.idivP; strict_syn

theorem strict_ifb : Strict (Gen.ifbP : Prog F (Val F)) := by
  apply strict_of_syn; unfold Gen.ifbP; strict_syn

theorem strict_ife : Strict (Gen.ifeP : Prog F (Val F)) := by
  apply strict_of_syn; unfold Gen.ifeP; strict_syn

theorem strict_ifl : Strict (Gen.iflP : Prog F (Val F)) := by
  apply strict_of_syn; unfold Gen.iflP; strict_syn

theorem strict_ifz : Strict (Gen.ifzP : Prog F (Val F)) := by
  apply strict_of_syn; unfold Gen.ifzP; strict_syn

theorem strict_length : Strict (Gen.lengthP : Prog F (Val F)) := by
  apply strict_of_syn; unfold Gen.lengthP; strict_syn

theorem strict_ln : Strict (Gen.lnP : Prog F (Val F)) := by
  apply strict_of_syn; unfold Gen.lnP; strict_syn

theorem strict_lt : Strict (Gen.ltP : Prog F (Val F)) := by
  apply strict_of_syn; unfold Gen.ltP; strict_syn

theorem strict_max : Strict (Gen.maxP : Prog F (Val F)) := by
  apply strict_of_syn; unfold Gen.maxP; strict_syn

theorem strict_mod : Strict (Gen.modP : Prog F (Val F)) := by
  apply strict_of_syn; unfold Gen.modP; strict_syn

theorem strict_mul : Strict (Gen.mulP : Prog F (Val F)) := by
  apply strict_of_syn; unfold Gen.mulP; strict_syn

theorem strict_sin : Strict (Gen.sinP : Prog F (Val F)) := by
  apply strict_of_syn; unfold Gen.sinP; strict_syn

theorem strict_sqrt : Strict (Gen.sqrtP : Prog F (Val F)) := by
  apply strict_of_syn; unfold Gen.sqrtP; strict_syn

theorem strict_sub : Strict (Gen.subP : Prog F (Val F)) := by
  apply strict_of_syn; unfold Gen.subP; strict_syn

theorem strict_sigmoid : Strict (Gen.sigmoidP : Prog F (Val F)) := by
  apply strict_of_syn; unfold Gen.sigmoidP; strict_syn

theorem strict_sife : Strict (Gen.sifeP : Prog F (Val F)) := by
  apply strict_of_syn; unfold Gen.sifeP; strict_syn

/-! ### functional specification on defined arguments -/

theorem spec_real (argv : Nat → Option (Val F)) (par : F) (vars : Nat → Val F) :
    (Gen.realP : Prog F (Val F)).runPure argv par vars = some (.dbl par) := by
  rfl

theorem spec_integer (argv : Nat → Option (Val F)) (par : F) (vars : Nat → Val F) :
    (Gen.integerP : Prog F (Val F)).runPure argv par vars = some (.dbl par) := by
  rfl

theorem spec_abs (argv : Nat → Option (Val F)) (par : F) (vars : Nat → Val F) (x : F)
    (h0 : argv 0 = some (.dbl x)) :
    (Gen.absP : Prog F (Val F)).runPure argv par vars = some (.dbl (fabs x)) := by
  unfold Gen.absP; spec_step

theorem spec_cos (argv : Nat → Option (Val F)) (par : F) (vars : Nat → Val F) (x : F)
    (h0 : argv 0 = some (.dbl x)) :
    (Gen.cosP : Prog F (Val F)).runPure argv par vars = some (.dbl (cos x)) := by
  unfold Gen.cosP; spec_step

theorem spec_sin (argv : Nat → Option (Val F)) (par : F) (vars : Nat → Val F) (x : F)
    (h0 : argv 0 = some (.dbl x)) :
    (Gen.sinP : Prog F (Val F)).runPure argv par vars = some (.dbl (sin x)) := by
  unfold Gen.sinP; spec_step

theorem spec_add (argv : Nat → Option (Val F)) (par : F) (vars : Nat → Val F) (x y : F)
    (h0 : argv 0 = some (.dbl x)) (h1 : argv 1 = some (.dbl y)) :
    (Gen.addP : Prog F (Val F)).runPure argv par vars =
      some (if isFinite (add x y) = true then .dbl (add x y) else .void) := by
  unfold Gen.addP; spec_step
  split <;> simp_all [Prog.runPure]

theorem spec_sub (argv : Nat → Option (Val F)) (par : F) (vars : Nat → Val F) (x y : F)
    (h0 : argv 0 = some (.dbl x)) (h1 : argv 1 = some (.dbl y)) :
    (Gen.subP : Prog F (Val F)).runPure argv par vars =
      some (if isFinite (sub x y) = true then .dbl (sub x y) else .void) := by
  unfold Gen.subP; spec_step
  split <;> simp_all [Prog.runPure]

theorem spec_mul (argv : Nat → Option (Val F)) (par : F) (vars : Nat → Val F) (x y : F)
    (h0 : argv 0 = some (.dbl x)) (h1 : argv 1 = some (.dbl y)) :
    (Gen.mulP : Prog F (Val F)).runPure argv par vars =
      some (if isFinite (mul x y) = true then .dbl (mul x y) else .void) := by
  unfold Gen.mulP; spec_step
  split <;> simp_all [Prog.runPure]

theorem spec_div (argv : Nat → Option (Val F)) (par : F) (vars : Nat → Val F) (x y : F)
    (h0 : argv 0 = some (.dbl x)) (h1 : argv 1 = some (.dbl y)) :
    (Gen.divP : Prog F (Val F)).runPure argv par vars =
      some (if isFinite (div x y) = true then .dbl (div x y) else .void) := by
  unfold Gen.divP; spec_step
  split <;> simp_all [Prog.runPure]

theorem spec_idiv (argv : Nat → Option (Val F)) (par : F) (vars : Nat → Val F) (x y : F)
    (h0 : argv 0 = some (.dbl x)) (h1 : argv 1 = some (.dbl y)) :
    (Gen.idivP : Prog F (Val F)).runPure argv par vars =
      some (if isFinite (floor (div x y)) = true then .dbl (floor (div x y)) else .void) := by
  unfold Gen.idivP; spec_step
  split <;> simp_all [Prog.runPure]

theorem spec_mod (argv : Nat → Option (Val F)) (par : F) (vars : Nat → Val F) (x y : F)
    (h0 : argv 0 = some (.dbl x)) (h1 : argv 1 = some (.dbl y)) :
    (Gen.modP : Prog F (Val F)).runPure argv par vars =
      some (if isFinite (fmod x y) = true then .dbl (fmod x y) else .void) := by
  unfold Gen.modP; spec_step
  split <;> simp_all [Prog.runPure]

theorem spec_max (argv : Nat → Option (Val F)) (par : F) (vars : Nat → Val F) (x y : F)
    (h0 : argv 0 = some (.dbl x)) (h1 : argv 1 = some (.dbl y)) :
    (Gen.maxP : Prog F (Val F)).runPure argv par vars =
      some (if isFinite (fmax x y) = true then .dbl (fmax x y) else .void) := by
  unfold Gen.maxP; spec_step
  split <;> simp_all [Prog.runPure]

theorem spec_aq (argv : Nat → Option (Val F)) (par : F) (vars : Nat → Val F) (x y : F)
    (h0 : argv 0 = some (.dbl x)) (h1 : argv 1 = some (.dbl y)) :
    (Gen.aqP : Prog F (Val F)).runPure argv par vars =
      some (if isFinite (div x (sqrt (add one (mul y y)))) = true then .dbl (div x (sqrt (add one (mul y y)))) else .void) := by
  unfold Gen.aqP; spec_step
  split <;> simp_all [Prog.runPure]

theorem spec_ln (argv : Nat → Option (Val F)) (par : F) (vars : Nat → Val F) (x : F)
    (h0 : argv 0 = some (.dbl x)) :
    (Gen.lnP : Prog F (Val F)).runPure argv par vars =
      some (if isFinite (log x) = true then .dbl (log x) else .void) := by
  unfold Gen.lnP; spec_step
  split <;> simp_all [Prog.runPure]

theorem spec_sqrt (argv : Nat → Option (Val F)) (par : F) (vars : Nat → Val F) (x : F)
    (h0 : argv 0 = some (.dbl x)) :
    (Gen.sqrtP : Prog F (Val F)).runPure argv par vars =
      some (if lt x zero = true then .void else .dbl (sqrt x)) := by
  unfold Gen.sqrtP; spec_step
  split <;> simp_all [Prog.runPure]

theorem spec_sigmoid (argv : Nat → Option (Val F)) (par : F) (vars : Nat → Val F) (x : F)
    (h0 : argv 0 = some (.dbl x)) :
    (Gen.sigmoidP : Prog F (Val F)).runPure argv par vars =
      some (.dbl (if le zero x = true then div one (add one (exp (neg x)))
                  else div (exp x) (add one (exp x)))) := by
  unfold Gen.sigmoidP; spec_step
  split <;> simp_all [Prog.runPure]

theorem spec_gt (argv : Nat → Option (Val F)) (par : F) (vars : Nat → Val F) (x y : F)
    (h0 : argv 0 = some (.dbl x)) (h1 : argv 1 = some (.dbl y)) :
    (Gen.gtP : Prog F (Val F)).runPure argv par vars = some (.ofBool (lt y x)) := by
  unfold Gen.gtP; spec_step

theorem spec_lt (argv : Nat → Option (Val F)) (par : F) (vars : Nat → Val F) (x y : F)
    (h0 : argv 0 = some (.dbl x)) (h1 : argv 1 = some (.dbl y)) :
    (Gen.ltP : Prog F (Val F)).runPure argv par vars = some (.ofBool (lt x y)) := by
  unfold Gen.ltP; spec_step

theorem spec_length (argv : Nat → Option (Val F)) (par : F) (vars : Nat → Val F) (s : String)
    (h0 : argv 0 = some (.str s)) :
    (Gen.lengthP : Prog F (Val F)).runPure argv par vars = some (.dbl (ofNat s.utf8ByteSize)) := by
  unfold Gen.lengthP; spec_step

/-! ### conditionals: the documented branch, and only that branch is asked for -/

theorem cond_branch_ife (argv : Nat → Option (Val F)) (par : F) (vars : Nat → Val F) (x y : F)
    (h0 : argv 0 = some (.dbl x)) (h1 : argv 1 = some (.dbl y)) :
    (Gen.ifeP : Prog F (Val F)).runPure argv par vars =
      (if lt (fabs (sub x y)) tol = true then argv 2 else argv 3) ∧
    (Gen.ifeP : Prog F (Val F)).asked argv par vars =
      (if lt (fabs (sub x y)) tol = true then [0, 1, 2] else [0, 1, 3]) := by
  unfold Gen.ifeP Gen.issmall tol; spec_step
  constructor <;> split <;> spec_step <;> split <;> simp_all [Prog.runPure, Prog.asked]

theorem cond_branch_ifz (argv : Nat → Option (Val F)) (par : F) (vars : Nat → Val F) (x : F)
    (h0 : argv 0 = some (.dbl x)) :
    (Gen.ifzP : Prog F (Val F)).runPure argv par vars =
      (if lt (fabs x) tol = true then argv 1 else argv 2) ∧
    (Gen.ifzP : Prog F (Val F)).asked argv par vars =
      (if lt (fabs x) tol = true then [0, 1] else [0, 2]) := by
  unfold Gen.ifzP Gen.issmall tol; spec_step
  constructor <;> split <;> spec_step <;> split <;> simp_all [Prog.runPure, Prog.asked]

theorem cond_branch_ifl (argv : Nat → Option (Val F)) (par : F) (vars : Nat → Val F) (x y : F)
    (h0 : argv 0 = some (.dbl x)) (h1 : argv 1 = some (.dbl y)) :
    (Gen.iflP : Prog F (Val F)).runPure argv par vars =
      (if lt x y = true then argv 2 else argv 3) ∧
    (Gen.iflP : Prog F (Val F)).asked argv par vars =
      (if lt x y = true then [0, 1, 2] else [0, 1, 3]) := by
  unfold Gen.iflP; spec_step
  constructor <;> split <;> spec_step <;> split <;> simp_all [Prog.runPure, Prog.asked]

theorem cond_branch_ifb (argv : Nat → Option (Val F)) (par : F) (vars : Nat → Val F) (x y z : F)
    (h0 : argv 0 = some (.dbl x)) (h1 : argv 1 = some (.dbl y)) (h2 : argv 2 = some (.dbl z)) :
    (Gen.ifbP : Prog F (Val F)).runPure argv par vars =
      (if (lt x (fmin y z) || lt (fmax y z) x) = true then argv 4 else argv 3) ∧
    (Gen.ifbP : Prog F (Val F)).asked argv par vars =
      (if (lt x (fmin y z) || lt (fmax y z) x) = true then [0, 1, 2, 4] else [0, 1, 2, 3]) := by
  unfold Gen.ifbP; spec_step
  constructor <;> split <;> spec_step <;> split <;> simp_all [Prog.runPure, Prog.asked]

theorem cond_branch_sife (argv : Nat → Option (Val F)) (par : F) (vars : Nat → Val F) (a b : Val F)
    (h0 : argv 0 = some a) (h1 : argv 1 = some b) (ha : a.hasValue = true) (hb : b.hasValue = true) :
    (Gen.sifeP : Prog F (Val F)).runPure argv par vars =
      (if Val.eqv a b = true then argv 2 else argv 3) ∧
    (Gen.sifeP : Prog F (Val F)).asked argv par vars =
      (if Val.eqv a b = true then [0, 1, 2] else [0, 1, 3]) := by
  unfold Gen.sifeP
  simp only [Prog.runPure, Prog.asked, h0, h1, ha, hb, Bool.not_true, Bool.false_eq_true, if_false]
  constructor <;> split <;> simp only [Prog.runPure, Prog.asked] <;> split <;> simp_all [Prog.runPure, Prog.asked]

/-! ### no exception on arguments of the declared domain -/

theorem nothrow_real : NoThrow (fun _ v => IsReal v) (Gen.realP : Prog F (Val F)) := by
  intro argv par vars h
  obtain ⟨a0, e0, t0⟩ := h 0; obtain ⟨a1, e1, t1⟩ := h 1; obtain ⟨a2, e2, t2⟩ := h 2
  obtain ⟨a3, e3, t3⟩ := h 3; obtain ⟨a4, e4, t4⟩ := h 4
  unfold Gen.realP
  simp only [Prog.runPure, e0, e1, e2, e3, e4]
  cases a0 <;>
    simp_all [IsReal, IsStr, Val.hasValue, Val.withDbl, Val.withStr, Prog.runPure] <;>
    (repeat' split) <;> simp_all [Prog.runPure]

theorem nothrow_integer : NoThrow (fun _ v => IsReal v) (Gen.integerP : Prog F (Val F)) := by
  intro argv par vars h
  obtain ⟨a0, e0, t0⟩ := h 0; obtain ⟨a1, e1, t1⟩ := h 1; obtain ⟨a2, e2, t2⟩ := h 2
  obtain ⟨a3, e3, t3⟩ := h 3; obtain ⟨a4, e4, t4⟩ := h 4
  unfold Gen.integerP
  simp only [Prog.runPure, e0, e1, e2, e3, e4]
  cases a0 <;>
    simp_all [IsReal, IsStr, Val.hasValue, Val.withDbl, Val.withStr, Prog.runPure] <;>
    (repeat' split) <;> simp_all [Prog.runPure]

theorem nothrow_abs : NoThrow (fun _ v => IsReal v) (Gen.absP : Prog F (Val F)) := by
  intro argv par vars h
  obtain ⟨a0, e0, t0⟩ := h 0; obtain ⟨a1, e1, t1⟩ := h 1; obtain ⟨a2, e2, t2⟩ := h 2
  obtain ⟨a3, e3, t3⟩ := h 3; obtain ⟨a4, e4, t4⟩ := h 4
  unfold Gen.absP
  simp only [Prog.runPure, e0, e1, e2, e3, e4]
  cases a0 <;>
    simp_all [IsReal, IsStr, Val.hasValue, Val.withDbl, Val.withStr, Prog.runPure] <;>
    (repeat' split) <;> simp_all [Prog.runPure]

theorem nothrow_add : NoThrow (fun _ v => IsReal v) (Gen.addP : Prog F (Val F)) := by
  intro argv par vars h
  obtain ⟨a0, e0, t0⟩ := h 0; obtain ⟨a1, e1, t1⟩ := h 1; obtain ⟨a2, e2, t2⟩ := h 2
  obtain ⟨a3, e3, t3⟩ := h 3; obtain ⟨a4, e4, t4⟩ := h 4
  unfold Gen.addP
  simp only [Prog.runPure, e0, e1, e2, e3, e4]
  cases a0 <;> cases a1 <;>
    simp_all [IsReal, IsStr, Val.hasValue, Val.withDbl, Val.withStr, Prog.runPure] <;>
    (repeat' split) <;> simp_all [Prog.runPure]

theorem nothrow_aq : NoThrow (fun _ v => IsReal v) (Gen.aqP : Prog F (Val F)) := by
  intro argv par vars h
  obtain ⟨a0, e0, t0⟩ := h 0; obtain ⟨a1, e1, t1⟩ := h 1; obtain ⟨a2, e2, t2⟩ := h 2
  obtain ⟨a3, e3, t3⟩ := h 3; obtain ⟨a4, e4, t4⟩ := h 4
  unfold Gen.aqP
  simp only [Prog.runPure, e0, e1, e2, e3, e4]
  cases a0 <;> cases a1 <;>
    simp_all [IsReal, IsStr, Val.hasValue, Val.withDbl, Val.withStr, Prog.runPure] <;>
    (repeat' split) <;> simp_all [Prog.runPure]

theorem nothrow_cos : NoThrow (fun _ v => IsReal v) (Gen.cosP : Prog F (Val F)) := by
  intro argv par vars h
  obtain ⟨a0, e0, t0⟩ := h 0; obtain ⟨a1, e1, t1⟩ := h 1; obtain ⟨a2, e2, t2⟩ := h 2
  obtain ⟨a3, e3, t3⟩ := h 3; obtain ⟨a4, e4, t4⟩ := h 4
  unfold Gen.cosP
  simp only [Prog.runPure, e0, e1, e2, e3, e4]
  cases a0 <;>
    simp_all [IsReal, IsStr, Val.hasValue, Val.withDbl, Val.withStr, Prog.runPure] <;>
    (repeat' split) <;> simp_all [Prog.runPure]

theorem nothrow_div : NoThrow (fun _ v => IsReal v) (Gen.divP : Prog F (Val F)) := by
  intro argv par vars h
  obtain ⟨a0, e0, t0⟩ := h 0; obtain ⟨a1, e1, t1⟩ := h 1; obtain ⟨a2, e2, t2⟩ := h 2
  obtain ⟨a3, e3, t3⟩ := h 3; obtain ⟨a4, e4, t4⟩ := h 4
  unfold Gen.divP
  simp only [Prog.runPure, e0, e1, e2, e3, e4]
  cases a0 <;> cases a1 <;>
    simp_all [IsReal, IsStr, Val.hasValue, Val.withDbl, Val.withStr, Prog.runPure] <;>
    (repeat' split) <;> simp_all [Prog.runPure]

theorem nothrow_gt : NoThrow (fun _ v => IsReal v) (Gen.gtP : Prog F (Val F)) := by
  intro argv par vars h
  obtain ⟨a0, e0, t0⟩ := h 0; obtain ⟨a1, e1, t1⟩ := h 1; obtain ⟨a2, e2, t2⟩ := h 2
  obtain ⟨a3, e3, t3⟩ := h 3; obtain ⟨a4, e4, t4⟩ := h 4
  unfold Gen.gtP
  simp only [Prog.runPure, e0, e1, e2, e3, e4]
  cases a0 <;> cases a1 <;>
    simp_all [IsReal, IsStr, Val.hasValue, Val.withDbl, Val.withStr, Prog.runPure] <;>
    (repeat' split) <;> simp_all [Prog.runPure]

theorem nothrow_idiv : NoThrow (fun _ v => IsReal v) (Gen.idivP : Prog F (Val F)) := by
  intro argv par vars h
  obtain ⟨a0, e0, t0⟩ := h 0; obtain ⟨a1, e1, t1⟩ := h 1; obtain ⟨a2, e2, t2⟩ := h 2
  obtain ⟨a3, e3, t3⟩ := h 3; obtain ⟨a4, e4, t4⟩ := h 4
  unfold Gen.idivP
  simp only [Prog.runPure, e0, e1, e2, e3, e4]
  cases a0 <;> cases a1 <;>
    simp_all [IsReal, IsStr, Val.hasValue, Val.withDbl, Val.withStr, Prog.runPure] <;>
    (repeat' split) <;> simp_all [Prog.runPure]

theorem nothrow_ifb : NoThrow (fun i v => i < 3 → IsReal v) (Gen.ifbP : Prog F (Val F)) := by
  intro argv par vars h
  obtain ⟨a0, e0, t0⟩ := h 0; obtain ⟨a1, e1, t1⟩ := h 1; obtain ⟨a2, e2, t2⟩ := h 2
  obtain ⟨a3, e3, t3⟩ := h 3; obtain ⟨a4, e4, t4⟩ := h 4
  unfold Gen.ifbP
  simp only [Prog.runPure, e0, e1, e2, e3, e4]
  cases a0 <;> cases a1 <;> cases a2 <;>
    simp_all [IsReal, IsStr, Val.hasValue, Val.withDbl, Val.withStr, Prog.runPure] <;>
    (repeat' split) <;> simp_all [Prog.runPure]

theorem nothrow_ife : NoThrow (fun i v => i < 2 → IsReal v) (Gen.ifeP : Prog F (Val F)) := by
  intro argv par vars h
  obtain ⟨a0, e0, t0⟩ := h 0; obtain ⟨a1, e1, t1⟩ := h 1; obtain ⟨a2, e2, t2⟩ := h 2
  obtain ⟨a3, e3, t3⟩ := h 3; obtain ⟨a4, e4, t4⟩ := h 4
  unfold Gen.ifeP
  simp only [Prog.runPure, e0, e1, e2, e3, e4]
  cases a0 <;> cases a1 <;>
    simp_all [IsReal, IsStr, Val.hasValue, Val.withDbl, Val.withStr, Prog.runPure] <;>
    (repeat' split) <;> simp_all [Prog.runPure]

theorem nothrow_ifl : NoThrow (fun i v => i < 2 → IsReal v) (Gen.iflP : Prog F (Val F)) := by
  intro argv par vars h
  obtain ⟨a0, e0, t0⟩ := h 0; obtain ⟨a1, e1, t1⟩ := h 1; obtain ⟨a2, e2, t2⟩ := h 2
  obtain ⟨a3, e3, t3⟩ := h 3; obtain ⟨a4, e4, t4⟩ := h 4
  unfold Gen.iflP
  simp only [Prog.runPure, e0, e1, e2, e3, e4]
  cases a0 <;> cases a1 <;>
    simp_all [IsReal, IsStr, Val.hasValue, Val.withDbl, Val.withStr, Prog.runPure] <;>
    (repeat' split) <;> simp_all [Prog.runPure]

theorem nothrow_ifz : NoThrow (fun i v => i < 1 → IsReal v) (Gen.ifzP : Prog F (Val F)) := by
  intro argv par vars h
  obtain ⟨a0, e0, t0⟩ := h 0; obtain ⟨a1, e1, t1⟩ := h 1; obtain ⟨a2, e2, t2⟩ := h 2
  obtain ⟨a3, e3, t3⟩ := h 3; obtain ⟨a4, e4, t4⟩ := h 4
  unfold Gen.ifzP
  simp only [Prog.runPure, e0, e1, e2, e3, e4]
  cases a0 <;>
    simp_all [IsReal, IsStr, Val.hasValue, Val.withDbl, Val.withStr, Prog.runPure] <;>
    (repeat' split) <;> simp_all [Prog.runPure]

theorem nothrow_length : NoThrow (fun _ v => IsStr v) (Gen.lengthP : Prog F (Val F)) := by
  intro argv par vars h
  obtain ⟨a0, e0, t0⟩ := h 0; obtain ⟨a1, e1, t1⟩ := h 1; obtain ⟨a2, e2, t2⟩ := h 2
  obtain ⟨a3, e3, t3⟩ := h 3; obtain ⟨a4, e4, t4⟩ := h 4
  unfold Gen.lengthP
  simp only [Prog.runPure, e0, e1, e2, e3, e4]
  cases a0 <;>
    simp_all [IsReal, IsStr, Val.hasValue, Val.withDbl, Val.withStr, Prog.runPure] <;>
    (repeat' split) <;> simp_all [Prog.runPure]

theorem nothrow_ln : NoThrow (fun _ v => IsReal v) (Gen.lnP : Prog F (Val F)) := by
  intro argv par vars h
  obtain ⟨a0, e0, t0⟩ := h 0; obtain ⟨a1, e1, t1⟩ := h 1; obtain ⟨a2, e2, t2⟩ := h 2
  obtain ⟨a3, e3, t3⟩ := h 3; obtain ⟨a4, e4, t4⟩ := h 4
  unfold Gen.lnP
  simp only [Prog.runPure, e0, e1, e2, e3, e4]
  cases a0 <;>
    simp_all [IsReal, IsStr, Val.hasValue, Val.withDbl, Val.withStr, Prog.runPure] <;>
    (repeat' split) <;> simp_all [Prog.runPure]

theorem nothrow_lt : NoThrow (fun _ v => IsReal v) (Gen.ltP : Prog F (Val F)) := by
  intro argv par vars h
  obtain ⟨a0, e0, t0⟩ := h 0; obtain ⟨a1, e1, t1⟩ := h 1; obtain ⟨a2, e2, t2⟩ := h 2
  obtain ⟨a3, e3, t3⟩ := h 3; obtain ⟨a4, e4, t4⟩ := h 4
  unfold Gen.ltP
  simp only [Prog.runPure, e0, e1, e2, e3, e4]
  cases a0 <;> cases a1 <;>
    simp_all [IsReal, IsStr, Val.hasValue, Val.withDbl, Val.withStr, Prog.runPure] <;>
    (repeat' split) <;> simp_all [Prog.runPure]

theorem nothrow_max : NoThrow (fun _ v => IsReal v) (Gen.maxP : Prog F (Val F)) := by
  intro argv par vars h
  obtain ⟨a0, e0, t0⟩ := h 0; obtain ⟨a1, e1, t1⟩ := h 1; obtain ⟨a2, e2, t2⟩ := h 2
  obtain ⟨a3, e3, t3⟩ := h 3; obtain ⟨a4, e4, t4⟩ := h 4
  unfold Gen.maxP
  simp only [Prog.runPure, e0, e1, e2, e3, e4]
  cases a0 <;> cases a1 <;>
    simp_all [IsReal, IsStr, Val.hasValue, Val.withDbl, Val.withStr, Prog.runPure] <;>
    (repeat' split) <;> simp_all [Prog.runPure]

theorem nothrow_mod : NoThrow (fun _ v => IsReal v) (Gen.modP : Prog F (Val F)) := by
  intro argv par vars h
  obtain ⟨a0, e0, t0⟩ := h 0; obtain ⟨a1, e1, t1⟩ := h 1; obtain ⟨a2, e2, t2⟩ := h 2
  obtain ⟨a3, e3, t3⟩ := h 3; obtain ⟨a4, e4, t4⟩ := h 4
  unfold Gen.modP
  simp only [Prog.runPure, e0, e1, e2, e3, e4]
  cases a0 <;> cases a1 <;>
    simp_all [IsReal, IsStr, Val.hasValue, Val.withDbl, Val.withStr, Prog.runPure] <;>
    (repeat' split) <;> simp_all [Prog.runPure]

theorem nothrow_mul : NoThrow (fun _ v => IsReal v) (Gen.mulP : Prog F (Val F)) := by
  intro argv par vars h
  obtain ⟨a0, e0, t0⟩ := h 0; obtain ⟨a1, e1, t1⟩ := h 1; obtain ⟨a2, e2, t2⟩ := h 2
  obtain ⟨a3, e3, t3⟩ := h 3; obtain ⟨a4, e4, t4⟩ := h 4
  unfold Gen.mulP
  simp only [Prog.runPure, e0, e1, e2, e3, e4]
  cases a0 <;> cases a1 <;>
    simp_all [IsReal, IsStr, Val.hasValue, Val.withDbl, Val.withStr, Prog.runPure] <;>
    (repeat' split) <;> simp_all [Prog.runPure]

theorem nothrow_sin : NoThrow (fun _ v => IsReal v) (Gen.sinP : Prog F (Val F)) := by
  intro argv par vars h
  obtain ⟨a0, e0, t0⟩ := h 0; obtain ⟨a1, e1, t1⟩ := h 1; obtain ⟨a2, e2, t2⟩ := h 2
  obtain ⟨a3, e3, t3⟩ := h 3; obtain ⟨a4, e4, t4⟩ := h 4
  unfold Gen.sinP
  simp only [Prog.runPure, e0, e1, e2, e3, e4]
  cases a0 <;>
    simp_all [IsReal, IsStr, Val.hasValue, Val.withDbl, Val.withStr, Prog.runPure] <;>
    (repeat' split) <;> simp_all [Prog.runPure]

theorem nothrow_sqrt : NoThrow (fun _ v => IsReal v) (Gen.sqrtP : Prog F (Val F)) := by
  intro argv par vars h
  obtain ⟨a0, e0, t0⟩ := h 0; obtain ⟨a1, e1, t1⟩ := h 1; obtain ⟨a2, e2, t2⟩ := h 2
  obtain ⟨a3, e3, t3⟩ := h 3; obtain ⟨a4, e4, t4⟩ := h 4
  unfold Gen.sqrtP
  simp only [Prog.runPure, e0, e1, e2, e3, e4]
  cases a0 <;>
    simp_all [IsReal, IsStr, Val.hasValue, Val.withDbl, Val.withStr, Prog.runPure] <;>
    (repeat' split) <;> simp_all [Prog.runPure]

theorem nothrow_sub : NoThrow (fun _ v => IsReal v) (Gen.subP : Prog F (Val F)) := by
  intro argv par vars h
  obtain ⟨a0, e0, t0⟩ := h 0; obtain ⟨a1, e1, t1⟩ := h 1; obtain ⟨a2, e2, t2⟩ := h 2
  obtain ⟨a3, e3, t3⟩ := h 3; obtain ⟨a4, e4, t4⟩ := h 4
  unfold Gen.subP
  simp only [Prog.runPure, e0, e1, e2, e3, e4]
  cases a0 <;> cases a1 <;>
    simp_all [IsReal, IsStr, Val.hasValue, Val.withDbl, Val.withStr, Prog.runPure] <;>
    (repeat' split) <;> simp_all [Prog.runPure]

theorem nothrow_sigmoid : NoThrow (fun _ v => IsReal v) (Gen.sigmoidP : Prog F (Val F)) := by
  intro argv par vars h
  obtain ⟨a0, e0, t0⟩ := h 0; obtain ⟨a1, e1, t1⟩ := h 1; obtain ⟨a2, e2, t2⟩ := h 2
  obtain ⟨a3, e3, t3⟩ := h 3; obtain ⟨a4, e4, t4⟩ := h 4
  unfold Gen.sigmoidP
  simp only [Prog.runPure, e0, e1, e2, e3, e4]
  cases a0 <;>
    simp_all [IsReal, IsStr, Val.hasValue, Val.withDbl, Val.withStr, Prog.runPure] <;>
    (repeat' split) <;> simp_all [Prog.runPure]

theorem nothrow_sife : NoThrow (fun _ _ => True) (Gen.sifeP : Prog F (Val F)) := by
  intro argv par vars h
  obtain ⟨a0, e0, t0⟩ := h 0; obtain ⟨a1, e1, t1⟩ := h 1; obtain ⟨a2, e2, t2⟩ := h 2
  obtain ⟨a3, e3, t3⟩ := h 3; obtain ⟨a4, e4, t4⟩ := h 4
  unfold Gen.sifeP
  simp only [Prog.runPure, e0, e1, e2, e3, e4]
  cases a0 <;> cases a1 <;>
    simp_all [IsReal, IsStr, Val.hasValue, Val.withDbl, Val.withStr, Prog.runPure] <;>
    (repeat' split) <;> simp_all [Prog.runPure]

/-! ### coverage: every symbol class of src/kernel/gp/src/primitive/*.h (class list from the AST) -/

theorem headers_covered :
    GenExt.headers = ["bool.h", "comp_penalty.h", "factory.h", "int.h", "real.h", "string.h"] := by decide

/-- the symbol classes defined in those headers (+ `variable`, `constant<T>`): a class added to any of them
    makes the check fail until it is accounted for -/
theorem classes_covered :
    GenExt.classes.map (·.1) =
      ["boolean::zero", "boolean::one", "boolean::l_and", "boolean::l_not", "boolean::l_or",
       "integer::number", "integer::add", "integer::div", "integer::ife", "integer::ifl", "integer::ifz",
       "integer::mod", "integer::mul", "integer::shl", "integer::sub",
       "real::real", "real::integer", "real::abs", "real::add", "real::aq", "real::cos", "real::div", "real::gt",
       "real::idiv", "real::ifb", "real::ife", "real::ifl", "real::ifz", "real::length", "real::ln", "real::lt",
       "real::max", "real::mod", "real::mul", "real::sin", "real::sqrt", "real::sub", "real::sigmoid",
       "str::ife", "variable", "constant<double>", "constant<int>", "constant<string>"] ∧
    GenExt.otherClasses = ["build_info", "symbol_factory"] ∧
    GenExt.functions = ["integer::cast", "real::base"] := by decide

/-- every class has an `eval` body and it is one of the generated definitions the theorems are about
    (real family / `str::ife`: `closed_p strict_p spec_p nothrow_p` above; boolean family, variables,
    constants: below; integer family: C14 and `closed_int_family`) -/
theorem bodies_covered :
    GenExt.bodyOf.map (·.1) = GenExt.classes.map (·.1) ∧
    GenExt.bodyOf.map (·.2) =
      ["C13.GenExt.boolean_zeroP", "C13.GenExt.boolean_oneP", "C13.GenExt.boolean_l_andP",
       "C13.GenExt.boolean_l_notP", "C13.GenExt.boolean_l_orP",
       "C14.GenNum.numberEval", "C14.Gen.addE", "C14.Gen.divE", "C14.Gen.ifeE", "C14.Gen.iflE", "C14.Gen.ifzE",
       "C14.Gen.modE", "C14.Gen.mulE", "C14.Gen.shlE", "C14.Gen.subE",
       "C13.Gen.realP", "C13.Gen.integerP", "C13.Gen.absP", "C13.Gen.addP", "C13.Gen.aqP", "C13.Gen.cosP",
       "C13.Gen.divP", "C13.Gen.gtP", "C13.Gen.idivP", "C13.Gen.ifbP", "C13.Gen.ifeP", "C13.Gen.iflP",
       "C13.Gen.ifzP", "C13.Gen.lengthP", "C13.Gen.lnP", "C13.Gen.ltP", "C13.Gen.maxP", "C13.Gen.modP",
       "C13.Gen.mulP", "C13.Gen.sinP", "C13.Gen.sqrtP", "C13.Gen.subP", "C13.Gen.sigmoidP", "C13.Gen.sifeP",
       "C13.GenExt.variableP", "C13.GenExt.constant_doubleP", "C13.GenExt.constant_intP",
       "C13.GenExt.constant_stringP"] := by
  constructor <;> decide

/-- every member defined with a body is accounted for: `eval` (bodies), `init` (`*_init_fin`), the constant
    boolean members (`flags_spec`), `penalty_nvi` (`compPenalty_*`); `display` / `quote_str` are C19's -/
theorem members_covered :
    ∀ c ∈ GenExt.classes, ∀ m ∈ c.2.2.1,
      m ∈ ["eval", "init", "parametric", "associative", "input", "penalty_nvi", "display", "quote_str"] := by
  decide

theorem flags_spec :
    GenExt.flags = [("boolean::l_and", "associative", true), ("boolean::l_or", "associative", true),
      ("real::real", "parametric", true), ("real::integer", "parametric", true), ("real::add", "associative", true),
      ("variable", "input", true)] ∧
    GenExt.penalties = ["real::ife", "real::ifl"] := by decide

/-! ### the other symbol kinds: boolean family, variables, constants, integer family -/

theorem closed_bool_zero : Closed (GenExt.boolean_zeroP : Prog F (Val F)) := by
  apply closed_of_syn; simp [GenExt.boolean_zeroP, ClosedSyn, Good, Val.ofBool]

theorem closed_bool_one : Closed (GenExt.boolean_oneP : Prog F (Val F)) := by
  apply closed_of_syn; simp [GenExt.boolean_oneP, ClosedSyn, Good, Val.ofBool]

theorem closed_bool_and : Closed (GenExt.boolean_l_andP : Prog F (Val F)) := by
  apply closed_of_syn; unfold GenExt.boolean_l_andP
  intro v _; cases v <;> simp only [Val.withInt, ClosedSyn]
  split
  · intro w _; cases w <;> simp [Val.withInt, ClosedSyn, Good, Val.ofBool]
  · simp [ClosedSyn, Good, Val.ofBool]

theorem closed_bool_not : Closed (GenExt.boolean_l_notP : Prog F (Val F)) := by
  apply closed_of_syn; unfold GenExt.boolean_l_notP
  intro v _; cases v <;> simp [Val.withInt, ClosedSyn, Good, Val.ofBool]

theorem closed_bool_or : Closed (GenExt.boolean_l_orP : Prog F (Val F)) := by
  apply closed_of_syn; unfold GenExt.boolean_l_orP
  intro v _; cases v <;> simp only [Val.withInt, ClosedSyn]
  split
  · simp [ClosedSyn, Good, Val.ofBool]
  · intro w _; cases w <;> simp [Val.withInt, ClosedSyn, Good, Val.ofBool]

/-- a variable hands back the feature it reads -/
theorem closed_variable (k : Nat) : Closed (GenExt.variableP k : Prog F (Val F)) := by
  apply closed_of_syn; intro v hv; exact hv

/-- a constant of type `double` is closed exactly when it is finite … -/
theorem closed_constant_double (c : F) (h : isFinite c = true) :
    Closed (GenExt.constant_doubleP c : Prog F (Val F)) := by
  apply closed_of_syn; exact h

theorem closed_constant_int (n : Int) : Closed (GenExt.constant_intP n : Prog F (Val F)) := by
  apply closed_of_syn; trivial

theorem closed_constant_string (s : String) (h : s.utf8ByteSize < 2 ^ 64) :
    Closed (GenExt.constant_stringP s : Prog F (Val F)) := by
  apply closed_of_syn; exact h

/-- the integer family: whatever expression int.h contains, the lifted body returns an `int`, hands an
    argument back or raises – it cannot introduce a NaN or an infinity into a multi-category program -/
theorem closed_int_family (e : IntE.E) : Closed (C01.progOfE e : Prog F (Val F)) := by
  apply closed_of_syn
  unfold C01.progOfE
  exact closedSyn_fetchInts _ _ _ (fun ρ' => closedSyn_tailE _ e)

theorem closed_number : Closed (numberP : Prog F (Val F)) := by
  apply closed_of_syn
  intro p _
  show ClosedSyn (match C14.GenNum.numberEval (toBits p).toNat with
    | .ok n => .ret (.int n)
    | .error _ => .throw)
  split <;> trivial

/-- EVERY shipped symbol kind is closed -/
theorem shipped_closed (A : ArithLaws F) (S : SizeLaw F) :
    ∀ b : Prog F (Val F), Shipped b → Closed b := by
  intro b hb
  cases hb with
  | real p hp => exact prims_closed A S p hp
  | boolZero => exact closed_bool_zero
  | boolOne => exact closed_bool_one
  | boolAnd => exact closed_bool_and
  | boolNot => exact closed_bool_not
  | boolOr => exact closed_bool_or
  | int e _ => exact closed_int_family e.2
  | number => exact closed_number
  | var k => exact closed_variable k
  | constD c h => exact closed_constant_double c h
  | constI n => exact closed_constant_int n
  | constS s h => exact closed_constant_string s h

/-- hence vita's interpreter, on every well-formed program of ANY number of categories whose genes carry
    shipped symbols of any kind (functions of the real / integer / boolean / string families, ephemeral
    constants with finite parameters, variables, finite constants), run on a finite-or-undefined example
    from any interpreter state, yields a finite number, an integer, a string, the undefined value or an
    exception – never a NaN or an infinity -/
theorem run_closed_shipped (A : ArithLaws F) (S : SizeLaw F) (g : C01.Genome F) (h : C01.WF g)
    (hg : ∀ l, Shipped (g.gene l).body ∧ isFinite (g.gene l).par = true)
    (ex : List (Val F)) (hex : ∀ v ∈ ex, Good v) (s : C01.St F) :
    GoodO (C01.run g ex s).1 :=
  run_closed g h (fun l => ⟨shipped_closed A S _ (hg l).1, (hg l).2⟩) ex hex s

/-! ### boolean family: the documented truth tables (short-circuit included) -/

theorem spec_bool_and (argv : Nat → Option (Val F)) (par : F) (vars : Nat → Val F) (a b : Int)
    (h0 : argv 0 = some (.int a)) (h1 : argv 1 = some (.int b)) :
    (GenExt.boolean_l_andP : Prog F (Val F)).runPure argv par vars = some (.ofBool (decide (a ≠ 0 ∧ b ≠ 0))) ∧
    (GenExt.boolean_l_andP : Prog F (Val F)).asked argv par vars = (if a ≠ 0 then [0, 1] else [0]) := by
  unfold GenExt.boolean_l_andP
  simp only [Prog.runPure, Prog.asked, h0, Val.withInt]
  by_cases ha : a = 0 <;> simp [ha, Prog.runPure, Prog.asked, h1, Val.withInt]

theorem spec_bool_or (argv : Nat → Option (Val F)) (par : F) (vars : Nat → Val F) (a b : Int)
    (h0 : argv 0 = some (.int a)) (h1 : argv 1 = some (.int b)) :
    (GenExt.boolean_l_orP : Prog F (Val F)).runPure argv par vars = some (.ofBool (decide (a ≠ 0 ∨ b ≠ 0))) ∧
    (GenExt.boolean_l_orP : Prog F (Val F)).asked argv par vars = (if a ≠ 0 then [0] else [0, 1]) := by
  unfold GenExt.boolean_l_orP
  simp only [Prog.runPure, Prog.asked, h0, Val.withInt]
  by_cases ha : a = 0 <;> simp [ha, Prog.runPure, Prog.asked, h1, Val.withInt]

theorem spec_bool_not (argv : Nat → Option (Val F)) (par : F) (vars : Nat → Val F) (a : Int)
    (h0 : argv 0 = some (.int a)) :
    (GenExt.boolean_l_notP : Prog F (Val F)).runPure argv par vars = some (.ofBool (decide (a = 0))) := by
  unfold GenExt.boolean_l_notP
  simp [Prog.runPure, h0, Val.withInt]

theorem spec_bool_const (argv : Nat → Option (Val F)) (par : F) (vars : Nat → Val F) :
    (GenExt.boolean_zeroP : Prog F (Val F)).runPure argv par vars = some (.int 0) ∧
    (GenExt.boolean_oneP : Prog F (Val F)).runPure argv par vars = some (.int 1) := by
  constructor <;> rfl

/-- the boolean primitives are NOT strict in the undefined value: they read their argument with
    `std::get<int>`, so an undefined argument (e.g. the result of `real::gt` on an undefined operand) leaves
    `eval` as `std::bad_variant_access`.  (Outside the statement of C13, which is about the real-valued
    primitives; recorded because `run_closed_shipped` counts an exception as "not a NaN".) -/
theorem bool_and_raises_on_undefined (argv : Nat → Option (Val F)) (par : F) (vars : Nat → Val F)
    (h0 : argv 0 = some .void) :
    (GenExt.boolean_l_andP : Prog F (Val F)).runPure argv par vars = none := by
  unfold GenExt.boolean_l_andP
  simp [Prog.runPure, h0, Val.withInt]

/-! ### `init()` of the parametric terminals: the gene parameter is finite -/

/-- `real::real::init`: whatever `random::between(min, upp)` returns inside the interval it promises
    (`min ≤ x ≤ upp`, the contract of `std::uniform_real_distribution`), with finite bounds, is finite -/
theorem real_init_fin (C : CoreLaws F) (betweenD : F → F → F) (min upp : F)
    (hmin : isFinite min = true) (hupp : isFinite upp = true)
    (hb : le min (betweenD min upp) = true ∧ le (betweenD min upp) upp = true) :
    isFinite (GenExt.real_realInit betweenD min upp) = true := by
  unfold GenExt.real_realInit
  exact C.between_fin _ _ _ hmin hupp hb.1 hb.2

/-- `real::integer::init`: an `int` converted to `double` -/
theorem integer_init_fin (I : IntLaw F) (between : Int → Int → Int) (min upp : Int)
    (hmin : IntE.In32 min) (hupp : IntE.In32 upp)
    (hb : min ≤ between min upp ∧ between min upp < upp) :
    isFinite (GenExt.real_integerInit between min upp : F) = true := by
  unfold GenExt.real_integerInit
  apply I
  simp only [IntE.inW32_iff] at *; omega

/-! ### `penalty_nvi` = `comparison_function_penalty`: 0, 1 or 2 -/

theorem compPenalty_spec (idx : Nat → Nat) :
    (GenExt.compPenalty idx : F) =
      ofInt ((if idx 0 = idx 1 then 1 else 0) + (if idx 2 = idx 3 then 1 else 0)) := by
  unfold GenExt.compPenalty IntE.b2i
  by_cases h1 : idx 0 = idx 1 <;> by_cases h2 : idx 2 = idx 3 <;> simp [h1, h2]

theorem compPenalty_fin (I : IntLaw F) (idx : Nat → Nat) : isFinite (GenExt.compPenalty idx : F) = true := by
  rw [compPenalty_spec]
  apply I
  simp only [IntE.inW32_iff]
  (repeat' split) <;> omega

/-! ### non-vacuity: the laws have a model with overflow, and in it the guards bite -/

example : IEEELaws Toy := toy_laws

/-- in the toy model 2^40 · 2^40 overflows: `FMUL` answers the undefined value -/
example : (Gen.mulP : Prog Toy (Val Toy)).runPure (fun _ => some (.dbl (some 1099511627776))) none
    (fun _ => .void) = some .void := by decide

example : (Gen.mulP : Prog Toy (Val Toy)).runPure (fun _ => some (.dbl (some 3))) none
    (fun _ => .void) = some (.dbl (some 9)) := by decide

/-- the hypotheses of `closed_mul` are met by these arguments -/
example : ∀ i : Nat, GoodO ((fun _ => some (.dbl (some 1099511627776)) : Nat → Option (Val Toy)) i) := by
  intro i; simp [GoodO, Good, FloatOps.isFinite]

/-- `FIFE` at the boundary in the toy model (tolerance 0: only equal operands are "small") -/
example : (Gen.ifeP : Prog Toy (Val Toy)).asked
    (fun i => some (.dbl (some (if i = 0 then 5 else 6)))) none (fun _ => .void) = [0, 1, 3] := by decide

/-! ### non-vacuity in a genuine IEEE-style format (`Mini`: 6 bits, round to nearest-even, ±0, subnormals,
    ±inf, NaN) – `mini_core` is checked by `decide` on all its values -/

example : CoreLaws Mini := mini_core
example : ArithLaws Mini := mini_arith

/-- 8 · 8 = 64 overflows (the largest `Mini` is 14): `FMUL` answers the undefined value … -/
example : (Gen.mulP : Prog Mini (Val Mini)).runPure (fun _ => some (.dbl ⟨24⟩)) ⟨0⟩ (fun _ => .void) =
    some .void := by decide

/-- … while 1.25 · 1.25 = 1.5625 is rounded to the nearest value 1.5 -/
example : (Gen.mulP : Prog Mini (Val Mini)).runPure (fun _ => some (.dbl ⟨13⟩)) ⟨0⟩ (fun _ => .void) =
    some (.dbl ⟨14⟩) := by decide

/-- 1/0 and 0/0 are caught by the guard of `FDIV`, −0 is handed on by `FSQRT` -/
example : (Gen.divP : Prog Mini (Val Mini)).runPure (fun i => some (.dbl ⟨if i = 0 then 12 else 0⟩)) ⟨0⟩
    (fun _ => .void) = some .void := by decide
example : (Gen.sqrtP : Prog Mini (Val Mini)).runPure (fun _ => some (.dbl ⟨32⟩)) ⟨0⟩ (fun _ => .void) =
    some (.dbl ⟨32⟩) := by decide

/-- the sigmoid of the largest finite value is 1, of the most negative one 0: finite both -/
example : (Gen.sigmoidP : Prog Mini (Val Mini)).runPure (fun _ => some (.dbl ⟨27⟩)) ⟨0⟩ (fun _ => .void) =
    some (.dbl ⟨12⟩) := by decide
example : (Gen.sigmoidP : Prog Mini (Val Mini)).runPure (fun _ => some (.dbl ⟨59⟩)) ⟨0⟩ (fun _ => .void) =
    some (.dbl ⟨0⟩) := by decide

/-- the conversion laws hold in the bounded-integer model (jointly with every other law: `toy_laws`) -/
theorem toy_int : IntLaw Toy := by
  intro n hn
  simp only [IntE.inW32_iff] at hn
  show (Toy.mk n).isSome = true
  unfold Toy.mk Toy.bound
  have : -1180591620717411303424 ≤ n ∧ n ≤ 1180591620717411303424 := by omega
  simp [this]

example : SizeLaw Toy := (ieee_iff.mp toy_laws).2

/-- a two-category program (category 0 real, category 1 boolean) over shipped symbols of several kinds:
        [0,0] FMUL [1,0] [1,0]      [0,1] AND [1,1] [1,1]
        [1,0] X0                    [1,1] >   [2,0] [1,0]
        [2,0] 8.0 (constant)        [2,1] 1   (boolean::one)                                        -/
def miniG (best : C01.Locus) : C01.Genome Mini where
  rows := 3
  cats := 2
  best := best
  gene l :=
    match l.index, l.cat with
    | 0, 0 => ⟨Gen.mulP, ⟨0⟩, [1, 1], [0, 0]⟩
    | 0, 1 => ⟨GenExt.boolean_l_andP, ⟨0⟩, [1, 1], [1, 1]⟩
    | 1, 0 => ⟨GenExt.variableP 0, ⟨0⟩, [], []⟩
    | 1, 1 => ⟨Gen.gtP, ⟨0⟩, [2, 1], [0, 0]⟩
    | 2, 0 => ⟨GenExt.constant_doubleP ⟨24⟩, ⟨0⟩, [], []⟩
    | _, _ => ⟨GenExt.boolean_oneP, ⟨0⟩, [], []⟩

/-- every gene of it carries a shipped symbol and a finite parameter (hypothesis of `run_closed_shipped`) -/
example (b : C01.Locus) : ∀ l, Shipped ((miniG b).gene l).body ∧ isFinite ((miniG b).gene l).par = true := by
  intro l
  refine ⟨?_, by simp only [miniG]; split <;> decide⟩
  simp only [miniG]
  split
  · exact Shipped.real ("mul", Gen.mulP) (by simp [Gen.prims])
  · exact Shipped.boolAnd
  · exact Shipped.var 0
  · exact Shipped.real ("gt", Gen.gtP) (by simp [Gen.prims])
  · exact Shipped.constD _ (by decide)
  · exact Shipped.boolOne

/-- x0 = 8: the real output overflows to the undefined value; the boolean output is `8 > 8 && 8 > 8` = 0 -/
example : (C01.run (miniG ⟨0, 0⟩) [.dbl ⟨24⟩] (C01.St.init (miniG ⟨0, 0⟩))).1 = some .void := by decide
example : (C01.run (miniG ⟨0, 1⟩) [.dbl ⟨24⟩] (C01.St.init (miniG ⟨0, 1⟩))).1 = some (.int 0) := by decide
/-- x0 = 2: 4 and `8 > 2` = 1 -/
example : (C01.run (miniG ⟨0, 0⟩) [.dbl ⟨16⟩] (C01.St.init (miniG ⟨0, 0⟩))).1 = some (.dbl ⟨20⟩) := by decide
example : (C01.run (miniG ⟨0, 1⟩) [.dbl ⟨16⟩] (C01.St.init (miniG ⟨0, 1⟩))).1 = some (.int 1) := by decide
/-- a missing feature: the real output is undefined, the boolean one raises (see `bool_and_raises_on_undefined`) -/
example : (C01.run (miniG ⟨0, 1⟩) [] (C01.St.init (miniG ⟨0, 1⟩))).1 = none := by decide

end Vita.C13
