/-
  Line-protocol encoding of values (shared by the C13 and C01 drivers and mirrored by
  harness/common/c01_wire.h):
      V            the undefined value (std::monostate)
      I<decimal>   int
      D<16 hex>    double, as its 64-bit pattern
      S<hex>       string, bytes in hex ("S-" = empty string)
      T            (outcomes only) an exception left the evaluation
-/
import Vita.Common.FloatOps

namespace Vita.Wire
open Vita

def hexDigit? (c : Char) : Option Nat :=
  if '0' ≤ c ∧ c ≤ '9' then some (c.toNat - '0'.toNat)
  else if 'a' ≤ c ∧ c ≤ 'f' then some (c.toNat - 'a'.toNat + 10)
  else if 'A' ≤ c ∧ c ≤ 'F' then some (c.toNat - 'A'.toNat + 10)
  else none

def hexNat? (s : String) : Option Nat :=
  if s.isEmpty then none else
  s.toList.foldl (fun acc c => match acc, hexDigit? c with
    | some a, some d => some (a * 16 + d)
    | _, _ => none) (some 0)

def hexBytes? : List Char → Option (List UInt8)
  | [] => some []
  | [_] => none
  | a :: b :: rest =>
    match hexDigit? a, hexDigit? b, hexBytes? rest with
    | some x, some y, some r => some (UInt8.ofNat (x * 16 + y) :: r)
    | _, _, _ => none

def hexDigitChar (n : Nat) : Char :=
  if n < 10 then Char.ofNat ('0'.toNat + n) else Char.ofNat ('a'.toNat + n - 10)

def toHex16 (n : UInt64) : String :=
  String.ofList ((List.range 16).map fun i => hexDigitChar ((n.toNat >>> (4 * (15 - i))) % 16))

def strHex (s : String) : String :=
  if s.isEmpty then "-" else
  String.ofList (s.toUTF8.toList.flatMap fun b => [hexDigitChar (b.toNat / 16), hexDigitChar (b.toNat % 16)])

def decodeStr? (h : String) : Option String :=
  if h == "-" then some "" else
  match hexBytes? h.toList with
  | none => none
  | some bs => String.fromUTF8? (ByteArray.mk bs.toArray)

def decodeVal? (t : String) : Option (Val Float) :=
  match t.toList with
  | ['V'] => some .void
  | 'I' :: r => (String.ofList r).toInt?.map .int
  | 'D' :: r => (hexNat? (String.ofList r)).map fun n => .dbl (Float.ofBits (UInt64.ofNat n))
  | 'S' :: r => (decodeStr? (String.ofList r)).map .str
  | _ => none

def encodeVal : Val Float → String
  | .void => "V"
  | .int n => s!"I{n}"
  | .dbl x => "D" ++ toHex16 x.toBits
  | .str s => "S" ++ strHex s

def encodeOut : Option (Val Float) → String
  | none => "T"
  | some v => encodeVal v

end Vita.Wire
